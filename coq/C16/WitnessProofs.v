(* C16: the full statements and their refutation witnesses. *)
From Coq Require Import ZArith List Bool Lia.
From GD Require Import C06.Convert C01.Field C01.Read C01.Inst C01.Witness C01.WitnessProofs C16.Limits C16.LimitsProofs.
Import ListNotations.
Local Open Scope Z_scope.

(* gd_getdata(f, s, n) returns min(n, max(0, gd_eof(f) - s)) samples, for every field and window *)
Definition count_is_eof_statement (v : variant) : Prop :=
  forall (A : Alg) (db : database) (lb : Z) (f : field) (rt : ctype) (s n e : Z),
    wf db f -> 0 <= s -> 0 <= n -> impl_eof db v f = Some e ->
    read_count A db v lb rt f s n = Some (Z.min n (Z.max 0 (e - s))).

(* samples at and after gd_bof are made of real data only, samples below are not *)
Definition bof_is_first_real_statement (v : variant) : Prop :=
  forall (db : database) (f : field) (k : Z),
    wf db f -> 0 <= k -> (is_real db f k = true <-> impl_bof db v f <= k).

Lemma wf_m32 : wf db_32 m_ab.
Proof. vm_compute. intuition discriminate. Qed.
Lemma wf_q : wf db_a4 q_nested.
Proof. vm_compute. intuition discriminate. Qed.

(* a at 3 samples/frame (20 samples), b at 2 with one sample, m MULTIPLY a b:
   gd_eof = 1, yet a read of 2 samples from sample 1 returns one *)
Lemma witness_multirate_count :
  impl_eof db_32 v0 m_ab = Some 1 /\ read_count XAlg db_32 v0 (-1) F64 m_ab 1 2 = Some 1.
Proof. vm_compute. auto. Qed.

(* p PHASE a 10, q PHASE p -8 over 4 samples of a: gd_eof(q) = 8 and gd_bof(q) = 8,
   yet q has exactly two samples, 0 and 1, and both are real data *)
Lemma witness_nested_phase :
  impl_eof db_a4 v0 q_nested = Some 8 /\ read_count XAlg db_a4 v0 (-1) F64 q_nested 0 10 = Some 2 /\
  impl_bof db_a4 v0 q_nested = 8 /\ is_real db_a4 q_nested 0 = true.
Proof. vm_compute. auto. Qed.

Lemma count_statement_refuted : ~ count_is_eof_statement v0.
Proof.
  intro H. destruct witness_nested_phase as (He & Hc & _).
  pose proof (H XAlg db_a4 (-1) q_nested F64 0 10 8 wf_q ltac:(lia) ltac:(lia) He) as H0.
  assert (E : Some 2 = Some (Z.min 10 (Z.max 0 (8 - 0)))).
  { transitivity (read_count XAlg db_a4 v0 (-1) F64 q_nested 0 10); [symmetry; exact Hc|exact H0]. }
  clear - E. vm_compute in E. discriminate E.
Qed.

Lemma bof_statement_refuted : ~ bof_is_first_real_statement v0.
Proof.
  intro H. destruct witness_nested_phase as (_ & _ & Hb & Hr).
  pose proof (proj1 (H db_a4 q_nested 0 wf_q ltac:(lia)) Hr) as H0. rewrite Hb in H0. lia.
Qed.

(* hypotheses of the partial theorems are satisfiable: an aligned two-rate read *)
Lemma count_example :
  wf db_ab m_ab /\ covered XAlg db_ab v0 (-1) F64 m_ab 2 40 /\ noclamp db_ab m_ab /\
  impl_eof db_ab v0 m_ab = Some 8 /\ read_count XAlg db_ab v0 (-1) F64 m_ab 2 40 = Some 6.
Proof. vm_compute. intuition discriminate. Qed.

(* the same witnesses with the proposed repairs (C01-2, C16-1, C16-2) *)
Lemma witness_repaired :
  impl_eof db_32 v1 m_ab = Some 1 /\ read_count XAlg db_32 v1 (-1) F64 m_ab 1 2 = Some 0 /\
  impl_eof db_a4 v1 q_nested = Some 2 /\ read_count XAlg db_a4 v1 (-1) F64 q_nested 0 10 = Some 2 /\
  impl_bof db_a4 v1 q_nested = 0.
Proof. vm_compute. auto. Qed.

(* with the repairs the count statement holds at full strength for fields without MPLEX *)
Lemma count_is_eof_repaired (A : Alg) db v lb f rt s n e :
  read_repaired v -> v_clamp v = true -> wf db f -> mplex_free f -> 0 <= s -> 0 <= n ->
  impl_eof db v f = Some e ->
  read_count A db v lb rt f s n = Some (Z.min n (Z.max 0 (e - s))).
Proof.
  intros Hv Hc Hw Hm Hs Hn He. apply (count_is_eof db v lb A f rt s n e); auto.
  unfold covered. apply uncovered_repaired; auto.
Qed.

(* ---- the frozen tree (vc): what is still false, what holds ------------------------- *)
(* r1 at 2 samples/frame, f3 = PHASE r2 -1 at 7, frame offset 2: gd_bof(m) = 4, yet
   sample 4 of m uses f3[14], which is padding; the first all-real sample is 5 *)
Lemma witness_bof_floor :
  impl_bof db_bof vc m_bof = 4 /\ is_real db_bof m_bof 4 = false /\ is_real db_bof m_bof 5 = true.
Proof. vm_compute. auto. Qed.

Lemma bof_statement_refuted_current : ~ bof_is_first_real_statement vc.
Proof.
  intro H. destruct witness_bof_floor as (Hb & Hr & _).
  assert (Hw : wf db_bof m_bof) by (vm_compute; intuition discriminate).
  pose proof (proj2 (H db_bof m_bof 4 Hw ltac:(lia))) as H0. rewrite Hb in H0.
  rewrite H0 in Hr by lia. discriminate.
Qed.

(* MPLEX over a forward-shifted PHASE: the re-seek after the look-back fails *)
Lemma witness_mplex_reseek :
  impl_eof db_mx vc x_mx = Some 14 /\ read_count XAlg db_mx vc (-1) F64 x_mx 0 1 = None /\
  uncovered XAlg db_mx vc (-1) F64 x_mx 0 1 = [TMplexSeek].
Proof. vm_compute. auto. Qed.

Lemma count_statement_refuted_current : ~ count_is_eof_statement vc.
Proof.
  intro H. destruct witness_mplex_reseek as (He & Hc & _).
  assert (Hw : wf db_mx x_mx) by (vm_compute; intuition discriminate).
  pose proof (H XAlg db_mx (-1) x_mx F64 0 1 14 Hw ltac:(lia) ltac:(lia) He) as H0.
  rewrite Hc in H0. discriminate.
Qed.

(* the count statement on the frozen tree: every MPLEX-free field and window, the
   only proviso being the padding clause of C01 (which concerns values, not counts) *)
Lemma count_is_eof_current (A : Alg) db v lb f rt s n e :
  v_align v = true -> v_alloc0 v = true -> v_clamp v = true ->
  wf db f -> mplex_free f -> 0 <= s -> 0 <= n ->
  ~ In TRawPad (uncovered A db v lb rt f s n) ->
  impl_eof db v f = Some e ->
  read_count A db v lb rt f s n = Some (Z.min n (Z.max 0 (e - s))).
Proof.
  intros Ha Hz Hc Hw Hm Hs Hn Hp He. apply (count_is_eof db v lb A f rt s n e); auto.
  unfold covered. pose proof (uncovered_current A db v lb f Ha Hz Hm rt s n) as H.
  destruct (uncovered A db v lb rt f s n) as [|t l]; [reflexivity|].
  exfalso. apply Hp. rewrite (H t (or_introl eq_refl)). left. reflexivity.
Qed.
