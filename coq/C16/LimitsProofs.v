(* C16 proofs: where the extent computations of flimits.c agree with what the
   read path returns and with the documented extents. *)
From Coq Require Import ZArith List Bool Lia.
From GD Require Import C06.Convert C01.Field C01.Read C01.ListLemmas C01.ReadProofs C16.Limits.
Import ListNotations.
Local Open Scope Z_scope.

Section LimitsProofs.
Context (db : database) (v : variant) (lb : Z).

Notation spf := (spf db).
Notation eof := (eof db).
Notation wf := (wf db).
Notation noclamp := (noclamp db).
Notation noclampb := (noclampb db).

Definition eof_rep (e : ext) (p : Z * bool) : Prop :=
  match e with Fin x => p = (x, false) | Inf => snd p = true end.

Lemma eof_step_rep e1 e2 p1 p2 s1 s2 :
  eof_rep e1 p1 -> eof_rep e2 p2 ->
  eof_rep (emin e1 (escale e2 s1 s2)) (eof_step (fst p1) (snd p1) (fst p2) (snd p2) s1 s2).
Proof.
  destruct p1 as [ns ii], p2 as [ns1 ii1]. unfold eof_rep, eof_step. simpl.
  destruct e1 as [x|], e2 as [y|]; simpl; intros H1 H2.
  - injection H1 as -> ->. injection H2 as -> ->. simpl.
    destruct (Z.ltb_spec (y * s1 / s2) x); f_equal; lia.
  - injection H1 as -> ->. rewrite H2. reflexivity.
  - injection H2 as -> ->. rewrite H1. reflexivity.
  - rewrite H2. exact H1.
Qed.

Lemma noclamp_or_sub (P Q : Prop) : v_clamp v = true \/ (P /\ Q) -> (v_clamp v = true \/ P) /\ (v_clamp v = true \/ Q).
Proof. intros [H|[H1 H2]]; auto. Qed.

Lemma get_eof_spec f : wf f -> v_clamp v = true \/ noclamp f -> eof_rep (eof f) (get_eof db v f).
Proof.
  induction f; simpl; intros Hw Hc.
  - f_equal. unfold raw_start. lia.
  - reflexivity.
  - assert (Hsub : v_clamp v = true \/ noclamp f) by (destruct Hc as [H|[H _]]; auto).
    specialize (IHf Hw Hsub).
    destruct (get_eof db v f) as [ns ii]. destruct (eof f) as [x|] eqn:Ee; unfold eof_rep in *; cbn [eshift].
    + injection IHf as -> ->. cbv zeta iota.
      destruct (v_clamp v) eqn:Ev.
      * f_equal; try lia.
      * destruct Hc as [H|[_ Hx]]; [discriminate|].
        replace (x - shift <? 0) with false by (symmetry; apply Z.ltb_ge; lia).
        f_equal; try lia.
    + cbn [snd] in IHf. subst ii. cbv zeta iota. destruct (v_clamp v); [reflexivity|]. destruct (ns <? 0); reflexivity.
  - auto.
  - destruct Hw. apply noclamp_or_sub in Hc. destruct Hc as [Hc1 Hc2].
    pose proof (eof_step_rep _ _ _ _ (spf f1) (spf f2) (IHf1 H Hc1) (IHf2 H0 Hc2)) as R.
    destruct (get_eof db v f1), (get_eof db v f2). exact R.
  - destruct Hw as (Hw1 & Hw2 & Hw3).
    assert (Hc1 : v_clamp v = true \/ noclamp f1) by (destruct Hc as [H|(H1 & _ & _)]; auto).
    assert (Hc2 : v_clamp v = true \/ noclamp f2) by (destruct Hc as [H|(_ & H2 & _)]; auto).
    assert (Hc3 : v_clamp v = true \/ noclamp f3) by (destruct Hc as [H|(_ & _ & H3)]; auto).
    pose proof (eof_step_rep _ _ _ _ (spf f1) (spf f2) (IHf1 Hw1 Hc1) (IHf2 Hw2 Hc2)) as R.
    destruct (get_eof db v f1) as [ns ii], (get_eof db v f2) as [ns1 ii1]. simpl fst in R. simpl snd in R.
    destruct (eof_step ns ii ns1 ii1 (spf f1) (spf f2)) as [ns' ii'] eqn:E.
    pose proof (eof_step_rep _ _ (ns', ii') _ (spf f1) (spf f3) R (IHf3 Hw3 Hc3)) as R2.
    destruct (get_eof db v f3). exact R2.
  - destruct Hw as (H & H0 & _). apply noclamp_or_sub in Hc. destruct Hc as [Hc1 Hc2].
    pose proof (eof_step_rep _ _ _ _ (spf f1) (spf f2) (IHf1 H Hc1) (IHf2 H0 Hc2)) as R.
    destruct (get_eof db v f1), (get_eof db v f2). exact R.
Qed.

(* gd_eof reports the documented end-of-field (clamped at zero by the repaired
   code) when nothing was clamped inside *)
Lemma impl_eof_spec f : wf f -> v_clamp v = true \/ noclamp f ->
  impl_eof db v f = match eof f with Fin x => Some (if v_clamp v then Z.max 0 x else x) | Inf => None end.
Proof.
  intros Hw Hc. pose proof (get_eof_spec f Hw Hc) as R. unfold impl_eof.
  destruct (get_eof db v f) as [ns ii]. destruct (eof f); simpl in R.
  - injection R as -> ->. reflexivity.
  - subst. reflexivity.
Qed.

Lemma noclampb_sound f : noclampb f = true -> noclamp f.
Proof.
  induction f; simpl; auto.
  - rewrite andb_true_iff. intros [H1 H2]. split; auto.
    destruct (eof f); auto. apply Z.leb_le. exact H2.
  - rewrite andb_true_iff. intros [H1 H2]. auto.
  - rewrite !andb_true_iff. intros [[H1 H2] H3]. auto.
  - rewrite andb_true_iff. intros [H1 H2]. auto.
Qed.

(* ---- counts ---------------------------------------------------------------- *)
Lemma count_is_eof (A : Alg) f rt s n e :
  wf f -> 0 <= s -> 0 <= n -> covered A db v lb rt f s n -> v_clamp v = true \/ noclamp f ->
  impl_eof db v f = Some e ->
  read_count A db v lb rt f s n = Some (Z.min n (Z.max 0 (e - s))).
Proof.
  intros Hw Hs Hn Hc Hnc He. unfold read_count. rewrite (read_ok A db v lb f rt s n Hw Hn Hc). simpl.
  rewrite zlen_spec_window by auto. unfold spec_count.
  rewrite (impl_eof_spec f Hw Hnc) in He. destruct (eof f); inversion He; subst. simpl.
  f_equal. destruct (v_clamp v); lia.
Qed.

Lemma count_no_eof (A : Alg) f rt s n :
  wf f -> 0 <= n -> covered A db v lb rt f s n -> v_clamp v = true \/ noclamp f ->
  impl_eof db v f = None ->
  read_count A db v lb rt f s n = Some n.
Proof.
  intros Hw Hn Hc Hnc He. unfold read_count. rewrite (read_ok A db v lb f rt s n Hw Hn Hc). simpl.
  rewrite zlen_spec_window by auto. unfold spec_count.
  rewrite (impl_eof_spec f Hw Hnc) in He. destruct (eof f); inversion He; subst. reflexivity.
Qed.

(* ---- number of frames ------------------------------------------------------ *)
Lemma nframes_ok id : impl_nframes db id = spec_nframes db id.
Proof. unfold impl_nframes, spec_nframes. lia. Qed.

(* ---- beginning of field ---------------------------------------------------- *)
Lemma cdiv_le_iff a b k : 0 < b -> (cdiv a b <= k <-> a <= k * b).
Proof.
  intro Hb. pose proof (cdiv_ge a b Hb). pose proof (cdiv_lt a b Hb). split; intro; nia.
Qed.

(* the documented beginning-of-field is the first sample made of real data only *)
Lemma is_real_iff f : wf f -> forall k, is_real db f k = true <-> bof_raw db f <= k.
Proof.
  induction f; simpl; intros Hw k.
  - apply Z.leb_le.
  - apply Z.leb_le.
  - rewrite (IHf Hw). lia.
  - apply IHf; auto.
  - destruct Hw as [Hw1 Hw2]. rewrite andb_true_iff, (IHf1 Hw1), (IHf2 Hw2).
    pose proof (spf_pos db f1 Hw1). pose proof (spf_pos db f2 Hw2).
    rewrite (div_ge_iff (k * spf f2) (spf f1) (bof_raw db f2)) by lia.
    rewrite Z.max_lub_iff, cdiv_le_iff by lia. lia.
  - destruct Hw as (Hw1 & Hw2 & Hw3). rewrite !andb_true_iff, (IHf1 Hw1), (IHf2 Hw2), (IHf3 Hw3).
    pose proof (spf_pos db f1 Hw1). pose proof (spf_pos db f2 Hw2). pose proof (spf_pos db f3 Hw3).
    rewrite (div_ge_iff (k * spf f2) (spf f1) (bof_raw db f2)) by lia.
    rewrite (div_ge_iff (k * spf f3) (spf f1) (bof_raw db f3)) by lia.
    rewrite !Z.max_lub_iff, !cdiv_le_iff by lia. lia.
  - destruct Hw as (Hw1 & Hw2 & _). rewrite andb_true_iff, (IHf1 Hw1), (IHf2 Hw2).
    pose proof (spf_pos db f1 Hw1). pose proof (spf_pos db f2 Hw2).
    rewrite (div_ge_iff (k * spf f2) (spf f1) (bof_raw db f2)) by lia.
    rewrite Z.max_lub_iff, cdiv_le_iff by lia. lia.
Qed.

Lemma bof_step_frames Bg Bh s1 s2 : 0 < s1 -> 0 < s2 ->
  bof_step v (Bg, s1, 0) (Bh, s2, 0) = (Z.max Bg Bh, s1, 0).
Proof.
  intros. unfold bof_step. simpl.
  replace (0 <? 0) with false by reflexivity. rewrite andb_false_r, orb_false_r.
  replace (if v_bofceil v then cdiv 0 s2 else 0 / s2) with 0.
  2:{ destruct (v_bofceil v); [unfold cdiv; symmetry; apply Z.div_small; lia | reflexivity]. }
  destruct (Z.ltb_spec Bg Bh); f_equal; f_equal; lia.
Qed.

Lemma get_bof_nophase f : wf f -> nophase f ->
  exists B, get_bof db v f = (B, spf f, 0) /\ bof_raw db f = B * spf f /\ 0 <= B.
Proof.
  induction f; simpl; intros Hw Hp.
  - exists (r_fo (db id)). unfold raw_start. split; [reflexivity|]. split; lia.
  - exists 0. split; [reflexivity|]. split; lia.
  - tauto.
  - auto.
  - destruct Hw as [Hw1 Hw2], Hp as [Hp1 Hp2].
    destruct (IHf1 Hw1 Hp1) as (B1 & E1 & R1 & P1). destruct (IHf2 Hw2 Hp2) as (B2 & E2 & R2 & P2).
    pose proof (spf_pos db f1 Hw1). pose proof (spf_pos db f2 Hw2).
    exists (Z.max B1 B2). rewrite E1, E2, bof_step_frames by lia. split; [reflexivity|].
    rewrite R1, R2. replace (B2 * spf f2 * spf f1) with (B2 * spf f1 * spf f2) by lia.
    rewrite cdiv_mul by lia. split; nia.
  - destruct Hw as (Hw1 & Hw2 & Hw3), Hp as (Hp1 & Hp2 & Hp3).
    destruct (IHf1 Hw1 Hp1) as (B1 & E1 & R1 & P1). destruct (IHf2 Hw2 Hp2) as (B2 & E2 & R2 & P2).
    destruct (IHf3 Hw3 Hp3) as (B3 & E3 & R3 & P3).
    pose proof (spf_pos db f1 Hw1). pose proof (spf_pos db f2 Hw2). pose proof (spf_pos db f3 Hw3).
    exists (Z.max (Z.max B1 B2) B3). rewrite E1, E2, E3, !bof_step_frames by lia. split; [reflexivity|].
    rewrite R1, R2, R3. replace (B2 * spf f2 * spf f1) with (B2 * spf f1 * spf f2) by lia.
    replace (B3 * spf f3 * spf f1) with (B3 * spf f1 * spf f3) by lia.
    rewrite !cdiv_mul by lia. split; nia.
  - destruct Hw as (Hw1 & Hw2 & _), Hp as [Hp1 Hp2].
    destruct (IHf1 Hw1 Hp1) as (B1 & E1 & R1 & P1). destruct (IHf2 Hw2 Hp2) as (B2 & E2 & R2 & P2).
    pose proof (spf_pos db f1 Hw1). pose proof (spf_pos db f2 Hw2).
    exists (Z.max B1 B2). rewrite E1, E2, bof_step_frames by lia. split; [reflexivity|].
    rewrite R1, R2. replace (B2 * spf f2 * spf f1) with (B2 * spf f1 * spf f2) by lia.
    rewrite cdiv_mul by lia. split; nia.
Qed.

(* gd_bof of a field without PHASE is the documented beginning-of-field ... *)
Lemma impl_bof_nophase f : wf f -> nophase f -> impl_bof db v f = spec_bof db f.
Proof.
  intros Hw Hp. destruct (get_bof_nophase f Hw Hp) as (B & E & R & P).
  unfold impl_bof, spec_bof. rewrite E, R. pose proof (spf_pos db f Hw). destruct (v_clamp v); nia.
Qed.

(* ... and exactly the samples from gd_bof on are made of real data only *)
Lemma bof_is_first_real f : wf f -> nophase f ->
  forall k, is_real db f k = true <-> impl_bof db v f <= k.
Proof.
  intros Hw Hp k. rewrite (is_real_iff f Hw k).
  destruct (get_bof_nophase f Hw Hp) as (B & E & R & P).
  unfold impl_bof. rewrite E, R. pose proof (spf_pos db f Hw). destruct (v_clamp v); nia.
Qed.

(* ---- the repaired beginning-of-field (C16-1 + C16-2): every field --------------- *)
Lemma cdiv_add a k b : 0 < b -> cdiv (a + k * b) b = k + cdiv a b.
Proof.
  intro Hb. unfold cdiv. replace (a + k * b + b - 1) with ((a + b - 1) + k * b) by lia.
  rewrite Z.div_add by lia. lia.
Qed.

Lemma cdiv_nonneg a b : 0 < b -> 0 <= a -> 0 <= cdiv a b.
Proof. intros. unfold cdiv. apply Z.div_pos; lia. Qed.

Lemma bof_step_fixed B1 d1 B2 d2 s1 s2 :
  v_bofceil v = true -> 0 < s1 -> 0 < s2 -> 0 <= d1 <= s1 -> 0 <= d2 <= s2 ->
  exists B d, bof_step v (B1, s1, d1) (B2, s2, d2) = (B, s1, d) /\ 0 <= d <= s1 /\
    B * s1 + d = Z.max (B1 * s1 + d1) (cdiv ((B2 * s2 + d2) * s1) s2).
Proof.
  intros Hv H1 H2 Hd1 Hd2. unfold bof_step. rewrite Hv.
  assert (Hc : cdiv ((B2 * s2 + d2) * s1) s2 = B2 * s1 + cdiv (d2 * s1) s2).
  { replace ((B2 * s2 + d2) * s1) with (d2 * s1 + (B2 * s1) * s2) by lia. rewrite cdiv_add by lia. lia. }
  assert (Hlo : 0 <= cdiv (d2 * s1) s2) by (apply cdiv_nonneg; nia).
  assert (Hhi : cdiv (d2 * s1) s2 <= s1) by (apply cdiv_le_iff; nia).
  rewrite Hc.
  destruct (Z.ltb_spec B1 B2) as [Hlt|Hge]; simpl orb.
  - exists B2, (cdiv (d2 * s1) s2). split; [reflexivity|]. split; [lia|]. nia.
  - destruct (Z.eqb_spec B2 B1) as [He|Hne]; simpl andb.
    + destruct (Z.ltb_spec (d1 * s2) (d2 * s1)) as [Hl|Hg].
      * exists B2, (cdiv (d2 * s1) s2). split; [reflexivity|]. split; [lia|].
        assert (d1 < cdiv (d2 * s1) s2).
        { pose proof (cdiv_ge (d2 * s1) s2 H2). nia. }
        subst. lia.
      * exists B1, d1. split; [reflexivity|]. split; [lia|].
        assert (cdiv (d2 * s1) s2 <= d1) by (apply cdiv_le_iff; lia). subst. lia.
    + exists B1, d1. split; [reflexivity|]. split; [lia|]. nia.
Qed.

Lemma get_bof_fixed f : v_clamp v = true -> v_bofceil v = true -> wf f ->
  exists B d, get_bof db v f = (B, spf f, d) /\ 0 <= d <= spf f /\ B * spf f + d = bof_raw db f.
Proof.
  intros Hcl Hce. induction f; simpl; intros Hw.
  - exists (r_fo (db id)), 0. unfold raw_start. split; [reflexivity|]. split; lia.
  - exists 0, 0. split; [reflexivity|]. split; lia.
  - destruct (IHf Hw) as (B & d & E & Hd & R). rewrite E, Hcl.
    pose proof (spf_pos db f Hw) as Hs.
    exists (B + (d - shift) / spf f), ((d - shift) mod spf f). split; [reflexivity|].
    pose proof (Z.mod_pos_bound (d - shift) (spf f) Hs).
    pose proof (Z.div_mod (d - shift) (spf f) ltac:(lia)). split; [lia|]. nia.
  - auto.
  - destruct Hw as [Hw1 Hw2].
    destruct (IHf1 Hw1) as (B1 & d1 & E1 & Hd1 & R1). destruct (IHf2 Hw2) as (B2 & d2 & E2 & Hd2 & R2).
    pose proof (spf_pos db f1 Hw1). pose proof (spf_pos db f2 Hw2).
    destruct (bof_step_fixed B1 d1 B2 d2 (spf f1) (spf f2) Hce ltac:(lia) ltac:(lia) Hd1 Hd2) as (B & d & E & Hd & R).
    exists B, d. rewrite E1, E2, E. split; [reflexivity|]. split; [exact Hd|]. rewrite R, R1, R2. reflexivity.
  - destruct Hw as (Hw1 & Hw2 & Hw3).
    destruct (IHf1 Hw1) as (B1 & d1 & E1 & Hd1 & R1). destruct (IHf2 Hw2) as (B2 & d2 & E2 & Hd2 & R2).
    destruct (IHf3 Hw3) as (B3 & d3 & E3 & Hd3 & R3).
    pose proof (spf_pos db f1 Hw1). pose proof (spf_pos db f2 Hw2). pose proof (spf_pos db f3 Hw3).
    destruct (bof_step_fixed B1 d1 B2 d2 (spf f1) (spf f2) Hce ltac:(lia) ltac:(lia) Hd1 Hd2) as (B & d & E & Hd & R).
    destruct (bof_step_fixed B d B3 d3 (spf f1) (spf f3) Hce ltac:(lia) ltac:(lia) Hd Hd3) as (B' & d' & E' & Hd' & R').
    exists B', d'. rewrite E1, E2, E3, E, E'. split; [reflexivity|]. split; [exact Hd'|].
    rewrite R', R, R1, R2, R3. reflexivity.
  - destruct Hw as (Hw1 & Hw2 & _).
    destruct (IHf1 Hw1) as (B1 & d1 & E1 & Hd1 & R1). destruct (IHf2 Hw2) as (B2 & d2 & E2 & Hd2 & R2).
    pose proof (spf_pos db f1 Hw1). pose proof (spf_pos db f2 Hw2).
    destruct (bof_step_fixed B1 d1 B2 d2 (spf f1) (spf f2) Hce ltac:(lia) ltac:(lia) Hd1 Hd2) as (B & d & E & Hd & R).
    exists B, d. rewrite E1, E2, E. split; [reflexivity|]. split; [exact Hd|]. rewrite R, R1, R2. reflexivity.
Qed.

(* with both repairs gd_bof is the documented beginning-of-field of EVERY field,
   and from sample 0 on exactly the samples at or after it are real data *)
Lemma impl_bof_fixed f : v_clamp v = true -> v_bofceil v = true -> wf f -> impl_bof db v f = spec_bof db f.
Proof.
  intros Hcl Hce Hw. destruct (get_bof_fixed f Hcl Hce Hw) as (B & d & E & _ & R).
  unfold impl_bof, spec_bof. rewrite E, Hcl, R. reflexivity.
Qed.

Lemma bof_is_first_real_fixed f k : v_clamp v = true -> v_bofceil v = true -> wf f -> 0 <= k ->
  (is_real db f k = true <-> impl_bof db v f <= k).
Proof.
  intros Hcl Hce Hw Hk. rewrite (is_real_iff f Hw k), (impl_bof_fixed f Hcl Hce Hw). unfold spec_bof. lia.
Qed.

End LimitsProofs.
