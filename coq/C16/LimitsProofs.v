(* C16 proofs: where the extent computations of flimits.c agree with what the
   read path returns and with the documented extents. *)
From Coq Require Import ZArith List Bool Lia.
From GD Require Import C06.Convert C01.Field C01.Read C01.ListLemmas C01.ReadProofs C16.Limits.
Import ListNotations.
Local Open Scope Z_scope.

Section LimitsProofs.
Context (db : database).

Notation spf := (spf db).
Notation eof := (eof db).
Notation wf := (wf db).
Notation noclamp := (noclamp db).
Notation noclampb := (noclampb db).

Definition eof_rep (e : ext) (p : Z * bool) : Prop :=
  match e with Fin x => p = (x, false) | Inf => snd p = true end.

Lemma eof_step_rep e1 e2 p1 p2 s1 s2 :
  eof_rep e1 p1 -> eof_rep e2 p2 ->
  eof_rep (emin e1 (escale e2 s1 s2)) (eof_step (fst p1) (snd p1) (fst p2) (snd p2) s1 s2).
Proof.
  destruct p1 as [ns ii], p2 as [ns1 ii1]. unfold eof_rep, eof_step. simpl.
  destruct e1 as [x|], e2 as [y|]; simpl; intros H1 H2.
  - injection H1 as -> ->. injection H2 as -> ->. simpl.
    destruct (Z.ltb_spec (y * s1 / s2) x); f_equal; lia.
  - injection H1 as -> ->. rewrite H2. reflexivity.
  - injection H2 as -> ->. rewrite H1. reflexivity.
  - rewrite H2. exact H1.
Qed.

Lemma get_eof_spec f : wf f -> noclamp f -> eof_rep (eof f) (get_eof db f).
Proof.
  induction f; simpl; intros Hw Hc.
  - f_equal. unfold raw_start. lia.
  - reflexivity.
  - destruct Hc as [Hc Hx]. specialize (IHf Hw Hc).
    destruct (get_eof db f) as [ns ii]. destruct (eof f) as [x|]; unfold eof_rep in *; cbn [eshift].
    + injection IHf as -> ->. cbv zeta iota.
      replace (x - shift <? 0) with false by (symmetry; apply Z.ltb_ge; lia).
      f_equal; try lia.
    + cbn [snd] in IHf. subst ii. cbv zeta iota. destruct (ns <? 0); reflexivity.
  - auto.
  - destruct Hw, Hc. pose proof (eof_step_rep _ _ _ _ (spf f1) (spf f2) (IHf1 H H1) (IHf2 H0 H2)) as R.
    destruct (get_eof db f1), (get_eof db f2). exact R.
  - destruct Hw as (Hw1 & Hw2 & Hw3), Hc as (Hc1 & Hc2 & Hc3).
    pose proof (eof_step_rep _ _ _ _ (spf f1) (spf f2) (IHf1 Hw1 Hc1) (IHf2 Hw2 Hc2)) as R.
    destruct (get_eof db f1) as [ns ii], (get_eof db f2) as [ns1 ii1]. simpl fst in R. simpl snd in R.
    destruct (eof_step ns ii ns1 ii1 (spf f1) (spf f2)) as [ns' ii'] eqn:E.
    pose proof (eof_step_rep _ _ (ns', ii') _ (spf f1) (spf f3) R (IHf3 Hw3 Hc3)) as R2.
    destruct (get_eof db f3). exact R2.
  - destruct Hw, Hc. pose proof (eof_step_rep _ _ _ _ (spf f1) (spf f2) (IHf1 H H1) (IHf2 H0 H2)) as R.
    destruct (get_eof db f1), (get_eof db f2). exact R.
Qed.

(* gd_eof reports the documented end-of-field when nothing was clamped *)
Lemma impl_eof_spec f : wf f -> noclamp f ->
  impl_eof db f = match eof f with Fin x => Some x | Inf => None end.
Proof.
  intros Hw Hc. pose proof (get_eof_spec f Hw Hc) as R. unfold impl_eof.
  destruct (get_eof db f) as [ns ii]. destruct (eof f); simpl in R.
  - inversion R; subst. reflexivity.
  - subst. reflexivity.
Qed.

Lemma noclampb_sound f : noclampb f = true -> noclamp f.
Proof.
  induction f; simpl; auto.
  - rewrite andb_true_iff. intros [H1 H2]. split; auto.
    destruct (eof f); auto. apply Z.leb_le. exact H2.
  - rewrite andb_true_iff. intros [H1 H2]. auto.
  - rewrite !andb_true_iff. intros [[H1 H2] H3]. auto.
  - rewrite andb_true_iff. intros [H1 H2]. auto.
Qed.

(* ---- counts ---------------------------------------------------------------- *)
Lemma count_is_eof (A : Alg) f rt s n e :
  wf f -> 0 <= n -> covered A db rt f s n -> noclamp f ->
  impl_eof db f = Some e ->
  read_count A db rt f s n = Some (Z.min n (Z.max 0 (e - s))).
Proof.
  intros Hw Hn Hc Hnc He. unfold read_count. rewrite (read_ok A db f rt s n Hw Hn Hc). simpl.
  rewrite zlen_spec_window by auto. unfold spec_count.
  rewrite (impl_eof_spec f Hw Hnc) in He. destruct (eof f); inversion He; subst. reflexivity.
Qed.

Lemma count_no_eof (A : Alg) f rt s n :
  wf f -> 0 <= n -> covered A db rt f s n -> noclamp f ->
  impl_eof db f = None ->
  read_count A db rt f s n = Some n.
Proof.
  intros Hw Hn Hc Hnc He. unfold read_count. rewrite (read_ok A db f rt s n Hw Hn Hc). simpl.
  rewrite zlen_spec_window by auto. unfold spec_count.
  rewrite (impl_eof_spec f Hw Hnc) in He. destruct (eof f); inversion He; subst. reflexivity.
Qed.

(* ---- number of frames ------------------------------------------------------ *)
Lemma nframes_ok id : impl_nframes db id = spec_nframes db id.
Proof. unfold impl_nframes, spec_nframes. lia. Qed.

(* ---- beginning of field ---------------------------------------------------- *)
Lemma cdiv_le_iff a b k : 0 < b -> (cdiv a b <= k <-> a <= k * b).
Proof.
  intro Hb. pose proof (cdiv_ge a b Hb). pose proof (cdiv_lt a b Hb). split; intro; nia.
Qed.

(* the documented beginning-of-field is the first sample made of real data only *)
Lemma is_real_iff f : wf f -> forall k, is_real db f k = true <-> bof_raw db f <= k.
Proof.
  induction f; simpl; intros Hw k.
  - apply Z.leb_le.
  - apply Z.leb_le.
  - rewrite (IHf Hw). lia.
  - apply IHf; auto.
  - destruct Hw as [Hw1 Hw2]. rewrite andb_true_iff, (IHf1 Hw1), (IHf2 Hw2).
    pose proof (spf_pos db f1 Hw1). pose proof (spf_pos db f2 Hw2).
    rewrite (div_ge_iff (k * spf f2) (spf f1) (bof_raw db f2)) by lia.
    rewrite Z.max_lub_iff, cdiv_le_iff by lia. lia.
  - destruct Hw as (Hw1 & Hw2 & Hw3). rewrite !andb_true_iff, (IHf1 Hw1), (IHf2 Hw2), (IHf3 Hw3).
    pose proof (spf_pos db f1 Hw1). pose proof (spf_pos db f2 Hw2). pose proof (spf_pos db f3 Hw3).
    rewrite (div_ge_iff (k * spf f2) (spf f1) (bof_raw db f2)) by lia.
    rewrite (div_ge_iff (k * spf f3) (spf f1) (bof_raw db f3)) by lia.
    rewrite !Z.max_lub_iff, !cdiv_le_iff by lia. lia.
  - destruct Hw as [Hw1 Hw2]. rewrite andb_true_iff, (IHf1 Hw1), (IHf2 Hw2).
    pose proof (spf_pos db f1 Hw1). pose proof (spf_pos db f2 Hw2).
    rewrite (div_ge_iff (k * spf f2) (spf f1) (bof_raw db f2)) by lia.
    rewrite Z.max_lub_iff, cdiv_le_iff by lia. lia.
Qed.

Lemma bof_step_frames Bg Bh s1 s2 : 0 < s1 -> 0 < s2 ->
  bof_step (Bg, s1, 0) (Bh, s2, 0) = (Z.max Bg Bh, s1, 0).
Proof.
  intros. unfold bof_step. simpl.
  replace (0 <? 0) with false by reflexivity. rewrite andb_false_r, orb_false_r.
  destruct (Z.ltb_spec Bg Bh); f_equal; f_equal; lia.
Qed.

Lemma get_bof_nophase f : wf f -> nophase f ->
  exists B, get_bof db f = (B, spf f, 0) /\ bof_raw db f = B * spf f /\ 0 <= B.
Proof.
  induction f; simpl; intros Hw Hp.
  - exists (r_fo (db id)). unfold raw_start. split; [reflexivity|]. split; lia.
  - exists 0. split; [reflexivity|]. split; lia.
  - tauto.
  - auto.
  - destruct Hw as [Hw1 Hw2], Hp as [Hp1 Hp2].
    destruct (IHf1 Hw1 Hp1) as (B1 & E1 & R1 & P1). destruct (IHf2 Hw2 Hp2) as (B2 & E2 & R2 & P2).
    pose proof (spf_pos db f1 Hw1). pose proof (spf_pos db f2 Hw2).
    exists (Z.max B1 B2). rewrite E1, E2, bof_step_frames by lia. split; [reflexivity|].
    rewrite R1, R2. replace (B2 * spf f2 * spf f1) with (B2 * spf f1 * spf f2) by lia.
    rewrite cdiv_mul by lia. split; nia.
  - destruct Hw as (Hw1 & Hw2 & Hw3), Hp as (Hp1 & Hp2 & Hp3).
    destruct (IHf1 Hw1 Hp1) as (B1 & E1 & R1 & P1). destruct (IHf2 Hw2 Hp2) as (B2 & E2 & R2 & P2).
    destruct (IHf3 Hw3 Hp3) as (B3 & E3 & R3 & P3).
    pose proof (spf_pos db f1 Hw1). pose proof (spf_pos db f2 Hw2). pose proof (spf_pos db f3 Hw3).
    exists (Z.max (Z.max B1 B2) B3). rewrite E1, E2, E3, !bof_step_frames by lia. split; [reflexivity|].
    rewrite R1, R2, R3. replace (B2 * spf f2 * spf f1) with (B2 * spf f1 * spf f2) by lia.
    replace (B3 * spf f3 * spf f1) with (B3 * spf f1 * spf f3) by lia.
    rewrite !cdiv_mul by lia. split; nia.
  - destruct Hw as [Hw1 Hw2], Hp as [Hp1 Hp2].
    destruct (IHf1 Hw1 Hp1) as (B1 & E1 & R1 & P1). destruct (IHf2 Hw2 Hp2) as (B2 & E2 & R2 & P2).
    pose proof (spf_pos db f1 Hw1). pose proof (spf_pos db f2 Hw2).
    exists (Z.max B1 B2). rewrite E1, E2, bof_step_frames by lia. split; [reflexivity|].
    rewrite R1, R2. replace (B2 * spf f2 * spf f1) with (B2 * spf f1 * spf f2) by lia.
    rewrite cdiv_mul by lia. split; nia.
Qed.

(* gd_bof of a field without PHASE is the documented beginning-of-field ... *)
Lemma impl_bof_nophase f : wf f -> nophase f -> impl_bof db f = spec_bof db f.
Proof.
  intros Hw Hp. destruct (get_bof_nophase f Hw Hp) as (B & E & R & P).
  unfold impl_bof, spec_bof. rewrite E, R. pose proof (spf_pos db f Hw). nia.
Qed.

(* ... and exactly the samples from gd_bof on are made of real data only *)
Lemma bof_is_first_real f : wf f -> nophase f ->
  forall k, is_real db f k = true <-> impl_bof db f <= k.
Proof.
  intros Hw Hp k. rewrite (is_real_iff f Hw k).
  destruct (get_bof_nophase f Hw Hp) as (B & E & R & P).
  unfold impl_bof. rewrite E, R. lia.
Qed.

End LimitsProofs.
