(* C16: the extent computations of src/flimits.c and src/nframes.c AS THEY ARE,
   and the extents the documentation defines.

   get_eof   mirrors _GD_GetEOF (flimits.c:146-318): (ns, is_index)
   get_bof   mirrors _GD_GetBOF (flimits.c:353-490): (bof frames, spf, ds)
   impl_eof / impl_bof / impl_nframes: gd_eof64 / gd_bof64 / gd_nframes64
   spec_eof_report, spec_bof: what gd_eof(3) / gd_bof(3) describe, computed
   without intermediate clamping (only the reported number is clamped at 0).
   is_real f k: sample k of f is computed only from RAW samples at or after
   their frame offset (and INDEX samples at or after 0).
   Not mirrored: error returns (unknown encodings, I/O errors); the double
   comparison ds1/spf1 > ds/spf is taken as exact. *)
From Coq Require Import ZArith List Bool Lia.
From GD Require Import C06.Convert C01.Field.
Import ListNotations.
Local Open Scope Z_scope.

Section Limits.
Context (db : database) (v : variant).

Definition eof_step (ns : Z) (ii : bool) (ns1 : Z) (ii1 : bool) (spf0 spf1 : Z) : Z * bool :=
  if ii1 then (ns, ii)
  else
    let ns1' := ns1 * spf0 / spf1 in
    if ii || (ns1' <? ns) then (ns1', false) else (ns, ii).

Fixpoint get_eof (f : field) : Z * bool :=
  match f with
  | Raw id => (zlen (r_data (db id)) + r_fo (db id) * r_spf (db id), false)
  | Index => (-1, true)
  | Un _ g => get_eof g
  | Phase g sh =>
      let '(ns, ii) := get_eof g in
      let ns' := if ii then ns else ns - sh in
      (* clamped here, or (C16-1) only in gd_eof64 *)
      (if v_clamp v then ns' else if ns' <? 0 then 0 else ns', ii)
  | Bin _ g h | Mplex g h _ _ =>
      let '(ns, ii) := get_eof g in
      let '(ns1, ii1) := get_eof h in
      eof_step ns ii ns1 ii1 (spf db g) (spf db h)
  | Tri _ g h l =>
      let '(ns, ii) := get_eof g in
      let '(ns1, ii1) := get_eof h in
      let '(ns', ii') := eof_step ns ii ns1 ii1 (spf db g) (spf db h) in
      let '(ns2, ii2) := get_eof l in
      eof_step ns' ii' ns2 ii2 (spf db g) (spf db l)
  end.

(* gd_eof64: None = GD_E_BAD_FIELD_TYPE (INDEX has no end-of-field) *)
Definition impl_eof (f : field) : option Z :=
  let '(ns, ii) := get_eof f in if ii then None else Some (if v_clamp v then Z.max 0 ns else ns).

Definition bof_step (b : Z * Z * Z) (b1 : Z * Z * Z) : Z * Z * Z :=
  let '(bof, spf0, ds) := b in
  let '(bof1, spf1, ds1) := b1 in
  if (bof <? bof1) || ((bof1 =? bof) && (ds * spf1 <? ds1 * spf0))
  then (bof1, spf0, if v_bofceil v then cdiv (ds1 * spf0) spf1 else ds1 * spf0 / spf1)
  else (bof, spf0, ds).

Fixpoint get_bof (f : field) : Z * Z * Z :=
  match f with
  | Raw id => (r_fo (db id), r_spf (db id), 0)
  | Index => (0, 1, 0)
  | Un _ g => get_bof g
  | Phase g sh =>
      let '(bof, spf0, ds) := get_bof g in
      let ds' := ds - sh in
      let bof' := bof + ds' / spf0 in
      let ds'' := ds' mod spf0 in
      if v_clamp v then (bof', spf0, ds'') else if bof' <? 0 then (0, spf0, 0) else (bof', spf0, ds'')
  | Bin _ g h | Mplex g h _ _ => bof_step (get_bof g) (get_bof h)
  | Tri _ g h l => bof_step (bof_step (get_bof g) (get_bof h)) (get_bof l)
  end.

Definition impl_bof (f : field) : Z :=
  let '(bof, spf0, ds) := get_bof f in
  if v_clamp v then Z.max 0 (bof * spf0 + ds) else bof * spf0 + ds.

(* gd_nframes64 with reference field RAW id *)
Definition impl_nframes (id : N) : Z :=
  zlen (r_data (db id)) / r_spf (db id) + r_fo (db id).

(* ---- documented extents -------------------------------------------------- *)
Definition spec_eof_report (f : field) : option Z :=
  match eof db f with Fin x => Some (Z.max 0 x) | Inf => None end.

(* first sample computed only from real data, before clamping *)
Fixpoint bof_raw (f : field) : Z :=
  match f with
  | Raw id => raw_start (db id)
  | Index => 0
  | Un _ g => bof_raw g
  | Phase g sh => bof_raw g - sh
  | Bin _ g h | Mplex g h _ _ => Z.max (bof_raw g) (cdiv (bof_raw h * spf db g) (spf db h))
  | Tri _ g h l => Z.max (Z.max (bof_raw g) (cdiv (bof_raw h * spf db g) (spf db h)))
                         (cdiv (bof_raw l * spf db g) (spf db l))
  end.
Definition spec_bof (f : field) : Z := Z.max 0 (bof_raw f).

Fixpoint is_real (f : field) (k : Z) : bool :=
  match f with
  | Raw id => raw_start (db id) <=? k
  | Index => 0 <=? k
  | Un _ g => is_real g k
  | Phase g sh => is_real g (k + sh)
  | Bin _ g h | Mplex g h _ _ => is_real g k && is_real h (k * spf db h / spf db g)
  | Tri _ g h l => is_real g k && is_real h (k * spf db h / spf db g) && is_real l (k * spf db l / spf db g)
  end.

(* complete frames of the reference field plus its frame offset *)
Definition spec_nframes (id : N) : Z :=
  r_fo (db id) + zlen (r_data (db id)) / r_spf (db id).

(* no PHASE shifts an end-of-field below zero (where _GD_GetEOF clamps) *)
Fixpoint noclamp (f : field) : Prop :=
  match f with
  | Raw _ | Index => True
  | Un _ g => noclamp g
  | Phase g sh => noclamp g /\ match eof db g with Fin x => 0 <= x - sh | Inf => True end
  | Bin _ g h | Mplex g h _ _ => noclamp g /\ noclamp h
  | Tri _ g h l => noclamp g /\ noclamp h /\ noclamp l
  end.

Fixpoint noclampb (f : field) : bool :=
  match f with
  | Raw _ | Index => true
  | Un _ g => noclampb g
  | Phase g sh => noclampb g && match eof db g with Fin x => 0 <=? x - sh | Inf => true end
  | Bin _ g h | Mplex g h _ _ => noclampb g && noclampb h
  | Tri _ g h l => noclampb g && noclampb h && noclampb l
  end.


Fixpoint nophase (f : field) : Prop :=
  match f with
  | Raw _ | Index => True
  | Phase _ _ => False
  | Un _ g => nophase g
  | Bin _ g h | Mplex g h _ _ => nophase g /\ nophase h
  | Tri _ g h l => nophase g /\ nophase h /\ nophase l
  end.

Fixpoint nophaseb (f : field) : bool :=
  match f with
  | Raw _ | Index => true
  | Phase _ _ => false
  | Un _ g => nophaseb g
  | Bin _ g h | Mplex g h _ _ => nophaseb g && nophaseb h
  | Tri _ g h l => nophaseb g && nophaseb h && nophaseb l
  end.

End Limits.
