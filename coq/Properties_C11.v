(* C11 -- read-only handles and /PROTECT levels are never bypassed.
   Only the property theorems; model in C11/Protect.v, public API and source facts in Gen/PublicApi.v.
   `exec ag ug sg`: ag = the affix calls test access mode and protection (read from the source: true on the frozen tree),
   ug = gd_rename(GD_REN_UPDB) tests the protection of the fragments whose fields it rewrites (false: open finding),
   sg = a write-mode gd_seek tests the access mode (false: open finding, the repository's tests rely on it). *)
From Coq Require Import List String Bool Arith.
From GD Require Import Gen.PublicApi C11.Protect C11.ProtectProofs.
Import ListNotations.

Theorem api_covered : forallb is_classified public_api = true.
Proof. exact api_covered_l. Qed.
Theorem mutators_guarded_in_source : forallb mutator_ok public_api = true.
Proof. exact mutators_guarded_l. Qed.
Theorem affix_calls_guarded_in_source : gen_affix_guarded = true.
Proof. exact gen_affix_guarded_true. Qed.

Definition rdonly_inert_statement (ag ug sg : bool) : Prop :=
  forall s c, rw s = false -> exec ag ug sg s c = (RAccMode, s).
Theorem rdonly_inert : forall ug, rdonly_inert_statement true ug true.
Proof. intros ug s c H. apply rdonly_inert_l; [exact H|right; reflexivity|right; reflexivity]. Qed.
Theorem rdonly_inert_partial : forall s c, rw s = false -> is_seekw_call c = false -> gen_exec s c = (RAccMode, s).
Proof. exact rdonly_inert_gen. Qed.
Theorem rdonly_inert_refuted : ~ rdonly_inert_statement true true false.
Proof. intro H. destruct rdonly_inert_refuted_seekw as [s [c [H1 H2]]]. exact (H2 (H s c H1)). Qed.
Theorem rdonly_inert_refuted_old_affix : exists s c, rw s = false /\ exec false true true s c <> (RAccMode, s).
Proof. exact rdonly_inert_refuted_unguarded. Qed.

Definition protect_respected_statement (ag ug sg : bool) : Prop :=
  forall s c, is_protect_call c = false -> unchanged_protected s (snd (exec ag ug sg s c)).
Theorem protect_respected : forall sg, protect_respected_statement true true sg.
Proof. intros sg s c H. apply protect_respected_l; [exact H|right; reflexivity|right; reflexivity]. Qed.
Theorem protect_respected_partial : forall s c, is_protect_call c = false -> is_updb_call c = false ->
  unchanged_protected s (snd (gen_exec s c)).
Proof. exact protect_respected_gen. Qed.
Theorem protect_respected_refuted : ~ protect_respected_statement true false true.
Proof.
  intro H. destruct protect_respected_refuted_updb as [s [c [H1 [_ H2]]]]. exact (H2 (H s c H1)).
Qed.
Theorem protect_respected_refuted_old_affix : exists s c, is_protect_call c = false /\ ~ unchanged_protected s (snd (exec false true true s c)).
Proof. exact protect_respected_refuted_unguarded. Qed.

Theorem seek_write_refused : forall ag ug sg s frags g, rw s = true -> p_dat (prot_of s g) = true ->
  exec ag ug sg s (CSeekWrite (chain frags (FRaw g))) = (RProtected, s).
Proof. intros ag ug sg s frags g Hr Hp. simpl. rewrite put_leaf_chain, Hp. destruct (sg && negb (rw s)) eqn:E; [rewrite Hr in E; destruct sg; discriminate|reflexivity]. Qed.
Theorem derived_chain_write_refused : forall ag ug sg s frags g, rw s = true -> p_dat (prot_of s g) = true ->
  exec ag ug sg s (CPutData (chain frags (FRaw g))) = (RProtected, s).
Proof. exact chain_write_refused. Qed.
Theorem derived_chain_leaf : forall frags g, put_leaf (chain frags (FRaw g)) = Some g.
Proof. exact put_leaf_chain. Qed.
