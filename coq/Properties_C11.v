(* C11 -- read-only handles and /PROTECT levels are never bypassed.
   Only the property theorems; model in C11/Protect.v, public API and source facts in Gen/PublicApi.v. *)
From Coq Require Import List String Bool Arith.
From GD Require Import Gen.PublicApi C11.Protect C11.ProtectProofs.
Import ListNotations.

Theorem api_covered : forallb is_classified public_api = true.
Proof. exact api_covered_l. Qed.
Theorem mutators_guarded_in_source : forallb mutator_ok public_api = true.
Proof. exact mutators_guarded_l. Qed.

Definition rdonly_inert_statement (ag : bool) : Prop :=
  forall s c, rw s = false -> exec ag s c = (RAccMode, s).
Theorem rdonly_inert : forall s c, rw s = false -> exec true s c = (RAccMode, s).
Proof. intros s c H. apply rdonly_inert_l; [exact H|right; reflexivity]. Qed.
Theorem rdonly_inert_partial : forall s c, rw s = false -> guarded_call gen_affix_guarded c -> gen_exec s c = (RAccMode, s).
Proof. exact (rdonly_inert_l gen_affix_guarded). Qed.
Theorem rdonly_inert_refuted : exists s c, rw s = false /\ exec false s c <> (RAccMode, s).
Proof. exact rdonly_inert_refuted_unguarded. Qed.

Definition protect_respected_statement (ag : bool) : Prop :=
  forall s c, is_protect_call c = false -> unchanged_protected s (snd (exec ag s c)).
Theorem protect_respected : forall s c, is_protect_call c = false -> unchanged_protected s (snd (exec true s c)).
Proof. intros s c H. apply protect_respected_l; [exact H|right; reflexivity]. Qed.
Theorem protect_respected_partial : forall s c, is_protect_call c = false -> guarded_call gen_affix_guarded c ->
  unchanged_protected s (snd (gen_exec s c)).
Proof. exact (protect_respected_l gen_affix_guarded). Qed.
Theorem protect_respected_refuted : exists s c, is_protect_call c = false /\ ~ unchanged_protected s (snd (exec false s c)).
Proof. exact protect_respected_refuted_unguarded. Qed.

Theorem derived_chain_write_refused : forall ag s frags g, rw s = true -> p_dat (prot_of s g) = true ->
  exec ag s (CPutData (chain frags (FRaw g))) = (RProtected, s).
Proof. exact chain_write_refused. Qed.
Theorem derived_chain_leaf : forall frags g, put_leaf (chain frags (FRaw g)) = Some g.
Proof. exact put_leaf_chain. Qed.

(* as built (frozen tree): the full statements hold for the model with the guards read from the source *)
Theorem affix_calls_guarded_in_source : gen_affix_guarded = true.
Proof. exact gen_affix_guarded_true. Qed.
Theorem rdonly_inert_as_built : forall s c, rw s = false -> gen_exec s c = (RAccMode, s).
Proof. exact rdonly_inert_gen. Qed.
Theorem protect_respected_as_built : forall s c, is_protect_call c = false -> unchanged_protected s (snd (gen_exec s c)).
Proof. exact protect_respected_gen. Qed.
