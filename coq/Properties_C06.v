(* Property theorems for C06 -- statements only; proofs are `exact` of lemmas. *)
From Coq Require Import ZArith List.
From GD Require Import C06.Convert C06.ConvertProofs Gen.ConvTable.

(* every one of the 144 cells of the switch regenerated from src/types.c
   passes the decision procedure *)
Theorem conv_table_all_cells_ok : table_ok conv_table = true.
Proof. vm_compute. reflexivity. Qed.
