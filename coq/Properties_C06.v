(* Property theorems for C06 -- statements only; proofs are `exact` of lemmas.
   conv_table is regenerated from /repo/src/types.c by translate/tr_types.py
   on every run. *)
From Coq Require Import ZArith List Bool Reals.
From Flocq Require Import Core.Core IEEE754.BinarySingleNaN IEEE754.Binary IEEE754.Bits.
From GD Require Import C06.Convert C06.ConvertProofs C06.SpecProofs C06.ConstChange Gen.ConvTable Gen.ConstChange.
Import ListNotations.
Local Open Scope Z_scope.

(* 1. every one of the 144 cells of the switch regenerated from src/types.c
      passes the decision procedure *)
Theorem conv_table_all_cells_ok : table_ok conv_table = true.
Proof. vm_compute. reflexivity. Qed.

(* 2. hence: for EVERY ordered pair of sample types and EVERY source sample on
      which the C conversion demanded by the property is defined, the code's
      cell computes exactly that conversion *)
Theorem conversion_correct :
  forall tin tout comps r,
    spec_conv tin tout comps = Some r ->
    exists c, lookup conv_table tin tout = Some c /\ eval_cell c tin tout comps = Some r.
Proof.
  intros tin tout comps r Hs.
  destruct (table_ok_lookup conv_table conv_table_all_cells_ok tin tout) as [c [Hl Hok]].
  exists c. split; [exact Hl | exact (cell_ok_sound tin tout c comps r Hok Hs)].
Qed.

(* 3. what "the C conversion" (spec_conv / spec_elem = conv_elem eo eo ei) is *)

(* integer -> integer: always defined, result congruent modulo 2^N and in range *)
Theorem int_to_int_wraps_mod_2N :
  forall ei eo b, is_int ei = true -> is_int eo = true ->
    exists r, conv_elem eo eo ei b = Some r /\
      (ival eo r) mod 2 ^ cbits eo = (ival ei b) mod 2 ^ cbits eo /\ in_range eo (ival eo r) = true.
Proof.
  intros ei eo b Hi Ho. destruct (spec_int_int_defined ei eo b Hi Ho) as [r Hr].
  exists r. split; [exact Hr | exact (spec_int_int_mod ei eo b r Hi Ho Hr)].
Qed.

(* ... and a representable value arrives unchanged *)
Theorem int_to_int_representable_unchanged :
  forall ei eo b r, is_int ei = true -> is_int eo = true ->
    conv_elem eo eo ei b = Some r -> in_range eo (ival ei b) = true -> ival eo r = ival ei b.
Proof. exact spec_int_int_representable. Qed.

(* integer -> floating: the nearest representable value, never an overflow *)
Theorem int_to_float64_nearest :
  forall ei b, is_int ei = true ->
    conv_elem F64 F64 ei b = Some (bits_of_b64 (canon64 (z_to_f64 (ival ei b)))) /\
    Binary.B2R 53 1024 (z_to_f64 (ival ei b)) = round radix2 (FLT_exp (-1074) 53) ZnearestE (IZR (ival ei b)) /\
    Binary.is_finite 53 1024 (z_to_f64 (ival ei b)) = true.
Proof.
  intros ei b Hi. split; [exact (spec_int_f64 ei b Hi) | exact (z_to_f64_nearest _ (ival_abs_bound ei b Hi))].
Qed.

Theorem int_to_float32_nearest :
  forall ei b, is_int ei = true ->
    conv_elem F32 F32 ei b = Some (bits_of_b32 (canon32 (z_to_f32 (ival ei b)))) /\
    Binary.B2R 24 128 (z_to_f32 (ival ei b)) = round radix2 (FLT_exp (-149) 24) ZnearestE (IZR (ival ei b)) /\
    Binary.is_finite 24 128 (z_to_f32 (ival ei b)) = true.
Proof.
  intros ei b Hi. split; [exact (spec_int_f32 ei b Hi) | exact (z_to_f32_nearest _ (ival_abs_bound ei b Hi))].
Qed.

(* floating -> integer: defined iff finite with in-range integer part; then truncation toward zero *)
Theorem float64_to_int_truncates :
  forall eo b r, is_int eo = true -> conv_elem eo eo F64 b = Some r ->
    let f := b64_of_bits (b mod 2 ^ 64) in
    Binary.is_finite 53 1024 f = true /\ in_range eo (Ztrunc (Binary.B2R 53 1024 f)) = true /\
    ival eo r = Ztrunc (Binary.B2R 53 1024 f).
Proof. exact spec_f64_int. Qed.

Theorem float32_to_int_truncates :
  forall eo b r, is_int eo = true -> conv_elem eo eo F32 b = Some r ->
    let f := b32_of_bits (b mod 2 ^ 32) in
    Binary.is_finite 24 128 f = true /\ in_range eo (Ztrunc (Binary.B2R 24 128 f)) = true /\
    ival eo r = Ztrunc (Binary.B2R 24 128 f).
Proof. exact spec_f32_int. Qed.

Theorem float64_to_int_defined_when_in_range :
  forall eo b, is_int eo = true ->
    let f := b64_of_bits (b mod 2 ^ 64) in
    Binary.is_finite 53 1024 f = true -> in_range eo (Ztrunc (Binary.B2R 53 1024 f)) = true ->
    exists r, conv_elem eo eo F64 b = Some r.
Proof. exact spec_f64_int_defined. Qed.

(* float -> double is exact; double -> float keeps every representable value *)
Theorem float32_to_float64_exact :
  forall f : f32, Binary.is_finite 24 128 f = true ->
    Binary.B2R 53 1024 (f32_to_f64 f) = Binary.B2R 24 128 f /\ Binary.is_finite 53 1024 (f32_to_f64 f) = true.
Proof. exact f32_to_f64_exact. Qed.

Theorem float64_to_float32_representable_unchanged :
  forall f : f64, Binary.is_finite 53 1024 f = true ->
    generic_format radix2 (FLT_exp (-149) 24) (Binary.B2R 53 1024 f) ->
    (Rabs (Binary.B2R 53 1024 f) < bpow radix2 128)%R ->
    Binary.B2R 24 128 (f64_to_f32 f) = Binary.B2R 53 1024 f.
Proof. exact f64_to_f32_representable. Qed.

(* real -> complex: zero imaginary part; complex -> real: imaginary part dropped *)
Theorem real_to_complex_zero_imaginary :
  forall tin tout b r, gd_complex tin = false -> gd_complex tout = true ->
    spec_conv tin tout [b] = Some r -> exists re, r = [re; 0] /\ spec_elem tin tout b = Some re.
Proof. exact spec_real_to_complex. Qed.

Theorem complex_to_real_drops_imaginary :
  forall tin tout re im im', gd_complex tin = true -> gd_complex tout = false ->
    spec_conv tin tout [re; im] = spec_conv tin tout [re; im'] /\
    spec_conv tin tout [re; im] = opt_bind (spec_elem tin tout re) (fun r => Some [r]).
Proof. exact spec_complex_to_real. Qed.

(* non-vacuity: the hypotheses are met by concrete, non-trivial samples *)
Example conversion_correct_nonvacuous :
  spec_conv T_FLOAT64 T_UINT32 [4748581863621132288] = Some [3000000000] /\   (* 3e9 *)
  spec_conv T_INT16 T_UINT32 [65535] = Some [4294967295] /\                     (* -1 *)
  spec_conv T_INT32 T_FLOAT32 [16777217] = Some [1266679808] /\                 (* 2^24+1 -> 2^24 *)
  spec_conv T_COMPLEX128 T_INT8 [13830554455654793216; 4607182418800017408] = Some [255]. (* -1.0+1.0i -> -1 *)
Proof. vm_compute. repeat split. Qed.


(* 4. CONST / CARRAY access.  The tables are regenerated on every run by translate/tr_constchange.py from
      _GD_ConstType (src/parse.c) and from the CONST and CARRAY cases of _GD_Change (src/mod.c). *)

(* every declared type is stored in a type of the same kind that is at least as wide *)
Theorem const_storage_type_holds_every_value : const_storage_ok const_storage = true.
Proof. vm_compute. reflexivity. Qed.

(* every cell of the hand-written CONST type change passes the decision procedure between the two storage types *)
Theorem const_type_change_all_cells_ok : const_change_ok const_storage const_change_table = true.
Proof. vm_compute. reflexivity. Qed.

(* hence gd_alter_const & co. convert the stored value exactly as the C conversion between the storage types
   does, for every pair of declared types and every stored value on which that conversion is defined *)
Theorem const_type_change_correct :
  forall old new so sn comps r,
    storage_of const_storage old = Some so -> storage_of const_storage new = Some sn -> gdtype_eqb so sn = false ->
    spec_conv so sn comps = Some r ->
    exists c, lookup const_change_table old new = Some c /\ eval_cell c so sn comps = Some r.
Proof. exact (const_change_sound const_storage const_change_table const_type_change_all_cells_ok). Qed.

(* a CARRAY type change goes through _GD_ConvertType between the storage types, to which
   conversion_correct applies *)
Theorem carray_type_change_uses_the_conversion_table : carray_change_uses_convert_type = true.
Proof. reflexivity. Qed.

Example const_type_change_nonvacuous :
  storage_of const_storage T_INT8 = Some T_INT64 /\ storage_of const_storage T_COMPLEX64 = Some T_COMPLEX128 /\
  spec_conv T_INT64 T_COMPLEX128 [18446744073709551611] = Some [13840687554816376832; 0].   (* -5 -> -5.0 + 0i *)
Proof. vm_compute. repeat split; reflexivity. Qed.
