(* Property theorems for C16 -- statements only; proofs are `exact` of lemmas.
   v0 / v1: the source before / with the repairs proposed here (see Properties_C01.v). *)
From Coq Require Import ZArith List.
From GD Require Import C06.Convert C01.Field C01.Read C01.Inst C01.Witness C01.WitnessProofs C16.Limits C16.LimitsProofs C16.WitnessProofs.
Import ListNotations.
Local Open Scope Z_scope.

(* Full statements (kept visible in C16/WitnessProofs.v):
   count_is_eof_statement v :=
     forall A db f rt s n e, wf db f -> 0 <= s -> 0 <= n -> impl_eof db v f = Some e ->
       read_count A db v lb rt f s n = Some (Z.min n (Z.max 0 (e - s)))
   bof_is_first_real_statement v :=
     forall db f k, wf db f -> 0 <= k -> (is_real db f k = true <-> impl_bof db v f <= k)
   Both are false of the unrepaired code. *)
(* still false of the frozen tree (vc): MPLEX over a forward PHASE (re-seek error) ... *)
Theorem count_is_eof_refuted : ~ count_is_eof_statement vc.
Proof. exact count_statement_refuted_current. Qed.

(* ... and the floor in _GD_GetBOF (open finding extents/bof-of-fields-with-phase) *)
Theorem bof_is_first_real_refuted : ~ bof_is_first_real_statement vc.
Proof. exact bof_statement_refuted_current. Qed.

(* history: the pre-repair source *)
Theorem count_is_eof_refuted_before_repairs : ~ count_is_eof_statement v0.
Proof. exact count_statement_refuted. Qed.

Theorem bof_is_first_real_refuted_before_repairs : ~ bof_is_first_real_statement v0.
Proof. exact bof_statement_refuted. Qed.

(* THE count theorem for the frozen tree: every field without MPLEX, every window *)
Theorem count_is_eof_current :
  forall (A : Alg) (db : database) (v : variant) (lb : Z) (f : field) (rt : ctype) (s n e : Z),
    v_align v = true -> v_alloc0 v = true -> v_clamp v = true ->
    wf db f -> mplex_free f -> 0 <= s -> 0 <= n ->
    ~ In TRawPad (uncovered A db v lb rt f s n) ->
    impl_eof db v f = Some e ->
    read_count A db v lb rt f s n = Some (Z.min n (Z.max 0 (e - s))).
Proof. exact C16.WitnessProofs.count_is_eof_current. Qed.

Theorem bof_floor_witness :
  impl_bof db_bof vc m_bof = 4 /\ is_real db_bof m_bof 4 = false /\ is_real db_bof m_bof 5 = true.
Proof. exact witness_bof_floor. Qed.

Theorem mplex_reseek_witness :
  impl_eof db_mx vc x_mx = Some 14 /\ read_count XAlg db_mx vc (-1) F64 x_mx 0 1 = None /\
  uncovered XAlg db_mx vc (-1) F64 x_mx 0 1 = [TMplexSeek].
Proof. exact witness_mplex_reseek. Qed.

(* gd_getdata returns exactly min(n, max(0, gd_eof - s)) samples: on the region
   where the read path is proved (C01) and either the end-of-field is clamped
   only in gd_eof64 (C16-1) or no PHASE pushed it below zero inside the field *)
Theorem count_is_eof_partial :
  forall (db : database) (v : variant) (lb : Z) (A : Alg) (f : field) (rt : ctype) (s n e : Z),
    wf db f -> 0 <= s -> 0 <= n -> covered A db v lb rt f s n ->
    v_clamp v = true \/ noclamp db f ->
    impl_eof db v f = Some e ->
    read_count A db v lb rt f s n = Some (Z.min n (Z.max 0 (e - s))).
Proof. exact count_is_eof. Qed.

(* with the repairs (C01-2/3/4, C16-1): every field without MPLEX, every window *)
Theorem count_is_eof_repaired :
  forall (A : Alg) (db : database) (v : variant) (lb : Z) (f : field) (rt : ctype) (s n e : Z),
    read_repaired v -> v_clamp v = true -> wf db f -> mplex_free f -> 0 <= s -> 0 <= n ->
    impl_eof db v f = Some e ->
    read_count A db v lb rt f s n = Some (Z.min n (Z.max 0 (e - s))).
Proof. exact C16.WitnessProofs.count_is_eof_repaired. Qed.

(* fields without an end (INDEX and what is derived from INDEX alone) return every sample asked for *)
Theorem count_without_eof_partial :
  forall (db : database) (v : variant) (lb : Z) (A : Alg) (f : field) (rt : ctype) (s n : Z),
    wf db f -> 0 <= n -> covered A db v lb rt f s n -> v_clamp v = true \/ noclamp db f ->
    impl_eof db v f = None ->
    read_count A db v lb rt f s n = Some n.
Proof. exact count_no_eof. Qed.

(* gd_eof is the documented end-of-field (reported as 0 when negative by the repaired code) *)
Theorem eof_is_documented_partial :
  forall (db : database) (v : variant) (f : field), wf db f -> v_clamp v = true \/ noclamp db f ->
    impl_eof db v f = match eof db f with Fin x => Some (if v_clamp v then Z.max 0 x else x) | Inf => None end.
Proof. exact impl_eof_spec. Qed.

(* the documented beginning-of-field is the first sample made of real data only (every field) *)
Theorem documented_bof_is_first_real :
  forall (db : database) (f : field), wf db f ->
    forall k, is_real db f k = true <-> bof_raw db f <= k.
Proof. exact is_real_iff. Qed.

(* gd_bof is that sample for every field without PHASE (every variant) ... *)
Theorem bof_is_first_real_partial :
  forall (db : database) (v : variant) (f : field), wf db f -> nophase f ->
    forall k, is_real db f k = true <-> impl_bof db v f <= k.
Proof. exact bof_is_first_real. Qed.

Theorem bof_is_documented_partial :
  forall (db : database) (v : variant) (f : field), wf db f -> nophase f -> impl_bof db v f = spec_bof db f.
Proof. exact impl_bof_nophase. Qed.

(* ... and for EVERY field with the repairs C16-1 and C16-2: the full statement *)
Theorem bof_is_first_real_repaired :
  forall (db : database) (v : variant) (f : field) (k : Z),
    v_clamp v = true -> v_bofceil v = true -> wf db f -> 0 <= k ->
    (is_real db f k = true <-> impl_bof db v f <= k).
Proof. exact bof_is_first_real_fixed. Qed.

Theorem bof_is_documented_repaired :
  forall (db : database) (v : variant) (f : field),
    v_clamp v = true -> v_bofceil v = true -> wf db f -> impl_bof db v f = spec_bof db f.
Proof. exact impl_bof_fixed. Qed.

(* gd_nframes = complete frames of the reference field + frame offset (all inputs) *)
Theorem nframes_is_complete_frames :
  forall (db : database) (id : N), impl_nframes db id = spec_nframes db id.
Proof. exact nframes_ok. Qed.

Theorem multirate_count_witness :
  impl_eof db_32 v0 m_ab = Some 1 /\ read_count XAlg db_32 v0 (-1) F64 m_ab 1 2 = Some 1.
Proof. exact witness_multirate_count. Qed.

Theorem nested_phase_witness :
  impl_eof db_a4 v0 q_nested = Some 8 /\ read_count XAlg db_a4 v0 (-1) F64 q_nested 0 10 = Some 2 /\
  impl_bof db_a4 v0 q_nested = 8 /\ is_real db_a4 q_nested 0 = true.
Proof. exact witness_nested_phase. Qed.

Theorem repaired_witness :
  impl_eof db_32 v1 m_ab = Some 1 /\ read_count XAlg db_32 v1 (-1) F64 m_ab 1 2 = Some 0 /\
  impl_eof db_a4 v1 q_nested = Some 2 /\ read_count XAlg db_a4 v1 (-1) F64 q_nested 0 10 = Some 2 /\
  impl_bof db_a4 v1 q_nested = 0.
Proof. exact witness_repaired. Qed.

Example count_hypotheses_inhabited :
  wf db_ab m_ab /\ covered XAlg db_ab v0 (-1) F64 m_ab 2 40 /\ noclamp db_ab m_ab /\
  impl_eof db_ab v0 m_ab = Some 8 /\ read_count XAlg db_ab v0 (-1) F64 m_ab 2 40 = Some 6.
Proof. exact count_example. Qed.
