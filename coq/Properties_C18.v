(* Property theorems for C18 -- statements only; proofs are `exact` of lemmas.
   Model: C18/Append.v (appending writer, fresh and long-lived reader) over C12/Fs.v. *)
From Coq Require Import NArith Arith List Bool Lia.
From GD Require Import C12.Fs C12.FlushProto C12.FlushProofs C12.FlushTheorems C18.Append C18.AppendProofs.
Import ListNotations.

Section Fresh.
  Variables (d : fd) (p : path) (chunks : list content) (st : state) (fsz : nat).
  Hypothesis wf : fs_wf st.
  Hypothesis fsz_pos : fsz <> 0.
  Let at_ (j : nat) : content := content_at (crash (writer_trace d p chunks) j st) p.

  (* the frame count a fresh reader computes never decreases, whatever the
     chunking and wherever between two writer calls it looks *)
  Theorem nframes_monotone : forall j j', j <= j' -> nframes fsz (at_ j) <= nframes fsz (at_ j').
  Proof. intros. apply nframes_prefix_mono; auto. apply writer_prefix; auto. Qed.

  (* every frame below the reported count holds exactly the bytes the writer
     wrote (and will have written at the end) for that frame *)
  Theorem prefix_consistent : forall j f, f < nframes fsz (at_ j) ->
    frame fsz (at_ j) f = frame fsz (content_at st p ++ concat chunks) f.
  Proof. intros. apply frame_prefix; auto. apply writer_prefix_final; auto. Qed.

  (* a partially written trailing sample or frame is never inside a reported frame *)
  Theorem no_partial : forall j f, f < nframes fsz (at_ j) -> length (frame fsz (at_ j) f) = fsz.
  Proof. intros. apply frame_complete; auto. Qed.

  (* once the writer has opened it the file is never absent *)
  Theorem never_absent_in_place : forall j, lookup (crash (writer_trace d p chunks) (S j) st) p <> None.
  Proof. intros. apply writer_content; auto. Qed.
End Fresh.

(* out-of-place encodings publish by rename only: at every instant of a
   publication the data file holds its complete previous or its complete new
   bytes and is never absent (instance of C12's protocol for one file) *)
Theorem never_absent_out_of_place : forall cl tfd f k j st, scen_ok [f] st -> lookup st (fpath f) <> None ->
  (lookup (crash (mf_trace cl tfd [f] false k) j st) (fpath f) = lookup st (fpath f) \/
   lookup (crash (mf_trace cl tfd [f] false k) j st) (fpath f) = Some (new_text f)) /\
  lookup (crash (mf_trace cl tfd [f] false k) j st) (fpath f) <> None.
Proof.
  intros cl tfd f k j st S H.
  destruct (crash_atomic_lemma cl tfd [f] k j st S f (or_introl eq_refl)) as [E | E]; rewrite E; split; auto; discriminate.
Qed.

(* full statement for a handle that stays open: sequential reads return the
   bytes the writer wrote *)
Definition long_lived_consistent_statement : Prop :=
  forall sz c1 c2 r n, (exists t, c2 = c1 ++ t) ->
    let (got1, r1) := rd_read sz c1 r (rpos r) n in
    let (got2, _) := rd_read sz c2 r1 (rpos r1) n in
    got2 = firstn (length got2) (skipn (rpos r1 * sz) c2).

(* refuted: a read that consumed part of a trailing sample leaves the
   descriptor inside the sample while pos counts whole samples; the next
   sequential read skips the seek and returns shifted bytes *)
Theorem long_lived_refuted :
  fst dz_r1 = [1; 0; 2; 0]%N /\ fst dz_r2 <> firstn 4 (skipn 4 dz_c2) /\ fst dz_r2 = [0; 4]%N.
Proof. exact desync_witness. Qed.
