(* Property theorems for C18 -- statements only; proofs are `exact` of lemmas.
   Model: C18/Append.v (appending writer, fresh and long-lived reader) over C12/Fs.v. *)
From Coq Require Import NArith Arith List Bool Lia.
From GD Require Import C12.Fs C12.FlushProto C12.FlushProofs C12.FlushTheorems C18.Append C18.AppendProofs C18.Sie Gen.RawShape.
Import ListNotations.

(* the translator recognised the anchors of raw.c the model relies on *)
Theorem raw_shape_recognised : raw_shape_ok = true.
Proof. reflexivity. Qed.

(* the frame count a fresh reader computes never decreases, whatever the
   chunking and wherever between two writer calls it looks
   (at_ d p chunks st j = content of the field file after j writer calls) *)
Theorem nframes_monotone : forall d p chunks st fsz, fs_wf st -> fsz <> 0 ->
  forall j j', j <= j' -> nframes fsz (at_ d p chunks st j) <= nframes fsz (at_ d p chunks st j').
Proof. exact nframes_monotone_lemma. Qed.

(* every frame below the reported count holds exactly the bytes the writer
   wrote (and will have written at the end) for that frame *)
Theorem prefix_consistent : forall d p chunks st fsz, fs_wf st -> fsz <> 0 ->
  forall j f, f < nframes fsz (at_ d p chunks st j) ->
  frame fsz (at_ d p chunks st j) f = frame fsz (content_at st p ++ concat chunks) f.
Proof. exact prefix_consistent_lemma. Qed.

(* a partially written trailing sample or frame is never inside a reported frame *)
Theorem no_partial : forall d p chunks st fsz, fsz <> 0 ->
  forall j f, f < nframes fsz (at_ d p chunks st j) -> length (frame fsz (at_ d p chunks st j) f) = fsz.
Proof. exact no_partial_lemma. Qed.

(* once the writer has opened it the file is never absent *)
Theorem never_absent_in_place : forall d p chunks st, fs_wf st ->
  forall j, lookup (crash (writer_trace d p chunks) (S j) st) p <> None.
Proof. exact never_absent_in_place_lemma. Qed.

(* out-of-place encodings publish by rename only: at every instant of a
   publication the data file holds its complete previous or its complete new
   bytes and is never absent (instance of C12's protocol for one file) *)
Theorem never_absent_out_of_place : forall cl tfd f k j st, scen_ok [f] st -> lookup st (fpath f) <> None ->
  (lookup (crash (mf_trace cl tfd [f] false k) j st) (fpath f) = lookup st (fpath f) \/
   lookup (crash (mf_trace cl tfd [f] false k) j st) (fpath f) = Some (new_text f)) /\
  lookup (crash (mf_trace cl tfd [f] false k) j st) (fpath f) <> None.
Proof. exact never_absent_oop_lemma. Qed.

(* a SEQUENCE of out-of-place publications (periodic flushes of a gzip / bzip2 /
   lzma field): after any number j of the writer's calls the data file holds
   exactly version done_count(j) -- never absent, never a mixture -- and the
   version index never decreases and never exceeds the number of publications *)
Theorem oop_sequence_version : forall cl tfd p pubs st j, pubs_ok p pubs st ->
  lookup (crash (seq_trace cl tfd pubs) j st) p = ver p pubs st (done_count cl tfd pubs j).
Proof. exact seq_version. Qed.

Theorem oop_sequence_monotone : forall cl tfd pubs j j', j <= j' ->
  done_count cl tfd pubs j <= done_count cl tfd pubs j' /\ done_count cl tfd pubs j' <= length pubs.
Proof. exact done_count_bounds. Qed.

(* full statement for a handle that stays open (fx = the instance of
   _GD_RawRead): a read through an aligned handle returns exactly the bytes of
   whole samples starting at the requested sample and leaves the handle aligned *)
Definition long_lived_consistent_statement (fx : bool) : Prop :=
  forall sz c r s0 n, sz <> 0 -> aligned sz r ->
    let res := rd_read fx sz c r s0 n in
    fst res = firstn (length (fst res)) (skipn (s0 * sz) c) /\
    aligned sz (snd res) /\
    rpos (snd res) * sz = s0 * sz + length (fst res) /\
    (exists k, length (fst res) = k * sz).

(* holds when _GD_RawRead steps back over a trailing partial sample ... *)
Theorem long_lived_fixed : long_lived_consistent_statement true.
Proof. exact rd_read_fixed. Qed.

(* ... and is refuted when it does not (raw.c before proposed_fixes/C18-1.diff):
   the first read leaves the descriptor inside a sample while pos counts whole
   samples; the next sequential read skips the seek and returns shifted bytes *)
Theorem long_lived_refuted :
  fst dz_r1 = [1; 0; 2; 0]%N /\ fst dz_r2 <> firstn 4 (skipn 4 dz_c2) /\ fst dz_r2 = [0; 4]%N.
Proof. exact desync_witness. Qed.

Theorem long_lived_refuted_statement : ~ long_lived_consistent_statement false.
Proof.
  exact (long_lived_refuted_lemma _ (fun H sz c r s0 n Hz A => proj1 (proj2 (H sz c r s0 n Hz A)))).
Qed.

(* the current source (read_steps_back is regenerated from src/raw.c at every run;
   since fix b8d419e it is `true`): the full statement.  Should the step back
   disappear again this proof no longer checks. *)
Theorem long_lived_consistent : long_lived_consistent_statement read_steps_back.
Proof. exact rd_read_fixed. Qed.

(* ---- sample-index-encoded data (record-level model C18/Sie.v): the library
   appends sample k by first writing a record (k, 0) and then replacing it by
   (k, v).  sie_observed ws vs j = what a reader decodes after j such steps of
   a writer appending vs to a file holding ws ---- *)

(* full statement: the reader always sees a prefix of what the writer wrote *)
Definition sie_consistent_statement := Sie.sie_consistent_statement.

(* refuted: after the placeholder and before the data the extra sample reads 0 *)
Theorem sie_consistent_refuted : ~ sie_consistent_statement.
Proof. exact sie_refuted_lemma. Qed.

(* the exact observation at every step ... *)
Theorem sie_observation : forall ws vs j,
  sie_observed ws vs j = ws ++ firstn (Nat.div2 j) vs ++ pending vs j.
Proof. exact sie_observed_eq. Qed.

(* ... hence consistent at every even step (between two appends) ... *)
Theorem sie_consistent_between_appends : forall ws vs j, Nat.odd j = false ->
  list_prefix (sie_observed ws vs j) (ws ++ vs).
Proof. exact sie_even_consistent_lemma. Qed.

(* ... and inconsistent exactly in the window after the placeholder of a
   non-zero sample: one sample too many, reading 0 *)
Theorem sie_window_exact : forall ws vs j, Nat.odd j = true -> Nat.div2 j < length vs ->
  sie_observed ws vs j = ws ++ firstn (Nat.div2 j) vs ++ [0%N] /\
  (nth (Nat.div2 j) vs 0%N <> 0%N -> ~ list_prefix (sie_observed ws vs j) (ws ++ vs)).
Proof. exact sie_window_lemma. Qed.
