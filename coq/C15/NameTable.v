(* C15 -- executable model of GetData's field name table.

   State (DIRFILE): D->entry[] sorted by (length, bytes), the entries with
   the raw pointers between them (metafield parent / meta_entry[], alias
   entry[0]/entry[1], cached input entries), D->reference_field, the
   per-fragment ref_name, and the cached entry lists D->fl / E->e->fl.

   Pointers are modelled as identities: e_id = the gd_entry_t, e_nid = the
   malloc'd name buffer E->field (a new one on every rename).  A pointer is
   dangling iff no live entry carries that identity.

   [pinned] is the code as it stands in the finally frozen /repo (c107348), which
   contains the repairs C15-1 .. C15-20, the depth bound of _GD_ResolveAlias and
   the re-resolution of unresolved aliases in _GD_UpdateAliases.
   Anchors: src/common.c (find/insert), add.c (_GD_Add, _GD_AddAlias),
   parse.c (_GD_ParseFieldSpec insert path, _GD_ResolveAlias,
   _GD_UpdateAliases), del.c (_GD_Delete), name.c (_GD_Rename,
   _GD_PrepareRename, _GD_UpdateInputs, _GD_PerformRename), move.c (_GD_Move),
   entry.c (gd_hide/gd_unhide), fragment.c (_GD_UpdateAffixes),
   field_list.c (_GD_ListEntry, _GD_EntryList), nfields.c. *)
From Coq Require Import List NArith ZArith Arith Bool.
From GD Require Import C15.Order.
Import ListNotations.
Open Scope N_scope.

(* ------------------------------------------------------------------ cfg *)
(* No repair is pending: every proposed one up to C15-20 is in the finally frozen tree (c107348).  The type
   is kept so that statements read "for every configuration"; it has a single inhabitant. *)
Record cfg := mkCfg { }.
Definition pinned := mkCfg.   (* the code as it stands in /repo (frozen at c107348) *)
Definition fixed  := mkCfg.

(* ---------------------------------------------------------------- types *)
Definition T_RAW := 0.  Definition T_LINCOM := 1.  Definition T_LINTERP := 2.
Definition T_BIT := 3.  Definition T_MULTIPLY := 4. Definition T_PHASE := 5.
Definition T_INDEX := 6. Definition T_POLYNOM := 7. Definition T_SBIT := 8. Definition T_DIVIDE := 9.
Definition T_RECIP := 10. Definition T_WINDOW := 11. Definition T_MPLEX := 12. Definition T_INDIR := 13.
Definition T_SINDIR := 14.
Definition T_CONST := 15. Definition T_CARRAY := 16. Definition T_STRING := 17.
Definition T_SARRAY := 18.
Definition S_VECTOR := 19. Definition S_SCALAR := 20. Definition S_ALIAS := 21.
Definition S_ALL := 22.
Definition T_ALIAS := 21.

Definition is_scalar_ty (t : N) : bool := (15 <=? t) && (t <=? 18).

Definition celem := (N * N * name)%type.          (* entry id, name-buffer id, text *)
Definition flist := list (N * (N * list celem)).  (* list index -> (flags, list) *)

Record entry := mkE {
  e_name : name; e_id : N; e_nid : N; e_ty : N; e_frag : N; e_hid : bool;
  e_meta : bool;                 (* e->n_meta == -1 *)
  e_par : option N;              (* e->p.parent *)
  e_kids : list N;               (* e->p.meta_entry[], in array order *)
  e_ins : list (name * option N);(* in_fields[i], cached e->entry[i] *)
  e_scs : list (option name);    (* scalar[i] *)
  e_dist : option N;             (* alias: e->entry[0] *)
  e_dir : bool;                  (* alias: e->entry[1] != NULL *)
  e_val : Z;
  e_fl : flist }.

Record state := mkS {
  s_ents : list entry;
  s_next : N;
  s_ref : option N;              (* D->reference_field *)
  s_fref : list (option name);   (* D->fragment[i].ref_name, i = 0,1 *)
  s_fl : flist;
  s_aff : name * name }.         (* prefix, suffix of fragment 1 *)

Definition set_name e n nid := mkE n (e_id e) nid (e_ty e) (e_frag e) (e_hid e) (e_meta e) (e_par e) (e_kids e) (e_ins e) (e_scs e) (e_dist e) (e_dir e) (e_val e) (e_fl e).
Definition set_frag e f := mkE (e_name e) (e_id e) (e_nid e) (e_ty e) f (e_hid e) (e_meta e) (e_par e) (e_kids e) (e_ins e) (e_scs e) (e_dist e) (e_dir e) (e_val e) (e_fl e).
Definition set_hid e h := mkE (e_name e) (e_id e) (e_nid e) (e_ty e) (e_frag e) h (e_meta e) (e_par e) (e_kids e) (e_ins e) (e_scs e) (e_dist e) (e_dir e) (e_val e) (e_fl e).
Definition set_kids e k := mkE (e_name e) (e_id e) (e_nid e) (e_ty e) (e_frag e) (e_hid e) (e_meta e) (e_par e) k (e_ins e) (e_scs e) (e_dist e) (e_dir e) (e_val e) (e_fl e).
Definition set_ins e i := mkE (e_name e) (e_id e) (e_nid e) (e_ty e) (e_frag e) (e_hid e) (e_meta e) (e_par e) (e_kids e) i (e_scs e) (e_dist e) (e_dir e) (e_val e) (e_fl e).
Definition set_scs e s := mkE (e_name e) (e_id e) (e_nid e) (e_ty e) (e_frag e) (e_hid e) (e_meta e) (e_par e) (e_kids e) (e_ins e) s (e_dist e) (e_dir e) (e_val e) (e_fl e).
Definition set_alias e d r := mkE (e_name e) (e_id e) (e_nid e) (e_ty e) (e_frag e) (e_hid e) (e_meta e) (e_par e) (e_kids e) (e_ins e) (e_scs e) d r (e_val e) (e_fl e).
Definition set_fl e f := mkE (e_name e) (e_id e) (e_nid e) (e_ty e) (e_frag e) (e_hid e) (e_meta e) (e_par e) (e_kids e) (e_ins e) (e_scs e) (e_dist e) (e_dir e) (e_val e) f.

Definition set_ents s l := mkS l (s_next s) (s_ref s) (s_fref s) (s_fl s) (s_aff s).
Definition set_topfl s f := mkS (s_ents s) (s_next s) (s_ref s) (s_fref s) f (s_aff s).

Definition SLASH : N := 47.
Definition INDEX_name : name := [73; 78; 68; 69; 88].

Definition init_state : state :=
  mkS [mkE INDEX_name 0 1 T_INDEX 0 false false None [] [] [] None false 0%Z []]
      2 None [None; None] [] ([0], [0]).

(* ------------------------------------------------------------- lookups *)
Definition keys (l : list entry) := map e_name l.

Definition find_nd (l : list entry) (k : name) : option entry :=
  match find_index (keys l) k with
  | inl i => nth_error l i
  | inr _ => None
  end.

Definition ins_point (l : list entry) (k : name) : nat :=
  match find_index (keys l) k with inl i => i | inr u => u end.

Fixpoint by_id (l : list entry) (id : N) : option entry :=
  match l with
  | [] => None
  | e :: r => if e_id e =? id then Some e else by_id r id
  end.

Definition by_oid (l : list entry) (o : option N) : option entry :=
  match o with Some id => by_id l id | None => None end.

Definition upd_id (l : list entry) (id : N) (f : entry -> entry) : list entry :=
  map (fun e => if e_id e =? id then f e else e) l.

Definition is_alias (e : entry) := e_ty e =? T_ALIAS.

(* split at the first '/' found at index >= from *)
Fixpoint split_slash (pre : name) (s : name) : option (name * name) :=
  match s with
  | [] => None
  | c :: r => if c =? SLASH then Some (rev pre, r) else split_slash (c :: pre) r
  end.
Definition first_slash (s : name) := split_slash [] s.
(* split at the last '/' *)
Definition last_slash (s : name) : option (name * name) :=
  match first_slash (rev s) with
  | Some (post_r, pre_r) => Some (rev pre_r, rev post_r)
  | None => None
  end.

Definition dealias (l : list entry) (e : entry) : option entry :=
  if is_alias e then by_oid l (e_dist e) else Some e.

(* _GD_FindField with dealias = 1, including the alias/subfield fallback *)
Definition find_da (l : list entry) (k : name) : option entry :=
  match find_nd l k with
  | Some e => dealias l e
  | None =>
      match first_slash k with
      | Some (pre, post) =>
          match find_nd l pre with
          | Some a =>
              if is_alias a then
                match by_oid l (e_dist a) with
                | Some t =>
                    match find_nd l (e_name t ++ SLASH :: post) with
                    | Some x => dealias l x
                    | None => None
                    end
                | None => None
                end
              else None
          | None => None
          end
      | None => None
      end
  end.

(* --------------------------------------------------- alias resolution *)
Definition alias_tgt (e : entry) : name :=
  match e_ins e with (t, _) :: _ => t | [] => [] end.

(* _GD_ResolveAlias(D, base, E, depth): the recursion stops at depth >= n_entries.
   [fuel] only makes the definition structural; it is never exhausted because
   depth grows by one per call and is cut at length l. *)
Fixpoint resolve (fuel : nat) (depth : nat) (l : list entry) (base id : N) : list entry * option N :=
  match fuel with
  | O => (l, None)
  | S f =>
      match by_id l id with
      | None => (l, None)
      | Some e =>
          match find_nd l (alias_tgt e) with
          | None => (upd_id l id (fun x => set_alias x None false), None)
          | Some t =>
              if is_alias t then
                match e_dist t with
                | Some d => (upd_id l id (fun x => set_alias x (Some d) true), Some d)
                | None =>
                    if (e_id t =? base) || (Nat.leb (length l) depth) then
                      (upd_id l id (fun x => set_alias x None true), None)
                    else
                      let '(l', r) := resolve f (S depth) l base (e_id t) in
                      (upd_id l' id (fun x => set_alias x r true), r)
                end
              else (upd_id l id (fun x => set_alias x (Some (e_id t)) true), Some (e_id t))
          end
      end
  end.

Definition ua_step (cur : list entry) (id : N) : list entry :=
  match by_id cur id with
  | Some e =>
      if is_alias e && (match e_dist e with None => true | Some _ => false end)
      then fst (resolve (S (S (length cur))) 0 cur id id) else cur
  | None => cur
  end.

Definition update_aliases (reset : bool) (l : list entry) : list entry :=
  let l0 := if reset then map (fun e => if is_alias e then set_alias e None false else e) l else l in
  fold_left ua_step (map e_id l0) l0.

(* ------------------------------------------------------ list membership *)
(* _GD_ListEntry with fragment = GD_ALL_FRAGMENTS *)
Definition type_ok (t sel : N) : bool :=
  if sel =? S_VECTOR then negb (is_scalar_ty t || (t =? T_SINDIR))
  else if sel =? S_SCALAR then is_scalar_ty t
  else if sel =? S_ALIAS then false
  else if sel =? S_ALL then true
  else t =? sel.

Definition list_entry (l : list entry) (meta_ok hidden_ok noalias : bool) (sel : N) (e : entry) : bool :=
  if negb hidden_ok && e_hid e then false
  else if negb meta_ok && e_meta e then false
  else if is_alias e then
    if noalias then false
    else if sel =? S_ALIAS then true
    else match by_oid l (e_dist e) with
         | Some t => if is_alias t then false else type_ok (e_ty t) sel
         | None => false
         end
  else type_ok (e_ty e) sel.

Definition members (l : list entry) (par : option entry) : list entry :=
  match par with
  | None => l
  | Some p => flat_map (fun k => match by_id l k with Some e => [e] | None => [] end) (e_kids p)
  end.

Definition par_offs (par : option entry) : nat :=
  match par with None => O | Some p => S (length (e_name p)) end.

Definition sel_members (l : list entry) (par : option entry) (sel flags : N) : list entry :=
  let hid := N.testbit flags 0 in
  let noal := N.testbit flags 1 in
  let meta_ok := match par with None => false | Some _ => true end in
  filter (list_entry l meta_ok hid noal sel) (members l par).

Definition compute_list (l : list entry) (par : option entry) (sel flags : N) : list celem :=
  map (fun e => (e_id e, e_nid e, skipn (par_offs par) (e_name e))) (sel_members l par sel flags).

(* gd_nentries: -3 (GD_E_BAD_CODE) for a bad parent *)
Definition find_parent (l : list entry) (parent : option name) : option (option entry) :=
  match parent with
  | None => Some None
  | Some p =>
      match find_da l p with
      | Some P => if e_meta P then None else Some (Some P)
      | None => None
      end
  end.

Definition nentries (s : state) (parent : option name) (sel flags : N) : option nat :=
  match find_parent (s_ents s) parent with
  | Some par => Some (length (sel_members (s_ents s) par sel flags))
  | None => None
  end.

(* gd_[m]constants as INT64: values of the listed CONST entries *)
Definition constants (s : state) (parent : option name) : option (list Z) :=
  match find_parent (s_ents s) parent with
  | Some par =>
      Some (map (fun e => match dealias (s_ents s) e with Some t => e_val t | None => 0%Z end)
                (sel_members (s_ents s) par T_CONST 0))
  | None => None
  end.

(* values of the listed entries of scalar type ty (gd_[m]strings, gd_[m]carrays, gd_[m]sarrays) *)
Definition values_of (s : state) (parent : option name) (ty : N) : option (list Z) :=
  match find_parent (s_ents s) parent with
  | Some par =>
      Some (map (fun e => match dealias (s_ents s) e with Some t => e_val t | None => 0%Z end)
                (sel_members (s_ents s) par ty 0))
  | None => None
  end.

(* gd_match_entries(D, NULL, fragment, type, flags): every entry, metafields included, of one fragment *)
Definition match_entries (s : state) (frag : option N) (sel flags : N) : list name :=
  let hid := N.testbit flags 0 in
  let noal := N.testbit flags 1 in
  map e_name (filter (fun e => (match frag with Some f => e_frag e =? f | None => true end) &&
                               list_entry (s_ents s) true hid noal sel e) (s_ents s)).

Definition live_name (l : list entry) (c : celem) : bool :=
  let '(id, nid, _) := c in
  match by_id l id with Some e => e_nid e =? nid | None => false end.

Fixpoint fl_get (f : flist) (i : N) : option (N * list celem) :=
  match f with
  | [] => None
  | (j, v) :: r => if j =? i then Some v else fl_get r i
  end.
Definition fl_set (f : flist) (i : N) (v : N * list celem) : flist :=
  (i, v) :: filter (fun p => negb (fst p =? i)) f.

(* ------------------------------------------------------------------ ops *)
Inductive op :=
| OAdd (viaspec : bool) (parent : option name) (nm : name) (ty frag : N) (hid : bool)
       (ins : list name) (scs : list (option name)) (v : Z)
| OAlias (parent : option name) (nm tgt : name) (frag : N)
| ODel (nm : name) (flags : N)
| ORen (nm new : name) (flags : N)
| OMove (nm : name) (frag : N)
| OHide (nm : name) (hide : bool)
| OAffix (frag : N) (px sx : name)
| OList (parent : option name) (sel flags : N).

Inductive res :=
| RInt (z : Z)                          (* return value / error code *)
| RList (l : list (option name))        (* gd_entry_list result; None = pointer into freed memory *)
| RCrash (k : N)                        (* the C code dereferences a NULL/freed pointer or overflows the stack *)
| RUnmodelled.

Definition E_OK := 0%Z.
Definition E_FORMAT := (-1)%Z.
Definition E_BAD_CODE := (-3)%Z.
Definition E_BAD_FIELD_TYPE := (-12)%Z.
Definition E_BAD_ENTRY := (-16)%Z.
Definition E_DUPLICATE := (-17)%Z.
Definition E_BAD_INDEX := (-19)%Z.
Definition E_DELETE := (-23)%Z.

Definition K_NULLPARENT := 1.   (* E->e->p.parent is NULL / freed *)

Definition NFRAG := 2.

(* _GD_ValidateField(.., GD_VF_NAME / GD_VF_CODE) for names without '.' *)
Definition bad_char (c : N) : bool :=
  (c =? SLASH) || (c <? 32) || (c =? 60) || (c =? 62) || (c =? 59) || (c =? 124) || (c =? 38).
Definition clean (n : name) : bool := negb (existsb bad_char n).
(* GD_VF_CODE rejects the empty code ("may not end in a dot" with last_dot = 1 initially) *)
Definition valid_code (n : name) : bool := match n with [] => false | _ => clean n end.
Definition valid_name (n : name) : bool := valid_code n.
Definition has_dot (n : name) : bool := existsb (fun c => c =? 46) n.

Definition inval_top (s : state) : state := set_topfl s [].
Definition inval_of (l : list entry) (id : N) : list entry := upd_id l id (fun e => set_fl e []).
Definition inval_all (s : state) : state :=
  set_topfl (set_ents s (map (fun e => set_fl e []) (s_ents s))) [].
(* invalidate the lists of the container the entry lives in *)
Definition inval_container (s : state) (e : entry) : state :=
  if e_meta e then
    match e_par e with
    | Some p => set_ents s (inval_of (s_ents s) p)
    | None => s
    end
  else inval_top s.

Definition bump (s : state) (k : N) : state :=
  mkS (s_ents s) (s_next s + k) (s_ref s) (s_fref s) (s_fl s) (s_aff s).

Definition with_aliases (s : state) (reset : bool) (ok : Z) : state * res :=
  (set_ents s (update_aliases reset (s_ents s)), RInt ok).

(* fragment scope: fragment 1 is included by fragment 0 *)
Definition in_scope (f i : N) : bool := (f =? i) || ((f =? 1) && (i =? 0)).

Definition set_fref (s : state) (fr : list (option name)) : state :=
  mkS (s_ents s) (s_next s) (s_ref s) fr (s_fl s) (s_aff s).
Definition set_ref (s : state) (r : option N) : state :=
  mkS (s_ents s) (s_next s) r (s_fref s) (s_fl s) (s_aff s).

(* first-RAW-in-fragment propagation of _GD_Add (add.c:667-683) *)
Definition add_ref (s : state) (e : entry) : state :=
  if e_ty e =? T_RAW then
    match nth_error (s_fref s) (N.to_nat (e_frag e)) with
    | Some None =>
        let fr := if e_frag e =? 0 then [Some (e_name e); nth 1 (s_fref s) None]
                  else match nth 0 (s_fref s) None with
                       | None => [Some (e_name e); Some (e_name e)]
                       | Some x => [Some x; Some (e_name e)]
                       end in
        let s1 := set_fref s fr in
        match s_ref s1 with None => set_ref s1 (Some (e_id e)) | Some _ => s1 end
    | _ => s
    end
  else s.

(* the common tail of _GD_Add / parser insert / _GD_AddAlias: insert at the
   bisection point, link into the parent's subfield array, invalidate the
   lists of the container *)
Definition set_par e p := mkE (e_name e) (e_id e) (e_nid e) (e_ty e) (e_frag e) (e_hid e) (e_meta e) p (e_kids e) (e_ins e) (e_scs e) (e_dist e) (e_dir e) (e_val e) (e_fl e).

Definition do_insert (s : state) (P : option entry) (e0 : entry) : state :=
  let e := set_par e0 (match P with Some p => Some (e_id p) | None => None end) in
  let u := ins_point (s_ents s) (e_name e) in
  let l1 := insert_at u e (s_ents s) in
  match P with
  | Some p => bump (set_ents s (upd_id l1 (e_id p) (fun x => set_fl (set_kids x (e_kids x ++ [e_id e])) []))) 2
  | None => inval_top (bump (set_ents s l1) 2)
  end.

Definition new_entry (s : state) (nm : name) (ty frag : N) (hid meta : bool)
           (ins : list name) (scs : list (option name)) (v : Z) : entry :=
  mkE nm (s_next s) (s_next s + 1) ty frag hid meta None [] (map (fun i => (i, None)) ins) scs None false v [].

(* number of inputs / scalars the C code looks at, by type *)
Definition two_in (ty : N) : bool :=
  (ty =? T_MULTIPLY) || (ty =? T_DIVIDE) || (ty =? T_WINDOW) || (ty =? T_MPLEX) || (ty =? T_INDIR) || (ty =? T_SINDIR).
Definition one_in (ty : N) : bool :=
  (ty =? T_LINTERP) || (ty =? T_BIT) || (ty =? T_PHASE) || (ty =? T_POLYNOM) || (ty =? T_SBIT) || (ty =? T_RECIP).

(* _GD_FindField drops an initial '.' of the code it is asked to find (when more follows) *)
Definition undot (k : name) : name :=
  match k with
  | 46 :: (_ :: _) as r => r
  | _ => k
  end.

(* memcpy(name, parent, P->e->len): the parent part of a new subfield name is cut from the caller's
   string.  With a leading '.' (dropped by the lookup) the new name is wrong AND is inserted at the index
   computed for the name without the dot, which breaks the order of D->entry: that case is left
   unmodelled ([dotted_parent]) unless the repair is in. *)
Definition parent_part (c : cfg) (P : entry) (praw : name) : name := e_name P.
Definition dotted_parent (c : cfg) (praw : name) : bool := false.

(* the tail of _GD_Add once the parent and the full name are known *)
Definition add_go (s : state) (ty : N) (hid : bool) (ins : list name) (scs : list (option name)) (v : Z)
           (P : option entry) (full sub : name) (fr : N) : state * res :=
  match find_nd (s_ents s) full with
  | Some _ => (s, RInt E_DUPLICATE)
  | None =>
      if negb (valid_name sub) then (s, RInt E_BAD_CODE)
      else if (ty =? T_RAW) && (match P with Some _ => true | None => false end) then (s, RInt E_BAD_ENTRY)
      else
        let meta := match P with Some _ => true | None => false end in
        let e := new_entry s full ty fr hid meta ins scs v in
        let s1 := do_insert s P e in
        with_aliases (add_ref s1 e) false E_OK
  end.

Definition alias_go (s : state) (tgt : name) (P : option entry) (full sub : name) (fr : N) : state * res :=
  if negb (valid_name sub) then (s, RInt E_BAD_CODE)
  else match find_nd (s_ents s) full with
       | Some _ => (s, RInt E_DUPLICATE)
       | None =>
           let meta := match P with Some _ => true | None => false end in
           let e := mkE full (s_next s) (s_next s + 1) T_ALIAS fr false meta None [] [(tgt, None)] [] None false 0%Z [] in
           with_aliases (do_insert s P e) false E_OK
       end.

Definition op_add (c : cfg) (s : state) (viaspec : bool) (parent : option name) (praw : name) (nm : name)
           (ty frag : N) (hid : bool) (ins : list name) (scs : list (option name)) (v : Z) : state * res :=
  if viaspec then
    (* _GD_AddSpec -> _GD_ParseFieldSpec(insert = 1); CONST only *)
    if negb (ty =? T_CONST) || negb (valid_name nm) then (s, RUnmodelled) else
    match parent with
    | Some p =>
        match find_nd (s_ents s) p with
        | None => (s, RInt E_BAD_CODE)
        | Some P =>
            if e_meta P || is_alias P then (s, RUnmodelled) else
            let full := e_name P ++ SLASH :: nm in
            match find_nd (s_ents s) full with
            | Some _ => (s, RInt E_FORMAT)
            | None =>
                let e := new_entry s full ty (e_frag P) false true [] [] v in
                with_aliases (do_insert s (Some P) e) false E_OK
            end
        end
    | None =>
        if NFRAG <=? frag then (s, RInt E_BAD_INDEX) else
        match find_nd (s_ents s) nm with
        | Some _ => (s, RInt E_FORMAT)
        | None =>
            let e := new_entry s nm ty frag false false [] [] v in
            with_aliases (do_insert s None e) false E_OK
        end
    end
  else
    (* _GD_Add *)
    let go := add_go s ty hid ins scs v in
    match parent with
    | Some p =>
        match find_nd (s_ents s) p with
        | None => (s, RInt E_BAD_CODE)
        | Some P =>
            if e_meta P || is_alias P then (s, RInt E_BAD_CODE)
            else if dotted_parent c praw then (s, RUnmodelled)
            else go (Some P) (parent_part c P praw ++ SLASH :: nm) nm (e_frag P)
        end
    | None =>
        if NFRAG <=? frag then (s, RInt E_BAD_INDEX) else
        (* _GD_FixName / _GD_CheckParent(me = -1): Barth-style "parent/child" *)
        match nm with
        | [] => go None nm nm frag
        | c0 :: rest =>
            match first_slash rest with
            | None => go None nm nm frag
            | Some (pre0, sub) =>
                let pre := c0 :: pre0 in
                match find_nd (s_ents s) pre with
                | None => go None nm nm frag
                | Some P0 =>
                    if is_alias P0 then
                      match by_oid (s_ents s) (e_dist P0) with
                      | Some P => if e_meta P then (s, RUnmodelled)
                                  else go (Some P) (e_name P ++ SLASH :: sub) sub (e_frag P)
                      | None => (s, RUnmodelled)
                      end
                    else if e_meta P0 then (s, RUnmodelled)
                    else go (Some P0) (e_name P0 ++ SLASH :: sub) sub (e_frag P0)
                end
            end
        end
    end.

(* _GD_AddAlias *)
Definition op_alias (c : cfg) (s : state) (parent : option name) (praw : name) (nm tgt : name) (frag : N) : state * res :=
  if NFRAG <=? frag then (s, RInt E_BAD_INDEX) else
  let go := alias_go s tgt in
  match parent with
  | Some p =>
      match find_nd (s_ents s) p with
      | None => (s, RInt E_BAD_CODE)
      | Some P =>
          if e_meta P || is_alias P then (s, RInt E_BAD_CODE)
          else if dotted_parent c praw then (s, RUnmodelled)
          else go (Some P) (parent_part c P praw ++ SLASH :: nm) nm (e_frag P)
      end
  | None =>
      match nm with
      | [] => go None nm nm frag
      | c0 :: rest =>
          match first_slash rest with
          | None => go None nm nm frag
          | Some (pre0, sub) =>
              let pre := c0 :: pre0 in
              match find_nd (s_ents s) pre with
              | None => go None nm nm frag
              | Some P0 =>
                  if is_alias P0 then
                    match by_oid (s_ents s) (e_dist P0) with
                    | Some P => if e_meta P then (s, RUnmodelled)
                                else go (Some P) (e_name P ++ SLASH :: sub) sub (e_frag P)
                    | None => (s, RUnmodelled)
                    end
                  else if e_meta P0 then (s, RUnmodelled)
                  else go (Some P0) (e_name P0 ++ SLASH :: sub) sub (e_frag P0)
              end
          end
      end
  end.

(* ---------------------------------------------------------------- delete *)
(* order in which _GD_ClearDerived visits the inputs *)
Definition in_order (ty : N) (n : nat) : list nat :=
  if ty =? T_LINCOM then seq 0 (Nat.min n 3)
  else if two_in ty then [1%nat; 0%nat]
  else if one_in ty then [0%nat]
  else [].

(* inputs visited by the "vector" switch of _GD_UpdateInputs: INDIR/SINDIR only input 0 there *)
Definition vec_order (ty : N) (n : nat) : list nat :=
  if (ty =? T_INDIR) || (ty =? T_SINDIR) then [0%nat] else in_order ty n.

Fixpoint set_nth {A} (n : nat) (x : A) (l : list A) : list A :=
  match n, l with
  | _, [] => []
  | O, _ :: r => x :: r
  | S k, y :: r => y :: set_nth k x r
  end.

(* _GD_ClearInput(check = 1) for one (entry j, input i, doomed d): returns the
   new cache of j and whether the delete must be refused *)
Definition check_input (l : list entry) (j : entry) (i : nat) (d : N) : entry * bool :=
  match nth_error (e_ins j) i with
  | None => (j, false)
  | Some (code, cache) =>
      let cache' := match cache with
                    | Some x => Some x
                    | None => match find_da l code with Some t => Some (e_id t) | None => None end
                    end in
      let j' := set_ins j (set_nth i (code, cache') (e_ins j)) in
      (j', match cache' with Some x => x =? d | None => false end)
  end.

Fixpoint check_inputs (l : list entry) (j : entry) (order : list nat) (d : N) : entry * bool :=
  match order with
  | [] => (j, false)
  | i :: r =>
      let '(j', bad) := check_input l j i d in
      if bad then (j', true) else check_inputs l j' r d
  end.

Definition uses_scalar (j : entry) (dn : name) : bool :=
  existsb (fun o => match o with Some c => name_eqb c dn | None => false end) (e_scs j).

Definition is_constlike (e : entry) := (e_ty e =? T_CONST) || (e_ty e =? T_CARRAY).

(* check phase for entry j against the doomed list; returns j with caches and refusal *)
Fixpoint check_one (l : list entry) (deref : bool) (j : entry) (dels : list entry) : entry * bool :=
  match dels with
  | [] => (j, false)
  | d :: r =>
      if is_constlike d && negb deref && uses_scalar j (e_name d) then (j, true)
      else
        let '(j', bad) :=
          if is_alias j then (j, match e_dist j with Some x => x =? e_id d | None => false end)
          else check_inputs l j (in_order (e_ty j) (length (e_ins j))) (e_id d) in
        if bad then (j', true) else check_one l deref j' r
  end.

(* outer loop over D->entry; l is the current table (caches stored as we go) *)
Fixpoint check_all (l : list entry) (deref : bool) (ids : list N) (dels : list entry) : list entry * bool :=
  match ids with
  | [] => (l, false)
  | id :: r =>
      match by_id l id with
      | None => check_all l deref r dels
      | Some j =>
          let '(j', bad) := check_one l deref j dels in
          let l' := upd_id l id (fun x => set_ins x (e_ins j')) in   (* only the input caches change *)
          if bad then (l', true) else check_all l' deref r dels
      end
  end.

(* clear phase for one entry: _GD_DeReference(check = 0) resp. _GD_ClearDerived(check = 0) *)
Definition clear_derived (d : entry) (j : entry) : entry :=
  if is_alias j then
    match e_dist j with
    | Some x => if x =? e_id d then set_alias j None (e_dir j) else j
    | None => j
    end
  else
    set_ins j (map (fun p : name * option N =>
                 match snd p with
                 | Some x => if x =? e_id d then (fst p, None) else p
                 | None => p end) (e_ins j)).

Definition clear_one (deref : bool) (dels : list entry) (j : entry) : entry :=
  fold_left (fun (j : entry) d =>
    if is_constlike d && deref then
      clear_derived d (set_scs j (map (fun o => match o with
                               | Some cd => if name_eqb cd (e_name d) then None else Some cd
                               | None => None end) (e_scs j)))
    else clear_derived d j) dels j.

(* the metafield removal loop of del.c: walk D->entry and the (sorted) doomed
   list in step; an index is advanced only when nothing was removed *)
Fixpoint remove_metas (dels : list N) (l : list entry) : list entry :=
  match l with
  | [] => []
  | x :: r =>
      match dels with
      | [] => l
      | d :: ds => if e_id x =? d then remove_metas ds r else x :: remove_metas dels r
      end
  end.

Definition remove_id (l : list entry) (id : N) : list entry :=
  filter (fun e => negb (e_id e =? id)) l.

(* Pe->p.meta_entry[i] = Pe->p.meta_entry[n_meta - 1]; n_meta-- *)
Fixpoint swap_remove (kids : list N) (id : N) : list N :=
  match kids with
  | [] => []
  | k :: r =>
      if k =? id then match rev r with
                      | [] => []
                      | last :: mid_r => last :: rev mid_r
                      end
      else k :: swap_remove r id
  end.

Definition first_raw_in_scope (l : list entry) (skip : N) (i : N) : option entry :=
  find (fun e => negb (e_id e =? skip) && (e_ty e =? T_RAW) && in_scope (e_frag e) i) l.

(* "Fix up reference fields" of _GD_Delete (del.c:336-398): new D->reference_field and
   new per-fragment ref_name when the RAW field E goes away *)
Definition del_refs (l1 : list entry) (E : entry) (rf : option N) (fr : list (option name))
  : option N * list (option name) :=
  if e_ty E =? T_RAW then
    let flagged i := match nth i fr None with Some r => name_eqb r (e_name E) | None => false end in
    let repl i := first_raw_in_scope l1 (e_id E) i in
    let newf i := if flagged i then match repl (N.of_nat i) with Some x => Some (e_name x) | None => None end
                  else nth i fr None in
    let reference := if flagged 0%nat then repl 0 else None in
    (match reference with
     | Some x => Some (e_id x)
     | None => match rf with
               | Some r => if r =? e_id E then None else rf
               | None => None
               end
     end, [newf 0%nat; newf 1%nat])
  else (rf, fr).

Definition op_del (c : cfg) (s : state) (nm : name) (flags : N) : state * res :=
  let l := s_ents s in
  match find_nd l nm with
  | None => (s, RInt E_BAD_CODE)
  | Some E =>
      let f_meta := N.testbit flags 0 in
      let f_deref := N.testbit flags 2 in
      let f_force := N.testbit flags 3 in
      if negb (e_meta E) && negb (match e_kids E with [] => true | _ => false end) && negb f_meta
      then (s, RInt E_DELETE) else
      let kids := if e_meta E then [] else members l (Some E) in
      let dels := E :: kids in
      let '(l1, refused) := if f_force then (l, false) else check_all l f_deref (map e_id l) dels in
      if refused then (set_ents s l1, RInt E_DELETE) else
      (* reference fix-up *)
      let '(rf', fr') := del_refs l1 E (s_ref s) (s_fref s) in
      let s2 := set_fref (set_ref (set_ents s l1) rf') fr' in
      (* clear clients and derived fields *)
      let l3 := map (clear_one f_deref dels) (s_ents s2) in
      let fin (l : list entry) := update_aliases true l in   (* _GD_UpdateAliases(D, 1) at the end of _GD_Delete *)
      if e_meta E then
        match by_oid l3 (e_par E) with
        | None => (s, RCrash K_NULLPARENT)
        | Some P =>
            let l4 := upd_id l3 (e_id P) (fun p => set_fl (set_kids p (swap_remove (e_kids p) (e_id E))) []) in
            (set_ents s2 (fin (remove_id l4 (e_id E))), RInt E_OK)
        end
      else
        let sorted_kids := map e_id (resort e_name kids) in
        let l4 := remove_metas sorted_kids l3 in
        (inval_top (set_ents s2 (fin (remove_id l4 (e_id E)))), RInt E_OK)
  end.

(* ---------------------------------------------------------------- rename *)
Fixpoint prefix_eq (p s : name) : option name :=   (* s = p ++ rest *)
  match p, s with
  | [], _ => Some s
  | _ :: _, [] => None
  | a :: p', b :: s' => if a =? b then prefix_eq p' s' else None
  end.

(* _GD_RenameCode for a code without affixes, namespaces or representation *)
Definition rename_code (meta : bool) (old new : name) (updb : bool) (code : name) : name :=
  let hit rest := if updb then new ++ rest else code in
  if meta then (if name_eqb code old then hit [] else code)
  else match last_slash code with
       | Some (pre, post) => if name_eqb pre old then hit (SLASH :: post) else code
       | None => if name_eqb code old then hit [] else code
       end.

Definition ren_ins (f : name -> name) (which : list nat) (e : entry) : entry :=
  set_ins e (map (fun ip : nat * (name * option N) =>
                    if existsb (Nat.eqb (fst ip)) which then (f (fst (snd ip)), None) else snd ip)
                 (combine (seq 0 (length (e_ins e))) (e_ins e))).

Definition update_inputs (meta : bool) (rty : N) (old new : name) (flags : N) (e : entry) : entry :=
  let updb := N.testbit flags 1 in
  let dangle := N.testbit flags 2 in
  (* rdat->type & GD_SCALAR_ENTRY_BIT; a dangling alias has type GD_ALIAS_ENTRY = -1, all bits set *)
  let sc := is_scalar_ty rty || (rty =? T_ALIAS) in
  let upd_sc := negb meta || sc in
  let upd_vec := negb meta || negb sc in
  let e1 := if upd_vec then ren_ins (rename_code meta old new updb) (vec_order (e_ty e) (length (e_ins e))) e else e in
  let e2 := if upd_sc && negb (is_alias e1) then
              set_scs e1 (map (fun o => match o with Some cd => Some (rename_code meta old new updb cd) | None => None end) (e_scs e1))
            else e1 in
  (* the "scalar" switch: the index input of INDIR / SINDIR *)
  let e2 := if ((e_ty e =? T_INDIR) && (negb meta || (rty =? T_CARRAY))) ||
               ((e_ty e =? T_SINDIR) && (negb meta || (rty =? T_SARRAY)))
            then ren_ins (rename_code meta old new updb) [1%nat] e2 else e2 in
  if negb dangle && is_alias e2 then
    set_ins e2 (map (fun p : name * option N => (rename_code meta old new true (fst p), snd p)) (e_ins e2))
  else e2.

Definition op_ren (s : state) (nm new : name) (flags : N) : state * res :=
  let l := s_ents s in
  match find_nd l nm with
  | None => (s, RInt E_BAD_CODE)
  | Some E =>
      if e_ty E =? T_INDEX then (s, RInt E_BAD_FIELD_TYPE) else
      if negb (valid_code new) then (s, RInt E_BAD_CODE) else
      let pname := if e_meta E then
                     match by_oid l (e_par E) with Some P => Some (e_name P ++ SLASH :: new) | None => None end
                   else Some new in
      match pname with
      | None => (s, RCrash K_NULLPARENT)
      | Some full =>
          match (match find_nd l full with
                 | Some Q0 => if is_alias Q0 && (match e_dist Q0 with Some d => d =? e_id E | None => false end)
                              then Some E else Some Q0
                 | None => None
                 end) with
          | Some Q => if e_id Q =? e_id E then (s, RInt E_OK) else (s, RInt E_DUPLICATE)
          | None =>
              let rty := if is_alias E then match by_oid l (e_dist E) with Some t => e_ty t | None => e_ty E end
                         else e_ty E in
              let old := e_name E in
              let nx := s_next s in
              (* the field itself and its subfields get new names *)
              let kidn := N.of_nat (length (e_kids E)) in
              let l1 := map (fun e =>
                               if e_id e =? e_id E then set_name e full nx
                               else if existsb (N.eqb (e_id e)) (e_kids E) then
                                 set_name e (rename_code false old full true (e_name e)) (nx + 1 + e_id e)
                               else e) l in
              let l2 := map (update_inputs (e_meta E) rty old full flags) l1 in
              let l3 := resort e_name l2 in
              let s1 := mkS l3 (nx + 2 + nx) (s_ref s)
                            (map (fun o => match o with Some r => if name_eqb r old then Some full else Some r | None => None end) (s_fref s))
                            (s_fl s) (s_aff s) in
              (* rdat->fl *)
              let s2 :=
                if e_meta E then inval_container s1 E
                else inval_top (set_ents s1 (inval_of (s_ents s1) (e_id E))) in
              with_aliases s2 true E_OK
          end
      end
  end.

(* ------------------------------------------------------------------ move *)
Definition op_move (s : state) (nm : name) (frag : N) : state * res :=
  match find_nd (s_ents s) nm with
  | None => (s, RInt E_BAD_CODE)
  | Some E =>
      if e_ty E =? T_INDEX then (s, RInt E_BAD_FIELD_TYPE)
      else if NFRAG <=? frag then (s, RInt E_BAD_INDEX)
      else if e_frag E =? frag then (s, RInt E_OK)
      else
        (set_ents s (map (fun e => if (e_id e =? e_id E) || existsb (N.eqb (e_id e)) (e_kids E)
                                   then set_frag e frag else e) (s_ents s)), RInt E_OK)
  end.

(* ------------------------------------------------------------------ hide *)
Definition op_hide (s : state) (nm : name) (h : bool) : state * res :=
  match find_nd (s_ents s) nm with
  | None => (s, RInt E_BAD_CODE)
  | Some E =>
      if Bool.eqb (e_hid E) h then (s, RInt E_OK) else
      let s1 := set_ents s (upd_id (s_ents s) (e_id E) (fun e => set_hid e h)) in
      (inval_container s1 E, RInt E_OK)
  end.

(* --------------------------------------------------------------- affixes *)
Definition suffix_strip (sx s : name) : name :=   (* s without the trailing sx (assumed present) *)
  firstn (length s - length sx) s.

Definition reaffix (oldp olds px sx : name) (n : name) : name :=
  let '(top, sub) := match first_slash n with Some (a, b) => (a, SLASH :: b) | None => (n, []) end in
  let base := suffix_strip olds (skipn (length oldp) top) in
  px ++ base ++ sx ++ sub.

(* F->px / F->sx of fragment 1; [NULLAFF] stands for the NULL pointer of a fragment that never had one *)
Definition NULLAFF : name := [0].
Definition is_nullaff (a : name) : bool := match a with [0] => true | _ => false end.
Definition eff_aff (a : name) : name := if is_nullaff a then [] else a.

(* _GD_UpdateAffixes (prefix and suffix only): parts that do not change are forgotten; if nothing
   changes the call does nothing at all; otherwise every field of the fragment gets its new code, which
   must not name an existing entry; the table is re-sorted and every cached list dropped *)
Definition op_affix (s : state) (frag : N) (px sx : name) : state * res :=
  if (frag =? 0) || (NFRAG <=? frag) then (s, RInt E_BAD_INDEX)
  else
    let '(op_raw, os_raw) := s_aff s in
    let op_ := eff_aff op_raw in
    let os_ := eff_aff os_raw in
    let px_chg := is_nullaff op_raw || negb (name_eqb px op_) in
    let sx_chg := is_nullaff os_raw || negb (name_eqb sx os_) in
    if negb px_chg && negb sx_chg then (s, RInt E_OK)
    else if (px_chg && (negb (clean px) || has_dot px)) || (sx_chg && (negb (clean sx) || has_dot sx))
    then (s, RInt E_BAD_CODE)
    else
    let px' := if px_chg then px else op_ in
    let sx' := if sx_chg then sx else os_ in
    let nx := s_next s in
    (* _GD_UpdateCode: the new code of every affected entry must not name an existing entry *)
    if existsb (fun e => (e_frag e =? frag) &&
                         match find_nd (s_ents s) (reaffix op_ os_ px' sx' (e_name e)) with Some _ => true | None => false end)
               (s_ents s)
    then (s, RInt E_DUPLICATE) else
    let l1 := map (fun e => if e_frag e =? frag
                            then set_name e (reaffix op_ os_ px' sx' (e_name e)) (nx + e_id e) else e) (s_ents s) in
    let s1 := mkS (resort e_name l1) (nx + nx) (s_ref s) (s_fref s) (s_fl s)
                  ((if px_chg then px else op_raw), (if sx_chg then sx else os_raw)) in
    (inval_all s1, RInt E_OK).

(* ------------------------------------------------------------ entry list *)
Definition show_list (l : list entry) (cl : list celem) : list (option name) :=
  map (fun ce => if live_name l ce then Some (snd ce) else None) cl.

Definition op_list (s : state) (parent : option name) (sel flags : N) : state * res :=
  match find_parent (s_ents s) parent with
  | None => (s, RInt E_BAD_CODE)
  | Some par =>
      let fl := match par with Some P => e_fl P | None => s_fl s end in
      match fl_get fl sel with
      | Some (fg, cl) =>
          if fg =? flags then (s, RList (show_list (s_ents s) cl))
          else
            let cl' := compute_list (s_ents s) par sel flags in
            match cl' with
            | [] => (s, RList [])
            | _ =>
                let fl' := fl_set fl sel (flags, cl') in
                (match par with
                 | Some P => set_ents s (upd_id (s_ents s) (e_id P) (fun e => set_fl e fl'))
                 | None => set_topfl s fl'
                 end, RList (show_list (s_ents s) cl'))
            end
      | None =>
          let cl' := compute_list (s_ents s) par sel flags in
          match cl' with
          | [] => (s, RList [])
          | _ =>
              let fl' := fl_set fl sel (flags, cl') in
              (match par with
               | Some P => set_ents s (upd_id (s_ents s) (e_id P) (fun e => set_fl e fl'))
               | None => set_topfl s fl'
               end, RList (show_list (s_ents s) cl'))
          end
      end
  end.

Definition affixed (s : state) : bool :=
  match eff_aff (fst (s_aff s)), eff_aff (snd (s_aff s)) with [], [] => false | _, _ => true end.

(* c8788a9: whenever an alias's resolution changes (_GD_ResolveAlias, the reset loop of _GD_UpdateAliases,
   _GD_ClearDerived) the cached lists of the alias's container are invalidated.  On the observers this means
   that no cached list is ever stale after an operation that can change an alias resolution; the model
   renders it by dropping every cached list after add / alias / delete / rename (dropping more lists than
   the C code does cannot be observed as long as the lists the C code keeps are up to date -- which is
   what the comparison with the library tests). *)
Definition post (c : cfg) (r : state * res) : state * res := (inval_all (fst r), snd r).

Definition praw_of (parent : option name) : name := match parent with Some p => p | None => [] end.
Definition undot_opt (parent : option name) : option name := match parent with Some p => Some (undot p) | None => None end.

Definition step (c : cfg) (s : state) (o : op) : state * res :=
  match o with
  | OList parent sel flags => op_list s (undot_opt parent) sel flags
  | OAffix frag px sx => op_affix s frag px sx
  | _ =>
      if affixed s then (s, RUnmodelled) else
      match o with
      | OAdd viaspec parent nm ty frag hid ins scs v =>
          if has_dot nm then (s, RUnmodelled)
          else post c (op_add c s viaspec (undot_opt parent) (praw_of parent) nm ty frag hid ins scs v)
      | OAlias parent nm tgt frag =>
          if has_dot nm then (s, RUnmodelled)
          else post c (op_alias c s (undot_opt parent) (praw_of parent) nm tgt frag)
      | ODel nm flags => post c (op_del c s (undot nm) flags)
      | ORen nm new flags => if has_dot new then (s, RUnmodelled) else post c (op_ren s (undot nm) new flags)
      | OMove nm frag => op_move s (undot nm) frag
      | OHide nm h => op_hide s (undot nm) h
      | _ => (s, RUnmodelled)
      end
  end.

Definition run (c : cfg) (s : state) (ops : list op) : state :=
  fold_left (fun s o => fst (step c s o)) ops s.

(* gd_reference: name of D->reference_field; None = NULL; Some None = dangling *)
Definition reference (s : state) : option (option name) :=
  match s_ref s with
  | None => None
  | Some r => Some (match by_id (s_ents s) r with Some e => Some (e_name e) | None => None end)
  end.

(* ------------------------------------------------------------ invariants *)
Definition ids_fresh (s : state) : bool :=
  forallb (fun e => (e_id e <? s_next s) && (e_nid e <? s_next s)) (s_ents s).

Definition sorted_ok (s : state) : bool := sortedb (keys (s_ents s)).

(* the reference field is a live RAW entry or none *)
Definition ref_ok (s : state) : bool :=
  match s_ref s with
  | None => true
  | Some r => match by_id (s_ents s) r with Some e => e_ty e =? T_RAW | None => false end
  end.

(* every fragment's /REFERENCE names an existing RAW field *)
Definition fref_ok (s : state) : bool :=
  forallb (fun o => match o with
                    | None => true
                    | Some n => match find_nd (s_ents s) n with Some e => e_ty e =? T_RAW | None => false end
                    end) (s_fref s).

(* a valid cached list of a container holds only names of current members *)
Definition cache_live_fl (l : list entry) (par : option entry) (fl : flist) : bool :=
  forallb (fun p : N * (N * list celem) =>
     forallb (fun ce : celem =>
        existsb (fun m => (e_id m =? fst (fst ce)) && (e_nid m =? snd (fst ce))) (members l par))
        (snd (snd p))) fl.
Definition cache_live (s : state) : bool :=
  cache_live_fl (s_ents s) None (s_fl s) &&
  forallb (fun P => cache_live_fl (s_ents s) (Some P) (e_fl P)) (s_ents s).

(* cache valid => cached list = recomputed list *)
Fixpoint celem_list_eqb (a b : list celem) : bool :=
  match a, b with
  | [], [] => true
  | (i, n, t) :: a', (j, m, u) :: b' => (i =? j) && (n =? m) && name_eqb t u && celem_list_eqb a' b'
  | _, _ => false
  end.
Definition cache_consistent_fl (l : list entry) (par : option entry) (fl : flist) : bool :=
  forallb (fun p : N * (N * list celem) =>
     celem_list_eqb (snd (snd p)) (compute_list l par (fst p) (fst (snd p)))) fl.
Definition cache_consistent (s : state) : bool :=
  cache_consistent_fl (s_ents s) None (s_fl s) &&
  forallb (fun P => cache_consistent_fl (s_ents s) (Some P) (e_fl P)) (s_ents s).

(* every metafield belongs to exactly its parent *)
Definition meta_ok (s : state) : bool :=
  let l := s_ents s in
  forallb (fun e =>
     (* a name with a '/' is a metafield, and a metafield hangs off the entry named before the '/' *)
     match first_slash (e_name e) with
     | Some (pre, _) =>
         e_meta e &&
         match by_oid l (e_par e) with
         | Some P => name_eqb (e_name P) pre && existsb (N.eqb (e_id e)) (e_kids P)
         | None => false
         end
     | None => negb (e_meta e)
     end &&
     forallb (fun k => match by_id l k with
                       | Some ch => e_meta ch && match e_par ch with Some p => p =? e_id e | None => false end
                       | None => false end) (e_kids e)) l.

(* alias targets: no dangling entry[0]; and entry[0] is what following the names gives *)
Fixpoint chase (fuel : nat) (l : list entry) (n : name) : option N :=
  match fuel with
  | O => None
  | S f => match find_nd l n with
           | Some t => if is_alias t then chase f l (alias_tgt t) else Some (e_id t)
           | None => None
           end
  end.
Definition alias_live (s : state) : bool :=
  forallb (fun e => if is_alias e then
                      match e_dist e with
                      | Some d => match by_id (s_ents s) d with Some t => negb (is_alias t) | None => false end
                      | None => true end
                    else true) (s_ents s).
Definition alias_resolved (s : state) : bool :=
  forallb (fun e => if is_alias e then
                      match e_dist e, chase (S (length (s_ents s))) (s_ents s) (alias_tgt e) with
                      | Some a, Some b => a =? b
                      | None, None => true
                      | _, _ => false
                      end
                    else true) (s_ents s).

(* the part proved to be preserved by every operation *)
Definition inv_core (s : state) : bool :=
  sorted_ok s && ids_fresh s.
(* the full invariant of the property *)
Definition inv_full (s : state) : bool :=
  sorted_ok s && ids_fresh s && ref_ok s && fref_ok s && cache_live s && cache_consistent s &&
  meta_ok s && alias_live s && alias_resolved s.
