(* C15 -- Part 2: every operation of the model preserves the structural
   invariant [Inv] (together with sortedness where names matter). *)
From Coq Require Import List NArith ZArith Arith Bool Lia Sorting.Sorted Sorting.Permutation.
From GD Require Import C15.Order C15.OrderProofs C15.NameTable C15.NameTableProofs C15.StructProofs.
Import ListNotations.
Open Scope N_scope.

Transparent with_aliases do_insert add_ref.

Lemma upd_id_map : forall l id g, upd_id l id g = map (fun e => if e_id e =? id then g e else e) l.
Proof. reflexivity. Qed.

Lemma find_nd_In : forall l k e, find_nd l k = Some e -> In e l.
Proof.
  unfold find_nd. intros. destruct (find_index (keys l) k); [|discriminate].
  eapply nth_error_In; eauto.
Qed.

Lemma by_oid_In : forall l o e, by_oid l o = Some e -> In e l /\ o = Some (e_id e).
Proof.
  intros. destruct o; simpl in H; [|discriminate]. apply by_id_In in H. destruct H. subst. auto.
Qed.

Lemma name_eqb_eq : forall a b, name_eqb a b = true <-> a = b.
Proof.
  intros. unfold name_eqb. rewrite <- name_cmp_eq_iff. destruct (name_cmp a b); split; intros; congruence.
Qed.

(* ---------------------------------------------------------- alias resolution *)
Lemma set_alias_skel : forall d r, skel_pres (fun x => set_alias x d r).
Proof. intros d r e. repeat split. Qed.

Lemma upd_skel_map : forall f l id g, skel_pres f -> skel_pres g ->
  exists h, skel_pres h /\ upd_id (map f l) id g = map h l.
Proof.
  intros. exists (fun e => (fun x => if e_id x =? id then g x else x) (f e)). split.
  - apply (skel_comp f (fun x => if e_id x =? id then g x else x)); auto.
    apply (skel_cond (fun x => e_id x =? id)); auto.
  - rewrite upd_id_map, map_map. reflexivity.
Qed.

Lemma resolve_skel : forall fuel depth l base id,
  exists f, skel_pres f /\ fst (resolve fuel depth l base id) = map f l.
Proof.
  induction fuel; simpl; intros.
  - exists (fun e => e). split; [apply skel_id | rewrite map_id; auto].
  - assert (U : forall d r, exists f, skel_pres f /\ upd_id l id (fun x => set_alias x d r) = map f l).
    { intros. exists (fun e => if e_id e =? id then set_alias e d r else e). split; auto.
      apply (skel_cond (fun e => e_id e =? id)). apply set_alias_skel. }
    destruct (by_id l id); [|exists (fun e => e); split; [apply skel_id | rewrite map_id; auto]].
    destruct (find_nd l (alias_tgt e)); simpl; [|apply U].
    destruct (is_alias e0); simpl; [|apply U].
    destruct (e_dist e0); simpl; [apply U|].
    destruct ((e_id e0 =? base) || Nat.leb (length l) depth); simpl; [apply U|].
    destruct (IHfuel (S depth) l base (e_id e0)) as (f & F & E).
    destruct (resolve fuel (S depth) l base (e_id e0)) as [l' r]. simpl in *. subst.
    apply upd_skel_map; auto. apply set_alias_skel.
Qed.

Lemma ua_fold_skel : forall ids cur, exists f, skel_pres f /\ fold_left ua_step ids cur = map f cur.
Proof.
  induction ids; simpl; intros.
  - exists (fun e => e). split; [apply skel_id | rewrite map_id; auto].
  - assert (S1 : exists f, skel_pres f /\ ua_step cur a = map f cur).
    { unfold ua_step. destruct (by_id cur a); [|exists (fun e => e); split; [apply skel_id | rewrite map_id; auto]].
      destruct (is_alias e && _); [apply resolve_skel|].
      exists (fun e => e); split; [apply skel_id | rewrite map_id; auto]. }
    destruct S1 as (f1 & F1 & E1). rewrite E1.
    destruct (IHids (map f1 cur)) as (f2 & F2 & E2). rewrite E2.
    exists (fun e => f2 (f1 e)). split; [apply (skel_comp f1 f2); auto | rewrite map_map; auto].
Qed.

Lemma update_aliases_skel : forall reset l, exists f, skel_pres f /\ update_aliases reset l = map f l.
Proof.
  intros. unfold update_aliases.
  set (r0 := fun e => if is_alias e then set_alias e None false else e).
  assert (R0 : skel_pres r0) by (apply (skel_cond is_alias); apply set_alias_skel).
  destruct reset.
  - destruct (ua_fold_skel (map e_id (map r0 l)) (map r0 l)) as (f & F & E). rewrite E.
    exists (fun e => f (r0 e)). split; [apply (skel_comp r0 f); auto | rewrite map_map; auto].
  - apply ua_fold_skel.
Qed.

Lemma Inv_map_skel : forall s f, skel_pres f -> Inv s -> Inv (set_ents s (map f (s_ents s))).
Proof. intros. unfold Inv in *. simpl. apply inv_map_skel; auto. Qed.

Lemma Inv_with_aliases : forall s r ok, Inv s -> Inv (fst (with_aliases s r ok)).
Proof.
  intros. unfold with_aliases. simpl.
  destruct (update_aliases_skel r (s_ents s)) as (f & F & E). rewrite E. apply Inv_map_skel; auto.
Qed.

(* ------------------------------------------------------------------ insert *)
Lemma nodup_snoc : forall (l : list N) x, NoDup l -> ~ In x l -> NoDup (l ++ [x]).
Proof.
  intros. eapply Permutation_NoDup; [apply Permutation_cons_append|]. constructor; auto.
Qed.

Lemma Inv_do_insert : forall s P e0,
  Inv s ->
  e_id e0 = s_next s -> e_nid e0 = s_next s + 1 -> e_kids e0 = [] -> e_fl e0 = [] ->
  match P with
  | None => e_meta e0 = false
  | Some p => In p (s_ents s) /\ e_meta p = false /\ e_meta e0 = true /\ e_ty e0 <> T_RAW
  end ->
  Inv (do_insert s P e0).
Proof.
  intros s P e0 IV Eid Enid Ek Efl HP. unfold do_insert.
  set (e := set_par e0 _). set (u := ins_point (s_ents s) (e_name e)).
  assert (I1 : inv (insert_at u e (s_ents s)) (s_next s + 2) (s_ref s) (s_fref s) (s_fl s)).
  { eapply inv_perm; [apply Permutation_sym; apply insert_at_perm|].
    apply inv_cons; auto. intro M. destruct P; [tauto|]. unfold e in M. simpl in M. congruence. }
  destruct P as [p|].
  - destruct HP as (Ip & Mp & Me & Te).
    unfold Inv. simpl. rewrite upd_id_map.
    set (l1 := insert_at u e (s_ents s)) in *.
    assert (In1 : forall x, In x l1 -> x = e \/ In x (s_ents s)).
    { intros x I. eapply Permutation_in in I; [|apply insert_at_perm]. destruct I; auto. }
    assert (Ie : In e l1) by (eapply Permutation_in; [apply Permutation_sym; apply insert_at_perm|left; auto]).
    assert (Ipl : In p l1) by (eapply Permutation_in; [apply Permutation_sym; apply insert_at_perm|right; auto]).
    assert (Lt : e_id p < s_next s) by (apply (I_fresh _ _ _ _ _ IV p Ip)).
    set (g := fun x : entry => set_fl (set_kids x (e_kids x ++ [e_id e])) []).
    apply inv_map_gen with (nx := s_next s + 2) (fr := s_fref s) (tfl := s_fl s); auto.
    + intro x. destruct (e_id x =? e_id p); auto.
    + split; [lia|]. intros x I. destruct (e_id x =? e_id p); simpl; apply (I_fresh _ _ _ _ _ I1 x I).
    + intros Q k I K. destruct (e_id Q =? e_id p) eqn:EQ.
      * simpl in K. apply in_app_iff in K. destruct K as [K|[K|[]]].
        -- apply (I_kids _ _ _ _ _ I1 Q k I K).
        -- exists e. apply N.eqb_eq in EQ. subst k. repeat split; auto. unfold e; simpl. congruence.
      * apply (I_kids _ _ _ _ _ I1 Q k I K).
    + intros Q I. destruct (e_id Q =? e_id p) eqn:EQ.
      * apply N.eqb_eq in EQ. simpl. split.
        -- apply nodup_snoc.
           ++ apply (I_kidsnd _ _ _ _ _ I1 Q I).
           ++ intro K. destruct (In1 Q I) as [->|IQ].
              ** unfold e in K. simpl in K. rewrite Ek in K. inversion K.
              ** destruct (I_kids _ _ _ _ _ IV Q _ IQ K) as (ch & Ic & Ei & _).
                 destruct (I_fresh _ _ _ _ _ IV ch Ic). unfold e in Ei. simpl in Ei. lia.
        -- intro M. assert (Q = p) by (eapply uniq_id; eauto using I_nodup). subst. congruence.
      * split; [apply (I_kidsnd _ _ _ _ _ I1 Q I)|]. intro M. apply (I_metaleaf _ _ _ _ _ I1 Q I M).
    + intros n I. destruct (I_fref _ _ _ _ _ I1 n I) as (x & Ix & Nm & Ty). exists x. repeat split; auto.
      destruct (e_id x =? e_id p); auto.
    + right. split; auto. intros x _ _. destruct (e_id x =? e_id p); auto.
    + intros Q I. destruct (e_id Q =? e_id p) eqn:EQ; [left; auto|right]. split; auto.
      intros m Im K. split; auto. destruct (e_id m =? e_id p); auto.
  - unfold Inv. simpl. apply inv_top_nil with (tfl := s_fl s). exact I1.
Qed.

Lemma do_insert_has : forall s P e0, exists e', In e' (s_ents (do_insert s P e0)) /\
  e_id e' = e_id e0 /\ e_name e' = e_name e0 /\ e_ty e' = e_ty e0.
Proof.
  intros. unfold do_insert.
  set (e := set_par e0 _). set (u := ins_point (s_ents s) (e_name e)).
  assert (Ie : In e (insert_at u e (s_ents s)))
    by (eapply Permutation_in; [apply Permutation_sym; apply insert_at_perm|left; auto]).
  destruct P as [p|].
  - set (g := fun x : entry => if e_id x =? e_id p then set_fl (set_kids x (e_kids x ++ [e_id e])) [] else x).
    exists (g e). split.
    + change (In (g e) (map g (insert_at u e (s_ents s)))). apply in_map. auto.
    + unfold g. destruct (e_id e =? e_id p); auto.
  - exists e. simpl. auto.
Qed.

Lemma nth_some_in : forall (fr : list (option name)) i n, nth i fr None = Some n -> In (Some n) fr.
Proof.
  intros. destruct (Nat.lt_ge_cases i (length fr)).
  - rewrite <- H. apply nth_In. auto.
  - rewrite nth_overflow in H by auto. discriminate.
Qed.

Lemma Inv_add_ref : forall s e e', Inv s -> In e' (s_ents s) ->
  e_id e' = e_id e -> e_name e' = e_name e -> e_ty e' = e_ty e -> Inv (add_ref s e).
Proof.
  intros s e e' IV Ie Eid Enm Ety. unfold add_ref.
  destruct (e_ty e =? T_RAW) eqn:T; auto. apply N.eqb_eq in T.
  destruct (nth_error (s_fref s) (N.to_nat (e_frag e))) as [[x|]|]; auto.
  match goal with |- context[set_fref s ?f] => set (fr' := f) end.
  assert (FR : forall n, In (Some n) fr' -> exists x, In x (s_ents s) /\ e_name x = n /\ e_ty x = T_RAW).
  { intros n I. assert (C : n = e_name e \/ In (Some n) (s_fref s)).
    { unfold fr' in I. destruct (e_frag e =? 0).
      - destruct I as [I|[I|[]]]; [inversion I; auto|]. right. eapply nth_some_in; eauto.
      - destruct (nth 0 (s_fref s) None) eqn:N0.
        + destruct I as [I|[I|[]]]; inversion I; subst; auto. right. eapply nth_some_in; eauto.
        + destruct I as [I|[I|[]]]; inversion I; auto. }
    destruct C as [->|C]; [exists e'; repeat split; auto; congruence|].
    apply (I_fref _ _ _ _ _ IV n C). }
  assert (I2 : Inv (set_fref s fr')).
  { unfold Inv in *. simpl. eapply inv_set_refs; [|exact FR|exact IV]. apply (I_ref _ _ _ _ _ IV). }
  destruct (s_ref (set_fref s fr')) eqn:R; auto.
  unfold Inv in *. simpl in *. eapply inv_set_refs; [| |exact I2].
  - intros r Hr. inversion Hr; subst. exists e'. repeat split; auto. congruence.
  - apply FR.
Qed.

Opaque with_aliases do_insert add_ref.

Definition parent_ok (s : state) (P : option entry) : Prop :=
  match P with None => True | Some p => In p (s_ents s) /\ e_meta p = false end.

Lemma Inv_add_go : forall s ty hid ins scs v P full sb fr,
  Inv s -> parent_ok s P -> Inv (fst (add_go s ty hid ins scs v P full sb fr)).
Proof.
  intros. unfold add_go. destruct (find_nd (s_ents s) full); simpl; auto.
  destruct (negb (valid_name sb)); simpl; auto.
  destruct ((ty =? T_RAW) && match P with Some _ => true | None => false end) eqn:RW; simpl; auto.
  apply Inv_with_aliases.
  set (e0 := new_entry s full ty fr hid _ ins scs v).
  assert (ID : Inv (do_insert s P e0)).
  { apply Inv_do_insert; auto. destruct P as [p|]; simpl; auto.
    destruct H0. repeat split; auto. rewrite andb_true_r in RW. apply N.eqb_neq in RW. auto. }
  destruct (do_insert_has s P e0) as (e' & Ie & A & B & C).
  eapply Inv_add_ref; eauto.
Qed.

Lemma Inv_alias_go : forall s tgt P full sb fr,
  Inv s -> parent_ok s P -> Inv (fst (alias_go s tgt P full sb fr)).
Proof.
  intros. unfold alias_go. destruct (negb (valid_name sb)); simpl; auto.
  destruct (find_nd (s_ents s) full); simpl; auto.
  apply Inv_with_aliases. apply Inv_do_insert; auto.
  destruct P as [p|]; simpl; auto. destruct H0. repeat split; auto. discriminate.
Qed.

Lemma orb_false_meta : forall e, e_meta e || is_alias e = false -> e_meta e = false.
Proof. intros. apply orb_false_iff in H. tauto. Qed.

Lemma Inv_add : forall c s viaspec parent praw nm ty frag hid ins scs v,
  Inv s -> Inv (fst (op_add c s viaspec parent praw nm ty frag hid ins scs v)).
Proof.
  intros. unfold op_add. destruct viaspec.
  - destruct (negb (ty =? T_CONST) || negb (valid_name nm)) eqn:TC; simpl; auto.
    apply orb_false_iff in TC. destruct TC as (TC & _). apply negb_false_iff in TC. apply N.eqb_eq in TC.
    destruct parent.
    + destruct (find_nd (s_ents s) n) eqn:FP; simpl; auto.
      destruct (e_meta e || is_alias e) eqn:MA; simpl; auto.
      destruct (find_nd (s_ents s) (e_name e ++ SLASH :: nm)); simpl; auto.
      apply Inv_with_aliases. apply Inv_do_insert; auto. simpl.
      repeat split; auto. eapply find_nd_In; eauto. apply orb_false_meta; auto.
      subst ty. discriminate.
    + destruct (NFRAG <=? frag); simpl; auto.
      destruct (find_nd (s_ents s) nm); simpl; auto.
      apply Inv_with_aliases. apply Inv_do_insert; auto.
  - destruct parent.
    + destruct (find_nd (s_ents s) n) eqn:FP; simpl; auto.
      destruct (e_meta e || is_alias e) eqn:MA; simpl; auto.
      try unfold dotted_parent.
      apply Inv_add_go; auto. split; [eapply find_nd_In; eauto | apply orb_false_meta; auto].
    + destruct (NFRAG <=? frag); simpl; auto.
      destruct nm as [|c0 rest]; [apply Inv_add_go; simpl; auto|].
      destruct (first_slash rest) as [[pre0 sb]|]; [|apply Inv_add_go; simpl; auto].
      destruct (find_nd (s_ents s) (c0 :: pre0)) eqn:FP; [|apply Inv_add_go; simpl; auto].
      destruct (is_alias e).
      * destruct (by_oid (s_ents s) (e_dist e)) eqn:BO; simpl; auto.
        destruct (e_meta e0) eqn:M0; simpl; auto. apply Inv_add_go; auto.
        split; auto. apply by_oid_In in BO. tauto.
      * destruct (e_meta e) eqn:M0; simpl; auto. apply Inv_add_go; auto.
        split; auto. eapply find_nd_In; eauto.
Qed.

Lemma Inv_alias : forall c s parent praw nm tgt frag, Inv s -> Inv (fst (op_alias c s parent praw nm tgt frag)).
Proof.
  intros. unfold op_alias. destruct (NFRAG <=? frag); simpl; auto.
  destruct parent.
  - destruct (find_nd (s_ents s) n) eqn:FP; simpl; auto.
    destruct (e_meta e || is_alias e) eqn:MA; simpl; auto.
    try unfold dotted_parent.
    apply Inv_alias_go; auto. split; [eapply find_nd_In; eauto | apply orb_false_meta; auto].
  - destruct nm as [|c0 rest]; [apply Inv_alias_go; simpl; auto|].
    destruct (first_slash rest) as [[pre0 sb]|]; [|apply Inv_alias_go; simpl; auto].
    destruct (find_nd (s_ents s) (c0 :: pre0)) eqn:FP; [|apply Inv_alias_go; simpl; auto].
    destruct (is_alias e).
    + destruct (by_oid (s_ents s) (e_dist e)) eqn:BO; simpl; auto.
      destruct (e_meta e0) eqn:M0; simpl; auto. apply Inv_alias_go; auto.
      split; auto. apply by_oid_In in BO. tauto.
    + destruct (e_meta e) eqn:M0; simpl; auto. apply Inv_alias_go; auto.
      split; auto. eapply find_nd_In; eauto.
Qed.

(* -------------------------------------------------------------- move, hide *)
Lemma Inv_move : forall s nm frag, Inv s -> Inv (fst (op_move s nm frag)).
Proof.
  intros. unfold op_move. destruct (find_nd (s_ents s) nm); simpl; auto.
  destruct (e_ty e =? T_INDEX); simpl; auto. destruct (NFRAG <=? frag); simpl; auto.
  destruct (e_frag e =? frag); simpl; auto.
  apply Inv_map_skel; auto.
  apply (skel_cond (fun x => (e_id x =? e_id e) || existsb (N.eqb (e_id x)) (e_kids e))).
  intro x. repeat split.
Qed.

Lemma Inv_inval_container : forall s e, Inv s -> Inv (inval_container s e).
Proof.
  intros. unfold inval_container. destruct (e_meta e).
  - destruct (e_par e); auto. unfold Inv in *. simpl. apply inv_inval_of; auto.
  - unfold Inv in *. simpl. eapply inv_top_nil; eauto.
Qed.

Lemma Inv_hide : forall s nm h, Inv s -> Inv (fst (op_hide s nm h)).
Proof.
  intros. unfold op_hide. destruct (find_nd (s_ents s) nm); simpl; auto.
  destruct (eqb (e_hid e) h); simpl; auto.
  apply Inv_inval_container. rewrite upd_id_map. apply Inv_map_skel; auto.
  apply (skel_cond (fun x => e_id x =? e_id e)). intro x. repeat split.
Qed.

(* --------------------------------------------------------------- entry list *)
Lemma fl_set_in : forall fl i v j w, In (j, w) (fl_set fl i v) -> (j, w) = (i, v) \/ In (j, w) fl.
Proof.
  intros. unfold fl_set in H. destruct H; auto. apply filter_In in H. tauto.
Qed.

Lemma compute_list_live : forall l nx rf fr tfl par sel flags c,
  inv l nx rf fr tfl ->
  match par with None => True | Some P => In P l end ->
  In c (compute_list l par sel flags) ->
  exists m, In m l /\ e_id m = fst (fst c) /\ e_nid m = snd (fst c) /\
    match par with None => e_meta m = false | Some P => In (e_id m) (e_kids P) end.
Proof.
  intros l nx rf fr tfl par sel flags c IV HP I. unfold compute_list in I.
  apply in_map_iff in I. destruct I as (m & E & I). subst c. simpl.
  unfold sel_members in I. apply filter_In in I. destruct I as (Im & LE).
  destruct par as [P|]; simpl in *.
  - apply in_flat_map in Im. destruct Im as (k & Ik & Ib).
    destruct (by_id l k) eqn:B; [|inversion Ib]. destruct Ib as [<-|[]].
    apply by_id_In in B. destruct B. exists e. subst. repeat split; auto.
  - exists m. repeat split; auto. unfold list_entry in LE.
    destruct (negb (N.testbit flags 0) && e_hid m); [discriminate|].
    simpl in LE. destruct (e_meta m); [discriminate|auto].
Qed.

Lemma Inv_list : forall s parent sel flags, Inv s -> Inv (fst (op_list s parent sel flags)).
Proof.
  intros s parent sel flags IV. unfold op_list.
  destruct (find_parent (s_ents s) parent) as [par|] eqn:FP; simpl; auto.
  assert (HP : match par with None => True | Some P => In P (s_ents s) end).
  { destruct par as [P|]; auto. unfold find_parent in FP. destruct parent; [|inversion FP].
    destruct (find_da (s_ents s) n) eqn:FD; [|discriminate]. destruct (e_meta e); inversion FP; subst.
    unfold find_da in FD. destruct (find_nd (s_ents s) n) eqn:F1.
    - unfold dealias in FD. destruct (is_alias e); [apply by_oid_In in FD; tauto|].
      inversion FD; subst. eapply find_nd_In; eauto.
    - destruct (first_slash n) as [[pre post]|]; [|discriminate].
      destruct (find_nd (s_ents s) pre); [|discriminate]. destruct (is_alias e); [|discriminate].
      destruct (by_oid (s_ents s) (e_dist e)); [|discriminate].
      destruct (find_nd (s_ents s) (e_name e0 ++ SLASH :: post)) eqn:F2; [|discriminate].
      unfold dealias in FD. destruct (is_alias e1); [apply by_oid_In in FD; tauto|].
      inversion FD; subst. eapply find_nd_In; eauto. }
  set (fl := match par with Some P => e_fl P | None => s_fl s end).
  set (cl' := compute_list (s_ents s) par sel flags).
  assert (STORE : Inv match par with
       | Some P => set_ents s (upd_id (s_ents s) (e_id P) (fun e => set_fl e (fl_set fl sel (flags, cl'))))
       | None => set_topfl s (fl_set fl sel (flags, cl')) end).
  { destruct par as [P|].
    - unfold Inv in *. simpl. rewrite upd_id_map.
      set (f := fun e : entry => if e_id e =? e_id P then set_fl e (fl_set fl sel (flags, cl')) else e).
      destruct IV as [I_nodup0 I_fresh0 I_kids0 I_kidsnd0 I_metaleaf0 I_ref0 I_fref0 I_ctop0 I_cpar0]. constructor.
      + rewrite map_map. rewrite (map_ext (fun x => e_id (f x)) e_id); [exact I_nodup0|].
        intro a. unfold f. destruct (e_id a =? e_id P); auto.
      + intros e I. apply in_map_iff in I. destruct I as (x & E & I). subst. unfold f.
        destruct (e_id x =? e_id P); simpl; apply I_fresh0; auto.
      + intros Q k I K. apply in_map_iff in I. destruct I as (x & E & I). subst.
        assert (KX : In k (e_kids x)) by (unfold f in K; destruct (e_id x =? e_id P); auto).
        destruct (I_kids0 x k I KX) as (ch & Ic & A & B & C).
        exists (f ch). split; [apply in_map; auto|]. unfold f.
        destruct (e_id ch =? e_id P); destruct (e_id x =? e_id P); simpl; auto.
      + intros Q I. apply in_map_iff in I. destruct I as (x & E & I). subst. unfold f.
        destruct (e_id x =? e_id P); simpl; apply I_kidsnd0; auto.
      + intros e I M. apply in_map_iff in I. destruct I as (x & E & I). subst. unfold f in *.
        destruct (e_id x =? e_id P); simpl in *; apply I_metaleaf0; auto.
      + intros r R. destruct (I_ref0 r R) as (e & I & A & B). exists (f e). split; [apply in_map; auto|].
        unfold f. destruct (e_id e =? e_id P); auto.
      + intros n I. destruct (I_fref0 n I) as (e & Ie & A & B). exists (f e). split; [apply in_map; auto|].
        unfold f. destruct (e_id e =? e_id P); auto.
      + intros i fg cl c I Ic. destruct (I_ctop0 i fg cl c I Ic) as (m & Im & A & B & C).
        exists (f m). split; [apply in_map; auto|]. unfold f. destruct (e_id m =? e_id P); auto.
      + intros Q I. apply in_map_iff in I. destruct I as (x & E & I). subst.
        assert (OLD : forall i fg cl c, In (i, (fg, cl)) (e_fl x) -> In c cl ->
                  exists m, In m (map f (s_ents s)) /\ e_id m = fst (fst c) /\ e_nid m = snd (fst c) /\
                            In (e_id m) (e_kids x)).
        { intros i fg cl c Ii Ic. destruct (I_cpar0 x I i fg cl c Ii Ic) as (m & Im & A & B & C).
          exists (f m). split; [apply in_map; auto|]. unfold f.
          destruct (e_id m =? e_id P); simpl; auto. }
        assert (KF : e_kids (f x) = e_kids x) by (unfold f; destruct (e_id x =? e_id P); auto).
        intros i fg cl c Ii Ic. simpl. rewrite KF.
        destruct (e_id x =? e_id P) eqn:EQ.
        * assert (FX : e_fl (f x) = fl_set fl sel (flags, cl')) by (unfold f; rewrite EQ; auto).
          rewrite FX in Ii. apply N.eqb_eq in EQ.
          assert (x = P) by (eapply uniq_id; eauto). subst x.
          apply fl_set_in in Ii. destruct Ii as [Ii|Ii].
          -- inversion Ii; subst.
             assert (IV' : inv (s_ents s) (s_next s) (s_ref s) (s_fref s) (s_fl s)) by (constructor; auto).
             destruct (compute_list_live _ _ _ _ _ (Some P) sel flags c IV' I Ic) as (m & Im & A & B & C).
             exists (f m). split; [apply in_map; auto|]. unfold f.
             destruct (e_id m =? e_id P); simpl; auto.
          -- apply (OLD i fg cl c Ii Ic).
        * assert (FX : e_fl (f x) = e_fl x) by (unfold f; rewrite EQ; auto).
          rewrite FX in Ii. apply (OLD i fg cl c Ii Ic).
    - unfold Inv in *. simpl. destruct IV as [I_nodup0 I_fresh0 I_kids0 I_kidsnd0 I_metaleaf0 I_ref0 I_fref0 I_ctop0 I_cpar0]. constructor; auto.
      intros i fg cl c Ii Ic. apply fl_set_in in Ii. destruct Ii as [Ii|Ii].
      + inversion Ii; subst.
        assert (IV' : inv (s_ents s) (s_next s) (s_ref s) (s_fref s) (s_fl s)) by (constructor; auto).
        apply (compute_list_live _ _ _ _ _ None sel flags c IV' I Ic).
      + apply (I_ctop0 i fg cl c Ii Ic). }
  destruct (fl_get fl sel) as [[fg cl]|].
  - destruct (fg =? flags); simpl; auto.
    fold cl'. destruct cl' eqn:CL; simpl; auto; try (rewrite <- CL; exact STORE).
  - fold cl'. destruct cl' eqn:CL; simpl; auto; try (rewrite <- CL; exact STORE).
Qed.

(* ------------------------------------------------------------------ delete *)
Arguments check_all : simpl nomatch.
Arguments remove_metas : simpl nomatch.
Arguments clear_one : simpl nomatch.

Lemma check_all_skel : forall deref dels ids l, exists f, skel_pres f /\ fst (check_all l deref ids dels) = map f l.
Proof.
  induction ids; intros.
  - unfold check_all. exists (fun e => e). split; [apply skel_id | rewrite map_id; auto].
  - unfold check_all; fold check_all. destruct (by_id l a); [|apply IHids].
    destruct (check_one l deref e dels) as [j' bad].
    set (g := fun x : entry => if e_id x =? a then set_ins x (e_ins j') else x).
    assert (G : skel_pres g) by (apply (skel_cond (fun x => e_id x =? a)); intro x; repeat split).
    change (upd_id l a (fun x => set_ins x (e_ins j'))) with (map g l).
    destruct bad; simpl; [exists g; auto|].
    destruct (IHids (map g l)) as (f & F & E). rewrite E.
    exists (fun e => f (g e)). split; [apply (skel_comp g f); auto | rewrite map_map; auto].
Qed.

Lemma clear_derived_skel : forall d, skel_pres (clear_derived d).
Proof.
  intros d j. unfold clear_derived. destruct (is_alias j); [|repeat split].
  destruct (e_dist j); [|repeat split]. destruct (n =? e_id d); repeat split.
Qed.

Lemma clear_one_skel : forall deref dels, skel_pres (clear_one deref dels).
Proof.
  intros deref dels. unfold clear_one. induction dels; simpl; intro j; [repeat split|].
  match goal with |- context[fold_left ?F dels ?J] => specialize (IHdels J); set (J' := J) in * end.
  assert (S1 : e_id J' = e_id j /\ e_nid J' = e_nid j /\ e_name J' = e_name j /\ e_ty J' = e_ty j /\
               e_meta J' = e_meta j /\ e_par J' = e_par j /\ e_kids J' = e_kids j /\ e_fl J' = e_fl j).
  { unfold J'. destruct (is_constlike a && deref).
    - match goal with |- context[clear_derived a ?X] => destruct (clear_derived_skel a X) as (a1&a2&a3&a4&a5&a6&a7&a8) end.
      repeat split; auto.
    - apply clear_derived_skel. }
  destruct S1 as (a1&a2&a3&a4&a5&a6&a7&a8). destruct IHdels as (b1&b2&b3&b4&b5&b6&b7&b8).
  repeat split; congruence.
Qed.

Lemma sr_tail_perm : forall r : list N, Permutation (match rev r with [] => [] | a :: m => a :: rev m end) r.
Proof.
  intros. destruct (rev r) eqn:R.
  - assert (r = []) by (rewrite <- (rev_involutive r), R; auto). subst. auto.
  - assert (r = rev l ++ [n]) by (rewrite <- (rev_involutive r), R; auto). subst.
    apply Permutation_cons_append.
Qed.

Lemma swap_remove_perm : forall kids id, In id kids -> Permutation (id :: swap_remove kids id) kids.
Proof.
  induction kids; simpl; intros; [tauto|].
  destruct (a =? id) eqn:E.
  - apply N.eqb_eq in E. subst. apply perm_skip. apply sr_tail_perm.
  - destruct H; [apply N.eqb_neq in E; congruence|].
    eapply Permutation_trans; [apply perm_swap|]. apply perm_skip. auto.
Qed.

Lemma swap_remove_notin : forall kids id, ~ In id kids -> swap_remove kids id = kids.
Proof.
  induction kids; simpl; intros; auto. destruct (a =? id) eqn:E.
  - apply N.eqb_eq in E. tauto.
  - f_equal. apply IHkids. tauto.
Qed.

Lemma swap_remove_facts : forall kids id, NoDup kids ->
  NoDup (swap_remove kids id) /\ ~ In id (swap_remove kids id) /\
  (forall k, In k (swap_remove kids id) -> In k kids).
Proof.
  intros. destruct (in_dec N.eq_dec id kids).
  - pose proof (swap_remove_perm kids id i) as P.
    assert (ND : NoDup (id :: swap_remove kids id)) by (eapply Permutation_NoDup; [apply Permutation_sym; eauto|auto]).
    inversion ND; subst. repeat split; auto.
    intros k I. eapply Permutation_in; [eauto|right; auto].
  - rewrite swap_remove_notin by auto. repeat split; auto.
Qed.

Lemma remove_metas_keeps : forall l dels x, In x l -> ~ In (e_id x) dels -> In x (remove_metas dels l).
Proof.
  induction l; intros; [inversion H|]. unfold remove_metas; fold remove_metas.
  destruct dels as [|d ds]; [auto|].
  destruct (e_id a =? d) eqn:E.
  - apply N.eqb_eq in E. destruct H; [subst; exfalso; apply H0; left; auto|].
    apply IHl; auto. intro I. apply H0. right. auto.
  - destruct H; [left; auto|right; apply IHl; auto].
Qed.

Lemma del_refs_ok : forall l1 nx rf fr tfl E1 E rf' fr',
  inv l1 nx rf fr tfl -> In E1 l1 -> e_id E1 = e_id E -> e_name E1 = e_name E -> e_ty E1 = e_ty E ->
  del_refs l1 E rf fr = (rf', fr') ->
  (forall r, rf' = Some r -> exists x, In x l1 /\ e_id x = r /\ e_ty x = T_RAW /\ e_id x <> e_id E) /\
  (forall n, In (Some n) fr' -> exists x, In x l1 /\ e_name x = n /\ e_ty x = T_RAW /\ e_id x <> e_id E).
Proof.
  intros l1 nx rf fr tfl E1 E rf' fr' IV I1 Eid Enm Ety DR. unfold del_refs in DR.
  assert (REPL : forall i x, first_raw_in_scope l1 (e_id E) i = Some x ->
                 In x l1 /\ e_ty x = T_RAW /\ e_id x <> e_id E).
  { intros i x F. unfold first_raw_in_scope in F. apply find_some in F. destruct F as (Ix & Pr).
    apply andb_true_iff in Pr. destruct Pr as (Pr & _). apply andb_true_iff in Pr. destruct Pr as (Nq & Rw).
    apply negb_true_iff in Nq. apply N.eqb_neq in Nq. apply N.eqb_eq in Rw. auto. }
  destruct (e_ty E =? T_RAW) eqn:TR.
  - inversion DR; subst; clear DR. split.
    + intros r Hr.
      destruct (match nth 0 fr None with Some r0 => name_eqb r0 (e_name E) | None => false end).
      * destruct (first_raw_in_scope l1 (e_id E) 0) eqn:F.
        -- inversion Hr; subst. destruct (REPL _ _ F) as (a & b & c'). exists e. auto.
        -- destruct rf as [r0|]; [|discriminate]. destruct (r0 =? e_id E) eqn:Q; [discriminate|].
           inversion Hr; subst. destruct (I_ref _ _ _ _ _ IV r eq_refl) as (x & Ix & A & B).
           exists x. repeat split; auto. apply N.eqb_neq in Q. congruence.
      * destruct rf as [r0|]; [|discriminate]. destruct (r0 =? e_id E) eqn:Q; [discriminate|].
        inversion Hr; subst. destruct (I_ref _ _ _ _ _ IV r eq_refl) as (x & Ix & A & B).
        exists x. repeat split; auto. apply N.eqb_neq in Q. congruence.
    + assert (NF : forall i n,
         (if match nth i fr None with Some r => name_eqb r (e_name E) | None => false end
          then match first_raw_in_scope l1 (e_id E) (N.of_nat i) with Some x => Some (e_name x) | None => None end
          else nth i fr None) = Some n ->
         exists x, In x l1 /\ e_name x = n /\ e_ty x = T_RAW /\ e_id x <> e_id E).
      { intros i n Hn. destruct (nth i fr None) as [r|] eqn:NT.
        - destruct (name_eqb r (e_name E)) eqn:NE.
          + destruct (first_raw_in_scope l1 (e_id E) (N.of_nat i)) eqn:F; [|discriminate].
            inversion Hn; subst. destruct (REPL _ _ F) as (a & b & c'). exists e. auto.
          + inversion Hn; subst. destruct (I_fref _ _ _ _ _ IV n (nth_some_in _ _ _ NT)) as (x & Ix & A & B).
            exists x. repeat split; auto. intro Q.
            assert (x = E1) by (eapply uniq_id; eauto using I_nodup; congruence). subst.
            assert (name_eqb (e_name E1) (e_name E) = true) by (apply name_eqb_eq; auto). congruence.
        - discriminate. }
      intros n I. destruct I as [I|[I|[]]]; [apply (NF 0%nat n I) | apply (NF 1%nat n I)].
  - inversion DR; subst; clear DR. apply N.eqb_neq in TR. split.
    + intros r Hr. destruct (I_ref _ _ _ _ _ IV r Hr) as (x & Ix & A & B). exists x. repeat split; auto.
      intro Q. assert (x = E1) by (eapply uniq_id; eauto using I_nodup; congruence). subst. congruence.
    + intros n I. destruct (I_fref _ _ _ _ _ IV n I) as (x & Ix & A & B). exists x. repeat split; auto.
      intro Q. assert (x = E1) by (eapply uniq_id; eauto using I_nodup; congruence). subst. congruence.
Qed.

Lemma in_cond_map : forall (b : entry -> bool) g l x, In x l -> In (if b x then g x else x) (map (fun e => if b e then g e else e) l).
Proof. intros. apply (in_map (fun e => if b e then g e else e)). auto. Qed.

Lemma Inv_del : forall c s nm flags, Inv s -> Inv (fst (op_del c s nm flags)).
Proof.
  intros c s nm flags IV. unfold op_del. cbv zeta.
  destruct (find_nd (s_ents s) nm) as [E|] eqn:FE; [|simpl; auto].
  match goal with |- context[if ?b then (s, RInt E_DELETE) else _] => destruct b end; [simpl; auto|].
  match goal with |- context[match ?X with pair _ _ => _ end] => set (chk := X) end.
  assert (CK : exists f, skel_pres f /\ fst chk = map f (s_ents s)).
  { unfold chk. destruct (N.testbit flags 3); [|apply check_all_skel].
    exists (fun e => e). split; [apply skel_id | simpl; rewrite map_id; auto]. }
  clearbody chk. destruct chk as [l1 refused]. simpl in CK. destruct CK as (f1 & F1 & EQ1). subst l1.
  destruct refused; [simpl; apply Inv_map_skel; auto|].
  destruct (del_refs (map f1 (s_ents s)) E (s_ref s) (s_fref s)) as [rf' fr'] eqn:DR.
  set (g := clear_one (N.testbit flags 2) (E :: (if e_meta E then [] else members (s_ents s) (Some E)))).
  assert (G : skel_pres g) by apply clear_one_skel.
  set (h := fun e => g (f1 e)).
  assert (Hs : skel_pres h) by (apply (skel_comp f1 g); auto).
  cbn [s_ents set_fref set_ref set_ents].
  change (map (clear_one (N.testbit flags 2) (E :: (if e_meta E then [] else members (s_ents s) (Some E)))) (map f1 (s_ents s)))
    with (map g (map f1 (s_ents s))).
  rewrite (map_map f1 g). fold h.
  set (l3 := map h (s_ents s)).
  assert (I1 : inv (map f1 (s_ents s)) (s_next s) (s_ref s) (s_fref s) (s_fl s)) by (apply inv_map_skel; auto).
  assert (I3 : inv l3 (s_next s) (s_ref s) (s_fref s) (s_fl s)) by (apply inv_map_skel; auto).
  assert (IE : In E (s_ents s)) by (eapply find_nd_In; eauto).
  destruct (F1 E) as (a1 & a2 & a3 & a4 & a5 & a6 & a7 & a8).
  destruct (Hs E) as (b1 & b2 & b3 & b4 & b5 & b6 & b7 & b8).
  assert (IE3 : In (h E) l3) by (apply in_map; auto).
  destruct (del_refs_ok _ _ _ _ _ (f1 E) E rf' fr' I1 (in_map f1 _ _ IE) a1 a3 a4 DR) as (RF & FR).
  (* witnesses carried over to l3 *)
  assert (RF3 : forall r, rf' = Some r -> exists x, In x l3 /\ e_id x = r /\ e_ty x = T_RAW /\ e_id x <> e_id E).
  { intros r Hr. destruct (RF r Hr) as (x & Ix & A & B & C). exists (g x).
    destruct (G x) as (c1 & c2 & c3 & c4 & _). rewrite c1, c4. repeat split; auto.
    unfold l3, h. rewrite <- map_map. apply in_map. auto. }
  assert (FR3 : forall n, In (Some n) fr' -> exists x, In x l3 /\ e_name x = n /\ e_ty x = T_RAW /\ e_id x <> e_id E).
  { intros n Hn. destruct (FR n Hn) as (x & Ix & A & B & C). exists (g x).
    destruct (G x) as (c1 & c2 & c3 & c4 & _). rewrite c1, c3, c4. repeat split; auto.
    unfold l3, h. rewrite <- map_map. apply in_map. auto. }
  assert (FIN : forall l0 nx rf fr tfl, inv l0 nx rf fr tfl ->
                inv (update_aliases true l0) nx rf fr tfl).
  { intros l0 nx rf fr tfl H0.
    destruct (update_aliases_skel true l0) as (fa & FA & EA). rewrite EA. apply inv_map_skel; auto. }
  destruct (e_meta E) eqn:ME.
  - (* a metafield: unlink from the parent, drop the entry *)
    destruct (by_oid l3 (e_par E)) as [P|] eqn:BO; [|simpl; auto].
    apply by_oid_In in BO. destruct BO as (IP & PAR).
    unfold Inv. cbn [fst s_ents s_next s_ref s_fref s_fl set_ents set_fref set_ref].
    apply FIN.
    rewrite upd_id_map.
    set (gk := fun p : entry => set_fl (set_kids p (swap_remove (e_kids p) (e_id E))) []).
    set (fk := fun x : entry => if e_id x =? e_id P then gk x else x).
    assert (I4 : inv (map fk l3) (s_next s) (s_ref s) (s_fref s) (s_fl s)).
    { apply inv_map_gen with (nx := s_next s) (fr := s_fref s) (tfl := s_fl s); auto.
      - intro x. unfold fk. destruct (e_id x =? e_id P); auto.
      - split; [lia|]. intros x I. unfold fk. destruct (e_id x =? e_id P); apply (I_fresh _ _ _ _ _ I3 x I).
      - intros Q k I K. apply (I_kids _ _ _ _ _ I3 Q k I). unfold fk in K.
        destruct (e_id Q =? e_id P); auto. simpl in K.
        apply (swap_remove_facts _ (e_id E) (I_kidsnd _ _ _ _ _ I3 Q I)). auto.
      - intros Q I. unfold fk. destruct (e_id Q =? e_id P).
        + simpl. split; [apply (swap_remove_facts _ (e_id E) (I_kidsnd _ _ _ _ _ I3 Q I))|].
          intro M. destruct (I_metaleaf _ _ _ _ _ I3 Q I M) as (KN & _). rewrite KN. auto.
        + split; [apply (I_kidsnd _ _ _ _ _ I3 Q I)|]. intro M. apply (I_metaleaf _ _ _ _ _ I3 Q I M).
      - intros n I. destruct (I_fref _ _ _ _ _ I3 n I) as (x & Ix & A & B). exists x. repeat split; auto.
        unfold fk. destruct (e_id x =? e_id P); auto.
      - right. split; auto. intros x _ _. unfold fk. destruct (e_id x =? e_id P); auto.
      - intros Q I. destruct (e_id Q =? e_id P) eqn:EQ.
        + left. unfold fk. rewrite EQ. auto.
        + right. assert (FQ : fk Q = Q) by (unfold fk; rewrite EQ; auto). rewrite FQ. split; auto.
          intros m Im K. split; auto. unfold fk. destruct (e_id m =? e_id P); auto. }
    assert (E4 : In (fk (h E)) (map fk l3)) by (apply in_map; auto).
    assert (E4f : e_id (fk (h E)) = e_id E /\ e_meta (fk (h E)) = true /\ e_par (fk (h E)) = Some (e_id P)).
    { unfold fk. destruct (e_id (h E) =? e_id P); simpl; rewrite b1, b5, b6; auto. }
    destruct E4f as (E4a & E4b & E4c).
    assert (SURV : forall x, In x l3 -> e_id x <> e_id E -> In (fk x) (remove_id (map fk l3) (e_id E))).
    { intros x Ix Nq. unfold remove_id. apply filter_In. split; [apply in_map; auto|].
      apply negb_true_iff. apply N.eqb_neq. unfold fk. destruct (e_id x =? e_id P); auto. }
    apply inv_remove with (l := map fk l3) (rf := s_ref s) (fr := s_fref s) (tfl := s_fl s); auto.
    + eapply sub_nodup_ids; [apply filter_sub|]. apply (I_nodup _ _ _ _ _ I4).
    + intros x I. unfold remove_id in I. apply filter_In in I. tauto.
    + intros Q ch IQ Ich K. unfold remove_id. apply filter_In. split; auto.
      apply negb_true_iff. apply N.eqb_neq. intro Q1.
      assert (ch = fk (h E)) by (eapply uniq_id; eauto using I_nodup; congruence). subst ch.
      unfold remove_id in IQ. apply filter_In in IQ. destruct IQ as (IQ & _).
      destruct (kid_is _ _ _ _ _ Q _ I4 IQ E4 K) as (_ & PQ). rewrite E4c in PQ. inversion PQ as [PQ'].
      rewrite E4a in K.
      apply in_map_iff in IQ. destruct IQ as (Q0 & EQ0 & IQ0). subst Q.
      unfold fk in K, PQ'. destruct (e_id Q0 =? e_id P) eqn:T.
      * simpl in K.
        apply (swap_remove_facts _ (e_id E) (I_kidsnd _ _ _ _ _ I3 Q0 IQ0)). auto.
      * apply N.eqb_neq in T. congruence.
    + intros r Hr. destruct (RF3 r Hr) as (x & Ix & A & B & C). exists (fk x).
      split; [apply SURV; auto|]. unfold fk. destruct (e_id x =? e_id P); auto.
    + intros n Hn. destruct (FR3 n Hn) as (x & Ix & A & B & C). exists (fk x).
      split; [apply SURV; auto|]. unfold fk. destruct (e_id x =? e_id P); auto.
    + right. split; auto. intros m Im Mm. unfold remove_id. apply filter_In. split; auto.
      apply negb_true_iff. apply N.eqb_neq. intro Q1.
      assert (m = fk (h E)) by (eapply uniq_id; eauto using I_nodup; congruence). subst m. congruence.
  - (* a top-level field: drop its subfields and the entry *)
    unfold Inv. cbn [fst s_ents s_next s_ref s_fref s_fl set_ents set_fref set_ref inval_top set_topfl].
    apply FIN.
    set (dels := map e_id (resort e_name (members (s_ents s) (Some E)))).
    assert (DK : forall d, In d dels -> In d (e_kids E)).
    { intros d I. unfold dels in I. apply in_map_iff in I. destruct I as (kid & A & I). subst d.
      apply (proj1 (resort_in e_name _ _)) in I. simpl in I. apply in_flat_map in I. destruct I as (k & Ik & Ib).
      destruct (by_id (s_ents s) k) eqn:B; [|inversion Ib]. destruct Ib as [<-|[]].
      apply by_id_In in B. destruct B. subst. auto. }
    set (l' := remove_id (remove_metas dels l3) (e_id E)).
    assert (SURV : forall x, In x l3 -> e_id x <> e_id E -> ~ In (e_id x) (e_kids E) -> In x l').
    { intros x Ix Nq Nk. unfold l', remove_id. apply filter_In. split.
      - apply remove_metas_keeps; auto.
      - apply negb_true_iff. apply N.eqb_neq. auto. }
    assert (SUB : forall x, In x l' -> In x l3 /\ e_id x <> e_id E).
    { intros x I. unfold l', remove_id in I. apply filter_In in I. destruct I as (I & Q).
      split; [eapply sub_In; [apply remove_metas_sub|eauto]|].
      apply negb_true_iff in Q. apply N.eqb_neq in Q. auto. }
    assert (RAWS : forall x, In x l3 -> e_ty x = T_RAW -> e_id x <> e_id E -> In x l').
    { intros x Ix Tx Nq. apply SURV; auto. intro K. rewrite <- b7 in K.
      destruct (kid_is _ _ _ _ _ (h E) x I3 IE3 Ix K) as (Mx & _).
      destruct (I_metaleaf _ _ _ _ _ I3 x Ix Mx). congruence. }
    apply inv_remove with (l := l3) (rf := s_ref s) (fr := s_fref s) (tfl := s_fl s); auto.
    + unfold l', remove_id. eapply sub_nodup_ids; [apply filter_sub|].
      eapply sub_nodup_ids; [apply remove_metas_sub|]. apply (I_nodup _ _ _ _ _ I3).
    + intros x I. apply SUB; auto.
    + intros Q ch IQ Ich K. destruct (SUB Q IQ) as (IQ3 & QN).
      destruct (kid_is _ _ _ _ _ Q ch I3 IQ3 Ich K) as (Mc & Pc).
      apply SURV; auto.
      * intro Q1. assert (ch = h E) by (eapply uniq_id; eauto using I_nodup; congruence). subst ch. congruence.
      * intro K2. rewrite <- b7 in K2. destruct (kid_is _ _ _ _ _ (h E) ch I3 IE3 Ich K2) as (_ & Pc2).
        rewrite Pc in Pc2. inversion Pc2. congruence.
    + intros r Hr. destruct (RF3 r Hr) as (x & Ix & A & B & C). exists x. repeat split; auto.
    + intros n Hn. destruct (FR3 n Hn) as (x & Ix & A & B & C). exists x. repeat split; auto.
Qed.

(* ------------------------------------------------------------------ rename *)
Lemma uniq_name : forall l a b, Sorted_names (keys l) -> In a l -> In b l -> e_name a = e_name b -> a = b.
Proof.
  intros. pose proof (lookup_works l a H H0). pose proof (lookup_works l b H H1).
  rewrite H2 in H3. congruence.
Qed.

Lemma ui_skel : forall m rty old new flags, skel_pres (update_inputs m rty old new flags).
Proof.
  intros m rty old new flags e. unfold update_inputs, ren_ins.
  repeat match goal with
         | |- context[if ?b then _ else _] => destruct b
         end; repeat split.
Qed.

Lemma existsb_kid : forall x (ks : list N), existsb (N.eqb x) ks = true <-> In x ks.
Proof.
  intros. rewrite existsb_exists. split.
  - intros (y & I & E). apply N.eqb_eq in E. subst. auto.
  - intros. exists x. split; auto. apply N.eqb_refl.
Qed.

Section RenameCore.
  Variables (s : state) (E : entry) (full : name) (flags : N) (rty : N) (clr : N).
  Local Definition rcl := s_ents s.
  Local Definition rcnx := s_next s.
  Local Definition rcold := e_name E.
  Local Definition rcrn := fun e : entry =>
     if e_id e =? e_id E then set_name e full rcnx
     else if existsb (N.eqb (e_id e)) (e_kids E) then set_name e (rename_code false rcold full true (e_name e)) (rcnx + 1 + e_id e)
     else e.
  Local Definition rcui := update_inputs (e_meta E) rty rcold full flags.
  Local Definition rccl := fun x : entry => if e_id x =? clr then set_fl x [] else x.
  Local Definition rcF := fun e => rccl (rcui (rcrn e)).
  Local Definition rcfr := map (fun o : option name => match o with Some r => if name_eqb r rcold then Some full else Some r | None => None end) (s_fref s).

  Hypothesis SS : SortedS s.
  Hypothesis IV : Inv s.
  Hypothesis IE : In E rcl.
  (* the cleared container is the one that holds E; the top-level lists are dropped when E is top-level *)
  Hypothesis CLR : if e_meta E then e_par E = Some clr else clr = e_id E.

  Lemma F_fields : forall e, e_id (rcF e) = e_id e /\ e_ty (rcF e) = e_ty e /\ e_meta (rcF e) = e_meta e /\
                             e_par (rcF e) = e_par e /\ e_kids (rcF e) = e_kids e.
  Proof.
    intro e. unfold rcF, rccl.
    destruct (ui_skel (e_meta E) rty rcold full flags (rcrn e)) as (a1&a2&a3&a4&a5&a6&a7&a8). fold rcui in a1,a2,a3,a4,a5,a6,a7,a8.
    assert (R : e_id (rcrn e) = e_id e /\ e_ty (rcrn e) = e_ty e /\ e_meta (rcrn e) = e_meta e /\
                e_par (rcrn e) = e_par e /\ e_kids (rcrn e) = e_kids e).
    { unfold rcrn. destruct (e_id e =? e_id E); [repeat split|]. destruct (existsb _ _); repeat split. }
    destruct R as (r1&r2&r3&r4&r5).
    destruct (e_id (rcui (rcrn e)) =? clr); simpl; repeat split; congruence.
  Qed.

  Lemma F_nid : forall e, e_nid (rcF e) = e_nid (rcrn e).
  Proof.
    intro e. unfold rcF, rccl.
    destruct (ui_skel (e_meta E) rty rcold full flags (rcrn e)) as (a1&a2&_). fold rcui in a1,a2.
    destruct (e_id (rcui (rcrn e)) =? clr); simpl; auto.
  Qed.

  Lemma F_name : forall e, e_name (rcF e) = e_name (rcrn e).
  Proof.
    intro e. unfold rcF, rccl.
    destruct (ui_skel (e_meta E) rty rcold full flags (rcrn e)) as (a1&a2&a3&_). fold rcui in a3.
    destruct (e_id (rcui (rcrn e)) =? clr); simpl; auto.
  Qed.

  Lemma F_fl : forall e, e_fl (rcF e) = if e_id e =? clr then [] else e_fl e.
  Proof.
    intro e. unfold rcF, rccl.
    destruct (ui_skel (e_meta E) rty rcold full flags (rcrn e)) as (a1&a2&a3&a4&a5&a6&a7&a8). fold rcui in a1, a8.
    assert (R : e_id (rcrn e) = e_id e /\ e_fl (rcrn e) = e_fl e).
    { unfold rcrn. destruct (e_id e =? e_id E); [repeat split|]. destruct (existsb _ _); repeat split. }
    destruct R as (r1 & r2). rewrite a1, r1. destruct (e_id e =? clr); simpl; congruence.
  Qed.

  Lemma rn_untouched : forall e, e_id e <> e_id E -> ~ In (e_id e) (e_kids E) -> rcrn e = e.
  Proof.
    intros e N1 N2. unfold rcrn. apply N.eqb_neq in N1. rewrite N1.
    destruct (existsb (N.eqb (e_id e)) (e_kids E)) eqn:X; auto. apply existsb_kid in X. tauto.
  Qed.

  Lemma ren_core : inv (map rcF rcl) (rcnx + 2 + rcnx) (s_ref s) rcfr (if e_meta E then s_fl s else []).
  Proof.
    assert (ND := I_nodup _ _ _ _ _ IV).
    apply inv_map_gen with (nx := rcnx) (fr := s_fref s) (tfl := s_fl s); auto.
    - intro e. destruct (F_fields e) as (a&b&c&d&_). auto.
    - split; [lia|]. intros e I. rewrite F_nid. destruct (I_fresh _ _ _ _ _ IV e I) as (A & B). fold rcnx in A, B.
      unfold rcrn. destruct (e_id e =? e_id E); simpl; [lia|]. destruct (existsb _ _); simpl; lia.
    - intros P k I K. destruct (F_fields P) as (_&_&_&_&kk). rewrite kk in K. apply (I_kids _ _ _ _ _ IV P k I K).
    - intros P I. destruct (F_fields P) as (_&_&_&_&kk). rewrite kk.
      split; [apply (I_kidsnd _ _ _ _ _ IV P I)|]. intro M. apply (I_metaleaf _ _ _ _ _ IV P I M).
    - intros n I. unfold rcfr in I. apply in_map_iff in I. destruct I as (o & Eo & Io).
      destruct o as [r|]; [|discriminate].
      destruct (I_fref _ _ _ _ _ IV r Io) as (x & Ix & Nm & Ty). exists x. split; auto. split; auto.
      rewrite F_name.
      destruct (N.eq_dec (e_id x) (e_id E)) as [Q|Q].
      + assert (x = E) by (eapply uniq_id; eauto). subst x.
        unfold rcrn. rewrite N.eqb_refl. simpl.
        assert (name_eqb r rcold = true) by (apply name_eqb_eq; unfold rcold; auto). rewrite H in Eo. congruence.
      + destruct (in_dec N.eq_dec (e_id x) (e_kids E)) as [K|K].
        * destruct (kid_is _ _ _ _ _ E x IV IE Ix K) as (Mx & _).
          destruct (I_metaleaf _ _ _ _ _ IV x Ix Mx). congruence.
        * rewrite rn_untouched by auto.
          destruct (name_eqb r rcold) eqn:NE; [|congruence].
          apply name_eqb_eq in NE. exfalso. apply Q.
          assert (x = E) by (eapply uniq_name; eauto; unfold rcold in NE; congruence). subst. auto.
    - destruct (e_meta E) eqn:ME; [right|left; auto]. split; auto.
      intros e I Me. rewrite F_nid. rewrite rn_untouched; auto.
      + intro Q. assert (e = E) by (eapply uniq_id; eauto). subst. congruence.
      + intro K. destruct (kid_is _ _ _ _ _ E e IV IE I K). congruence.
    - intros P I. rewrite F_fl. destruct (e_id P =? clr) eqn:QC; [left; auto|right]. split; auto.
      apply N.eqb_neq in QC.
      intros m Im K. destruct (F_fields P) as (_&_&_&_&kk). rewrite kk. split; auto.
      rewrite F_nid. rewrite rn_untouched; auto.
      + intro Q. assert (m = E) by (eapply uniq_id; eauto). subst m.
        destruct (kid_is _ _ _ _ _ P E IV I IE K) as (ME & PE). rewrite ME in CLR. congruence.
      + intro K2. destruct (kid_is _ _ _ _ _ P m IV I Im K) as (_ & P1).
        destruct (kid_is _ _ _ _ _ E m IV IE Im K2) as (_ & P2).
        destruct (e_meta E) eqn:ME.
        * destruct (I_metaleaf _ _ _ _ _ IV E IE ME) as (KE & _). rewrite KE in K2. inversion K2.
        * rewrite P1 in P2. inversion P2. congruence.
  Qed.
End RenameCore.

Lemma Inv_ren : forall s nm new flags, SortedS s -> Inv s -> Inv (fst (op_ren s nm new flags)).
Proof.
  intros s nm new flags SS IV. unfold op_ren. cbv zeta.
  destruct (find_nd (s_ents s) nm) as [E|] eqn:FE; [|simpl; auto].
  assert (IE : In E (s_ents s)) by (eapply find_nd_In; eauto).
  destruct (e_ty E =? T_INDEX); [simpl; auto|].
  destruct (negb (valid_code new)); [simpl; auto|].
  match goal with |- context[match ?pn with Some full => _ | None => (s, RCrash K_NULLPARENT) end] =>
    destruct pn as [full|] eqn:PN end; [|simpl; auto].
  match goal with |- context[match ?q with Some Q => _ | None => _ end] => destruct q as [Q|] end.
  - destruct (e_id Q =? e_id E); simpl; auto.
  - apply Inv_with_aliases.
    match goal with |- context[update_inputs _ ?r _ _ _] => set (rty := r) end.
    destruct (e_meta E) eqn:ME.
    + destruct (e_par E) as [p|] eqn:PE; [|simpl in PN; discriminate].
      assert (CLR : if e_meta E then e_par E = Some p else p = e_id E) by (rewrite ME; auto).
      pose proof (ren_core s E full flags rty p SS IV IE CLR) as RC.
      unfold rcF, rccl, rcui, rcrn, rcfr, rcl, rcnx, rcold in RC. rewrite ME in RC.
      unfold inval_container. rewrite ME, PE.
      unfold Inv. cbn [s_ents s_next s_ref s_fref s_fl set_ents].
      eapply inv_perm; [|exact RC].
      unfold inval_of. rewrite upd_id_map.
      eapply Permutation_trans; [|apply Permutation_map; apply Permutation_sym; apply resort_perm].
      rewrite !map_map. apply Permutation_refl.
    + assert (CLR : if e_meta E then e_par E = Some (e_id E) else e_id E = e_id E) by (rewrite ME; auto).
      pose proof (ren_core s E full flags rty (e_id E) SS IV IE CLR) as RC.
      unfold rcF, rccl, rcui, rcrn, rcfr, rcl, rcnx, rcold in RC. rewrite ME in RC.
      unfold Inv. cbn [s_ents s_next s_ref s_fref s_fl set_ents inval_top set_topfl].
      eapply inv_perm; [|exact RC].
      unfold inval_of. rewrite upd_id_map.
      eapply Permutation_trans; [|apply Permutation_map; apply Permutation_sym; apply resort_perm].
      rewrite !map_map. apply Permutation_refl.
Qed.

(* -------------------------------------------------------------------- step *)
Definition InvAll (s : state) := SortedS s /\ Inv s.

Lemma Inv_init : InvAll init_state.
Proof.
  split.
  - apply sorted_ok_iff. vm_compute. reflexivity.
  - unfold Inv, init_state. simpl. constructor; simpl.
    + constructor; [intros []|constructor].
    + intros e [<-|[]]; simpl; split; reflexivity.
    + intros P k [<-|[]] K; inversion K.
    + intros P [<-|[]]; constructor.
    + intros e [<-|[]] M; discriminate.
    + intros r R; discriminate.
    + intros n [I|[I|[]]]; discriminate.
    + apply clive_nil.
    + intros P [<-|[]]; apply clive_nil.
Qed.

Lemma Inv_post : forall c r, Inv (fst r) -> Inv (fst (post c r)).
Proof.
  intros c r H. unfold post. simpl.
  unfold Inv, inval_all in *. simpl.
  apply (inv_clear (fun _ => true) _ _ _ _ (s_fl (fst r)) []); auto.
Qed.

Theorem Inv_step : forall c s o, InvAll s -> op_in_scope s o -> InvAll (fst (step c s o)).
Proof.
  intros c s o (SS & IV) HO. split; [apply sorted_step; auto|].
  destruct o.
  - unfold step. destruct (affixed s); [simpl; auto|]. destruct (has_dot nm); [simpl; auto|]. apply Inv_post. apply Inv_add; auto.
  - unfold step. destruct (affixed s); [simpl; auto|]. destruct (has_dot nm); [simpl; auto|]. apply Inv_post. apply Inv_alias; auto.
  - unfold step. destruct (affixed s); [simpl; auto|]. apply Inv_post. apply Inv_del; auto.
  - unfold step. destruct (affixed s); [simpl; auto|]. destruct (has_dot new); [simpl; auto|]. apply Inv_post. apply Inv_ren; auto.
  - unfold step. destruct (affixed s); [simpl; auto|]. apply Inv_move; auto.
  - unfold step. destruct (affixed s); [simpl; auto|]. apply Inv_hide; auto.
  - simpl in HO. tauto.
  - unfold step. apply Inv_list; auto.
Qed.

Theorem Inv_run : forall c ops s, InvAll s -> run_in_scope c s ops -> InvAll (run c s ops).
Proof.
  induction ops; simpl; intros; auto. destruct H0.
  apply IHops; auto. apply Inv_step; auto.
Qed.

(* ----------------------------------------- the executable checks follow *)
Lemma by_id_some : forall lst e, In e lst -> exists e', by_id lst (e_id e) = Some e'.
Proof.
  induction lst; intros e H; [destruct H|]. simpl in *.
  destruct (e_id a =? e_id e) eqn:Q; eauto.
  destruct H; [subst; rewrite N.eqb_refl in Q; discriminate|auto].
Qed.

Lemma by_id_uniq : forall l e, NoDup (map e_id l) -> In e l -> by_id l (e_id e) = Some e.
Proof.
  intros. destruct (by_id_some l e H0) as (e' & B). rewrite B. f_equal.
  apply by_id_In in B. destruct B. eapply uniq_id; eauto.
Qed.

Theorem Inv_ref_ok : forall s, InvAll s -> ref_ok s = true /\ fref_ok s = true.
Proof.
  intros s (SS & IV). split.
  - unfold ref_ok. destruct (s_ref s) as [r|] eqn:R; auto.
    destruct (I_ref _ _ _ _ _ IV r R) as (e & I & A & B). subst r.
    rewrite (by_id_uniq _ _ (I_nodup _ _ _ _ _ IV) I). apply N.eqb_eq. auto.
  - unfold fref_ok. apply forallb_forall. intros o Io. destruct o as [n|]; auto.
    destruct (I_fref _ _ _ _ _ IV n Io) as (e & I & A & B). subst n.
    rewrite (lookup_works _ _ SS I). apply N.eqb_eq. auto.
Qed.

Lemma clive_bool : forall l nx rf fr tfl K fl, inv l nx rf fr tfl ->
  match K with None => True | Some P => In P l end ->
  clive l K fl -> cache_live_fl l K fl = true.
Proof.
  intros l nx rf fr tfl K fl IV HK C. unfold cache_live_fl. apply forallb_forall.
  intros [i [fg cl]] Ip. simpl. apply forallb_forall. intros c Ic.
  destruct (C i fg cl c Ip Ic) as (m & Im & A & B & M).
  apply existsb_exists. exists m. split.
  - destruct K as [P|]; simpl; auto.
    apply in_flat_map. exists (e_id m). split; auto.
    rewrite (by_id_uniq _ _ (I_nodup _ _ _ _ _ IV) Im). left. auto.
  - rewrite A, B, !N.eqb_refl. auto.
Qed.

Theorem Inv_cache_live : forall s, InvAll s -> cache_live s = true.
Proof.
  intros s (SS & IV). unfold cache_live. apply andb_true_iff. split.
  - apply (clive_bool _ _ _ _ _ None (s_fl s) IV I (I_ctop _ _ _ _ _ IV)).
  - apply forallb_forall. intros P IP.
    apply (clive_bool _ _ _ _ _ (Some P) (e_fl P) IV IP (I_cpar _ _ _ _ _ IV P IP)).
Qed.

(* every pointer in a subfield array designates a live metafield that points back *)
Theorem Inv_subfields : forall s P k, InvAll s -> In P (s_ents s) -> In k (e_kids P) ->
  exists ch, by_id (s_ents s) k = Some ch /\ e_meta ch = true /\ e_par ch = Some (e_id P).
Proof.
  intros s P k (SS & IV) IP K. destruct (I_kids _ _ _ _ _ IV P k IP K) as (ch & Ic & A & B & C).
  exists ch. subst k. rewrite (by_id_uniq _ _ (I_nodup _ _ _ _ _ IV) Ic). auto.
Qed.
