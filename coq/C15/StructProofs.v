(* C15 -- structural invariant of the name table and its preservation by every
   operation of the model (all configurations, success and failure):
     - entry identities are unique and below the allocation counter
     - every pointer in a subfield array designates a live metafield whose
       parent pointer points back; subfield arrays have no duplicates;
       metafields have no subfields and are never RAW
     - D->reference_field is a live RAW entry (or NULL); every fragment's
       /REFERENCE names a live RAW entry
     - every pointer held by a valid cached list (D->fl, E->e->fl) points into
       the name buffer of a current member of that container
   Part 1: generic transformation lemmas. *)
From Coq Require Import List NArith ZArith Arith Bool Lia Sorting.Sorted Sorting.Permutation.
From GD Require Import C15.Order C15.OrderProofs C15.NameTable C15.NameTableProofs.
Import ListNotations.
Open Scope N_scope.

Definition clive (l : list entry) (K : option entry) (fl : flist) : Prop :=
  forall i fg cl c, In (i, (fg, cl)) fl -> In c cl ->
    exists m, In m l /\ e_id m = fst (fst c) /\ e_nid m = snd (fst c) /\
      match K with None => e_meta m = false | Some P => In (e_id m) (e_kids P) end.

Record inv (l : list entry) (nx : N) (rf : option N) (fr : list (option name)) (tfl : flist) : Prop := mkInv {
  I_nodup : NoDup (map e_id l);
  I_fresh : forall e, In e l -> e_id e < nx /\ e_nid e < nx;
  I_kids : forall P k, In P l -> In k (e_kids P) ->
     exists ch, In ch l /\ e_id ch = k /\ e_meta ch = true /\ e_par ch = Some (e_id P);
  I_kidsnd : forall P, In P l -> NoDup (e_kids P);
  I_metaleaf : forall e, In e l -> e_meta e = true -> e_kids e = [] /\ e_ty e <> T_RAW;
  I_ref : forall r, rf = Some r -> exists e, In e l /\ e_id e = r /\ e_ty e = T_RAW;
  I_fref : forall n, In (Some n) fr -> exists e, In e l /\ e_name e = n /\ e_ty e = T_RAW;
  I_ctop : clive l None tfl;
  I_cpar : forall P, In P l -> clive l (Some P) (e_fl P) }.

Definition Inv (s : state) := inv (s_ents s) (s_next s) (s_ref s) (s_fref s) (s_fl s).

Lemma clive_nil : forall l K, clive l K [].
Proof. intros l K i fg cl c H. inversion H. Qed.

Lemma uniq_id : forall l a b, NoDup (map e_id l) -> In a l -> In b l -> e_id a = e_id b -> a = b.
Proof.
  induction l; simpl; intros; [tauto|]. inversion H; subst.
  destruct H0, H1; subst; auto.
  - exfalso. apply H5. rewrite H2. apply in_map. auto.
  - exfalso. apply H5. rewrite <- H2. apply in_map. auto.
Qed.

(* the child designated by an entry of a subfield array *)
Lemma kid_is : forall l nx rf fr tfl P m, inv l nx rf fr tfl -> In P l -> In m l -> In (e_id m) (e_kids P) ->
  e_meta m = true /\ e_par m = Some (e_id P).
Proof.
  intros. destruct (I_kids _ _ _ _ _ H P (e_id m) H0 H2) as (ch & Ic & Eid & Mt & Pr).
  assert (ch = m) by (eapply uniq_id; eauto using I_nodup). subst. auto.
Qed.

(* ------------------------------------------------------------ pointwise maps *)
Section MapGen.
  Variable f : entry -> entry.
  Variables (l : list entry) (nx nx' : N) (rf : option N) (fr fr' : list (option name)) (tfl tfl' : flist).
  Hypothesis H1 : forall e, e_id (f e) = e_id e /\ e_ty (f e) = e_ty e /\ e_meta (f e) = e_meta e /\ e_par (f e) = e_par e.
  Hypothesis H2 : nx <= nx' /\ forall e, In e l -> e_nid (f e) < nx'.
  Hypothesis H3 : forall P k, In P l -> In k (e_kids (f P)) ->
     exists ch, In ch l /\ e_id ch = k /\ e_meta ch = true /\ e_par ch = Some (e_id P).
  Hypothesis H4 : forall P, In P l -> NoDup (e_kids (f P)) /\ (e_meta P = true -> e_kids (f P) = []).
  Hypothesis H5 : forall n, In (Some n) fr' -> exists e, In e l /\ e_name (f e) = n /\ e_ty e = T_RAW.
  Hypothesis H6 : tfl' = [] \/ (tfl' = tfl /\ forall e, In e l -> e_meta e = false -> e_nid (f e) = e_nid e).
  Hypothesis H7 : forall P, In P l -> e_fl (f P) = [] \/
     (e_fl (f P) = e_fl P /\ forall m, In m l -> In (e_id m) (e_kids P) -> e_nid (f m) = e_nid m /\ In (e_id m) (e_kids (f P))).

  Lemma map_ids : map e_id (map f l) = map e_id l.
  Proof. rewrite map_map. apply map_ext. intro. apply H1. Qed.

  Lemma inv_map_gen : inv l nx rf fr tfl -> inv (map f l) nx' rf fr' tfl'.
  Proof.
    intro IV. constructor.
    - rewrite map_ids. apply (I_nodup _ _ _ _ _ IV).
    - intros e I. apply in_map_iff in I. destruct I as (x & E & I). subst.
      destruct (H1 x) as (A & _). rewrite A. split; [|apply H2; auto].
      destruct (I_fresh _ _ _ _ _ IV x I). lia.
    - intros P k I K. apply in_map_iff in I. destruct I as (x & E & I). subst.
      destruct (H3 x k I K) as (ch & Ic & Eid & Mt & Pr).
      exists (f ch). destruct (H1 ch) as (A & B & C & D). destruct (H1 x) as (A' & _).
      rewrite A, C, D, A'. repeat split; auto. apply in_map. auto.
    - intros P I. apply in_map_iff in I. destruct I as (x & E & I). subst. apply H4; auto.
    - intros e I M. apply in_map_iff in I. destruct I as (x & E & I). subst.
      destruct (H1 x) as (A & B & C & D). rewrite C in M. rewrite B.
      split; [apply H4; auto|]. apply (I_metaleaf _ _ _ _ _ IV x I M).
    - intros r R. destruct (I_ref _ _ _ _ _ IV r R) as (e & I & Eid & T).
      exists (f e). destruct (H1 e) as (A & B & _). rewrite A, B. repeat split; auto. apply in_map; auto.
    - intros n I. destruct (H5 n I) as (e & Ie & Nm & T).
      exists (f e). destruct (H1 e) as (A & B & _). rewrite B. repeat split; auto. apply in_map; auto.
    - destruct H6 as [Z|(Z & NN)]; subst; [apply clive_nil|].
      intros i fg cl c I Ic. destruct (I_ctop _ _ _ _ _ IV i fg cl c I Ic) as (m & Im & A & B & C).
      exists (f m). destruct (H1 m) as (A' & B' & C' & D'). rewrite A', C'.
      repeat split; auto. apply in_map; auto. rewrite NN; auto.
    - intros P I. apply in_map_iff in I. destruct I as (x & E & I). subst.
      destruct (H7 x I) as [Z|(Z & KK)]; rewrite Z; [apply clive_nil|].
      intros i fg cl c Ii Ic. destruct (I_cpar _ _ _ _ _ IV x I i fg cl c Ii Ic) as (m & Im & A & B & C).
      exists (f m). destruct (H1 m) as (A' & _). rewrite A'. destruct (KK m Im C) as (N1 & N2).
      repeat split; auto. apply in_map; auto. congruence.
  Qed.
End MapGen.

(* functions that leave the skeleton alone (inputs, scalars, alias links, flags, fragment) *)
Definition skel_pres (f : entry -> entry) : Prop :=
  forall e, e_id (f e) = e_id e /\ e_nid (f e) = e_nid e /\ e_name (f e) = e_name e /\ e_ty (f e) = e_ty e /\
            e_meta (f e) = e_meta e /\ e_par (f e) = e_par e /\ e_kids (f e) = e_kids e /\ e_fl (f e) = e_fl e.

Lemma skel_id : skel_pres (fun e => e).
Proof. intro e. repeat split. Qed.

Lemma skel_comp : forall f g, skel_pres f -> skel_pres g -> skel_pres (fun e => g (f e)).
Proof.
  intros f g F G e. destruct (F e) as (a1 & a2 & a3 & a4 & a5 & a6 & a7 & a8).
  destruct (G (f e)) as (b1 & b2 & b3 & b4 & b5 & b6 & b7 & b8).
  repeat split; congruence.
Qed.

Lemma skel_cond : forall (b : entry -> bool) g, skel_pres g -> skel_pres (fun e => if b e then g e else e).
Proof. intros b g G e. destruct (b e); [apply G | repeat split]. Qed.

Lemma inv_map_skel : forall f l nx rf fr tfl, skel_pres f -> inv l nx rf fr tfl -> inv (map f l) nx rf fr tfl.
Proof.
  intros f l nx rf fr tfl F IV.
  assert (X : forall e, e_id (f e) = e_id e /\ e_nid (f e) = e_nid e /\ e_name (f e) = e_name e /\ e_ty (f e) = e_ty e /\
            e_meta (f e) = e_meta e /\ e_par (f e) = e_par e /\ e_kids (f e) = e_kids e /\ e_fl (f e) = e_fl e) by apply F.
  apply inv_map_gen with (nx := nx) (fr := fr) (tfl := tfl); auto.
  - intro e. destruct (X e) as (a1 & a2 & a3 & a4 & a5 & a6 & a7 & a8). auto.
  - split; [lia|]. intros e I. destruct (X e) as (a1 & a2 & _). rewrite a2. apply (I_fresh _ _ _ _ _ IV e I).
  - intros P k I K. destruct (X P) as (a1 & a2 & a3 & a4 & a5 & a6 & a7 & a8). rewrite a7 in K.
    apply (I_kids _ _ _ _ _ IV P k I K).
  - intros P I. destruct (X P) as (a1 & a2 & a3 & a4 & a5 & a6 & a7 & a8). rewrite a7.
    split; [apply (I_kidsnd _ _ _ _ _ IV P I)|]. intro M. apply (I_metaleaf _ _ _ _ _ IV P I M).
  - intros n I. destruct (I_fref _ _ _ _ _ IV n I) as (e & Ie & Nm & T). exists e.
    destruct (X e) as (a1 & a2 & a3 & _). repeat split; auto. congruence.
  - right. split; auto. intros e _ _. apply X.
  - intros P I. right. split; [apply X|]. intros m Im K. split; [apply X|].
    destruct (X P) as (a1 & a2 & a3 & a4 & a5 & a6 & a7 & a8). rewrite a7. auto.
Qed.

(* clearing cached lists is always safe *)
Lemma inv_clear : forall (b : entry -> bool) l nx rf fr tfl tfl',
  (tfl' = [] \/ tfl' = tfl) -> inv l nx rf fr tfl ->
  inv (map (fun e => if b e then set_fl e [] else e) l) nx rf fr tfl'.
Proof.
  intros b l nx rf fr tfl tfl' T IV.
  apply inv_map_gen with (nx := nx) (fr := fr) (tfl := tfl); auto.
  - intro e. destruct (b e); auto.
  - split; [lia|]. intros e I. destruct (b e); apply (I_fresh _ _ _ _ _ IV e I).
  - intros P k I K. apply (I_kids _ _ _ _ _ IV P k I). destruct (b P); auto.
  - intros P I. assert (e_kids (if b P then set_fl P [] else P) = e_kids P) by (destruct (b P); auto).
    rewrite H. split; [apply (I_kidsnd _ _ _ _ _ IV P I)|]. intro M. apply (I_metaleaf _ _ _ _ _ IV P I M).
  - intros n I. destruct (I_fref _ _ _ _ _ IV n I) as (e & Ie & Nm & Ty). exists e. repeat split; auto.
    destruct (b e); auto.
  - destruct T; [left; auto|right]. split; auto. intros e _ _. destruct (b e); auto.
  - intros P I. destruct (b P) eqn:B; [left; auto|right]. split; auto.
    intros m Im K. split; auto. destruct (b m); auto.
Qed.

Lemma inv_inval_of : forall l id nx rf fr tfl, inv l nx rf fr tfl -> inv (inval_of l id) nx rf fr tfl.
Proof. intros. unfold inval_of, upd_id. apply inv_clear with (tfl := tfl); auto. Qed.

(* ------------------------------------------------------- state components *)
Lemma inv_weaken : forall l nx nx' rf fr tfl, nx <= nx' -> inv l nx rf fr tfl -> inv l nx' rf fr tfl.
Proof.
  intros. destruct H0. constructor; auto. intros e I. destruct (I_fresh0 e I). lia.
Qed.

Lemma inv_top_nil : forall l nx rf fr tfl, inv l nx rf fr tfl -> inv l nx rf fr [].
Proof. intros. destruct H. constructor; auto. apply clive_nil. Qed.

Lemma inv_set_refs : forall l nx rf fr tfl rf' fr',
  (forall r, rf' = Some r -> exists e, In e l /\ e_id e = r /\ e_ty e = T_RAW) ->
  (forall n, In (Some n) fr' -> exists e, In e l /\ e_name e = n /\ e_ty e = T_RAW) ->
  inv l nx rf fr tfl -> inv l nx rf' fr' tfl.
Proof. intros. destruct H1. constructor; auto. Qed.

(* ------------------------------------------------------------- permutation *)
Lemma clive_perm : forall l l' K fl, Permutation l l' -> clive l K fl -> clive l' K fl.
Proof.
  intros l l' K fl P C i fg cl c I Ic. destruct (C i fg cl c I Ic) as (m & Im & R).
  exists m. split; auto. eapply Permutation_in; eauto.
Qed.

Lemma inv_perm : forall l l' nx rf fr tfl, Permutation l l' -> inv l nx rf fr tfl -> inv l' nx rf fr tfl.
Proof.
  intros l l' nx rf fr tfl P IV.
  assert (B : forall x, In x l' -> In x l) by (intros; eapply Permutation_in; [apply Permutation_sym; eauto|auto]).
  assert (F : forall x, In x l -> In x l') by (intros; eapply Permutation_in; eauto).
  destruct IV. constructor; auto.
  - eapply Permutation_NoDup; [apply Permutation_map; eauto|auto].
  - intros Q k I K. destruct (I_kids0 Q k (B _ I) K) as (ch & Ic & R). exists ch. split; auto.
  - intros r R. destruct (I_ref0 r R) as (e & I & R'). exists e. split; auto.
  - intros n I. destruct (I_fref0 n I) as (e & Ie & R'). exists e. split; auto.
  - eapply clive_perm; eauto.
  - intros Q I. eapply clive_perm; eauto.
Qed.

Lemma insert_at_perm : forall A u (x : A) l, Permutation (insert_at u x l) (x :: l).
Proof.
  intros. unfold insert_at. rewrite <- (firstn_skipn u l) at 3.
  apply Permutation_sym. apply Permutation_middle.
Qed.

Lemma ins_sorted_perm : forall A (key : A -> name) x l, Permutation (ins_sorted key x l) (x :: l).
Proof.
  induction l; simpl; auto. destruct (name_cmp (key x) (key a)); auto.
  eapply Permutation_trans; [apply perm_skip; apply IHl|apply perm_swap].
Qed.

Lemma resort_perm : forall A (key : A -> name) l, Permutation (resort key l) l.
Proof.
  induction l; simpl; auto. unfold resort in *. simpl.
  eapply Permutation_trans; [apply ins_sorted_perm|]. apply perm_skip. auto.
Qed.

(* ---------------------------------------------------------------- insertion *)
Lemma inv_cons : forall l nx rf fr tfl e,
  e_id e = nx -> e_nid e = nx + 1 -> e_kids e = [] -> e_fl e = [] ->
  (e_meta e = true -> e_ty e <> T_RAW) ->
  inv l nx rf fr tfl -> inv (e :: l) (nx + 2) rf fr tfl.
Proof.
  intros l nx rf fr tfl e Eid Enid Ek Efl Em IV. destruct IV. constructor.
  - simpl. constructor; auto. intro I. apply in_map_iff in I. destruct I as (x & E & I).
    destruct (I_fresh0 x I). lia.
  - intros x [I|I]; [subst; lia|]. destruct (I_fresh0 x I). lia.
  - intros P k [I|I] K; [subst; rewrite Ek in K; inversion K|].
    destruct (I_kids0 P k I K) as (ch & Ic & R). exists ch. split; simpl; auto.
  - intros P [I|I]; [subst; rewrite Ek; constructor|auto].
  - intros x [I|I] M; [subst; split; auto|auto].
  - intros r R. destruct (I_ref0 r R) as (x & I & R'). exists x. split; simpl; auto.
  - intros n I. destruct (I_fref0 n I) as (x & Ix & R'). exists x. split; simpl; auto.
  - intros i fg cl c I Ic. destruct (I_ctop0 i fg cl c I Ic) as (m & Im & R). exists m. split; simpl; auto.
  - intros P [I|I]; [subst; rewrite Efl; apply clive_nil|].
    intros i fg cl c Ii Ic. destruct (I_cpar0 P I i fg cl c Ii Ic) as (m & Im & R). exists m. split; simpl; auto.
Qed.

(* ------------------------------------------------------------------ removal *)
Lemma sub_nodup_ids : forall (l' l : list entry), sub l' l -> NoDup (map e_id l) -> NoDup (map e_id l').
Proof.
  induction 1; simpl; intros; auto.
  - inversion H0; subst. auto.
  - inversion H0; subst. constructor; auto. intro I. apply H3.
    apply in_map_iff in I. destruct I as (y & E & I). rewrite <- E. apply in_map. eapply sub_In; eauto.
Qed.

Lemma inv_remove : forall l l' nx rf fr tfl rf' fr' tfl',
  NoDup (map e_id l') -> (forall x, In x l' -> In x l) ->
  (forall P ch, In P l' -> In ch l -> In (e_id ch) (e_kids P) -> In ch l') ->
  (forall r, rf' = Some r -> exists e, In e l' /\ e_id e = r /\ e_ty e = T_RAW) ->
  (forall n, In (Some n) fr' -> exists e, In e l' /\ e_name e = n /\ e_ty e = T_RAW) ->
  (tfl' = [] \/ (tfl' = tfl /\ forall m, In m l -> e_meta m = false -> In m l')) ->
  inv l nx rf fr tfl -> inv l' nx rf' fr' tfl'.
Proof.
  intros l l' nx rf fr tfl rf' fr' tfl' ND B Ka Kb Kc Kd IV.
  constructor; auto.
  - intros e I. apply (I_fresh _ _ _ _ _ IV e (B _ I)).
  - intros P k I K. destruct (I_kids _ _ _ _ _ IV P k (B _ I) K) as (ch & Ic & Eid & R).
    exists ch. split; auto. apply (Ka P ch I Ic). rewrite Eid. auto.
  - intros P I. apply (I_kidsnd _ _ _ _ _ IV P (B _ I)).
  - intros e I. apply (I_metaleaf _ _ _ _ _ IV e (B _ I)).
  - destruct Kd as [Z|(Z & KK)]; subst; [apply clive_nil|].
    intros i fg cl c I Ic. destruct (I_ctop _ _ _ _ _ IV i fg cl c I Ic) as (m & Im & A & A' & M).
    exists m. repeat split; auto.
  - intros P I i fg cl c Ii Ic.
    destruct (I_cpar _ _ _ _ _ IV P (B _ I) i fg cl c Ii Ic) as (m & Im & A & A' & M).
    exists m. repeat split; auto. apply (Ka P m I Im M).
Qed.
