From GD Require Import C15.Order C15.NameTable.
Require Import ExtrOcamlBasic.
Extraction Language OCaml.
Extraction "model.ml" init_state step pinned fixed mkCfg nentries constants values_of match_entries reference
  inv_full inv_core sorted_ok ids_fresh ref_ok cache_live cache_consistent meta_ok alias_live alias_resolved
  find_nd find_da find_index lin_find.
