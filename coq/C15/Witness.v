(* C15 -- witnesses.  (1) Regression: the sequences on which the tree violated
   the invariant before the repairs (d815d97 .. 71a6c5d, fb2ee00, c6d3509, d57f5bc, 0b78ced, 3441338, 6bdc56b, c8788a9, 17ba081) now keep the
   full invariant in the model of the current code.  No operation of the model is left on which the
   code as it stands violates the full invariant (the open defects concern
   operations outside the model).  All are replayed on the
   real library by checks/C15.py. *)
From Coq Require Import List NArith ZArith Bool.
From GD Require Import C15.Order C15.NameTable.
Import ListNotations.
Open Scope N_scope.

Definition a_ : name := [97]. Definition b_ : name := [98]. Definition c_ : name := [99].
Definition p_ : name := [112]. Definition q_ : name := [113]. Definition r_ : name := [114].
Definition s_ : name := [115]. Definition x_ : name := [120].
Definition aa_ : name := [97; 97]. Definition bb_ : name := [98; 98]. Definition al_ : name := [97; 108].
Definition p_aa : name := [112; 47; 97; 97].
Definition konst (spec : bool) (par : option name) (n : name) (fr : N) := OAdd spec par n T_CONST fr false [] [] 1%Z.
Definition raw (n : name) := OAdd false None n T_RAW 0 false [] [None] 0%Z.

(* (a) gd_delete of the only RAW field leaves D->reference_field dangling *)
Definition w_delref_pre c := run c init_state [raw r_].
Definition w_delref_op := ODel r_ 0.
(* (b) gd_hide does not invalidate the cached lists *)
Definition w_hide_pre c := run c init_state [konst false None a_ 0; konst false None b_ 0; OList None S_ALL 0].
Definition w_hide_op := OHide a_ true.
(* (c) gd_alter_affixes leaves cached lists pointing at freed names *)
Definition w_affix_pre c := run c init_state [konst false None x_ 1; OList None S_ALL 0].
Definition w_affix_op := OAffix 1 p_ [].
(* gd_delete(GD_DEL_META) skips every second adjacent metafield *)
Definition w_delmeta_pre c := run c init_state [konst false None p_ 0; konst true (Some p_) a_ 0; konst true (Some p_) b_ 0; konst true (Some p_) c_ 0].
Definition w_delmeta_op := ODel p_ 1.
(* gd_rename of a metafield invalidates the wrong list *)
Definition w_rencache_pre c := run c init_state [konst false None p_ 0; konst true (Some p_) aa_ 0; OList (Some p_) S_ALL 0].
Definition w_rencache_op := ORen p_aa bb_ 0.
(* gd_rename of the reference field leaves the fragment's /REFERENCE behind *)
Definition w_renref_pre c := run c init_state [raw r_].
Definition w_renref_op := ORen r_ s_ 0.
(* gd_add_spec does not invalidate the cached lists *)
Definition w_spec_pre c := run c init_state [konst false None p_ 0; OList None S_ALL 0].
Definition w_spec_op := konst true None q_ 0.
(* gd_madd*() leaves the parent pointer of the new metafield NULL *)
Definition w_parent_pre c := run c init_state [konst false None p_ 0].
Definition w_parent_op := konst false (Some p_) c_ 0.
(* gd_madd_alias() does not link the alias to its parent *)
Definition w_malias_pre c := run c init_state [konst false None p_ 0; konst false None x_ 0].
Definition w_malias_op := OAlias (Some p_) al_ x_ 0.
(* defects without a repair flag *)
Definition w_stale_pre c := run c init_state [konst false None x_ 0; OAlias None al_ x_ 0; ODel x_ 8].
Definition w_stale_op := konst false None x_ 0.
Definition w_loop_pre c := run c init_state [OAlias None b_ c_ 0; OAlias None c_ b_ 0].
Definition w_loop_op := OAlias None a_ b_ 0.
Definition w_dup_pre c := run c init_state [konst false None a_ 0; OAlias None q_ [110; 111] 0].
Definition w_dup_op := ORen a_ q_ 0.
Definition w_deref_pre c := run c init_state [konst false None x_ 0; OAlias None al_ x_ 0].
Definition w_deref_op := ODel x_ 12.

Ltac vm := vm_compute; reflexivity.

(* (1) repaired: the full invariant holds before and after *)
Lemma w_delref : inv_full (w_delref_pre pinned) = true /\ inv_full (fst (step pinned (w_delref_pre pinned) w_delref_op)) = true.
Proof. split; vm. Qed.
Lemma w_hide : inv_full (w_hide_pre pinned) = true /\ inv_full (fst (step pinned (w_hide_pre pinned) w_hide_op)) = true.
Proof. split; vm. Qed.
Lemma w_affix : inv_full (w_affix_pre pinned) = true /\ inv_full (fst (step pinned (w_affix_pre pinned) w_affix_op)) = true.
Proof. split; vm. Qed.
Lemma w_delmeta : inv_full (w_delmeta_pre pinned) = true /\ inv_full (fst (step pinned (w_delmeta_pre pinned) w_delmeta_op)) = true.
Proof. split; vm. Qed.
Lemma w_rencache : inv_full (w_rencache_pre pinned) = true /\ inv_full (fst (step pinned (w_rencache_pre pinned) w_rencache_op)) = true.
Proof. split; vm. Qed.
Lemma w_renref : inv_full (w_renref_pre pinned) = true /\ inv_full (fst (step pinned (w_renref_pre pinned) w_renref_op)) = true.
Proof. split; vm. Qed.
Lemma w_spec : inv_full (w_spec_pre pinned) = true /\ inv_full (fst (step pinned (w_spec_pre pinned) w_spec_op)) = true.
Proof. split; vm. Qed.
Lemma w_parent : inv_full (w_parent_pre pinned) = true /\ inv_full (fst (step pinned (w_parent_pre pinned) w_parent_op)) = true.
Proof. split; vm. Qed.
Lemma w_malias : inv_full (w_malias_pre pinned) = true /\ inv_full (fst (step pinned (w_malias_pre pinned) w_malias_op)) = true.
Proof. split; vm. Qed.
Lemma w_loop : inv_full (w_loop_pre pinned) = true /\ snd (step pinned (w_loop_pre pinned) w_loop_op) = RInt 0%Z
  /\ inv_full (fst (step pinned (w_loop_pre pinned) w_loop_op)) = true.
Proof. repeat split; vm. Qed.

Lemma w_stale : inv_full (w_stale_pre pinned) = true /\ inv_full (fst (step pinned (w_stale_pre pinned) w_stale_op)) = true.
Proof. split; vm. Qed.
Lemma w_dup : inv_full (w_dup_pre pinned) = true /\ snd (step pinned (w_dup_pre pinned) w_dup_op) = RInt E_DUPLICATE.
Proof. split; vm. Qed.
Lemma w_deref : inv_full (w_deref_pre pinned) = true /\ inv_full (fst (step pinned (w_deref_pre pinned) w_deref_op)) = true.
Proof. split; vm. Qed.

(* deleting an intermediate alias now re-resolves the aliases that went through it (3441338) *)
Definition w_inter_pre c := run c init_state [konst false None x_ 0; OAlias None b_ x_ 0; OAlias None a_ b_ 0].
Definition w_inter_op := ODel b_ 8.
Lemma w_inter : inv_full (w_inter_pre pinned) = true /\ inv_full (fst (step pinned (w_inter_pre pinned) w_inter_op)) = true.
Proof. split; vm. Qed.
(* gd_madd*() through a parent code with the leading '.' that lookup drops (6bdc56b) *)
Definition w_dotpar_pre c := run c init_state [konst false None [97; 98] 0].
Definition w_dotpar_op := OAdd false (Some [46; 97; 98]) x_ T_PHASE 0 false [[97; 98]] [None] 0%Z.
Lemma w_dotpar : inv_full (fst (step pinned (w_dotpar_pre pinned) w_dotpar_op)) = true.
Proof. vm. Qed.

(* cross-container: adding the target of a top-level alias below a parent used to leave D->fl stale (c8788a9) *)
Definition w_xcache_pre c := run c init_state [konst false None p_ 0; OAlias None al_ [112; 47; 120] 0; OList None S_ALL 0].
Definition w_xcache_op := konst true (Some p_) x_ 0.
Lemma w_xcache : inv_full (w_xcache_pre pinned) = true /\ inv_full (fst (step pinned (w_xcache_pre pinned) w_xcache_op)) = true.
Proof. repeat split; vm. Qed.
