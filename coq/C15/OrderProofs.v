(* C15 -- the (length, bytes) order is a strict total order; bisection
   (_GD_FindField) is sound and complete on strictly sorted arrays and returns
   the insertion point used by _GD_InsertSort; insertion, removal and re-sorting
   keep the array strictly sorted. *)
From Coq Require Import List NArith Arith Bool Lia Sorting.Sorted.
From GD Require Import C15.Order.
Import ListNotations.

(* ------------------------------------------------------------ the order *)
Lemma bytes_cmp_refl : forall a, bytes_cmp a a = Eq.
Proof. induction a; simpl; auto. rewrite N.compare_refl. auto. Qed.

Lemma bytes_cmp_eq : forall a b, bytes_cmp a b = Eq -> a = b.
Proof.
  induction a; destruct b; simpl; intros; try discriminate; auto.
  destruct (N.compare a n) eqn:C; try discriminate.
  apply N.compare_eq in C. subst. f_equal. auto.
Qed.

Lemma bytes_cmp_antisym : forall a b, bytes_cmp b a = CompOpp (bytes_cmp a b).
Proof.
  induction a; destruct b; simpl; auto.
  rewrite (N.compare_antisym a n). destruct (N.compare a n); simpl; auto.
Qed.

Lemma bytes_cmp_trans : forall a b c, bytes_cmp a b = Lt -> bytes_cmp b c = Lt -> bytes_cmp a c = Lt.
Proof.
  induction a; destruct b; destruct c; simpl; intros; try discriminate; auto.
  destruct (N.compare a n) eqn:C1; try discriminate.
  - apply N.compare_eq in C1. subst.
    destruct (N.compare n n0) eqn:C2; try discriminate; auto. eauto.
  - destruct (N.compare n n0) eqn:C2; try discriminate.
    + apply N.compare_eq in C2. subst. rewrite C1. auto.
    + assert (X : N.compare a n0 = Lt).
      { apply N.compare_lt_iff. apply N.compare_lt_iff in C1. apply N.compare_lt_iff in C2. eapply N.lt_trans; eauto. }
      rewrite X. auto.
Qed.

Lemma name_cmp_refl : forall a, name_cmp a a = Eq.
Proof. intros. unfold name_cmp. rewrite Nat.compare_refl. apply bytes_cmp_refl. Qed.

Lemma name_cmp_eq : forall a b, name_cmp a b = Eq -> a = b.
Proof.
  unfold name_cmp. intros a b. destruct (Nat.compare (length a) (length b)) eqn:C; try discriminate.
  apply bytes_cmp_eq.
Qed.

Lemma name_cmp_eq_iff : forall a b, name_cmp a b = Eq <-> a = b.
Proof. split. apply name_cmp_eq. intros; subst; apply name_cmp_refl. Qed.

Lemma name_cmp_antisym : forall a b, name_cmp b a = CompOpp (name_cmp a b).
Proof.
  intros. unfold name_cmp. rewrite (Nat.compare_antisym (length a) (length b)).
  destruct (Nat.compare (length a) (length b)); simpl; auto. apply bytes_cmp_antisym.
Qed.

Lemma name_lt_trans : forall a b c, name_lt a b -> name_lt b c -> name_lt a c.
Proof.
  unfold name_lt, name_cmp. intros a b c.
  destruct (Nat.compare (length a) (length b)) eqn:C1; try discriminate;
  destruct (Nat.compare (length b) (length c)) eqn:C2; try discriminate; intros.
  - apply Nat.compare_eq in C1. apply Nat.compare_eq in C2.
    replace (Nat.compare (length a) (length c)) with Eq by (symmetry; apply Nat.compare_eq_iff; lia).
    eapply bytes_cmp_trans; eauto.
  - apply Nat.compare_eq in C1. rewrite C1. rewrite C2. auto.
  - apply Nat.compare_eq in C2. rewrite <- C2. rewrite C1. auto.
  - apply Nat.compare_lt_iff in C1. apply Nat.compare_lt_iff in C2.
    replace (Nat.compare (length a) (length c)) with Lt by (symmetry; apply Nat.compare_lt_iff; lia). auto.
Qed.

Lemma name_lt_irrefl : forall a, ~ name_lt a a.
Proof. unfold name_lt. intros a H. rewrite name_cmp_refl in H. discriminate. Qed.

Lemma name_gt_lt : forall a b, name_cmp a b = Gt -> name_lt b a.
Proof. unfold name_lt. intros. rewrite name_cmp_antisym, H. auto. Qed.

Lemma name_lt_gt : forall a b, name_lt a b -> name_cmp b a = Gt.
Proof. unfold name_lt. intros. rewrite name_cmp_antisym, H. auto. Qed.

(* strict total order *)
Theorem name_order_total : forall a b, name_lt a b \/ a = b \/ name_lt b a.
Proof.
  intros. destruct (name_cmp a b) eqn:C.
  - right; left. apply name_cmp_eq; auto.
  - left; auto.
  - right; right. apply name_gt_lt; auto.
Qed.

(* ------------------------------------------------------- sorted arrays *)
Definition Sorted_names (l : list name) := StronglySorted name_lt l.

Lemma sortedb_sound : forall l, sortedb l = true -> Sorted_names l.
Proof.
  induction l as [|x r IH]; intros; [constructor|].
  simpl in H. destruct r as [|y r'].
  - constructor; constructor.
  - destruct (name_cmp x y) eqn:C; try discriminate.
    specialize (IH H). constructor; auto.
    inversion IH; subst. constructor; auto.
    eapply Forall_impl; [|eauto]. intros. eapply name_lt_trans; eauto.
Qed.

Lemma sortedb_complete : forall l, Sorted_names l -> sortedb l = true.
Proof.
  induction l as [|x r IH]; intros; auto.
  inversion H; subst. simpl. destruct r as [|y r']; auto.
  inversion H3; subst. unfold name_lt in H4. rewrite H4. auto.
Qed.

Lemma sorted_nodup : forall l, Sorted_names l -> NoDup l.
Proof.
  induction l; intros; constructor; inversion H; subst; auto.
  intro I. rewrite Forall_forall in H3. apply (name_lt_irrefl a). auto.
Qed.

Lemma sorted_nth_lt : forall l i j, Sorted_names l -> (i < j)%nat -> (j < length l)%nat ->
  name_lt (nth i l []) (nth j l []).
Proof.
  induction l; simpl; intros; [lia|].
  inversion H; subst. destruct j; [lia|]. destruct i.
  - rewrite Forall_forall in H5. apply H5. apply nth_In. lia.
  - apply IHl; auto; lia.
Qed.

(* ------------------------------------------------------------ bisection *)
Lemma div2_bounds : forall l u, (l < u)%nat -> (l <= Nat.div2 (l + u) < u)%nat.
Proof.
  intros. pose proof (Nat.div2_odd (l + u)).
  destruct (Nat.odd (l + u)); simpl in H0; lia.
Qed.

(* what the loop guarantees: a hit is a real hit; a miss at u means everything
   below u is smaller and everything from u on is larger *)
Lemma bisect_spec : forall fuel keys k l u,
  Sorted_names keys -> (l <= u <= length keys)%nat -> (u - l < fuel)%nat ->
  (forall j, (j < l)%nat -> name_lt (nth j keys []) k) ->
  (forall j, (u <= j < length keys)%nat -> name_lt k (nth j keys [])) ->
  match bisect fuel keys k l u with
  | inl i => (i < length keys)%nat /\ nth i keys [] = k
  | inr v => (v <= length keys)%nat /\
             (forall j, (j < v)%nat -> name_lt (nth j keys []) k) /\
             (forall j, (v <= j < length keys)%nat -> name_lt k (nth j keys []))
  end.
Proof.
  induction fuel; intros; [lia|].
  simpl. destruct (Nat.ltb l u) eqn:LU.
  - apply Nat.ltb_lt in LU. pose proof (div2_bounds l u LU) as B.
    set (i := Nat.div2 (l + u)) in *.
    destruct (name_cmp k (nth i keys [])) eqn:C.
    + split; [lia|]. symmetry. apply name_cmp_eq. auto.
    + apply IHfuel; auto; try lia. intros j Hj.
      destruct (Nat.eq_dec j i); [subst; auto|].
      eapply name_lt_trans; [apply C|]. apply sorted_nth_lt; auto; lia.
    + apply IHfuel; auto; try lia. intros j Hj.
      destruct (Nat.eq_dec j i); [subst; apply name_gt_lt; auto|].
      eapply name_lt_trans; [|apply name_gt_lt; apply C]. apply sorted_nth_lt; auto; lia.
  - apply Nat.ltb_ge in LU. assert (l = u) by lia. subst. split; [lia|]. split; auto.
Qed.

Lemma find_index_spec : forall keys k, Sorted_names keys ->
  match find_index keys k with
  | inl i => (i < length keys)%nat /\ nth i keys [] = k
  | inr v => (v <= length keys)%nat /\
             (forall j, (j < v)%nat -> name_lt (nth j keys []) k) /\
             (forall j, (v <= j < length keys)%nat -> name_lt k (nth j keys []))
  end.
Proof.
  intros. unfold find_index. apply bisect_spec; auto; try lia; intros; lia.
Qed.

(* sound: a hit designates an element equal to the key (no sortedness needed
   for equality, sortedness only for the index bound) *)
Theorem find_sound : forall keys k i, Sorted_names keys ->
  find_index keys k = inl i -> nth_error keys i = Some k.
Proof.
  intros. pose proof (find_index_spec keys k H). rewrite H0 in H1. destruct H1.
  rewrite <- H2. apply nth_error_nth'. auto.
Qed.

(* complete: every element of a sorted array is found, at its own index *)
Theorem find_complete : forall keys k, Sorted_names keys -> In k keys ->
  exists i, find_index keys k = inl i /\ nth_error keys i = Some k.
Proof.
  intros. pose proof (find_index_spec keys k H).
  destruct (find_index keys k) eqn:F.
  - exists n. split; auto. eapply find_sound; eauto.
  - exfalso. destruct H1 as (B & LO & HI).
    apply In_nth with (d := []) in H0. destruct H0 as (j & Hj & E).
    destruct (Nat.lt_ge_cases j n).
    + specialize (LO j H0). rewrite E in LO. apply (name_lt_irrefl k); auto.
    + specialize (HI j (conj H0 Hj)). rewrite E in HI. apply (name_lt_irrefl k); auto.
Qed.

Theorem find_miss_absent : forall keys k u, Sorted_names keys ->
  find_index keys k = inr u -> ~ In k keys.
Proof.
  intros. intro I. destruct (find_complete keys k H I) as (i & F & _). congruence.
Qed.

(* ------------------------------------------------------------ insertion *)
Lemma Forall_nth_lt : forall (P : name -> Prop) l,
  (forall j, (j < length l)%nat -> P (nth j l [])) -> Forall P l.
Proof.
  intros. apply Forall_forall. intros x I. apply In_nth with (d := []) in I.
  destruct I as (j & Hj & E). subst. auto.
Qed.

Lemma sorted_app : forall a b, Sorted_names a -> Sorted_names b ->
  (forall x y, In x a -> In y b -> name_lt x y) -> Sorted_names (a ++ b).
Proof.
  induction a; simpl; intros; auto.
  inversion H; subst. constructor.
  - apply IHa; auto.
  - apply Forall_app. split; auto. apply Forall_forall. intros. apply H1; auto.
Qed.

Lemma sorted_firstn : forall l n, Sorted_names l -> Sorted_names (firstn n l).
Proof.
  induction l; intros n H; destruct n; simpl; try constructor.
  - inversion H; subst. apply IHl; auto.
  - inversion H; subst. apply Forall_forall. intros x I. rewrite Forall_forall in H3. apply H3.
    rewrite <- (firstn_skipn n l). apply in_or_app. left. auto.
Qed.

Lemma sorted_skipn : forall n l, Sorted_names l -> Sorted_names (skipn n l).
Proof.
  induction n; destruct l; simpl; intros; auto. inversion H; subst. auto.
Qed.

Lemma nth_skipn_name : forall n (l : list name) j, nth j (skipn n l) [] = nth (n + j) l [].
Proof.
  induction n; destruct l; simpl; intros; auto. destruct j; auto.
Qed.

Lemma nth_firstn_lt_name : forall (l : list name) n j, (j < n)%nat -> nth j (firstn n l) [] = nth j l [].
Proof.
  induction l; destruct n; destruct j; simpl; intros; auto; try lia. apply IHl. lia.
Qed.

(* _GD_InsertSort at the index returned by a failed _GD_FindField keeps the
   array strictly sorted *)
Theorem insert_sorted : forall keys k u, Sorted_names keys ->
  find_index keys k = inr u -> Sorted_names (insert_at u k keys).
Proof.
  intros. pose proof (find_index_spec keys k H). rewrite H0 in H1. destruct H1 as (B & LO & HI).
  unfold insert_at. apply sorted_app.
  - apply sorted_firstn; auto.
  - constructor. apply sorted_skipn; auto.
    apply Forall_forall. intros x I. apply (In_nth _ _ []) in I. destruct I as (j & Hj & E).
    rewrite skipn_length in Hj. rewrite nth_skipn_name in E. rewrite <- E. apply HI. lia.
  - intros x y Ix Iy. apply (In_nth _ _ []) in Ix. destruct Ix as (j & Hj & E).
    rewrite firstn_length in Hj.
    assert (Lx : name_lt x k).
    { rewrite <- E. rewrite nth_firstn_lt_name by lia. apply LO. lia. }
    destruct Iy as [Iy|Iy]; [subst; auto|].
    apply (In_nth _ _ []) in Iy. destruct Iy as (j' & Hj' & E').
    rewrite skipn_length in Hj'. rewrite nth_skipn_name in E'.
    eapply name_lt_trans; [apply Lx|]. rewrite <- E'. apply HI. lia.
Qed.

(* ------------------------------------------------- removal and re-sorting *)
Lemma sorted_filter : forall (f : name -> bool) l, Sorted_names l -> Sorted_names (filter f l).
Proof.
  induction l; simpl; intros; auto. inversion H; subst.
  destruct (f a); auto. constructor; [apply IHl; auto|].
  apply Forall_forall. intros. apply filter_In in H0. rewrite Forall_forall in H3. apply H3. tauto.
Qed.

Section Resort.
  Context {A : Type} (key : A -> name).

  Definition KSorted (l : list A) := Sorted_names (map key l).

  Lemma ins_sorted_in : forall x l y, In y (ins_sorted key x l) <-> x = y \/ In y l.
  Proof.
    induction l; simpl; intros; [tauto|].
    destruct (name_cmp (key x) (key a)); simpl; try tauto.
    rewrite IHl. tauto.
  Qed.

  Lemma ins_sorted_sorted : forall x l, KSorted l -> ~ In (key x) (map key l) ->
    KSorted (ins_sorted key x l).
  Proof.
    unfold KSorted. induction l; simpl; intros.
    - constructor; constructor.
    - inversion H; subst. destruct (name_cmp (key x) (key a)) eqn:C.
      + exfalso. apply H0. left. symmetry. apply name_cmp_eq; auto.
      + simpl. constructor; auto. constructor; auto.
        eapply Forall_impl; [|eauto]. intros. eapply name_lt_trans; eauto.
      + simpl. constructor.
        * apply IHl; auto.
        * apply Forall_forall. intros k I. apply in_map_iff in I. destruct I as (y & E & I).
          apply ins_sorted_in in I. destruct I; subst.
          -- apply name_gt_lt; auto.
          -- rewrite Forall_forall in H4. apply H4. apply in_map; auto.
  Qed.

  Lemma resort_in : forall l y, In y (resort key l) <-> In y l.
  Proof.
    induction l; simpl; intros; [tauto|]. unfold resort in *. simpl.
    rewrite ins_sorted_in. rewrite IHl. tauto.
  Qed.

  (* qsort with _GD_EntryCmp yields a strictly sorted array iff no two names coincide *)
  Theorem resort_sorted : forall l, NoDup (map key l) -> KSorted (resort key l).
  Proof.
    induction l; simpl; intros.
    - unfold KSorted, resort. simpl. constructor.
    - inversion H; subst. unfold resort. simpl. apply ins_sorted_sorted.
      + apply IHl; auto.
      + intro I. apply in_map_iff in I. destruct I as (y & E & I).
        change (In y (resort key l)) in I. apply (proj1 (resort_in _ _)) in I.
        apply H2. rewrite <- E. apply in_map. auto.
  Qed.
End Resort.
