(* C15 -- invariant preservation for the name-table model: D->entry stays
   strictly sorted by (length, bytes) -- hence names are unique and bisection
   finds every entry -- under every operation, for every repair configuration,
   for successful and failing calls alike.  The only exceptions are spelled out
   as hypotheses: gd_rename when the new names collide (refuted on the pinned
   tree, see Witness.v) and gd_alter_affixes (not covered). *)
From Coq Require Import List NArith ZArith Arith Bool Lia Sorting.Sorted.
From GD Require Import C15.Order C15.OrderProofs C15.NameTable.
Import ListNotations.

Arguments do_insert : simpl never.
Arguments add_go : simpl never.
Arguments alias_go : simpl never.
Arguments with_aliases : simpl never.
Arguments add_ref : simpl never.
Arguments new_entry : simpl never.
Arguments inval_container : simpl never.
Arguments find_nd : simpl never.
Arguments find_da : simpl never.

Definition SortedS (s : state) := Sorted_names (keys (s_ents s)).

Lemma sorted_ok_iff : forall s, sorted_ok s = true <-> SortedS s.
Proof. intros; split; [apply sortedb_sound | apply sortedb_complete]. Qed.

(* ------------------------------------------------------ key-preserving maps *)
Definition name_pres (f : entry -> entry) := forall e, e_name (f e) = e_name e.

Lemma keys_map : forall f l, name_pres f -> keys (map f l) = keys l.
Proof. unfold keys. intros. rewrite map_map. apply map_ext. auto. Qed.

Lemma keys_upd_id : forall l id f, name_pres f -> keys (upd_id l id f) = keys l.
Proof.
  unfold upd_id, keys. intros. rewrite map_map. apply map_ext. intros.
  destruct (e_id a =? id)%N; auto.
Qed.

Lemma by_id_In : forall l id e, by_id l id = Some e -> In e l /\ e_id e = id.
Proof.
  induction l; simpl; intros; [discriminate|].
  destruct (e_id a =? id)%N eqn:E.
  - inversion H; subst. split; auto. apply N.eqb_eq; auto.
  - apply IHl in H. tauto.
Qed.

(* ------------------------------------------------------------- subsequences *)
Inductive sub {A} : list A -> list A -> Prop :=
| sub_nil : sub [] []
| sub_skip : forall x l' l, sub l' l -> sub l' (x :: l)
| sub_keep : forall x l' l, sub l' l -> sub (x :: l') (x :: l).

Lemma sub_In : forall A (l' l : list A), sub l' l -> forall x, In x l' -> In x l.
Proof. induction 1; simpl; intros; auto. destruct H0; auto. Qed.

Lemma sub_refl : forall A (l : list A), sub l l.
Proof. induction l; [apply sub_nil | apply sub_keep; auto]. Qed.

Lemma sub_nil_l : forall A (l : list A), sub [] l.
Proof. induction l; [apply sub_nil | apply sub_skip; auto]. Qed.

Lemma sub_sorted : forall l' l, sub l' l -> Sorted_names (keys l) -> Sorted_names (keys l').
Proof.
  induction 1; simpl; intros; auto.
  - inversion H0; subst. auto.
  - inversion H0; subst. constructor; [apply IHsub; auto|].
    apply Forall_forall. intros k I. rewrite Forall_forall in H4. apply H4.
    unfold keys in *. apply in_map_iff in I. destruct I as (y & E & I). subst.
    apply in_map. eapply sub_In; eauto.
Qed.

Lemma filter_sub : forall A (f : A -> bool) l, sub (filter f l) l.
Proof. induction l; simpl; [apply sub_nil|]. destruct (f a); [apply sub_keep | apply sub_skip]; auto. Qed.

Lemma remove_metas_sub : forall l dels, sub (remove_metas dels l) l.
Proof.
  induction l; simpl; intros; [apply sub_nil|].
  destruct dels as [|d ds]; [apply sub_refl|].
  destruct (e_id a =? d)%N; [apply sub_skip | apply sub_keep]; auto.
Qed.

(* ------------------------------------------------------------------ lookups *)
Lemma find_nd_none : forall l k, Sorted_names (keys l) -> find_nd l k = None ->
  exists u, find_index (keys l) k = inr u.
Proof.
  unfold find_nd. intros. pose proof (find_index_spec (keys l) k H).
  destruct (find_index (keys l) k) eqn:F; eauto.
  destruct H1. unfold keys in H1. rewrite map_length in H1.
  apply nth_error_None in H0. lia.
Qed.

(* bisection finds every entry of a sorted table *)
Theorem lookup_works : forall l e, Sorted_names (keys l) -> In e l -> find_nd l (e_name e) = Some e.
Proof.
  intros. assert (I : In (e_name e) (keys l)) by (apply in_map; auto).
  destruct (find_complete _ _ H I) as (i & F & N).
  unfold find_nd. rewrite F.
  (* the entry at index i has the name of e; names are unique, so it is e *)
  apply In_nth_error in H0. destruct H0 as (j & Hj).
  assert (nth_error (keys l) j = Some (e_name e)) by (unfold keys; rewrite nth_error_map, Hj; auto).
  assert (i = j).
  { pose proof (sorted_nodup _ H) as ND. rewrite NoDup_nth_error in ND. apply ND; [|congruence].
    apply nth_error_Some. congruence. }
  subst. auto.
Qed.

Lemma keys_insert : forall u e l, keys (insert_at u e l) = insert_at u (e_name e) (keys l).
Proof.
  unfold insert_at, keys. intros. rewrite map_app. simpl. rewrite firstn_map, skipn_map. auto.
Qed.

(* ------------------------------------------------------- alias resolution *)
Lemma set_alias_name : forall d r, name_pres (fun x => set_alias x d r).
Proof. intros d r e. reflexivity. Qed.

Lemma resolve_keys : forall fuel depth l base id, keys (fst (resolve fuel depth l base id)) = keys l.
Proof.
  induction fuel; simpl; intros; auto.
  destruct (by_id l id); auto.
  destruct (find_nd l (alias_tgt e)); simpl; [|apply keys_upd_id, set_alias_name].
  destruct (is_alias e0); simpl; [|apply keys_upd_id, set_alias_name].
  destruct (e_dist e0); simpl; [apply keys_upd_id, set_alias_name|].
  destruct ((e_id e0 =? base)%N || Nat.leb (length l) depth); simpl; [apply keys_upd_id, set_alias_name|].
  specialize (IHfuel (S depth) l base (e_id e0)).
  destruct (resolve fuel (S depth) l base (e_id e0)) as [l' r]. simpl in *.
  rewrite keys_upd_id; auto. apply set_alias_name.
Qed.

Lemma ua_step_keys : forall cur id, keys (ua_step cur id) = keys cur.
Proof.
  intros. unfold ua_step.
  destruct (by_id cur id); auto. destruct (is_alias e && _); auto.
  apply resolve_keys.
Qed.

Lemma ua_fold_keys : forall ids cur, keys (fold_left ua_step ids cur) = keys cur.
Proof.
  induction ids; simpl; intros; auto. rewrite IHids. apply ua_step_keys.
Qed.

Lemma update_aliases_keys : forall reset l, keys (update_aliases reset l) = keys l.
Proof.
  intros. unfold update_aliases.
  set (l0 := if reset then _ else l).
  assert (K0 : keys l0 = keys l).
  { unfold l0. destruct reset; auto. apply keys_map. intro e. destruct (is_alias e); auto. }
  rewrite ua_fold_keys. auto.
Qed.

Arguments update_aliases : simpl never.

Lemma with_aliases_keys : forall s r ok, keys (s_ents (fst (with_aliases s r ok))) = keys (s_ents s).
Proof.
  intros. unfold with_aliases. simpl. apply update_aliases_keys.
Qed.

Lemma sorted_with_aliases : forall s r ok, SortedS s -> SortedS (fst (with_aliases s r ok)).
Proof. unfold SortedS. intros. rewrite with_aliases_keys. auto. Qed.

(* ------------------------------------------------------------------ insert *)
Lemma add_ref_ents : forall s e, s_ents (add_ref s e) = s_ents s.
Proof.
  intros. unfold add_ref. destruct (e_ty e =? T_RAW)%N; auto.
  destruct (nth_error (s_fref s) (N.to_nat (e_frag e))) as [[x|]|]; auto.
  match goal with |- context[set_fref s ?f] => set (s1 := set_fref s f) end.
  destruct (s_ref s1); auto.
Qed.

Lemma inval_of_keys : forall l id, keys (inval_of l id) = keys l.
Proof. intros. apply keys_upd_id. intro; reflexivity. Qed.

Lemma sorted_do_insert : forall s P e,
  SortedS s -> find_nd (s_ents s) (e_name e) = None ->
  SortedS (do_insert s P e).
Proof.
  unfold SortedS, do_insert. intros.
  set (e' := set_par e _).
  assert (N : e_name e' = e_name e) by reflexivity.
  rewrite N.
  destruct (find_nd_none _ _ H H0) as (u & F).
  assert (S1 : Sorted_names (keys (insert_at (ins_point (s_ents s) (e_name e)) e' (s_ents s)))).
  { rewrite keys_insert. rewrite N. unfold ins_point. rewrite F. apply insert_sorted; auto. }
  destruct P; simpl; auto. rewrite keys_upd_id by (intro; reflexivity). auto.
Qed.

Opaque with_aliases do_insert add_ref.

(* ------------------------------------------------------------------ add *)
Ltac brk :=
  repeat match goal with
         | |- context[match ?x with _ => _ end] => destruct x eqn:?; simpl; auto
         | |- context[if ?x then _ else _] => destruct x eqn:?; simpl; auto
         end.

Lemma sorted_go_add : forall s ty hid ins scs v P full sb fr,
  SortedS s -> SortedS (fst (add_go s ty hid ins scs v P full sb fr)).
Proof.
  intros. unfold add_go. destruct (find_nd (s_ents s) full) eqn:F; simpl; auto.
  destruct (negb (valid_name sb)); simpl; auto.
  destruct ((ty =? T_RAW)%N && _); simpl; auto.
  apply sorted_with_aliases. unfold SortedS. rewrite add_ref_ents.
  apply sorted_do_insert; auto.
Qed.

Lemma sorted_add : forall c s viaspec parent praw nm ty frag hid ins scs v,
  SortedS s -> SortedS (fst (op_add c s viaspec parent praw nm ty frag hid ins scs v)).
Proof.
  intros. unfold op_add. destruct viaspec.
  - destruct (negb (ty =? T_CONST)%N || negb (valid_name nm)); simpl; auto.
    destruct parent.
    + destruct (find_nd (s_ents s) n) eqn:FP; simpl; auto.
      destruct (e_meta e || is_alias e); simpl; auto.
      destruct (find_nd (s_ents s) (e_name e ++ SLASH :: nm)) eqn:F; simpl; auto.
      apply sorted_with_aliases. apply sorted_do_insert; auto.
    + destruct (NFRAG <=? frag)%N; simpl; auto.
      destruct (find_nd (s_ents s) nm) eqn:F; simpl; auto.
      apply sorted_with_aliases. apply sorted_do_insert; auto.
  - destruct parent.
    + destruct (find_nd (s_ents s) n) eqn:FP; simpl; auto.
      destruct (e_meta e || is_alias e); simpl; auto.
      try unfold dotted_parent.
      apply sorted_go_add; auto.
    + destruct (NFRAG <=? frag)%N; simpl; auto.
      destruct nm as [|c0 rest]; [apply sorted_go_add; auto|].
      destruct (first_slash rest) as [[pre0 sb]|]; [|apply sorted_go_add; auto].
      destruct (find_nd (s_ents s) (c0 :: pre0)) eqn:FP; [|apply sorted_go_add; auto].
      destruct (is_alias e).
      * destruct (by_oid (s_ents s) (e_dist e)); simpl; auto.
        destruct (e_meta e0); simpl; auto. apply sorted_go_add; auto.
      * destruct (e_meta e); simpl; auto. apply sorted_go_add; auto.
Qed.

Lemma sorted_go_alias : forall s tgt P full sb fr,
  SortedS s -> SortedS (fst (alias_go s tgt P full sb fr)).
Proof.
  intros. unfold alias_go. destruct (negb (valid_name sb)); simpl; auto.
  destruct (find_nd (s_ents s) full) eqn:F; simpl; auto.
  apply sorted_with_aliases. apply sorted_do_insert; auto.
Qed.

Lemma sorted_alias : forall c s parent praw nm tgt frag,
  SortedS s -> SortedS (fst (op_alias c s parent praw nm tgt frag)).
Proof.
  intros. unfold op_alias. destruct (NFRAG <=? frag)%N; simpl; auto.
  destruct parent.
  - destruct (find_nd (s_ents s) n) eqn:FP; simpl; auto.
    destruct (e_meta e || is_alias e); simpl; auto.
    try unfold dotted_parent.
    apply sorted_go_alias; auto.
  - destruct nm as [|c0 rest]; [apply sorted_go_alias; auto|].
    destruct (first_slash rest) as [[pre0 sb]|]; [|apply sorted_go_alias; auto].
    destruct (find_nd (s_ents s) (c0 :: pre0)) eqn:FP; [|apply sorted_go_alias; auto].
    destruct (is_alias e).
    + destruct (by_oid (s_ents s) (e_dist e)); simpl; auto.
      destruct (e_meta e0); simpl; auto. apply sorted_go_alias; auto.
    + destruct (e_meta e); simpl; auto. apply sorted_go_alias; auto.
Qed.

(* ------------------------------------------------------------------ delete *)
Lemma check_all_keys : forall deref dels ids l, keys (fst (check_all l deref ids dels)) = keys l.
Proof.
  induction ids; simpl; intros; auto.
  destruct (by_id l a) eqn:B; auto.
  destruct (check_one l deref e dels) as [j' bad].
  assert (K : keys (upd_id l a (fun x => set_ins x (e_ins j'))) = keys l)
    by (apply keys_upd_id; intro; reflexivity).
  destruct bad; simpl; auto. rewrite IHids. auto.
Qed.

Lemma clear_derived_pres : forall d j, e_name (clear_derived d j) = e_name j.
Proof.
  intros. unfold clear_derived. destruct (is_alias j); auto.
  destruct (e_dist j); auto. destruct (n =? e_id d)%N; auto.
Qed.

Lemma clear_one_pres : forall deref dels j, e_name (clear_one deref dels j) = e_name j.
Proof.
  unfold clear_one. induction dels; simpl; intros; auto.
  rewrite IHdels.
  destruct (is_constlike a && deref); rewrite clear_derived_pres; auto.
Qed.

Arguments check_all : simpl never.
Arguments remove_metas : simpl never.
Arguments clear_one : simpl never.

Lemma sorted_remove_id : forall l id, Sorted_names (keys l) -> Sorted_names (keys (remove_id l id)).
Proof. intros. eapply sub_sorted; [apply filter_sub|auto]. Qed.

Lemma sorted_del : forall c s nm flags, SortedS s -> SortedS (fst (op_del c s nm flags)).
Proof.
  intros. unfold op_del. cbv zeta.
  destruct (find_nd (s_ents s) nm) as [E|]; [|simpl; auto].
  match goal with |- context[if ?b then (s, RInt E_DELETE) else _] => destruct b end; [simpl; auto|].
  match goal with |- context[match ?X with pair _ _ => _ end] => set (chk := X) end.
  assert (K1 : keys (fst chk) = keys (s_ents s)).
  { unfold chk. destruct (N.testbit flags 3); auto. apply check_all_keys. }
  clearbody chk. destruct chk as [l1 refused]. simpl in K1.
  destruct refused; [change (Sorted_names (keys l1)); rewrite K1; auto|].
  destruct (del_refs l1 E (s_ref s) (s_fref s)) as [rf' fr'].
  match goal with |- context[map (clear_one ?dr ?dl) (s_ents ?s2)] => set (S2 := s2); set (l3 := map (clear_one dr dl) (s_ents S2)) end.
  assert (E2 : s_ents S2 = l1) by reflexivity.
  assert (K3 : keys l3 = keys (s_ents s)).
  { unfold l3. rewrite keys_map by (intro; apply clear_one_pres). rewrite E2. auto. }
  assert (FIN : forall l, keys (update_aliases true l) = keys l)
    by (intro l0; apply update_aliases_keys).
  destruct (e_meta E).
  - destruct (by_oid l3 (e_par E)); simpl; auto.
    unfold SortedS. simpl. rewrite FIN. apply sorted_remove_id. rewrite keys_upd_id by (intro; reflexivity).
    rewrite K3. auto.
  - unfold SortedS. simpl. rewrite FIN. apply sorted_remove_id.
    eapply sub_sorted; [apply remove_metas_sub|]. rewrite K3. auto.
Qed.

(* ------------------------------------------------------- move, hide, list *)
Lemma sorted_move : forall s nm frag, SortedS s -> SortedS (fst (op_move s nm frag)).
Proof.
  intros. unfold op_move. destruct (find_nd (s_ents s) nm); simpl; auto.
  destruct (e_ty e =? T_INDEX)%N; simpl; auto. destruct (NFRAG <=? frag)%N; simpl; auto.
  destruct (e_frag e =? frag)%N; simpl; auto.
  unfold SortedS. simpl. rewrite keys_map; auto. intro x. destruct (_ || _); auto.
Qed.

Lemma inval_container_keys : forall s e, keys (s_ents (inval_container s e)) = keys (s_ents s).
Proof.
  intros. unfold inval_container. destruct (e_meta e); auto. destruct (e_par e); auto.
  simpl. apply inval_of_keys.
Qed.

Lemma sorted_hide : forall s nm h, SortedS s -> SortedS (fst (op_hide s nm h)).
Proof.
  intros. unfold op_hide. destruct (find_nd (s_ents s) nm); simpl; auto.
  destruct (eqb (e_hid e) h); simpl; auto.
  unfold SortedS. rewrite inval_container_keys. simpl.
  rewrite keys_upd_id by (intro; reflexivity); auto.
Qed.

Lemma sorted_list : forall s parent sel flags, SortedS s -> SortedS (fst (op_list s parent sel flags)).
Proof.
  intros. unfold op_list. destruct (find_parent (s_ents s) parent) as [par|]; simpl; auto.
  set (fl := match par with Some P => e_fl P | None => s_fl s end).
  assert (G : forall fl', SortedS (match par with
       | Some P => set_ents s (upd_id (s_ents s) (e_id P) (fun e => set_fl e fl'))
       | None => set_topfl s fl' end)).
  { intros. destruct par; unfold SortedS; simpl; auto. rewrite keys_upd_id by (intro; reflexivity). auto. }
  destruct (fl_get fl sel) as [[fg cl]|].
  - destruct (fg =? flags)%N; simpl; auto.
    destruct (compute_list (s_ents s) par sel flags); simpl; auto.
  - destruct (compute_list (s_ents s) par sel flags); simpl; auto.
Qed.

(* ------------------------------------------------------------------ rename *)
(* the table gd_rename sorts: every name that changes, changed *)
Definition renamed_table (s : state) (E : entry) (full : name) (flags : N) : list entry :=
  let rty := if is_alias E then match by_oid (s_ents s) (e_dist E) with Some t => e_ty t | None => e_ty E end else e_ty E in
  map (update_inputs (e_meta E) rty (e_name E) full flags)
      (map (fun e =>
              if (e_id e =? e_id E)%N then set_name e full (s_next s)
              else if existsb (N.eqb (e_id e)) (e_kids E) then
                set_name e (rename_code false (e_name E) full true (e_name e)) (s_next s + 1 + e_id e)
              else e) (s_ents s)).

(* "the new names do not collide" *)
Definition rename_clean (s : state) (nm new : name) (flags : N) : Prop :=
  forall E full, find_nd (s_ents s) nm = Some E ->
    (if e_meta E then match by_oid (s_ents s) (e_par E) with Some P => Some (e_name P ++ SLASH :: new) | None => None end
     else Some new) = Some full ->
    NoDup (keys (renamed_table s E full flags)).

Lemma sorted_ren : forall s nm new flags, SortedS s -> rename_clean s nm new flags ->
  SortedS (fst (op_ren s nm new flags)).
Proof.
  intros s nm new flags HS HC. unfold op_ren.
  destruct (find_nd (s_ents s) nm) as [E|] eqn:FE; simpl; auto.
  destruct (e_ty E =? T_INDEX)%N; simpl; auto.
  destruct (negb (valid_code new)); simpl; auto.
  match goal with |- context[match ?pn with Some full => _ | None => _ end] => destruct pn as [full|] eqn:PN end; simpl; auto.
  match goal with |- context[match ?q with Some Q => _ | None => _ end] => destruct q as [Q|] end; simpl.
  - destruct (e_id Q =? e_id E)%N; simpl; auto.
  - apply sorted_with_aliases.
    specialize (HC E full FE PN).
    assert (KS : Sorted_names (keys (resort e_name (renamed_table s E full flags)))).
    { apply (resort_sorted e_name). exact HC. }
    unfold renamed_table in KS.
    unfold SortedS.
    destruct (e_meta E); simpl;
      try rewrite inval_container_keys; simpl; try rewrite inval_of_keys; simpl; try exact KS.
Qed.

(* -------------------------------------------------------------------- step *)
Definition op_in_scope (s : state) (o : op) : Prop :=
  match o with
  | OAffix _ _ _ => False
  | ORen nm new flags => rename_clean s (undot nm) new flags
  | _ => True
  end.

Lemma sorted_post : forall c r, SortedS (fst r) -> SortedS (fst (post c r)).
Proof.
  intros c r H. unfold post. simpl.
  unfold SortedS, inval_all. simpl. rewrite keys_map; auto. intro e. reflexivity.
Qed.

Theorem sorted_step : forall c s o, SortedS s -> op_in_scope s o -> SortedS (fst (step c s o)).
Proof.
  intros c s o HS HO. destruct o.
  - unfold step. destruct (affixed s); [simpl; auto|]. destruct (has_dot nm); [simpl; auto|]. apply sorted_post. apply sorted_add; auto.
  - unfold step. destruct (affixed s); [simpl; auto|]. destruct (has_dot nm); [simpl; auto|]. apply sorted_post. apply sorted_alias; auto.
  - unfold step. destruct (affixed s); [simpl; auto|]. apply sorted_post. apply sorted_del; auto.
  - unfold step. destruct (affixed s); [simpl; auto|]. destruct (has_dot new); [simpl; auto|]. apply sorted_post. apply sorted_ren; auto.
  - unfold step. destruct (affixed s); [simpl; auto|]. apply sorted_move; auto.
  - unfold step. destruct (affixed s); [simpl; auto|]. apply sorted_hide; auto.
  - simpl in HO. tauto.
  - unfold step. apply sorted_list; auto.
Qed.

(* lifted to operation sequences: the scope condition is checked along the run *)
Fixpoint run_in_scope (c : cfg) (s : state) (ops : list op) : Prop :=
  match ops with
  | [] => True
  | o :: r => op_in_scope s o /\ run_in_scope c (fst (step c s o)) r
  end.

Theorem sorted_run : forall c ops s, SortedS s -> run_in_scope c s ops -> SortedS (run c s ops).
Proof.
  induction ops; simpl; intros; auto. destruct H0.
  apply IHops; auto. apply sorted_step; auto.
Qed.

(* counts agree with freshly computed lists, for every parent / selector / flags *)
Theorem counts_agree_fresh : forall s parent sel flags par,
  find_parent (s_ents s) parent = Some par ->
  nentries s parent sel flags = Some (length (compute_list (s_ents s) par sel flags)).
Proof.
  intros. unfold nentries. rewrite H. unfold compute_list. rewrite map_length. auto.
Qed.
