(* C15 -- cached entry lists are up to date: every valid cached list (D->fl, E->e->fl) equals the list the
   library would compute now, after every operation of the model INCLUDING gd_alter_affixes; consequently
   gd_nentries equals the length of what gd_entry_list returns, cached or not. *)
From Coq Require Import List NArith ZArith Arith Bool Lia Sorting.Sorted Sorting.Permutation.
From GD Require Import C15.Order C15.OrderProofs C15.NameTable C15.NameTableProofs C15.StructProofs C15.StructOps.
Import ListNotations.
Open Scope N_scope.

Definition ccons (l : list entry) (K : option entry) (fl : flist) : Prop :=
  forall i fg cl, In (i, (fg, cl)) fl -> cl = compute_list l K i fg.

Definition CC (s : state) : Prop :=
  ccons (s_ents s) None (s_fl s) /\ forall P, In P (s_ents s) -> ccons (s_ents s) (Some P) (e_fl P).

Lemma ccons_nil : forall l K, ccons l K [].
Proof. intros l K i fg cl H. inversion H. Qed.

Lemma CC_inval_all : forall s, CC (inval_all s).
Proof.
  intro s. split; simpl; [apply ccons_nil|].
  intros P I. apply in_map_iff in I. destruct I as (x & E & _). subst. simpl. apply ccons_nil.
Qed.

(* ---- functions that do not matter for list membership *)
Definition list_irrelevant (f : entry -> entry) : Prop :=
  forall e, e_id (f e) = e_id e /\ e_nid (f e) = e_nid e /\ e_name (f e) = e_name e /\ e_ty (f e) = e_ty e /\
            e_meta (f e) = e_meta e /\ e_kids (f e) = e_kids e /\ e_dist (f e) = e_dist e.

Lemma by_id_map : forall f l k, (forall e, e_id (f e) = e_id e) -> by_id (map f l) k = option_map f (by_id l k).
Proof.
  induction l; simpl; intros; auto. rewrite H. destruct (e_id a =? k); auto.
Qed.

Lemma members_map : forall f l K, list_irrelevant f ->
  members (map f l) (option_map f K) = map f (members l K).
Proof.
  intros f l K F. destruct K as [P|]; [|reflexivity]. simpl.
  destruct (F P) as (_&_&_&_&_&kk&_). rewrite kk.
  generalize (e_kids P). intro ks. induction ks as [|k ks IH]; [reflexivity|].
  simpl. rewrite map_app, <- IH. f_equal.
  rewrite by_id_map by (intro e; apply F). destruct (by_id l k); reflexivity.
Qed.

Lemma list_entry_map : forall f l mo ho na sel m, list_irrelevant f -> e_hid (f m) = e_hid m ->
  list_entry (map f l) mo ho na sel (f m) = list_entry l mo ho na sel m.
Proof.
  intros f l mo ho na sel m F H. unfold list_entry, is_alias.
  destruct (F m) as (a1&a2&a3&a4&a5&a6&a7). rewrite H, a5, a4, a7.
  destruct (negb ho && e_hid m); auto. destruct (negb mo && e_meta m); auto.
  destruct (e_ty m =? T_ALIAS); auto. destruct na; auto. destruct (sel =? S_ALIAS); auto.
  unfold by_oid. destruct (e_dist m) as [d|]; auto.
  rewrite by_id_map by (intro e; apply F). destruct (by_id l d) as [t|]; simpl; auto.
  destruct (F t) as (b1&b2&b3&b4&_). rewrite b4. auto.
Qed.

Lemma filter_map_ext : forall (f : entry -> entry) (p q : entry -> bool) l,
  (forall m, In m l -> p (f m) = q m) -> filter p (map f l) = map f (filter q l).
Proof.
  induction l; simpl; intros; auto. rewrite H by auto. destruct (q a); simpl; rewrite IHl; auto.
Qed.

Lemma compute_list_map : forall f l K sel fg, list_irrelevant f ->
  (forall m, In m (members l K) -> e_hid (f m) = e_hid m) ->
  compute_list (map f l) (option_map f K) sel fg = compute_list l K sel fg.
Proof.
  intros f l K sel fg F H. unfold compute_list, sel_members.
  rewrite members_map by auto.
  assert (MO : match option_map f K with None => false | Some _ => true end = match K with None => false | Some _ => true end)
    by (destruct K; auto). rewrite MO.
  rewrite (filter_map_ext f _ (list_entry l match K with None => false | Some _ => true end (N.testbit fg 0) (N.testbit fg 1) sel)).
  - rewrite map_map. apply map_ext. intro m. destruct (F m) as (a1&a2&a3&_). rewrite a1, a2, a3.
    assert (PO : par_offs (option_map f K) = par_offs K).
    { destruct K as [P|]; simpl; auto. destruct (F P) as (_&_&n3&_). rewrite n3. auto. }
    rewrite PO. auto.
  - intros m I. apply list_entry_map; auto.
Qed.

(* variant: an entry that is a metafield never shows in a top-level list, whatever its hidden flag *)
Lemma list_entry_top_meta : forall l ho na sel m, e_meta m = true -> list_entry l false ho na sel m = false.
Proof.
  intros. unfold list_entry. destruct (negb ho && e_hid m); auto. rewrite H. reflexivity.
Qed.

Lemma compute_list_map' : forall f l K sel fg, list_irrelevant f ->
  (forall m, In m (members l K) -> e_hid (f m) = e_hid m \/ (K = None /\ e_meta m = true)) ->
  compute_list (map f l) (option_map f K) sel fg = compute_list l K sel fg.
Proof.
  intros f l K sel fg F H. unfold compute_list, sel_members.
  rewrite members_map by auto.
  assert (MO : match option_map f K with None => false | Some _ => true end = match K with None => false | Some _ => true end)
    by (destruct K; auto). rewrite MO.
  rewrite (filter_map_ext f _ (list_entry l match K with None => false | Some _ => true end (N.testbit fg 0) (N.testbit fg 1) sel)).
  - rewrite map_map. apply map_ext. intro m. destruct (F m) as (a1&a2&a3&_). rewrite a1, a2, a3.
    assert (PO : par_offs (option_map f K) = par_offs K).
    { destruct K as [P|]; simpl; auto. destruct (F P) as (_&_&n3&_). rewrite n3. auto. }
    rewrite PO. auto.
  - intros m I. destruct (H m I) as [E|(EK & M)]; [apply list_entry_map; auto|].
    subst K. simpl.
    assert (MF : e_meta (f m) = true) by (destruct (F m) as (_&_&_&_&mm&_); congruence).
    rewrite (list_entry_top_meta _ _ _ _ _ MF), (list_entry_top_meta _ _ _ _ _ M). reflexivity.
Qed.

Lemma members_in : forall l P m, In m (members l (Some P)) -> In m l /\ In (e_id m) (e_kids P).
Proof.
  intros l P m I. simpl in I. apply in_flat_map in I. destruct I as (k & Ik & Ib).
  destruct (by_id l k) eqn:B; [|inversion Ib]. destruct Ib as [<-|[]].
  apply by_id_In in B. destruct B. subst. auto.
Qed.

(* a pointwise map keeps the cached lists that it does not touch up to date *)
Lemma CC_map : forall f s tfl',
  list_irrelevant f ->
  (tfl' = [] \/ (tfl' = s_fl s /\ forall m, In m (s_ents s) -> e_hid (f m) = e_hid m \/ e_meta m = true)) ->
  (forall P, In P (s_ents s) -> e_fl (f P) = [] \/
       (e_fl (f P) = e_fl P /\ forall m, In m (members (s_ents s) (Some P)) -> e_hid (f m) = e_hid m)) ->
  CC s -> ccons (map f (s_ents s)) None tfl' /\
          forall P', In P' (map f (s_ents s)) -> ccons (map f (s_ents s)) (Some P') (e_fl P').
Proof.
  intros f s tfl' F HT HP (CT & CP). split.
  - destruct HT as [->|(-> & HH)]; [apply ccons_nil|].
    intros i fg cl I. rewrite (CT i fg cl I).
    symmetry. apply (compute_list_map' f (s_ents s) None i fg F). simpl.
    intros m Im. destruct (HH m Im); auto.
  - intros P' I. apply in_map_iff in I. destruct I as (P & <- & IP).
    destruct (HP P IP) as [->|(-> & HH)]; [apply ccons_nil|].
    intros i fg cl I. rewrite (CP P IP i fg cl I).
    symmetry. apply (compute_list_map' f (s_ents s) (Some P) i fg F). intros m Im. left. auto.
Qed.

(* ------------------------------------------------------------------ move *)
Lemma CC_move : forall s nm frag, CC s -> CC (fst (op_move s nm frag)).
Proof.
  intros s nm frag H. unfold op_move. destruct (find_nd (s_ents s) nm) as [E|]; simpl; auto.
  destruct (e_ty E =? T_INDEX); simpl; auto. destruct (NFRAG <=? frag); simpl; auto.
  destruct (e_frag E =? frag); simpl; auto.
  set (f := fun e : entry => if (e_id e =? e_id E) || existsb (N.eqb (e_id e)) (e_kids E) then set_frag e frag else e).
  assert (F : list_irrelevant f).
  { intro e. unfold f. destruct ((e_id e =? e_id E) || existsb (N.eqb (e_id e)) (e_kids E)); simpl; repeat split. }
  assert (HH : forall m, e_hid (f m) = e_hid m).
  { intro m. unfold f. destruct ((e_id m =? e_id E) || existsb (N.eqb (e_id m)) (e_kids E)); auto. }
  unfold CC. simpl. apply (CC_map f s (s_fl s) F); auto.
  intros P IP. right. split; auto. unfold f. destruct ((e_id P =? e_id E) || existsb (N.eqb (e_id P)) (e_kids E)); auto.
Qed.

(* ------------------------------------------------------------------ hide *)
Lemma CC_hide : forall s nm h, InvAll s -> CC s -> CC (fst (op_hide s nm h)).
Proof.
  intros s nm h (SS & IV) H. unfold op_hide.
  destruct (find_nd (s_ents s) nm) as [E|] eqn:FE; simpl; auto.
  destruct (eqb (e_hid E) h); simpl; auto.
  assert (IE : In E (s_ents s)) by (eapply find_nd_In; eauto).
  assert (ND := I_nodup _ _ _ _ _ IV).
  set (hh := fun e : entry => if e_id e =? e_id E then set_hid e h else e).
  assert (HHid : forall m, e_id m <> e_id E -> e_hid (hh m) = e_hid m).
  { intros m N. unfold hh. apply N.eqb_neq in N. rewrite N. auto. }
  assert (ISE : forall m, In m (s_ents s) -> e_id m = e_id E -> m = E) by (intros; eapply uniq_id; eauto).
  (* members of a parent's list other than E keep their flag; E is a member only of its own parent's list *)
  assert (MEM : forall P m, In P (s_ents s) -> In m (members (s_ents s) (Some P)) ->
                e_hid (hh m) = e_hid m \/ (e_meta E = true /\ e_par E = Some (e_id P))).
  { intros P m IP Im. apply members_in in Im. destruct Im as (Iml & K).
    destruct (N.eq_dec (e_id m) (e_id E)) as [Q|Q]; [|left; auto].
    right. assert (m = E) by auto. subst m. apply (kid_is _ _ _ _ _ P E IV IP IE K). }
  assert (TOP : forall m, In m (s_ents s) -> e_meta E = true -> e_hid (hh m) = e_hid m \/ e_meta m = true).
  { intros m Im ME. destruct (N.eq_dec (e_id m) (e_id E)) as [Q|Q]; [|left; auto].
    right. assert (m = E) by auto. subst. auto. }
  unfold inval_container. simpl. rewrite upd_id_map. fold hh.
  destruct (e_meta E) eqn:ME.
  - destruct (e_par E) as [p|] eqn:PE.
    + unfold CC. simpl. unfold inval_of. rewrite upd_id_map, map_map.
      set (f := fun e => (fun x : entry => if e_id x =? p then set_fl x [] else x) (hh e)).
      assert (F : list_irrelevant f).
      { intro e. unfold f, hh. destruct (e_id e =? e_id E); simpl; destruct (e_id e =? p); repeat split. }
      assert (FH : forall m, e_hid (f m) = e_hid (hh m)).
      { intro m. unfold f. destruct (e_id (hh m) =? p); auto. }
      apply (CC_map f s (s_fl s) F); auto.
      * right. split; auto. intros m Im. rewrite FH. auto.
      * intros P IP. destruct (e_id P =? p) eqn:QP.
        -- left. unfold f. assert (e_id (hh P) = e_id P) by (unfold hh; destruct (e_id P =? e_id E); auto).
           rewrite H0, QP. auto.
        -- right. split.
           ++ unfold f. assert (e_id (hh P) = e_id P) by (unfold hh; destruct (e_id P =? e_id E); auto).
              rewrite H0, QP. unfold hh. destruct (e_id P =? e_id E); auto.
           ++ intros m Im. rewrite FH. destruct (MEM P m IP Im) as [X|(_ & X)]; auto.
              inversion X. subst. rewrite N.eqb_refl in QP. discriminate.
    + unfold CC. simpl.
      assert (F : list_irrelevant hh) by (intro e; unfold hh; destruct (e_id e =? e_id E); repeat split).
      apply (CC_map hh s (s_fl s) F); auto.
      intros P IP. right. split; [unfold hh; destruct (e_id P =? e_id E); auto|].
      intros m Im. destruct (MEM P m IP Im) as [X|(_ & X)]; auto. discriminate.
  - unfold CC. simpl.
    assert (F : list_irrelevant hh) by (intro e; unfold hh; destruct (e_id e =? e_id E); repeat split).
    apply (CC_map hh s [] F); auto.
    intros P IP. right. split; [unfold hh; destruct (e_id P =? e_id E); auto|].
    intros m Im. destruct (MEM P m IP Im) as [X|(X & _)]; auto. discriminate.
Qed.

(* --------------------------------------------------------------- entry list *)
Lemma find_parent_In : forall l parent P, find_parent l parent = Some (Some P) -> In P l.
Proof.
  intros l parent P FP. unfold find_parent in FP. destruct parent as [n|]; [|inversion FP].
  destruct (find_da l n) eqn:FD; [|discriminate]. destruct (e_meta e); inversion FP; subst.
  unfold find_da in FD. destruct (find_nd l n) eqn:F1.
  - unfold dealias in FD. destruct (is_alias e); [apply by_oid_In in FD; tauto|].
    inversion FD; subst. eapply find_nd_In; eauto.
  - destruct (first_slash n) as [[pre post]|]; [|discriminate].
    destruct (find_nd l pre); [|discriminate]. destruct (is_alias e); [|discriminate].
    destruct (by_oid l (e_dist e)); [|discriminate].
    destruct (find_nd l (e_name e0 ++ SLASH :: post)) eqn:F2; [|discriminate].
    unfold dealias in FD. destruct (is_alias e1); [apply by_oid_In in FD; tauto|].
    inversion FD; subst. eapply find_nd_In; eauto.
Qed.

Lemma CC_store : forall s par sel flags, InvAll s -> CC s ->
  match par with None => True | Some P => In P (s_ents s) end ->
  CC match par with
     | Some P => set_ents s (upd_id (s_ents s) (e_id P)
                   (fun e => set_fl e (fl_set (e_fl P) sel (flags, compute_list (s_ents s) par sel flags))))
     | None => set_topfl s (fl_set (s_fl s) sel (flags, compute_list (s_ents s) par sel flags))
     end.
Proof.
  intros s par sel flags (SS & IV) (CT & CP) HP. destruct par as [P|].
  - unfold CC. simpl. rewrite upd_id_map.
    set (fl' := fl_set (e_fl P) sel (flags, compute_list (s_ents s) (Some P) sel flags)).
    set (f := fun e : entry => if e_id e =? e_id P then set_fl e fl' else e).
    assert (F : list_irrelevant f) by (intro e; unfold f; destruct (e_id e =? e_id P); repeat split).
    assert (HH : forall m, e_hid (f m) = e_hid m) by (intro m; unfold f; destruct (e_id m =? e_id P); auto).
    assert (CM : forall K i fg, compute_list (map f (s_ents s)) (option_map f K) i fg = compute_list (s_ents s) K i fg).
    { intros. apply compute_list_map'; auto. }
    split.
    + intros i fg cl I. rewrite (CT i fg cl I). symmetry. apply (CM None).
    + intros P' I. apply in_map_iff in I. destruct I as (P0 & <- & IP0).
      destruct (e_id P0 =? e_id P) eqn:Q.
      * apply N.eqb_eq in Q. assert (P0 = P) by (eapply uniq_id; eauto using I_nodup). subst P0.
        assert (FL : e_fl (f P) = fl') by (unfold f; rewrite N.eqb_refl; auto). rewrite FL.
        intros i fg cl I. unfold fl' in I. apply fl_set_in in I. destruct I as [I|I].
        -- inversion I; subst. symmetry. apply (CM (Some P)).
        -- rewrite (CP P HP i fg cl I). symmetry. apply (CM (Some P)).
      * assert (FP0 : f P0 = P0) by (unfold f; rewrite Q; auto).
        intros i fg cl I. rewrite FP0 in I. rewrite (CP P0 IP0 i fg cl I). symmetry.
        pose proof (CM (Some P0) i fg) as X. simpl in X. exact X.
  - unfold CC. simpl. split; auto.
    intros i fg cl I. apply fl_set_in in I. destruct I as [I|I]; [inversion I; subst; auto|].
    apply (CT i fg cl I).
Qed.

Lemma CC_list : forall s parent sel flags, InvAll s -> CC s -> CC (fst (op_list s parent sel flags)).
Proof.
  intros s parent sel flags IA H. unfold op_list.
  destruct (find_parent (s_ents s) parent) as [par|] eqn:FP; simpl; auto.
  assert (HP : match par with None => True | Some P => In P (s_ents s) end).
  { destruct par as [P|]; auto. eapply find_parent_In; eauto. }
  pose proof (CC_store s par sel flags IA H HP) as ST.
  set (fl := match par with Some P => e_fl P | None => s_fl s end) in *.
  assert (FLE : forall v, match par with
       | Some P => set_ents s (upd_id (s_ents s) (e_id P) (fun e => set_fl e (fl_set fl sel v)))
       | None => set_topfl s (fl_set fl sel v) end =
       match par with
       | Some P => set_ents s (upd_id (s_ents s) (e_id P) (fun e => set_fl e (fl_set (e_fl P) sel v)))
       | None => set_topfl s (fl_set (s_fl s) sel v) end) by (intro v; destruct par; reflexivity).
  destruct (fl_get fl sel) as [[fg cl]|].
  - destruct (fg =? flags); simpl; auto.
    destruct (compute_list (s_ents s) par sel flags) eqn:CL; simpl; auto. rewrite FLE. exact ST.
  - destruct (compute_list (s_ents s) par sel flags) eqn:CL; simpl; auto. rewrite FLE. exact ST.
Qed.

(* -------------------------------------------------------------------- step *)
Lemma CC_post : forall c r, CC (fst (post c r)).
Proof. intros. unfold post. simpl. apply CC_inval_all. Qed.

Lemma CC_affix : forall s frag px sx, CC s -> CC (fst (op_affix s frag px sx)).
Proof.
  intros. unfold op_affix.
  destruct ((frag =? 0) || (NFRAG <=? frag)); simpl; auto.
  destruct (s_aff s) as [op_raw os_raw].
  repeat match goal with
         | |- CC (fst (if ?b then _ else _)) => destruct b; simpl; auto
         end.
  apply CC_inval_all.
Qed.

Lemma CC_init : CC init_state.
Proof.
  split; simpl; [apply ccons_nil|]. intros P [<-|[]]. apply ccons_nil.
Qed.

(* every operation of the model, gd_alter_affixes and colliding renames included *)
Theorem CC_step : forall c s o, InvAll s -> CC s -> CC (fst (step c s o)).
Proof.
  intros c s o IA H. destruct o.
  - unfold step. destruct (affixed s); [simpl; auto|]. destruct (has_dot nm); [simpl; auto|]. apply CC_post.
  - unfold step. destruct (affixed s); [simpl; auto|]. destruct (has_dot nm); [simpl; auto|]. apply CC_post.
  - unfold step. destruct (affixed s); [simpl; auto|]. apply CC_post.
  - unfold step. destruct (affixed s); [simpl; auto|]. destruct (has_dot new); [simpl; auto|]. apply CC_post.
  - unfold step. destruct (affixed s); [simpl; auto|]. apply CC_move; auto.
  - unfold step. destruct (affixed s); [simpl; auto|]. apply CC_hide; auto.
  - unfold step. apply CC_affix; auto.
  - unfold step. apply CC_list; auto.
Qed.

Theorem CC_run : forall c ops s, InvAll s -> CC s -> run_in_scope c s ops -> InvAll (run c s ops) /\ CC (run c s ops).
Proof.
  induction ops; simpl; intros; auto. destruct H1.
  apply IHops; auto. apply Inv_step; auto. apply CC_step; auto.
Qed.

(* what gd_entry_list returns -- from the cache or freshly computed -- has as many names as gd_nentries counts *)
Theorem entry_list_length_is_nentries : forall s parent sel flags names,
  InvAll s -> CC s ->
  snd (op_list s parent sel flags) = RList names ->
  nentries s parent sel flags = Some (length names).
Proof.
  intros s parent sel flags names IA (CT & CP) R. unfold op_list in R. unfold nentries.
  destruct (find_parent (s_ents s) parent) as [par|] eqn:FP; [|simpl in R; discriminate].
  assert (HP : match par with None => True | Some P => In P (s_ents s) end).
  { destruct par as [P|]; auto. eapply find_parent_In; eauto. }
  assert (LEN : length (compute_list (s_ents s) par sel flags) = length (sel_members (s_ents s) par sel flags))
    by (unfold compute_list; apply map_length).
  set (fl := match par with Some P => e_fl P | None => s_fl s end) in *.
  assert (CF : forall fg cl, fl_get fl sel = Some (fg, cl) -> cl = compute_list (s_ents s) par sel fg).
  { intros fg cl G.
    assert (I : In (sel, (fg, cl)) fl).
    { clear -G. induction fl as [|[j v] r IH]; simpl in *; [discriminate|].
      destruct (j =? sel) eqn:Q; [apply N.eqb_eq in Q; inversion G; subst; auto|right; auto]. }
    destruct par as [P|]; [apply (CP P HP _ _ _ I) | apply (CT _ _ _ I)]. }
  destruct (fl_get fl sel) as [[fg cl]|] eqn:G.
  - destruct (fg =? flags) eqn:Q.
    + apply N.eqb_eq in Q. subst fg. simpl in R. inversion R. unfold show_list. rewrite map_length.
      rewrite (CF flags cl eq_refl). rewrite LEN. auto.
    + destruct (compute_list (s_ents s) par sel flags) eqn:CL; simpl in R; inversion R; subst names;
        simpl; unfold show_list; rewrite ?map_length; simpl in LEN; rewrite <- LEN; reflexivity.
  - destruct (compute_list (s_ents s) par sel flags) eqn:CL; simpl in R; inversion R; subst names;
      simpl; unfold show_list; rewrite ?map_length; simpl in LEN; rewrite <- LEN; reflexivity.
Qed.

(* the executable check of the model follows *)
Lemma celem_list_eqb_refl : forall a, celem_list_eqb a a = true.
Proof.
  induction a as [|[[i n] t] r IH]; simpl; auto.
  rewrite !N.eqb_refl, IH. simpl. rewrite andb_true_r. apply name_eqb_eq. reflexivity.
Qed.

Lemma ccons_bool : forall l K fl, ccons l K fl -> cache_consistent_fl l K fl = true.
Proof.
  intros l K fl C. unfold cache_consistent_fl. apply forallb_forall. intros [i [fg cl]] I. simpl.
  rewrite (C i fg cl I). apply celem_list_eqb_refl.
Qed.

Theorem CC_cache_consistent : forall s, CC s -> cache_consistent s = true.
Proof.
  intros s (CT & CP). unfold cache_consistent. apply andb_true_iff. split.
  - apply ccons_bool; auto.
  - apply forallb_forall. intros P IP. apply ccons_bool; auto.
Qed.
