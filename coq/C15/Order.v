(* C15 -- the (length, bytes) order of _GD_EntryCmp / _GD_strlencmp
   (src/common.c:64-91) and the bisection of _GD_FindField (common.c:231-252).
   Definitions only; proofs are in OrderProofs.v. *)
From Coq Require Import List NArith Arith Bool.
Import ListNotations.

Definition name := list N.

(* memcmp on two byte strings of equal length *)
Fixpoint bytes_cmp (a b : name) : comparison :=
  match a, b with
  | [], [] => Eq
  | [], _ :: _ => Lt
  | _ :: _, [] => Gt
  | x :: a', y :: b' =>
      match N.compare x y with
      | Eq => bytes_cmp a' b'
      | c => c
      end
  end.

(* _GD_strlencmp: shorter first, then memcmp *)
Definition name_cmp (a b : name) : comparison :=
  match Nat.compare (length a) (length b) with
  | Eq => bytes_cmp a b
  | c => c
  end.

Definition name_eqb (a b : name) : bool :=
  match name_cmp a b with Eq => true | _ => false end.

Definition name_lt (a b : name) : Prop := name_cmp a b = Lt.

(* strictly increasing list of keys *)
Fixpoint sortedb (l : list name) : bool :=
  match l with
  | [] => true
  | x :: r =>
      match r with
      | [] => true
      | y :: _ => match name_cmp x y with Lt => sortedb r | _ => false end
      end
  end.

(* The loop of _GD_FindField on an array of names.
     while (l < u) { i = (l+u)/2; c = cmp(key, list[i]);
                     if (c < 0) u = i; else if (c > 0) l = i+1; else return i; }
     *index = u; return NULL;
   Result: inl i = found at i; inr u = not found, insertion point u. *)
Fixpoint bisect (fuel : nat) (keys : list name) (k : name) (l u : nat) : nat + nat :=
  match fuel with
  | O => inr u
  | S f =>
      if Nat.ltb l u then
        let i := Nat.div2 (l + u) in
        match name_cmp k (nth i keys []) with
        | Lt => bisect f keys k l i
        | Gt => bisect f keys k (S i) u
        | Eq => inl i
        end
      else inr u
  end.

Definition find_index (keys : list name) (k : name) : nat + nat :=
  bisect (S (length keys)) keys k 0 (length keys).

(* reference semantics: linear scan of a sorted list *)
Fixpoint lin_find (keys : list name) (k : name) (i : nat) : nat + nat :=
  match keys with
  | [] => inr i
  | x :: r =>
      match name_cmp k x with
      | Eq => inl i
      | Lt => inr i
      | Gt => lin_find r k (S i)
      end
  end.

(* _GD_InsertSort(D, E, u): memmove + store at u *)
Definition insert_at {A} (u : nat) (x : A) (l : list A) : list A :=
  firstn u l ++ x :: skipn u l.

(* qsort with _GD_EntryCmp, modelled as insertion sort on the key *)
Fixpoint ins_sorted {A} (key : A -> name) (x : A) (l : list A) : list A :=
  match l with
  | [] => [x]
  | y :: r =>
      match name_cmp (key x) (key y) with
      | Gt => y :: ins_sorted key x r
      | _ => x :: l
      end
  end.

Definition resort {A} (key : A -> name) (l : list A) : list A :=
  fold_right (ins_sorted key) [] l.
