(* C01/C16: concrete witnesses (evaluated with the executable algebra XAlg) of
   the regions where the unchanged code leaves the specification.  Each is
   also replayed on the real library by checks/C01.py / checks/C16.py. *)
From Coq Require Import ZArith List Bool Lia.
From GD Require Import C06.Convert C01.Field C01.Read C01.Inst C16.Limits.
Import ListNotations.
Local Open Scope Z_scope.

(* doubles 1..8 and 10,20,30,40 as binary64 bit patterns *)
Definition d1_8 : list Z :=
  [4607182418800017408; 4611686018427387904; 4613937818241073152; 4616189618054758400;
   4617315517961601024; 4618441417868443648; 4619567317775286272; 4620693217682128896].
Definition d10_40 : list Z :=
  [4621819117588971520; 4626322717216342016; 4629137466983448576; 4630826316843712512].
Definition d1_20 : list Z :=
  d1_8 ++ [4621256167635550208; 4621819117588971520; 4622382067542392832; 4622945017495814144;
   4623507967449235456; 4624070917402656768; 4624633867356078080; 4625196817309499392;
   4625478292286210048; 4625759767262920704; 4626041242239631360; 4626322717216342016].
Definition one := 4607182418800017408.

Definition mkraw ty spf0 fo data : rawinfo := {| r_ty := ty; r_spf := spf0; r_fo := fo; r_data := data |}.

(* a RAW FLOAT64 2 = 1..8 ; b RAW FLOAT64 1 = 10,20,30,40 *)
Definition db_ab : database := fun id => if N.eqb id 0 then mkraw F64 2 0 d1_8 else mkraw F64 1 0 d10_40.
(* a RAW FLOAT64 1 = 1..20 ; b RAW FLOAT64 1 = 1,1,1 *)
Definition db_short : database := fun id => if N.eqb id 0 then mkraw F64 1 0 d1_20 else mkraw F64 1 0 [one; one; one].
(* a RAW FLOAT64 3 = 1..20 ; b RAW FLOAT64 2 = one sample *)
Definition db_32 : database := fun id => if N.eqb id 0 then mkraw F64 3 0 d1_20 else mkraw F64 2 0 [one].
(* a RAW INT16 2, frame offset 2 *)
Definition db_fo : database := fun _ => mkraw I16 2 2 [1; 2; 3; 4; 5; 6].
(* a RAW FLOAT64 1 = 1..4 *)
Definition db_a4 : database := fun _ => mkraw F64 1 0 [4607182418800017408; 4611686018427387904; 4613937818241073152; 4616189618054758400].

(* the source before any of the proposed repairs, and with all of them *)
Definition v0 : variant := {| v_align := false; v_rawpad := false; v_alloc0 := false; v_clamp := false; v_bofceil := false |}.
Definition v1 : variant := {| v_align := true; v_rawpad := true; v_alloc0 := true; v_clamp := true; v_bofceil := true |}.

(* the frozen tree: C01-1/2/4, C16-1/3/4 applied; C01-3 (padding by return type) and C16-2 (rounding up) not *)
Definition vc : variant := {| v_align := true; v_rawpad := false; v_alloc0 := true; v_clamp := true; v_bofceil := false |}.

(* r1 RAW INT16 2, r2 RAW INT64 7, frame offset 2; f3 PHASE r2 -1; m MULTIPLY r1 f3 *)
Definition db_bof : database := fun id =>
  if N.eqb id 0 then mkraw I16 2 2 [1; 2; 3; 4; 5; 6; 7; 8; 9; 10; 11; 12]
  else mkraw I64 7 2 [1; 2; 3; 4; 5; 6; 7; 8; 9; 10; 11; 12; 13; 14; 15; 16; 17; 18; 19; 20; 21].
Definition m_bof := Bin BMultiply (Raw 0) (Phase (Raw 1) (-1)).
(* a RAW FLOAT64 1 = 1..20; i RAW INT32 1 = 0,1,0,1,..; p PHASE i 6; x MPLEX a p 2 0 *)
Definition db_mx : database := fun id =>
  if N.eqb id 0 then mkraw F64 1 0 d1_20 else mkraw I32 1 0 [0; 1; 0; 1; 0; 1; 0; 1; 0; 1; 0; 1; 0; 1; 0; 1; 0; 1; 0; 1].
Definition x_mx := Mplex (Raw 0) (Phase (Raw 1) 6) 2 0.

Definition a := Raw 0.
Definition b := Raw 1.
Definition m_ab := Bin BMultiply a b.                 (* m MULTIPLY a b *)
Definition l_ab := Bin (BLincom one 0 one 0) a b.     (* l LINCOM 2 a 1 0 b 1 0 *)
Definition p_m5 := Phase a (-5).                      (* p PHASE a -5 *)
Definition q_nested := Phase (Phase a 10) (-8).       (* p PHASE a 10 ; q PHASE p -8 *)
