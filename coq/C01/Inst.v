(* C01: the executable value algebra -- C arithmetic as src/getdata.c and
   src/common.c perform it for the real return types.

   A value is the bit pattern of an element of the return type (XV) or XU:
   "undefined" -- the result of a C conversion with undefined behaviour
   (float -> integer out of range / NaN, signed overflow in POLYNOM powers) or
   memory the code never wrote.  XU is absorbing; the correspondence treats
   it as a wild card and the check counts how often it occurs.

   Arithmetic: IEEE-754 binary64 via Flocq (round to nearest even), C
   conversions via GD.C06.Convert (ccast/load/store).  Scalar parameters are
   binary64 bit patterns.  Supported return types for arithmetic kernels:
   all eight integer types and FLOAT64 (FLOAT32 arithmetic is not modelled:
   XU). *)
From Coq Require Import ZArith List Bool Lia.
From Flocq Require Import Core.Zaux IEEE754.BinarySingleNaN IEEE754.Binary IEEE754.Bits.
From GD Require Import C06.Convert C01.Field.
Import ListNotations.
Local Open Scope Z_scope.

Inductive xval := XV (b : Z) | XU.

Definition xval_eqb (a b : xval) : bool :=
  match a, b with XV x, XV y => x =? y | XU, XU => true | _, _ => false end.

Definition nanf (_ _ : f64) := nan64.
Definition fmul (x y : f64) : f64 := Binary.Bmult 53 1024 (eq_refl _) (eq_refl _) nanf mode_NE x y.
Definition fadd (x y : f64) : f64 := Binary.Bplus 53 1024 (eq_refl _) (eq_refl _) nanf mode_NE x y.
Definition fdiv (x y : f64) : f64 := Binary.Bdiv 53 1024 (eq_refl _) (eq_refl _) nanf mode_NE x y.
Definition fsub (x y : f64) : f64 := Binary.Bminus 53 1024 (eq_refl _) (eq_refl _) nanf mode_NE x y.
Definition fcmp (x y : f64) : option comparison := Binary.Bcompare 53 1024 x y.
Definition dbl (b : Z) : f64 := b64_of_bits (b mod 2 ^ 64).

Definition to_d (rt : ctype) (b : Z) : option f64 :=
  match rt with
  | F32 => None
  | _ => match ccast F64 (load rt b) with Some (VF64 d) => Some d | _ => None end
  end.
Definition of_d (rt : ctype) (d : f64) : xval :=
  match rt with
  | F32 => XU
  | _ => match ccast rt (VF64 d) with Some v => XV (store rt v) | None => XU end
  end.
Definition of_opt (o : option Z) : xval := match o with Some b => XV b | None => XU end.

Definition lift1 (rt : ctype) (fn : f64 -> f64) (x : xval) : xval :=
  match x with
  | XV b => match to_d rt b with Some d => of_d rt (fn d) | None => XU end
  | XU => XU
  end.
(* x of type rt, y a double *)
Definition lift2 (rt : ctype) (fn : f64 -> f64 -> f64) (x y : xval) : xval :=
  match x, y with
  | XV a, XV b => match to_d rt a with Some d => of_d rt (fn d (dbl b)) | None => XU end
  | _, _ => XU
  end.
Definition lift3 (rt : ctype) (fn : f64 -> f64 -> f64 -> f64) (x y z : xval) : xval :=
  match x, y, z with
  | XV a, XV b, XV c => match to_d rt a with Some d => of_d rt (fn d (dbl b) (dbl c)) | None => XU end
  | _, _, _ => XU
  end.

Definition x_pad (rt : ctype) : xval :=
  match rt with
  | F32 => XV (bits_of_b32 (proj1_sig nan32))
  | F64 => XV (bits_of_b64 (proj1_sig nan64))
  | _ => XV 0
  end.
Definition pad_bits (ty : ctype) : Z := match x_pad ty with XV b => b | XU => 0 end.
Definition x_dec (rt ty : ctype) (b : Z) : xval := of_opt (conv_elem rt rt ty b).
Definition x_raw_pad (rt ty : ctype) : xval := x_dec rt ty (pad_bits ty).
(* _GD_FillFileFrame: (t)(i + s0), size_t + off64_t = unsigned 64-bit *)
Definition x_index (rt : ctype) (k : Z) : xval := x_dec rt U64 (k mod 2 ^ 64).

(* ---- POLYNOM: powers are formed in the type of the data ------------------ *)
Definition promoted (rt : ctype) : ctype :=
  match rt with I8 | U8 | I16 | U16 | I32 => I32 | t => t end.
(* x * y in integer type t (already promoted): None = signed overflow *)
Definition imul (t : ctype) (x y : Z) : option Z :=
  if csigned t then (if in_range t (x * y) then Some (x * y) else None)
  else Some (wrap t (x * y)).
Fixpoint ipow (t : ctype) (x acc : Z) (k : nat) : option Z :=
  match k with O => Some acc | S k' => match imul t acc x with Some a => ipow t x a k' | None => None end end.
Fixpoint fpow (x acc : f64) (k : nat) : f64 :=
  match k with O => acc | S k' => fpow x (fmul acc x) k' end.
(* data^k (k >= 1) as a double, as the macro computes it *)
Definition pow_d (rt : ctype) (b : Z) (k : nat) : option f64 :=
  match rt with
  | F32 => None
  | F64 => Some (fpow (dbl b) (dbl b) (pred k))
  | _ => match load rt b with
         | VI z => match ipow (promoted rt) z z (pred k) with
                   | Some p => Some (z_to_f64 p)
                   | None => None
                   end
         | _ => None
         end
  end.
(* sum_{k=n..1} data^k * a[k]  + a[0], highest order first, left to right *)
Fixpoint poly_terms (rt : ctype) (b : Z) (a : list Z) (k : nat) : option (list f64) :=
  (* a = [a_k; a_{k+1}; ...] ; returns terms for k, k+1, ... *)
  match a with
  | [] => Some []
  | ak :: a' =>
      match pow_d rt b k, poly_terms rt b a' (S k) with
      | Some p, Some ts => Some (fmul p (dbl ak) :: ts)
      | _, _ => None
      end
  end.
Definition x_poly (rt : ctype) (a : list Z) (x : xval) : xval :=
  match x, a with
  | XV b, a0 :: a1 :: arest =>
      match poly_terms rt b (a1 :: arest) 1 with
      | Some ts =>
          match rev ts with
          | t :: more => of_d rt (fadd (fold_left fadd more t) (dbl a0))
          | [] => XU
          end
      | None => XU
      end
  | _, _ => XU
  end.

(* ---- BIT / SBIT ---------------------------------------------------------- *)
Definition two64 := 2 ^ 64.
Definition x_bit (rt : ctype) (sgn : bool) (bitnum numbits : Z) (x : xval) : xval :=
  match x with
  | XV b =>
      let w := b mod two64 in
      let mask := if numbits =? 64 then two64 - 1 else 2 ^ numbits - 1 in
      let v := Z.land (Z.shiftr w bitnum) mask in
      if sgn then
        let sign := (Z.shiftl (two64 - 1) (numbits - 1)) mod two64 in
        let r := Z.lxor ((v + sign) mod two64) sign in
        x_dec rt I64 r
      else x_dec rt U64 v
  | XU => XU
  end.

(* ---- LINTERP (strictly increasing x): row j = largest j <= n-2 with x_j <= x, else 0 *)
Fixpoint lut_index (tab : list (Z * Z)) (x : f64) (j : nat) (best : nat) : nat :=
  match tab with
  | (xj, _) :: ((_ :: _) as rest) =>
      let best' := match fcmp (dbl xj) x with Some Lt | Some Eq => j | _ => best end in
      lut_index rest x (S j) best'
  | _ => best
  end.
Definition x_linterp (rt : ctype) (tab : list (Z * Z)) (x : xval) : xval :=
  match x with
  | XV b =>
      let xd := dbl b in
      let j := lut_index tab xd 0 0 in
      match nth_error tab j, nth_error tab (S j) with
      | Some (x0, y0), Some (x1, y1) =>
          of_d rt (fadd (dbl y0) (fmul (fdiv (fsub (dbl y1) (dbl y0)) (fsub (dbl x1) (dbl x0))) (fsub xd (dbl x0))))
      | _, _ => XU
      end
  | XU => XU
  end.

(* ---- INDIR --------------------------------------------------------------- *)
Definition x_indir (rt cty : ctype) (arr : list Z) (x : xval) : xval :=
  match x with
  | XV b =>
      let i := wrap I64 b in
      if (i <? 0) || (zlen arr <=? i) then x_dec rt cty 0   (* _GD_IndirData passes the size where _GD_FillZero expects the type: always zero bytes *)
      else x_dec rt cty (nthZ arr i 0)
  | XU => XU
  end.

Definition is_one (m : Z) : bool := m mod two64 =? 4607182418800017408.          (* 1.0 *)
Definition is_zero (b : Z) : bool := (b mod two64 =? 0) || (b mod two64 =? 2 ^ 63). (* +-0.0 *)

Definition x_ukern (o : uop) (rt : ctype) (x : xval) : xval :=
  match o with
  | ULincom m b =>
      if is_one m && is_zero b then x      (* the "LINCOM foo 1 0" shortcut *)
      else lift1 rt (fun d => fadd (fmul d (dbl m)) (dbl b)) x
  | ULinterp tab => x_linterp rt tab x
  | UBit sgn bitnum numbits => x_bit rt sgn bitnum numbits x
  | URecip d => lift1 rt (fun v => fdiv (dbl d) v) x
  | UPolynom a => x_poly rt a x
  | UIndir cty arr => x_indir rt cty arr x
  end.

Definition win_test (op : windop) (thr : Z) (y : Z) : bool :=
  match op with
  | WEq => wrap I64 y =? thr
  | WNe => negb (wrap I64 y =? thr)
  | WGe => match fcmp (dbl y) (dbl thr) with Some Gt | Some Eq => true | _ => false end
  | WGt => match fcmp (dbl y) (dbl thr) with Some Gt => true | _ => false end
  | WLe => match fcmp (dbl y) (dbl thr) with Some Lt | Some Eq => true | _ => false end
  | WLt => match fcmp (dbl y) (dbl thr) with Some Lt => true | _ => false end
  | WSet => negb (Z.land (y mod two64) (thr mod two64) =? 0)
  | WClr => negb (Z.land (Z.lxor (y mod two64) (two64 - 1)) (thr mod two64) =? 0)
  end.

Definition x_bkern (o : bop) (rt : ctype) (x y : xval) : xval :=
  match o with
  | BLincom m1 b1 m2 b2 =>
      lift2 rt (fun d e => fadd (fmul d (dbl m1)) (fadd (fadd (fmul e (dbl m2)) (dbl b1)) (dbl b2))) x y
  | BMultiply => lift2 rt fmul x y
  | BDivide => lift2 rt fdiv x y
  | BWindow op thr =>
      match x, y with
      | XV _, XV b => if win_test op thr b then x else x_pad rt
      | _, _ => XU
      end
  end.

Definition x_tkern (o : top) (rt : ctype) (x y z : xval) : xval :=
  match o with
  | TLincom m1 b1 m2 b2 m3 b3 =>
      lift3 rt (fun d e g =>
        fadd (fmul d (dbl m1))
             (fadd (fadd (fadd (fadd (fmul e (dbl m2)) (fmul g (dbl m3))) (dbl b1)) (dbl b2)) (dbl b3))) x y z
  end.

Definition x_match (cnt : Z) (y : xval) : bool :=
  match y with XV b => wrap I32 b =? cnt | XU => false end.

Definition x_pad_ok (rt ty : ctype) : bool := xval_eqb (x_raw_pad rt ty) (x_pad rt).

Lemma xval_eqb_eq a b : xval_eqb a b = true -> a = b.
Proof.
  destruct a, b; simpl; try discriminate; auto.
  intro H. apply Z.eqb_eq in H. now subst.
Qed.

Lemma x_pad_ok_sound rt ty : x_pad_ok rt ty = true -> x_raw_pad rt ty = x_pad rt.
Proof. apply xval_eqb_eq. Qed.

Definition XAlg : Alg := {|
  V := xval;
  pad := x_pad;
  raw_pad := x_raw_pad;
  dec := x_dec;
  index_val := x_index;
  ukern := x_ukern;
  bkern := x_bkern;
  tkern := x_tkern;
  mplex_match := x_match;
  garbage := XU;
  pad_ok := x_pad_ok;
  pad_ok_sound := x_pad_ok_sound
|}.
