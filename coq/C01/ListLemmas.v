(* C01: lemmas about the list helpers (zrange, nthZ, zlen, file_read) and the
   integer facts used by the rate alignment (floor/ceiling division). *)
From Coq Require Import ZArith List Bool Lia.
From GD Require Import C06.Convert C01.Field C01.Read.
Import ListNotations.
Local Open Scope Z_scope.

Lemma zlen_nonneg {A} (l : list A) : 0 <= zlen l.
Proof. unfold zlen. lia. Qed.

Lemma zlen_map {A B} (f : A -> B) l : zlen (map f l) = zlen l.
Proof. unfold zlen. now rewrite map_length. Qed.

Lemma zlen_zrange s n : zlen (zrange s n) = Z.max 0 n.
Proof. unfold zlen, zrange. rewrite map_length, seq_length. lia. Qed.

Lemma zlen_zrange_nn s n : 0 <= n -> zlen (zrange s n) = n.
Proof. intro. rewrite zlen_zrange. lia. Qed.

Lemma zlen_app {A} (l1 l2 : list A) : zlen (l1 ++ l2) = zlen l1 + zlen l2.
Proof. unfold zlen. rewrite app_length. lia. Qed.

Lemma zlen_nil_inv {A} (l : list A) : zlen l = 0 -> l = [].
Proof. destruct l; auto. unfold zlen. simpl. lia. Qed.

Lemma zrange_nil s n : n <= 0 -> zrange s n = [].
Proof. intro H. unfold zrange. replace (Z.to_nat n) with O by lia. reflexivity. Qed.

Lemma zrange_shift s n : zrange s n = map (fun i => s + i) (zrange 0 n).
Proof.
  unfold zrange. rewrite map_map. apply map_ext. intros. lia.
Qed.

Lemma map_zrange_shift {B} (f : Z -> B) s n :
  map f (zrange s n) = map (fun i => f (s + i)) (zrange 0 n).
Proof. rewrite (zrange_shift s n), map_map. reflexivity. Qed.

Lemma in_zrange k s n : In k (zrange s n) <-> s <= k < s + n.
Proof.
  unfold zrange. rewrite in_map_iff. split.
  - intros (i & <- & Hi). apply in_seq in Hi. lia.
  - intros H. exists (Z.to_nat (k - s)). split; [lia|]. apply in_seq. lia.
Qed.

Lemma map_zrange_ext {B} (f g : Z -> B) s n :
  (forall k, s <= k < s + n -> f k = g k) -> map f (zrange s n) = map g (zrange s n).
Proof. intro H. apply map_ext_in. intros k Hk. apply H, in_zrange, Hk. Qed.

Lemma map_zrange_ext2 {B} (f g : Z -> B) a b n :
  (forall i, 0 <= i < n -> f (a + i) = g (b + i)) -> map f (zrange a n) = map g (zrange b n).
Proof.
  intro H. rewrite (map_zrange_shift f a), (map_zrange_shift g b).
  apply map_zrange_ext. intros k Hk. apply H. lia.
Qed.

Lemma zrange_succ s n : 0 <= n -> zrange s (n + 1) = zrange s n ++ [s + n].
Proof.
  intro H. unfold zrange. replace (Z.to_nat (n + 1)) with (S (Z.to_nat n)) by lia.
  rewrite seq_S, map_app. simpl. f_equal. f_equal. lia.
Qed.

Lemma zrange_cons s n : 0 < n -> zrange s n = s :: zrange (s + 1) (n - 1).
Proof.
  intro H. unfold zrange. replace (Z.to_nat n) with (S (Z.to_nat (n - 1))) by lia.
  simpl. f_equal; [lia|]. rewrite <- seq_shift, map_map. apply map_ext. intros. lia.
Qed.

Lemma seq_add_map : forall b a, seq a b = map (fun i => (a + i)%nat) (seq 0 b).
Proof.
  induction b; intro a; simpl; auto. f_equal; [lia|].
  rewrite (IHb (S a)), <- seq_shift, map_map. apply map_ext. intros; lia.
Qed.

Lemma zrange_app s a b : 0 <= a -> 0 <= b -> zrange s (a + b) = zrange s a ++ zrange (s + a) b.
Proof.
  intros Ha Hb. unfold zrange. replace (Z.to_nat (a + b)) with (Z.to_nat a + Z.to_nat b)%nat by lia.
  rewrite seq_app, map_app. f_equal. simpl.
  rewrite (seq_add_map (Z.to_nat b) (Z.to_nat a)), map_map. apply map_ext. intros. lia.
Qed.

Lemma nthZ_map_zrange {B} (f : Z -> B) s n i d :
  0 <= i < n -> nthZ (map f (zrange s n)) i d = f (s + i).
Proof.
  intros H. unfold nthZ. destruct (Z.ltb_spec i 0); [lia|].
  unfold zrange. rewrite map_map.
  rewrite nth_indep with (d' := f (s + Z.of_nat 0)).
  2:{ rewrite map_length, seq_length. lia. }
  rewrite (map_nth (fun x => f (s + Z.of_nat x)) (seq 0 (Z.to_nat n)) 0%nat).
  rewrite seq_nth by lia. f_equal. lia.
Qed.

Lemma repeatZ_map {B} (x : B) n s : repeatZ x n = map (fun _ => x) (zrange s n).
Proof.
  unfold repeatZ, zrange. rewrite map_map.
  generalize 0%nat. induction (Z.to_nat n); intros; simpl; auto. f_equal. apply IHn0.
Qed.

(* read(2): ns samples from offset off of a file holding zlen data samples *)
Lemma firstn_skipn_nth {B} (l : list B) (d : B) : forall off ns,
  firstn ns (skipn off l) = map (fun i => nth i l d) (seq off (Nat.min ns (length l - off))).
Proof.
  induction l as [|x l IH]; intros off ns.
  - rewrite skipn_nil, firstn_nil. simpl. rewrite Nat.min_0_r. reflexivity.
  - destruct off as [|off].
    + simpl skipn. destruct ns as [|ns]; [reflexivity|].
      simpl. f_equal. specialize (IH 0%nat ns). simpl skipn in IH. rewrite IH.
      rewrite Nat.sub_0_r. rewrite <- seq_shift, map_map. reflexivity.
    + simpl skipn. rewrite IH. simpl length. rewrite Nat.sub_succ.
      rewrite <- seq_shift, map_map. reflexivity.
Qed.

Lemma file_read_spec (data : list Z) off ns :
  0 <= off -> 0 <= ns ->
  file_read data off ns =
  map (fun i => nthZ data i 0) (zrange off (Z.min ns (Z.max 0 (zlen data - off)))).
Proof.
  intros Ho Hn. unfold file_read. rewrite (firstn_skipn_nth data 0).
  unfold zrange, zlen. rewrite map_map.
  replace (Z.to_nat (Z.min ns (Z.max 0 (Z.of_nat (length data) - off))))
    with (Nat.min (Z.to_nat ns) (length data - Z.to_nat off)) by lia.
  rewrite (seq_add_map _ (Z.to_nat off)), map_map. apply map_ext. intro a. unfold nthZ.
  destruct (Z.ltb_spec (off + Z.of_nat a) 0); [lia|]. f_equal. lia.
Qed.

(* ---- integer facts ------------------------------------------------------- *)
Lemma cdiv_ge a b : 0 < b -> a <= cdiv a b * b.
Proof.
  intro Hb. unfold cdiv.
  pose proof (Z.mod_pos_bound (a + b - 1) b Hb).
  pose proof (Z.div_mod (a + b - 1) b ltac:(lia)). nia.
Qed.

Lemma cdiv_lt a b : 0 < b -> (cdiv a b - 1) * b < a.
Proof.
  intro Hb. unfold cdiv.
  pose proof (Z.mod_pos_bound (a + b - 1) b Hb).
  pose proof (Z.div_mod (a + b - 1) b ltac:(lia)). nia.
Qed.

Lemma cdiv_pos a b : 0 < b -> 0 < a -> 0 < cdiv a b.
Proof. intros Hb Ha. pose proof (cdiv_ge a b Hb). nia. Qed.

Lemma cdiv_mul a b : 0 < b -> cdiv (a * b) b = a.
Proof.
  intro Hb. unfold cdiv. replace (a * b + b - 1) with ((b - 1) + a * b) by lia.
  rewrite Z.div_add by lia. rewrite Z.div_small by lia. lia.
Qed.

Lemma div_lt_iff a b c : 0 < b -> (a / b < c <-> a < c * b).
Proof.
  intro Hb. split; intro H.
  - pose proof (Z.mod_pos_bound a b Hb). pose proof (Z.div_mod a b ltac:(lia)). nia.
  - apply Z.div_lt_upper_bound; lia.
Qed.

Lemma div_ge_iff a b c : 0 < b -> (c <= a / b <-> c * b <= a).
Proof.
  intro Hb. split; intro H.
  - pose proof (Z.mod_pos_bound a b Hb). pose proof (Z.div_mod a b ltac:(lia)). nia.
  - apply Z.div_le_lower_bound; lia.
Qed.

(* the alignment identity: when s1 divides s*s2, the second input's sample for
   derived sample s+i is first_samp2 + i*s2/s1 *)
Lemma align_index s i s1 s2 q : 0 < s1 -> s * s2 = q * s1 -> (s + i) * s2 / s1 = q + i * s2 / s1.
Proof.
  intros H1 Hq. replace ((s + i) * s2) with (i * s2 + q * s1) by lia.
  rewrite Z.div_add by lia. lia.
Qed.

Lemma quot_exact a b q : 0 < b -> a = q * b -> Z.quot a b = q /\ a / b = q.
Proof.
  intros Hb ->. split.
  - apply Z.quot_mul. lia.
  - apply Z.div_mul. lia.
Qed.

Lemma divides_spec a b : 0 < a -> divides a b = true -> b = (b / a) * a.
Proof.
  unfold divides. intros Ha H. apply Z.eqb_eq in H.
  pose proof (Z.div_mod b a ltac:(lia)). lia.
Qed.

(* ---- counts of the two-input read ------------------------------------------ *)
(* d = samples of the second input available from first_samp2 on (d > 0);
   c1 = samples read from the first input; the code's adjusted count is the
   number of derived samples below the scaled end-of-field *)
Lemma bin_count_fin s1 s2 c1 d :
  0 < s1 -> 0 < s2 -> 0 < c1 -> 0 < d ->
  let num2 := cdiv (c1 * s2) s1 in
  let c2 := Z.min num2 d in
  let n1 := if (0 <? c2) && (c2 * s1 <? c1 * s2) then c2 * s1 / s2 else c1 in
  0 < c2 /\ n1 = Z.min c1 (d * s1 / s2) /\ (forall i, 0 <= i < n1 -> i * s2 / s1 < c2).
Proof.
  intros H1 H2 Hc Hd num2 c2 n1.
  assert (Hnum : 0 < num2) by (apply cdiv_pos; nia).
  assert (Hge : c1 * s2 <= num2 * s1) by (apply cdiv_ge; lia).
  assert (Hlt : (num2 - 1) * s1 < c1 * s2) by (apply cdiv_lt; lia).
  assert (Hc2 : 0 < c2) by (unfold c2; lia).
  split; [exact Hc2|].
  assert (HF : 0 <= d * s1 / s2) by (apply Z.div_pos; nia).
  assert (Hn1 : n1 = Z.min c1 (d * s1 / s2)).
  { unfold n1. replace (0 <? c2) with true by (symmetry; apply Z.ltb_lt; lia). simpl andb.
    destruct (Z.ltb_spec (c2 * s1) (c1 * s2)) as [Hs|Hs].
    - assert (c2 = d) by (unfold c2 in *; nia). subst c2. rewrite H.
      assert (d * s1 / s2 < c1) by (apply div_lt_iff; lia). lia.
    - destruct (Z.le_ge_cases num2 d).
      + assert (c1 <= d * s1 / s2) by (apply div_ge_iff; nia). lia.
      + assert (c2 = d) by (unfold c2; lia). rewrite H0 in Hs.
        assert (c1 <= d * s1 / s2) by (apply div_ge_iff; nia). lia. }
  split; [exact Hn1|].
  intros i Hi. rewrite Hn1 in Hi.
  apply div_lt_iff; [lia|].
  assert (Hi1 : i + 1 <= c1) by lia.
  assert (Hi2 : i + 1 <= d * s1 / s2) by lia.
  apply div_ge_iff in Hi2; [|lia].
  unfold c2. destruct (Z.le_ge_cases num2 d); [rewrite Z.min_l by lia | rewrite Z.min_r by lia]; nia.
Qed.

Lemma bin_count_inf s1 s2 c1 :
  0 < s1 -> 0 < s2 -> 0 < c1 ->
  let c2 := cdiv (c1 * s2) s1 in
  let n1 := if (0 <? c2) && (c2 * s1 <? c1 * s2) then c2 * s1 / s2 else c1 in
  0 < c2 /\ n1 = c1 /\ (forall i, 0 <= i < n1 -> i * s2 / s1 < c2).
Proof.
  intros H1 H2 Hc c2 n1.
  assert (Hnum : 0 < c2) by (apply cdiv_pos; nia).
  assert (Hge : c1 * s2 <= c2 * s1) by (apply cdiv_ge; lia).
  split; [exact Hnum|].
  assert (Hn1 : n1 = c1).
  { unfold n1. destruct (Z.ltb_spec (c2 * s1) (c1 * s2)); [lia|]. now rewrite andb_false_r. }
  split; [exact Hn1|]. intros i Hi. rewrite Hn1 in Hi. apply div_lt_iff; [lia|]. nia.
Qed.

(* the scaled end-of-field seen from an aligned start *)
Lemma scale_shift e2 s q s1 s2 : 0 < s2 -> s * s2 = q * s1 -> e2 * s1 / s2 = (e2 - q) * s1 / s2 + s.
Proof.
  intros H2 Hq. replace (e2 * s1) with ((e2 - q) * s1 + s * s2) by lia.
  rewrite Z.div_add by lia. lia.
Qed.

(* LINCOM: the rate of the later input is k times the first's *)
Lemma lin_count k c1 d :
  0 < k -> 0 < c1 -> 0 < d ->
  let c2 := Z.min (c1 * k) d in
  let n1 := if c2 =? c1 * k then c1 else c2 / k in
  n1 = Z.min c1 (d / k) /\ (forall i, 0 <= i < n1 -> i * k < c2).
Proof.
  intros Hk Hc Hd c2 n1.
  assert (HF : 0 <= d / k) by (apply Z.div_pos; lia).
  assert (Hn1 : n1 = Z.min c1 (d / k)).
  { unfold n1. destruct (Z.eqb_spec c2 (c1 * k)) as [He|Hne].
    - assert (c1 <= d / k) by (apply div_ge_iff; unfold c2 in *; lia). lia.
    - assert (c2 = d) by (unfold c2 in *; lia). rewrite H.
      assert (d / k < c1) by (apply div_lt_iff; unfold c2 in *; lia). lia. }
  split; [exact Hn1|]. intros i Hi. rewrite Hn1 in Hi.
  assert (Hi2 : i + 1 <= d / k) by lia. apply div_ge_iff in Hi2; [|lia].
  unfold c2. nia.
Qed.

(* ---- the same with an alignment remainder r = (s*s2) mod s1 ------------------- *)
Lemma align_index_r s i s1 s2 q r :
  0 < s1 -> s * s2 = q * s1 + r -> (s + i) * s2 / s1 = q + (r + i * s2) / s1.
Proof.
  intros H1 Hq. replace ((s + i) * s2) with ((r + i * s2) + q * s1) by lia.
  rewrite Z.div_add by lia. lia.
Qed.

Lemma scale_shift_r e2 s q r s1 s2 :
  0 < s2 -> s * s2 = q * s1 + r -> e2 * s1 / s2 = ((e2 - q) * s1 - r) / s2 + s.
Proof.
  intros H2 Hq. replace (e2 * s1) with (((e2 - q) * s1 - r) + s * s2) by lia.
  rewrite Z.div_add by lia. lia.
Qed.

Lemma bin_count_fin_r s1 s2 c1 d r :
  0 < s1 -> 0 < s2 -> 0 < c1 -> 0 < d -> 0 <= r < s1 ->
  let num2 := cdiv (r + c1 * s2) s1 in
  let c2 := Z.min num2 d in
  let n1 := alim c2 c1 s1 s2 r in
  0 < c2 /\ n1 = Z.min c1 ((d * s1 - r) / s2) /\ (forall i, 0 <= i < n1 -> (r + i * s2) / s1 < c2).
Proof.
  intros H1 H2 Hc Hd Hr num2 c2 n1.
  assert (Hnum : 0 < num2) by (apply cdiv_pos; nia).
  assert (Hge : r + c1 * s2 <= num2 * s1) by (apply cdiv_ge; lia).
  assert (Hc2 : 0 < c2) by (unfold c2; lia).
  split; [exact Hc2|].
  assert (HF : 0 <= (d * s1 - r) / s2) by (apply Z.div_pos; nia).
  assert (Hn1 : n1 = Z.min c1 ((d * s1 - r) / s2)).
  { unfold n1, alim. cbv zeta.
    destruct (Z.le_ge_cases num2 d) as [Hle|Hgt].
    - assert (Ec : c2 = num2) by (unfold c2; lia). rewrite Ec.
      assert (c1 <= (num2 * s1 - r) / s2) by (apply div_ge_iff; nia).
      assert ((num2 * s1 - r) / s2 <= (d * s1 - r) / s2) by (apply Z.div_le_mono; nia).
      destruct (Z.ltb_spec ((num2 * s1 - r) / s2) c1); lia.
    - assert (Ec : c2 = d) by (unfold c2; lia). rewrite Ec.
      destruct (Z.ltb_spec ((d * s1 - r) / s2) c1); lia. }
  split; [exact Hn1|].
  intros i Hi. rewrite Hn1 in Hi.
  apply div_lt_iff; [lia|].
  assert (Hi1 : i + 1 <= c1) by lia.
  assert (Hi2 : i + 1 <= (d * s1 - r) / s2) by lia.
  apply div_ge_iff in Hi2; [|lia].
  unfold c2. destruct (Z.le_ge_cases num2 d); [rewrite Z.min_l by lia | rewrite Z.min_r by lia]; nia.
Qed.

Lemma bin_count_inf_r s1 s2 c1 r :
  0 < s1 -> 0 < s2 -> 0 < c1 -> 0 <= r < s1 ->
  let c2 := cdiv (r + c1 * s2) s1 in
  let n1 := alim c2 c1 s1 s2 r in
  0 < c2 /\ n1 = c1 /\ (forall i, 0 <= i < n1 -> (r + i * s2) / s1 < c2).
Proof.
  intros H1 H2 Hc Hr c2 n1.
  assert (Hnum : 0 < c2) by (apply cdiv_pos; nia).
  assert (Hge : r + c1 * s2 <= c2 * s1) by (apply cdiv_ge; lia).
  split; [exact Hnum|].
  assert (Hn1 : n1 = c1).
  { unfold n1, alim. cbv zeta. assert (c1 <= (c2 * s1 - r) / s2) by (apply div_ge_iff; nia).
    destruct (Z.ltb_spec ((c2 * s1 - r) / s2) c1); lia. }
  split; [exact Hn1|]. intros i Hi. rewrite Hn1 in Hi. apply div_lt_iff; [lia|]. nia.
Qed.
