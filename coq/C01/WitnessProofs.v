(* C01: the full statement, its refutation witnesses (vm_compute on the
   executable algebra) and consequences of read_ok. *)
From Coq Require Import ZArith List Bool Lia.
From GD Require Import C06.Convert C01.Field C01.Read C01.Inst C01.ListLemmas C01.ReadProofs C01.Witness.
Import ListNotations.
Local Open Scope Z_scope.

(* the property at full strength, for the source variant v: every well-formed
   field, every window *)
Definition read_matches_spec_statement (v : variant) : Prop :=
  forall (A : Alg) (db : database) (lb : Z) (f : field) (rt : ctype) (s n : Z),
    wf db f -> 0 <= s -> 0 <= n ->
    impl_read A db v lb rt f s n = Some (spec_window A db lb rt f s n).

Lemma wf_m_ab : wf db_ab m_ab.
Proof. vm_compute. intuition discriminate. Qed.

(* m MULTIPLY a b, a at 2 samples/frame, b at 1: read 4 from sample 1 (unrepaired code) *)
Lemma witness_unaligned :
  impl_read XAlg db_ab v0 (-1) F64 m_ab 1 4 =
    Some [XV 4626322717216342016; XV 4629137466983448576; XV 4635329916471083008; XV 4636737291354636288] /\
  spec_window XAlg db_ab (-1) F64 m_ab 1 4 =
    [XV 4626322717216342016; XV 4633641066610819072; XV 4635329916471083008; XV 4639481672377565184] /\
  uncovered XAlg db_ab v0 (-1) F64 m_ab 1 4 = [TUnaligned].
Proof. vm_compute. auto. Qed.

(* the same read with proposed_fixes/C01-2 *)
Lemma witness_unaligned_repaired :
  impl_read XAlg db_ab v1 (-1) F64 m_ab 1 4 = Some (spec_window XAlg db_ab (-1) F64 m_ab 1 4) /\
  uncovered XAlg db_ab v1 (-1) F64 m_ab 1 4 = [].
Proof. vm_compute. auto. Qed.

Lemma statement_refuted : ~ read_matches_spec_statement v0.
Proof.
  intro H.
  pose proof (H XAlg db_ab (-1) m_ab F64 1 4 wf_m_ab ltac:(lia) ltac:(lia)) as H0.
  destruct witness_unaligned as (Hi & Hs & _).
  assert (E : Some [XV 4626322717216342016; XV 4629137466983448576; XV 4635329916471083008; XV 4636737291354636288] =
              Some [XV 4626322717216342016; XV 4633641066610819072; XV 4635329916471083008; XV 4639481672377565184]).
  { transitivity (impl_read XAlg db_ab v0 (-1) F64 m_ab 1 4); [symmetry; exact Hi|].
    transitivity (Some (spec_window XAlg db_ab (-1) F64 m_ab 1 4)); [exact H0|]. rewrite Hs. reflexivity. }
  clear - E. injection E as E1. discriminate E1.
Qed.

(* RAW INT16 before its frame offset, read as FLOAT64: 0.0 instead of NaN *)
Lemma witness_raw_pad :
  impl_read XAlg db_fo v0 (-1) F64 a 2 4 =
    Some [XV 0; XV 0; XV 4607182418800017408; XV 4611686018427387904] /\
  spec_window XAlg db_fo (-1) F64 a 2 4 =
    [XV 9221120237041090560; XV 9221120237041090560; XV 4607182418800017408; XV 4611686018427387904] /\
  uncovered XAlg db_fo v0 (-1) F64 a 2 4 = [TRawPad] /\
  impl_read XAlg db_fo v1 (-1) F64 a 2 4 = Some (spec_window XAlg db_fo (-1) F64 a 2 4).
Proof. vm_compute. auto. Qed.

(* the hypotheses of read_ok are satisfiable on a two-rate field *)
Lemma covered_example :
  wf db_ab m_ab /\ covered XAlg db_ab v0 (-1) F64 m_ab 2 4 /\
  impl_read XAlg db_ab v0 (-1) F64 m_ab 2 4 =
    Some [XV 4633641066610819072; XV 4635329916471083008; XV 4639481672377565184; XV 4640537203540230144].
Proof. split; [exact wf_m_ab|]. vm_compute. auto. Qed.

(* consequences of read_ok *)
Lemma read_count_ok (A : Alg) db v lb f rt s n :
  wf db f -> 0 <= n -> covered A db v lb rt f s n ->
  read_count A db v lb rt f s n = Some (spec_count db f s n).
Proof.
  intros Hw Hn Hc. unfold read_count. rewrite (read_ok A db v lb f rt s n Hw Hn Hc). simpl.
  now rewrite zlen_spec_window.
Qed.

(* a returned sample is the documented value of its absolute sample number *)
Lemma read_sample_ok (A : Alg) db v lb f rt s n i :
  wf db f -> 0 <= n -> covered A db v lb rt f s n -> 0 <= i < spec_count db f s n ->
  option_map (fun l => nthZ l i (garbage A)) (impl_read A db v lb rt f s n) = Some (spec_val A db lb rt f s (s + i)).
Proof.
  intros Hw Hn Hc Hi. rewrite (read_ok A db v lb f rt s n Hw Hn Hc). simpl. f_equal.
  unfold spec_window. now rewrite nthZ_map_zrange.
Qed.

(* the specification never uses an input sample at or beyond that input's end *)
Lemma spec_inputs_exist e1 e2 s1 s2 k :
  0 < s1 -> 0 < s2 -> elt k (emin e1 (escale e2 s1 s2)) -> elt k e1 /\ elt (k * s2 / s1) e2.
Proof.
  intros H1 H2. destruct e1 as [x|], e2 as [y|]; simpl; intro H; try tauto; try lia.
  - split; [lia|]. assert (Hk : k + 1 <= y * s1 / s2) by lia.
    apply div_ge_iff in Hk; [|lia]. apply div_lt_iff; [lia|]. nia.
  - split; [auto|]. assert (Hk : k + 1 <= y * s1 / s2) by lia.
    apply div_ge_iff in Hk; [|lia]. apply div_lt_iff; [lia|]. nia.
Qed.

(* ---- the repaired read path: nothing is excluded for fields without MPLEX ------- *)
Fixpoint mplex_free (f : field) : Prop :=
  match f with
  | Raw _ | Index => True
  | Phase g _ | Un _ g => mplex_free g
  | Bin _ g h => mplex_free g /\ mplex_free h
  | Tri _ g h l => mplex_free g /\ mplex_free h /\ mplex_free l
  | Mplex _ _ _ _ => False
  end.

Definition read_repaired (v : variant) : Prop :=
  v_align v = true /\ v_rawpad v = true /\ v_alloc0 v = true.

Lemma uncovered_repaired (A : Alg) db v lb f : read_repaired v -> mplex_free f ->
  forall rt s n, uncovered A db v lb rt f s n = [].
Proof.
  intros (Ha & Hp & Hz). induction f; simpl; intros Hm rt s n.
  - rewrite Hp. simpl. destruct (n <=? 0); reflexivity.
  - reflexivity.
  - apply IHf; auto.
  - rewrite Hz. simpl. apply IHf; auto.
  - destruct Hm as [Hm1 Hm2]. rewrite (IHf1 Hm1), Ha. simpl.
    destruct (spec_count db f1 s n <=? 0); [reflexivity|]. apply IHf2; auto.
  - destruct Hm as (Hm1 & Hm2 & Hm3). rewrite (IHf1 Hm1), Ha. simpl.
    destruct (spec_count db f1 s n <=? 0); [reflexivity|]. rewrite (IHf2 Hm2). simpl.
    match goal with |- (if ?c then _ else _) = _ => destruct c; [reflexivity|] end.
    match goal with |- (if ?c then _ else _) = _ => destruct c; [reflexivity|] end.
    apply IHf3; auto.
  - tauto.
Qed.

Lemma read_ok_repaired (A : Alg) db v lb f rt s n :
  read_repaired v -> wf db f -> mplex_free f -> 0 <= n ->
  impl_read A db v lb rt f s n = Some (spec_window A db lb rt f s n).
Proof.
  intros Hv Hw Hm Hn. apply read_ok; auto. unfold covered. apply uncovered_repaired; auto.
Qed.

(* ---- the frozen tree (v_align, v_alloc0; padding still by native type) ------------ *)
Definition only_rawpad (l : list tag) : Prop := forall t, In t l -> t = TRawPad.

Lemma only_rawpad_app l1 l2 : only_rawpad l1 -> only_rawpad l2 -> only_rawpad (l1 ++ l2).
Proof. intros H1 H2 t Ht. apply in_app_or in Ht. destruct Ht; auto. Qed.

Lemma only_rawpad_nil : only_rawpad [].
Proof. intros t []. Qed.

Lemma uncovered_current (A : Alg) db v lb f : v_align v = true -> v_alloc0 v = true -> mplex_free f ->
  forall rt s n, only_rawpad (uncovered A db v lb rt f s n).
Proof.
  intros Ha Hz. induction f; simpl; intros Hm rt s n.
  - destruct (n <=? 0); [apply only_rawpad_nil|]. unfold tag_if.
    match goal with |- only_rawpad (if ?c then _ else _) => destruct c end;
      [intros t [<-|[]]; reflexivity | apply only_rawpad_nil].
  - apply only_rawpad_nil.
  - apply IHf; auto.
  - rewrite Hz. simpl. apply IHf; auto.
  - destruct Hm as [Hm1 Hm2]. apply only_rawpad_app; [apply IHf1; auto|].
    destruct (spec_count db f1 s n <=? 0); [apply only_rawpad_nil|]. rewrite Ha. simpl. apply IHf2; auto.
  - destruct Hm as (Hm1 & Hm2 & Hm3). apply only_rawpad_app; [apply IHf1; auto|].
    destruct (spec_count db f1 s n <=? 0); [apply only_rawpad_nil|]. rewrite Ha. simpl.
    apply only_rawpad_app; [apply IHf2; auto|].
    match goal with |- only_rawpad (if ?c then _ else _) => destruct c; [apply only_rawpad_nil|] end.
    match goal with |- only_rawpad (if ?c then _ else _) => destruct c; [apply only_rawpad_nil|] end.
    apply IHf3; auto.
  - tauto.
Qed.

(* THE theorem for the frozen tree: for every MPLEX-free field and every window,
   the only way to leave the specification is the native-type padding of a RAW
   leaf (the open finding getdata/raw-bof-pad-native-type) *)
Lemma read_ok_current (A : Alg) db v lb f rt s n :
  v_align v = true -> v_alloc0 v = true -> wf db f -> mplex_free f -> 0 <= n ->
  ~ In TRawPad (uncovered A db v lb rt f s n) ->
  impl_read A db v lb rt f s n = Some (spec_window A db lb rt f s n).
Proof.
  intros Ha Hz Hw Hm Hn Hp. apply read_ok; auto. unfold covered.
  pose proof (uncovered_current A db v lb f Ha Hz Hm rt s n) as H.
  destruct (uncovered A db v lb rt f s n) as [|t l]; [reflexivity|].
  exfalso. apply Hp. rewrite (H t (or_introl eq_refl)). left. reflexivity.
Qed.

(* sample k does not depend on how the window is split *)
Lemma spec_window_split (A : Alg) db lb rt f s a b : 0 <= a -> 0 <= b ->
  lb < 0 \/ mplexfreeb f = true ->
  spec_count db f s a = a ->
  spec_window A db lb rt f s (a + b) = spec_window A db lb rt f s a ++ spec_window A db lb rt f (s + a) b.
Proof.
  intros Ha Hb Hst Hfull. unfold spec_window, spec_count in *.
  assert (Hc : ecount (eof db f) s (a + b) = a + ecount (eof db f) (s + a) b).
  { destruct (eof db f); simpl in *; lia. }
  rewrite Hc, Hfull. rewrite zrange_app, map_app; [|lia|destruct (eof db f); simpl; lia].
  f_equal. apply map_ext. intro k. apply (spec_val_start A db lb f Hst).
Qed.

Lemma window_split (A : Alg) db v lb f rt s a b X Y :
  wf db f -> 0 <= a -> 0 <= b -> lb < 0 \/ mplexfreeb f = true ->
  covered A db v lb rt f s (a + b) -> covered A db v lb rt f s a -> covered A db v lb rt f (s + a) b ->
  impl_read A db v lb rt f s a = Some X -> zlen X = a ->
  impl_read A db v lb rt f (s + a) b = Some Y ->
  impl_read A db v lb rt f s (a + b) = Some (X ++ Y).
Proof.
  intros Hw Ha Hb Hst C1 C2 C3 EX HX EY.
  rewrite (read_ok A db v lb f rt s a Hw Ha C2) in EX. injection EX as <-.
  rewrite (read_ok A db v lb f rt (s + a) b Hw Hb C3) in EY. injection EY as <-.
  rewrite (read_ok A db v lb f rt s (a + b) Hw ltac:(lia) C1). f_equal.
  apply spec_window_split; auto. rewrite zlen_spec_window in HX by auto. exact HX.
Qed.

(* the padding witness refutes the full statement for the frozen tree as well *)
Lemma statement_refuted_current : ~ read_matches_spec_statement vc.
Proof.
  intro H.
  assert (Hw : wf db_fo a) by (vm_compute; intuition discriminate).
  pose proof (H XAlg db_fo (-1) a F64 2 4 Hw ltac:(lia) ltac:(lia)) as H0.
  assert (Hi : impl_read XAlg db_fo vc (-1) F64 a 2 4 = Some [XV 0; XV 0; XV 4607182418800017408; XV 4611686018427387904])
    by (vm_compute; reflexivity).
  assert (Hs : spec_window XAlg db_fo (-1) F64 a 2 4 =
    [XV 9221120237041090560; XV 9221120237041090560; XV 4607182418800017408; XV 4611686018427387904])
    by (vm_compute; reflexivity).
  assert (E : Some [XV 0; XV 0; XV 4607182418800017408; XV 4611686018427387904] =
              Some [XV 9221120237041090560; XV 9221120237041090560; XV 4607182418800017408; XV 4611686018427387904]).
  { transitivity (impl_read XAlg db_fo vc (-1) F64 a 2 4); [symmetry; exact Hi|].
    transitivity (Some (spec_window XAlg db_fo (-1) F64 a 2 4)); [exact H0|]. rewrite Hs. reflexivity. }
  clear - E. injection E as E1. discriminate E1.
Qed.
