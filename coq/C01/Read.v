(* C01: the read path of src/getdata.c AS IT IS, over buffers-as-lists.

   impl_read A db rt f s n  mirrors  _GD_DoField(D, E, repr=NONE, s, n, rt, out):
   None    = the call fails (D->error set, 0 returned)
   Some l  = it returns length l samples, l the content of the output buffer.
   What is mirrored: _GD_DoRaw (frame-offset padding, the seek (skipped for a window
   lying before sample 0), short read at the end of file), INDEX, PHASE, the
   one-input fields (input read in the operator's type, kernel applied), the
   two/three-input fields: first_samp2 = s*spf2/spf1 (C division: truncation),
   num_samp2 = ceil(n_read*spf2/spf1), the short-read adjustments (LINCOM
   returns 0 on an empty second read, the others go on with an unwritten
   buffer), kernels indexing B[i*spfB/spfA], MPLEX start
   value (look-back over the index field, limited by the handle's lookback setting
   and the field's period / default cycle).
   Not mirrored: GD_TRANSACTION_MAX clamps and the 2^63 range checks (counts
   are assumed far below them), the (int) cast of num_samp2, the chunking of
   the MPLEX look-back (one read of [lb_start,first_samp2) here), the MPLEX
   last-sample cache, complex data. *)
From Coq Require Import ZArith List Bool Lia.
From GD Require Import C06.Convert C01.Field.
Import ListNotations.
Local Open Scope Z_scope.

Definition obind {X Y} (o : option X) (f : X -> option Y) : option Y :=
  match o with Some x => f x | None => None end.

Section Impl.
Context (A : Alg) (db : database) (v : variant) (lb : Z).

(* read(2) of ns samples at sample offset off of the data file *)
Definition file_read (data : list Z) (off ns : Z) : list Z :=
  firstn (Z.to_nat ns) (skipn (Z.to_nat off) data).

(* _GD_DoRaw, getdata.c:220-292 *)
Definition raw_read (rt : ctype) (id : N) (s n : Z) : option (list (V A)) :=
  let r := db id in
  let st := raw_start r in
  if n <=? 0 then Some [] else
  let zero_pad := if s <? st then st - s else 0 in
  let zeroed := if 0 <? zero_pad then (if n <? zero_pad then n else zero_pad) else 0 in
  let ns := n - zeroed in
  let s0 := s + zeroed in
  (* if (ns > 0 || (zero_pad && s0 >= 0)) _GD_Seek(D, E, s0): GD_E_RANGE for a negative position *)
  if ((0 <? ns) || ((0 <? zero_pad) && (0 <=? s0))) && (s0 <? 0) then None else
  let got := if 0 <? ns then file_read (r_data r) (s0 - st) ns else [] in
  (* the padding is made in the native type and converted with the data, or (C01-3) in the return type *)
  let padv := if v_rawpad v then pad A rt else raw_pad A rt (r_ty r) in
  Some (repeatZ padv zeroed ++ map (dec A rt (r_ty r)) got).

(* buffer element i; beyond what was written: whatever the memory held *)
Definition buf (l : list (V A)) (i : Z) : V A := nthZ l i (garbage A).

(* MPLEX kernel, getdata.c:834-843 *)
Fixpoint mplex_fold (cnt : Z) (last : V A) (A0 : list (V A)) (Bi : list (V A)) : list (V A) :=
  match A0, Bi with
  | a :: A1, b :: B1 =>
      if mplex_match A cnt b then a :: mplex_fold cnt a A1 B1
      else last :: mplex_fold cnt last A1 B1
  | _, _ => []
  end.

(* largest position of a matching index sample in a look-back buffer *)
Fixpoint last_match (cnt : Z) (L : list (V A)) (pos : Z) (acc : option Z) : option Z :=
  match L with
  | [] => acc
  | b :: L' => last_match cnt L' (pos + 1) (if mplex_match A cnt b then Some pos else acc)
  end.

(* first sample of a second input and the alignment remainder handed to the
   kernel: first_samp*spf2/spf1 with C truncation and no remainder, or (C01-2)
   the floor and (first_samp*spf2) mod spf1 *)
Definition first2 (s s1 s2 : Z) : Z := if v_align v then s * s2 / s1 else Z.quot (s * s2) s1.
Definition rem2 (s s1 s2 : Z) : Z := if v_align v then (s * s2) mod s1 else 0.

Fixpoint impl_read (rt : ctype) (f : field) (s n : Z) {struct f} : option (list (V A)) :=
  match f with
  | Raw id => raw_read rt id s n
  | Index => Some (map (index_val A rt) (zrange s n))
  | Phase g sh => impl_read rt g (s + sh) n
  | Un o g =>
      if negb (v_alloc0 v) && u_alloc o && (n =? 0) then None      (* _GD_Alloc(.., 0): GD_E_INTERNAL_ERROR *)
      else obind (impl_read (u_in o rt) g s n) (fun X => Some (map (ukern A o rt) X))
  | Bin o g h =>
      obind (impl_read rt g s n) (fun X =>
      let n1 := zlen X in
      if n1 =? 0 then Some [] else
      let s1 := spf db g in let s2 := spf db h in
      let r := rem2 s s1 s2 in
      obind (impl_read (b_in2 o) h (first2 s s1 s2) (cdiv (r + n1 * s2) s1)) (fun Y =>
      let n2 := zlen Y in
      if n2 =? 0 then Some [] else
      (* r = 0: the code's test n_read2*spf1 < n_read*spf2 is (n_read2*spf1)/spf2 < n_read *)
      let n1' := alim n2 n1 s1 s2 r in
      Some (map (fun i => bkern A o rt (buf X i) (buf Y ((r + i * s2) / s1))) (zrange 0 n1'))))
  | Tri o g h l =>
      obind (impl_read rt g s n) (fun X =>
      let n1 := zlen X in
      if n1 =? 0 then Some [] else
      let s1 := spf db g in let s2 := spf db h in let s3 := spf db l in
      let r2 := rem2 s s1 s2 in let r3 := rem2 s s1 s3 in
      obind (impl_read F64 h (first2 s s1 s2) (cdiv (r2 + n1 * s2) s1)) (fun Y =>
      let n2 := zlen Y in
      if n2 =? 0 then Some [] else
      let n1' := alim n2 n1 s1 s2 r2 in
      if n1' =? 0 then
        (* C01-2 returns 0 here; otherwise num_samp3 = 0 goes to _GD_Alloc *)
        (if v_align v || v_alloc0 v then Some [] else None)
      else
      obind (impl_read F64 l (first2 s s1 s3) (cdiv (r3 + n1' * s3) s1)) (fun W =>
      let n3 := zlen W in
      if n3 =? 0 then Some [] else
      let n1'' := alim n3 n1' s1 s3 r3 in
      Some (map (fun i => tkern A o rt (buf X i) (buf Y ((r2 + i * s2) / s1)) (buf W ((r3 + i * s3) / s1)))
                (zrange 0 n1'')))))
  | Mplex g h cnt per =>
      obind (impl_read rt g s n) (fun X =>
      let n1 := zlen X in
      if n1 =? 0 then Some [] else
      let s1 := spf db g in let s2 := spf db h in
      let r := rem2 s s1 s2 in
      let f2 := first2 s s1 s2 in
      obind (impl_read I32 h f2 (cdiv (r + n1 * s2) s1)) (fun Y =>
      let n2 := zlen Y in
      if n2 =? 0 then Some [] else
      obind
        (if mplex_match A cnt (buf Y 0) then Some (pad A rt)
         else if lb =? 0 then Some (pad A rt)          (* no look-back (and no re-seek) *)
         else
           let lo := mplex_lo lb cnt per f2 in         (* lb_start *)
           obind
             (if f2 <=? lo then Some (pad A rt)
              else
                obind (impl_read I32 h lo (f2 - lo)) (fun L =>
                match last_match cnt L lo None with
                | Some j =>
                    obind (impl_read rt g (j * s1 / s2) 1) (fun R => Some (hd (pad A rt) R))
                | None => Some (pad A rt)
                end))
             (fun st =>
              (* "put the I/O pointers back": a failing _GD_Seek leaves D->error set *)
              if seek_ok g (s + n1) && seek_ok h (f2 + n2) then Some st else None))
        (fun start =>
      let n1' := alim n2 n1 s1 s2 r in
      Some (mplex_fold cnt start
              (map (buf X) (zrange 0 n1'))
              (map (fun i => buf Y ((r + i * s2) / s1)) (zrange 0 n1'))))))
  end.

Definition read_count (rt : ctype) (f : field) (s n : Z) : option Z :=
  option_map zlen (impl_read rt f s n).

End Impl.
