(* C01/C16: monomorphic entry points of the executable model (what is extracted). *)
From Coq Require Import ZArith List Bool.
From GD Require Import C06.Convert C01.Field C01.Read C01.Inst C16.Limits.
Import ListNotations.
Local Open Scope Z_scope.

Definition mk_variant (a b c d e : bool) : variant :=
  {| v_align := a; v_rawpad := b; v_alloc0 := c; v_clamp := d; v_bofceil := e |}.

Definition x_impl_read (db : database) (v : variant) (lb : Z) (rt : ctype) (f : field) (s n : Z) : option (list xval) :=
  impl_read XAlg db v lb rt f s n.
Definition x_spec_window (db : database) (lb : Z) (rt : ctype) (f : field) (s n : Z) : list xval :=
  spec_window XAlg db lb rt f s n.
Definition x_spec_val (db : database) (lb : Z) (rt : ctype) (f : field) (s k : Z) : xval :=
  spec_val XAlg db lb rt f s k.
Definition x_uncovered (db : database) (v : variant) (lb : Z) (rt : ctype) (f : field) (s n : Z) : list tag :=
  uncovered XAlg db v lb rt f s n.
Definition x_wfb (db : database) (f : field) : bool := wfb db f.
Definition x_spf (db : database) (f : field) : Z := spf db f.
Definition x_eof (db : database) (f : field) : ext := eof db f.

Definition x_impl_eof := impl_eof.
Definition x_impl_bof := impl_bof.
Definition x_impl_nframes := impl_nframes.
Definition x_spec_eof_report := spec_eof_report.
Definition x_spec_bof := spec_bof.
Definition x_spec_nframes := spec_nframes.
Definition x_is_real := is_real.
Definition x_noclampb := noclampb.
Definition x_nophaseb := nophaseb.
