(* C01 proofs: on the covered region the read path of getdata.c returns exactly
   the window the Standards define (any algebra, any depth, any rates). *)
From Coq Require Import ZArith List Bool Lia.
From GD Require Import C06.Convert C01.Field C01.Read C01.ListLemmas.
Import ListNotations.
Local Open Scope Z_scope.

Section Proofs.
Context (A : Alg) (db : database) (v : variant) (lb : Z).

Notation spf := (spf db).
Notation eof := (eof db).
Notation spec_val := (spec_val A db lb).
Notation spec_window := (spec_window A db lb).
Notation spec_count := (spec_count db).
Notation impl_read := (impl_read A db v lb).
Notation uncovered := (uncovered A db v lb).
Notation covered := (covered A db v lb).
Notation wf := (wf db).

Lemma spf_pos f : wf f -> 0 < spf f.
Proof. induction f; simpl; intros; try tauto; try lia. Qed.

Lemma ecount_nonneg e s n : 0 <= n -> 0 <= ecount e s n.
Proof. destruct e; simpl; lia. Qed.

Lemma ecount_le e s n : 0 <= n -> ecount e s n <= n.
Proof. destruct e; simpl; lia. Qed.

Lemma ecount_pos_elt e s n : 0 < ecount e s n -> elt s e.
Proof. destruct e; simpl; lia. Qed.

Lemma zlen_spec_window rt f s n : 0 <= n -> zlen (spec_window rt f s n) = spec_count f s n.
Proof.
  intro H. unfold Field.spec_window. rewrite zlen_map, zlen_zrange_nn; auto.
  apply ecount_nonneg; auto.
Qed.

Lemma buf_spec_window rt f s n i :
  0 <= i < spec_count f s n -> buf A (spec_window rt f s n) i = spec_val rt f s (s + i).
Proof. intro H. unfold buf, Field.spec_window. now rewrite nthZ_map_zrange. Qed.

Lemma app_nil_inv {X} (l1 l2 : list X) : l1 ++ l2 = [] -> l1 = [] /\ l2 = [].
Proof. destruct l1; simpl; auto. discriminate. Qed.

Lemma tag_if_nil b t : tag_if b t = [] -> b = false.
Proof. destruct b; simpl; auto. discriminate. Qed.

(* ---- RAW ------------------------------------------------------------------ *)
Lemma raw_case rt id s n :
  wf (Raw id) -> 0 <= n -> covered rt (Raw id) s n ->
  impl_read rt (Raw id) s n = Some (spec_window rt (Raw id) s n).
Proof.
  intros [Hspf Hfo] Hn Hc. unfold Field.covered in Hc. simpl in Hc.
  simpl. unfold raw_read, Field.spec_window, Field.spec_count. cbn [Field.eof ecount].
  set (r := db id) in *. set (st := raw_start r) in *.
  assert (Hst : 0 <= st) by (unfold st, raw_start; nia).
  destruct (Z.leb_spec n 0).
  { assert (n = 0) by lia. subst n. simpl. rewrite zrange_nil; [reflexivity|lia]. }
  replace (n <=? 0) with false in Hc by (symmetry; apply Z.leb_gt; lia).
  pose proof (tag_if_nil _ _ Hc) as Hp.
  assert (Hpad : s < st -> (if v_rawpad v then pad A rt else raw_pad A rt (r_ty r)) = pad A rt).
  { intro Hlt. destruct (v_rawpad v); [reflexivity|]. simpl in Hp.
    replace (s <? st) with true in Hp by (symmetry; apply Z.ltb_lt; lia). simpl in Hp.
    apply negb_false_iff in Hp. apply (pad_ok_sound A) in Hp. exact Hp. }
  set (len := zlen (r_data r)). assert (0 <= len) by apply zlen_nonneg.
  destruct (Z.ltb_spec s st) as [Hlt|Hge].
  - (* window starts in the frame-offset padding *)
    rewrite (Hpad Hlt).
    replace (0 <? st - s) with true by (symmetry; apply Z.ltb_lt; lia).
    destruct (Z.ltb_spec n (st - s)) as [Hall|Hpart].
    + (* all padding *)
      replace (0 <? n - n) with false by (symmetry; apply Z.ltb_ge; lia).
      replace ((false || true && (0 <=? s + n)) && (s + n <? 0)) with false
        by (destruct (Z.leb_spec 0 (s + n)); destruct (Z.ltb_spec (s + n) 0); simpl; auto; lia).
      cbv iota. rewrite app_nil_r.
      replace (Z.min n (Z.max 0 (st + len - s))) with n by lia.
      rewrite (repeatZ_map _ n s). f_equal. apply map_zrange_ext. intros k Hk.
      simpl. fold r. fold st. replace (k <? st) with true by (symmetry; apply Z.ltb_lt; lia). auto.
    + replace (s + (st - s) <? 0) with false by (symmetry; apply Z.ltb_ge; lia).
      rewrite andb_false_r.
      set (ns := n - (st - s)).
      replace (Z.min n (Z.max 0 (st + len - s))) with ((st - s) + Z.min ns len) by lia.
      rewrite zrange_app by lia. rewrite map_app. f_equal. f_equal.
      * rewrite (repeatZ_map _ (st - s) s). apply map_zrange_ext. intros k Hk.
        simpl. fold r. fold st. replace (k <? st) with true by (symmetry; apply Z.ltb_lt; lia). auto.
      * destruct (Z.ltb_spec 0 ns).
        -- replace (s + (st - s) - st) with 0 by lia.
           rewrite file_read_spec by lia. rewrite map_map.
           replace (Z.min ns (Z.max 0 (zlen (r_data r) - 0))) with (Z.min ns len) by (unfold len; lia).
           apply map_zrange_ext2. intros i Hi. simpl. fold r. fold st.
           replace (s + (st - s) + i <? st) with false by (symmetry; apply Z.ltb_ge; lia).
           do 2 f_equal. lia.
        -- rewrite zrange_nil by lia. reflexivity.
  - (* window starts at or after the frame offset *)
    replace (0 <? 0) with false by reflexivity.
    replace (n - 0) with n by lia. replace (s + 0) with s by lia.
    replace (0 <? n) with true by (symmetry; apply Z.ltb_lt; lia).
    replace (s <? 0) with false by (symmetry; apply Z.ltb_ge; lia).
    simpl orb. simpl andb. cbv iota. simpl app.
    rewrite file_read_spec by lia. rewrite map_map. f_equal.
    replace (Z.min n (Z.max 0 (zlen (r_data r) - (s - st)))) with (Z.min n (Z.max 0 (st + len - s))) by (unfold len; lia).
    apply map_zrange_ext2. intros i Hi. simpl. fold r. fold st.
    replace (s + i <? st) with false by (symmetry; apply Z.ltb_ge; lia).
    do 2 f_equal. lia.
Qed.

(* ---- counts ------------------------------------------------------------- *)
(* c samples are at hand; e is a further end-of-field: how many remain *)
Definition cap (e : ext) (s c : Z) : Z :=
  match e with Fin x => Z.min c (Z.max 0 (x - s)) | Inf => c end.

Lemma ecount_emin e1 e2 s n : 0 <= n -> ecount (emin e1 e2) s n = cap e2 s (ecount e1 s n).
Proof. intro H. destruct e1, e2; simpl; lia. Qed.

Lemma cap_le e s c : cap e s c <= c.
Proof. destruct e; simpl; lia. Qed.

Lemma cap_nonneg e s c : 0 <= c -> 0 <= cap e s c.
Proof. destruct e; simpl; lia. Qed.

(* what the code computes as first sample and remainder of a later input
   satisfies the division equation wherever the read is covered *)
Lemma align_facts s s1 s2 :
  0 < s1 -> negb (v_align v) && negb (divides s1 (s * s2)) = false ->
  s * s2 = first2 v s s1 s2 * s1 + rem2 v s s1 s2 /\ 0 <= rem2 v s s1 s2 < s1 /\
  first2 v s s1 s2 = s * s2 / s1 /\ rem2 v s s1 s2 = arem s s1 s2.
Proof.
  intros H1 Hd. unfold first2, rem2, arem. destruct (v_align v); simpl in Hd.
  - pose proof (Z.div_mod (s * s2) s1 ltac:(lia)). pose proof (Z.mod_pos_bound (s * s2) s1 H1).
    repeat split; lia.
  - apply negb_false_iff in Hd. pose proof (divides_spec s1 (s * s2) H1 Hd) as Hq.
    destruct (quot_exact (s * s2) s1 (s * s2 / s1) H1 Hq) as [Hquot _].
    unfold divides in Hd. apply Z.eqb_eq in Hd. rewrite Hquot, Hd. repeat split; lia.
Qed.

(* the count after the second read is the number of derived samples below the
   scaled end-of-field, and every kernel index is inside what was read *)
Lemma bin_stage (E : ext) s q r c s1 s2 :
  0 < s1 -> 0 < s2 -> 0 < c -> s * s2 = q * s1 + r -> 0 <= r < s1 -> elt q E ->
  let num2 := cdiv (r + c * s2) s1 in
  let c2 := ecount E q num2 in
  let n1 := alim c2 c s1 s2 r in
  0 < c2 /\ n1 = cap (escale E s1 s2) s c /\ (forall i, 0 <= i < n1 -> (r + i * s2) / s1 < c2).
Proof.
  intros H1 H2 Hc Hq Hr He. destruct E as [e2|]; simpl in *.
  - pose proof (bin_count_fin_r s1 s2 c (e2 - q) r H1 H2 Hc ltac:(lia) Hr) as H. cbv zeta in H.
    replace (Z.min (cdiv (r + c * s2) s1) (Z.max 0 (e2 - q))) with (Z.min (cdiv (r + c * s2) s1) (e2 - q)) by lia.
    destruct H as (Ha & Hb & Hd). split; [exact Ha|]. split; [|exact Hd].
    rewrite Hb. rewrite (scale_shift_r e2 s q r s1 s2 H2 Hq).
    assert (0 <= ((e2 - q) * s1 - r) / s2) by (apply Z.div_pos; nia). lia.
  - apply bin_count_inf_r; auto.
Qed.

(* the later input is exhausted at the start: nothing is left *)
Lemma cap_zero (E : ext) s q r c s1 s2 num2 :
  0 < s1 -> 0 < s2 -> 0 <= c -> s * s2 = q * s1 + r -> 0 <= r < s1 -> 0 < num2 ->
  ecount E q num2 = 0 -> cap (escale E s1 s2) s c = 0.
Proof.
  intros H1 H2 Hc Hq Hr Hn. destruct E as [e2|]; simpl; [|lia]. intro Hz.
  assert (He : e2 <= q) by lia.
  rewrite (scale_shift_r e2 s q r s1 s2 H2 Hq).
  assert (((e2 - q) * s1 - r) / s2 < 1) by (apply div_lt_iff; nia). lia.
Qed.

(* ---- unfolding equations ---------------------------------------------------- *)
Lemma impl_read_bin rt o g h s n :
  impl_read rt (Bin o g h) s n =
  obind (impl_read rt g s n) (fun X =>
  let n1 := zlen X in
  if n1 =? 0 then Some [] else
  let s1 := spf g in let s2 := spf h in
  let r := rem2 v s s1 s2 in
  obind (impl_read (b_in2 o) h (first2 v s s1 s2) (cdiv (r + n1 * s2) s1)) (fun Y =>
  let n2 := zlen Y in
  if n2 =? 0 then Some [] else
  let n1' := alim n2 n1 s1 s2 r in
  Some (map (fun i => bkern A o rt (buf A X i) (buf A Y ((r + i * s2) / s1))) (zrange 0 n1')))).
Proof. reflexivity. Qed.

Lemma uncovered_bin rt o g h s n :
  uncovered rt (Bin o g h) s n =
  (let s1 := spf g in let s2 := spf h in
   let c1 := spec_count g s n in
   uncovered rt g s n ++
   (if c1 <=? 0 then [] else
    tag_if (negb (v_align v) && negb (divides s1 (s * s2))) TUnaligned ++
    uncovered (b_in2 o) h (s * s2 / s1) (cdiv (arem s s1 s2 + c1 * s2) s1))).
Proof. reflexivity. Qed.

Lemma eltb_elt k e : eltb k e = true -> elt k e.
Proof. destruct e; simpl; auto. intro H. apply Z.ltb_lt in H. exact H. Qed.

Lemma spec_window_nil rt f s n : spec_count f s n <= 0 -> spec_window rt f s n = [].
Proof. intro H. unfold Field.spec_window. rewrite zrange_nil; auto. Qed.

(* ---- two inputs ------------------------------------------------------------ *)
Lemma bin_case rt o g h s n :
  (forall rt s n, wf g -> 0 <= n -> covered rt g s n -> impl_read rt g s n = Some (spec_window rt g s n)) ->
  (forall rt s n, wf h -> 0 <= n -> covered rt h s n -> impl_read rt h s n = Some (spec_window rt h s n)) ->
  wf (Bin o g h) -> 0 <= n -> covered rt (Bin o g h) s n ->
  impl_read rt (Bin o g h) s n = Some (spec_window rt (Bin o g h) s n).
Proof.
  intros IHg IHh [Hwg Hwh] Hn Hc.
  unfold Field.covered in Hc. rewrite uncovered_bin in Hc.
  cbv zeta in Hc. apply app_nil_inv in Hc. destruct Hc as [Hcg Hc].
  rewrite impl_read_bin. rewrite (IHg rt s n Hwg Hn Hcg). cbn [obind]. cbv zeta.
  rewrite zlen_spec_window by auto.
  pose proof (spf_pos g Hwg) as H1. pose proof (spf_pos h Hwh) as H2.
  set (s1 := spf g) in *. set (s2 := spf h) in *.
  set (c1 := spec_count g s n) in *.
  assert (Hc1 : 0 <= c1) by (apply ecount_nonneg; auto).
  assert (Hcount : spec_count (Bin o g h) s n = cap (escale (eof h) s1 s2) s c1).
  { unfold Field.spec_count. cbn [Field.eof]. rewrite ecount_emin by auto. reflexivity. }
  assert (Es1 : spf g = s1) by reflexivity. assert (Es2 : spf h = s2) by reflexivity.
  assert (Ec1 : spec_count g s n = c1) by reflexivity.
  clearbody s1 s2 c1.
  destruct (Z.eqb_spec c1 0) as [Hz|Hnz].
  { f_equal. symmetry. apply spec_window_nil. rewrite Hcount.
    pose proof (cap_le (escale (eof h) s1 s2) s c1). lia. }
  replace (c1 <=? 0) with false in Hc by (symmetry; apply Z.leb_gt; lia).
  apply app_nil_inv in Hc. destruct Hc as [Hd Hch]. apply tag_if_nil in Hd.
  destruct (align_facts s s1 s2 H1 Hd) as (Hq & Hr & Eq & Er).
  rewrite <- Eq, <- Er in Hch.
  set (q := first2 v s s1 s2) in *. set (r := rem2 v s s1 s2) in *. clearbody q r.
  assert (Hnum : 0 < cdiv (r + c1 * s2) s1) by (apply cdiv_pos; nia).
  rewrite (IHh (b_in2 o) q (cdiv (r + c1 * s2) s1) Hwh ltac:(lia) Hch). cbn [obind].
  rewrite zlen_spec_window by lia.
  unfold Field.spec_count.
  set (c2 := ecount (eof h) q (cdiv (r + c1 * s2) s1)).
  assert (Hc2nn : 0 <= c2) by (apply ecount_nonneg; lia).
  destruct (Z.eqb_spec c2 0) as [Hz2|Hnz2].
  { f_equal. symmetry. apply spec_window_nil. rewrite Hcount.
    rewrite (cap_zero (eof h) s q r c1 s1 s2 _ H1 H2 Hc1 Hq Hr Hnum Hz2). lia. }
  assert (Helt : elt q (eof h)) by (apply (ecount_pos_elt _ q (cdiv (r + c1 * s2) s1)); fold c2; lia).
  pose proof (bin_stage (eof h) s q r c1 s1 s2 H1 H2 ltac:(lia) Hq Hr Helt) as Hst.
  cbv zeta in Hst. fold c2 in Hst. destruct Hst as (Hp2 & Hn1 & Hb).
  set (n1 := alim c2 c1 s1 s2 r) in *.
  f_equal. unfold Field.spec_window at 3. rewrite Hcount, <- Hn1.
  apply map_zrange_ext2. intros i Hi. rewrite !Z.add_0_l.
  assert (n1 <= c1) by (rewrite Hn1; apply cap_le).
  rewrite buf_spec_window by (rewrite Ec1; lia).
  assert (0 <= (r + i * s2) / s1) by (apply Z.div_pos; [nia | lia]).
  rewrite buf_spec_window by (unfold Field.spec_count; fold c2; specialize (Hb i Hi); lia).
  cbn [Field.spec_val]. rewrite Es1, Es2. rewrite (align_index_r s i s1 s2 q r H1 Hq), <- Eq.
  reflexivity.
Qed.

(* ---- three inputs (LINCOM 3) -------------------------------------------------- *)
Lemma impl_read_tri rt o g h l s n :
  impl_read rt (Tri o g h l) s n =
  obind (impl_read rt g s n) (fun X =>
  let n1 := zlen X in
  if n1 =? 0 then Some [] else
  let s1 := spf g in let s2 := spf h in let s3 := spf l in
  let r2 := rem2 v s s1 s2 in let r3 := rem2 v s s1 s3 in
  obind (impl_read F64 h (first2 v s s1 s2) (cdiv (r2 + n1 * s2) s1)) (fun Y =>
  let n2 := zlen Y in
  if n2 =? 0 then Some [] else
  let n1' := alim n2 n1 s1 s2 r2 in
  if n1' =? 0 then (if v_align v || v_alloc0 v then Some [] else None)
  else
  obind (impl_read F64 l (first2 v s s1 s3) (cdiv (r3 + n1' * s3) s1)) (fun W =>
  let n3 := zlen W in
  if n3 =? 0 then Some [] else
  let n1'' := alim n3 n1' s1 s3 r3 in
  Some (map (fun i => tkern A o rt (buf A X i) (buf A Y ((r2 + i * s2) / s1)) (buf A W ((r3 + i * s3) / s1)))
            (zrange 0 n1''))))).
Proof. reflexivity. Qed.

Lemma uncovered_tri rt o g h l s n :
  uncovered rt (Tri o g h l) s n =
  (let s1 := spf g in let s2 := spf h in let s3 := spf l in
   let c1 := spec_count g s n in
   uncovered rt g s n ++
   (if c1 <=? 0 then [] else
    tag_if (negb (v_align v) && negb (divides s1 (s * s2))) TUnaligned ++
    uncovered F64 h (s * s2 / s1) (cdiv (arem s s1 s2 + c1 * s2) s1) ++
    let c2 := spec_count h (s * s2 / s1) (cdiv (arem s s1 s2 + c1 * s2) s1) in
    if c2 <=? 0 then [] else
    let n1 := alim c2 c1 s1 s2 (arem s s1 s2) in
    tag_if (negb (v_align v || v_alloc0 v) && (n1 =? 0)) TAllocZero ++
    (if n1 <=? 0 then [] else
     tag_if (negb (v_align v) && negb (divides s1 (s * s3))) TUnaligned ++
     uncovered F64 l (s * s3 / s1) (cdiv (arem s s1 s3 + n1 * s3) s1)))).
Proof. reflexivity. Qed.

Lemma tri_case rt o g h l s n :
  (forall rt s n, wf g -> 0 <= n -> covered rt g s n -> impl_read rt g s n = Some (spec_window rt g s n)) ->
  (forall rt s n, wf h -> 0 <= n -> covered rt h s n -> impl_read rt h s n = Some (spec_window rt h s n)) ->
  (forall rt s n, wf l -> 0 <= n -> covered rt l s n -> impl_read rt l s n = Some (spec_window rt l s n)) ->
  wf (Tri o g h l) -> 0 <= n -> covered rt (Tri o g h l) s n ->
  impl_read rt (Tri o g h l) s n = Some (spec_window rt (Tri o g h l) s n).
Proof.
  intros IHg IHh IHl (Hwg & Hwh & Hwl) Hn Hc.
  unfold Field.covered in Hc. rewrite uncovered_tri in Hc.
  cbv zeta in Hc. apply app_nil_inv in Hc. destruct Hc as [Hcg Hc].
  rewrite impl_read_tri. rewrite (IHg rt s n Hwg Hn Hcg). cbn [obind]. cbv zeta.
  rewrite zlen_spec_window by auto.
  pose proof (spf_pos g Hwg) as H1. pose proof (spf_pos h Hwh) as H2. pose proof (spf_pos l Hwl) as H3.
  set (s1 := spf g) in *. set (s2 := spf h) in *. set (s3 := spf l) in *.
  set (c1 := spec_count g s n) in *.
  assert (Hc1 : 0 <= c1) by (apply ecount_nonneg; auto).
  set (e2 := escale (eof h) s1 s2). set (e3 := escale (eof l) s1 s3).
  assert (Hcount : spec_count (Tri o g h l) s n = cap e3 s (cap e2 s c1)).
  { unfold Field.spec_count. cbn [Field.eof]. rewrite !ecount_emin by auto. reflexivity. }
  assert (Es1 : spf g = s1) by reflexivity. assert (Es2 : spf h = s2) by reflexivity.
  assert (Es3 : spf l = s3) by reflexivity.
  assert (Ec1 : spec_count g s n = c1) by reflexivity.
  clearbody s1 s2 s3 c1.
  destruct (Z.eqb_spec c1 0) as [Hz|Hnz].
  { f_equal. symmetry. apply spec_window_nil. rewrite Hcount.
    pose proof (cap_le e3 s (cap e2 s c1)). pose proof (cap_le e2 s c1). lia. }
  replace (c1 <=? 0) with false in Hc by (symmetry; apply Z.leb_gt; lia).
  apply app_nil_inv in Hc. destruct Hc as [Hd2 Hc]. apply tag_if_nil in Hd2.
  apply app_nil_inv in Hc. destruct Hc as [Hch Hc].
  destruct (align_facts s s1 s2 H1 Hd2) as (Hq2 & Hr2 & Eq2 & Er2).
  rewrite <- Eq2, <- Er2 in Hch, Hc.
  set (q2 := first2 v s s1 s2) in *. set (r2 := rem2 v s s1 s2) in *. clearbody q2 r2.
  assert (Hnum2 : 0 < cdiv (r2 + c1 * s2) s1) by (apply cdiv_pos; nia).
  rewrite (IHh F64 q2 (cdiv (r2 + c1 * s2) s1) Hwh ltac:(lia) Hch). cbn [obind]. rewrite zlen_spec_window by lia.
  unfold Field.spec_count in Hc |- *.
  set (c2 := ecount (eof h) q2 (cdiv (r2 + c1 * s2) s1)) in *.
  assert (Hc2nn : 0 <= c2) by (apply ecount_nonneg; lia).
  destruct (Z.eqb_spec c2 0) as [Hz2|Hnz2].
  { f_equal. symmetry. apply spec_window_nil. rewrite Hcount.
    unfold e2. rewrite (cap_zero (eof h) s q2 r2 c1 s1 s2 _ H1 H2 Hc1 Hq2 Hr2 Hnum2 Hz2).
    pose proof (cap_le e3 s 0). lia. }
  assert (Helt2 : elt q2 (eof h)) by (apply (ecount_pos_elt _ q2 (cdiv (r2 + c1 * s2) s1)); fold c2; lia).
  pose proof (bin_stage (eof h) s q2 r2 c1 s1 s2 H1 H2 ltac:(lia) Hq2 Hr2 Helt2) as Hst.
  cbv zeta in Hst. fold c2 in Hst. fold e2 in Hst. destruct Hst as (_ & Hn1 & Hb2).
  replace (c2 <=? 0) with false in Hc by (symmetry; apply Z.leb_gt; lia).
  set (n1 := alim c2 c1 s1 s2 r2) in *.
  apply app_nil_inv in Hc. destruct Hc as [Hal Hc]. apply tag_if_nil in Hal.
  assert (Hn1nn : 0 <= n1) by (rewrite Hn1; apply cap_nonneg; lia).
  destruct (Z.eqb_spec n1 0) as [Hz1|Hnz1].
  { (* field two ends the field before the first sample *)
    rewrite andb_true_r in Hal. apply negb_false_iff in Hal. rewrite Hal.
    f_equal. symmetry. apply spec_window_nil. rewrite Hcount, <- Hn1, Hz1.
    pose proof (cap_le e3 s 0). lia. }
  replace (n1 <=? 0) with false in Hc by (symmetry; apply Z.leb_gt; lia).
  apply app_nil_inv in Hc. destruct Hc as [Hd3 Hcl]. apply tag_if_nil in Hd3.
  destruct (align_facts s s1 s3 H1 Hd3) as (Hq3 & Hr3 & Eq3 & Er3).
  rewrite <- Eq3, <- Er3 in Hcl.
  set (q3 := first2 v s s1 s3) in *. set (r3 := rem2 v s s1 s3) in *. clearbody q3 r3.
  assert (Hnum3 : 0 < cdiv (r3 + n1 * s3) s1) by (apply cdiv_pos; nia).
  rewrite (IHl F64 q3 (cdiv (r3 + n1 * s3) s1) Hwl ltac:(lia) Hcl). cbn [obind]. rewrite zlen_spec_window by lia.
  unfold Field.spec_count.
  set (c3 := ecount (eof l) q3 (cdiv (r3 + n1 * s3) s1)) in *.
  assert (Hc3nn : 0 <= c3) by (apply ecount_nonneg; lia).
  destruct (Z.eqb_spec c3 0) as [Hz3|Hnz3].
  { f_equal. symmetry. apply spec_window_nil. rewrite Hcount, <- Hn1.
    unfold e3. rewrite (cap_zero (eof l) s q3 r3 n1 s1 s3 _ H1 H3 Hn1nn Hq3 Hr3 Hnum3 Hz3). lia. }
  assert (Helt3 : elt q3 (eof l)) by (apply (ecount_pos_elt _ q3 (cdiv (r3 + n1 * s3) s1)); fold c3; lia).
  pose proof (bin_stage (eof l) s q3 r3 n1 s1 s3 H1 H3 ltac:(lia) Hq3 Hr3 Helt3) as Hst.
  cbv zeta in Hst. fold c3 in Hst. fold e3 in Hst. destruct Hst as (_ & Hn2 & Hb3).
  set (n2 := alim c3 n1 s1 s3 r3) in *.
  f_equal. unfold Field.spec_window at 4. rewrite Hcount, <- Hn1, <- Hn2.
  apply map_zrange_ext2. intros i Hi. rewrite !Z.add_0_l.
  assert (n2 <= n1) by (rewrite Hn2; apply cap_le).
  assert (n1 <= c1) by (rewrite Hn1; apply cap_le).
  rewrite buf_spec_window by (rewrite Ec1; lia).
  assert (0 <= (r2 + i * s2) / s1) by (apply Z.div_pos; [nia | lia]).
  assert (0 <= (r3 + i * s3) / s1) by (apply Z.div_pos; [nia | lia]).
  rewrite buf_spec_window by (unfold Field.spec_count; fold c2; specialize (Hb2 i ltac:(lia)); lia).
  rewrite buf_spec_window by (unfold Field.spec_count; fold c3; specialize (Hb3 i Hi); lia).
  cbn [Field.spec_val]. rewrite Es1, Es2, Es3.
  rewrite (align_index_r s i s1 s2 q2 r2 H1 Hq2), (align_index_r s i s1 s3 q3 r3 H1 Hq3), <- Eq2, <- Eq3.
  reflexivity.
Qed.

(* ---- MPLEX ---------------------------------------------------------------------- *)
Section Mplex.
Variables (cnt : Z) (fv gi : Z -> V A) (padv : V A).
Let gm (k : Z) : bool := mplex_match A cnt (gi k).
Let M (k : Z) : V A := mplex_at A fv gm padv k.

Lemma M_unfold k : 0 <= k -> M k = if gm k then fv k else if k =? 0 then padv else M (k - 1).
Proof.
  intro Hk. unfold M, mplex_at. replace (k <? 0) with false by (symmetry; apply Z.ltb_ge; lia).
  destruct (Z.to_nat k) as [|j] eqn:E.
  - assert (k = 0) by lia. subst k. simpl. reflexivity.
  - assert (Hk' : k = Z.of_nat (S j)) by lia.
    cbn [mplex_nat]. rewrite <- Hk'.
    replace (k =? 0) with false by (symmetry; apply Z.eqb_neq; lia).
    replace (k - 1 <? 0) with false by (symmetry; apply Z.ltb_ge; lia).
    replace (Z.to_nat (k - 1)) with j by lia. reflexivity.
Qed.

Lemma M_none : forall k, 0 <= k -> (forall i, 0 <= i <= k -> gm i = false) -> M k = padv.
Proof.
  intros k Hk. pattern k. apply natlike_ind; auto; clear k Hk.
  - intros H. rewrite M_unfold by lia. rewrite H by lia. reflexivity.
  - intros k Hk IH H. rewrite M_unfold by lia. rewrite H by lia.
    replace (Z.succ k =? 0) with false by (symmetry; apply Z.eqb_neq; lia).
    replace (Z.succ k - 1) with k by lia. apply IH. intros. apply H. lia.
Qed.

Lemma M_last j : forall d, 0 <= d -> 0 <= j -> gm j = true ->
  (forall i, j < i <= j + d -> gm i = false) -> M (j + d) = fv j.
Proof.
  intros d Hd. pattern d. apply natlike_ind; auto; clear d Hd.
  - intros Hj Hg _. rewrite Z.add_0_r, M_unfold by lia. now rewrite Hg.
  - intros d Hd IH Hj Hg H. rewrite M_unfold by lia. rewrite H by lia.
    replace (j + Z.succ d =? 0) with false by (symmetry; apply Z.eqb_neq; lia).
    replace (j + Z.succ d - 1) with (j + d) by lia. apply IH; auto. intros. apply H. lia.
Qed.

Lemma fold_spec : forall (m : nat) s st,
  0 <= s ->
  (gm s = false -> st = if s =? 0 then padv else M (s - 1)) ->
  mplex_fold A cnt st (map fv (zrange s (Z.of_nat m))) (map gi (zrange s (Z.of_nat m)))
  = map M (zrange s (Z.of_nat m)).
Proof.
  induction m as [|m IH]; intros s st Hs Hst.
  - reflexivity.
  - rewrite (zrange_cons s (Z.of_nat (S m))) by lia.
    replace (Z.of_nat (S m) - 1) with (Z.of_nat m) by lia.
    cbn [map mplex_fold]. fold (gm s). rewrite (M_unfold s Hs).
    destruct (gm s) eqn:Eg.
    + f_equal. apply IH; [lia|]. intros _.
      replace (s + 1 =? 0) with false by (symmetry; apply Z.eqb_neq; lia).
      replace (s + 1 - 1) with s by lia. rewrite (M_unfold s Hs), Eg. reflexivity.
    + rewrite <- (Hst eq_refl). f_equal. apply IH; [lia|]. intros _.
      replace (s + 1 =? 0) with false by (symmetry; apply Z.eqb_neq; lia).
      replace (s + 1 - 1) with s by lia. rewrite (M_unfold s Hs), Eg. apply Hst. reflexivity.
Qed.

Lemma last_match_spec : forall (m : nat) p acc,
  let r := last_match A cnt (map gi (zrange p (Z.of_nat m))) p acc in
  (r = acc /\ forall k, p <= k < p + Z.of_nat m -> gm k = false) \/
  (exists j, r = Some j /\ p <= j < p + Z.of_nat m /\ gm j = true /\
             forall k, j < k < p + Z.of_nat m -> gm k = false).
Proof.
  induction m as [|m IH]; intros p acc r.
  - left. split; [reflexivity|]. intros. lia.
  - unfold r. rewrite (zrange_cons p (Z.of_nat (S m))) by lia.
    replace (Z.of_nat (S m) - 1) with (Z.of_nat m) by lia.
    cbn [map last_match]. fold (gm p).
    specialize (IH (p + 1) (if gm p then Some p else acc)). cbv zeta in IH.
    destruct IH as [[Hr Hno]|(j & Hr & Hj & Hg & Hno)].
    + rewrite Hr. destruct (gm p) eqn:Eg.
      * right. exists p. split; [reflexivity|]. split; [lia|]. split; [exact Eg|].
        intros. apply Hno. lia.
      * left. split; [reflexivity|]. intros k Hk. destruct (Z.eq_dec k p); [subst; auto|apply Hno; lia].
    + right. exists j. split; [exact Hr|]. split; [lia|]. split; [exact Hg|]. intros. apply Hno. lia.
Qed.

End Mplex.

Lemma mplex_nat_ext fv fv' gm gm' padv : (forall j, fv j = fv' j) -> (forall j, gm j = gm' j) ->
  forall k, mplex_nat A fv gm padv k = mplex_nat A fv' gm' padv k.
Proof. intros Hf Hg. induction k; simpl; rewrite Hf, Hg; [reflexivity|]. now rewrite IHk. Qed.

Lemma mplex_at_ext fv fv' gm gm' padv k : (forall j, fv j = fv' j) -> (forall j, gm j = gm' j) ->
  mplex_at A fv gm padv k = mplex_at A fv' gm' padv k.
Proof. intros Hf Hg. unfold mplex_at. rewrite Hf, Hg. now rewrite (mplex_nat_ext fv fv' gm gm' padv Hf Hg). Qed.

(* with an unlimited look-back, or without MPLEX, a sample's value does not
   depend on where the read started *)
Lemma spec_val_start f : lb < 0 \/ mplexfreeb f = true ->
  forall rt s s' k, spec_val rt f s k = spec_val rt f s' k.
Proof.
  induction f; simpl; intros H rt s s' k; auto.
  - f_equal. apply IHf; auto.
  - assert (H1 : lb < 0 \/ mplexfreeb f1 = true) by (destruct H as [H|H]; auto; apply andb_true_iff in H; tauto).
    assert (H2 : lb < 0 \/ mplexfreeb f2 = true) by (destruct H as [H|H]; auto; apply andb_true_iff in H; tauto).
    f_equal; [apply IHf1 | apply IHf2]; auto.
  - assert (H1 : lb < 0 \/ mplexfreeb f1 = true) by (destruct H as [H|H]; auto; rewrite !andb_true_iff in H; tauto).
    assert (H2 : lb < 0 \/ mplexfreeb f2 = true) by (destruct H as [H|H]; auto; rewrite !andb_true_iff in H; tauto).
    assert (H3 : lb < 0 \/ mplexfreeb f3 = true) by (destruct H as [H|H]; auto; rewrite !andb_true_iff in H; tauto).
    f_equal; [apply IHf1 | apply IHf2 | apply IHf3]; auto.
  - destruct H as [H|H]; [|discriminate].
    unfold mplex_lo. replace (lb <? 0) with true by (symmetry; apply Z.ltb_lt; lia).
    unfold mplex_from. apply mplex_at_ext.
    + intro j. apply IHf1; auto.
    + intro j. f_equal. apply IHf2; auto.
Qed.

Lemma concat_map_nil {X Y} (f : X -> list Y) l : concat (map f l) = [] -> forall x, In x l -> f x = [].
Proof.
  induction l; simpl; intros H x Hx; [tauto|].
  apply app_nil_inv in H. destruct H as [Ha Hl]. destruct Hx as [<-|Hx]; auto.
Qed.

Lemma impl_read_mplex rt g h cnt per s n :
  impl_read rt (Mplex g h cnt per) s n =
  obind (impl_read rt g s n) (fun X =>
  let n1 := zlen X in
  if n1 =? 0 then Some [] else
  let s1 := spf g in let s2 := spf h in
  let r := rem2 v s s1 s2 in
  let f2 := first2 v s s1 s2 in
  obind (impl_read I32 h f2 (cdiv (r + n1 * s2) s1)) (fun Y =>
  let n2 := zlen Y in
  if n2 =? 0 then Some [] else
  obind
    (if mplex_match A cnt (buf A Y 0) then Some (pad A rt)
     else if lb =? 0 then Some (pad A rt)
     else
       let lo := mplex_lo lb cnt per f2 in
       obind
         (if f2 <=? lo then Some (pad A rt)
          else
            obind (impl_read I32 h lo (f2 - lo)) (fun L =>
            match last_match A cnt L lo None with
            | Some j => obind (impl_read rt g (j * s1 / s2) 1) (fun R => Some (hd (pad A rt) R))
            | None => Some (pad A rt)
            end))
         (fun st => if seek_ok g (s + n1) && seek_ok h (f2 + n2) then Some st else None))
    (fun start =>
  let n1' := alim n2 n1 s1 s2 r in
  Some (mplex_fold A cnt start
          (map (buf A X) (zrange 0 n1'))
          (map (fun i => buf A Y ((r + i * s2) / s1)) (zrange 0 n1')))))).
Proof. reflexivity. Qed.

Lemma uncovered_mplex rt g h cnt per s n :
  uncovered rt (Mplex g h cnt per) s n =
  (let s1 := spf g in let s2 := spf h in
   let c1 := spec_count g s n in
   uncovered rt g s n ++
   (if c1 <=? 0 then [] else
    tag_if (negb (s1 =? s2)) TMplexRate ++
    tag_if (s <? 0) TMplexNeg ++
    tag_if (negb ((lb <? 0) || (mplexfreeb g && mplexfreeb h))) TMplexNested ++
    tag_if (negb (seek_ok g (s + c1) &&
                  seek_ok h (s * s2 / s1 + spec_count h (s * s2 / s1) (cdiv (arem s s1 s2 + c1 * s2) s1)))) TMplexSeek ++
    uncovered I32 h (s * s2 / s1) (cdiv (arem s s1 s2 + c1 * s2) s1) ++
    (let lo := mplex_lo lb cnt per (s * s2 / s1) in
     if lo <? s * s2 / s1 then
       uncovered I32 h lo (s * s2 / s1 - lo) ++
       concat (map (fun j => uncovered rt g (j * s1 / s2) 1) (zrange lo (s * s2 / s1 - lo)))
     else []))).
Proof. reflexivity. Qed.

Lemma ecount_tail e lo s : lo <= s -> elt s e -> ecount e lo (s - lo) = s - lo.
Proof. destruct e; simpl; lia. Qed.

Lemma ecount_one e j : elt j e -> ecount e j 1 = 1.
Proof. destruct e; simpl; lia. Qed.

Lemma elt_mono e j s : j <= s -> elt s e -> elt j e.
Proof. destruct e; simpl; lia. Qed.

Lemma mplex_lo_bounds cnt per q : 0 <= per -> 0 <= q -> 0 <= mplex_lo lb cnt per q <= q.
Proof.
  intros Hp Hq. unfold mplex_lo, mplex_cycle. destruct (Z.ltb_spec lb 0); [lia|].
  destruct (Z.eqb_spec per 0); nia.
Qed.

Lemma mplex_case rt g h cnt per s n :
  (forall rt s n, wf g -> 0 <= n -> covered rt g s n -> impl_read rt g s n = Some (spec_window rt g s n)) ->
  (forall rt s n, wf h -> 0 <= n -> covered rt h s n -> impl_read rt h s n = Some (spec_window rt h s n)) ->
  wf (Mplex g h cnt per) -> 0 <= n -> covered rt (Mplex g h cnt per) s n ->
  impl_read rt (Mplex g h cnt per) s n = Some (spec_window rt (Mplex g h cnt per) s n).
Proof.
  intros IHg IHh (Hwg & Hwh & Hper) Hn Hc.
  unfold Field.covered in Hc. rewrite uncovered_mplex in Hc.
  cbv zeta in Hc. apply app_nil_inv in Hc. destruct Hc as [Hcg Hc].
  rewrite impl_read_mplex. rewrite (IHg rt s n Hwg Hn Hcg). cbn [obind]. cbv zeta.
  rewrite zlen_spec_window by auto.
  pose proof (spf_pos g Hwg) as H1.
  assert (Hcount : spec_count (Mplex g h cnt per) s n = cap (escale (eof h) (spf g) (spf h)) s (spec_count g s n)).
  { unfold Field.spec_count. cbn [Field.eof]. rewrite ecount_emin by auto. reflexivity. }
  assert (Hc1 : 0 <= spec_count g s n) by (apply ecount_nonneg; auto).
  destruct (Z.eqb_spec (spec_count g s n) 0) as [Hz|Hnz].
  { f_equal. symmetry. apply spec_window_nil. rewrite Hcount.
    pose proof (cap_le (escale (eof h) (spf g) (spf h)) s (spec_count g s n)). lia. }
  replace (spec_count g s n <=? 0) with false in Hc by (symmetry; apply Z.leb_gt; lia).
  apply app_nil_inv in Hc. destruct Hc as [Hr Hc]. apply tag_if_nil in Hr. apply negb_false_iff in Hr.
  apply Z.eqb_eq in Hr. assert (Es2 : spf h = spf g) by (symmetry; exact Hr). clear Hr. rewrite Es2 in *.
  set (s1 := spf g) in *. set (c1 := spec_count g s n) in *.
  assert (Es1 : spf g = s1) by reflexivity. assert (Ec1 : spec_count g s n = c1) by reflexivity.
  clearbody s1 c1.
  (* equal rates: the second input starts at s with remainder 0 in both variants *)
  assert (Hdv : negb (v_align v) && negb (divides s1 (s * s1)) = false).
  { unfold divides. rewrite Z.mod_mul by lia. simpl. apply andb_false_r. }
  destruct (align_facts s s1 s1 H1 Hdv) as (_ & _ & Eq & Er).
  rewrite Eq, Er. unfold arem in *. rewrite Z.mod_mul in * by lia. rewrite Z.div_mul in * by lia.
  rewrite Z.add_0_l in *. rewrite cdiv_mul in * by lia.
  apply app_nil_inv in Hc. destruct Hc as [Hs0 Hc]. apply tag_if_nil in Hs0. apply Z.ltb_ge in Hs0.
  apply app_nil_inv in Hc. destruct Hc as [Hnest Hc]. apply tag_if_nil in Hnest. apply negb_false_iff in Hnest.
  assert (Hig : lb < 0 \/ mplexfreeb g = true).
  { apply orb_true_iff in Hnest. destruct Hnest as [H|H]; [left; apply Z.ltb_lt; exact H|right; apply andb_true_iff in H; tauto]. }
  assert (Hih : lb < 0 \/ mplexfreeb h = true).
  { apply orb_true_iff in Hnest. destruct Hnest as [H|H]; [left; apply Z.ltb_lt; exact H|right; apply andb_true_iff in H; tauto]. }
  apply app_nil_inv in Hc. destruct Hc as [Hsk Hc]. apply tag_if_nil in Hsk. apply negb_false_iff in Hsk.
  apply app_nil_inv in Hc. destruct Hc as [Hch Hlb].
  rewrite (IHh I32 s c1 Hwh Hc1 Hch). cbn [obind]. rewrite zlen_spec_window by auto.
  unfold Field.spec_count in Hsk |- *.
  set (c2 := ecount (eof h) s c1) in *.
  assert (Hc2nn : 0 <= c2) by (apply ecount_nonneg; lia).
  assert (Hq : s * s1 = s * s1 + 0) by lia.
  destruct (Z.eqb_spec c2 0) as [Hz2|Hnz2].
  { f_equal. symmetry. apply spec_window_nil. rewrite Hcount.
    rewrite (cap_zero (eof h) s s 0 c1 s1 s1 c1 H1 H1 Hc1 Hq ltac:(lia) ltac:(lia) Hz2). lia. }
  assert (He : elt s (eof h)) by (apply (ecount_pos_elt _ s c1); fold c2; lia).
  pose proof (bin_stage (eof h) s s 0 c1 s1 s1 H1 H1 ltac:(lia) Hq ltac:(lia) He) as Hst.
  cbv zeta in Hst. rewrite Z.add_0_l, cdiv_mul in Hst by lia. fold c2 in Hst.
  destruct Hst as (Hp2 & Hn1 & Hb).
  set (n1 := alim c2 c1 s1 s1 0) in *.
  assert (Hn1le : n1 <= c1) by (rewrite Hn1; apply cap_le).
  assert (Hn1nn : 0 <= n1) by (rewrite Hn1; apply cap_nonneg; lia).
  assert (Helt_g : elt s (eof g)).
  { apply (ecount_pos_elt _ s n). unfold Field.spec_count in Ec1. lia. }
  (* the first sample the look-back considers *)
  pose proof (mplex_lo_bounds cnt per s Hper Hs0) as Hlo.
  set (lo := mplex_lo lb cnt per s) in *.
  (* the documented MPLEX over the two input functions, counted from lo *)
  set (fv := fun i => spec_val rt g s (lo + i)). set (gi := fun i => spec_val I32 h s (lo + i)).
  set (gm := fun k => mplex_match A cnt (gi k)).
  set (Mf := fun k => mplex_at A fv gm (pad A rt) k).
  assert (HM : forall k, spec_val rt (Mplex g h cnt per) s k = Mf (k - lo)).
  { intro k. cbn [Field.spec_val]. rewrite Es2, Es1. rewrite Z.div_mul by lia. fold lo.
    rewrite cdiv_mul by lia. unfold mplex_from, Mf. apply mplex_at_ext; [reflexivity|].
    intro j. unfold gm, gi. rewrite Z.div_mul by lia. reflexivity. }
  (* the start value *)
  assert (Hstart : exists st,
    (if mplex_match A cnt (buf A (spec_window I32 h s c1) 0) then Some (pad A rt)
     else if lb =? 0 then Some (pad A rt)
     else obind
       (if s <=? lo then Some (pad A rt)
        else obind (impl_read I32 h lo (s - lo)) (fun L =>
             match last_match A cnt L lo None with
             | Some j => obind (impl_read rt g (j * s1 / s1) 1) (fun R => Some (hd (pad A rt) R))
             | None => Some (pad A rt)
             end))
       (fun st => if seek_ok g (s + c1) && seek_ok h (s + c2) then Some st else None)) = Some st /\
    (gm (s - lo) = false -> st = if s - lo =? 0 then pad A rt else Mf (s - lo - 1))).
  { rewrite buf_spec_window by (unfold Field.spec_count; fold c2; lia).
    rewrite Z.add_0_r. replace (spec_val I32 h s s) with (gi (s - lo)) by (unfold gi; f_equal; lia).
    fold (gm (s - lo)).
    destruct (gm (s - lo)) eqn:Eg.
    { exists (pad A rt). split; [reflexivity|]. discriminate. }
    destruct (Z.eqb_spec lb 0) as [Hl0|Hl0].
    { exists (pad A rt). split; [reflexivity|]. intros _.
      assert (lo = s) by (unfold lo, mplex_lo; subst lb; simpl; lia).
      replace (s - lo =? 0) with true by (symmetry; apply Z.eqb_eq; lia). reflexivity. }
    rewrite Hsk.
    destruct (Z.leb_spec s lo) as [Hs|Hs].
    { exists (pad A rt). split; [reflexivity|]. intros _.
      replace (s - lo =? 0) with true by (symmetry; apply Z.eqb_eq; lia). reflexivity. }
    replace (lo <? s) with true in Hlb by (symmetry; apply Z.ltb_lt; lia).
    apply app_nil_inv in Hlb. destruct Hlb as [Hl0' Hlg].
    rewrite (IHh I32 lo (s - lo) Hwh ltac:(lia) Hl0'). cbn [obind].
    unfold Field.spec_window at 1. unfold Field.spec_count.
    rewrite (ecount_tail (eof h) lo s ltac:(lia) He).
    assert (HL : map (spec_val I32 h lo) (zrange lo (s - lo)) = map (fun j => gi (j - lo)) (zrange lo (s - lo))).
    { apply map_ext. intro j. unfold gi. rewrite (spec_val_start h Hih I32 lo s). f_equal. lia. }
    rewrite HL.
    pose proof (last_match_spec cnt (fun j => gi (j - lo)) (Z.to_nat (s - lo)) lo None) as Hlm. cbv zeta in Hlm.
    rewrite Z2Nat.id in Hlm by lia.
    destruct Hlm as [[Hr Hno]|(j & Hr & Hj & Hg & Hno)]; rewrite Hr.
    - exists (pad A rt). split; [reflexivity|]. intros _.
      replace (s - lo =? 0) with false by (symmetry; apply Z.eqb_neq; lia).
      unfold Mf. symmetry. apply M_none; [lia|]. intros i Hi. unfold gm.
      specialize (Hno (lo + i) ltac:(lia)). replace (lo + i - lo) with i in Hno by lia. exact Hno.
    - rewrite Z.div_mul by lia.
      assert (Hcj : covered rt g j 1).
      { unfold Field.covered. pose proof (concat_map_nil _ _ Hlg j) as Hx. cbv beta in Hx.
        rewrite Z.div_mul in Hx by lia. apply Hx. apply in_zrange. lia. }
      rewrite (IHg rt j 1 Hwg ltac:(lia) Hcj). cbn [obind].
      unfold Field.spec_window, Field.spec_count.
      rewrite (ecount_one (eof g) j (elt_mono _ j s ltac:(lia) Helt_g)).
      replace (zrange j 1) with [j] by (unfold zrange; simpl; f_equal; lia). cbn [map hd].
      exists (spec_val rt g j j). split; [reflexivity|]. intros _.
      replace (s - lo =? 0) with false by (symmetry; apply Z.eqb_neq; lia).
      unfold Mf. replace (s - lo - 1) with ((j - lo) + (s - 1 - j)) by lia.
      transitivity (fv (j - lo)).
      + unfold fv. rewrite (spec_val_start g Hig rt j s). f_equal. lia.
      + symmetry. apply (M_last cnt fv gi (pad A rt) (j - lo) (s - 1 - j)); try lia.
        * exact Hg.
        * intros i Hi. specialize (Hno (lo + i) ltac:(lia)). replace (lo + i - lo) with i in Hno by lia. exact Hno. }
  fold lo.
  destruct Hstart as (st & Est & Hst). rewrite Est. cbn [obind].
  f_equal. unfold Field.spec_window at 3. rewrite Hcount, <- Hn1.
  replace (map (spec_val rt (Mplex g h cnt per) s) (zrange s n1)) with (map Mf (zrange (s - lo) n1)).
  2:{ apply map_zrange_ext2. intros i Hi. rewrite HM. f_equal. lia. }
  replace (map (buf A (spec_window rt g s n)) (zrange 0 n1)) with (map fv (zrange (s - lo) n1)).
  2:{ apply map_zrange_ext2. intros i Hi. rewrite Z.add_0_l.
      rewrite buf_spec_window by (rewrite Ec1; lia). unfold fv. f_equal. lia. }
  replace (map (fun i => buf A (spec_window I32 h s c1) ((0 + i * s1) / s1)) (zrange 0 n1)) with (map gi (zrange (s - lo) n1)).
  2:{ apply map_zrange_ext2. intros i Hi. rewrite !Z.add_0_l. rewrite Z.div_mul by lia.
      pose proof (Hb i Hi) as Hbi. rewrite Z.add_0_l, Z.div_mul in Hbi by lia.
      rewrite buf_spec_window by (unfold Field.spec_count; fold c2; lia). unfold gi. f_equal. lia. }
  rewrite <- (Z2Nat.id n1 Hn1nn).
  apply (fold_spec cnt fv gi (pad A rt) (Z.to_nat n1) (s - lo) st ltac:(lia) Hst).
Qed.

(* ---- the main theorem ------------------------------------------------------------ *)
Theorem read_ok : forall f rt s n,
  wf f -> 0 <= n -> covered rt f s n ->
  impl_read rt f s n = Some (spec_window rt f s n).
Proof.
  induction f; intros rt s n Hwf Hn Hc.
  - apply raw_case; auto.
  - (* INDEX *)
    reflexivity.
  - (* PHASE *)
    unfold Field.covered in Hc. simpl in Hc.
    simpl. rewrite (IHf rt (s + shift) n Hwf Hn Hc). f_equal.
    unfold Field.spec_window, Field.spec_count. cbn [Field.eof].
    replace (ecount (eshift (eof f) (- shift)) s n) with (ecount (eof f) (s + shift) n).
    2:{ destruct (eof f); simpl; [f_equal; lia|reflexivity]. }
    apply map_zrange_ext2. intros i Hi. cbn [Field.spec_val]. f_equal. lia.
  - (* one input *)
    unfold Field.covered in Hc. simpl in Hc.
    apply app_nil_inv in Hc. destruct Hc as [Ha Hc]. apply tag_if_nil in Ha.
    simpl. rewrite Ha. rewrite (IHf (u_in o rt) s n Hwf Hn Hc). cbn [obind]. f_equal.
    unfold Field.spec_window. rewrite map_map. reflexivity.
  - apply bin_case; auto.
  - apply tri_case; auto.
  - apply mplex_case; auto.
Qed.

End Proofs.
