From GD Require Import C06.Convert C01.Field C01.Read C01.Inst C16.Limits C01.Exec.
Require Import ExtrOcamlBasic.
Extraction Language OCaml.
Extraction "model.ml" mk_variant x_impl_read x_spec_window x_spec_val x_uncovered x_wfb x_spf x_eof
  x_impl_eof x_impl_bof x_impl_nframes x_spec_eof_report x_spec_bof x_spec_nframes x_is_real x_noclampb x_nophaseb.
