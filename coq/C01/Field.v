(* C01: field syntax, database, and the SPECIFICATION of a read.

   - field       : the vector-field AST (RAW leaves refer to a database entry)
   - Alg         : the value algebra (sample values, per-sample kernels); the
                   theorems hold for every algebra, C01/Inst.v gives the
                   executable one (IEEE doubles / C integers)
   - eof, spec_val, spec_window : what dirfile-format(5), gd_getdata(3) and
                   gd_eof(3) define
   - covered     : the region of (field, return type, first sample, count) on
                   which the unchanged code is proved to agree with the
                   specification (everything outside it is a listed finding or
                   declared implementation dependent by the Standards)
   No proofs here. *)
From Coq Require Import ZArith List Bool Lia.
From GD Require Import C06.Convert.
Import ListNotations.
Local Open Scope Z_scope.

(* ---- syntax ----------------------------------------------------------- *)
Inductive windop := WEq | WGe | WGt | WLe | WLt | WNe | WSet | WClr.

(* one-input operators; scalar parameters are IEEE binary64 bit patterns *)
Inductive uop :=
| ULincom (m b : Z)                       (* LINCOM 1 f m b *)
| ULinterp (tab : list (Z * Z))           (* LINTERP f table   (x,y) rows, parsed *)
| UBit (sgn : bool) (bitnum numbits : Z)  (* BIT / SBIT *)
| URecip (d : Z)                          (* RECIP f d *)
| UPolynom (a : list Z)                   (* POLYNOM f a0 a1 .. *)
| UIndir (cty : ctype) (arr : list Z).    (* INDIR f carray  (carray storage type, element bits) *)

Inductive bop :=
| BLincom (m1 b1 m2 b2 : Z)
| BMultiply
| BDivide
| BWindow (op : windop) (thr : Z).

Inductive top := TLincom (m1 b1 m2 b2 m3 b3 : Z).

Inductive field :=
| Raw (id : N)
| Index
| Phase (f : field) (shift : Z)
| Un (o : uop) (f : field)
| Bin (o : bop) (f g : field)
| Tri (o : top) (f g h : field)
| Mplex (f g : field) (cnt period : Z).

(* RAW leaf: native type, samples per frame, frame offset of its fragment,
   decoded file content (one bit pattern per complete sample) *)
Record rawinfo := { r_ty : ctype; r_spf : Z; r_fo : Z; r_data : list Z }.
Definition database := N -> rawinfo.

(* type in which the input of a one-input operator is read *)
Definition u_in (o : uop) (rt : ctype) : ctype :=
  match o with
  | ULinterp _ => F64
  | UBit false _ _ => U64
  | UBit true _ _ => I64
  | UIndir _ _ => I64
  | _ => rt
  end.

(* type in which the second (third) input is read *)
Definition b_in2 (o : bop) : ctype :=
  match o with
  | BWindow WEq _ | BWindow WNe _ => I64
  | BWindow WSet _ | BWindow WClr _ => U64
  | _ => F64
  end.

(* operators whose input buffer is obtained with _GD_Alloc(type, num_samp),
   which raises GD_E_INTERNAL_ERROR for num_samp = 0 *)
Definition u_alloc (o : uop) : bool :=
  match o with ULinterp _ | UIndir _ _ => true | _ => false end.

(* _GD_Seek(E, off) (iopos.c:261): fails with GD_E_RANGE as soon as a negative
   offset is reached; PHASE passes off - shift, every other field passes off
   unchanged (no rate scaling) *)
Fixpoint seek_ok (f : field) (off : Z) : bool :=
  (0 <=? off) &&
  match f with
  | Raw _ | Index => true
  | Phase g sh => seek_ok g (off - sh)
  | Un _ g => seek_ok g off
  | Bin _ g h | Mplex g h _ _ => seek_ok h off && seek_ok g off
  | Tri _ g h l => seek_ok g off && seek_ok h off && seek_ok l off
  end.

Definition b_lincom (o : bop) : bool :=
  match o with BLincom _ _ _ _ => true | _ => false end.

(* ---- which code is modelled --------------------------------------------------
   The model follows the source in /repo.  Repairs proposed by this check change
   the read path in a few places; each is a flag here, set from the source by
   translate/tr_readpath.py (coq/Gen/ReadVariant.v), so that the same development
   describes the tree before and after a repair is applied.  The theorems are
   proved for every variant.
   v_align  : proposed_fixes/C01-2 (second/third input aligned with the remainder
              (s*spf2) mod spf1 passed to the kernels, floor instead of truncation)
   v_rawpad : proposed_fixes/C01-3 (padding before the frame offset by return type)
   v_alloc0 : proposed_fixes/C01-4 (_GD_Alloc accepts a zero-length request)
   v_clamp  : proposed_fixes/C16-1 (gd_eof/gd_bof clamped only in the public functions)
   v_bofceil: proposed_fixes/C16-2 (sub-frame part of a beginning-of-field rounded up) *)
Record variant := { v_align : bool; v_rawpad : bool; v_alloc0 : bool; v_clamp : bool; v_bofceil : bool }.

(* ---- value algebra ---------------------------------------------------- *)
Record Alg := {
  V : Type;
  pad : ctype -> V;                          (* zero (integer return type) / NaN (floating) *)
  raw_pad : ctype -> ctype -> V;             (* what _GD_DoRaw produces before the frame offset: rt, native *)
  dec : ctype -> ctype -> Z -> V;            (* stored sample of native type converted to rt *)
  index_val : ctype -> Z -> V;               (* INDEX sample k as rt *)
  ukern : uop -> ctype -> V -> V;
  bkern : bop -> ctype -> V -> V -> V;
  tkern : top -> ctype -> V -> V -> V -> V;
  mplex_match : Z -> V -> bool;              (* index sample (read as int) == count *)
  garbage : V;                               (* content of memory the code never wrote *)
  pad_ok : ctype -> ctype -> bool;           (* rt, native: native padding converts to the return-type padding *)
  pad_ok_sound : forall rt ty, pad_ok rt ty = true -> raw_pad rt ty = pad rt
}.

(* ---- list helpers ----------------------------------------------------- *)
Definition zlen {A} (l : list A) : Z := Z.of_nat (length l).
Definition zrange (s n : Z) : list Z := map (fun i => s + Z.of_nat i) (seq 0 (Z.to_nat n)).
Definition nthZ {A} (l : list A) (i : Z) (d : A) : A :=
  if i <? 0 then d else nth (Z.to_nat i) l d.
Definition repeatZ {A} (x : A) (n : Z) : list A := repeat x (Z.to_nat n).
(* ceiling of a/b for b > 0 *)
Definition cdiv (a b : Z) : Z := (a + b - 1) / b.

(* end-of-field: a sample number, or none (INDEX) *)
Inductive ext := Fin (z : Z) | Inf.
Definition emin (a b : ext) : ext :=
  match a, b with
  | Fin x, Fin y => Fin (Z.min x y)
  | Fin x, Inf => Fin x
  | Inf, y => y
  end.
Definition eshift (a : ext) (d : Z) : ext := match a with Fin x => Fin (x + d) | Inf => Inf end.
(* an end-of-field at rate s2 expressed at rate s1 *)
Definition escale (a : ext) (s1 s2 : Z) : ext := match a with Fin x => Fin (x * s1 / s2) | Inf => Inf end.
Definition elt (k : Z) (a : ext) : Prop := match a with Fin x => k < x | Inf => True end.
Definition eltb (k : Z) (a : ext) : bool := match a with Fin x => k <? x | Inf => true end.
(* number of samples of a window [s, s+n) below the end-of-field *)
Definition ecount (a : ext) (s n : Z) : Z :=
  match a with Fin x => Z.min n (Z.max 0 (x - s)) | Inf => n end.

Section Spec.
(* lb: the handle's MPLEX look-back setting (gd_mplex_lookback): < 0 = GD_LOOKBACK_ALL,
   0 = none, k > 0 = k cycles *)
Context (A : Alg) (db : database) (v : variant) (lb : Z).

Fixpoint spf (f : field) : Z :=
  match f with
  | Raw id => r_spf (db id)
  | Index => 1
  | Phase g _ | Un _ g | Bin _ g _ | Tri _ g _ _ | Mplex g _ _ _ => spf g
  end.

Definition raw_start (r : rawinfo) : Z := r_spf r * r_fo r.

(* gd_eof(3): RAW: just past the last datum, including the frame offset;
   PHASE: the input's marker adjusted by the shift; others: the smallest
   marker of the inputs (in samples of the field, i.e. of its first input) *)
Fixpoint eof (f : field) : ext :=
  match f with
  | Raw id => Fin (raw_start (db id) + zlen (r_data (db id)))
  | Index => Inf
  | Phase g sh => eshift (eof g) (- sh)
  | Un _ g => eof g
  | Bin _ g h => emin (eof g) (escale (eof h) (spf g) (spf h))
  | Tri _ g h k => emin (emin (eof g) (escale (eof h) (spf g) (spf h))) (escale (eof k) (spf g) (spf k))
  | Mplex g h _ _ => emin (eof g) (escale (eof h) (spf g) (spf h))
  end.

(* MPLEX (dirfile-format(5)):  out[n] = (index[m(n)] == count) ? in[n] : out[n-1];
   before the first match: zero / NaN.  gd_getdata(3): the search for the start
   value goes back a limited number of cycles from the first sample of the read
   (gd_mplex_lookback(3)); if it is not found there the samples are zero/NaN "up to
   the next available sample".  The value of a sample therefore depends on where
   the read started: `lo` below is the first sample considered. *)
Fixpoint mplex_nat (fv : Z -> V A) (gm : Z -> bool) (padv : V A) (j : nat) : V A :=
  if gm (Z.of_nat j) then fv (Z.of_nat j)
  else match j with O => padv | S j' => mplex_nat fv gm padv j' end.
Definition mplex_at (fv : Z -> V A) (gm : Z -> bool) (padv : V A) (k : Z) : V A :=
  if k <? 0 then (if gm k then fv k else padv) else mplex_nat fv gm padv (Z.to_nat k).
Definition mplex_from (lo : Z) (fv : Z -> V A) (gm : Z -> bool) (padv : V A) (k : Z) : V A :=
  mplex_at (fun i => fv (lo + i)) (fun i => gm (lo + i)) padv (k - lo).

(* one look-back cycle: the period, or max(2*count_val+1, GD_MPLEX_CYCLE = 10) *)
Definition mplex_cycle (cnt per : Z) : Z := if per =? 0 then Z.max (2 * cnt + 1) 10 else per.
(* first index sample considered for a read whose index window starts at q *)
Definition mplex_lo (cnt per q : Z) : Z :=
  if lb <? 0 then 0 else Z.max 0 (q - lb * mplex_cycle cnt per).

(* the value of sample k of field f as return type rt in a read that started at
   sample s (s only matters below an MPLEX with a finite look-back): the documented
   formula, the second input sampled at floor(k*s2/s1) *)
Fixpoint spec_val (rt : ctype) (f : field) (s k : Z) : V A :=
  match f with
  | Raw id =>
      let r := db id in
      if k <? raw_start r then pad A rt
      else dec A rt (r_ty r) (nthZ (r_data r) (k - raw_start r) 0)
  | Index => index_val A rt k
  | Phase g sh => spec_val rt g (s + sh) (k + sh)
  | Un o g => ukern A o rt (spec_val (u_in o rt) g s k)
  | Bin o g h => bkern A o rt (spec_val rt g s k)
                       (spec_val (b_in2 o) h (s * spf h / spf g) (k * spf h / spf g))
  | Tri o g h l => tkern A o rt (spec_val rt g s k)
                         (spec_val F64 h (s * spf h / spf g) (k * spf h / spf g))
                         (spec_val F64 l (s * spf l / spf g) (k * spf l / spf g))
  | Mplex g h cnt per =>
      let q := s * spf h / spf g in
      mplex_from (cdiv (mplex_lo cnt per q * spf g) (spf h))
                 (spec_val rt g s)
                 (fun j => mplex_match A cnt (spec_val I32 h q (j * spf h / spf g)))
                 (pad A rt) k
  end.

Definition spec_eval (rt : ctype) (f : field) (s k : Z) : option (V A) :=
  if eltb k (eof f) then Some (spec_val rt f s k) else None.

Definition spec_count (f : field) (s n : Z) : Z := ecount (eof f) s n.

(* what gd_getdata(f, first sample s, n samples, return type rt) must return *)
Definition spec_window (rt : ctype) (f : field) (s n : Z) : list (V A) :=
  map (spec_val rt f s) (zrange s (spec_count f s n)).

(* ---- well-formedness -------------------------------------------------- *)
Fixpoint wf (f : field) : Prop :=
  match f with
  | Raw id => 1 <= r_spf (db id) /\ 0 <= r_fo (db id)
  | Index => True
  | Phase g _ | Un _ g => wf g
  | Bin _ g h => wf g /\ wf h
  | Mplex g h _ per => wf g /\ wf h /\ 0 <= per          (* "period may not be negative" *)
  | Tri _ g h l => wf g /\ wf h /\ wf l
  end.

Fixpoint wfb (f : field) : bool :=
  match f with
  | Raw id => (1 <=? r_spf (db id)) && (0 <=? r_fo (db id))
  | Index => true
  | Phase g _ | Un _ g => wfb g
  | Bin _ g h => wfb g && wfb h
  | Mplex g h _ per => wfb g && wfb h && (0 <=? per)
  | Tri _ g h l => wfb g && wfb h && wfb l
  end.

Fixpoint mplexfreeb (f : field) : bool :=
  match f with
  | Raw _ | Index => true
  | Phase g _ | Un _ g => mplexfreeb g
  | Bin _ g h => mplexfreeb g && mplexfreeb h
  | Tri _ g h l => mplexfreeb g && mplexfreeb h && mplexfreeb l
  | Mplex _ _ _ _ => false
  end.

(* ---- the proved region ------------------------------------------------ *)
(* Tags name the clause that fails; the check uses them as defect classes. *)
Inductive tag :=
| TRawPad        (* window reaches the frame-offset padding of a RAW whose native-type padding differs from the return-type padding *)
| TUnaligned     (* two/three-input field: spf1 does not divide s*spf2 *)
| TMplexRate     (* MPLEX with different rates *)
| TMplexNeg      (* MPLEX reached at a negative sample (implementation dependent) *)
| TAllocZero     (* a zero-length buffer is requested from _GD_Alloc: LINTERP/INDIR read with n = 0, third LINCOM input after the second ended the field *)
| TMplexNested   (* MPLEX over an MPLEX with a finite look-back: the inner start value depends on which of the outer reads asks (implementation dependent) *)
| TMplexSeek.    (* MPLEX: re-positioning the inputs after the look-back reaches a negative offset *)

Definition divides (a b : Z) : bool := b mod a =? 0.
Definition tag_if (b : bool) (t : tag) : list tag := if b then [t] else [].

(* the clauses violated by reading n samples of f from s as rt; [] = covered.
   rem s s1 s2 = (s*s2) mod s1, the alignment remainder (0 wherever the unrepaired
   code is covered) *)
Definition arem (s s1 s2 : Z) : Z := (s * s2) mod s1.
(* count left after a second read of c2 samples, c at hand *)
Definition alim (c2 c s1 s2 r : Z) : Z := let l := (c2 * s1 - r) / s2 in if l <? c then l else c.

Fixpoint uncovered (rt : ctype) (f : field) (s n : Z) : list tag :=
  match f with
  | Raw id =>
      let r := db id in
      if n <=? 0 then [] else
      tag_if (negb (v_rawpad v) && (s <? raw_start r) && negb (pad_ok A rt (r_ty r))) TRawPad
  | Index => []
  | Phase g sh => uncovered rt g (s + sh) n
  | Un o g => tag_if (negb (v_alloc0 v) && u_alloc o && (n =? 0)) TAllocZero ++ uncovered (u_in o rt) g s n
  | Bin o g h =>
      let s1 := spf g in let s2 := spf h in
      let c1 := spec_count g s n in
      uncovered rt g s n ++
      (if c1 <=? 0 then [] else
       tag_if (negb (v_align v) && negb (divides s1 (s * s2))) TUnaligned ++
       uncovered (b_in2 o) h (s * s2 / s1) (cdiv (arem s s1 s2 + c1 * s2) s1))
  | Tri o g h l =>
      let s1 := spf g in let s2 := spf h in let s3 := spf l in
      let c1 := spec_count g s n in
      uncovered rt g s n ++
      (if c1 <=? 0 then [] else
       tag_if (negb (v_align v) && negb (divides s1 (s * s2))) TUnaligned ++
       uncovered F64 h (s * s2 / s1) (cdiv (arem s s1 s2 + c1 * s2) s1) ++
       let c2 := spec_count h (s * s2 / s1) (cdiv (arem s s1 s2 + c1 * s2) s1) in
       if c2 <=? 0 then [] else
       let n1 := alim c2 c1 s1 s2 (arem s s1 s2) in
       tag_if (negb (v_align v || v_alloc0 v) && (n1 =? 0)) TAllocZero ++
       (if n1 <=? 0 then [] else
        tag_if (negb (v_align v) && negb (divides s1 (s * s3))) TUnaligned ++
        uncovered F64 l (s * s3 / s1) (cdiv (arem s s1 s3 + n1 * s3) s1)))
  | Mplex g h cnt per =>
      let s1 := spf g in let s2 := spf h in
      let c1 := spec_count g s n in
      uncovered rt g s n ++
      (if c1 <=? 0 then [] else
       tag_if (negb (s1 =? s2)) TMplexRate ++
       tag_if (s <? 0) TMplexNeg ++
       tag_if (negb ((lb <? 0) || (mplexfreeb g && mplexfreeb h))) TMplexNested ++
       tag_if (negb (seek_ok g (s + c1) &&
                     seek_ok h (s * s2 / s1 + spec_count h (s * s2 / s1) (cdiv (arem s s1 s2 + c1 * s2) s1)))) TMplexSeek ++
       uncovered I32 h (s * s2 / s1) (cdiv (arem s s1 s2 + c1 * s2) s1) ++
       (* the look-back reads the index over [0,s) and one sample of the input *)
       (let lo := mplex_lo cnt per (s * s2 / s1) in
        if lo <? s * s2 / s1 then
          uncovered I32 h lo (s * s2 / s1 - lo) ++
          concat (map (fun j => uncovered rt g (j * s1 / s2) 1) (zrange lo (s * s2 / s1 - lo)))
        else []))
  end.

Definition covered (rt : ctype) (f : field) (s n : Z) : Prop := uncovered rt f s n = [].

End Spec.
