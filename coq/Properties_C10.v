(* C10 -- a failed call changes nothing and every argument combination is answered safely.
   Only the property theorems; models in C10/*.v, generated tables in Gen/Recurse.v, Gen/GuardForms.v. *)
From Coq Require Import ZArith List Bool String.
From GD Require Import C10.Wrap C10.Guards C10.GuardsProofs C10.Recurse C10.RecurseProofs C10.Calls C10.CallsProofs Gen.Recurse Gen.GuardForms.
Import ListNotations.
Open Scope Z_scope.

(* ---- the recursion counter: zero between public calls ---- *)
Definition recurse_balanced_statement := RecurseProofs.recurse_balanced_statement.
Theorem recurse_balanced : forall tbl, table_balanced tbl = true -> forall ts, run_seq tbl 0 ts = 0.
Proof. exact recurse_balanced_of_table. Qed.
Theorem recurse_balanced_partial : forall ts, forallb (avoids_leaks recurse_table) ts = true -> run_seq recurse_table 0 ts = 0.
Proof. exact (RecurseProofs.recurse_balanced_partial recurse_table). Qed.
Theorem recurse_balanced_refuted : forall f p, path_net recurse_table f p = 1 -> ~ recurse_balanced_statement recurse_table.
Proof. exact (leak_refutes recurse_table). Qed.
Theorem recurse_leak_starves : forall f p, path_net recurse_table f p = 1 ->
  run_seq recurse_table 0 (repeat (CNode f p []) 31) = 31 /\ forall g q kids, snd (run recurse_table 31 (CNode g q kids)) = true.
Proof. exact (leak_starves recurse_table). Qed.
Theorem recurse_balanced_when_fixed : leaks recurse_table = [] -> recurse_balanced_statement recurse_table.
Proof. intro H. apply recurse_balanced_of_table. apply no_leaks_balanced. exact H. Qed.
Theorem recurse_leaks_all_known : leaks_all_known recurse_table = true.
Proof. exact gen_leaks_all_known. Qed.
Theorem recurse_overflow_exits_first : overflow_exits_first recurse_table = true.
Proof. exact gen_overflow_exits_first. Qed.

(* ---- guards: accepted (as computed, with wrap) -> the unbounded quantity is in range ---- *)
Theorem dofield_guard_sound : forall szr szn fs ns fs' ns',
  0 <= szr -> 0 <= szn -> is_i64 fs -> is_u64 ns -> dofield_guard szr szn fs ns = Accept fs' ns' ->
  fs' = fs /\ 0 <= ns' <= ns /\ fs + ns' <= INT64_MAX /\ ns' * szr <= SSIZE_MAX /\ ns' * szn <= SSIZE_MAX.
Proof. exact GuardsProofs.dofield_guard_sound. Qed.
Definition frames_range_statement := GuardsProofs.frames_range_statement.
Theorem frames_range_refuted : ~ frames_range_statement SIZE_MAX /\ ~ frames_range_statement SSIZE_MAX.
Proof. exact GuardsProofs.frames_range_refuted. Qed.
Theorem frames_range_partial : forall cmax spf ff fs nf ns a b,
  is_u32 spf -> is_i64 ff -> is_i64 fs -> is_u64 nf -> is_u64 ns ->
  snd (frames_range cmax spf ff fs nf ns) = false -> fst (frames_range cmax spf ff fs nf ns) = Accept a b ->
  a = GD_HERE \/ (a = fs + spf * ff /\ 0 <= a <= INT64_MAX).
Proof. exact GuardsProofs.frames_range_partial. Qed.
Theorem frames_count_sound : forall cmax spf ff fs nf ns a b,
  is_u32 spf -> is_u64 nf -> is_u64 ns -> 0 <= cmax < two64 -> spf * nf <= cmax ->
  (negb (ff =? 0) || negb (nf =? 0)) = true -> (ff =? GD_HERE) || (fs =? GD_HERE) = false ->
  fst (frames_range cmax spf ff fs nf ns) = Accept a b -> b = Z.min cmax (ns + spf * nf).
Proof. exact GuardsProofs.frames_count_sound. Qed.
Definition seek64_sample_statement := GuardsProofs.seek64_sample_statement.
Theorem seek64_sample_refuted : ~ seek64_sample_statement.
Proof. exact GuardsProofs.seek64_sample_refuted. Qed.
Theorem seek64_sample_partial : forall spf frame sample s,
  is_u32 spf -> is_i64 frame -> is_i64 sample -> is_i64 (spf * frame) ->
  fst (seek64_sample spf frame sample) = Some s -> s = sample + spf * frame /\ is_i64 s.
Proof. exact GuardsProofs.seek64_sample_partial. Qed.
Theorem seek64_offset_sound : forall sample pos o, is_i64 sample -> is_i64 pos ->
  seek64_offset sample pos = Some o -> o = sample + pos /\ is_i64 o.
Proof. exact GuardsProofs.seek64_offset_sound. Qed.
Theorem doseek_guard_sound : forall size offset, 0 < size -> doseek_guard size offset = true -> offset * size <= INT64_MAX.
Proof. exact GuardsProofs.doseek_guard_sound. Qed.
Definition slice_guard_statement := GuardsProofs.slice_guard_statement.
Theorem slice_guard_sub_sound : slice_guard_statement SliceSub.
Proof. exact slice_sub_sound. Qed.
Theorem slice_guard_sum_refuted : ~ slice_guard_statement SliceSum.
Proof. exact slice_sum_refuted. Qed.
Theorem slice_guard_partial : forall fn f, In (fn, f) slice_forms ->
  forall start n len, is_u64 start -> is_u64 n -> is_u64 len -> (f = SliceSub \/ start + n < two64) ->
  slice_guard f start n len = true -> start + n <= len.
Proof. exact slice_guard_as_built. Qed.
Theorem slice_forms_recognised : forallb (fun p => slice_form_known (snd p)) slice_forms = true.
Proof. exact GuardsProofs.slice_forms_recognised. Qed.
Theorem guards_all_pinned : forallb (fun p : string * bool => snd p) guards_pinned = true /\ forallb (fun p : string * bool => snd p) macros_pinned = true.
Proof. exact GuardsProofs.guards_all_pinned. Qed.
Definition addbit_guard_statement := GuardsProofs.addbit_guard_statement.
Theorem addbit_guard_refuted : ~ addbit_guard_statement.
Proof. exact GuardsProofs.addbit_guard_refuted. Qed.
Theorem addbit_guard_partial : forall bitnum numbits, is_int bitnum -> is_int numbits -> bitnum + numbits <= INT_MAX ->
  fst (addbit_guard bitnum numbits) = true -> 0 <= bitnum /\ 1 <= numbits /\ bitnum + numbits <= 64.
Proof. exact GuardsProofs.addbit_guard_partial. Qed.
Theorem addbit_guard_sub_sound : forall bitnum numbits, is_int bitnum -> is_int numbits ->
  fst (addbit_guard_f BitSub bitnum numbits) = true -> 0 <= bitnum /\ 1 <= numbits /\ bitnum + numbits <= 64.
Proof. exact GuardsProofs.addbit_sub_sound. Qed.
Theorem addbit_guard_as_built : forall bitnum numbits, is_int bitnum -> is_int numbits ->
  (addbit_form = BitSub \/ bitnum + numbits <= INT_MAX) ->
  fst (addbit_guard_f addbit_form bitnum numbits) = true -> 0 <= bitnum /\ 1 <= numbits /\ bitnum + numbits <= 64.
Proof. exact GuardsProofs.addbit_as_built. Qed.
Theorem fragment_guard_sound : forall i n, fragment_guard i n = true -> 0 <= i < n.
Proof. exact GuardsProofs.fragment_guard_sound. Qed.

(* ---- a failed call changes nothing (call model, check* ; commit) ---- *)
Definition failed_call_pure_statement := CallsProofs.failed_call_pure_statement.
Theorem failed_call_pure : forall pf gf, failed_call_pure_statement pf gf 0 0.
Proof. exact failed_call_pure_balanced. Qed.
Theorem failed_call_pure_refuted : forall pf gf lo, ~ failed_call_pure_statement pf gf 1 lo.
Proof. exact CallsProofs.failed_call_pure_refuted. Qed.
Theorem failed_call_pure_partial : forall s c s' e,
  gen_step s c = (s', Err e) -> (e <> E_RANGE \/ (gen_leak_in = 0 /\ gen_leak_out = 0)) -> obs s' = obs s.
Proof. exact failed_call_pure_as_built. Qed.
Theorem calls_level_balanced : forall pf gf cs s, s_lvl (run_calls pf gf 0 0 s cs) = s_lvl s.
Proof. exact run_calls_level_balanced. Qed.
Theorem no_crash_partial :
  slice_form_GD_PutCarraySlice = SliceSub -> slice_form_gd_get_carray_slice = SliceSub ->
  forall s c, (forall e, In e (s_ents s) -> Z.of_nat (List.length (e_vals e)) < two63) ->
  (forall name start n v, c = CPutSlice name start n v -> is_u64 start /\ is_u64 n) ->
  (forall name start n, c = CGetSlice name start n -> is_u64 start /\ is_u64 n) ->
  snd (gen_step s c) <> Crash.
Proof. exact no_crash_as_built. Qed.
Theorem no_crash_refuted :
  exists s c, (forall name start n v, c = CPutSlice name start n v -> is_u64 start /\ is_u64 n) /\
              snd (step SliceSum SliceSum 0 0 s c) = Crash.
Proof. exact no_crash_sum_refuted. Qed.
Theorem internal_error_reachable_sum :
  exists s c, (forall name start n, c = CGetSlice name start n -> is_u64 start /\ is_u64 n) /\
              snd (step SliceSum SliceSum 0 0 s c) = Err (-6).
Proof. exact get_slice_internal_error_sum. Qed.

(* the call model now also contains gd_rename, gd_move and gd_alter_carray (check* ; commit, order of name.c / move.c / mod.c):
   the statement above quantifies over them; spelled out for the three *)
Theorem failed_rename_move_alter_pure : forall pf gf s s' e c,
  (exists n m, c = CRename n m) \/ (exists n g, c = CMove n g) \/ (exists n l, c = CAlterCarray n l) ->
  step pf gf 0 0 s c = (s', Err e) -> obs s' = obs s.
Proof. intros pf gf s s' e c _ H. exact (failed_call_pure_balanced pf gf s c s' e H). Qed.
