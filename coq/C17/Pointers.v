(* C17: pointer rules for RAW fields of every modelled encoding (raw/gzip, bzip2 window, text),
   from any reachable handle state, derived from C02/Handle.v. *)
From Coq Require Import ZArith List Bool Lia.
From GD Require Import C02.Model C02.Slices C02.CodecProofs C02.BzRead C02.HistoryProofs C02.Windows C02.Handle C02.Refutations C17.IoPos.
Import ListNotations.
Local Open Scope Z_scope.

Section Pointers.
  Variable BUF : Z.
  Variable dec : list Z -> Z -> Z * bool.
  Hypothesis Hdec : forall S, dec_ok BUF dec S.
  Variable d : db.
  Hypothesis Hwf : wf_db d.
  Variables (f r : nat).
  Hypothesis Ef : nth_error (d_fields d) f = Some (FRaw r).
  Let rd := get_rd d r.

  (* gd_seek(SET, p); gd_getdata(GD_HERE, n)  ==  gd_getdata(p, n)  ==  the window of the contents *)
  Lemma here_equals_absolute_l s p n :
    InvH d s -> rd_foff rd <= p <= rd_foff rd + nsamp rd -> p <= 2 ^ 61 -> 0 <= n <= 2 ^ 61 ->
    let s' := fst (step dec d s (CSeek f p WSet)) in
    snd (step dec d s' (CGet f None n)) = RData (spec_window d f p n) /\
    snd (step dec d s' (CGet f (Some p) n)) = RData (spec_window d f p n).
  Proof.
    intros HI Hp Hp2 Hn.
    destruct (seek_set_raw BUF dec Hdec d Hwf f r Ef s p HI Hp) as (s1 & Hs & HI1 & Ho & Hfp).
    rewrite Hs. cbn [fst].
    assert (Hfo : 0 <= rd_foff rd).
    { destruct Hwf as (_ & Hr & Hfd & _). apply Hr. exact (Hfd _ _ Ef). }
    split.
    - pose proof (here_raw BUF dec Hdec d Hwf f r Ef s1 n HI1 Ho) as H. rewrite Hfp in H.
      apply H; lia.
    - apply (get_spec BUF dec Hdec d Hwf s1 f (FRaw r) p n HI1 Ef); lia.
  Qed.

  (* sequential access: two consecutive GD_HERE-style reads cover contiguous samples: after reading
     [k, k+m) the pointer is k+m, and the GD_HERE read that follows is the window starting there *)
  Lemma sequential_equals_random_l s k n n2 :
    InvH d s -> 0 <= k <= 2 ^ 60 -> 0 <= n <= 2 ^ 60 -> 0 <= n2 <= 2 ^ 61 -> spec_window d f k n <> [] ->
    let s' := fst (step dec d s (CGet f (Some k) n)) in
    snd (step dec d s' (CGet f None n2)) = RData (spec_window d f (k + len (spec_window d f k n)) n2).
  Proof.
    intros HI Hk Hn Hn2 Hne.
    destruct (get_raw_ptr BUF dec Hdec d Hwf f r Ef s k n HI ltac:(lia) ltac:(lia)) as (s1 & Hs & HI1 & Hp).
    rewrite Hs. cbn [fst]. destruct (Hp Hne) as [Ho Hfp].
    pose proof (here_raw BUF dec Hdec d Hwf f r Ef s1 n2 HI1 Ho) as H. rewrite Hfp in H. apply H; [|lia].
    assert (len (spec_window d f k n) <= n).
    { unfold spec_window, len. pose proof (window_len (spec_val (FUEL d) d f) k (Z.to_nat n)). lia. }
    pose proof (len_nonneg (spec_window d f k n)). lia.
  Qed.
End Pointers.

(* PHASE with the pointer convention of proposed_fixes/C17-1.diff (flag fix_phase_sign): the
   transfer rule and sequential GD_HERE reads hold on the witness that refutes them without it *)
Lemma phase_fixed_witness :
  after (db2 cfg_all7 [FPhase 0 2]) [CGet 2 (Some 3) 2] (CTell 2) = RPos 5 /\
  after (db2 cfg_all7 [FPhase 0 2]) [CGet 2 (Some 3) 2] (CGet 2 None 1) = RData [7] /\
  after (db2 cfg_all7 [FPhase 0 2]) [CSeek 2 5 WSet] (CTell 0) = RPos 7 /\
  after (db2 cfg_all7 [FPhase 0 2]) [CSeek 2 5 WSet] (CGet 2 None 3) = RData [7; 8; 9].
Proof. repeat split; vm_compute; reflexivity. Qed.
