(* C17 -- I/O pointers.  The executable model is the `step` function of C02/Model.v: it already
   contains _GD_GetIOPos (get_iopos: multi-position check, PHASE shift, open-on-demand),
   _GD_Seek (seek_field: pseudo positions before the frame offset, PHASE shift, both inputs of
   a MULTIPLY), gd_seek64 with GD_SEEK_SET/CUR/END, GD_HERE resolution in _GD_DoField and the
   reset in _GD_Flush / auto-close.  This file proves the pointer rules of the property about it. *)
From Coq Require Import ZArith List Bool Lia.
From GD Require Import C02.Model C02.Slices C02.CodecProofs C02.HistoryProofs C02.Refutations.
Import ListNotations.
Local Open Scope Z_scope.

Section IoPos.
  Variable dec : list Z -> Z -> Z * bool.

  Definition is_raw (d : db) (f r : nat) : Prop := nth_error (d_fields d) f = Some (FRaw r).

  Lemma fuel_pos d : exists k, FUEL d = Datatypes.S k.
  Proof. unfold FUEL. eauto. Qed.

  (* gd_tell64 of a RAW field whose file is not open: opens it, position = beginning of field *)
  Lemma tell_closed d s f r :
    is_raw d f r -> s_level s = 0 -> r_open (get_rs s r) = false ->
    snd (step dec d s (CTell f)) = RPos (rd_foff (get_rd d r)).
  Proof.
    intros Hf Hl Hc. unfold step. destruct (fuel_pos d) as [k ->]. cbn [get_iopos].
    rewrite Hl. cbn. unfold is_raw in Hf. rewrite Hf. unfold open_raw.
    assert (Hc' : r_open (get_rs (set_level s 1) r) = false) by exact Hc.
    rewrite Hc'. cbn.
    assert (r_fpos (nth r (upd (s_raws s) r st_opened) st_closed) = 0).
    { destruct (Nat.lt_ge_cases r (length (s_raws s))).
      - rewrite nth_upd_same by assumption. reflexivity.
      - assert (Hu : upd (s_raws s) r st_opened = s_raws s).
        { clear - H. revert r H. induction (s_raws s); intros [|r] H; cbn in *; try lia; auto. f_equal. apply IHl. lia. }
        rewrite Hu. rewrite nth_overflow by assumption. reflexivity. }
    rewrite H. reflexivity.
  Qed.

  Lemma init_closed d r : r_open (get_rs (init d) r) = false.
  Proof.
    unfold get_rs, init. cbn.
    assert (nth r (map (fun _ : rawdef => st_closed) (d_raws d)) st_closed = st_closed).
    { revert r. induction (d_raws d); intros [|r]; cbn; auto. }
    rewrite H. reflexivity.
  Qed.

  (* "A newly opened RAW field's I/O pointer is at its beginning-of-field" *)
  Lemma fresh_at_bof_l d f r : is_raw d f r -> snd (step dec d (init d) (CTell f)) = RPos (rd_foff (get_rd d r)).
  Proof. intros Hf. apply tell_closed; [exact Hf|reflexivity|apply init_closed]. Qed.

  (* gd_flush / gd_raw_close of everything resets every pointer, whatever happened before *)
  Lemma flush_resets_l d s f r :
    is_raw d f r -> s_level s = 0 ->
    snd (step dec d (fst (step dec d s (CClose None))) (CTell f)) = RPos (rd_foff (get_rd d r)).
  Proof.
    intros Hf Hl. apply tell_closed; [exact Hf|exact Hl|].
    cbn. unfold get_rs. cbn.
    set (g := fun st : rawst => if r_open st then st_closed else st).
    assert (Hn : nth r (map g (s_raws s)) st_closed = g (nth r (s_raws s) st_closed)).
    { change st_closed with (g st_closed) at 1. apply map_nth. }
    rewrite Hn. unfold g. destruct (r_open (nth r (s_raws s) st_closed)) eqn:E; [reflexivity|exact E].
  Qed.

  (* the LRU auto-close of the file resets its pointer as well (documented: "as if gd_raw_close") *)
  Lemma auto_close_resets_l d s f r :
    is_raw d f r -> s_level s = 0 -> (r < length (s_raws s))%nat ->
    snd (step dec d (fst (step dec d s (CAuto r))) (CTell f)) = RPos (rd_foff (get_rd d r)).
  Proof.
    intros Hf Hl Hr. apply tell_closed; [exact Hf| |].
    - cbn. destruct (r_open (get_rs s r)); exact Hl.
    - cbn. destruct (r_open (get_rs s r)) eqn:E; [|exact E].
      unfold get_rs, set_rs. cbn. rewrite nth_upd_same by assumption. reflexivity.
  Qed.

  (* gd_seek64(f, p, GD_SEEK_SET) on a RAW field of a raw/gzip/text file, p between the
     beginning- and the end-of-field: returns p, and gd_tell64 then reports p *)
  Lemma seek_establishes_l d s f r p :
    is_raw d f r -> s_level s = 0 -> (r < length (s_raws s))%nat ->
    wf_rd (get_rd d r) -> plain_enc (get_rd d r) ->
    (r_open (get_rs s r) = true -> Coh (d_cfg d) (get_rd d r) (get_rs s r)) ->
    rd_foff (get_rd d r) <= p <= rd_foff (get_rd d r) + nsamp (get_rd d r) ->
    snd (step dec d s (CSeek f p WSet)) = RPos p /\
    snd (step dec d (fst (step dec d s (CSeek f p WSet))) (CTell f)) = RPos p /\
    s_level (fst (step dec d s (CSeek f p WSet))) = 0.
  Proof.
    intros Hf Hl Hr Hwf Hpl Hcoh Hp. unfold is_raw in Hf.
    set (rd := get_rd d r) in *.
    assert (Hfo : 0 <= rd_foff rd) by apply Hwf.
    (* the state after _GD_InitRawIO *)
    set (s1 := open_raw (set_level s 1) r).
    assert (Hc1 : Coh (d_cfg d) rd (get_rs s1 r)).
    { unfold s1, open_raw. change (get_rs (set_level s 1) r) with (get_rs s r).
      destruct (r_open (get_rs s r)) eqn:E.
      - change (get_rs (set_level s 1) r) with (get_rs s r). apply Hcoh. reflexivity.
      - unfold get_rs, set_rs. cbn. rewrite nth_upd_same by assumption. apply opened_coh. exact Hwf. }
    assert (Hr1 : (r < length (s_raws s1))%nat).
    { unfold s1, open_raw. destruct (r_open (get_rs (set_level s 1) r)); cbn; [exact Hr|rewrite upd_length; exact Hr]. }
    assert (Hseek : exists st', enc_seek dec (d_cfg d) rd (get_rs s1 r) (p - rd_foff rd) = Some (st', p - rd_foff rd)
                               /\ At rd st' (p - rd_foff rd)).
    { unfold enc_seek. destruct Hpl as [He|He]; rewrite He.
      - destruct (raw_seek_spec (d_cfg d) rd (get_rs s1 r) (p - rd_foff rd) He Hc1 ltac:(lia)) as (st' & -> & Hat).
        exists st'. split; [reflexivity|exact Hat].
      - destruct (txt_seek_spec (d_cfg d) rd (get_rs s1 r) (p - rd_foff rd) Hwf He Hc1 ltac:(lia)) as (st' & p' & -> & Hat & Hp').
        assert (Hpe : p' = p - rd_foff rd) by lia. rewrite Hpe in *. exists st'. split; [reflexivity|exact Hat]. }
    destruct Hseek as (st' & Hsk & Hat).
    assert (Hstep : step dec d s (CSeek f p WSet) =
                    (set_level (set_rs s1 r st') 0, RPos p)).
    { unfold step. destruct (fuel_pos d) as [k Hk]. rewrite Hk.
      replace (p + 0) with p by ring.
      cbn [seek_field]. rewrite Hl. cbn -[enc_seek open_raw get_iopos].
      replace (p <? 0) with false by (symmetry; apply Z.ltb_ge; lia).
      rewrite Hf. fold rd. fold s1.
      replace (rd_foff rd >? p) with false by (symmetry; rewrite Z.gtb_ltb; apply Z.ltb_ge; lia).
      rewrite Hsk.
      replace (p - rd_foff rd <? 0) with false by (symmetry; apply Z.ltb_ge; lia).
      cbn [get_iopos]. cbn -[open_raw get_rs set_rs].
      assert (Hl1 : s_level s1 = 1).
      { unfold s1, open_raw. destruct (r_open (get_rs (set_level s 1) r)); reflexivity. }
      change (s_level (set_rs s1 r st')) with (s_level s1). rewrite Hl1. cbn -[open_raw get_rs set_rs]. rewrite Hf.
      assert (Hg : get_rs (set_level (set_level (set_rs s1 r st') 0) 1) r = st').
      { unfold get_rs, set_rs. cbn. apply nth_upd_same. exact Hr1. }
      unfold open_raw. rewrite Hg.
      assert (Ho : r_open st' = true) by apply Hat. rewrite Ho. rewrite Hg.
      assert (Hfp : r_fpos st' = p - rd_foff rd) by apply Hat. rewrite Hfp. fold rd.
      replace (p - rd_foff rd + rd_foff rd) with p by ring. reflexivity. }
    rewrite Hstep. cbn [fst snd]. split; [reflexivity|]. split; [|reflexivity].
    (* tell afterwards *)
    unfold step. destruct (fuel_pos d) as [k Hk]. rewrite Hk. cbn [get_iopos].
    cbn -[open_raw get_rs set_rs]. rewrite Hf.
    assert (Hg : get_rs (set_level (set_level (set_rs s1 r st') 0) 1) r = st').
    { unfold get_rs, set_rs. cbn. apply nth_upd_same. exact Hr1. }
    unfold open_raw. rewrite Hg.
    assert (Ho : r_open st' = true) by apply Hat. rewrite Ho. rewrite Hg.
    assert (Hfp : r_fpos st' = p - rd_foff rd) by apply Hat. rewrite Hfp. fold rd. cbn.
    f_equal. ring.
  Qed.
End IoPos.

(* ---------------------------------------------------------------- witnesses (computed) *)
Definition db2 (c : cfg) (fs : list fdef) : db :=
  {| d_cfg := c;
     d_raws := [ {| rd_enc := ERaw; rd_size := 1; rd_sgn := false; rd_bytes := bytes12; rd_foff := 0 |};
                 {| rd_enc := ERaw; rd_size := 1; rd_sgn := false; rd_bytes := bytes12; rd_foff := 0 |} ];
     d_fields := FRaw 0 :: FRaw 1 :: fs |}.
Definition after (d : db) (h : list call) (c : call) : result := snd (step dec4 d (run dec4 d (init d) h) c).

(* a field whose inputs disagree on position reports GD_E_DOMAIN *)
Lemma multipos_witness :
  after (db2 cfg_all [FMult 0 1]) [CSeek 0 3 WSet; CSeek 1 5 WSet] (CTell 2) = RErr E_DOMAIN /\
  after (db2 cfg_all [FMult 0 1]) [CSeek 0 3 WSet; CSeek 1 5 WSet] (CGet 2 None 2) = RErr E_DOMAIN /\
  after (db2 cfg_all [FMult 0 1]) [CSeek 2 4 WSet] (CTell 2) = RPos 4.
Proof. repeat split; vm_compute; reflexivity. Qed.

(* PHASE: reading p = PHASE(a, +2) at [3,5) leaves a at 7; gd_tell(p) then says 9, not 5, and
   the next GD_HERE read of p continues at p[9] instead of p[5]: the shift is applied with the
   wrong sign in _GD_GetIOPos / _GD_Seek (reads use first_samp + shift) *)
Lemma phase_tell_witness :
  after (db2 cfg_all [FPhase 0 2]) [CGet 2 (Some 3) 2] (CTell 2) = RPos 9 /\
  after (db2 cfg_all [FPhase 0 2]) [CGet 2 (Some 3) 2] (CTell 0) = RPos 7 /\
  after (db2 cfg_all [FPhase 0 2]) [CGet 2 (Some 3) 2] (CGet 2 None 1) = RData [11] /\
  spec_window (db2 cfg_all [FPhase 0 2]) 2 5 1 = [7].
Proof. repeat split; vm_compute; reflexivity. Qed.

(* gd_seek on the PHASE field followed by GD_HERE is nevertheless equal to the absolute read *)
Lemma phase_seek_here_witness :
  after (db2 cfg_all [FPhase 0 2]) [CSeek 2 5 WSet] (CGet 2 None 3) = RData [7; 8; 9] /\
  after (db2 cfg_all [FPhase 0 2]) [] (CGet 2 (Some 5) 3) = RData [7; 8; 9].
Proof. split; vm_compute; reflexivity. Qed.

Definition tell_after_transfer_statement_l (dec : list Z -> Z -> Z * bool) : Prop :=
  forall d f s n l, 0 <= s -> 0 < n ->
    snd (step dec d (init d) (CGet f (Some s) n)) = RData l -> l <> [] ->
    snd (step dec d (fst (step dec d (init d) (CGet f (Some s) n))) (CTell f)) = RPos (s + len l).

Lemma tell_after_transfer_refuted_l : ~ tell_after_transfer_statement_l dec4.
Proof.
  intros H. specialize (H (db2 cfg_all [FPhase 0 2]) 2%nat 3 2 [5; 6] ltac:(lia) ltac:(lia)).
  assert (H1 : snd (step dec4 (db2 cfg_all [FPhase 0 2]) (init (db2 cfg_all [FPhase 0 2])) (CGet 2 (Some 3) 2)) = RData [5; 6])
    by (vm_compute; reflexivity).
  specialize (H H1 ltac:(discriminate)). vm_compute in H. discriminate.
Qed.
