(* Property theorems for C13 -- statements only; proofs are `exact` of lemmas. *)
From Coq Require Import ZArith List Bool Lia.
From GD Require Import C04.Bytes C13.Recode C13.RecodeProofs C13.Drivers C13.DriversProofs.
Import ListNotations.

(* recoding between any two codecs (none, gzip, bzip2, lzma, sie, text), any pair of byte
   orders incl. ARM, any type, any length, any copy-buffer size *)
Theorem recode_preserves : forall h t ns ein eout sin sout vs,
  1 <= ns -> Forall (wf_sample t) vs -> mogrify_values h t ns ein eout sin sout vs = vs.
Proof. exact recode_preserves_all. Qed.

(* closed under composition of operations *)
Theorem recode_sequences_preserve : forall h t (ops : list (nat * (codec * codec) * (sexflags * sexflags))) vs,
  Forall (fun o => 1 <= fst (fst o)) ops -> Forall (wf_sample t) vs ->
  fold_left (recode_step h t) ops vs = vs.
Proof. exact recode_sequence_preserves. Qed.

(* frame-offset change: every absolute sample at or after the new offset is unchanged
   (zero-filled below the old offset, dropped below the new one, as gd_alter_frameoffset(3) says) *)
Theorem frameoffset_shift_preserves : forall (A : Type) (zero : A) (old_off new_off : Z) spf vs k,
  (0 <= old_off -> 0 <= new_off -> new_off * Z.of_nat spf <= k ->
  abs_sample zero new_off spf (shift_file zero (new_off - old_off) spf vs) k = abs_sample zero old_off spf vs k)%Z.
Proof. exact @shift_preserves. Qed.

(* RAW type change with recoding, every codec and byte order *)
Theorem retype_preserves : forall conv h t t' e s vs,
  Forall (wf_sample t) vs -> Forall (wf_sample t') (map conv vs) ->
  retype_values conv h t t' e s vs = map conv vs.
Proof. exact retype_preserves_all. Qed.

(* sample-rate change: the chunked conversion produces old sample floor(j*o/n) of the same frame *)
Theorem spf_change_matches_statement : forall (A : Type) (dflt : A) o n nf (chunk : list A) q j,
  0 < o -> 0 < n -> length chunk = nf * o -> q < nf -> j < n ->
  nth (q * n + j) (spf_convert_chunk dflt o n chunk) dflt = spf_spec_sample dflt o n chunk q j.
Proof. exact @spf_convert_matches_spec. Qed.

(* the copy loop of _GD_Change over a whole file of complete frames, for every buffer size, sample size and pair of
   rates -- also when one frame is larger than the buffer (the pass size is the one the source has: Gen/ChangeLoop.v) *)
Theorem spf_change_loop_matches_statement : forall (A : Type) (dflt : A) buf size o n nfr (file : list A) q j,
  0 < o -> 0 < n -> length file = nfr * o -> q < nfr -> j < n ->
  nth (q * n + j) (change_file dflt (frames_per_pass_cur buf size o n) o n file) dflt = spf_spec_sample dflt o n file q j.
Proof. exact @change_file_current_matches_spec. Qed.

(* ---- the per-fragment drivers (_GD_RecodeFragment, _GD_ByteSwapFragment, _GD_ShiftFragment), lifted
   over the list of fields of a database; `fail` is an arbitrary I/O failure of _GD_MogrifyFile ---- *)
Theorem fragment_driver_all_or_nothing : forall h ns fail g new d,
  snd (restructure h ns fail g new d) = true -> fst (restructure h ns fail g new d) = d.
Proof. exact restructure_all_or_nothing. Qed.

Theorem fragment_driver_preserves_every_field : forall h ns, 1 <= ns -> forall fail g new d,
  db_ok d -> g < length (frags d) -> (0 <= c_off new)%Z ->
  let d' := fst (restructure h ns fail g new d) in
  db_ok d' /\ length (frags d') = length (frags d) /\
  forall i f, find_field d i = Some f ->
    exists f', find_field d' i = Some f' /\ fty f' = fty f /\ fspf f' = fspf f /\ ffrag f' = ffrag f /\
      forall k, (ffrag f = g -> (c_off new * Z.of_nat (fspf f) <= k)%Z) -> view d' f' k = view d f k.
Proof. exact restructure_preserves. Qed.

Theorem all_fragments_driver_preserves_every_field : forall h ns, 1 <= ns -> forall fail upd gs,
  (forall c, c_off (upd c) = c_off c) ->
  forall d, db_ok d -> Forall (fun g => g < length (frags d)) gs ->
  let d' := fst (restructure_all h ns fail upd gs d) in
  db_ok d' /\ length (frags d') = length (frags d) /\
  forall i f, find_field d i = Some f ->
    exists f', find_field d' i = Some f' /\ fty f' = fty f /\ fspf f' = fspf f /\ ffrag f' = ffrag f /\
      forall k, view d' f' k = view d f k.
Proof. exact restructure_all_preserves. Qed.

Theorem move_with_data_preserves : forall h ns, 1 <= ns -> forall fail i g' d f,
  db_ok d -> g' < length (frags d) -> find_field d i = Some f ->
  let d' := fst (move_field h ns fail i g' d) in
  exists f', find_field d' i = Some f' /\
    forall k, (c_off (frag_cfg d g') * Z.of_nat (fspf f) <= k)%Z \/ snd (move_field h ns fail i g' d) = true ->
              view d' f' k = view d f k.
Proof. exact move_preserves. Qed.

Theorem rename_with_data_preserves : forall i j d f,
  NoDup (map fid (fields d)) -> ~ In j (map fid (fields d)) -> find_field d i = Some f ->
  exists f', find_field (rename_field i j d) j = Some f' /\ forall k, view (rename_field i j d) f' k = view d f k.
Proof. exact rename_preserves. Qed.

Theorem rename_keeps_referring_fields : forall i j d n p f,
  NoDup (map fid (fields d)) -> ~ In j (map fid (fields d)) ->
  n <> i -> find (fun p => fst p =? n) (derived d) = Some p -> ~ In j (map fst (derived d)) ->
  find_field d (snd p) = Some f ->
  forall k, derived_view (rename_field i j d) n k = derived_view d n k.
Proof. exact (rename_preserves_references 1 (le_n 1)). Qed.

(* fields with several inputs (MULTIPLY, MPLEX, WINDOW, INDIR, scalar references): after gd_rename with
   GD_REN_DATA|GD_REN_UPDB every input position of every field resolves to a field holding the same data *)
Theorem rename_keeps_every_input_position : forall i j d n q f,
  NoDup (map fid (m_fields d)) -> ~ In j (map fid (m_fields d)) -> ~ In j (map fst (m_derived d)) ->
  input_field d n q = Some f ->
  exists f', input_field (rename_fieldm i j d) (ren i j n) q = Some f' /\
             ffrag f' = ffrag f /\ fty f' = fty f /\ fspf f' = fspf f /\ fvals f' = fvals f.
Proof. exact rename_keeps_every_input. Qed.

(* the hypotheses are satisfiable *)
Example db_ok_inhabited : db_ok (mkDb [mkCfg Bin SexBig 1; mkCfg Text SexLittle 0] [mkField 7 0 UINT16 1 [[1%Z]]; mkField 9 1 UINT8 2 []] [(3, 7)]).
Proof.
  split; [repeat constructor; cbn; intuition lia|].
  split; repeat constructor; cbn; lia.
Qed.

Example wf_inhabited : Forall (wf_sample UINT16) [[1%Z]; [258%Z]].
Proof. repeat constructor; cbn; lia. Qed.
