(* Property theorems for C13 -- statements only; proofs are `exact` of lemmas. *)
From Coq Require Import ZArith List Bool Lia.
From GD Require Import C04.Bytes C13.Recode C13.RecodeProofs.
Import ListNotations.

(* recoding between binary codecs (none, gzip, bzip2, lzma, sie), any pair of byte
   orders incl. ARM, any type, any length, any copy-buffer size *)
Theorem recode_preserves_binary_codecs : forall h t ns sin sout vs,
  1 <= ns -> Forall (wf_sample t) vs -> mogrify_values h t ns Bin Bin sin sout vs = vs.
Proof. exact recode_preserves_binary. Qed.

(* the full statement (text included), its refutation, and the exact region where it holds *)
Definition recode_preserves_statement : Prop := recode_statement.
Theorem recode_preserves_refuted : ~ recode_statement.
Proof. exact recode_refuted. Qed.
Theorem recode_preserves_partial : forall h t ns ein eout sin sout vs,
  1 <= ns -> Forall (wf_sample t) vs -> native_layout h t sin -> native_layout h t sout ->
  mogrify_values h t ns ein eout sin sout vs = vs.
Proof. exact recode_preserves_native. Qed.

(* frame-offset change: every absolute sample at or after the new offset is unchanged
   (zero-filled below the old offset, dropped below the new one, as gd_alter_frameoffset(3) says) *)
Theorem frameoffset_shift_preserves : forall (A : Type) (zero : A) (old_off new_off : Z) spf vs k,
  (0 <= old_off -> 0 <= new_off -> new_off * Z.of_nat spf <= k ->
  abs_sample zero new_off spf (shift_file zero (new_off - old_off) spf vs) k = abs_sample zero old_off spf vs k)%Z.
Proof. exact @shift_preserves. Qed.

(* RAW type change: full statement, refutation, partial *)
Definition retype_preserves_statement : Prop := retype_statement.
Theorem retype_preserves_refuted : ~ retype_statement.
Proof. exact retype_refuted. Qed.
Theorem retype_preserves_partial : forall conv h t t' e s vs,
  Forall (wf_sample t) vs -> Forall (wf_sample t') (map conv vs) ->
  native_layout h t (buf_sex e s) -> native_layout h t' (buf_sex e s) ->
  retype_values conv h t t' e s vs = map conv vs.
Proof. exact retype_native. Qed.

(* sample-rate change: the chunked conversion produces old sample floor(j*o/n) of the same frame *)
Theorem spf_change_matches_statement : forall (A : Type) (dflt : A) o n nf (chunk : list A) q j,
  0 < o -> 0 < n -> length chunk = nf * o -> q < nf -> j < n ->
  nth (q * n + j) (spf_convert_chunk dflt o n chunk) dflt = spf_spec_sample dflt o n chunk q j.
Proof. exact @spf_convert_matches_spec. Qed.

(* the hypotheses of the partial theorems are satisfiable *)
Example native_layout_inhabited : forall t, native_layout x86_64 t SexLittle.
Proof. exact native_layout_little_x86. Qed.
