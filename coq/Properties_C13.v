(* Property theorems for C13 -- statements only; proofs are `exact` of lemmas. *)
From Coq Require Import ZArith List Bool Lia.
From GD Require Import C04.Bytes C13.Recode C13.RecodeProofs.
Import ListNotations.

(* recoding between any two codecs (none, gzip, bzip2, lzma, sie, text), any pair of byte
   orders incl. ARM, any type, any length, any copy-buffer size *)
Theorem recode_preserves : forall h t ns ein eout sin sout vs,
  1 <= ns -> Forall (wf_sample t) vs -> mogrify_values h t ns ein eout sin sout vs = vs.
Proof. exact recode_preserves_all. Qed.

(* closed under composition of operations *)
Theorem recode_sequences_preserve : forall h t (ops : list (nat * (codec * codec) * (sexflags * sexflags))) vs,
  Forall (fun o => 1 <= fst (fst o)) ops -> Forall (wf_sample t) vs ->
  fold_left (recode_step h t) ops vs = vs.
Proof. exact recode_sequence_preserves. Qed.

(* frame-offset change: every absolute sample at or after the new offset is unchanged
   (zero-filled below the old offset, dropped below the new one, as gd_alter_frameoffset(3) says) *)
Theorem frameoffset_shift_preserves : forall (A : Type) (zero : A) (old_off new_off : Z) spf vs k,
  (0 <= old_off -> 0 <= new_off -> new_off * Z.of_nat spf <= k ->
  abs_sample zero new_off spf (shift_file zero (new_off - old_off) spf vs) k = abs_sample zero old_off spf vs k)%Z.
Proof. exact @shift_preserves. Qed.

(* RAW type change with recoding, every codec and byte order *)
Theorem retype_preserves : forall conv h t t' e s vs,
  Forall (wf_sample t) vs -> Forall (wf_sample t') (map conv vs) ->
  retype_values conv h t t' e s vs = map conv vs.
Proof. exact retype_preserves_all. Qed.

(* sample-rate change: the chunked conversion produces old sample floor(j*o/n) of the same frame *)
Theorem spf_change_matches_statement : forall (A : Type) (dflt : A) o n nf (chunk : list A) q j,
  0 < o -> 0 < n -> length chunk = nf * o -> q < nf -> j < n ->
  nth (q * n + j) (spf_convert_chunk dflt o n chunk) dflt = spf_spec_sample dflt o n chunk q j.
Proof. exact @spf_convert_matches_spec. Qed.

(* the hypotheses are satisfiable *)
Example wf_inhabited : Forall (wf_sample UINT16) [[1%Z]; [258%Z]].
Proof. repeat constructor; cbn; lia. Qed.
