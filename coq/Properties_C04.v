(* Property theorems for C04 -- statements only; proofs are `exact` of lemmas. *)
From Coq Require Import String.
From Coq Require Import ZArith List Bool Lia.
From GD Require Import C04.Bytes C04.BytesProofs C04.EncModel C04.EncProofs Gen.EncTable.
Import ListNotations.
Local Open Scope Z_scope.

(* one component (integer or IEEE pattern) in any byte order, incl. ARM doubles *)
Theorem dec_enc : forall h w fl s z,
  0 <= z < 256 ^ Z.of_nat w -> dec_comp h w fl s (enc_comp h w fl s z) = z.
Proof. exact dec_enc_comp. Qed.

Theorem enc_dec : forall h w fl s l,
  length l = w -> Forall is_byte l -> enc_comp h w fl s (dec_comp h w fl s l) = l.
Proof. exact enc_dec_comp. Qed.

(* stored byte k holds the base-256 digit the Standards assign to that order *)
Theorem stored_byte_is_digit : forall h w fl s z k, (k < w)%nat ->
  nth k (enc_comp h w fl s z) 0 =
  (z / 256 ^ Z.of_nat (digit_index w (eff_big h fl s) (arm_applies h w fl s) k)) mod 256.
Proof. exact enc_comp_digits. Qed.

Theorem swap_is_involutive : forall ef af l,
  (af = true -> length l = 8%nat) -> fix_comp ef af (fix_comp ef af l) = l.
Proof. exact swap_involutive. Qed.

(* _GD_FixEndianness(old,new) = enc new o dec old on every buffer of samples,
   every host, every pair of byte-sex flag words (incl. 0 and both bits set) *)
Theorem fix_endianness_is_recode : forall h t old new vs,
  fix_endianness h t old new (raw_layout h t old vs) = raw_layout h t new vs.
Proof. exact fix_endianness_layout. Qed.

Theorem sample_round_trip : forall h t s v, wf_sample t v -> dec_sample h t s (enc_sample h t s v) = v.
Proof. exact dec_enc_sample. Qed.

(* the unencoded file: length and position of every sample, and decoding *)
Theorem raw_file_length : forall h t s vs,
  Forall (wf_sample t) vs -> length (raw_layout h t s vs) = (length vs * tsize t)%nat.
Proof. exact raw_layout_length. Qed.

Theorem raw_file_sample_at_offset : forall h t s vs k,
  Forall (wf_sample t) vs -> (k < length vs)%nat ->
  firstn (tsize t) (skipn (k * tsize t) (raw_layout h t s vs)) = enc_sample h t s (nth k vs []).
Proof. exact raw_layout_index. Qed.

Theorem reader_inverts_raw_layout : forall h t s vs,
  Forall (wf_sample t) vs -> raw_decode h t s (raw_layout h t s vs) = vs.
Proof. exact raw_decode_layout. Qed.

(* SIE: compression is inverted by expansion, record ends strictly increase,
   the last record ends at the last sample; the byte layout parses back *)
Theorem sie_round_trip : forall vs, sie_expand (sie_compress vs) = vs.
Proof. exact sie_expand_compress. Qed.

Theorem sie_ends_strictly_increasing : forall vs, ends_increasing (-1) (sie_compress vs).
Proof. exact sie_compress_increasing. Qed.

Theorem sie_last_record_is_last_sample : forall vs, vs <> [] ->
  exists e v rest, sie_compress vs = rest ++ [(e, v)] /\ e = Z.of_nat (length vs) - 1.
Proof. exact sie_compress_last. Qed.

Theorem reader_inverts_sie_layout : forall h t s rs,
  Forall (fun r => 0 <= fst r < 2 ^ 64 /\ wf_sample t (snd r)) rs ->
  sie_parse h t s (sie_layout h t s rs) = rs.
Proof. exact sie_parse_layout. Qed.

(* text: integers survive print/parse; a whole integer file decodes back *)
Theorem integer_text_round_trip : forall z, parse_Z (print_Z z) = z.
Proof. exact parse_print_Z. Qed.

Theorem reader_inverts_text_layout : forall t vs,
  is_float t = false -> Forall (wf_int_sample t) vs -> text_decode t (text_layout t vs) = vs.
Proof. exact text_decode_layout. Qed.

(* the encoding table regenerated from src/encoding.c *)
Theorem enc_table_agrees_with_man_page : table_matches_man enc_table = true.
Proof. exact enc_table_matches_man_page. Qed.

Theorem enc_table_extensions_distinct : nodupb (exts_of enc_table) = true.
Proof. exact enc_table_exts_distinct. Qed.

Theorem enc_table_flags_are_those_modelled : flags_as_modelled enc_table = true.
Proof. exact enc_table_flags_as_modelled. Qed.

(* discovery is a function of (directory listing, table); it returns the first
   entry in table order whose file exists, and the only one when unique *)
Theorem discovery_first_match : forall ex base tab scheme i k,
  resolve_from ex base i tab scheme = Some k ->
  exists j e x, k = (i + j)%nat /\ nth_error tab j = Some e /\ e_ext e = Some x /\
    ex (base ++ x)%string = true /\
    (match scheme with None => True | Some s => s = e_scheme e end) /\
    forall j' e' x', (j' < j)%nat -> nth_error tab j' = Some e' -> e_ext e' = Some x' ->
      (match scheme with None => True | Some s => s = e_scheme e' end) -> ex (base ++ x')%string = false.
Proof. exact resolve_from_first. Qed.

Theorem discovery_unique_file : forall ex base tab i j e x,
  nth_error tab j = Some e -> e_ext e = Some x -> ex (base ++ x)%string = true ->
  (forall j' e' x', j' <> j -> nth_error tab j' = Some e' -> e_ext e' = Some x' -> ex (base ++ x')%string = false) ->
  resolve_from ex base i tab None = Some (i + j)%nat.
Proof. exact resolve_from_complete. Qed.

(* hypotheses are satisfiable *)
Example wf_sample_inhabited : wf_sample COMPLEX128 [1; 2] /\ wf_int_sample INT16 [65535].
Proof. split; [split; [reflexivity | repeat constructor; cbn; lia] | exists 65535; split; [reflexivity | cbn; lia]]. Qed.
