From Coq Require Import ZArith Lia Bool.
From GD Require Import C10.Wrap.
Open Scope Z_scope.

Lemma swrap_id : forall z, is_i64 z -> swrap z = z.
Proof.
  unfold swrap, is_i64, two63, two64. intros z H.
  rewrite Z.mod_small; lia.
Qed.

Lemma uwrap_id : forall z, is_u64 z -> uwrap z = z.
Proof. unfold uwrap, is_u64, two64. intros. apply Z.mod_small; lia. Qed.

Lemma iwrap_id : forall z, is_int z -> iwrap z = z.
Proof.
  unfold iwrap, is_int, two31, two32. intros z H.
  rewrite Z.mod_small; lia.
Qed.

Lemma swrap_range : forall z, is_i64 (swrap z).
Proof.
  unfold swrap, is_i64, two63, two64. intros z.
  pose proof (Z.mod_pos_bound (z + 9223372036854775808) 18446744073709551616). lia.
Qed.

Lemma uwrap_range : forall z, is_u64 (uwrap z).
Proof.
  unfold uwrap, is_u64, two64. intros z.
  pose proof (Z.mod_pos_bound z 18446744073709551616). lia.
Qed.

Lemma i64b_spec : forall z, i64b z = true <-> is_i64 z.
Proof. unfold i64b, is_i64. intros. rewrite andb_true_iff, Z.leb_le, Z.ltb_lt. tauto. Qed.

Lemma intb_spec : forall z, intb z = true <-> is_int z.
Proof. unfold intb, is_int. intros. rewrite andb_true_iff, Z.leb_le, Z.ltb_lt. tauto. Qed.

(* u64 wrap of a sum of two u64 values: either exact or exactly 2^64 less *)
Lemma uadd_cases : forall a b, is_u64 a -> is_u64 b ->
  (a + b < two64 /\ uadd a b = a + b) \/ (a + b >= two64 /\ uadd a b = a + b - two64).
Proof.
  unfold uadd, uwrap, is_u64, two64. intros a b Ha Hb.
  destruct (Z_lt_ge_dec (a + b) 18446744073709551616).
  - left. split; [lia|]. apply Z.mod_small. lia.
  - right. split; [lia|].
    replace (a + b) with ((a + b - 18446744073709551616) + 1 * 18446744073709551616) at 1 by lia.
    rewrite Z.mod_add by lia. apply Z.mod_small. lia.
Qed.
