(* C10: the argument guards of the public entry points, transcribed as the
   code computes them (64-bit wrap; the `ub` flag is set when a *signed*
   operation overflowed, i.e. where C leaves the behaviour undefined and the
   compiled code wraps).  Source anchors in comments; translate/tr_guards.py
   pins the source text of every guard transcribed here (Gen/GuardForms.v). *)
From Coq Require Import ZArith Bool List.
From GD Require Import C10.Wrap Gen.GuardForms.
Open Scope Z_scope.

Definition GD_HERE : Z := -1.

Inductive range_res :=
| Reject                                   (* GD_E_RANGE *)
| Accept (first_samp : Z) (num_samp : Z).

(* GD_TRANSACTION_MAX(t), internal.h:348 ; size = GD_SIZE(t) *)
Definition transaction_max (size : Z) : Z :=
  if size =? 0 then SSIZE_MAX else SSIZE_MAX / size.

(* last test of gd_getdata64/gd_putdata64 (getdata.c:2033, putdata.c:803) *)
Definition final_range (fs ns ff0 : Z) : range_res :=
  if (fs <? 0) && (negb (fs =? GD_HERE) || negb (ff0 =? 0)) then Reject else Accept fs ns.

(* gd_getdata64, getdata.c:2003-2037.  spf : unsigned int, ff fs : off64_t,
   nf ns : size_t.  cmax = GD_SIZE_T_MAX for getdata, GD_SSIZE_T_MAX for putdata. *)
Definition frames_range (cmax spf ff fs nf ns : Z) : range_res * bool :=
  let here := (ff =? GD_HERE) || (fs =? GD_HERE) in
  let fs0 := if here then GD_HERE else fs in
  let ff0 := if here then 0 else ff in
  if negb (ff0 =? 0) || negb (nf =? 0) then
    let p := spf * ff0 in
    let pw := swrap p in
    let lim := INT64_MAX - pw in
    let ub := negb (i64b p) || negb (i64b lim) in
    if fs0 >? swrap lim then (Reject, ub)
    else
      let s := fs0 + pw in
      let fs1 := swrap s in
      let pn := umul spf nf in
      let ns1 := if ns >? usub cmax pn then cmax else uadd ns pn in
      (final_range fs1 ns1 ff0, ub || negb (i64b s))
  else (final_range fs0 ns ff0, false).

Definition getdata64_range := frames_range SIZE_MAX.
Definition putdata64_range := frames_range SSIZE_MAX.

(* _GD_DoField, getdata.c:1799-1808 (szr = GD_SIZE(return_type), szn =
   GD_SIZE(native type)); _GD_DoFieldOut, putdata.c:666-673 (szn = szr). *)
Definition dofield_guard (szr szn fs ns : Z) : range_res :=
  let ns1 := if ns >? transaction_max szr then transaction_max szr else ns in
  let ns2 := if ns1 >? transaction_max szn then transaction_max szn else ns1 in
  if fs >? swrap (usub INT64_MAX ns2) then Reject else Accept fs ns2.

(* gd_seek64, iopos.c:374-384: sample_num after adding the frames *)
Definition seek64_sample (spf frame sample : Z) : option Z * bool :=
  if frame =? 0 then (Some sample, false) else
  let p := spf * frame in
  let pw := swrap p in
  let hi := INT64_MAX - pw in
  let lo := - INT64_MAX - pw in
  let ub := negb (i64b p) ||
            (if frame >? 0 then negb (i64b hi) else negb (i64b lo)) in
  if ((frame >? 0) && (sample >? swrap hi)) || ((frame <? 0) && (sample <? swrap lo))
  then (None, ub)
  else (Some (swrap (sample + pw)), ub || negb (i64b (sample + pw))).

(* gd_seek64, iopos.c:399-406: the offset handed to _GD_Seek *)
Definition seek64_offset (sample pos : Z) : option Z :=
  if ((sample >? 0) && (pos >? INT64_MAX - sample)) || ((sample <? 0) && (pos <? - INT64_MAX - sample))
  then None else Some (sample + pos).

(* _GD_Seek, iopos.c:279 *)
Definition seek_entry_guard (offset : Z) : bool := negb (offset <? 0).

(* _GD_DoSeek, iopos.c:160-165 *)
Definition doseek_guard (size offset : Z) : bool :=
  negb ((size >? 0) && (offset >? INT64_MAX / size)).

(* slice bounds: constant.c:41, 142; string.c:39, 122.  start : unsigned
   long, n : size_t, len : size_t.  The shape is read from the source. *)
Definition slice_guard (f : slice_form) (start n len : Z) : bool :=
  match f with
  | SliceSum => negb (uadd start n >? len)
  | SliceSub => negb ((n >? len) || (start >? len - n))
  | SliceUnknown => false
  end.

(* BIT/SBIT in _GD_Add, add.c:475-483 (mask = 0: literal parameters);
   bitnum, numbits : int.  bool * ub *)
Definition addbit_guard (bitnum numbits : Z) : bool * bool :=
  if numbits <? 1 then (false, false)
  else if bitnum <? 0 then (false, false)
  else
    let s := bitnum + numbits in
    let t := iwrap s - 1 in
    (negb (iwrap t >? 63), negb (intb s) || negb (intb t)).

(* the same test in the shape the source has today (Gen.GuardForms.addbit_form) *)
Definition addbit_guard_f (f : bit_form) (bitnum numbits : Z) : bool * bool :=
  match f with
  | BitSum => addbit_guard bitnum numbits
  | BitSub =>
    if numbits <? 1 then (false, false)
    else if bitnum <? 0 then (false, false)
    else (negb ((numbits >? 64) || (bitnum >? 64 - numbits)), false)
  | BitUnknown => (false, false)
  end.

(* fragment index tests (fragment.c, protect.c, ...): index : int *)
Definition fragment_guard (index nfrag : Z) : bool :=
  negb ((index <? 0) || (index >=? nfrag)).
Definition fragment_guard_all (index nfrag : Z) : bool :=   (* GD_ALL_FRAGMENTS = -1 allowed *)
  negb ((index <? -1) || (index >=? nfrag)).
