(* C10: 64-bit machine arithmetic over Z, as the compiled code computes it.
   swrap = two's-complement wrap to int64_t (what gcc does for the signed
   products/sums below at -O1; formally undefined in C, tracked by the
   `*_ub` predicates), uwrap = wrap to size_t/uint64_t (defined in C). *)
From Coq Require Import ZArith Lia Bool.
Open Scope Z_scope.

Definition two63 : Z := 9223372036854775808.
Definition two64 : Z := 18446744073709551616.
Definition two31 : Z := 2147483648.
Definition two32 : Z := 4294967296.
Definition INT64_MAX : Z := two63 - 1.
Definition INT64_MIN : Z := - two63.
Definition SIZE_MAX : Z := two64 - 1.
Definition SSIZE_MAX : Z := two63 - 1.
Definition INT_MAX : Z := two31 - 1.

Definition uwrap (z : Z) : Z := z mod two64.
Definition swrap (z : Z) : Z := (z + two63) mod two64 - two63.
Definition iwrap (z : Z) : Z := (z + two31) mod two32 - two31.   (* C int *)

Definition is_i64 (z : Z) : Prop := - two63 <= z < two63.
Definition is_u64 (z : Z) : Prop := 0 <= z < two64.
Definition is_u32 (z : Z) : Prop := 0 <= z < two32.
Definition is_int (z : Z) : Prop := - two31 <= z < two31.
Definition i64b (z : Z) : bool := (- two63 <=? z) && (z <? two63).
Definition intb (z : Z) : bool := (- two31 <=? z) && (z <? two31).

Definition wadd (a b : Z) := swrap (a + b).
Definition wsub (a b : Z) := swrap (a - b).
Definition wmul (a b : Z) := swrap (a * b).
Definition uadd (a b : Z) := uwrap (a + b).
Definition usub (a b : Z) := uwrap (a - b).
Definition umul (a b : Z) := uwrap (a * b).
