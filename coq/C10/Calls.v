(* C10: a handful of public calls as `check* ; commit` over an abstract handle
   state, in the order the code performs the checks (constant.c:128-187,
   putdata.c:610-730, getdata.c:1975-2043, add.c:169-290, del.c:227-270).
   `Crash` = the commit step indexes outside the array (a memory-safety
   violation in the C code). *)
From Coq Require Import ZArith List Bool String.
From GD Require Import C10.Wrap C10.Guards Gen.GuardForms Gen.Recurse C10.Recurse.
Import ListNotations.
Open Scope Z_scope.

(* error codes (getdata.h) *)
Definition E_BAD_CODE := -3.    Definition E_RANGE := -8.
Definition E_RECURSE := -10.    Definition E_BAD_FIELD_TYPE := -12.
Definition E_ACCMODE := -13.    Definition E_DUPLICATE := -17.
Definition E_DIMENSION := -18.  Definition E_BAD_INDEX := -19.
Definition E_PROTECTED := -22.  Definition E_DELETE := -23.
Definition E_BOUNDS := -29.

(* entry kinds (gd_entype_t) used here *)
Definition K_RAW := 1.  Definition K_CONST := 16.  Definition K_CARRAY := 18.

Record entry := mkEntry {
  e_name : string; e_kind : Z; e_frag : Z;
  e_vals : list Z;          (* CONST/CARRAY: the elements; RAW: [spf; sample size; samples in file] *)
  e_refs : list string      (* field codes this entry uses as inputs or scalars *)
}.

Record st := mkSt {
  s_rw : bool;              (* opened GD_RDWR *)
  s_prot : list Z;          (* per fragment: bit 0 = GD_PROTECT_FORMAT, bit 1 = GD_PROTECT_DATA *)
  s_ents : list entry;
  s_lvl : Z                 (* D->recurse_level *)
}.

(* what a later call can observe (the error fields are excluded by the property) *)
Definition obs (s : st) := (s_rw s, s_prot s, s_ents s, s_lvl s).

Inductive outcome := Ok (ret : Z) | Err (e : Z) | Crash.

Inductive call :=
| CPutSlice (name : string) (start n : Z) (v : Z)
| CGetSlice (name : string) (start n : Z)
| CGetData (name : string) (ff fs nf ns szr : Z)
| CAddConst (name : string) (frag : Z) (v : Z)
| CDelete (name : string)
| CRename (name newname : string)            (* gd_rename(name, newname, 0), name.c *)
| CMove (name : string) (frag : Z)           (* gd_move(name, frag, 0), move.c *)
| CAlterCarray (name : string) (len : Z).    (* gd_alter_carray(name, GD_NULL, len), mod.c *)

Fixpoint find (l : list entry) (name : string) : option entry :=
  match l with
  | [] => None
  | e :: r => if String.eqb (e_name e) name then Some e else find r name
  end.

Definition fmt_protected (s : st) (frag : Z) : bool :=
  Z.odd (nth (Z.to_nat frag) (s_prot s) 0).

Definition set_lvl (s : st) (l : Z) : st := mkSt (s_rw s) (s_prot s) (s_ents s) l.
Definition set_ents (s : st) (l : list entry) : st := mkSt (s_rw s) (s_prot s) l (s_lvl s).

Fixpoint write_at (l : list Z) (i : nat) (n : nat) (v : Z) : list Z :=
  match i, l with
  | O, _ => (fix fill (l : list Z) (n : nat) := match n, l with
                                               | O, _ => l | S m, _ :: r => v :: fill r m | S _, [] => [] end) l n
  | S j, x :: r => x :: write_at r j n v
  | S _, [] => []
  end.

Fixpoint replace_entry (l : list entry) (e' : entry) : list entry :=
  match l with
  | [] => []
  | e :: r => if String.eqb (e_name e) (e_name e') then e' :: r else e :: replace_entry r e'
  end.

Fixpoint remove_entry (l : list entry) (name : string) : list entry :=
  match l with
  | [] => []
  | e :: r => if String.eqb (e_name e) name then r else e :: remove_entry r name
  end.

Definition rename_entry (e : entry) (n : string) : entry :=
  mkEntry n (e_kind e) (e_frag e) (e_vals e) (e_refs e).
Definition move_entry (e : entry) (g : Z) : entry :=
  mkEntry (e_name e) (e_kind e) g (e_vals e) (e_refs e).
Fixpoint resize (l : list Z) (n : nat) : list Z :=
  match n with
  | O => []
  | S k => match l with [] => 0 :: resize [] k | x :: r => x :: resize r k end
  end.
Fixpoint replace_named (l : list entry) (name : string) (e' : entry) : list entry :=
  match l with
  | [] => []
  | e :: r => if String.eqb (e_name e) name then e' :: r else e :: replace_named r name e'
  end.
Definition E_ALLOC := -7.

Definition referenced (l : list entry) (name : string) : bool :=
  existsb (fun e => existsb (String.eqb name) (e_refs e)) l.

Section Step.
  (* read from the source by the translator *)
  Variable put_form get_form : slice_form.   (* shape of the two CARRAY slice guards *)
  Variable leak_in leak_out : Z.             (* net counter change of the GD_E_RANGE exit of _GD_DoField / _GD_DoFieldOut *)

  Definition step (s : st) (c : call) : st * outcome :=
    match c with
    | CPutSlice name start n v =>
      match find (s_ents s) name with
      | None => (s, Err E_BAD_CODE)
      | Some e =>
        if negb ((e_kind e =? K_CONST) || (e_kind e =? K_CARRAY)) then (s, Err E_BAD_FIELD_TYPE)
        else if negb (s_rw s) then (s, Err E_ACCMODE)
        else let len := Z.of_nat (List.length (e_vals e)) in
        if negb (slice_guard put_form start n len) then (s, Err E_BOUNDS)
        else if MAXLVL <=? s_lvl s + 1 then (s, Err E_RECURSE)
        else match dofield_guard 8 8 (swrap start) n with
             | Reject => (set_lvl s (s_lvl s + leak_out), Err E_RANGE)
             | Accept fs ns =>
               if fmt_protected s (e_frag e) then (s, Err E_PROTECTED)
               else if (0 <=? fs) && (fs + ns <=? len)
               then (set_ents s (replace_entry (s_ents s)
                        (mkEntry (e_name e) (e_kind e) (e_frag e)
                                 (write_at (e_vals e) (Z.to_nat fs) (Z.to_nat ns) v) (e_refs e))), Ok 0)
               else (s, Crash)
             end
      end
    | CGetSlice name start n =>
      match find (s_ents s) name with
      | None => (s, Err E_BAD_CODE)
      | Some e =>
        if negb ((e_kind e =? K_CONST) || (e_kind e =? K_CARRAY)) then (s, Err E_BAD_FIELD_TYPE)
        else let len := Z.of_nat (List.length (e_vals e)) in
        if negb (slice_guard get_form start n len) then (s, Err E_BOUNDS)
        else if MAXLVL <=? s_lvl s + 1 then (s, Err E_RECURSE)
        else if swrap start =? GD_HERE then (s, Err (-6))   (* _GD_GetIOPos on a CARRAY: GD_E_INTERNAL_ERROR *)
        else match dofield_guard 8 8 (swrap start) n with
             | Reject => (set_lvl s (s_lvl s + leak_in), Err E_RANGE)
             | Accept fs ns =>
               if (0 <=? fs) && (fs + ns <=? len) then (s, Ok 0) else (s, Crash)
             end
      end
    | CGetData name ff fs nf ns szr =>
      match find (s_ents s) name with
      | None => (s, Err E_BAD_CODE)
      | Some e =>
        if negb (e_kind e =? K_RAW) then (s, Err E_DIMENSION)
        else
          let spf := nth 0 (e_vals e) 1 in
          let szn := nth 1 (e_vals e) 1 in
          let total := nth 2 (e_vals e) 0 in
          let here := (ff =? GD_HERE) || (fs =? GD_HERE) in
          let need_spf := negb ((if here then 0 else ff) =? 0) || negb (nf =? 0) in
          if need_spf && (MAXLVL <=? s_lvl s + 1) then (s, Err E_RECURSE)   (* _GD_GetSPF *)
          else match fst (getdata64_range spf ff fs nf ns) with
          | Reject => (s, Err E_RANGE)
          | Accept fs1 ns1 =>
            if MAXLVL <=? s_lvl s + 1 then (s, Err E_RECURSE)
            else match dofield_guard szr szn fs1 ns1 with
            | Reject => (set_lvl s (s_lvl s + leak_in), Err E_RANGE)
            | Accept fs2 ns2 => (s, Ok (Z.max 0 (Z.min ns2 (total - fs2))))
            end
          end
      end
    | CAddConst name frag v =>
      if negb (s_rw s) then (s, Err E_ACCMODE)
      else if negb (fragment_guard frag (Z.of_nat (List.length (s_prot s)))) then (s, Err E_BAD_INDEX)
      else match find (s_ents s) name with
      | Some _ => (s, Err E_DUPLICATE)
      | None =>
        if fmt_protected s frag then (s, Err E_PROTECTED)
        else (set_ents s (s_ents s ++ [mkEntry name K_CONST frag [v] []]), Ok 0)
      end
    | CDelete name =>
      match find (s_ents s) name with
      | None => (s, Err E_BAD_CODE)
      | Some e =>
        if negb (s_rw s) then (s, Err E_ACCMODE)
        else if fmt_protected s (e_frag e) then (s, Err E_PROTECTED)
        else if referenced (s_ents s) name then (s, Err E_DELETE)
        else (set_ents s (remove_entry (s_ents s) name), Ok 0)
      end
    | CRename name newname =>
      if negb (s_rw s) then (s, Err E_ACCMODE)
      else match find (s_ents s) name with
      | None => (s, Err E_BAD_CODE)
      | Some e =>
        if fmt_protected s (e_frag e) then (s, Err E_PROTECTED)
        else if String.eqb name newname then (s, Ok 0)
        else match find (s_ents s) newname with
        | Some _ => (s, Err E_DUPLICATE)
        | None => (set_ents s (replace_named (s_ents s) name (rename_entry e newname)), Ok 0)
        end
      end
    | CMove name frag =>
      match find (s_ents s) name with
      | None => (s, Err E_BAD_CODE)
      | Some e =>
        if negb (fragment_guard frag (Z.of_nat (List.length (s_prot s)))) then (s, Err E_BAD_INDEX)
        else if e_frag e =? frag then (s, Ok 0)
        else if negb (s_rw s) then (s, Err E_ACCMODE)
        else if fmt_protected s (e_frag e) || fmt_protected s frag then (s, Err E_PROTECTED)
        else (set_ents s (replace_named (s_ents s) name (move_entry e frag)), Ok 0)
      end
    | CAlterCarray name len =>
      if negb (s_rw s) then (s, Err E_ACCMODE)
      else match find (s_ents s) name with
      | None => (s, Err E_BAD_CODE)
      | Some e =>
        if fmt_protected s (e_frag e) then (s, Err E_PROTECTED)
        else if negb (e_kind e =? K_CARRAY) then (s, Err E_BAD_FIELD_TYPE)
        else if (len =? 0) || (len =? Z.of_nat (List.length (e_vals e))) then (s, Ok 0)
        else if len >? SSIZE_MAX / 8 then (s, Err E_ALLOC)      (* size test added by fix C10-10 *)
        else (set_ents s (replace_named (s_ents s) name
                 (mkEntry (e_name e) (e_kind e) (e_frag e) (resize (e_vals e) (Z.to_nat len)) (e_refs e))), Ok 0)
      end
    end.

  Definition run_calls (s : st) (cs : list call) : st :=
    fold_left (fun s c => fst (step s c)) cs s.
End Step.

(* the two counter parameters as read from the generated exit table *)
Definition range_exit_net (fn : string) : Z :=
  match List.find (fun f => String.eqb (fe_name f) fn) recurse_table with
  | Some f => match List.find (fun e => String.eqb (ep_err e) "GD_E_RANGE") (fe_exits f) with
              | Some e => ep_net e | None => 0 end
  | None => 0
  end.
Definition gen_leak_in : Z := range_exit_net "_GD_DoField".
Definition gen_leak_out : Z := range_exit_net "_GD_DoFieldOut".
Definition gen_step := step slice_form_GD_PutCarraySlice slice_form_gd_get_carray_slice gen_leak_in gen_leak_out.
