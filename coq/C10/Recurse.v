(* C10: the recursion counter D->recurse_level.  Gen/Recurse.v (translator
   tr_guards.py) lists, for every function that increments the counter, each
   exit path with the net change of the counter along it (0 = paired
   increment/decrement).  A call of such a function is a tree node: the
   function, the exit path taken, and the nested counter-using calls made
   in between (in order). *)
From Coq Require Import ZArith List Bool String.
From GD Require Import Gen.Recurse.
Import ListNotations.
Open Scope Z_scope.

Definition MAXLVL : Z := 32.   (* GD_MAX_RECURSE_LEVEL, pinned by tr_guards.py *)

Inductive ctree := CNode (fn : nat) (path : nat) (kids : list ctree).

Definition path_net (tbl : list fn_exits) (fn path : nat) : Z :=
  match nth_error tbl fn with
  | Some f => match nth_error (fe_exits f) path with Some e => ep_net e | None => 0 end
  | None => 0
  end.

(* (level after the call, whether GD_E_RECURSE_LEVEL was raised by this node).
   Exit path 0 of every function is its overflow exit (checked: overflow_exits_first). *)
Fixpoint run (tbl : list fn_exits) (lvl : Z) (t : ctree) {struct t} : Z * bool :=
  match t with
  | CNode fn p kids =>
    if MAXLVL <=? lvl + 1 then (lvl + path_net tbl fn 0, true)
    else
      let lvl1 := (fix go (l : Z) (ks : list ctree) {struct ks} : Z :=
                     match ks with [] => l | k :: r => go (fst (run tbl l k)) r end) (lvl + 1) kids in
      (lvl1 - 1 + path_net tbl fn p, false)
  end.

Definition run_seq (tbl : list fn_exits) (lvl : Z) (ts : list ctree) : Z :=
  fold_left (fun l t => fst (run tbl l t)) ts lvl.

(* a call tree that only takes balanced exits *)
Fixpoint clean (tbl : list fn_exits) (t : ctree) {struct t} : bool :=
  match t with
  | CNode fn p kids =>
    (path_net tbl fn p =? 0) && (path_net tbl fn 0 =? 0) &&
    (fix all (ks : list ctree) : bool := match ks with [] => true | k :: r => clean tbl k && all r end) kids
  end.

Definition exits_balanced (f : fn_exits) : bool := forallb (fun e => ep_net e =? 0) (fe_exits f).
Definition table_balanced (tbl : list fn_exits) : bool := forallb exits_balanced tbl.

Definition exit_tag (e : exit_path) : string :=
  if String.eqb (ep_err e) "" then ep_cond e else ep_err e.

Definition leaks (tbl : list fn_exits) : list (string * string) :=
  flat_map (fun f => map (fun e => (fe_name f, exit_tag e))
                         (filter (fun e => negb (ep_net e =? 0)) (fe_exits f))) tbl.

(* the unbalanced exits present in the pinned tree (recorded findings; each
   disappears from `leaks recurse_table` when its one-line fix is applied) *)
Definition known_leaks : list (string * string) :=
  [ ("_GD_DoField", "GD_E_RANGE");
    ("_GD_DoField", "if(repr==GD_REPR_IMAG)");
    ("_GD_DoFieldOut", "GD_E_RANGE");
    ("_GD_Seek", "GD_E_RANGE");
    ("_GD_NativeType", "if(D->error)") ]%string.

Definition pair_eqb (a b : string * string) : bool :=
  String.eqb (fst a) (fst b) && String.eqb (snd a) (snd b).

Definition leaks_all_known (tbl : list fn_exits) : bool :=
  forallb (fun l => existsb (pair_eqb l) known_leaks) (leaks tbl).

Definition overflow_exits_first (tbl : list fn_exits) : bool :=
  forallb (fun f => match fe_exits f with
                    | e :: _ => String.eqb (ep_err e) "GD_E_RECURSE_LEVEL" && (ep_net e =? 0)
                    | [] => false end) tbl.

(* a call avoids the listed leaks: every exit it takes is balanced *)
Definition avoids_leaks := clean.
