From Coq Require Import ZArith List String.
From GD Require Import C10.Wrap C10.Guards C10.Recurse C10.Calls Gen.Recurse Gen.GuardForms.
Require Import ExtrOcamlBasic.
Extraction Language OCaml.
Extraction "model.ml" getdata64_range putdata64_range dofield_guard seek64_sample seek64_offset seek_entry_guard
  doseek_guard slice_guard addbit_guard addbit_guard_f addbit_form fragment_guard fragment_guard_all slice_forms
  recurse_table leaks table_balanced gen_step gen_leak_in gen_leak_out obs run_seq
  Z.add Z.mul Z.sub Z.opp Z.div Z.modulo Z.ltb Z.eqb Z.of_nat Z.to_nat Z.abs.
