From Coq Require Import ZArith Lia Bool List String.
From GD Require Import C10.Wrap C10.WrapProofs C10.Guards Gen.GuardForms.
Import ListNotations.
Open Scope Z_scope.

Arguments swrap : simpl never.
Arguments uwrap : simpl never.
Arguments iwrap : simpl never.
Arguments Z.mul : simpl never.
Arguments Z.add : simpl never.
Arguments Z.sub : simpl never.
Arguments Z.opp : simpl never.
Arguments Z.div : simpl never.
Arguments Z.modulo : simpl never.
Arguments Z.ltb : simpl never.
Arguments Z.gtb : simpl never.
Arguments Z.eqb : simpl never.
Arguments Z.leb : simpl never.
Arguments Z.geb : simpl never.
Arguments i64b : simpl never.
Arguments intb : simpl never.
Arguments two63 : simpl never.
Arguments two64 : simpl never.
Arguments INT64_MAX : simpl never.
Arguments SIZE_MAX : simpl never.
Arguments SSIZE_MAX : simpl never.
Arguments GD_HERE : simpl never.
Ltac consts := unfold INT64_MAX, INT64_MIN, SIZE_MAX, SSIZE_MAX, INT_MAX, two63, two64, two31, two32 in *.
Ltac bdestr :=
  repeat match goal with
  | H : context [?a >? ?b] |- _ => rewrite (Z.gtb_ltb a b) in H
  | |- context [?a >? ?b] => rewrite (Z.gtb_ltb a b)
  | H : context [?a >=? ?b] |- _ => rewrite (Z.geb_leb a b) in H
  | |- context [?a >=? ?b] => rewrite (Z.geb_leb a b)
  end.

(* ---------------------------------------------------------------- DoField *)

Lemma transaction_max_bound : forall size n, 0 <= size -> 0 <= n ->
  n <= transaction_max size -> n * size <= SSIZE_MAX.
Proof.
  intros size n Hs Hn H. unfold transaction_max in H.
  destruct (size =? 0) eqn:E.
  - apply Z.eqb_eq in E. subst. consts. lia.
  - apply Z.eqb_neq in E. assert (0 < size) by lia.
    pose proof (Z.mul_div_le SSIZE_MAX size H0).
    assert (n * size <= (SSIZE_MAX / size) * size) by (apply Z.mul_le_mono_nonneg_r; lia).
    lia.
Qed.

Lemma transaction_max_range : forall size, 0 <= size -> 0 <= transaction_max size <= SSIZE_MAX.
Proof.
  intros. unfold transaction_max. destruct (size =? 0) eqn:E.
  - consts; lia.
  - apply Z.eqb_neq in E. assert (0 < size) by lia. split.
    + apply Z.div_pos; consts; lia.
    + apply Z.div_le_upper_bound; auto. consts. nia.
Qed.

Lemma dofield_guard_sound : forall szr szn fs ns fs' ns',
  0 <= szr -> 0 <= szn -> is_i64 fs -> is_u64 ns ->
  dofield_guard szr szn fs ns = Accept fs' ns' ->
  fs' = fs /\ 0 <= ns' <= ns /\ fs + ns' <= INT64_MAX /\
  ns' * szr <= SSIZE_MAX /\ ns' * szn <= SSIZE_MAX.
Proof.
  intros szr szn fs ns fs' ns' Hr Hn Hfs Hns H.
  unfold dofield_guard in H.
  pose proof (transaction_max_range szr Hr) as Tr.
  pose proof (transaction_max_range szn Hn) as Tn.
  set (ns1 := if ns >? transaction_max szr then transaction_max szr else ns) in *.
  set (ns2 := if ns1 >? transaction_max szn then transaction_max szn else ns1) in *.
  assert (H1 : 0 <= ns1 <= ns /\ ns1 <= transaction_max szr).
  { unfold ns1. rewrite Z.gtb_ltb. destruct (transaction_max szr <? ns) eqn:E.
    - apply Z.ltb_lt in E. lia.
    - apply Z.ltb_ge in E. unfold is_u64 in Hns. lia. }
  assert (H2 : 0 <= ns2 <= ns1 /\ ns2 <= transaction_max szn).
  { unfold ns2. rewrite Z.gtb_ltb. destruct (transaction_max szn <? ns1) eqn:E.
    - apply Z.ltb_lt in E. lia.
    - apply Z.ltb_ge in E. lia. }
  assert (Hu : usub INT64_MAX ns2 = INT64_MAX - ns2).
  { unfold usub. apply uwrap_id. unfold is_u64. consts. lia. }
  rewrite Hu in H.
  rewrite swrap_id in H by (unfold is_i64; consts; lia).
  rewrite Z.gtb_ltb in H.
  destruct (INT64_MAX - ns2 <? fs) eqn:E; [discriminate|].
  apply Z.ltb_ge in E. inversion H; subst fs' ns'.
  repeat split; try lia.
  - apply transaction_max_bound; lia.
  - apply transaction_max_bound; lia.
Qed.

(* ---------------------------------------------------------------- frames *)

Definition frames_range_statement (cmax : Z) : Prop :=
  forall spf ff fs nf ns a b,
    is_u32 spf -> is_i64 ff -> is_i64 fs -> is_u64 nf -> is_u64 ns ->
    fst (frames_range cmax spf ff fs nf ns) = Accept a b ->
    a = GD_HERE \/ (a = fs + spf * ff /\ 0 <= a <= INT64_MAX).

Lemma final_range_accept : forall fs ns ff0 a b,
  final_range fs ns ff0 = Accept a b -> a = fs /\ b = ns /\ (0 <= fs \/ fs = GD_HERE).
Proof.
  unfold final_range. intros fs ns ff0 a b H.
  destruct (fs <? 0) eqn:E1; simpl in H.
  - destruct (fs =? GD_HERE) eqn:E2; simpl in H.
    + destruct (ff0 =? 0); simpl in H; [|discriminate].
      inversion H. apply Z.eqb_eq in E2. subst. auto.
    + discriminate.
  - inversion H. apply Z.ltb_ge in E1. subst. auto.
Qed.

Lemma orb3_false : forall a b c, (negb a || negb b) || negb c = false -> a = true /\ b = true /\ c = true.
Proof. intros [] [] []; simpl; intros; try discriminate; auto. Qed.

(* excluded region: evaluations in which a signed operation overflows (ub flag) *)
Lemma frames_range_partial : forall cmax spf ff fs nf ns a b,
  is_u32 spf -> is_i64 ff -> is_i64 fs -> is_u64 nf -> is_u64 ns ->
  snd (frames_range cmax spf ff fs nf ns) = false ->
  fst (frames_range cmax spf ff fs nf ns) = Accept a b ->
  a = GD_HERE \/ (a = fs + spf * ff /\ 0 <= a <= INT64_MAX).
Proof.
  intros cmax spf ff fs nf ns a b Hspf Hff Hfs Hnf Hns Hub H.
  unfold frames_range in H, Hub.
  destruct ((ff =? GD_HERE) || (fs =? GD_HERE)) eqn:Here.
  - (* here: ff0 = 0, fs0 = -1 *)
    cbv beta iota zeta in H.
    replace (0 =? 0) with true in H by reflexivity.
    replace (negb true) with false in H by reflexivity.
    rewrite orb_false_l in H.
    destruct (negb (nf =? 0)) eqn:Enf.
    + replace (spf * 0) with 0 in H by lia.
      change (swrap 0) with 0 in H.
      replace (INT64_MAX - 0) with INT64_MAX in H by lia.
      rewrite swrap_id in H by (unfold is_i64; consts; lia).
      replace (GD_HERE >? INT64_MAX) with false in H by reflexivity.
      replace (GD_HERE + 0) with GD_HERE in H by reflexivity.
      change (swrap GD_HERE) with GD_HERE in H.
      cbv beta iota zeta in H. unfold fst in H.
      apply final_range_accept in H. left. tauto.
    + unfold fst in H. apply final_range_accept in H. left. tauto.
  - apply orb_false_iff in Here. destruct Here as [E1 E2].
    apply Z.eqb_neq in E1. apply Z.eqb_neq in E2.
    cbv beta iota zeta in H, Hub.
    destruct (negb (ff =? 0) || negb (nf =? 0)) eqn:Eblk.
    + destruct (fs >? swrap (INT64_MAX - swrap (spf * ff))) eqn:E; [discriminate H|].
      unfold fst in H. unfold snd in Hub.
      apply orb3_false in Hub. destruct Hub as [Hp [Hl Hs]].
      apply i64b_spec in Hp.
      rewrite (swrap_id (spf * ff)) in * by assumption.
      apply i64b_spec in Hl. apply i64b_spec in Hs.
      rewrite (swrap_id (INT64_MAX - spf * ff)) in E by assumption.
      rewrite (swrap_id (fs + spf * ff)) in H by assumption.
      rewrite Z.gtb_ltb in E. apply Z.ltb_ge in E.
      apply final_range_accept in H. destruct H as [Ha [_ Hc]]. subst a.
      destruct Hc as [Hc|Hc]; [right|left; assumption].
      split; [reflexivity|]. unfold is_i64 in *. consts. lia.
    + apply orb_false_iff in Eblk. destruct Eblk as [Ef _].
      apply negb_false_iff in Ef. apply Z.eqb_eq in Ef. subst ff.
      unfold fst in H. apply final_range_accept in H. destruct H as [Ha [_ Hc]]. subst a.
      destruct Hc as [Hc|Hc]; [right|left; assumption].
      split; [lia|]. unfold is_i64 in *. consts. lia.
Qed.

Lemma frames_range_refuted_at : forall cmax, (cmax = SIZE_MAX \/ cmax = SSIZE_MAX) -> ~ frames_range_statement cmax.
Proof.
  intros cmax Hc H.
  specialize (H 4 4611686018427387904 0 0 1 0 1).
  assert (is_u32 4) by (unfold is_u32, two32; lia).
  assert (is_i64 4611686018427387904) by (unfold is_i64, two63; lia).
  assert (is_i64 0) by (unfold is_i64, two63; lia).
  assert (is_u64 0) by (unfold is_u64, two64; lia).
  assert (is_u64 1) by (unfold is_u64, two64; lia).
  assert (Hv : fst (frames_range cmax 4 4611686018427387904 0 0 1) = Accept 0 1)
    by (destruct Hc; subst cmax; vm_compute; reflexivity).
  specialize (H H0 H1 H2 H3 H4 Hv).
  unfold GD_HERE in H. lia.
Qed.

Lemma frames_range_refuted : ~ frames_range_statement SIZE_MAX /\ ~ frames_range_statement SSIZE_MAX.
Proof. split; apply frames_range_refuted_at; auto. Qed.

(* the count computed by gd_getdata64 / gd_putdata64 *)
Lemma frames_count_sound : forall cmax spf ff fs nf ns a b,
  is_u32 spf -> is_u64 nf -> is_u64 ns -> 0 <= cmax < two64 ->
  spf * nf <= cmax ->
  (negb (ff =? 0) || negb (nf =? 0)) = true ->
  (ff =? GD_HERE) || (fs =? GD_HERE) = false ->
  fst (frames_range cmax spf ff fs nf ns) = Accept a b ->
  b = Z.min cmax (ns + spf * nf).
Proof.
  intros cmax spf ff fs nf ns a b Hspf Hnf Hns Hc Hp Hblk Here H.
  unfold frames_range in H. rewrite Here, Hblk in H.
  destruct (fs >? swrap (INT64_MAX - swrap (spf * ff))); simpl in H; [discriminate|].
  apply final_range_accept in H. destruct H as [_ [Hb _]]. subst b.
  assert (Hpn : umul spf nf = spf * nf).
  { unfold umul. apply uwrap_id. unfold is_u64, is_u32 in *. nia. }
  rewrite Hpn.
  assert (Hs : usub cmax (spf * nf) = cmax - spf * nf).
  { unfold usub. apply uwrap_id. unfold is_u64, is_u32 in *. nia. }
  rewrite Hs. rewrite Z.gtb_ltb.
  destruct (cmax - spf * nf <? ns) eqn:E.
  - apply Z.ltb_lt in E. lia.
  - apply Z.ltb_ge in E. unfold uadd. rewrite uwrap_id; [lia|].
    unfold is_u64, is_u32 in *. nia.
Qed.

(* ---------------------------------------------------------------- seek *)

Definition seek64_sample_statement : Prop :=
  forall spf frame sample s,
    is_u32 spf -> is_i64 frame -> is_i64 sample ->
    fst (seek64_sample spf frame sample) = Some s ->
    s = sample + spf * frame /\ is_i64 s.

Lemma seek64_sample_partial : forall spf frame sample s,
  is_u32 spf -> is_i64 frame -> is_i64 sample -> is_i64 (spf * frame) ->
  fst (seek64_sample spf frame sample) = Some s ->
  s = sample + spf * frame /\ is_i64 s.
Proof.
  intros spf frame sample s Hspf Hfr Hsa Hp H.
  unfold seek64_sample in H.
  destruct (frame =? 0) eqn:E0.
  - apply Z.eqb_eq in E0. subst. simpl in H. inversion H. subst. split; [lia|assumption].
  - apply Z.eqb_neq in E0. rewrite (swrap_id (spf * frame)) in H by assumption.
    rewrite !Z.gtb_ltb in H.
    destruct (0 <? frame) eqn:Ep.
    + apply Z.ltb_lt in Ep.
      assert (0 <= spf * frame) by (unfold is_u32 in *; nia).
      rewrite (swrap_id (INT64_MAX - spf * frame)) in H by (unfold is_i64 in *; consts; lia).
      replace (frame <? 0) with false in H by (symmetry; apply Z.ltb_ge; lia).
      simpl in H. rewrite orb_false_r in H.
      destruct (INT64_MAX - spf * frame <? sample) eqn:E; simpl in H; [discriminate|].
      apply Z.ltb_ge in E.
      assert (is_i64 (sample + spf * frame)) by (unfold is_i64 in *; consts; lia).
      rewrite swrap_id in H by assumption. inversion H. subst. auto.
    + apply Z.ltb_ge in Ep. assert (frame < 0) by lia.
      assert (spf * frame <= 0) by (unfold is_u32 in *; nia).
      replace (frame <? 0) with true in H by (symmetry; apply Z.ltb_lt; lia).
      simpl in H.
      destruct (Z_lt_ge_dec (- INT64_MAX - spf * frame) two63) as [Hin|Hout].
      * rewrite (swrap_id (- INT64_MAX - spf * frame)) in H by (unfold is_i64 in *; consts; lia).
        destruct (sample <? - INT64_MAX - spf * frame) eqn:E; simpl in H; [discriminate|].
        apply Z.ltb_ge in E.
        assert (is_i64 (sample + spf * frame)) by (unfold is_i64 in *; consts; lia).
        rewrite swrap_id in H by assumption. inversion H. subst. auto.
      * (* spf*frame = INT64_MIN: -INT64_MAX - p = 2^63 wraps to INT64_MIN *)
        assert (spf * frame = - two63) by (unfold is_i64 in *; consts; lia).
        rewrite H2 in H.
        replace (- INT64_MAX - - two63) with 1 in H by (consts; lia).
        change (swrap 1) with 1 in H.
        destruct (sample <? 1) eqn:E; simpl in H; [discriminate|].
        apply Z.ltb_ge in E.
        assert (is_i64 (sample + - two63)) by (unfold is_i64 in *; consts; lia).
        rewrite swrap_id in H by assumption. inversion H. subst. rewrite H2. auto.
Qed.

Lemma seek64_sample_refuted : ~ seek64_sample_statement.
Proof.
  intros H. specialize (H 4 4611686018427387904 0 0).
  assert (is_u32 4) by (unfold is_u32, two32; lia).
  assert (is_i64 4611686018427387904) by (unfold is_i64, two63; lia).
  assert (is_i64 0) by (unfold is_i64, two63; lia).
  specialize (H H0 H1 H2 eq_refl). lia.
Qed.

Lemma seek64_offset_sound : forall sample pos o,
  is_i64 sample -> is_i64 pos ->
  seek64_offset sample pos = Some o -> o = sample + pos /\ is_i64 o.
Proof.
  intros sample pos o Hs Hp H. unfold seek64_offset in H.
  rewrite !Z.gtb_ltb in H.
  destruct (0 <? sample) eqn:E1; destruct (sample <? 0) eqn:E2; simpl in H;
    try apply Z.ltb_lt in E1; try apply Z.ltb_lt in E2;
    try apply Z.ltb_ge in E1; try apply Z.ltb_ge in E2; try lia.
  - rewrite orb_false_r in H.
    destruct (INT64_MAX - sample <? pos) eqn:E; [discriminate|]. apply Z.ltb_ge in E.
    inversion H. split; [reflexivity|]. unfold is_i64 in *. consts. lia.
  - destruct (pos <? - INT64_MAX - sample) eqn:E; [discriminate|]. apply Z.ltb_ge in E.
    inversion H. split; [reflexivity|]. unfold is_i64 in *. consts. lia.
  - inversion H. assert (sample = 0) by lia. subst. split; [reflexivity|].
    replace (0 + pos) with pos by lia. assumption.
Qed.

Lemma seek_entry_guard_sound : forall o, seek_entry_guard o = true -> 0 <= o.
Proof. unfold seek_entry_guard. intros o H. apply negb_true_iff, Z.ltb_ge in H. assumption. Qed.

Lemma doseek_guard_sound : forall size offset,
  0 < size -> doseek_guard size offset = true -> offset * size <= INT64_MAX.
Proof.
  intros size offset Hs H. unfold doseek_guard in H.
  apply negb_true_iff in H. rewrite !Z.gtb_ltb in H.
  replace (0 <? size) with true in H by (symmetry; apply Z.ltb_lt; lia).
  simpl in H. apply Z.ltb_ge in H.
  pose proof (Z.mul_div_le INT64_MAX size Hs).
  assert (offset * size <= (INT64_MAX / size) * size) by (apply Z.mul_le_mono_nonneg_r; lia).
  lia.
Qed.

(* ---------------------------------------------------------------- slices *)

Definition slice_guard_statement (f : slice_form) : Prop :=
  forall start n len, is_u64 start -> is_u64 n -> is_u64 len ->
    slice_guard f start n len = true -> start + n <= len.

Lemma slice_sub_sound : slice_guard_statement SliceSub.
Proof.
  intros start n len Hs Hn Hl H. simpl in H.
  apply negb_true_iff, orb_false_iff in H. destruct H as [H1 H2].
  rewrite Z.gtb_ltb in *. apply Z.ltb_ge in H1. apply Z.ltb_ge in H2. lia.
Qed.

Lemma slice_sum_partial : forall start n len, is_u64 start -> is_u64 n -> is_u64 len ->
  start + n < two64 ->
  slice_guard SliceSum start n len = true -> start + n <= len.
Proof.
  intros start n len Hs Hn Hl Hno H. simpl in H.
  apply negb_true_iff in H. rewrite Z.gtb_ltb in H. apply Z.ltb_ge in H.
  unfold uadd in H. rewrite uwrap_id in H by (unfold is_u64 in *; lia). assumption.
Qed.

Lemma slice_sum_refuted : ~ slice_guard_statement SliceSum.
Proof.
  intros H. specialize (H 18446744073709551614 3 4).
  assert (is_u64 18446744073709551614) by (unfold is_u64, two64; lia).
  assert (is_u64 3) by (unfold is_u64, two64; lia).
  assert (is_u64 4) by (unfold is_u64, two64; lia).
  specialize (H H0 H1 H2 eq_refl). lia.
Qed.

Lemma slice_unknown_vacuous : slice_guard_statement SliceUnknown.
Proof. intros start n len _ _ _ H. discriminate. Qed.

(* what holds for the guard of whatever shape the source has today *)
Lemma slice_guard_as_built : forall fn f, In (fn, f) slice_forms ->
  forall start n len, is_u64 start -> is_u64 n -> is_u64 len ->
  (f = SliceSub \/ start + n < two64) ->
  slice_guard f start n len = true -> start + n <= len.
Proof.
  intros fn f _ start n len Hs Hn Hl Hc H. destruct f.
  - destruct Hc as [Hc|Hc]; [discriminate|]. eapply slice_sum_partial; eauto.
  - eapply slice_sub_sound; eauto.
  - discriminate.
Qed.

Definition slice_form_known (f : slice_form) : bool :=
  match f with SliceUnknown => false | _ => true end.

Lemma slice_forms_recognised : forallb (fun p => slice_form_known (snd p)) slice_forms = true.
Proof. vm_compute. reflexivity. Qed.

Lemma slice_forms_four : List.length slice_forms = 4%nat.
Proof. reflexivity. Qed.

Lemma guards_all_pinned : forallb (fun p : string * bool => snd p) guards_pinned = true
                          /\ forallb (fun p : string * bool => snd p) macros_pinned = true.
Proof. vm_compute. split; reflexivity. Qed.

(* ---------------------------------------------------------------- bit *)

Definition addbit_guard_statement : Prop :=
  forall bitnum numbits, is_int bitnum -> is_int numbits ->
    fst (addbit_guard bitnum numbits) = true ->
    0 <= bitnum /\ 1 <= numbits /\ bitnum + numbits <= 64.

Lemma addbit_guard_partial : forall bitnum numbits, is_int bitnum -> is_int numbits ->
  bitnum + numbits <= INT_MAX ->
  fst (addbit_guard bitnum numbits) = true ->
  0 <= bitnum /\ 1 <= numbits /\ bitnum + numbits <= 64.
Proof.
  intros b n Hb Hn Hs H. unfold addbit_guard in H.
  destruct (n <? 1) eqn:E1; [discriminate|]. apply Z.ltb_ge in E1.
  destruct (b <? 0) eqn:E2; [discriminate|]. apply Z.ltb_ge in E2.
  simpl in H. apply negb_true_iff in H. rewrite Z.gtb_ltb in H. apply Z.ltb_ge in H.
  rewrite (iwrap_id (b + n)) in H by (unfold is_int in *; consts; lia).
  rewrite iwrap_id in H by (unfold is_int in *; consts; lia). lia.
Qed.

Lemma addbit_guard_refuted : ~ addbit_guard_statement.
Proof.
  intros H. specialize (H 2147483647 2147483647).
  assert (is_int 2147483647) by (unfold is_int, two31; lia).
  specialize (H H0 H0 eq_refl). lia.
Qed.

Lemma addbit_sub_sound : forall bitnum numbits, is_int bitnum -> is_int numbits ->
  fst (addbit_guard_f BitSub bitnum numbits) = true ->
  0 <= bitnum /\ 1 <= numbits /\ bitnum + numbits <= 64.
Proof.
  intros b n Hb Hn H. unfold addbit_guard_f in H.
  destruct (n <? 1) eqn:E1; [discriminate|]. apply Z.ltb_ge in E1.
  destruct (b <? 0) eqn:E2; [discriminate|]. apply Z.ltb_ge in E2.
  unfold fst in H. apply negb_true_iff, orb_false_iff in H. destruct H as [H1 H2].
  rewrite Z.gtb_ltb in H1, H2. apply Z.ltb_ge in H1. apply Z.ltb_ge in H2. lia.
Qed.

Lemma addbit_as_built : forall bitnum numbits, is_int bitnum -> is_int numbits ->
  (addbit_form = BitSub \/ bitnum + numbits <= INT_MAX) ->
  fst (addbit_guard_f addbit_form bitnum numbits) = true ->
  0 <= bitnum /\ 1 <= numbits /\ bitnum + numbits <= 64.
Proof.
  intros b n Hb Hn Hc H. destruct addbit_form eqn:F.
  - destruct Hc as [Hc|Hc]; [discriminate|]. apply addbit_guard_partial; auto.
  - apply addbit_sub_sound; auto.
  - discriminate.
Qed.

Lemma fragment_guard_sound : forall i n, fragment_guard i n = true -> 0 <= i < n.
Proof.
  unfold fragment_guard. intros i n H. apply negb_true_iff, orb_false_iff in H.
  destruct H as [H1 H2]. rewrite Z.geb_leb in H2. apply Z.ltb_ge in H1. apply Z.leb_gt in H2. lia.
Qed.

Lemma fragment_guard_all_sound : forall i n, fragment_guard_all i n = true -> -1 <= i < n.
Proof.
  unfold fragment_guard_all. intros i n H. apply negb_true_iff, orb_false_iff in H.
  destruct H as [H1 H2]. rewrite Z.geb_leb in H2. apply Z.ltb_ge in H1. apply Z.leb_gt in H2. lia.
Qed.
