From Coq Require Import ZArith List Bool String Lia.
From GD Require Import Gen.Recurse C10.Recurse.
Import ListNotations.
Open Scope Z_scope.

Section CtreeInd.
  Variable P : ctree -> Prop.
  Hypothesis H : forall fn p kids, Forall P kids -> P (CNode fn p kids).
  Fixpoint ctree_ind' (t : ctree) : P t :=
    match t with
    | CNode fn p kids =>
      H fn p kids ((fix go (ks : list ctree) : Forall P ks :=
                      match ks with [] => Forall_nil P | k :: r => Forall_cons k (ctree_ind' k) (go r) end) kids)
    end.
End CtreeInd.

Lemma run_clean : forall tbl t, clean tbl t = true -> forall lvl, fst (run tbl lvl t) = lvl.
Proof.
  intros tbl t. induction t as [fn p kids IH] using ctree_ind'.
  intros Hc lvl. simpl in Hc. apply andb_true_iff in Hc. destruct Hc as [Hc Hk].
  apply andb_true_iff in Hc. destruct Hc as [Hp H0].
  apply Z.eqb_eq in Hp. apply Z.eqb_eq in H0.
  simpl. destruct (MAXLVL <=? lvl + 1).
  - simpl. lia.
  - simpl. rewrite Hp.
    assert (Hgo : forall l,
      (fix go (l : Z) (ks : list ctree) {struct ks} : Z :=
         match ks with [] => l | k :: r => go (fst (run tbl l k)) r end) l kids = l).
    { clear Hp H0. induction kids as [|k r IHr]; intros l; [reflexivity|].
      inversion IH; subst. apply andb_true_iff in Hk. destruct Hk as [Hk1 Hk2].
      rewrite (H1 Hk1 l). apply IHr; assumption. }
    rewrite Hgo. lia.
Qed.

Lemma run_seq_clean : forall tbl ts, forallb (clean tbl) ts = true ->
  forall lvl, run_seq tbl lvl ts = lvl.
Proof.
  intros tbl ts. induction ts as [|t r IH]; intros H lvl; [reflexivity|].
  simpl in H. apply andb_true_iff in H. destruct H as [H1 H2].
  unfold run_seq. simpl. rewrite (run_clean tbl t H1 lvl). apply IH. assumption.
Qed.

Lemma path_net_balanced : forall tbl, table_balanced tbl = true -> forall fn p, path_net tbl fn p = 0.
Proof.
  intros tbl H fn p. unfold path_net.
  destruct (nth_error tbl fn) as [f|] eqn:E1; [|reflexivity].
  destruct (nth_error (fe_exits f) p) as [e|] eqn:E2; [|reflexivity].
  unfold table_balanced in H. rewrite forallb_forall in H.
  specialize (H f (nth_error_In _ _ E1)). unfold exits_balanced in H.
  rewrite forallb_forall in H. specialize (H e (nth_error_In _ _ E2)).
  apply Z.eqb_eq in H. assumption.
Qed.

Lemma clean_of_balanced : forall tbl, table_balanced tbl = true -> forall t, clean tbl t = true.
Proof.
  intros tbl H t. induction t as [fn p kids IH] using ctree_ind'.
  simpl. rewrite !(path_net_balanced tbl H). simpl.
  induction kids as [|k r IHr]; [reflexivity|].
  inversion IH; subst. rewrite H2. simpl. apply IHr. assumption.
Qed.

(* full statement: from level 0, any sequence of (nested) calls returns to 0 *)
Definition recurse_balanced_statement (tbl : list fn_exits) : Prop :=
  forall ts, run_seq tbl 0 ts = 0.

Lemma recurse_balanced_of_table : forall tbl, table_balanced tbl = true -> recurse_balanced_statement tbl.
Proof.
  intros tbl H ts. apply run_seq_clean. apply forallb_forall. intros t _.
  apply clean_of_balanced. assumption.
Qed.

Lemma recurse_balanced_partial : forall tbl ts, forallb (avoids_leaks tbl) ts = true -> run_seq tbl 0 ts = 0.
Proof. intros. apply run_seq_clean. assumption. Qed.

(* a leaking exit: n repetitions raise the level by n ... *)
Lemma run_leaf_leak : forall tbl f p lvl, path_net tbl f p = 1 -> lvl + 1 < MAXLVL ->
  run tbl lvl (CNode f p []) = (lvl + 1, false).
Proof.
  intros tbl f p lvl Hn Hl. simpl.
  replace (MAXLVL <=? lvl + 1) with false by (symmetry; apply Z.leb_gt; lia).
  rewrite Hn. f_equal. lia.
Qed.

Lemma run_seq_leak : forall tbl f p, path_net tbl f p = 1 ->
  forall n lvl, 0 <= lvl -> lvl + Z.of_nat n < MAXLVL ->
  run_seq tbl lvl (repeat (CNode f p []) n) = lvl + Z.of_nat n.
Proof.
  intros tbl f p Hn n. induction n as [|n IH]; intros lvl H0 Hl.
  - simpl. unfold run_seq. simpl. lia.
  - change (run_seq tbl lvl (repeat (CNode f p []) (S n)))
      with (run_seq tbl (fst (run tbl lvl (CNode f p []))) (repeat (CNode f p []) n)).
    rewrite run_leaf_leak by (auto; lia). simpl fst.
    rewrite IH by lia. lia.
Qed.

(* ... and after 31 of them every counter-using call fails with GD_E_RECURSE_LEVEL *)
Lemma leak_starves : forall tbl f p, path_net tbl f p = 1 ->
  run_seq tbl 0 (repeat (CNode f p []) 31) = 31 /\
  forall g q kids, snd (run tbl 31 (CNode g q kids)) = true.
Proof.
  intros tbl f p Hn. split.
  - rewrite (run_seq_leak tbl f p Hn 31 0); [reflexivity|lia|unfold MAXLVL; simpl; lia].
  - intros. reflexivity.
Qed.

Lemma leak_refutes : forall tbl f p, path_net tbl f p = 1 -> ~ recurse_balanced_statement tbl.
Proof.
  intros tbl f p Hn H. specialize (H [CNode f p []]).
  change (run_seq tbl 0 [CNode f p []]) with (fst (run tbl 0 (CNode f p []))) in H.
  rewrite run_leaf_leak in H by (auto; unfold MAXLVL; lia). simpl in H. lia.
Qed.

(* facts about the generated table *)
Lemma gen_overflow_exits_first : overflow_exits_first recurse_table = true.
Proof. vm_compute. reflexivity. Qed.

Lemma gen_leaks_all_known : leaks_all_known recurse_table = true.
Proof. vm_compute. reflexivity. Qed.

Lemma gen_table_nonempty : (5 <=? Z.of_nat (List.length recurse_table)) = true.
Proof. vm_compute. reflexivity. Qed.

Lemma no_leaks_balanced : forall tbl, leaks tbl = [] -> table_balanced tbl = true.
Proof.
  intros tbl H. unfold table_balanced. apply forallb_forall. intros f Hf.
  unfold exits_balanced. apply forallb_forall. intros e He.
  destruct (ep_net e =? 0) eqn:E; [reflexivity|exfalso].
  unfold leaks in H.
  assert (In (fe_name f, exit_tag e)
             (flat_map (fun f => map (fun e => (fe_name f, exit_tag e))
                         (filter (fun e => negb (ep_net e =? 0)) (fe_exits f))) tbl)).
  { apply in_flat_map. exists f. split; [assumption|]. apply in_map_iff. exists e. split; [reflexivity|].
    apply filter_In. split; [assumption|]. rewrite E. reflexivity. }
  rewrite H in H0. inversion H0.
Qed.

Example leak_hypothesis_satisfiable :
  exists tbl f p, path_net tbl f p = 1 /\ path_net tbl f 0 = 0.
Proof.
  exists [mkFn "x.c" "f" [mkExit 1 "return" "GD_E_RECURSE_LEVEL" "" 0; mkExit 2 "return" "GD_E_RANGE" "" 1]].
  exists 0%nat, 1%nat. split; reflexivity.
Qed.

Example clean_hypothesis_satisfiable :
  exists t, avoids_leaks recurse_table t = true.
Proof. exists (CNode 0 0 []). vm_compute. reflexivity. Qed.
