From Coq Require Import ZArith List Bool String Lia.
From GD Require Import C10.Wrap C10.WrapProofs C10.Guards C10.GuardsProofs Gen.GuardForms Gen.Recurse C10.Recurse C10.Calls.
Import ListNotations.
Open Scope Z_scope.

Definition failed_call_pure_statement (pf gf : slice_form) (li lo : Z) : Prop :=
  forall s c s' e, step pf gf li lo s c = (s', Err e) -> obs s' = obs s.

Ltac inv_step H :=
  repeat match type of H with
  | (match ?x with _ => _ end) = _ => destruct x eqn:?; try discriminate
  | (if ?x then _ else _) = _ => destruct x eqn:?; try discriminate
  | (let (_, _) := ?x in _) = _ => destruct x eqn:?
  end.

(* with balanced GD_E_RANGE exits a failed call changes nothing *)
Lemma failed_call_pure_balanced : forall pf gf, failed_call_pure_statement pf gf 0 0.
Proof.
  intros pf gf s c s' e H. destruct c; simpl in H; inv_step H;
    inversion H; subst; try reflexivity;
    unfold obs, set_lvl; simpl; rewrite Z.add_0_r; reflexivity.
Qed.

(* whatever the exit table says: only GD_E_RANGE can move the counter *)
Lemma failed_call_pure_partial : forall pf gf li lo s c s' e,
  step pf gf li lo s c = (s', Err e) -> e <> E_RANGE -> obs s' = obs s.
Proof.
  intros pf gf li lo s c s' e H Hne. destruct c; simpl in H; inv_step H;
    inversion H; subst; try reflexivity; exfalso; apply Hne; reflexivity.
Qed.

Definition st0 : st :=
  mkSt true [0] [mkEntry "raw" K_RAW 0 [2; 1; 100] []; mkEntry "carray" K_CARRAY 0 [1; 2; 3; 4] []] 0.

Lemma failed_call_pure_refuted : forall pf gf lo, ~ failed_call_pure_statement pf gf 1 lo.
Proof.
  intros pf gf lo H.
  specialize (H st0 (CGetData "raw" 0 9223372036854775806 0 5 1)).
  simpl in H. vm_compute in H.
  specialize (H _ _ eq_refl). discriminate H.
Qed.

(* a failing call never alters the level by more than the table's leak, and a
   sequence of calls from level 0 stays at level 0 when the exits are balanced *)
Lemma step_level_balanced : forall pf gf s c, s_lvl (fst (step pf gf 0 0 s c)) = s_lvl s.
Proof.
  intros pf gf s c. destruct c; simpl;
  repeat match goal with
  | |- context [match ?x with _ => _ end] => destruct x eqn:?
  end; simpl; try reflexivity; lia.
Qed.

Lemma run_calls_level_balanced : forall pf gf cs s, s_lvl (run_calls pf gf 0 0 s cs) = s_lvl s.
Proof.
  intros pf gf cs. induction cs as [|c r IH]; intros s; [reflexivity|].
  unfold run_calls in *. simpl. rewrite IH. apply step_level_balanced.
Qed.

(* memory safety of the commit step *)
Definition no_crash_statement (pf gf : slice_form) : Prop :=
  forall li lo s c, (forall name start n v, c = CPutSlice name start n v -> is_u64 start /\ is_u64 n) ->
                    (forall name start n, c = CGetSlice name start n -> is_u64 start /\ is_u64 n) ->
                    snd (step pf gf li lo s c) <> Crash.

Lemma length_u64 : forall (l : list Z), (Z.of_nat (List.length l) < two64) -> is_u64 (Z.of_nat (List.length l)).
Proof. intros. unfold is_u64. lia. Qed.

Lemma no_crash_sub : forall li lo s c,
  (forall e, In e (s_ents s) -> Z.of_nat (List.length (e_vals e)) < two63) ->
  (forall name start n v, c = CPutSlice name start n v -> is_u64 start /\ is_u64 n) ->
  (forall name start n, c = CGetSlice name start n -> is_u64 start /\ is_u64 n) ->
  snd (step SliceSub SliceSub li lo s c) <> Crash.
Proof.
  intros li lo s c Hlen Hp Hg.
  assert (Hfind : forall l name e, find l name = Some e -> In e l).
  { induction l as [|x r IH]; intros name e H; [discriminate|]. simpl in H.
    destruct (String.eqb (e_name x) name); [inversion H; left; reflexivity|right; eapply IH; eauto]. }
  assert (Hcore : forall e start n fs ns,
            In e (s_ents s) -> is_u64 start -> is_u64 n ->
            slice_guard SliceSub start n (Z.of_nat (List.length (e_vals e))) = true ->
            dofield_guard 8 8 (swrap start) n = Accept fs ns ->
            (0 <=? fs) && (fs + ns <=? Z.of_nat (List.length (e_vals e))) = true).
  { intros e start n fs ns Hin Hs Hn Hsg Hdg.
    pose proof (Hlen e Hin) as Hl.
    assert (Hl64 : Z.of_nat (List.length (e_vals e)) < two64) by (unfold two63, two64 in *; lia).
    pose proof (slice_sub_sound start n _ Hs Hn (length_u64 _ Hl64) Hsg) as Hb.
    assert (is_i64 start) by (unfold is_i64, is_u64 in *; unfold two63 in *; lia).
    rewrite swrap_id in Hdg by assumption.
    pose proof (dofield_guard_sound 8 8 start n _ _ ltac:(lia) ltac:(lia) H Hn Hdg) as [Hfs [Hns _]].
    subst fs. apply andb_true_iff. split; apply Z.leb_le; unfold is_u64 in *; lia. }
  destruct c; unfold step.
  - destruct (Hp _ _ _ _ eq_refl) as [Hs Hn].
    destruct (find (s_ents s) name) as [e|] eqn:Ef; [|discriminate].
    destruct (negb ((e_kind e =? K_CONST) || (e_kind e =? K_CARRAY))); [discriminate|].
    destruct (negb (s_rw s)); [discriminate|].
    destruct (slice_guard SliceSub start n (Z.of_nat (List.length (e_vals e)))) eqn:Esg; [|discriminate].
    cbv beta iota zeta. unfold negb.
    destruct (MAXLVL <=? s_lvl s + 1); [discriminate|].
    destruct (dofield_guard 8 8 (swrap start) n) as [|fs ns] eqn:Eg; [discriminate|].
    destruct (fmt_protected s (e_frag e)); [discriminate|].
    rewrite (Hcore e start n fs ns (Hfind _ _ _ Ef) Hs Hn Esg Eg). discriminate.
  - destruct (Hg _ _ _ eq_refl) as [Hs Hn].
    destruct (find (s_ents s) name) as [e|] eqn:Ef; [|discriminate].
    destruct (negb ((e_kind e =? K_CONST) || (e_kind e =? K_CARRAY))); [discriminate|].
    destruct (slice_guard SliceSub start n (Z.of_nat (List.length (e_vals e)))) eqn:Esg; [|discriminate].
    cbv beta iota zeta. unfold negb.
    destruct (MAXLVL <=? s_lvl s + 1); [discriminate|].
    destruct (swrap start =? GD_HERE); [discriminate|].
    destruct (dofield_guard 8 8 (swrap start) n) as [|fs ns] eqn:Eg; [discriminate|].
    rewrite (Hcore e start n fs ns (Hfind _ _ _ Ef) Hs Hn Esg Eg). discriminate.
  - repeat match goal with |- context [match ?x with _ => _ end] => destruct x eqn:? end; simpl; discriminate.
  - repeat match goal with |- context [match ?x with _ => _ end] => destruct x eqn:? end; simpl; discriminate.
  - repeat match goal with |- context [match ?x with _ => _ end] => destruct x eqn:? end; simpl; discriminate.
  - repeat match goal with |- context [match ?x with _ => _ end] => destruct x eqn:? end; simpl; discriminate.
  - repeat match goal with |- context [match ?x with _ => _ end] => destruct x eqn:? end; simpl; discriminate.
  - repeat match goal with |- context [match ?x with _ => _ end] => destruct x eqn:? end; simpl; discriminate.
Qed.

(* with the wrapping sum the commit step leaves the array: start = 2^64-2, n = 3 *)
Lemma no_crash_sum_refuted :
  exists s c, (forall name start n v, c = CPutSlice name start n v -> is_u64 start /\ is_u64 n) /\
              snd (step SliceSum SliceSum 0 0 s c) = Crash.
Proof.
  exists st0, (CPutSlice "carray" 18446744073709551614 3 7). split.
  - intros name start n v H. inversion H; subst. unfold is_u64, two64. lia.
  - vm_compute. reflexivity.
Qed.

Lemma get_slice_internal_error_sum :
  exists s c, (forall name start n, c = CGetSlice name start n -> is_u64 start /\ is_u64 n) /\
              snd (step SliceSum SliceSum 0 0 s c) = Err (-6).
Proof.
  exists st0, (CGetSlice "carray" 18446744073709551615 2). split.
  - intros name start n H. inversion H; subst. unfold is_u64, two64. lia.
  - vm_compute. reflexivity.
Qed.

(* as built: whichever shapes the translator found *)
Lemma no_crash_as_built :
  slice_form_GD_PutCarraySlice = SliceSub -> slice_form_gd_get_carray_slice = SliceSub ->
  forall s c,
  (forall e, In e (s_ents s) -> Z.of_nat (List.length (e_vals e)) < two63) ->
  (forall name start n v, c = CPutSlice name start n v -> is_u64 start /\ is_u64 n) ->
  (forall name start n, c = CGetSlice name start n -> is_u64 start /\ is_u64 n) ->
  snd (gen_step s c) <> Crash.
Proof. intros H1 H2 s c. unfold gen_step. rewrite H1, H2. apply no_crash_sub. Qed.

Lemma gen_leaks_are_bits : (gen_leak_in =? 0) || (gen_leak_in =? 1) = true /\ (gen_leak_out =? 0) || (gen_leak_out =? 1) = true.
Proof. vm_compute. split; reflexivity. Qed.

Lemma failed_call_pure_as_built : forall s c s' e,
  gen_step s c = (s', Err e) -> (e <> E_RANGE \/ (gen_leak_in = 0 /\ gen_leak_out = 0)) -> obs s' = obs s.
Proof.
  intros s c s' e H [Hne|[H1 H2]].
  - eapply failed_call_pure_partial; eauto.
  - unfold gen_step in H. rewrite H1, H2 in H. eapply failed_call_pure_balanced; eauto.
Qed.

Example failed_call_hyp_satisfiable : exists s c s' e, gen_step s c = (s', Err e) /\ e <> E_RANGE.
Proof. exists st0, (CDelete "nosuch"), st0, E_BAD_CODE. split; [vm_compute; reflexivity|discriminate]. Qed.
