(* C02/C17: gd_putdata on a RAW field of the raw (in-place) encoding as an event that changes the
   database: the bytes are spliced into the file (a hole is zero filled), the file is left open with its
   I/O pointer after the last sample written (_GD_DoRawOut, putdata.c:30-140; _GD_RawWrite, raw.c).
   Together with C02/Handle.v: after ANY history of calls and writes, reads return the window of the
   CURRENT contents, and the invariant holds throughout. *)
From Coq Require Import ZArith List Bool Lia.
From GD Require Import C02.Model C02.Slices C02.CodecProofs C02.BzRead C02.HistoryProofs C02.Windows C02.Handle.
Import ListNotations.
Local Open Scope Z_scope.

Definition splice (S : list Z) (a : Z) (bs : list Z) : list Z :=
  firstn (Z.to_nat a) S ++ repeat 0 (Z.to_nat (a - len S)) ++ bs ++ skipn (Z.to_nat (a + len bs)) S.

Definition set_bytes (rd : rawdef) (S : list Z) : rawdef :=
  {| rd_enc := rd_enc rd; rd_size := rd_size rd; rd_sgn := rd_sgn rd; rd_bytes := S; rd_foff := rd_foff rd |}.

Definition is_raw_enc (e : enc) : bool := match e with ERaw => true | _ => false end.

(* gd_putdata(raw field r, first sample k, samples given as their bytes bs) *)
Definition put_raw (d : db) (s : state) (r : nat) (k : Z) (bs : list Z) : option (db * state) :=
  let rd := get_rd d r in
  if (k <? rd_foff rd) || negb (len bs mod rd_size rd =? 0) || negb (is_raw_enc (rd_enc rd))
     || negb (Nat.ltb r (length (d_raws d)))
  then None      (* GD_E_RANGE before the frame offset; other encodings are not modelled *)
  else
    let p := k - rd_foff rd in
    let p' := p + len bs / rd_size rd in
    Some ({| d_cfg := d_cfg d; d_raws := upd (d_raws d) r (set_bytes rd (splice (rd_bytes rd) (p * rd_size rd) bs));
             d_fields := d_fields d |},
          set_rs s r (set_off st_opened p' (p' * rd_size rd))).

Inductive event :=
| ECall (c : call)
| EPut (r : nat) (k : Z) (bs : list Z).

Definition ev_step (dec : list Z -> Z -> Z * bool) (ds : db * state) (e : event) : db * state :=
  match e with
  | ECall c => (fst ds, fst (step dec (fst ds) (snd ds) c))
  | EPut r k bs => match put_raw (fst ds) (snd ds) r k bs with Some ds' => ds' | None => ds end   (* a failing write changes nothing *)
  end.

Definition ev_run dec (ds : db * state) (h : list event) : db * state := fold_left (ev_step dec) h ds.

(* what was written is there *)
Lemma splice_written S a bs : 0 <= a -> slice (splice S a bs) a (len bs) = bs.
Proof.
  intros Ha. unfold splice, slice.
  assert (Hpre : length (firstn (Z.to_nat a) S ++ repeat 0 (Z.to_nat (a - len S))) = Z.to_nat a).
  { rewrite app_length, firstn_length, repeat_length. unfold len. lia. }
  rewrite app_assoc. rewrite skipn_app. rewrite Hpre, Nat.sub_diag. rewrite skipn_all2 by lia. cbn [app skipn].
  rewrite firstn_app. unfold len. rewrite Nat2Z.id, Nat.sub_diag, firstn_all. cbn. apply app_nil_r.
Qed.

Section Writes.
  Variable BUF : Z.
  Variable dec : list Z -> Z -> Z * bool.
  Hypothesis Hdec : forall S, dec_ok BUF dec S.

  Lemma get_rd_put d r rd' j :
    get_rd {| d_cfg := d_cfg d; d_raws := upd (d_raws d) r rd'; d_fields := d_fields d |} j =
    if Nat.eqb r j && Nat.ltb r (length (d_raws d)) then rd' else get_rd d j.
  Proof.
    unfold get_rd. cbn [d_raws]. destruct (Nat.eqb r j) eqn:E.
    - apply Nat.eqb_eq in E. subst j. destruct (Nat.ltb r (length (d_raws d))) eqn:El; cbn [andb].
      + apply Nat.ltb_lt in El. apply nth_upd_same. exact El.
      + apply Nat.ltb_ge in El.
        assert (Hu : upd (d_raws d) r rd' = d_raws d).
        { clear - El. revert r El. induction (d_raws d); intros [|r] H; cbn in *; try lia; auto. f_equal. apply IHl. lia. }
        rewrite Hu. reflexivity.
    - apply Nat.eqb_neq in E. cbn [andb]. apply nth_upd_other. exact E.
  Qed.

  Lemma put_raw_keeps d s r k bs d' s' :
    wf_db d -> InvH d s -> put_raw d s r k bs = Some (d', s') -> wf_db d' /\ InvH d' s'.
  Proof.
    intros Hwf [H0 [Hlen HC]] Hput. unfold put_raw in Hput.
    destruct ((k <? rd_foff (get_rd d r)) || negb (len bs mod rd_size (get_rd d r) =? 0)
              || negb (is_raw_enc (rd_enc (get_rd d r))) || negb (Nat.ltb r (length (d_raws d)))) eqn:Eg; [discriminate|].
    apply orb_false_iff in Eg. destruct Eg as [Eg Er]. apply orb_false_iff in Eg. destruct Eg as [Eg Ee].
    apply orb_false_iff in Eg. destruct Eg as [Ek Em].
    apply Z.ltb_ge in Ek. apply negb_false_iff in Er. apply Nat.ltb_lt in Er.
    apply negb_false_iff in Ee. apply negb_false_iff in Em. apply Z.eqb_eq in Em.
    inversion Hput; subst d' s'; clear Hput.
    set (rd := get_rd d r) in *.
    set (rd' := set_bytes rd (splice (rd_bytes rd) ((k - rd_foff rd) * rd_size rd) bs)).
    destruct Hwf as (Hrep & Hrd & Hfd & Hnf).
    pose proof (Hrd r Er) as Hwr. fold rd in Hwr.
    assert (Hrd' : forall j, (j < length (d_raws d))%nat ->
              wf_rd (get_rd {| d_cfg := d_cfg d; d_raws := upd (d_raws d) r rd'; d_fields := d_fields d |} j)).
    { intros j Hj. rewrite get_rd_put. destruct (Nat.eqb r j && Nat.ltb r (length (d_raws d))); [exact Hwr|apply Hrd; exact Hj]. }
    assert (Hwf' : wf_db {| d_cfg := d_cfg d; d_raws := upd (d_raws d) r rd'; d_fields := d_fields d |}).
    { split; [exact Hrep|]. split; [cbn [d_raws]; rewrite upd_length; exact Hrd'|].
      split; [|exact Hnf]. intros f fd Hf. specialize (Hfd f fd Hf).
      destruct fd; cbn in *; try rewrite upd_length; exact Hfd. }
    split; [exact Hwf'|]. split; [exact H0|].
    set (p' := k - rd_foff rd + len bs / rd_size rd).
    split; [cbn; rewrite !upd_length; exact Hlen|].
    intros j Hj Ho. cbn [d_raws] in Hj. rewrite upd_length in Hj. rewrite get_rd_put.
    destruct (Nat.eq_dec r j) as [<-|Hne].
    - rewrite Nat.eqb_refl. replace (Nat.ltb r (length (d_raws d))) with true by (symmetry; apply Nat.ltb_lt; exact Er).
      cbn [andb]. rewrite (get_set_same s r _ ltac:(lia)).
      apply (At_Coh {| d_cfg := d_cfg d; d_raws := upd (d_raws d) r rd'; d_fields := d_fields d |} rd' _ p').
      assert (Hs : 0 < rd_size rd) by apply Hwr. assert (Hfo : 0 <= rd_foff rd) by apply Hwr.
      assert (0 <= len bs / rd_size rd) by (apply Z.div_pos; [apply len_nonneg|lia]).
      unfold At. cbn. destruct (rd_enc rd); try discriminate. cbn.
      repeat split; try lia. left. reflexivity.
    - replace (Nat.eqb r j) with false by (symmetry; apply Nat.eqb_neq; exact Hne). cbn [andb].
      rewrite (get_set_other s r j _ Hne) in Ho |- *. apply HC; assumption.
  Qed.

  Definition Good (ds : db * state) : Prop := wf_db (fst ds) /\ InvH (fst ds) (snd ds).

  Lemma ev_step_good ds e : Good ds -> Good (ev_step dec ds e).
  Proof.
    intros [Hwf HI]. destruct ds as [d s]. cbn [fst snd] in *. destruct e as [c|r k bs]; cbn [ev_step fst snd].
    - split; [exact Hwf|]. apply (step_inv BUF dec Hdec d Hwf). exact HI.
    - destruct (put_raw d s r k bs) as [[d' s']|] eqn:E; [|split; assumption].
      apply (put_raw_keeps d s r k bs d' s' Hwf HI E).
  Qed.

  Lemma ev_run_good h : forall ds, Good ds -> Good (ev_run dec ds h).
  Proof. induction h as [|e h IH]; intros ds Hg; cbn; [exact Hg|]. apply IH. apply ev_step_good. exact Hg. Qed.

  (* after any history of calls and writes, a read returns the window of the CURRENT contents *)
  Theorem reads_reflect_writes_l d0 h f fd k n :
    wf_db d0 ->
    let ds := ev_run dec (d0, init d0) h in
    nth_error (d_fields (fst ds)) f = Some fd -> 0 <= k <= 2 ^ 61 -> 0 <= n <= 2 ^ 61 ->
    snd (step dec (fst ds) (snd ds) (CGet f (Some k) n)) = RData (spec_window (fst ds) f k n).
  Proof.
    intros Hwf ds Ef Hk Hn.
    assert (Hg : Good ds) by (apply ev_run_good; split; [exact Hwf|apply init_inv]).
    destruct Hg as [Hwf' HI]. apply (get_spec BUF dec Hdec (fst ds) Hwf' (snd ds) f fd k n HI Ef Hk Hn).
  Qed.

  (* the I/O pointer after a write is the sample after the last one written (C17), and a failing
     write (before the frame offset) changes nothing *)
  Lemma put_pointer d s r k bs d' s' f :
    wf_db d -> InvH d s -> put_raw d s r k bs = Some (d', s') -> nth_error (d_fields d) f = Some (FRaw r) ->
    snd (step dec d' s' (CTell f)) = RPos (k + len bs / rd_size (get_rd d r)).
  Proof.
    intros Hwf HI Hput Ef.
    destruct (put_raw_keeps d s r k bs d' s' Hwf HI Hput) as [Hwf' HI'].
    unfold put_raw in Hput.
    destruct ((k <? rd_foff (get_rd d r)) || negb (len bs mod rd_size (get_rd d r) =? 0)
              || negb (is_raw_enc (rd_enc (get_rd d r))) || negb (Nat.ltb r (length (d_raws d)))) eqn:Eg; [discriminate|].
    apply orb_false_iff in Eg. destruct Eg as [_ Er]. apply negb_false_iff in Er. apply Nat.ltb_lt in Er.
    inversion Hput; subst d' s'; clear Hput.
    assert (Hlen : (r < length (s_raws s))%nat) by (destruct HI as [_ [Hl _]]; lia).
    match goal with |- snd (step dec ?D ?S _) = _ => set (d1 := D) in *; set (s1 := S) in * end.
    assert (Ef' : nth_error (d_fields d1) f = Some (FRaw r)) by exact Ef.
    assert (Hg : get_rs s1 r = set_off st_opened (k - rd_foff (get_rd d r) + len bs / rd_size (get_rd d r))
                               ((k - rd_foff (get_rd d r) + len bs / rd_size (get_rd d r)) * rd_size (get_rd d r))).
    { unfold s1. apply (get_set_same s r _ Hlen). }
    rewrite (tell_raw dec d1 f r Ef' s1 HI') by (rewrite Hg; reflexivity).
    cbn [snd]. rewrite Hg. cbn. f_equal.
    rewrite nth_upd_same by exact Er. cbn. lia.
  Qed.
End Writes.
