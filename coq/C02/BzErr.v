(* C02: the bzip2 window when the decoder may FAIL (corrupted CRC, truncated or bit-flipped stream).
   The decoder may answer `error` at any call (dec_sound).  With the error exits emptying the window at
   the decoder's position (flag fix_bz_err; commit 3ea47ff: base += end; pos = end = 0; file->pos =
   base / size) every seek and read -- whatever its outcome -- leaves file->pos = cursor / size over a
   window of stream bytes (CohB), a successful one satisfies the same contract as with a faultless
   decoder, and a failed one leaves an empty window.  The buffer size is a multiple of the sample size
   (1000000 and the H1 value 64 are, for every GetData type).
   For the code before 3ea47ff the statement is refuted (witnesses at the end). *)
From Coq Require Import ZArith List Bool Lia.
From GD Require Import C02.Model C02.Slices C02.CodecProofs C02.BzRead C02.HistoryProofs.
Import ListNotations.
Local Open Scope Z_scope.

Section BzErr.
  Variable BUF : Z.
  Variable dec : list Z -> Z -> Z * bool.

  (* BZ2_bzRead over a possibly damaged stream whose decodable prefix agrees with S: any call may
     fail (negative count); a call that succeeds behaves as over an intact stream *)
  Definition dec_sound (S : list Z) : Prop :=
    0 < BUF /\
    forall consumed, 0 <= consumed <= len S ->
      fst (dec S consumed) < 0 \/
      (0 <= fst (dec S consumed) <= BUF /\ consumed + fst (dec S consumed) <= len S /\
       (snd (dec S consumed) = true -> consumed + fst (dec S consumed) = len S) /\
       (snd (dec S consumed) = false -> fst (dec S consumed) = BUF)).

  Lemma dec_ok_sound S : dec_ok BUF dec S -> dec_sound S.
  Proof. intros [HB H]. split; [exact HB|]. intros c Hc. right. apply H. exact Hc. Qed.

  Lemma load_ok rd st pos :
    dec_sound (rd_bytes rd) -> bz_win rd st -> b_send st = false ->
    dec_err (dec (rd_bytes rd) (b_base st + b_end st)) = false ->
    let st' := fst (bz_load dec (rd_bytes rd) st pos) in
    bz_win rd st' /\ b_pos st' = pos /\ b_base st' = b_base st + b_end st /\
    r_fpos st' = r_fpos st /\ r_open st' = r_open st /\
    b_send st' = snd (bz_load dec (rd_bytes rd) st pos) /\
    (b_send st' = false -> b_end st' = BUF).
  Proof.
    intros [HB Hd] (H0 & H1 & H2 & H3 & H4) Hs Hne.
    specialize (Hd (b_base st + b_end st) ltac:(lia)).
    unfold dec_err in Hne. apply Z.ltb_ge in Hne.
    destruct Hd as [Hd|Hd]; [lia|].
    unfold bz_load. destruct (dec (rd_bytes rd) (b_base st + b_end st)) as [n fin] eqn:E.
    cbn in Hd, Hne. destruct Hd as (Ha & Hb & Hc & He).
    cbn. rewrite Hs, orb_false_r. unfold bz_win. cbn. repeat split; try lia; try assumption.
  Qed.

  Variable c : cfg.
  Hypothesis Hfix : fix_bz_err c = true.

  Lemma fail_state size S st :
    bz_fail dec c size S st =
    set_fpos (set_win st (b_base st + b_end st) 0 0 (b_send st) []) ((b_base st + b_end st) / size).
  Proof. unfold bz_fail. rewrite Hfix. reflexivity. Qed.

  (* window bases are multiples of the buffer size: every window but the last is full *)
  Definition Ibase (st : rawst) : Prop :=
    (BUF | b_base st) /\ (b_send st = false -> b_end st = BUF \/ b_end st = 0).

  (* what a failed call leaves: an empty window of stream bytes at the decoder's position, file->pos on it *)
  Definition Failed (rd : rawdef) (st0 st' : rawst) : Prop :=
    bz_win rd st' /\ b_pos st' = 0 /\ b_end st' = 0 /\ r_fpos st' = b_base st' / rd_size rd /\
    r_open st' = r_open st0 /\ Ibase st'.

  Lemma Failed_At rd st0 st' :
    wf_rd rd -> rd_enc rd = EBz -> (rd_size rd | BUF) -> r_open st0 = true -> Failed rd st0 st' ->
    At rd st' (r_fpos st').
  Proof.
    intros Hwf He Hdiv Ho (Hw & Hp & Hen & Hf & Ho' & [Hb _]).
    assert (Hs : 0 < rd_size rd) by apply Hwf.
    assert (Hd : (rd_size rd | b_base st')) by (eapply Z.divide_trans; eassumption).
    destruct Hd as [k Hk].
    assert (Hfk : r_fpos st' = k) by (rewrite Hf, Hk; apply Z.div_mul; lia).
    destruct Hw as (H0 & H1 & H2 & H3 & H4).
    unfold At. rewrite He. split; [congruence|]. split; [reflexivity|]. split; [nia|].
    split; [unfold bz_win; tauto|]. split; [lia|]. left. rewrite Hp, Hfk, Hk. ring.
  Qed.

  Lemma fail_Failed rd st st0 :
    bz_win rd st -> b_send st = false -> Ibase st -> r_open st = r_open st0 ->
    Failed rd st0 (bz_fail dec c (rd_size rd) (rd_bytes rd) st).
  Proof.
    intros (H0 & H1 & H2 & H3 & H4) Hs [Hb He] Ho. rewrite fail_state. unfold Failed, bz_win, Ibase. cbn.
    split; [repeat split; try lia; try reflexivity; intros Hx; congruence|].
    do 3 (split; [reflexivity|]). split; [exact Ho|]. split; [|intros _; right; reflexivity].
    destruct (He Hs) as [->| ->]; [apply Z.divide_add_r; [exact Hb|apply Z.divide_refl]|rewrite Z.add_0_r; exact Hb].
  Qed.

  Lemma load_Ibase rd st pos :
    dec_sound (rd_bytes rd) -> bz_win rd st -> b_send st = false ->
    dec_err (dec (rd_bytes rd) (b_base st + b_end st)) = false -> Ibase st ->
    Ibase (fst (bz_load dec (rd_bytes rd) st pos)).
  Proof.
    intros Hdec Hw Hs Ee [Hb He].
    pose proof (load_ok rd st pos Hdec Hw Hs Ee) as (_ & _ & Hb' & _ & _ & _ & Hfull).
    split.
    - rewrite Hb'. destruct (He Hs) as [->| ->]; [apply Z.divide_add_r; [exact Hb|apply Z.divide_refl]|rewrite Z.add_0_r; exact Hb].
    - intros Hs'. left. apply Hfull. exact Hs'.
  Qed.

  Lemma failed_pos rd st0 st' : Failed rd st0 st' ->
    r_fpos st' = (b_base st' + b_pos st') / rd_size rd /\ bz_win rd st' /\ b_end st' = 0.
  Proof. intros (Hw & Hp & He & Hf & _). rewrite Hp, Z.add_0_r. auto. Qed.

  (* ---- seek *)
  Lemma seek_loop_any rd st0 :
    dec_sound (rd_bytes rd) ->
    forall fuel st off,
      bz_win rd st -> Ibase st -> r_open st = r_open st0 ->
      (b_send st = true \/ len (rd_bytes rd) - (b_base st + b_end st) < Z.of_nat fuel) ->
      exists st' e, bz_seek_loop dec c (rd_size rd) fuel (rd_bytes rd) st off = Some (st', e) /\
        (e = true -> Failed rd st0 st') /\
        (e = false ->
           bz_win rd st' /\ Ibase st' /\ b_pos st' = b_pos st /\ r_fpos st' = r_fpos st /\ r_open st' = r_open st /\
           (off <= b_base st' + b_end st' \/ b_send st' = true) /\
           (st' = st \/ b_base st' < off)).
  Proof.
    intros Hdec. induction fuel as [|fuel IH]; intros st off Hw Hi Ho Hf.
    - cbn. destruct (b_base st + b_end st <? off) eqn:E.
      + destruct Hf as [Hs|Hf]; [|destruct Hw as (_ & _ & Hw & _); lia].
        rewrite Hs. exists st, false. split; [reflexivity|]. split; [discriminate|]. intros _.
        split; [exact Hw|]. split; [exact Hi|]. do 3 (split; [reflexivity|]). split; [right; exact Hs|left; reflexivity].
      + apply Z.ltb_ge in E. exists st, false. split; [reflexivity|]. split; [discriminate|]. intros _.
        split; [exact Hw|]. split; [exact Hi|]. do 3 (split; [reflexivity|]). split; [left; lia|left; reflexivity].
    - cbn. destruct (b_base st + b_end st <? off) eqn:E.
      + destruct (b_send st) eqn:Hs.
        * exists st, false. split; [reflexivity|]. split; [discriminate|]. intros _.
          split; [exact Hw|]. split; [exact Hi|]. do 3 (split; [reflexivity|]). split; [right; exact Hs|left; reflexivity].
        * apply Z.ltb_lt in E.
          destruct (dec_err (dec (rd_bytes rd) (b_base st + b_end st))) eqn:Ee.
          -- exists (bz_fail dec c (rd_size rd) (rd_bytes rd) st), true. split; [reflexivity|].
             split; [intros _; apply fail_Failed; assumption|discriminate].
          -- pose proof (load_ok rd st (b_pos st) Hdec Hw Hs Ee) as (Hw' & Hp' & Hb' & Hfp' & Ho' & Hse' & Hfull).
             pose proof (load_Ibase rd st (b_pos st) Hdec Hw Hs Ee Hi) as Hi'.
             set (st1 := fst (bz_load dec (rd_bytes rd) st (b_pos st))) in *.
             destruct (IH st1 off Hw' Hi' ltac:(congruence)) as (st2 & e & Hl & He1 & He2).
             { destruct (b_send st1) eqn:Hs1; [left; reflexivity|right].
               specialize (Hfull eq_refl). destruct Hdec as [HB _].
               destruct Hf as [Hf|Hf]; [congruence|]. rewrite Hb'. lia. }
             exists st2, e. split; [exact Hl|]. split; [exact He1|]. intros He. specialize (He2 He).
             destruct He2 as (Hw2 & Hi2 & Hp2 & Hf2 & Ho2 & Hex & Hmono).
             split; [exact Hw2|]. split; [exact Hi2|]. split; [congruence|]. split; [congruence|]. split; [congruence|].
             split; [exact Hex|]. right. destruct Hmono as [->|Hlt]; [rewrite Hb'; lia|exact Hlt].
      + apply Z.ltb_ge in E. exists st, false. split; [reflexivity|]. split; [discriminate|]. intros _.
        split; [exact Hw|]. split; [exact Hi|]. do 3 (split; [reflexivity|]). split; [left; lia|left; reflexivity].
  Qed.

  (* the invariant of an open bzip2 cursor between calls *)
  Definition CohB (rd : rawdef) (st : rawst) : Prop := Coh c rd st /\ Ibase st.

  Lemma opened_CohB rd : wf_rd rd -> CohB rd st_opened.
  Proof. intros Hwf. split; [apply opened_coh; exact Hwf|]. split; [apply Z.divide_0_r|intros _; right; reflexivity]. Qed.

  (* a seek over a possibly failing decoder: file->pos tracks the cursor whatever happened *)
  Theorem bz_seek_any rd st count :
    wf_rd rd -> rd_enc rd = EBz -> dec_sound (rd_bytes rd) -> fix_bz_rewind c = true -> (rd_size rd | BUF) ->
    CohB rd st -> 0 <= count ->
    exists st' p, bz_seek dec c (rd_bytes rd) (rd_size rd) st count = Some (st', p) /\
      CohB rd st' /\
      (0 <= p -> At rd st' p /\ p = Z.min count (nsamp rd)) /\
      (p < 0 -> Failed rd st st').
  Proof.
    intros Hwf He Hdec Hrew Hdiv [[Ho Hc] Hi] Hcnt. rewrite He in Hc.
    pose proof (nsamp_bounds rd Hwf) as (Hns0 & Hns1 & Hns2).
    assert (Hs : 0 < rd_size rd) by apply Hwf.
    unfold bz_seek. destruct (r_fpos st =? count) eqn:E.
    - apply Z.eqb_eq in E. exists st, count. split; [reflexivity|].
      destruct Hc as [[Hneg _]|Hat]; [lia|]. rewrite E in Hat.
      split; [split; [split; [exact Ho|rewrite He; right; rewrite E; exact Hat]|exact Hi]|]. split; [|lia]. intros _. split; [exact Hat|].
      destruct Hat as (_ & _ & _ & Hm). rewrite He in Hm. destruct Hm as ((_ & _ & Hle & _) & Hpos & Hco).
      pose proof (coh_le_len rd count _ Hwf Hco ltac:(lia) Hcnt). lia.
    - apply Z.eqb_neq in E.
      assert (Hwin : bz_win rd st /\ 0 <= b_pos st <= b_end st).
      { destruct Hc as [(_ & Hw & Hp)|(_ & _ & _ & Hm)]; [tauto|]. rewrite He in Hm. tauto. }
      destruct Hwin as [Hw Hpos].
      set (off := count * rd_size rd). rewrite Hrew. cbn [andb].
      set (st0 := if off <? b_base st then set_win st 0 0 0 false [] else st).
      assert (Hw0 : bz_win rd st0 /\ b_base st0 <= off /\ r_open st0 = r_open st /\ Ibase st0).
      { unfold st0. destruct (off <? b_base st) eqn:Ef.
        - unfold bz_win, Ibase. cbn. pose proof (len_nonneg (rd_bytes rd)).
          split; [repeat split; try lia; try assumption; discriminate|]. split; [unfold off; nia|]. split; [reflexivity|].
          split; [apply Z.divide_0_r|intros _; right; reflexivity].
        - apply Z.ltb_ge in Ef. split; [exact Hw|]. split; [exact Ef|]. split; [reflexivity|exact Hi]. }
      destruct Hw0 as (Hw0 & Hb0 & Ho0 & Hi0).
      destruct (seek_loop_any rd st Hdec (bz_fuel (rd_bytes rd)) st0 off Hw0 Hi0 Ho0) as (st1 & e & Hl & He1 & He2).
      { right. destruct Hw0 as (? & ? & ? & _). unfold bz_fuel, len. lia. }
      fold off st0. rewrite Hl. destruct e.
      + specialize (He1 eq_refl). exists st1, (-1). split; [reflexivity|].
        split; [|split; [lia|intros _; exact He1]].
        pose proof (Failed_At rd st st1 Hwf He Hdiv Ho He1) as Hat.
        destruct He1 as (_ & _ & _ & _ & Ho1 & Hi1).
        split; [split; [congruence|rewrite He; right; exact Hat]|exact Hi1].
      + destruct (He2 eq_refl) as (Hw1 & Hi1 & _ & _ & Ho1 & Hex & Hmono).
        assert (Hb1 : b_base st1 <= off) by (destruct Hmono as [->|?]; lia).
        destruct Hw1 as (H0 & H1 & H2 & H3 & H4).
        assert (Hgoal : exists p, (if b_send st1 && (b_base st1 + b_end st1 <=? off) then b_end st1 else off - b_base st1) = p /\
                   0 <= p <= b_end st1 /\ (b_base st1 + p) / rd_size rd = Z.min count (nsamp rd) /\
                   coh rd (Z.min count (nsamp rd)) (b_base st1 + p)).
        { destruct (b_send st1 && (b_base st1 + b_end st1 <=? off)) eqn:Ecl.
          - apply andb_true_iff in Ecl. destruct Ecl as [Hse Hle]. apply Z.leb_le in Hle. specialize (H4 Hse).
            exists (b_end st1). split; [reflexivity|]. split; [lia|].
            assert (Hn : nsamp rd <= count) by (unfold off in Hle; apply Z.lt_succ_r; nia).
            rewrite Z.min_r by exact Hn. split; [rewrite H4; reflexivity|].
            right. split; [reflexivity|lia].
          - exists (off - b_base st1). split; [reflexivity|].
            assert (Hin : off <= b_base st1 + b_end st1).
            { apply andb_false_iff in Ecl. destruct Hex as [?|Hse]; [assumption|].
              rewrite Hse in Ecl. destruct Ecl as [?|Ecl]; [discriminate|]. apply Z.leb_gt in Ecl. lia. }
            split; [lia|].
            assert (Hn : count <= nsamp rd).
            { unfold nsamp. apply Z.div_le_lower_bound; [lia|]. unfold off in Hin. lia. }
            rewrite Z.min_l by exact Hn.
            replace (b_base st1 + (off - b_base st1)) with off by ring.
            split; [unfold off; apply Z.div_mul; lia|left; reflexivity]. }
        destruct Hgoal as (p & Hp & Hpr & Hfp & Hco). rewrite Hp.
        do 2 eexists. split; [reflexivity|]. cbn. rewrite Hfp.
        assert (Hat : At rd (set_fpos (set_bpos st1 p) (Z.min count (nsamp rd))) (Z.min count (nsamp rd))).
        { unfold At. rewrite He. cbn. split; [congruence|]. split; [reflexivity|]. split; [lia|].
          split; [unfold bz_win; tauto|]. split; [lia|exact Hco]. }
        split.
        * split; [split; [cbn; congruence|rewrite He; right; exact Hat]|exact Hi1].
        * split; [intros _; split; [exact Hat|reflexivity]|lia].
  Qed.

  (* ---- read *)
  Lemma read_loop_any rd st0 :
    dec_sound (rd_bytes rd) ->
    forall fuel st nbytes out,
      bz_win rd st -> Ibase st -> r_open st = r_open st0 -> 0 <= b_pos st <= b_end st -> 0 <= nbytes ->
      len (rd_bytes rd) - (b_base st + b_end st) < Z.of_nat fuel ->
      exists st' nb' out' early,
        bz_read_loop dec c (rd_size rd) fuel (rd_bytes rd) st nbytes out = Some (st', nb', out', early) /\
        ((nb' = -1 /\ early = true /\ Failed rd st0 st') \/
         (bz_win rd st' /\ Ibase st' /\ 0 <= b_pos st' <= b_end st' /\
          r_fpos st' = r_fpos st /\ r_open st' = r_open st /\
          cur st <= cur st' /\
          out' = out ++ slice (rd_bytes rd) (cur st) (cur st' - cur st) /\
          nb' = nbytes - (cur st' - cur st) /\ 0 <= nb' /\
          (early = true -> cur st' = len (rd_bytes rd) /\ 0 < nb') /\
          (early = false -> nb' <= b_end st' - b_pos st' \/
                            (b_pos st' = 0 /\ b_base st' + b_end st' = len (rd_bytes rd))))).
  Proof.
    intros Hdec. induction fuel as [|fuel IH]; intros st nbytes out Hw Hi Ho Hp Hn Hf.
    { destruct Hw as (_ & _ & Hw & _). lia. }
    cbn [bz_read_loop].
    destruct (nbytes >? b_end st - b_pos st) eqn:E.
    2:{ rewrite Z.gtb_ltb in E. apply Z.ltb_ge in E.
        exists st, nbytes, out, false. split; [reflexivity|]. right.
        split; [exact Hw|]. split; [exact Hi|]. split; [exact Hp|]. do 2 (split; [reflexivity|]). split; [lia|].
        split; [rewrite Z.sub_diag, slice_nil_n, app_nil_r; reflexivity|]. split; [lia|]. split; [lia|].
        split; [discriminate|]. intros _. left. lia. }
    rewrite Z.gtb_ltb in E. apply Z.ltb_lt in E.
    rewrite (take_ok rd st (b_pos st) (b_end st - b_pos st) Hw) by lia.
    set (d := slice (rd_bytes rd) (b_base st + b_pos st) (b_end st - b_pos st)).
    set (st1 := set_bpos st (b_end st)).
    assert (Hw1 : bz_win rd st1) by exact Hw.
    assert (Hi1 : Ibase st1) by exact Hi.
    change (b_send st1) with (b_send st).
    destruct (b_send st) eqn:Hs.
    - exists st1, (nbytes - (b_end st - b_pos st)), (out ++ d), true. split; [reflexivity|]. right.
      destruct Hw as (H0 & H1 & H2 & H3 & H4). specialize (H4 Hs).
      unfold cur. cbn. split; [exact Hw1|]. split; [exact Hi1|]. split; [lia|]. do 2 (split; [reflexivity|]). split; [lia|].
      split; [unfold d; do 2 f_equal; lia|]. split; [lia|]. split; [lia|]. split; [intros _; lia|discriminate].
    - change (b_base st1) with (b_base st). change (b_end st1) with (b_end st).
      destruct (dec_err (dec (rd_bytes rd) (b_base st + b_end st))) eqn:Ee.
      { exists (bz_fail dec c (rd_size rd) (rd_bytes rd) st1), (-1), (out ++ d), true. split; [reflexivity|]. left.
        split; [reflexivity|]. split; [reflexivity|]. apply fail_Failed; [exact Hw1|exact Hs|exact Hi1|exact Ho]. }
      pose proof (load_ok rd st1 0 Hdec Hw1 Hs Ee) as (Hw2 & Hp2 & Hb2 & Hfp2 & Ho2 & Hse2 & Hfull).
      pose proof (load_Ibase rd st1 0 Hdec Hw1 Hs Ee Hi1) as Hi2.
      destruct (bz_load dec (rd_bytes rd) st1 0) as [st2 fin] eqn:El. cbn [fst snd] in *.
      change (b_base st1) with (b_base st) in Hb2. change (b_end st1) with (b_end st) in Hb2.
      destruct fin.
      + exists st2, (nbytes - (b_end st - b_pos st)), (out ++ d), false. split; [reflexivity|]. right.
        destruct Hw2 as (G0 & G1 & G2 & G3 & G4). specialize (G4 Hse2).
        unfold cur. rewrite Hp2, Hb2.
        split; [unfold bz_win; tauto|]. split; [exact Hi2|]. split; [lia|]. split; [exact Hfp2|]. split; [exact Ho2|].
        split; [lia|]. split; [unfold d; do 2 f_equal; lia|]. split; [lia|]. split; [lia|].
        split; [discriminate|]. intros _. right. split; [reflexivity|]. rewrite <- Hb2. exact G4.
      + specialize (Hfull Hse2). destruct Hdec as [HB Hd0].
        destruct (IH st2 (nbytes - (b_end st - b_pos st)) (out ++ d) Hw2 Hi2 ltac:(rewrite Ho2; exact Ho) ltac:(lia) ltac:(lia))
          as (st' & nb' & out' & early & Hl & Hres).
        { rewrite Hb2, Hfull. lia. }
        exists st', nb', out', early. split; [exact Hl|].
        destruct Hres as [Herr|(Hw' & Hi' & Hp' & Hfp' & Ho' & Hc' & Hout & Hnb & Hnb0 & He1 & He2)]; [left; exact Herr|right].
        assert (Hc2 : cur st2 = b_base st + b_end st) by (unfold cur; lia).
        split; [exact Hw'|]. split; [exact Hi'|]. split; [exact Hp'|]. split; [rewrite Hfp', Hfp2; reflexivity|]. split; [rewrite Ho', Ho2; reflexivity|].
        split; [unfold cur in *; lia|]. split.
        * rewrite Hout, <- app_assoc. f_equal. unfold d. rewrite Hc2.
          destruct Hw as (H0 & _). unfold cur in *. apply slice_app'; lia.
        * split; [unfold cur in *; lia|]. split; [exact Hnb0|]. split; assumption.
  Qed.

  (* a read over a possibly failing decoder *)
  Theorem bz_read_any rd st p n :
    wf_rd rd -> rd_enc rd = EBz -> dec_sound (rd_bytes rd) -> fix_bz_eof c = true -> (rd_size rd | BUF) ->
    At rd st p -> Ibase st -> 0 <= n ->
    exists st' bs cnt, bz_read dec c (rd_bytes rd) (rd_size rd) st n = Some (st', bs, cnt) /\
      CohB rd st' /\
      (cnt < 0 -> Failed rd st st') /\
      (0 <= cnt ->
         cnt = read_count rd p n /\ cnt * rd_size rd <= len bs /\
         firstn (Z.to_nat (cnt * rd_size rd)) bs = slice (rd_bytes rd) (p * rd_size rd) (cnt * rd_size rd) /\
         At rd st' (p + cnt)).
  Proof.
    intros Hwf He Hdec Hfe Hdiv Hat Hi Hn.
    assert (Hm : bz_win rd st /\ 0 <= b_pos st <= b_end st).
    { destruct Hat as (_ & _ & _ & Hm). rewrite He in Hm. tauto. }
    destruct Hm as [Hw Hp].
    assert (Hopen : r_open st = true) by apply Hat.
    assert (Hs : 0 < rd_size rd) by apply Hwf.
    assert (Hcl : 0 <= cur st <= len (rd_bytes rd)).
    { destruct Hw as (H0 & H1 & H2 & _). unfold cur. lia. }
    unfold bz_read.
    destruct (read_loop_any rd st Hdec (bz_fuel (rd_bytes rd)) st (n * rd_size rd) [] Hw Hi eq_refl Hp ltac:(nia))
      as (st' & nb' & out' & early & Hl & Hres).
    { destruct Hw as (H0 & H1 & _). unfold bz_fuel, len. lia. }
    rewrite Hl.
    destruct Hres as [(Hnb & Hea & Hst)|(Hw' & Hi' & Hp' & Hfp' & Ho' & Hc' & Hout & Hnb & Hnb0 & He1 & He2)].
    { subst nb' early. cbn. exists st', [], (-1). split; [reflexivity|].
      pose proof (Failed_At rd st st' Hwf He Hdiv Hopen Hst) as Hat'.
      split; [|split; [intros _; exact Hst|lia]].
      destruct Hst as (_ & _ & _ & _ & Ho1 & Hi1).
      split; [split; [congruence|rewrite He; right; exact Hat']|exact Hi1]. }
    cbn [app] in Hout. unfold bz_count. rewrite Hfe.
    assert (Hcl' : cur st' <= len (rd_bytes rd)).
    { destruct Hw' as (H0 & H1 & H2 & _). unfold cur. lia. }
    assert (Hfin : exists st'' out,
      (match (if early then (if nb' <? 0 then Some (st', [], -1) else
                Some (set_fpos st' ((b_base st' + b_pos st') / rd_size rd), out', (n * rd_size rd - nb') / rd_size rd))
              else
                if nb' >? b_end st' - b_pos st'
                then match take_data st' (b_pos st') (b_end st' - b_pos st') with
                     | Some d0 => Some (set_fpos (set_bpos st' (b_end st')) ((b_base (set_bpos st' (b_end st')) + b_pos (set_bpos st' (b_end st'))) / rd_size rd),
                                        out' ++ d0, (n * rd_size rd - (nb' - b_end st')) / rd_size rd)
                     | None => None end
                else match take_data st' (b_pos st') nb' with
                     | Some d0 => Some (set_fpos (set_bpos st' (b_pos st' + nb')) ((b_base (set_bpos st' (b_pos st' + nb')) + b_pos (set_bpos st' (b_pos st' + nb'))) / rd_size rd),
                                        out' ++ d0, (n * rd_size rd - 0) / rd_size rd)
                     | None => None end) with
       | Some r => r = (st'', out, delivered rd (cur st) n / rd_size rd)
       | None => False end) /\
      bz_win rd st'' /\ Ibase st'' /\ 0 <= b_pos st'' <= b_end st'' /\ r_open st'' = r_open st /\
      cur st'' = cur st + delivered rd (cur st) n /\
      out = slice (rd_bytes rd) (cur st) (delivered rd (cur st) n) /\
      r_fpos st'' = (cur st + delivered rd (cur st) n) / rd_size rd /\ 0 <= delivered rd (cur st) n).
    { destruct early.
      - destruct (He1 eq_refl) as [Hce Hpos].
        replace (nb' <? 0) with false by (symmetry; apply Z.ltb_ge; lia).
        assert (Hd : delivered rd (cur st) n = len (rd_bytes rd) - cur st) by (unfold delivered; lia).
        do 2 eexists. split; [rewrite Hnb, Hce, Hd; do 2 f_equal; lia|].
        cbn. split; [exact Hw'|]. split; [exact Hi'|]. split; [exact Hp'|]. split; [exact Ho'|].
        rewrite Hd. unfold cur in *. cbn. split; [lia|]. split; [rewrite Hout, Hce; reflexivity|].
        split; [f_equal; lia|lia].
      - specialize (He2 eq_refl).
        destruct (nb' >? b_end st' - b_pos st') eqn:E.
        + rewrite Z.gtb_ltb in E. apply Z.ltb_lt in E.
          destruct He2 as [He2|[Hp0 Hend]]; [lia|].
          rewrite (take_ok rd st' (b_pos st') (b_end st' - b_pos st') Hw') by lia.
          assert (Hd : delivered rd (cur st) n = len (rd_bytes rd) - cur st) by (unfold delivered; unfold cur in *; lia).
          do 2 eexists. split; [rewrite Hd; do 2 f_equal; unfold cur in *; lia|].
          cbn. split; [exact Hw'|]. split; [exact Hi'|]. split; [lia|]. split; [exact Ho'|].
          rewrite Hd. unfold cur in *. split; [cbn; lia|]. split.
          * rewrite Hout. destruct Hw as (H0 & _). apply slice_app'; lia.
          * split; [f_equal; lia|lia].
        + rewrite Z.gtb_ltb in E. apply Z.ltb_ge in E.
          rewrite (take_ok rd st' (b_pos st') nb' Hw') by lia.
          assert (Hd : delivered rd (cur st) n = n * rd_size rd).
          { unfold delivered. destruct Hw' as (H0 & H1 & H2 & _). unfold cur in *. lia. }
          do 2 eexists. split; [rewrite Hd; do 2 f_equal; lia|].
          cbn. split; [exact Hw'|]. split; [exact Hi'|]. split; [lia|]. split; [exact Ho'|].
          rewrite Hd. unfold cur in *. split; [cbn; lia|]. split.
          * rewrite Hout. destruct Hw as (H0 & _). apply slice_app'; lia.
          * split; [f_equal; lia|nia]. }
    destruct Hfin as (st'' & out & Hr & Hw'' & Hi'' & Hp'' & Ho'' & Hc'' & Hout'' & Hfp'' & Hd0).
    destruct (bz_tuple_At rd st p n st'' out Hwf He Hat Hn Hw'' Hp'' Ho'' Hc'' Hout'' Hfp'' Hd0) as (Hcnt & Hlen & Hpre & Hat').
    assert (Hc0 : 0 <= delivered rd (cur st) n / rd_size rd) by (apply Z.div_pos; lia).
    match type of Hr with match ?X with _ => _ end => destruct X as [r|] eqn:EX; [|contradiction] end.
    exists st'', out, (delivered rd (cur st) n / rd_size rd).
    split.
    { rewrite Hr. reflexivity. }
    split.
    { assert (Hf : r_fpos st'' = p + delivered rd (cur st) n / rd_size rd) by apply Hat'.
      split; [split; [apply Hat'|rewrite He; right; rewrite Hf; exact Hat']|exact Hi'']. }
    split; [lia|]. intros _. split; [exact Hcnt|]. split; [exact Hlen|]. split; [exact Hpre|exact Hat'].
  Qed.
End BzErr.

(* ---------------------------------------------------------------- the code before 3ea47ff: refuted *)
(* 12 bytes, 4-byte window, stored CRC wrong (dec_bz2_crc): read [0,2) succeeds; a seek to sample 20
   fails in the forward loop after the window has moved; the read of [2,4) then takes the
   `file->pos == offset` shortcut and returns the bytes at base+pos of the moved window.
   A fresh handle returns 2 3. *)
Definition cfg_noerr : cfg :=
  {| fix_bz_rewind := true; fix_bz_eof := true; fix_here := true; fix_text_pseudo := true;
     fix_leak := true; fix_negseek := true; fix_phase_sign := false; fix_bz_err := false |}.
Definition cfg_err : cfg :=
  {| fix_bz_rewind := true; fix_bz_eof := true; fix_here := true; fix_text_pseudo := true;
     fix_leak := true; fix_negseek := true; fix_phase_sign := false; fix_bz_err := true |}.
Definition b12 : list Z := [0;1;2;3;4;5;6;7;8;9;10;11].
Definition db_crc (c : cfg) : db :=
  {| d_cfg := c; d_raws := [ {| rd_enc := EBz; rd_size := 1; rd_sgn := false; rd_bytes := b12; rd_foff := 0 |} ];
     d_fields := [FRaw 0] |}.
Definition ask_crc (c : cfg) (h : list call) (k n : Z) : result :=
  snd (step (dec_bz2_crc 4 true) (db_crc c) (run (dec_bz2_crc 4 true) (db_crc c) (init (db_crc c)) h) (CGet 0 (Some k) n)).

Lemma decoder_error_witness :
  ask_crc cfg_noerr [] 2 2 = RData [2; 3] /\
  ask_crc cfg_noerr [CGet 0 (Some 0) 2] 20 1 = RErr E_IO /\
  ask_crc cfg_noerr [CGet 0 (Some 0) 2; CGet 0 (Some 20) 1] 2 2 = RData [10; 11] /\
  ask_crc cfg_err [CGet 0 (Some 0) 2; CGet 0 (Some 20) 1] 2 2 = RData [2; 3] /\
  (* the read error path: a read running into the bad CRC, then a read inside the last window *)
  ask_crc cfg_noerr [CGet 0 (Some 5) 9] 5 2 <> ask_crc cfg_noerr [] 5 2 /\
  ask_crc cfg_err [CGet 0 (Some 5) 9] 5 2 = ask_crc cfg_err [] 5 2.
Proof. repeat split; try (vm_compute; reflexivity). vm_compute. discriminate. Qed.
