(* C02: the window of _GD_Bzip2Read (bzip.c:138-195, repaired EOF paths) delivers exactly the next
   min(n*size, remaining) bytes of the decoded stream, for every decoder satisfying dec_ok and every
   buffer size. *)
From Coq Require Import ZArith List Bool Lia.
From GD Require Import C02.Model C02.Slices C02.CodecProofs.
Import ListNotations.
Local Open Scope Z_scope.

Section BzRead.
  Variable BUF : Z.
  Variable dec : list Z -> Z -> Z * bool.

  Definition cur (st : rawst) : Z := b_base st + b_pos st.

  Lemma win_len rd st : bz_win rd st -> len (b_data st) = b_end st.
  Proof.
    intros (H0 & H1 & H2 & H3 & _). rewrite H3. rewrite slice_len by lia. lia.
  Qed.

  Lemma take_ok rd st p n :
    bz_win rd st -> 0 <= p -> 0 <= n -> p + n <= b_end st ->
    take_data st p n = Some (slice (rd_bytes rd) (b_base st + p) n).
  Proof.
    intros Hw Hp Hn Hle. unfold take_data. rewrite (win_len rd st Hw).
    replace ((0 <=? p) && (0 <=? n) && (p + n <=? b_end st)) with true.
    - destruct Hw as (H0 & H1 & H2 & H3 & _). rewrite H3. rewrite slice_slice by lia. reflexivity.
    - symmetry. rewrite !andb_true_iff. repeat split; apply Z.leb_le; lia.
  Qed.

  Lemma bz_read_loop_spec rd :
    dec_ok BUF dec (rd_bytes rd) ->
    forall c fuel st nbytes out,
      bz_win rd st -> 0 <= b_pos st <= b_end st -> 0 <= nbytes ->
      len (rd_bytes rd) - (b_base st + b_end st) < Z.of_nat fuel ->
      exists st' nb' out' early,
        bz_read_loop dec c (rd_size rd) fuel (rd_bytes rd) st nbytes out = Some (st', nb', out', early) /\
        bz_win rd st' /\ 0 <= b_pos st' <= b_end st' /\
        r_fpos st' = r_fpos st /\ r_open st' = r_open st /\
        cur st <= cur st' /\
        out' = out ++ slice (rd_bytes rd) (cur st) (cur st' - cur st) /\
        nb' = nbytes - (cur st' - cur st) /\ 0 <= nb' /\
        (early = true -> cur st' = len (rd_bytes rd) /\ 0 < nb') /\
        (early = false -> nb' <= b_end st' - b_pos st' \/
                          (b_pos st' = 0 /\ b_base st' + b_end st' = len (rd_bytes rd))).
  Proof.
    intros Hdec c. induction fuel as [|fuel IH]; intros st nbytes out Hw Hp Hn Hf.
    { destruct Hw as (_ & _ & Hw & _). lia. }
    cbn [bz_read_loop].
    destruct (nbytes >? b_end st - b_pos st) eqn:E.
    2:{ rewrite Z.gtb_ltb in E. apply Z.ltb_ge in E.
        exists st, nbytes, out, false. split; [reflexivity|].
        split; [exact Hw|]. split; [exact Hp|]. do 2 (split; [reflexivity|]). split; [lia|].
        split; [rewrite Z.sub_diag, slice_nil_n, app_nil_r; reflexivity|]. split; [lia|]. split; [lia|].
        split; [discriminate|]. intros _. left. lia. }
    rewrite Z.gtb_ltb in E. apply Z.ltb_lt in E.
    rewrite (take_ok rd st (b_pos st) (b_end st - b_pos st) Hw) by lia.
    set (d := slice (rd_bytes rd) (b_base st + b_pos st) (b_end st - b_pos st)).
    set (st1 := set_bpos st (b_end st)).
    assert (Hw1 : bz_win rd st1) by exact Hw.
    change (b_send st1) with (b_send st).
    destruct (b_send st) eqn:Hs.
    - (* returns early: the last window is exhausted *)
      exists st1, (nbytes - (b_end st - b_pos st)), (out ++ d), true. split; [reflexivity|].
      destruct Hw as (H0 & H1 & H2 & H3 & H4). specialize (H4 Hs).
      unfold cur. cbn. split; [exact Hw1|]. split; [lia|]. do 2 (split; [reflexivity|]). split; [lia|].
      split; [unfold d; do 2 f_equal; lia|]. split; [lia|]. split; [lia|]. split; [intros _; lia|discriminate].
    - change (b_base st1) with (b_base st). change (b_end st1) with (b_end st).
      rewrite (dec_ok_no_err BUF dec _ _ Hdec) by (destruct Hw as (? & ? & ? & _); lia).
      pose proof (bz_load_win BUF dec rd st1 0 Hdec Hw1 Hs) as (Hw2 & Hp2 & Hb2 & Hfp2 & Ho2 & _ & Hse2 & Hfull).
      destruct (bz_load dec (rd_bytes rd) st1 0) as [st2 fin] eqn:El. cbn [fst snd] in *.
      change (b_base st1) with (b_base st) in Hb2. change (b_end st1) with (b_end st) in Hb2.
      destruct fin.
      + (* the load reported the end of the stream: break *)
        exists st2, (nbytes - (b_end st - b_pos st)), (out ++ d), false. split; [reflexivity|].
        destruct Hw2 as (G0 & G1 & G2 & G3 & G4). specialize (G4 Hse2).
        unfold cur. rewrite Hp2, Hb2.
        split; [unfold bz_win; tauto|]. split; [lia|]. split; [exact Hfp2|]. split; [exact Ho2|].
        split; [lia|]. split; [unfold d; do 2 f_equal; lia|]. split; [lia|]. split; [lia|].
        split; [discriminate|]. intros _. right. split; [reflexivity|]. rewrite <- Hb2. exact G4.
      + specialize (Hfull Hse2). destruct Hdec as [HB Hd0].
        destruct (IH st2 (nbytes - (b_end st - b_pos st)) (out ++ d) Hw2 ltac:(lia) ltac:(lia))
          as (st' & nb' & out' & early & Hl & Hw' & Hp' & Hfp' & Ho' & Hc' & Hout & Hnb & Hnb0 & He1 & He2).
        { rewrite Hb2, Hfull. lia. }
        exists st', nb', out', early. split; [exact Hl|].
        assert (Hc2 : cur st2 = b_base st + b_end st) by (unfold cur; lia).
        split; [exact Hw'|]. split; [exact Hp'|]. split; [rewrite Hfp', Hfp2; reflexivity|]. split; [rewrite Ho', Ho2; reflexivity|].
        split; [unfold cur in *; lia|]. split.
        * rewrite Hout, <- app_assoc. f_equal. unfold d. rewrite Hc2.
          destruct Hw as (H0 & _). unfold cur in *. apply slice_app'; lia.
        * split; [unfold cur in *; lia|]. split; [exact Hnb0|]. split; assumption.
  Qed.

  (* number of bytes a read of n samples delivers from byte position c *)
  Definition delivered (rd : rawdef) (c n : Z) : Z := Z.min (n * rd_size rd) (len (rd_bytes rd) - c).

  Lemma bz_read_bytes c rd st n :
    wf_rd rd -> dec_ok BUF dec (rd_bytes rd) -> fix_bz_eof c = true ->
    bz_win rd st -> 0 <= b_pos st <= b_end st -> 0 <= n ->
    exists st' out,
      bz_read dec c (rd_bytes rd) (rd_size rd) st n = Some (st', out, delivered rd (cur st) n / rd_size rd) /\
      bz_win rd st' /\ 0 <= b_pos st' <= b_end st' /\ r_open st' = r_open st /\
      cur st' = cur st + delivered rd (cur st) n /\
      out = slice (rd_bytes rd) (cur st) (delivered rd (cur st) n) /\
      r_fpos st' = (cur st + delivered rd (cur st) n) / rd_size rd /\
      0 <= delivered rd (cur st) n.
  Proof.
    intros [Hs Hfo] Hdec Hfix Hw Hp Hn.
    assert (Hcl : 0 <= cur st <= len (rd_bytes rd)).
    { destruct Hw as (H0 & H1 & H2 & _). unfold cur. lia. }
    unfold bz_read.
    destruct (bz_read_loop_spec rd Hdec c (bz_fuel (rd_bytes rd)) st (n * rd_size rd) [] Hw Hp ltac:(nia))
      as (st' & nb' & out' & early & Hl & Hw' & Hp' & Hfp' & Ho' & Hc' & Hout & Hnb & Hnb0 & He1 & He2).
    { destruct Hw as (H0 & H1 & _). unfold bz_fuel, len. lia. }
    rewrite Hl. cbn [app] in Hout. unfold bz_count. rewrite Hfix.
    assert (Hcl' : cur st' <= len (rd_bytes rd)).
    { destruct Hw' as (H0 & H1 & H2 & _). unfold cur. lia. }
    destruct early.
    - destruct (He1 eq_refl) as [Hce Hpos].
      replace (nb' <? 0) with false by (symmetry; apply Z.ltb_ge; lia).
      assert (Hd : delivered rd (cur st) n = len (rd_bytes rd) - cur st) by (unfold delivered; lia).
      do 2 eexists. split.
      { rewrite Hnb, Hce, Hd. do 3 f_equal. lia. }
      cbn. split; [exact Hw'|]. split; [exact Hp'|]. split; [exact Ho'|].
      rewrite Hd. unfold cur in *. cbn. split; [lia|]. split; [rewrite Hout, Hce; reflexivity|].
      split; [f_equal; lia|lia].
    - specialize (He2 eq_refl).
      destruct (nb' >? b_end st' - b_pos st') eqn:E.
      + rewrite Z.gtb_ltb in E. apply Z.ltb_lt in E.
        destruct He2 as [He2|[Hp0 Hend]]; [lia|].
        rewrite (take_ok rd st' (b_pos st') (b_end st' - b_pos st') Hw') by lia.
        assert (Hd : delivered rd (cur st) n = len (rd_bytes rd) - cur st).
        { unfold delivered. unfold cur in *. lia. }
        do 2 eexists. split.
        { rewrite Hd. do 3 f_equal. unfold cur in *. lia. }
        cbn. split; [exact Hw'|]. split; [lia|]. split; [exact Ho'|].
        rewrite Hd. unfold cur in *. split; [cbn; lia|]. split.
        * rewrite Hout. destruct Hw as (H0 & _). apply slice_app'; lia.
        * split; [f_equal; lia|lia].
      + rewrite Z.gtb_ltb in E. apply Z.ltb_ge in E.
        rewrite (take_ok rd st' (b_pos st') nb' Hw') by lia.
        assert (Hd : delivered rd (cur st) n = n * rd_size rd).
        { unfold delivered. destruct Hw' as (H0 & H1 & H2 & _). unfold cur in *. lia. }
        do 2 eexists. split.
        { rewrite Hd. do 3 f_equal. lia. }
        cbn. split; [exact Hw'|]. split; [lia|]. split; [exact Ho'|].
        rewrite Hd. unfold cur in *. split; [cbn; lia|]. split.
        * rewrite Hout. destruct Hw as (H0 & _). apply slice_app'; lia.
        * split; [f_equal; lia|nia].
  Qed.

  (* the read contract of the window codec: same statement as for raw and text *)
  (* from what a read leaves behind (window, bytes delivered, file->pos) to the read contract *)
  Lemma bz_tuple_At rd st p n st' out :
    wf_rd rd -> rd_enc rd = EBz -> At rd st p -> 0 <= n ->
    bz_win rd st' -> 0 <= b_pos st' <= b_end st' -> r_open st' = r_open st ->
    cur st' = cur st + delivered rd (cur st) n ->
    out = slice (rd_bytes rd) (cur st) (delivered rd (cur st) n) ->
    r_fpos st' = (cur st + delivered rd (cur st) n) / rd_size rd ->
    0 <= delivered rd (cur st) n ->
    delivered rd (cur st) n / rd_size rd = read_count rd p n /\
    delivered rd (cur st) n / rd_size rd * rd_size rd <= len out /\
    firstn (Z.to_nat (delivered rd (cur st) n / rd_size rd * rd_size rd)) out =
      slice (rd_bytes rd) (p * rd_size rd) (delivered rd (cur st) n / rd_size rd * rd_size rd) /\
    At rd st' (p + delivered rd (cur st) n / rd_size rd).
  Proof.
    intros Hwf He (Ho & Hf & Hp0 & Hm) Hn Hw' Hp' Ho' Hc' Hout Hfp' Hd0. rewrite He in Hm. destruct Hm as (Hw & Hpos & Hco).
    pose proof (nsamp_bounds rd Hwf) as (Hns0 & Hns1 & Hns2). destruct Hwf as [Hs Hfo].
    fold (cur st) in Hco. set (S := rd_bytes rd) in *. set (size := rd_size rd) in *.
    set (D := delivered rd (cur st) n) in *.
    assert (Hcl : 0 <= cur st <= len S).
    { destruct Hw as (H0 & H1 & H2 & _). unfold cur. fold S in H2. lia. }
    assert (HD : D = Z.min (n * size) (len S - cur st)) by reflexivity.
    assert (Hlen : len out = D).
    { rewrite Hout, slice_len by lia. lia. }
    unfold coh in Hco. fold size S in Hco.
    destruct Hco as [Hal|[Hpe Htail]].
    - (* aligned *)
      assert (Hdw : D / size = read_count rd p n).
      { unfold read_count, nsamp. fold S size. rewrite <- (div_window size (len S) p n Hs Hn Hp0). f_equal. rewrite HD, Hal. lia. }
      assert (Hcs : D / size * size <= D) by (rewrite Z.mul_comm; apply Z.mul_div_le; lia).
      split; [exact Hdw|]. split; [lia|]. split.
      + rewrite Hout, Hal. apply slice_full_prefix; try lia. apply Z.mul_nonneg_nonneg; [apply Z.div_pos|]; lia.
      + unfold At. rewrite He. split; [congruence|].
        destruct (Z_le_gt_dec (n * size) (len S - cur st)) as [Hfull|Hshort].
        * assert (D = n * size) by lia.
          assert (Hq : D / size = n) by (rewrite H; apply Z.div_mul; lia).
          split; [rewrite Hfp', Hq, H, Hal; replace (p * size + n * size) with ((p + n) * size) by ring; rewrite Z.div_mul by lia; lia|].
          split; [lia|]. split; [exact Hw'|]. split; [exact Hp'|].
          left. fold (cur st'). rewrite Hc', Hq, H, Hal. fold size. ring.
        * assert (D = len S - cur st) by lia.
          assert (Hq : D / size = nsamp rd - p).
          { rewrite H, Hal. replace (len S - p * size) with (len S + (- p) * size) by ring.
            rewrite Z.div_add by lia. unfold nsamp. fold S size. lia. }
          assert (Hpn : p <= nsamp rd).
          { unfold nsamp. fold S size. apply Z.div_le_lower_bound; lia. }
          split; [rewrite Hfp', Hq, H; replace (cur st + (len S - cur st)) with (len S) by ring; unfold nsamp; fold S size; lia|].
          split; [lia|]. split; [exact Hw'|]. split; [exact Hp'|].
          right. fold (cur st'). rewrite Hc', Hq, H. fold size S. split; [lia|]. lia.
    - (* cursor inside the partial trailing sample *)
      fold S size in Hns1, Hns2. rewrite Hpe in *.
      assert (HDs : 0 <= D < size) by lia.
      assert (Hq : D / size = 0) by (apply Z.div_small; lia).
      rewrite Hq. unfold read_count.
      split; [lia|]. split; [lia|]. split; [rewrite Z.mul_0_l, slice_nil_n; reflexivity|].
      unfold At. rewrite He. split; [congruence|]. split.
      + rewrite Hfp'. rewrite Z.add_0_r.
        symmetry. apply Z.div_unique with (r := cur st + D - nsamp rd * size); lia.
      + split; [lia|]. split; [exact Hw'|]. split; [exact Hp'|].
        right. fold (cur st'). rewrite Hc'. fold size S. split; [lia|lia].
  Qed.

  Lemma bz_read_spec c rd st p n :
    wf_rd rd -> rd_enc rd = EBz -> dec_ok BUF dec (rd_bytes rd) -> fix_bz_eof c = true ->
    At rd st p -> 0 <= n ->
    exists st' bs cnt, bz_read dec c (rd_bytes rd) (rd_size rd) st n = Some (st', bs, cnt) /\
      cnt = read_count rd p n /\ cnt * rd_size rd <= len bs /\
      firstn (Z.to_nat (cnt * rd_size rd)) bs = slice (rd_bytes rd) (p * rd_size rd) (cnt * rd_size rd) /\
      At rd st' (p + cnt).
  Proof.
    intros Hwf He Hdec Hfix Hat Hn.
    assert (Hm : bz_win rd st /\ 0 <= b_pos st <= b_end st).
    { destruct Hat as (_ & _ & _ & Hm). rewrite He in Hm. tauto. }
    destruct Hm as [Hw Hpos].
    destruct (bz_read_bytes c rd st n Hwf Hdec Hfix Hw Hpos Hn)
      as (st' & out & Hr & Hw' & Hp' & Ho' & Hc' & Hout & Hfp' & Hd0).
    exists st', out, (delivered rd (cur st) n / rd_size rd). split; [exact Hr|].
    apply (bz_tuple_At rd st p n st' out Hwf He Hat Hn Hw' Hp' Ho' Hc' Hout Hfp' Hd0).
  Qed.
End BzRead.
