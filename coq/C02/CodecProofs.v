(* C02: the codec cursors are coherent with the decoded stream.

   At rd st p      : the open file `st` is positioned at sample p of stream rd_bytes rd
   Coh c rd st     : what holds of every open file between calls (At, or a negative pseudo position)
   enc_seek_spec   : from Coh, a seek to count >= 0 establishes At (clamped to EOF for bzip2/text)
   enc_read_spec   : from At p, a read of n samples delivers exactly samples [p, p+n) /\ [0, nsamp)
   The bzip2 lemmas are about an arbitrary decoder `dec` satisfying dec_ok (libbz2 contract). *)
From Coq Require Import ZArith List Bool Lia.
From GD Require Import C02.Model C02.Slices.
Import ListNotations.
Local Open Scope Z_scope.

Definition wf_rd (rd : rawdef) : Prop := 0 < rd_size rd /\ 0 <= rd_foff rd.

(* byte cursor `cur` coherent with sample position p *)
Definition coh (rd : rawdef) (p cur : Z) : Prop :=
  cur = p * rd_size rd \/ (p = nsamp rd /\ p * rd_size rd <= cur <= len (rd_bytes rd)).

Definition bz_win (rd : rawdef) (st : rawst) : Prop :=
  0 <= b_base st /\ 0 <= b_end st /\ b_base st + b_end st <= len (rd_bytes rd) /\
  b_data st = slice (rd_bytes rd) (b_base st) (b_end st) /\
  (b_send st = true -> b_base st + b_end st = len (rd_bytes rd)).

Definition At (rd : rawdef) (st : rawst) (p : Z) : Prop :=
  r_open st = true /\ r_fpos st = p /\ 0 <= p /\
  match rd_enc rd with
  | ERaw => coh rd p (r_off st)
  | ETxt => r_off st = p /\ p <= nsamp rd
  | EBz => bz_win rd st /\ 0 <= b_pos st <= b_end st /\ coh rd p (b_base st + b_pos st)
  end.

Definition Coh (c : cfg) (rd : rawdef) (st : rawst) : Prop :=
  r_open st = true /\
  match rd_enc rd with
  | ERaw => r_fpos st < 0 \/ At rd st (r_fpos st)
  | ETxt => (fix_text_pseudo c = true /\ r_fpos st < 0) \/ At rd st (r_fpos st)
  | EBz => (r_fpos st < 0 /\ bz_win rd st /\ 0 <= b_pos st <= b_end st) \/ At rd st (r_fpos st)
  end.

Definition seek_target (rd : rawdef) (count : Z) : Z :=
  match rd_enc rd with ERaw => count | _ => Z.min count (nsamp rd) end.

Definition read_count (rd : rawdef) (p n : Z) : Z := Z.max 0 (Z.min n (nsamp rd - p)).

(* ------------------------------------------------------------------ arithmetic *)
Lemma div_window size L p n :
  0 < size -> 0 <= n -> 0 <= p ->
  Z.max 0 (Z.min (n * size) (L - p * size)) / size = Z.max 0 (Z.min n (L / size - p)).
Proof.
  intros Hs Hn Hp.
  assert (Hd : (L - p * size) / size = L / size - p).
  { replace (L - p * size) with (L + (- p) * size) by ring. rewrite Z.div_add by lia. lia. }
  destruct (Z_le_gt_dec (L - p * size) 0) as [Hle|Hgt].
  - assert (L / size - p <= 0).
    { rewrite <- Hd. apply Z.div_le_upper_bound; lia. }
    replace (Z.max 0 (Z.min (n * size) (L - p * size))) with 0 by nia.
    rewrite Z.div_0_l by lia. lia.
  - destruct (Z_le_gt_dec (n * size) (L - p * size)) as [Hfull|Hshort].
    + replace (Z.max 0 (Z.min (n * size) (L - p * size))) with (n * size) by nia.
      rewrite Z.div_mul by lia.
      assert (n <= L / size - p).
      { rewrite <- Hd. apply Z.div_le_lower_bound; lia. }
      lia.
    + replace (Z.max 0 (Z.min (n * size) (L - p * size))) with (L - p * size) by nia.
      rewrite Hd.
      assert (L / size - p < n).
      { rewrite <- Hd. apply Z.div_lt_upper_bound; lia. }
      assert (0 <= L / size - p).
      { rewrite <- Hd. apply Z.div_pos; lia. }
      lia.
Qed.

Lemma nsamp_bounds rd : wf_rd rd -> 0 <= nsamp rd /\ nsamp rd * rd_size rd <= len (rd_bytes rd) < (nsamp rd + 1) * rd_size rd.
Proof.
  intros [Hs _]. unfold nsamp. pose proof (len_nonneg (rd_bytes rd)).
  pose proof (Z.mul_div_le (len (rd_bytes rd)) (rd_size rd) Hs).
  pose proof (Z.mul_succ_div_gt (len (rd_bytes rd)) (rd_size rd) Hs).
  split; [apply Z.div_pos; lia|]. nia.
Qed.

(* ------------------------------------------------------------------ raw / gzip *)
Lemma raw_seek_spec c rd st count :
  rd_enc rd = ERaw -> Coh c rd st -> 0 <= count ->
  exists st', raw_seek (rd_size rd) st count = (st', count) /\ At rd st' count.
Proof.
  intros He [Ho Hc] Hcnt. rewrite He in Hc. unfold raw_seek.
  destruct (r_fpos st =? count) eqn:E.
  - apply Z.eqb_eq in E. exists st. split; [reflexivity|].
    destruct Hc as [Hneg|Hat]; [lia|]. rewrite E in Hat. exact Hat.
  - eexists. split; [reflexivity|]. unfold At. rewrite He. cbn.
    repeat split; try assumption. left. reflexivity.
Qed.

Lemma raw_read_spec rd st p n :
  wf_rd rd -> rd_enc rd = ERaw -> At rd st p -> 0 <= n ->
  exists st' bs cnt, raw_read (rd_bytes rd) (rd_size rd) st n = (st', bs, cnt) /\
    cnt = read_count rd p n /\ cnt * rd_size rd <= len bs /\
    firstn (Z.to_nat (cnt * rd_size rd)) bs = slice (rd_bytes rd) (p * rd_size rd) (cnt * rd_size rd) /\
    At rd st' (p + cnt).
Proof.
  intros Hwf He (Ho & Hf & Hp & Hc) Hn. rewrite He in Hc. unfold coh in Hc.
  pose proof (nsamp_bounds rd Hwf) as (Hns0 & Hns1 & Hns2).
  destruct Hwf as [Hs Hfo].
  unfold raw_read. do 3 eexists. split; [reflexivity|].
  set (S := rd_bytes rd) in *. set (size := rd_size rd) in *.
  assert (Hoff : 0 <= r_off st) by (destruct Hc as [->|[_ ?]]; nia).
  assert (Hlen : len (slice S (r_off st) (n * size)) = Z.max 0 (Z.min (n * size) (len S - r_off st))).
  { apply slice_len; nia. }
  destruct Hc as [Hc|[Hpe Hc]].
  - (* aligned *)
    rewrite Hc in *. rewrite Hlen.
    pose proof (div_window size (len S) p n Hs Hn Hp) as Hd. change (len S / size) with (nsamp rd) in Hd.
    unfold read_count. rewrite Hd.
    set (cnt := Z.max 0 (Z.min n (nsamp rd - p))) in *.
    assert (Hcs : cnt * size <= Z.max 0 (Z.min (n * size) (len S - p * size))).
    { rewrite <- Hd. rewrite Z.mul_comm. apply Z.mul_div_le. lia. }
    split; [reflexivity|]. split; [exact Hcs|]. split.
    + apply slice_full_prefix; nia.
    + unfold At. rewrite He. cbn. repeat split; try assumption; try lia.
      left. fold size. ring.
  - (* at the partial tail *)
    rewrite Hpe in *.
    assert (Hl0 : len (slice S (r_off st) (n * size)) < size) by (rewrite Hlen; nia).
    assert (Hl1 : 0 <= len (slice S (r_off st) (n * size))) by apply len_nonneg.
    rewrite Z.div_small by lia.
    unfold read_count. replace (Z.max 0 (Z.min n (nsamp rd - nsamp rd))) with 0 by lia.
    split; [reflexivity|]. split; [lia|]. split.
    + rewrite Z.mul_0_l. rewrite slice_nil_n. reflexivity.
    + unfold At. rewrite He. cbn. repeat split; try assumption; try lia.
      right. fold S size. split; [lia|]. lia.
Qed.

(* ------------------------------------------------------------------ text *)
Lemma txt_seek_spec c rd st count :
  wf_rd rd -> rd_enc rd = ETxt -> Coh c rd st -> 0 <= count ->
  exists st' p', txt_seek c (nsamp rd) st count = (st', p') /\ At rd st' p' /\ p' = Z.min count (nsamp rd).
Proof.
  intros Hwf He [Ho Hc] Hcnt. rewrite He in Hc. unfold At in Hc. rewrite He in Hc.
  pose proof (nsamp_bounds rd Hwf) as (Hns0 & _).
  unfold txt_seek.
  destruct Hc as [[Hfix Hneg]|(_ & _ & Hp & Hline & Hle)].
  - rewrite Hfix. replace (r_fpos st <? 0) with true by (symmetry; apply Z.ltb_lt; lia).
    rewrite orb_true_r. cbn.
    do 2 eexists. split; [reflexivity|]. split; [|lia].
    unfold At. rewrite He. cbn. repeat split; try assumption; lia.
  - destruct (count <? r_fpos st) eqn:E.
    + apply Z.ltb_lt in E. cbn.
      do 2 eexists. split; [reflexivity|]. split; [|lia].
      unfold At. rewrite He. cbn. repeat split; try assumption; lia.
    + apply Z.ltb_ge in E.
      replace (r_fpos st <? 0) with false by (symmetry; apply Z.ltb_ge; lia).
      rewrite andb_false_r. cbn.
      do 2 eexists. split; [reflexivity|]. split; [|lia].
      unfold At. rewrite He. cbn. repeat split; try assumption; lia.
Qed.

Lemma txt_read_spec rd st p n :
  wf_rd rd -> rd_enc rd = ETxt -> At rd st p -> 0 <= n ->
  exists st' bs cnt, txt_read (rd_bytes rd) (rd_size rd) (nsamp rd) st n = (st', bs, cnt) /\
    cnt = read_count rd p n /\ cnt * rd_size rd <= len bs /\
    firstn (Z.to_nat (cnt * rd_size rd)) bs = slice (rd_bytes rd) (p * rd_size rd) (cnt * rd_size rd) /\
    At rd st' (p + cnt).
Proof.
  intros Hwf He (Ho & Hf & Hp & Hc) Hn. rewrite He in Hc. destruct Hc as [Hline Hle].
  pose proof (nsamp_bounds rd Hwf) as (Hns0 & Hns1 & Hns2). destruct Hwf as [Hs Hfo].
  unfold txt_read. do 3 eexists. split; [reflexivity|].
  rewrite Hline. unfold read_count.
  set (cnt := Z.max 0 (Z.min n (nsamp rd - p))).
  assert (Hl : len (slice (rd_bytes rd) (p * rd_size rd) (cnt * rd_size rd)) = cnt * rd_size rd).
  { rewrite slice_len by nia. unfold cnt. nia. }
  split; [reflexivity|]. split; [lia|]. split.
  - apply firstn_len_ge. lia.
  - unfold At. rewrite He. cbn. repeat split; try assumption; try lia; unfold cnt; lia.
Qed.

(* ------------------------------------------------------------------ bzip2 window: seek *)
Section BzProofs.
  Variable BUF : Z.
  Variable dec : list Z -> Z -> Z * bool.

  (* contract of BZ2_bzRead on a well-formed stream S, after `consumed` bytes were delivered *)
  Definition dec_ok (S : list Z) : Prop :=
    0 < BUF /\
    forall consumed, 0 <= consumed <= len S ->
      0 <= fst (dec S consumed) <= BUF /\ consumed + fst (dec S consumed) <= len S /\
      (snd (dec S consumed) = true -> consumed + fst (dec S consumed) = len S) /\
      (snd (dec S consumed) = false -> fst (dec S consumed) = BUF).

  Lemma dec_ok_no_err S consumed : dec_ok S -> 0 <= consumed <= len S -> dec_err (dec S consumed) = false.
  Proof. intros [_ H] Hc. destruct (H consumed Hc) as ((H0 & _) & _). unfold dec_err. apply Z.ltb_ge. exact H0. Qed.

  Lemma bz_load_win rd st pos :
    dec_ok (rd_bytes rd) -> bz_win rd st -> b_send st = false ->
    let st' := fst (bz_load dec (rd_bytes rd) st pos) in
    bz_win rd st' /\ b_pos st' = pos /\ b_base st' = b_base st + b_end st /\
    r_fpos st' = r_fpos st /\ r_open st' = r_open st /\ r_off st' = r_off st /\
    b_send st' = snd (bz_load dec (rd_bytes rd) st pos) /\
    (b_send st' = false -> b_end st' = BUF).
  Proof.
    intros [HB Hd] (H0 & H1 & H2 & H3 & H4) Hs.
    specialize (Hd (b_base st + b_end st) ltac:(lia)).
    unfold bz_load. destruct (dec (rd_bytes rd) (b_base st + b_end st)) as [n fin] eqn:E.
    cbn in Hd. destruct Hd as (Ha & Hb & Hc & He).
    cbn. rewrite Hs, orb_false_r.
    unfold bz_win. cbn. repeat split; try lia; try assumption.
  Qed.

  Ltac same_state st :=
    exists st; split; [reflexivity|]; split; [assumption|]; do 3 (split; [reflexivity|]);
    split; [first [right; assumption | left; lia] | left; reflexivity].

  Lemma bz_seek_loop_spec rd :
    dec_ok (rd_bytes rd) ->
    forall c fuel st off,
      bz_win rd st ->
      (b_send st = true \/ len (rd_bytes rd) - (b_base st + b_end st) < Z.of_nat fuel) ->
      exists st', bz_seek_loop dec c (rd_size rd) fuel (rd_bytes rd) st off = Some (st', false) /\
        bz_win rd st' /\ b_pos st' = b_pos st /\ r_fpos st' = r_fpos st /\ r_open st' = r_open st /\
        (off <= b_base st' + b_end st' \/ b_send st' = true) /\
        (st' = st \/ b_base st' < off).
  Proof.
    intros Hdec c. induction fuel as [|fuel IH]; intros st off Hw Hf.
    - cbn. destruct (b_base st + b_end st <? off) eqn:E.
      + destruct Hf as [Hs|Hf].
        * rewrite Hs. same_state st.
        * destruct Hw as (_ & _ & Hw & _). lia.
      + apply Z.ltb_ge in E. same_state st.
    - cbn. destruct (b_base st + b_end st <? off) eqn:E.
      + destruct (b_send st) eqn:Hs.
        * same_state st.
        * apply Z.ltb_lt in E.
          rewrite (dec_ok_no_err _ _ Hdec) by (destruct Hw as (? & ? & ? & _); lia).
          pose proof (bz_load_win rd st (b_pos st) Hdec Hw Hs) as (Hw' & Hp' & Hb' & Hfp' & Ho' & _ & Hse' & Hfull).
          set (st1 := fst (bz_load dec (rd_bytes rd) st (b_pos st))) in *.
          destruct (IH st1 off Hw') as (st2 & Hl & Hw2 & Hp2 & Hf2 & Ho2 & Hex & Hmono).
          { destruct (b_send st1) eqn:Hs1; [left; reflexivity|right].
            specialize (Hfull eq_refl). destruct Hdec as [HB _].
            destruct Hf as [Hf|Hf]; [congruence|]. rewrite Hb'. lia. }
          exists st2. split; [exact Hl|]. split; [exact Hw2|]. do 3 (split; [congruence|]).
          split; [exact Hex|].
          right. destruct Hmono as [->|Hlt]; [rewrite Hb'; lia|exact Hlt].
      + apply Z.ltb_ge in E. same_state st.
  Qed.

  Lemma coh_le_len rd p cur : wf_rd rd -> coh rd p cur -> cur <= len (rd_bytes rd) -> 0 <= p -> p <= nsamp rd.
  Proof.
    intros Hwf [Hc|[Hc _]] Hl Hp; [|lia]. destruct Hwf as [Hs _].
    unfold nsamp. apply Z.div_le_lower_bound; nia.
  Qed.

  (* seeking a bzip2 cursor: correct unless the target lies before the current window *)
  Lemma bz_seek_spec c rd st count :
    wf_rd rd -> rd_enc rd = EBz -> dec_ok (rd_bytes rd) -> Coh c rd st -> 0 <= count ->
    (fix_bz_rewind c = true \/ b_base st <= count * rd_size rd \/ r_fpos st = count) ->
    exists st' p', bz_seek dec c (rd_bytes rd) (rd_size rd) st count = Some (st', p') /\
      At rd st' p' /\ p' = Z.min count (nsamp rd).
  Proof.
    intros Hwf He Hdec [Ho Hc] Hcnt Hback. rewrite He in Hc.
    pose proof (nsamp_bounds rd Hwf) as (Hns0 & Hns1 & Hns2).
    assert (Hs : 0 < rd_size rd) by apply Hwf.
    unfold bz_seek. destruct (r_fpos st =? count) eqn:E.
    - apply Z.eqb_eq in E. exists st, count. split; [reflexivity|].
      destruct Hc as [[Hneg _]|Hat]; [lia|]. rewrite E in Hat. split; [exact Hat|].
      destruct Hat as (_ & _ & _ & Hm). rewrite He in Hm. destruct Hm as ((_ & _ & Hle & _) & Hpos & Hco).
      pose proof (coh_le_len rd count _ Hwf Hco ltac:(lia) Hcnt). lia.
    - apply Z.eqb_neq in E.
      assert (Hwin : bz_win rd st /\ 0 <= b_pos st <= b_end st).
      { destruct Hc as [(_ & Hw & Hp)|(_ & _ & _ & Hm)]; [tauto|]. rewrite He in Hm. tauto. }
      destruct Hwin as [Hw Hpos].
      set (off := count * rd_size rd).
      set (st0 := if fix_bz_rewind c && (off <? b_base st) then set_win st 0 0 0 false [] else st).
      assert (Hw0 : bz_win rd st0 /\ b_base st0 <= off /\ r_open st0 = true).
      { unfold st0. destruct (fix_bz_rewind c && (off <? b_base st)) eqn:Ef.
        - unfold bz_win. cbn. pose proof (len_nonneg (rd_bytes rd)). repeat split; try lia; try assumption.
        - split; [exact Hw|]. split; [|exact Ho].
          apply andb_false_iff in Ef. destruct Hback as [Hb|[Hb|Hb]]; [|exact Hb|congruence].
          rewrite Hb in Ef. destruct Ef as [Ef|Ef]; [discriminate|]. apply Z.ltb_ge in Ef. exact Ef. }
      destruct Hw0 as (Hw0 & Hb0 & Ho0).
      destruct (bz_seek_loop_spec rd Hdec c (bz_fuel (rd_bytes rd)) st0 off Hw0) as (st1 & Hl & Hw1 & _ & _ & Ho1 & Hex & Hmono).
      { right. destruct Hw0 as (? & ? & ? & _). unfold bz_fuel, len. lia. }
      fold off st0. rewrite Hl.
      assert (Hb1 : b_base st1 <= off) by (destruct Hmono as [->|?]; lia).
      destruct Hw1 as (H0 & H1 & H2 & H3 & H4).
      destruct (b_send st1 && (b_base st1 + b_end st1 <=? off)) eqn:Ecl.
      + apply andb_true_iff in Ecl. destruct Ecl as [Hse Hle]. apply Z.leb_le in Hle.
        specialize (H4 Hse).
        do 2 eexists. split; [reflexivity|]. cbn.
        assert (Hfp : (b_base st1 + b_end st1) / rd_size rd = nsamp rd) by (rewrite H4; reflexivity).
        rewrite Hfp. split.
        * unfold At. rewrite He. cbn. repeat split; try lia; try congruence; try assumption; try (intros _; assumption).
          right. split; [reflexivity|]. lia.
        * assert (nsamp rd <= count); [|lia].
          unfold off in Hle. apply Z.lt_succ_r. nia.
      + do 2 eexists. split; [reflexivity|]. cbn.
        replace (b_base st1 + (off - b_base st1)) with off by ring.
        unfold off at 3 4. rewrite Z.div_mul by lia.
        assert (Hin : off <= b_base st1 + b_end st1).
        { apply andb_false_iff in Ecl. destruct Hex as [?|Hse]; [assumption|].
          rewrite Hse in Ecl. destruct Ecl as [?|Ecl]; [discriminate|]. apply Z.leb_gt in Ecl. lia. }
        split.
        * unfold At. rewrite He. cbn. repeat split; try lia; try congruence; try assumption.
          -- unfold off. apply Z.div_mul. lia.
          -- left. unfold off. ring.
        * assert (count <= nsamp rd); [|lia].
          unfold nsamp. apply Z.div_le_lower_bound; [lia|]. unfold off in Hin. lia.
  Qed.
End BzProofs.
