From GD Require Import C02.Model.
Require Import ExtrOcamlBasic.
Extraction Language OCaml.
Extraction "model.ml" step run init spec_window dec_bz2 eof_field FUEL.
