From GD Require Import C02.Model C02.MplexCache C02.Writes.
Require Import ExtrOcamlBasic.
Extraction Language OCaml.
Extraction "model.ml" step run init spec_window dec_bz2 dec_bz2_crc eof_field FUEL mplex_read mstep of_list mplex_val window put_raw.
