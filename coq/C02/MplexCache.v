(* C02: the MPLEX layer of _GD_DoMplex (getdata.c): start-value cache (type, sample, datum),
   chunked look-back, _GD_MplexData, and the invalidation by gd_putdata (putdata.c, dc2eda2).

   The two inputs are whole-field contents `vin`, `vcnt : Z -> option Z`: by history_independent an
   absolute read of an input returns `window v s n` whatever happened before, so the only handle
   state that matters here is the cache.  A gd_putdata is an arbitrary change of the two contents. *)
From Coq Require Import ZArith List Bool Lia.
From GD Require Import C02.Model C02.Slices C02.Windows.
Import ListNotations.
Local Open Scope Z_scope.

Section Mplex.
  Variable cval : Z.          (* count_val *)
  Variable CH : Z.            (* GD_BUFFER_SIZE: look-back chunk *)
  Variable pad : Z -> Z.      (* _GD_FillZero(start, return_type): 0, or NaN for the float families *)

  Definition stream := Z -> option Z.
  Definition is_c (o : option Z) : bool := match o with Some c => c =? cval | None => false end.

  (* the value carried into sample m: the input at the last index match below m, else the padding *)
  Fixpoint carry (vin vcnt : stream) (rt : Z) (m : nat) : Z :=
    match m with
    | O => pad rt
    | Datatypes.S m' =>
        if is_c (vcnt (Z.of_nat m')) then match vin (Z.of_nat m') with Some x => x | None => pad rt end
        else carry vin vcnt rt m'
    end.

  (* specification: the value of sample k of the MPLEX field in return type rt *)
  Definition mplex_val (vin vcnt : stream) (rt : Z) (k : Z) : option Z :=
    match vin k, vcnt k with
    | Some x, Some c => Some (if c =? cval then x else carry vin vcnt rt (Z.to_nat k))
    | _, _ => None
    end.

  (* _GD_MplexData *)
  Fixpoint mplex_data (a b : list Z) (last : Z) : list Z :=
    match a, b with
    | x :: a', c :: b' => if c =? cval then x :: mplex_data a' b' x else last :: mplex_data a' b' last
    | _, _ => []
    end.

  Fixpoint find_last (l : list Z) : option nat :=
    match l with
    | [] => None
    | c :: t => match find_last t with
                | Some i => Some (Datatypes.S i)
                | None => if c =? cval then Some O else None
                end
    end.

  (* the look-back loop (getdata.c, "stop if we're at the start of the lookback or we found the value") *)
  Fixpoint lb_loop (fuel : nat) (vcnt : stream) (lb_start chunk_start : Z) : option Z :=
    match fuel with
    | O => None
    | Datatypes.S fuel' =>
        if chunk_start <=? lb_start then None
        else
          let size := Z.min (chunk_start - lb_start) CH in
          let cs := chunk_start - size in
          match find_last (window vcnt cs (Z.to_nat size)) with
          | Some i => Some (cs + Z.of_nat i)
          | None => lb_loop fuel' vcnt lb_start cs
          end
    end.

  Definition cache := option (Z * Z * Z).     (* (return type, sample, datum) *)

  (* how _GD_DoMplex obtains the start value: the cache, else the look-back, else the padding *)
  Definition start_of (lookback cycle : Z) (ca : cache) (vin vcnt : stream) (rt first c0 : Z) : Z :=
    match match ca with
          | Some (t, smp, dd) => if (t =? rt) && (smp =? first) then Some dd else None
          | None => None end with
    | Some dd => dd
    | None =>
      if negb (c0 =? cval) && negb (lookback =? 0) then
        let lbs := if lookback =? -1 then 0 else Z.max 0 (first - lookback * cycle) in
        match lb_loop (Datatypes.S (Z.to_nat first)) vcnt lbs first with
        | Some j => match window vin j 1 with x :: _ => x | [] => pad rt end
        | None => pad rt
        end
      else pad rt
    end.

  Definition mplex_read (lookback cycle : Z) (ca : cache) (vin vcnt : stream) (rt first n : Z)
    : cache * list Z :=
    let l1 := window vin first (Z.to_nat n) in
    match l1 with
    | [] => (ca, [])
    | _ =>
      match window vcnt first (length l1) with
      | [] => (ca, [])
      | (c0 :: _) as l2 =>
        let outl := mplex_data l1 l2 (start_of lookback cycle ca vin vcnt rt first c0) in
        (* the last sample is cached, but not of a window that began before sample zero (c107348) *)
        (match outl with [] => ca | _ => if 0 <=? first then Some (rt, first + len outl, last outl 0) else None end, outl)
      end
    end.

  (* ---------------------------------------------------------------- proofs *)
  Definition down (v : stream) : Prop := forall k j, 0 <= j <= k -> v k <> None -> v j <> None.

  Lemma carry_succ vin vcnt rt k :
    0 <= k ->
    carry vin vcnt rt (Z.to_nat (k + 1)) =
    if is_c (vcnt k) then match vin k with Some x => x | None => pad rt end else carry vin vcnt rt (Z.to_nat k).
  Proof.
    intros Hk. replace (Z.to_nat (k + 1)) with (Datatypes.S (Z.to_nat k)) by lia. cbn [carry].
    rewrite Z2Nat.id by lia. reflexivity.
  Qed.

  Lemma mplex_data_window vin vcnt rt : forall n first,
    0 <= first ->
    mplex_data (window vin first n) (window vcnt first (length (window vin first n)))
               (carry vin vcnt rt (Z.to_nat first))
    = window (mplex_val vin vcnt rt) first n.
  Proof.
    induction n; intros first Hf; cbn [window]; [reflexivity|].
    unfold mplex_val at 1. destruct (vin first) as [x|] eqn:Ei; [|reflexivity].
    cbn [length window]. destruct (vcnt first) as [c|] eqn:Ec; [|reflexivity].
    cbn [mplex_data]. specialize (IHn (first + 1) ltac:(lia)). rewrite carry_succ in IHn by lia.
    unfold is_c in IHn. rewrite Ec, Ei in IHn.
    destruct (c =? cval); f_equal; exact IHn.
  Qed.

  Lemma mplex_data_head a b c x s s' : c = cval -> mplex_data (x :: a) (c :: b) s = mplex_data (x :: a) (c :: b) s'.
  Proof. intros ->. cbn. rewrite Z.eqb_refl. reflexivity. Qed.

  (* the last sample of a non-empty result is the value carried into the sample after it *)
  Lemma window_last_carry vin vcnt rt : forall n first,
    0 <= first -> window (mplex_val vin vcnt rt) first n <> [] ->
    last (window (mplex_val vin vcnt rt) first n) 0 =
    carry vin vcnt rt (Z.to_nat (first + len (window (mplex_val vin vcnt rt) first n))).
  Proof.
    induction n; intros first Hf Hne; cbn [window] in *; [congruence|].
    unfold mplex_val at 1 in Hne. unfold mplex_val at 1 3.
    destruct (vin first) as [x|] eqn:Ei; [|congruence]. destruct (vcnt first) as [c|] eqn:Ec; [|congruence].
    set (v := if c =? cval then x else carry vin vcnt rt (Z.to_nat first)).
    assert (Hv : v = carry vin vcnt rt (Z.to_nat (first + 1))).
    { rewrite carry_succ by lia. unfold is_c. rewrite Ec, Ei. reflexivity. }
    pose proof (IHn (first + 1) ltac:(lia)) as IH'.
    destruct (window (mplex_val vin vcnt rt) (first + 1) n) as [|y w'] eqn:Ew.
    - cbn. rewrite Hv. f_equal.
    - specialize (IH' ltac:(discriminate)).
      change (last (v :: y :: w') 0) with (last (y :: w') 0). rewrite IH'.
      f_equal. unfold len. cbn [length]. lia.
  Qed.

  Lemma find_last_spec : forall l,
    match find_last l with
    | Some i => (i < length l)%nat /\ nth i l 0 = cval /\
                forall i', (i < i' < length l)%nat -> nth i' l 0 <> cval
    | None => forall i', (i' < length l)%nat -> nth i' l 0 <> cval
    end.
  Proof.
    induction l as [|c t IH]; cbn [find_last]; [intros; cbn in *; lia|].
    destruct (find_last t) as [i|].
    - destruct IH as (Hi & Hn & Hafter). split; [cbn; lia|]. split; [cbn; exact Hn|].
      intros [|i'] Hi'; [lia|]. cbn. apply Hafter. cbn in Hi'. lia.
    - destruct (c =? cval) eqn:E.
      + apply Z.eqb_eq in E. split; [cbn; lia|]. split; [cbn; exact E|].
        intros [|i'] Hi'; [lia|]. cbn. apply IH. cbn in Hi'. lia.
      + apply Z.eqb_neq in E. intros [|i'] Hi'; cbn; [exact E|apply IH; cbn in Hi'; lia].
  Qed.

  (* a fully defined stretch of a stream is read completely *)
  Lemma window_full v s n :
    (forall j, s <= j < s + Z.of_nat n -> v j <> None) ->
    length (window v s n) = n /\ forall i, (i < n)%nat -> Some (nth i (window v s n) 0) = v (s + Z.of_nat i).
  Proof.
    revert s. induction n; intros s H; cbn [window]; [split; [reflexivity|intros; lia]|].
    destruct (v s) as [x|] eqn:E; [|exfalso; apply (H s); [lia|exact E]].
    destruct (IHn (s + 1)) as [Hl Hn]. { intros j Hj. apply H. lia. }
    split; [cbn; lia|]. intros [|i] Hi; cbn.
    - rewrite Z.add_0_r. congruence.
    - rewrite Hn by lia. f_equal. lia.
  Qed.

  Lemma lb_loop_spec vcnt :
    0 < CH ->
    forall fuel cs, 0 <= cs -> (Z.to_nat cs <= fuel)%nat ->
    (forall j, 0 <= j < cs -> vcnt j <> None) ->
    match lb_loop fuel vcnt 0 cs with
    | Some j => 0 <= j < cs /\ is_c (vcnt j) = true /\ forall j', j < j' < cs -> is_c (vcnt j') = false
    | None => forall j', 0 <= j' < cs -> is_c (vcnt j') = false
    end.
  Proof.
    intros HCH. induction fuel as [|fuel IH]; intros cs Hcs Hfu Hdef; cbn [lb_loop].
    { intros; lia. }
    destruct (cs <=? 0) eqn:E; [apply Z.leb_le in E; intros; lia|]. apply Z.leb_gt in E.
    rewrite Z.sub_0_r. set (size := Z.min cs CH). set (c1 := cs - size).
    assert (Hsz : 0 < size <= cs) by (unfold size; lia).
    destruct (window_full vcnt c1 (Z.to_nat size)) as [Hlen Hnth].
    { intros j Hj. apply Hdef. unfold c1 in *. lia. }
    pose proof (find_last_spec (window vcnt c1 (Z.to_nat size))) as Hfl.
    assert (Hisc : forall i, (i < Z.to_nat size)%nat ->
              is_c (vcnt (c1 + Z.of_nat i)) = (nth i (window vcnt c1 (Z.to_nat size)) 0 =? cval)).
    { intros i Hi. rewrite <- (Hnth i Hi). reflexivity. }
    destruct (find_last (window vcnt c1 (Z.to_nat size))) as [i|].
    - destruct Hfl as (Hi & Hn & Hafter). rewrite Hlen in Hi, Hafter.
      split; [unfold c1; lia|]. split.
      + rewrite Hisc by lia. apply Z.eqb_eq. exact Hn.
      + intros j' Hj'. replace j' with (c1 + Z.of_nat (Z.to_nat (j' - c1))) by lia.
        rewrite Hisc by (unfold c1 in *; lia). apply Z.eqb_neq. apply Hafter. unfold c1 in *. lia.
    - rewrite Hlen in Hfl.
      specialize (IH c1 ltac:(unfold c1; lia) ltac:(unfold c1; lia)).
      assert (Hdef' : forall j, 0 <= j < c1 -> vcnt j <> None) by (intros; apply Hdef; unfold c1 in *; lia).
      specialize (IH Hdef').
      assert (Hchunk : forall j', c1 <= j' < cs -> is_c (vcnt j') = false).
      { intros j' Hj'. replace j' with (c1 + Z.of_nat (Z.to_nat (j' - c1))) by lia.
        rewrite Hisc by (unfold c1 in *; lia). apply Z.eqb_neq. apply Hfl. unfold c1 in *. lia. }
      destruct (lb_loop fuel vcnt 0 c1) as [j|].
      + destruct IH as (Hj & Hc & Hafter). split; [unfold c1 in *; lia|]. split; [exact Hc|].
        intros j' Hj'. destruct (Z_lt_ge_dec j' c1); [apply Hafter; lia|apply Hchunk; lia].
      + intros j' Hj'. destruct (Z_lt_ge_dec j' c1); [apply IH; lia|apply Hchunk; lia].
  Qed.

  Lemma carry_from_last vin vcnt rt : forall m,
    (forall j, (j < m)%nat -> is_c (vcnt (Z.of_nat j)) = false) -> carry vin vcnt rt m = pad rt.
  Proof. induction m; intros H; cbn [carry]; [reflexivity|]. rewrite H by lia. apply IHm. intros; apply H; lia. Qed.

  Lemma carry_found vin vcnt rt j : forall m,
    (j < m)%nat -> is_c (vcnt (Z.of_nat j)) = true ->
    (forall j', (j < j' < m)%nat -> is_c (vcnt (Z.of_nat j')) = false) ->
    carry vin vcnt rt m = match vin (Z.of_nat j) with Some x => x | None => pad rt end.
  Proof.
    induction m; intros Hj Hc Hafter; [lia|]. cbn [carry].
    destruct (Nat.eq_dec j m) as [->|Hne]; [rewrite Hc; reflexivity|].
    rewrite Hafter by lia. apply IHm; [lia|exact Hc|]. intros; apply Hafter; lia.
  Qed.

  Definition CacheInv (ca : cache) (vin vcnt : stream) : Prop :=
    match ca with
    | Some (t, smp, dd) => 0 <= smp /\ dd = carry vin vcnt t (Z.to_nat smp)
    | None => True
    end.

  (* a read with look-back over the whole field returns the window of the specification, whatever
     the cache holds (as long as it is valid), and leaves a valid cache *)
  Theorem mplex_read_spec cycle ca vin vcnt rt first n :
    0 < CH -> down vcnt -> CacheInv ca vin vcnt -> 0 <= first ->
    snd (mplex_read (-1) cycle ca vin vcnt rt first n) = window (mplex_val vin vcnt rt) first (Z.to_nat n) /\
    CacheInv (fst (mplex_read (-1) cycle ca vin vcnt rt first n)) vin vcnt.
  Proof.
    intros HCH Hdown Hinv Hf. unfold mplex_read.
    pose proof (mplex_data_window vin vcnt rt (Z.to_nat n) first Hf) as Hmd.
    set (l1 := window vin first (Z.to_nat n)) in *.
    destruct l1 as [|x l1'] eqn:El1.
    { cbn [fst snd]. split; [|exact Hinv]. cbn in Hmd. exact Hmd. }
    set (l2 := window vcnt first (length (x :: l1'))) in *.
    destruct l2 as [|c0 l2'] eqn:El2.
    { cbn [fst snd]. split; [|exact Hinv]. cbn in Hmd. exact Hmd. }
    (* whichever way the start value is found, the data equal those computed from `carry` *)
    assert (Hvc : vcnt first = Some c0).
    { unfold l2 in El2. cbn [length window] in El2. destruct (vcnt first); [inversion El2; reflexivity|discriminate]. }
    assert (Hdata : mplex_data (x :: l1') (c0 :: l2') (start_of (-1) cycle ca vin vcnt rt first c0) =
                    mplex_data (x :: l1') (c0 :: l2') (carry vin vcnt rt (Z.to_nat first))).
    { destruct (c0 =? cval) eqn:Ec0; [apply mplex_data_head; apply Z.eqb_eq; exact Ec0|].
      f_equal. unfold start_of. rewrite Ec0.
      assert (Hlook : (if negb false && negb (-1 =? 0)
                       then match lb_loop (Datatypes.S (Z.to_nat first)) vcnt (if -1 =? -1 then 0 else Z.max 0 (first - -1 * cycle)) first with
                            | Some j => match window vin j 1 with x0 :: _ => x0 | [] => pad rt end
                            | None => pad rt end
                       else pad rt) = carry vin vcnt rt (Z.to_nat first)).
      { change (-1 =? 0) with false. change (-1 =? -1) with true. cbn [negb andb].
        pose proof (lb_loop_spec vcnt HCH (Datatypes.S (Z.to_nat first)) first Hf ltac:(lia)) as Hlb.
        specialize (Hlb ltac:(intros j Hj; apply (Hdown first j); [lia|congruence])).
        destruct (lb_loop (Datatypes.S (Z.to_nat first)) vcnt 0 first) as [j|].
        - destruct Hlb as (Hj & Hc & Hafter).
          rewrite (carry_found vin vcnt rt (Z.to_nat j) (Z.to_nat first)); [|lia|rewrite Z2Nat.id by lia; exact Hc|].
          + rewrite Z2Nat.id by lia. cbn [window]. destruct (vin j); reflexivity.
          + intros j' Hj'. apply Hafter. lia.
        - symmetry. apply carry_from_last. intros j' Hj'. apply Hlb. lia. }
      destruct ca as [[[t smp] dd]|]; [|exact Hlook].
      destruct ((t =? rt) && (smp =? first)) eqn:Eh; [|exact Hlook].
      apply andb_true_iff in Eh. destruct Eh as [E1 E2]. apply Z.eqb_eq in E1, E2. subst.
      destruct Hinv as [_ Hd]. exact Hd. }
    rewrite Hdata. rewrite Hmd.
    cbn [fst snd]. split; [reflexivity|].
    set (w := window (mplex_val vin vcnt rt) first (Z.to_nat n)) in *.
    destruct w as [|y w'] eqn:Ew; [exact Hinv|].
    replace (0 <=? first) with true by (symmetry; apply Z.leb_le; exact Hf).
    cbn [CacheInv]. split; [pose proof (len_nonneg (y :: w')); lia|].
    rewrite <- Ew. apply window_last_carry; [exact Hf|]. fold w. rewrite Ew. discriminate.
  Qed.

  (* ---------------------------------------------------------------- histories with gd_putdata *)
  Inductive event :=
  | ERead (rt first n : Z)
  | EPut (vin' vcnt' : stream).       (* gd_putdata changed the inputs to these contents *)

  Definition mstate : Type := cache * stream * stream.

  Definition mstep (invalidate : bool) (cycle : Z) (st : mstate) (e : event) : mstate * list Z :=
    let '(ca, vin, vcnt) := st in
    match e with
    | ERead rt first n => let '(ca', l) := mplex_read (-1) cycle ca vin vcnt rt first n in ((ca', vin, vcnt), l)
    | EPut vin' vcnt' => ((if invalidate then None else ca, vin', vcnt'), [])
    end.

  Definition mrun invalidate cycle (st : mstate) (h : list event) : mstate :=
    fold_left (fun s e => fst (mstep invalidate cycle s e)) h st.

  Definition MInv (st : mstate) : Prop :=
    let '(ca, vin, vcnt) := st in CacheInv ca vin vcnt /\ down vcnt.

  Definition good_event (e : event) : Prop :=
    match e with ERead _ first _ => 0 <= first | EPut _ vcnt' => down vcnt' end.

  Lemma mstep_inv cycle st e : 0 < CH -> MInv st -> good_event e -> MInv (fst (mstep true cycle st e)).
  Proof.
    intros HCH. destruct st as [[ca vin] vcnt]. intros [Hc Hd] Hg. destruct e as [rt first n|vin' vcnt']; cbn [mstep].
    - destruct (mplex_read_spec cycle ca vin vcnt rt first n HCH Hd Hc Hg) as [_ Hc'].
      destruct (mplex_read (-1) cycle ca vin vcnt rt first n) as [ca' l]. cbn [fst] in *. split; assumption.
    - cbn [fst]. split; [exact I|exact Hg].
  Qed.

  (* after ANY history of reads (any windows, any return types) and writes, a read returns exactly
     the window of the CURRENT contents *)
  Theorem mplex_history_independent cycle h st rt first n :
    0 < CH -> MInv st -> Forall good_event h -> 0 <= first ->
    let '(ca, vin, vcnt) := mrun true cycle st h in
    snd (mplex_read (-1) cycle ca vin vcnt rt first n) = window (mplex_val vin vcnt rt) first (Z.to_nat n).
  Proof.
    intros HCH. revert st. induction h as [|e h IH]; intros st Hinv Hg Hf; cbn [mrun fold_left].
    - destruct st as [[ca vin] vcnt]. destruct Hinv as [Hc Hd].
      apply (mplex_read_spec cycle ca vin vcnt rt first n HCH Hd Hc Hf).
    - inversion Hg; subst. apply IH; [apply mstep_inv; assumption|assumption|exact Hf].
  Qed.
End Mplex.

(* contents given by a list (samples 0..), for the computed witnesses *)
Definition of_list (l : list Z) : Z -> option Z :=
  fun k => if k <? 0 then Some 0 else nth_error l (Z.to_nat k).

Lemma of_list_down l : down (of_list l).
Proof.
  intros k j Hj Hk. unfold of_list in *.
  replace (j <? 0) with false by (symmetry; apply Z.ltb_ge; lia).
  replace (k <? 0) with false in Hk by (symmetry; apply Z.ltb_ge; lia).
  apply nth_error_Some. apply nth_error_Some in Hk. lia.
Qed.

(* witnesses: a = 0..39, index = k mod 4, MPLEX(a, index, count_val 2); read [10,19), then
   gd_putdata a[18] := 200, then read [19,22).  Without the invalidation of dc2eda2 the second read
   starts from the stale cached 18. *)
Definition w_in0 : list Z := map Z.of_nat (seq 0 40).
Definition w_cnt : list Z := map (fun k => Z.of_nat (k mod 4)) (seq 0 40).
Definition w_in1 : list Z := firstn 18 w_in0 ++ [200] ++ skipn 19 w_in0.
Definition w_hist : list (event) := [ERead 1 10 9; EPut (of_list w_in1) (of_list w_cnt)].
Definition w_read (invalidate : bool) : list Z :=
  let '(ca, vin, vcnt) := mrun 2 64 (fun _ => 0) invalidate 10 (None, of_list w_in0, of_list w_cnt) w_hist in
  snd (mplex_read 2 64 (fun _ => 0) (-1) 10 ca vin vcnt 1 19 3).

Lemma putdata_cache_witness :
  w_read false = [18; 18; 18] /\ w_read true = [200; 200; 200] /\
  window (mplex_val 2 (fun _ => 0) (of_list w_in1) (of_list w_cnt) 1) 19 3 = [200; 200; 200].
Proof. repeat split; vm_compute; reflexivity. Qed.

(* a read in another return type does not use the cached datum (the key includes the type) *)
Lemma type_key_witness :
  let '(ca, vin, vcnt) := mrun 2 64 (fun t => t * 1000) true 10 (None, of_list w_in0, of_list w_cnt) [ERead 1 0 1] in
  ca = Some (1, 1, 1000) /\
  snd (mplex_read 2 64 (fun t => t * 1000) (-1) 10 ca vin vcnt 7 1 2) = [7000; 2] /\
  snd (mplex_read 2 64 (fun t => t * 1000) (-1) 10 ca vin vcnt 1 1 2) = [1000; 2].
Proof. vm_compute. repeat split; reflexivity. Qed.

Lemma mplex_hyps_ok : MInv 2 (fun _ => 0) (None, of_list w_in0, of_list w_cnt) /\ Forall good_event w_hist.
Proof.
  split; [split; [exact I|apply of_list_down]|].
  repeat constructor; cbn; try lia. apply of_list_down.
Qed.
