(* C02 -- executable model of the per-handle read state of GetData.

   What is modelled (anchors in /repo/src):
   - codec cursors over the decoded byte stream S of one RAW file:
       raw / gzip  (raw.c:56-104, gzip.c:80-135)   : file->pos and the OS (gz) byte offset
       bzip2       (bzip.c:138-195, 224-287)       : file->pos and the window (base,pos,end,stream_end,data)
       text        (ascii.c:56-82, 140-200)        : file->pos and the line the stream is really at
   - the field layer for RAW, PHASE, LINCOM(1 input), BIT, MULTIPLY:
       _GD_DoRaw (getdata.c:220-292), _GD_DoField (getdata.c:1751-1906) incl. GD_HERE and the
       recursion counter, _GD_GetIOPos (iopos.c:23-111), _GD_Seek (iopos.c:261-342),
       gd_seek64 / gd_tell64, _GD_Flush (flush.c:40-111), LRU auto-close (globals.c:280-372) as
       an environment event.
   - the places where the pinned tree misbehaves are kept *as they are*; each has a
     configuration flag (cfg) that a translator sets from the source text, so that the
     same model follows a repaired tree.

   Everything is a total function on Z / list; `None` results mean "the C code reads memory it
   does not own / uninitialised data" (undefined behaviour). *)
From Coq Require Import ZArith List Bool Lia.
Import ListNotations.
Local Open Scope Z_scope.

(* ------------------------------------------------------------------ bytes *)
Definition len {A} (l : list A) : Z := Z.of_nat (length l).
Definition slice {A} (l : list A) (a n : Z) : list A :=
  firstn (Z.to_nat n) (skipn (Z.to_nat a) l).

Fixpoint le_dec (bs : list Z) : Z :=
  match bs with [] => 0 | b :: r => b + 256 * le_dec r end.
Definition sample_val (sgn : bool) (size : Z) (bs : list Z) : Z :=
  let u := le_dec bs in
  if sgn && (2 ^ (8 * size - 1) <=? u) then u - 2 ^ (8 * size) else u.

(* ------------------------------------------------------------------ configuration *)
(* which of the known defect sites are repaired in the tree being checked
   (set by translate/tr_c02cfg.py from the source text; all false on the pinned tree) *)
Record cfg := {
  fix_bz_rewind : bool;    (* _GD_Bzip2Seek restarts the stream for a target before the window *)
  fix_bz_eof : bool;       (* _GD_Bzip2Read: file->pos updated and whole samples counted on the EOF paths *)
  fix_here : bool;         (* GD_HERE is resolved by gd_getdata64 only, not by inner _GD_DoField calls *)
  fix_text_pseudo : bool;  (* _GD_AsciiSeek rewinds when file->pos is a (negative) pseudo position *)
  fix_leak : bool;         (* D->recurse_level-- on the GD_E_RANGE paths of _GD_DoField / _GD_Seek *)
  fix_negseek : bool;      (* _GD_DoRaw does not seek to a negative sample after an all-padding read *)
  fix_phase_sign : bool;   (* _GD_GetIOPos subtracts / _GD_Seek adds the PHASE shift (as reads do) *)
  fix_bz_err : bool        (* _GD_Bzip2Read/_GD_Bzip2Seek restart the stream after a decoder error *)
}.

Inductive enc := ERaw | EBz | ETxt.

Record rawdef := {
  rd_enc : enc;
  rd_size : Z;          (* bytes per sample *)
  rd_sgn : bool;
  rd_bytes : list Z;    (* decoded byte stream S (may end in a partial sample) *)
  rd_foff : Z           (* frame offset x spf, in samples *)
}.

Definition nsamp (rd : rawdef) : Z := len (rd_bytes rd) / rd_size rd.

(* ------------------------------------------------------------------ cursor state of one RAW file *)
Record rawst := {
  r_open : bool;
  r_fpos : Z;        (* file->pos *)
  r_off : Z;         (* raw/gzip: descriptor byte offset;  text: line the stream is at *)
  b_base : Z; b_pos : Z; b_end : Z; b_send : bool; b_data : list Z   (* bzip2 window *)
}.

Definition st_closed : rawst :=
  {| r_open := false; r_fpos := 0; r_off := 0; b_base := 0; b_pos := 0; b_end := 0; b_send := false; b_data := [] |}.
Definition st_opened : rawst :=
  {| r_open := true; r_fpos := 0; r_off := 0; b_base := 0; b_pos := 0; b_end := 0; b_send := false; b_data := [] |}.

Definition set_fpos (st : rawst) (p : Z) : rawst :=
  {| r_open := r_open st; r_fpos := p; r_off := r_off st; b_base := b_base st; b_pos := b_pos st;
     b_end := b_end st; b_send := b_send st; b_data := b_data st |}.
Definition set_off (st : rawst) (fp o : Z) : rawst :=
  {| r_open := r_open st; r_fpos := fp; r_off := o; b_base := b_base st; b_pos := b_pos st;
     b_end := b_end st; b_send := b_send st; b_data := b_data st |}.
Definition set_bpos (st : rawst) (p : Z) : rawst :=
  {| r_open := r_open st; r_fpos := r_fpos st; r_off := r_off st; b_base := b_base st; b_pos := p;
     b_end := b_end st; b_send := b_send st; b_data := b_data st |}.
Definition set_win (st : rawst) (base pos e : Z) (se : bool) (d : list Z) : rawst :=
  {| r_open := r_open st; r_fpos := r_fpos st; r_off := r_off st; b_base := base; b_pos := pos;
     b_end := e; b_send := se; b_data := d |}.

(* ------------------------------------------------------------------ raw / gzip  (raw.c) *)
Definition raw_seek (size : Z) (st : rawst) (count : Z) : rawst * Z :=
  if r_fpos st =? count then (st, count)                 (* short circuit, raw.c:63 *)
  else (set_off st count (count * size), count).         (* lseek; count*size is sample aligned *)

(* returns the bytes delivered and the sample count *)
Definition raw_read (S : list Z) (size : Z) (st : rawst) (nmemb : Z) : rawst * list Z * Z :=
  let got := slice S (r_off st) (nmemb * size) in
  let n := len got / size in
  (* raw.c:95-99: the descriptor steps back over a partly present trailing sample *)
  (set_off st (r_fpos st + n) (r_off st + n * size), got, n).

(* ------------------------------------------------------------------ text (ascii.c) *)
Definition txt_seek (c : cfg) (ns : Z) (st : rawst) (count : Z) : rawst * Z :=
  let st := if (count <? r_fpos st) || (fix_text_pseudo c && (r_fpos st <? 0))
            then set_off st 0 0 else st in      (* rewind *)
  let k := Z.max 0 (Z.min (count - r_fpos st) (ns - r_off st)) in
  (set_off st (r_fpos st + k) (r_off st + k), r_fpos st + k).

Definition txt_read (S : list Z) (size : Z) (ns : Z) (st : rawst) (nmemb : Z) : rawst * list Z * Z :=
  let n := Z.max 0 (Z.min nmemb (ns - r_off st)) in
  (set_off st (r_fpos st + n) (r_off st + n), slice S (r_off st * size) (n * size), n).

(* ------------------------------------------------------------------ bzip2 window (bzip.c) *)
Section Bz.
  Variable BUF : Z.
  (* libbz2: BZ2_bzRead after `consumed` decoded bytes: number of bytes delivered into the
     buffer (<= BUF) and whether BZ_STREAM_END was reported *)
  Variable dec : list Z -> Z -> Z * bool.

  Definition take_data (st : rawst) (p n : Z) : option (list Z) :=
    if (0 <=? p) && (0 <=? n) && (p + n <=? len (b_data st)) then Some (slice (b_data st) p n) else None.

  (* a decoder error (BZ_DATA_ERROR, BZ_UNEXPECTED_EOF, ..) is encoded as a negative count -(k+1):
     the failing BZ2_bzRead wrote k decoded bytes into the buffer before it noticed *)
  Definition dec_err (r : Z * bool) : bool := fst r <? 0.
  Definition overwrite (data new : list Z) : list Z := new ++ skipn (length new) data.

  (* the state the error returns of _GD_Bzip2Read / _GD_Bzip2Seek leave behind (bzip.c).  Before 3ea47ff
     nothing was tidied up: base/pos/end/file->pos stayed as they were, over a partly overwritten buffer.
     Since 3ea47ff (flag fix_bz_err): `ptr->base += ptr->end; ptr->pos = ptr->end = 0;
     file->pos = ptr->base / GD_SIZE(data_type)` -- the window is emptied at the decoder's position
     (the bytes left in the buffer are never looked at again: b_data := []) *)
  Definition bz_fail (c : cfg) (size : Z) (S : list Z) (st : rawst) : rawst :=
    if fix_bz_err c then
      set_fpos (set_win st (b_base st + b_end st) 0 0 (b_send st) []) ((b_base st + b_end st) / size)
    else
      let k := - (fst (dec S (b_base st + b_end st)) + 1) in
      set_win st (b_base st) (b_pos st) (b_end st) (b_send st)
              (overwrite (b_data st) (slice S (b_base st + b_end st) k)).

  Definition bz_load (S : list Z) (st : rawst) (pos : Z) : rawst * bool :=
    let base' := b_base st + b_end st in
    let '(n, fin) := dec S base' in
    (set_win st base' pos n (fin || b_send st) (slice S base' n), fin).

  (* the while loop of _GD_Bzip2Read (bzip.c:147-179): result = (state, nbytes left, output, returned-early) *)
  Fixpoint bz_read_loop (c : cfg) (size : Z) (fuel : nat) (S : list Z) (st : rawst) (nbytes : Z) (out : list Z)
    : option (rawst * Z * list Z * bool) :=
    if nbytes >? b_end st - b_pos st then
      match fuel with
      | O => None
      | Datatypes.S fuel' =>
        match take_data st (b_pos st) (b_end st - b_pos st) with
        | None => None
        | Some d =>
          let out := out ++ d in
          let nbytes := nbytes - (b_end st - b_pos st) in
          let st := set_bpos st (b_end st) in
          if b_send st then Some (st, nbytes, out, true)
          else if dec_err (dec S (b_base st + b_end st)) then
            Some (bz_fail c size S st, -1, out, true)   (* bzip.c: return -1 *)
          else
            let '(st, fin) := bz_load S st 0 in
            if fin then Some (st, nbytes, out, false)
            else bz_read_loop c size fuel' S st nbytes out
        end
      end
    else Some (st, nbytes, out, false).

  Definition bz_fuel (S : list Z) : nat := Datatypes.S (Datatypes.S (length S)).

  Definition bz_count (c : cfg) (size nmemb nbytes : Z) : Z :=
    if fix_bz_eof c then (nmemb * size - nbytes) / size else nmemb - nbytes / size.

  Definition bz_read (c : cfg) (S : list Z) (size : Z) (st : rawst) (nmemb : Z)
    : option (rawst * list Z * Z) :=
    match bz_read_loop c size (bz_fuel S) S st (nmemb * size) [] with
    | None => None
    | Some (st, nbytes, out, true) =>
        if nbytes <? 0 then Some (st, [], -1) else      (* decoder error *)
        (* bzip.c:155-158: returns without touching file->pos *)
        let st := if fix_bz_eof c then set_fpos st ((b_base st + b_pos st) / size) else st in
        Some (st, out, bz_count c size nmemb nbytes)
    | Some (st, nbytes, out, false) =>
        if nbytes >? b_end st - b_pos st then
          match take_data st (b_pos st) (b_end st - b_pos st) with
          | None => None
          | Some d =>
            let nbytes := nbytes - b_end st in
            let st := set_bpos st (b_end st) in
            let st := set_fpos st ((b_base st + b_pos st) / size) in
            Some (st, out ++ d, bz_count c size nmemb nbytes)
          end
        else
          match take_data st (b_pos st) nbytes with
          | None => None
          | Some d =>
            let st := set_bpos st (b_pos st + nbytes) in
            let st := set_fpos st ((b_base st + b_pos st) / size) in
            Some (st, out ++ d, bz_count c size nmemb 0)
          end
    end.

  (* the forward loop of _GD_Bzip2Seek (bzip.c:256-277); pos is not touched in the loop *)
  Fixpoint bz_seek_loop (c : cfg) (size : Z) (fuel : nat) (S : list Z) (st : rawst) (off : Z) : option (rawst * bool) :=
    if b_base st + b_end st <? off then
      if b_send st then Some (st, false)
      else match fuel with
           | O => None
           | Datatypes.S fuel' =>
               if dec_err (dec S (b_base st + b_end st)) then Some (bz_fail c size S st, true)   (* bzip.c: return -1 *)
               else bz_seek_loop c size fuel' S (fst (bz_load S st (b_pos st))) off
           end
    else Some (st, false).

  Definition bz_seek (c : cfg) (S : list Z) (size : Z) (st : rawst) (offset : Z) : option (rawst * Z) :=
    if r_fpos st =? offset then Some (st, offset)            (* bzip.c:234 *)
    else
      let off := offset * size in
      let st := if fix_bz_rewind c && (off <? b_base st) then set_win st 0 0 0 false [] else st in
      match bz_seek_loop c size (bz_fuel S) S st off with
      | None => None
      | Some (st, true) => Some (st, -1)
      | Some (st, false) =>
        let p := if b_send st && (b_base st + b_end st <=? off) then b_end st else off - b_base st in
        let st := set_bpos st p in
        let fp := (b_base st + b_pos st) / size in
        Some (set_fpos st fp, fp)
      end.

  (* ---------------------------------------------------------------- encoding dispatch *)
  Definition enc_seek (c : cfg) (rd : rawdef) (st : rawst) (count : Z) : option (rawst * Z) :=
    match rd_enc rd with
    | ERaw => Some (raw_seek (rd_size rd) st count)
    | ETxt => Some (txt_seek c (nsamp rd) st count)
    | EBz => bz_seek c (rd_bytes rd) (rd_size rd) st count
    end.

  Definition enc_read (c : cfg) (rd : rawdef) (st : rawst) (nmemb : Z) : option (rawst * list Z * Z) :=
    match rd_enc rd with
    | ERaw => Some (raw_read (rd_bytes rd) (rd_size rd) st nmemb)
    | ETxt => Some (txt_read (rd_bytes rd) (rd_size rd) (nsamp rd) st nmemb)
    | EBz => bz_read c (rd_bytes rd) (rd_size rd) st nmemb
    end.

  (* ---------------------------------------------------------------- field layer *)
  Inductive fdef :=
  | FRaw (r : nat)
  | FPhase (i : nat) (shift : Z)
  | FLincom (i : nat) (m b : Z)
  | FBit (i : nat) (bitnum numbits : Z)
  | FMult (a b : nat).

  Record db := { d_cfg : cfg; d_raws : list rawdef; d_fields : list fdef }.

  Record state := { s_raws : list rawst; s_level : Z }.

  Definition rd_dummy : rawdef := {| rd_enc := ERaw; rd_size := 1; rd_sgn := false; rd_bytes := []; rd_foff := 0 |}.
  Definition get_rd (d : db) (r : nat) : rawdef := nth r (d_raws d) rd_dummy.
  Definition get_rs (s : state) (r : nat) : rawst := nth r (s_raws s) st_closed.
  Fixpoint upd {A} (l : list A) (k : nat) (x : A) : list A :=
    match l, k with
    | [], _ => []
    | _ :: t, O => x :: t
    | h :: t, Datatypes.S k' => h :: upd t k' x
    end.
  Definition set_rs (s : state) (r : nat) (x : rawst) : state :=
    {| s_raws := upd (s_raws s) r x; s_level := s_level s |}.
  Definition set_level (s : state) (l : Z) : state := {| s_raws := s_raws s; s_level := l |}.

  Definition init (d : db) : state := {| s_raws := map (fun _ => st_closed) (d_raws d); s_level := 0 |}.

  (* error codes (getdata.h) *)
  Definition E_IO := -5.  Definition E_INTERNAL := -6.  Definition E_RANGE := -8.
  Definition E_RECURSE := -10.  Definition E_DOMAIN := -28.
  Definition MAXREC := 32.
  Definition INT64_MAX := 9223372036854775807.

  (* outcome of an internal function: value, library error, or undefined behaviour *)
  Inductive out (A : Type) := Val (a : A) | Err (e : Z) | UB.
  Arguments Val {A}. Arguments Err {A}. Arguments UB {A}.

  (* _GD_InitRawIO for reading: open if closed *)
  Definition open_raw (s : state) (r : nat) : state :=
    if r_open (get_rs s r) then s else set_rs s r st_opened.

  (* _GD_GetIOPos (iopos.c:23-111) *)
  Fixpoint get_iopos (fuel : nat) (d : db) (s : state) (f : nat) : state * out Z :=
    match fuel with
    | O => (s, Err E_INTERNAL)
    | Datatypes.S fuel' =>
      if s_level s + 1 >=? MAXREC then (s, Err E_RECURSE)
      else
        let s := set_level s (s_level s + 1) in
        let '(s, o) :=
          match nth_error (d_fields d) f with
          | None => (s, Err E_INTERNAL)
          | Some (FRaw r) =>
              let s := open_raw s r in
              (s, Val (r_fpos (get_rs s r) + rd_foff (get_rd d r)))
          | Some (FPhase i sh) =>
              let '(s, o) := get_iopos fuel' d s i in
              (s, match o with
                  | Val p => Val (if fix_phase_sign (d_cfg d) then p - sh
                                  else if p >=? 0 then p + sh else p)
                  | x => x end)
          | Some (FLincom i _ _) | Some (FBit i _ _) => get_iopos fuel' d s i
          | Some (FMult a b) =>
              let '(s, o1) := get_iopos fuel' d s a in
              match o1 with
              | Val p1 =>
                let '(s, o2) := get_iopos fuel' d s b in
                (s, match o2 with Val p2 => if p1 =? p2 then Val p1 else Err E_DOMAIN | x => x end)
              | x => (s, x)
              end
          end in
        (set_level s (s_level s - 1), o)
    end.

  (* _GD_Seek (iopos.c:261-342), read mode.  Val tt = D->error stayed 0 *)
  Fixpoint seek_field (fuel : nat) (d : db) (s : state) (f : nat) (offset : Z) : state * out unit :=
    match fuel with
    | O => (s, Err E_INTERNAL)
    | Datatypes.S fuel' =>
      if s_level s + 1 >=? MAXREC then (s, Err E_RECURSE)
      else
        let s := set_level s (s_level s + 1) in
        if offset <? 0 then
          (* iopos.c:280-281 returns without decrementing *)
          (if fix_leak (d_cfg d) then set_level s (s_level s - 1) else s, Err E_RANGE)
        else
        let '(s, o) :=
          match nth_error (d_fields d) f with
          | None => (s, Err E_INTERNAL)
          | Some (FRaw r) =>
              let rd := get_rd d r in
              let s := open_raw s r in
              if rd_foff rd >? offset then
                (set_rs s r (set_fpos (get_rs s r) (offset - rd_foff rd)), Val tt)
              else
                match enc_seek (d_cfg d) rd (get_rs s r) (offset - rd_foff rd) with
                | None => (s, UB)
                | Some (st, p) =>
                    (* _GD_DoSeek (iopos.c:247): a negative codec result is an I/O error *)
                    (set_rs s r st, if p <? 0 then Err E_IO else Val tt)
                end
          | Some (FPhase i sh) =>
              seek_field fuel' d s i (if fix_phase_sign (d_cfg d) then offset + sh else offset - sh)
          | Some (FLincom i _ _) | Some (FBit i _ _) => seek_field fuel' d s i offset
          | Some (FMult a b) =>
              let '(s, o2) := seek_field fuel' d s b offset in
              match o2 with
              | Val _ => seek_field fuel' d s a offset
              | x => (s, x)
              end
          end in
        (set_level s (s_level s - 1), o)
    end.

  Definition bytes_to_vals (rd : rawdef) (bs : list Z) (n : Z) : list Z :=
    map (fun k => sample_val (rd_sgn rd) (rd_size rd) (slice bs (Z.of_nat k * rd_size rd) (rd_size rd)))
        (seq 0 (Z.to_nat n)).

  Definition zeros (n : Z) : list Z := repeat 0 (Z.to_nat n).

  (* _GD_DoRaw (getdata.c:220-292); rfield = index of the RAW field itself (for _GD_Seek) *)
  Definition do_raw (fuel : nat) (d : db) (s : state) (f r : nat) (s0 ns : Z) : state * out (list Z) :=
    if ns <=? 0 then (s, Val [])
    else
      let rd := get_rd d r in
      let zero_pad := if s0 <? rd_foff rd then rd_foff rd - s0 else 0 in
      let zeroed := if zero_pad >? 0 then Z.min ns zero_pad else 0 in
      let ns' := ns - zeroed in
      let s0' := s0 + zeroed in
      let '(s, o) :=
        if ((ns' >? 0) || (zero_pad >? 0)) && negb (fix_negseek (d_cfg d) && (s0' <? 0))
        then seek_field fuel d s f s0' else (s, Val tt) in
      match o with
      | Err e => (s, Err e)
      | UB => (s, UB)
      | Val _ =>
        if ns' >? 0 then
          match enc_read (d_cfg d) rd (get_rs s r) ns' with
          | None => (s, UB)
          | Some (st, bs, n) =>
              if n <? 0 then (set_rs s r st, Err E_IO)
              else if n * rd_size rd >? len bs then (set_rs s r st, UB)   (* samples never written to the buffer *)
              else (set_rs s r st, Val (zeros zeroed ++ bytes_to_vals rd bs n))
          end
        else (s, Val (zeros zeroed))
      end.

  Definition bit_extract (x bitnum numbits : Z) : Z :=
    Z.land (Z.shiftr (x mod 2 ^ 64) bitnum) (2 ^ numbits - 1).

  Fixpoint zipmul (a b : list Z) : list Z :=
    match a, b with x :: a', y :: b' => x * y :: zipmul a' b' | _, _ => [] end.

  (* _GD_DoField (getdata.c:1751-1906).  here_ok: may first = -1 be read as GD_HERE *)
  Fixpoint do_field (fuel : nat) (d : db) (s : state) (f : nat) (here_ok : bool) (first n : Z)
    : state * out (list Z) :=
    match fuel with
    | O => (s, Err E_INTERNAL)
    | Datatypes.S fuel' =>
      if s_level s + 1 >=? MAXREC then (s, Err E_RECURSE)
      else
        let s := set_level s (s_level s + 1) in
        let inner := negb (fix_here (d_cfg d)) in
        let '(s, ofirst) :=
          if here_ok && (first =? -1) then get_iopos fuel' d s f
          else (s, Val first) in
        match ofirst with
        | Err e => (set_level s (s_level s - 1), Err e)
        | UB => (s, UB)
        | Val first =>
          if first >? INT64_MAX - n then
            (* getdata.c:1804-1808 returns without decrementing *)
            (if fix_leak (d_cfg d) then set_level s (s_level s - 1) else s, Err E_RANGE)
          else
          let '(s, o) :=
            match nth_error (d_fields d) f with
            | None => (s, Err E_INTERNAL)
            | Some (FRaw r) => do_raw fuel' d s f r first n
            | Some (FPhase i sh) => do_field fuel' d s i inner (first + sh) n
            | Some (FLincom i m b) =>
                let '(s, o) := do_field fuel' d s i inner first n in
                (s, match o with Val l => Val (map (fun x => m * x + b) l) | x => x end)
            | Some (FBit i bn nb) =>
                let '(s, o) := do_field fuel' d s i inner first n in
                (s, match o with Val l => Val (map (fun x => bit_extract x bn nb) l) | x => x end)
            | Some (FMult a b) =>
                let '(s, o1) := do_field fuel' d s a inner first n in
                match o1 with
                | Val [] => (s, Val [])
                | Val l1 =>
                  let '(s, o2) := do_field fuel' d s b inner first (len l1) in
                  (s, match o2 with
                      | Val l2 => Val (zipmul l1 l2)   (* n_read2 = 0 returns nothing (getdata.c, cf7d300) *)
                      | x => x end)
                | x => (s, x)
                end
            end in
          (set_level s (s_level s - 1), o)
        end
    end.

  (* _GD_GetEOF (flimits.c:146-300) restricted to the modelled field types *)
  Fixpoint eof_field (fuel : nat) (d : db) (f : nat) : Z :=
    match fuel with
    | O => 0
    | Datatypes.S fuel' =>
      match nth_error (d_fields d) f with
      | None => 0
      | Some (FRaw r) => nsamp (get_rd d r) + rd_foff (get_rd d r)
      | Some (FPhase i sh) => eof_field fuel' d i - sh    (* not clamped inside the recursion (flimits.c, 5bcf63e) *)
      | Some (FLincom i _ _) | Some (FBit i _ _) => eof_field fuel' d i
      | Some (FMult a b) => Z.min (eof_field fuel' d a) (eof_field fuel' d b)
      end
    end.

  (* _GD_Flush(.., clo=1) (flush.c:40-111): close every RAW below f *)
  Fixpoint close_field (fuel : nat) (d : db) (s : state) (f : nat) : state :=
    match fuel with
    | O => s
    | Datatypes.S fuel' =>
      match nth_error (d_fields d) f with
      | None => s
      | Some (FRaw r) => if r_open (get_rs s r) then set_rs s r st_closed else s
      | Some (FPhase i _) | Some (FLincom i _ _) | Some (FBit i _ _) => close_field fuel' d s i
      | Some (FMult a b) => close_field fuel' d (close_field fuel' d s b) a
      end
    end.

  (* ---------------------------------------------------------------- public calls *)
  Inductive whence := WSet | WCur | WEnd.
  Inductive call :=
  | CGet (f : nat) (start : option Z) (n : Z)      (* gd_getdata64(f, 0, start | GD_HERE, 0, n) *)
  | CSeek (f : nat) (off : Z) (w : whence)         (* gd_seek64(f, 0, off, w) *)
  | CTell (f : nat)
  | CClose (f : option nat)                        (* gd_raw_close / gd_flush (field | all) *)
  | CAuto (r : nat)                                (* LRU auto-close of RAW r (gd_open_limit) *)
  | CLevel.                                        (* observe D->recurse_level *)

  Inductive result :=
  | RData (vals : list Z)
  | RPos (p : Z)
  | RErr (e : Z)
  | RDone
  | RUB.

  Definition FUEL (d : db) : nat := Datatypes.S (Datatypes.S (length (d_fields d))).

  Definition step (d : db) (s : state) (c : call) : state * result :=
    match c with
    | CGet f start n =>
        (* getdata.c:2003-2035: GD_HERE = -1; any other negative start is GD_E_RANGE *)
        let k := match start with Some k => k | None => -1 end in
        if k <? -1 then (s, RErr E_RANGE)
        else match do_field (FUEL d) d s f true k n with
             | (s, Val l) => (s, RData l)
             | (s, Err e) => (s, RErr e)
             | (s, UB) => (s, RUB)
             end
    | CSeek f off w =>
        let '(s, obase) :=
          match w with
          | WSet => (s, Val 0)
          | WCur => get_iopos (FUEL d) d s f
          | WEnd => (s, Val (Z.max 0 (eof_field (FUEL d) d f)))     (* iopos.c:403-406 *)
          end in
        match obase with
        | Err e => (s, RErr e)
        | UB => (s, RUB)
        | Val base =>
          match seek_field (FUEL d) d s f (off + base) with
          | (s, Err e) => (s, RErr e)
          | (s, UB) => (s, RUB)
          | (s, Val _) =>
            match get_iopos (FUEL d) d s f with
            | (s, Val p) => (s, RPos p)
            | (s, Err e) => (s, RErr e)
            | (s, UB) => (s, RUB)
            end
          end
        end
    | CTell f =>
        match get_iopos (FUEL d) d s f with
        | (s, Val p) => (s, RPos p)
        | (s, Err e) => (s, RErr e)
        | (s, UB) => (s, RUB)
        end
    | CClose (Some f) => (close_field (FUEL d) d s f, RDone)
    | CClose None =>
        ({| s_raws := map (fun st => if r_open st then st_closed else st) (s_raws s); s_level := s_level s |}, RDone)
    | CAuto r => (if r_open (get_rs s r) then set_rs s r st_closed else s, RDone)
    | CLevel => (s, RPos (s_level s))
    end.

  Definition run (d : db) (s : state) (h : list call) : state :=
    fold_left (fun s c => fst (step d s c)) h s.

  (* ---------------------------------------------------------------- specification: whole-field contents *)
  Definition raw_sample (rd : rawdef) (k : Z) : Z :=
    sample_val (rd_sgn rd) (rd_size rd) (slice (rd_bytes rd) (k * rd_size rd) (rd_size rd)).

  Definition raw_val (rd : rawdef) (k : Z) : option Z :=
    if k <? rd_foff rd then Some 0
    else if k - rd_foff rd <? nsamp rd then Some (raw_sample rd (k - rd_foff rd))
    else None.

  Fixpoint spec_val (fuel : nat) (d : db) (f : nat) (k : Z) : option Z :=
    match fuel with
    | O => None
    | Datatypes.S fuel' =>
      match nth_error (d_fields d) f with
      | None => None
      | Some (FRaw r) => raw_val (get_rd d r) k
      | Some (FPhase i sh) => spec_val fuel' d i (k + sh)
      | Some (FLincom i m b) => option_map (fun x => m * x + b) (spec_val fuel' d i k)
      | Some (FBit i bn nb) => option_map (fun x => bit_extract x bn nb) (spec_val fuel' d i k)
      | Some (FMult a b) =>
          match spec_val fuel' d a k, spec_val fuel' d b k with
          | Some x, Some y => Some (x * y)
          | _, _ => None
          end
      end
    end.

  (* values of samples s, s+1, ... up to n of them, stopping at the first undefined one *)
  Fixpoint window (v : Z -> option Z) (s : Z) (n : nat) : list Z :=
    match n with
    | O => []
    | Datatypes.S n' => match v s with Some x => x :: window v (s + 1) n' | None => [] end
    end.

  Definition spec_window (d : db) (f : nat) (s n : Z) : list Z :=
    window (spec_val (FUEL d) d f) s (Z.to_nat n).

End Bz.

Arguments Val {A}. Arguments Err {A}. Arguments UB {A}.

(* libbz2 as observed (BZ2_bzRead fills the buffer; BZ_STREAM_END is reported by the call that
   delivers the last byte, or by an empty call when the previous one ended exactly at the end).
   `eager` selects between the two; the correspondence check pins it down. *)
Definition dec_bz2 (BUF : Z) (eager : bool) (S : list Z) (consumed : Z) : Z * bool :=
  let rest := len S - consumed in
  if rest <? BUF then (Z.max 0 rest, true)
  else if (rest =? BUF) && eager then (BUF, true)
  else (BUF, false).

(* the same decoder over a stream whose stored CRC is wrong: every byte decodes, the call that would
   report the end of the stream fails instead, after writing its bytes into the buffer *)
Definition dec_bz2_crc (BUF : Z) (eager : bool) (S : list Z) (consumed : Z) : Z * bool :=
  let '(n, fin) := dec_bz2 BUF eager S consumed in
  if fin then (- (n + 1), false) else (n, fin).
