(* C02: the handle level.  For a tree with the six read-path repairs (`repaired`), every internal
   function keeps the recursion level and the coherence of all open cursors (Pres), and
   _GD_DoField returns exactly the window of the whole-field contents (do_field_spec).
   Proved for every decoder satisfying dec_ok, every buffer size, every well-formed field table. *)
From Coq Require Import ZArith List Bool Lia.
From GD Require Import C02.Model C02.Slices C02.CodecProofs C02.BzRead C02.HistoryProofs C02.Windows.
Import ListNotations.
Local Open Scope Z_scope.

Definition repaired (c : cfg) : Prop :=
  fix_bz_rewind c = true /\ fix_bz_eof c = true /\ fix_here c = true /\
  fix_text_pseudo c = true /\ fix_leak c = true /\ fix_negseek c = true.

Definition SHIFT_MAX : Z := 2 ^ 32.

Section Handle.
  Variable BUF : Z.
  Variable dec : list Z -> Z -> Z * bool.
  Hypothesis Hdec : forall S, dec_ok BUF dec S.
  Variable d : db.

  Definition wf_field (k : nat) (fd : fdef) : Prop :=
    match fd with
    | FRaw r => (r < length (d_raws d))%nat
    | FPhase i sh => (i < k)%nat /\ - SHIFT_MAX <= sh <= SHIFT_MAX
    | FLincom i _ _ | FBit i _ _ => (i < k)%nat
    | FMult a b => (a < k)%nat /\ (b < k)%nat
    end.

  Definition wf_db : Prop :=
    repaired (d_cfg d) /\
    (forall r, (r < length (d_raws d))%nat -> wf_rd (get_rd d r)) /\
    (forall k fd, nth_error (d_fields d) k = Some fd -> wf_field k fd) /\
    (length (d_fields d) <= 28)%nat.

  Hypothesis Hwf : wf_db.

  Let c := d_cfg d.

  Definition CohAll (s : state) : Prop :=
    length (s_raws s) = length (d_raws d) /\
    forall r, (r < length (d_raws d))%nat -> r_open (get_rs s r) = true -> Coh c (get_rd d r) (get_rs s r).

  Definition Pres (s s' : state) : Prop := s_level s' = s_level s /\ (CohAll s -> CohAll s').

  Lemma Pres_refl s : Pres s s.
  Proof. split; auto. Qed.
  Lemma Pres_trans s1 s2 s3 : Pres s1 s2 -> Pres s2 s3 -> Pres s1 s3.
  Proof. intros [A B] [C D]. split; [congruence|auto]. Qed.

  Lemma get_set_same s r x : (r < length (s_raws s))%nat -> get_rs (set_rs s r x) r = x.
  Proof. intros. unfold get_rs, set_rs. cbn. apply nth_upd_same. assumption. Qed.
  Lemma get_set_other s r j x : r <> j -> get_rs (set_rs s r x) j = get_rs s j.
  Proof. intros. unfold get_rs, set_rs. cbn. apply nth_upd_other. assumption. Qed.

  Lemma CohAll_level s l : CohAll (set_level s l) <-> CohAll s.
  Proof. unfold CohAll, get_rs. cbn. tauto. Qed.

  Lemma CohAll_set s r x :
    CohAll s -> (r_open x = true -> Coh c (get_rd d r) x) -> CohAll (set_rs s r x).
  Proof.
    intros [Hl Hc] Hx. split; [cbn; rewrite upd_length; exact Hl|].
    intros j Hj Ho. destruct (Nat.eq_dec r j) as [->|Hne].
    - rewrite get_set_same in * by lia. auto.
    - rewrite get_set_other in * by assumption. auto.
  Qed.

  Lemma At_Coh rd st p : At rd st p -> Coh c rd st.
  Proof.
    intros Hat. assert (Hf : r_fpos st = p) by apply Hat. split; [apply Hat|].
    destruct (rd_enc rd); right; rewrite Hf; exact Hat.
  Qed.

  Lemma open_raw_level s r : s_level (open_raw s r) = s_level s.
  Proof. unfold open_raw. destruct (r_open (get_rs s r)); reflexivity. Qed.

  Lemma open_raw_coh s r :
    (r < length (d_raws d))%nat -> CohAll s ->
    CohAll (open_raw s r) /\ Coh c (get_rd d r) (get_rs (open_raw s r) r).
  Proof.
    intros Hr HC. destruct Hwf as (_ & Hrd & _). unfold open_raw.
    destruct (r_open (get_rs s r)) eqn:E.
    - split; [exact HC|]. apply HC; assumption.
    - split.
      + apply CohAll_set; [exact HC|]. intros _. apply opened_coh. apply Hrd. exact Hr.
      + rewrite get_set_same by (destruct HC as [Hl _]; lia). apply opened_coh. apply Hrd. exact Hr.
  Qed.

  Lemma open_raw_pres s r : Pres s (open_raw s r).
  Proof.
    split; [apply open_raw_level|]. intros HC.
    destruct (Nat.lt_ge_cases r (length (d_raws d))) as [Hr|Hr].
    - apply open_raw_coh; assumption.
    - unfold open_raw. destruct (r_open (get_rs s r)); [exact HC|].
      assert (Hu : upd (s_raws s) r st_opened = s_raws s).
      { destruct HC as [Hl _]. rewrite <- Hl in Hr. clear - Hr. revert r Hr.
        induction (s_raws s); intros [|r] H; cbn in *; try lia; auto. f_equal. apply IHl. lia. }
      unfold set_rs. rewrite Hu. destruct s. exact HC.
  Qed.

  (* ---------------------------------------------------------------- the codec contracts, all encodings *)
  Lemma rep : repaired c.
  Proof. apply Hwf. Qed.

  Lemma enc_seek_ok rd st count :
    wf_rd rd -> Coh c rd st -> 0 <= count ->
    exists st' p, enc_seek dec c rd st count = Some (st', p) /\ At rd st' p /\ p = seek_target rd count /\ 0 <= p.
  Proof.
    intros Hw HC Hc. pose proof (nsamp_bounds rd Hw) as (Hn0 & _). unfold enc_seek, seek_target.
    destruct (rd_enc rd) eqn:He.
    - destruct (raw_seek_spec c rd st count He HC Hc) as (st' & -> & Hat). exists st', count. split; [reflexivity|]. split; [exact Hat|]. split; [reflexivity|lia].
    - destruct rep as (Hfix & _).
      destruct (bz_seek_spec BUF dec c rd st count Hw He (Hdec _) HC Hc (or_introl Hfix)) as (st' & p & -> & Hat & Hp).
      exists st', p. split; [reflexivity|]. split; [exact Hat|]. split; [exact Hp|lia].
    - destruct (txt_seek_spec c rd st count Hw He HC Hc) as (st' & p & -> & Hat & Hp).
      exists st', p. split; [reflexivity|]. split; [exact Hat|]. split; [exact Hp|lia].
  Qed.

  Lemma enc_read_ok rd st p n :
    wf_rd rd -> At rd st p -> 0 <= n ->
    exists st' bs cnt, enc_read dec c rd st n = Some (st', bs, cnt) /\
      cnt = read_count rd p n /\ cnt * rd_size rd <= len bs /\
      firstn (Z.to_nat (cnt * rd_size rd)) bs = slice (rd_bytes rd) (p * rd_size rd) (cnt * rd_size rd) /\
      At rd st' (p + cnt).
  Proof.
    intros Hw Hat Hn. unfold enc_read. destruct (rd_enc rd) eqn:He.
    - destruct (raw_read_spec rd st p n Hw He Hat Hn) as (st' & bs & cnt & -> & H). exists st', bs, cnt. auto.
    - destruct rep as (_ & Hfix & _).
      apply (bz_read_spec BUF dec c rd st p n Hw He (Hdec _) Hfix Hat Hn).
    - destruct (txt_read_spec rd st p n Hw He Hat Hn) as (st' & bs & cnt & -> & H). exists st', bs, cnt. auto.
  Qed.

  (* ---------------------------------------------------------------- _GD_GetIOPos *)
  Lemma get_iopos_pres : forall fuel s f,
    Pres s (fst (get_iopos fuel d s f)) /\ snd (get_iopos fuel d s f) <> UB.
  Proof.
    induction fuel as [|fuel IH]; intros s f; cbn [get_iopos].
    { split; [apply Pres_refl|discriminate]. }
    destruct (s_level s + 1 >=? MAXREC); [split; [apply Pres_refl|discriminate]|].
    set (s1 := set_level s (s_level s + 1)).
    assert (H1 : Pres s1 s1) by apply Pres_refl.
    assert (Hfin : forall s2 (o : out Z), s_level s2 = s_level s + 1 -> (CohAll s -> CohAll s2) ->
              Pres s (set_level s2 (s_level s2 - 1))).
    { intros s2 o Hl HC. split; [cbn; lia|]. intros H. apply CohAll_level. auto. }
    destruct (nth_error (d_fields d) f) as [[r|i sh|i m b|i bn nb|a b]|] eqn:Ef; cbn [fst snd].
    - split; [|discriminate]. apply (Hfin _ (Val 0)).
      + rewrite open_raw_level. reflexivity.
      + intros H. apply open_raw_pres. apply CohAll_level. exact H.
    - destruct (IH s1 i) as [[Hl HC] Hub]. destruct (get_iopos fuel d s1 i) as [s2 o]. cbn [fst snd] in *.
      split; [apply (Hfin _ o); [exact Hl|intros H; apply HC, CohAll_level, H]|]. destruct o; try discriminate; assumption.
    - destruct (IH s1 i) as [[Hl HC] Hub]. destruct (get_iopos fuel d s1 i) as [s2 o]. cbn [fst snd] in *.
      split; [apply (Hfin _ o); [exact Hl|intros H; apply HC, CohAll_level, H]|exact Hub].
    - destruct (IH s1 i) as [[Hl HC] Hub]. destruct (get_iopos fuel d s1 i) as [s2 o]. cbn [fst snd] in *.
      split; [apply (Hfin _ o); [exact Hl|intros H; apply HC, CohAll_level, H]|exact Hub].
    - destruct (IH s1 a) as [[Hl HC] Hub]. destruct (get_iopos fuel d s1 a) as [s2 o]. cbn [fst snd] in *.
      destruct o as [p1|e|]; cbn [fst snd].
      + destruct (IH s2 b) as [[Hl3 HC3] Hub3]. destruct (get_iopos fuel d s2 b) as [s3 o3]. cbn [fst snd] in *.
        split; [apply (Hfin _ o3); [rewrite Hl3; exact Hl|intros H; apply HC3, HC, CohAll_level, H]|].
        destruct o3; try discriminate; [destruct (p1 =? a0); discriminate|assumption].
      + split; [apply (Hfin _ (Err e)); [exact Hl|intros H; apply HC, CohAll_level, H]|discriminate].
      + exfalso. apply Hub. reflexivity.
    - split; [|discriminate]. apply (Hfin _ (Err 0)); [reflexivity|intros H; apply CohAll_level; exact H].
  Qed.

  (* ---------------------------------------------------------------- _GD_Seek *)
  Lemma Coh_pseudo rd st p : Coh c rd st -> p < 0 -> Coh c rd (set_fpos st p).
  Proof.
    intros [Ho HC] Hp. destruct rep as (_ & _ & _ & Htp & _). split; [exact Ho|].
    unfold At in *. destruct (rd_enc rd); cbn.
    - left. exact Hp.
    - left. split; [exact Hp|]. destruct HC as [(_ & Hw & Hq)|(_ & _ & _ & Hw & Hq & _)]; split; assumption.
    - left. split; [exact Htp|exact Hp].
  Qed.

  Lemma field_wf k fd : nth_error (d_fields d) k = Some fd -> wf_field k fd.
  Proof. destruct Hwf as (_ & _ & H & _). apply H. Qed.
  Lemma raw_wf r : (r < length (d_raws d))%nat -> wf_rd (get_rd d r).
  Proof. destruct Hwf as (_ & H & _). apply H. Qed.

  Lemma seek_field_pres : forall fuel s f offset,
    Pres s (fst (seek_field dec fuel d s f offset)) /\
    (CohAll s -> snd (seek_field dec fuel d s f offset) <> UB).
  Proof.
    induction fuel as [|fuel IH]; intros s f offset; cbn [seek_field].
    { split; [apply Pres_refl|discriminate]. }
    destruct (s_level s + 1 >=? MAXREC); [split; [apply Pres_refl|discriminate]|].
    set (s1 := set_level s (s_level s + 1)).
    assert (Hfin : forall s2, s_level s2 = s_level s + 1 -> (CohAll s -> CohAll s2) ->
              Pres s (set_level s2 (s_level s2 - 1))).
    { intros s2 Hl HC. split; [cbn; lia|]. intros H. apply CohAll_level. auto. }
    destruct (offset <? 0) eqn:Eo.
    { destruct rep as (_ & _ & _ & _ & Hlk & _). fold c. rewrite Hlk. cbn [fst snd].
      split; [|discriminate]. apply (Hfin s1); [reflexivity|intros H; apply CohAll_level; exact H]. }
    apply Z.ltb_ge in Eo.
    destruct (nth_error (d_fields d) f) as [[r|i sh|i m b|i bn nb|a b]|] eqn:Ef; cbn [fst snd].
    - pose proof (field_wf _ _ Ef) as Hr. cbn in Hr. pose proof (raw_wf r Hr) as Hrd.
      set (rd := get_rd d r) in *. set (s2 := open_raw s1 r).
      assert (Hl2 : s_level s2 = s_level s + 1) by (unfold s2; rewrite open_raw_level; reflexivity).
      destruct (rd_foff rd >? offset) eqn:Ep.
      + cbn [fst snd]. split; [|discriminate]. apply Hfin; [exact Hl2|]. intros H.
        destruct (open_raw_coh s1 r Hr (proj2 (CohAll_level s _) H)) as [HC2 Hc2]. fold s2 rd in HC2, Hc2.
        apply CohAll_set; [exact HC2|]. intros _. apply Coh_pseudo; [exact Hc2|].
        rewrite Z.gtb_ltb in Ep. apply Z.ltb_lt in Ep. lia.
      + rewrite Z.gtb_ltb in Ep. apply Z.ltb_ge in Ep.
        destruct (enc_seek dec (d_cfg d) rd (get_rs s2 r) (offset - rd_foff rd)) as [[st' p]|] eqn:Es; cbn [fst snd].
        * split.
          -- apply Hfin; [exact Hl2|]. intros H.
             destruct (open_raw_coh s1 r Hr (proj2 (CohAll_level s _) H)) as [HC2 Hc2]. fold s2 rd in HC2, Hc2.
             destruct (enc_seek_ok rd (get_rs s2 r) (offset - rd_foff rd) Hrd Hc2 ltac:(lia)) as (st'' & p'' & Hs'' & Hat & _).
             fold c in Es. rewrite Es in Hs''. inversion Hs''; subst.
             apply CohAll_set; [exact HC2|]. intros _. apply (At_Coh _ _ _ Hat).
          -- intros _. destruct (p <? 0); discriminate.
        * split.
          -- apply Hfin; [exact Hl2|]. intros H. apply open_raw_pres. apply CohAll_level. exact H.
          -- intros H. exfalso.
             destruct (open_raw_coh s1 r Hr (proj2 (CohAll_level s _) H)) as [HC2 Hc2]. fold s2 rd in HC2, Hc2.
             destruct (enc_seek_ok rd (get_rs s2 r) (offset - rd_foff rd) Hrd Hc2 ltac:(lia)) as (st'' & p'' & Hs'' & _).
             fold c in Es. congruence.
    - destruct (IH s1 i (if fix_phase_sign (d_cfg d) then offset + sh else offset - sh)) as [[Hl HC] Hub].
      destruct (seek_field dec fuel d s1 i _) as [s2 o]. cbn [fst snd] in *.
      split; [apply Hfin; [exact Hl|intros H; apply HC, CohAll_level, H]|intros H; apply Hub, CohAll_level, H].
    - destruct (IH s1 i offset) as [[Hl HC] Hub].
      destruct (seek_field dec fuel d s1 i offset) as [s2 o]. cbn [fst snd] in *.
      split; [apply Hfin; [exact Hl|intros H; apply HC, CohAll_level, H]|intros H; apply Hub, CohAll_level, H].
    - destruct (IH s1 i offset) as [[Hl HC] Hub].
      destruct (seek_field dec fuel d s1 i offset) as [s2 o]. cbn [fst snd] in *.
      split; [apply Hfin; [exact Hl|intros H; apply HC, CohAll_level, H]|intros H; apply Hub, CohAll_level, H].
    - destruct (IH s1 b offset) as [[Hl HC] Hub].
      destruct (seek_field dec fuel d s1 b offset) as [s2 o]. cbn [fst snd] in *.
      destruct o as [u|e|]; cbn [fst snd].
      + destruct (IH s2 a offset) as [[Hl3 HC3] Hub3].
        destruct (seek_field dec fuel d s2 a offset) as [s3 o3]. cbn [fst snd] in *.
        split; [apply Hfin; [rewrite Hl3; exact Hl|intros H; apply HC3, HC, CohAll_level, H]|].
        intros H. apply Hub3, HC, CohAll_level, H.
      + split; [apply Hfin; [exact Hl|intros H; apply HC, CohAll_level, H]|discriminate].
      + split; [apply Hfin; [exact Hl|intros H; apply HC, CohAll_level, H]|intros H; apply Hub, CohAll_level, H].
    - split; [|discriminate]. apply (Hfin s1); [reflexivity|intros H; apply CohAll_level; exact H].
  Qed.

  (* seeking a RAW field itself: succeeds, and positions the cursor when the target is in the file *)
  Lemma seek_raw_val k s f r offset :
    nth_error (d_fields d) f = Some (FRaw r) -> CohAll s -> s_level s + 1 < MAXREC -> 0 <= offset ->
    exists s', seek_field dec (Datatypes.S k) d s f offset = (s', Val tt) /\ Pres s s' /\
      (rd_foff (get_rd d r) <= offset ->
       At (get_rd d r) (get_rs s' r) (seek_target (get_rd d r) (offset - rd_foff (get_rd d r)))) /\
      r_open (get_rs s' r) = true /\
      (offset < rd_foff (get_rd d r) -> r_fpos (get_rs s' r) = offset - rd_foff (get_rd d r)).
  Proof.
    intros Ef HC Hlv Hoff.
    pose proof (seek_field_pres (Datatypes.S k) s f offset) as [HP _].
    revert HP. cbn [seek_field].
    replace (s_level s + 1 >=? MAXREC) with false by (symmetry; rewrite Z.geb_leb; apply Z.leb_gt; lia).
    replace (offset <? 0) with false by (symmetry; apply Z.ltb_ge; lia).
    rewrite Ef.
    pose proof (field_wf _ _ Ef) as Hr. cbn in Hr. pose proof (raw_wf r Hr) as Hrd.
    set (s1 := set_level s (s_level s + 1)). set (rd := get_rd d r) in *. set (s2 := open_raw s1 r).
    destruct (open_raw_coh s1 r Hr (proj2 (CohAll_level s _) HC)) as [HC2 Hc2]. fold s2 rd in HC2, Hc2.
    destruct (rd_foff rd >? offset) eqn:Ep.
    - cbn [fst snd]. intros HP. eexists. split; [reflexivity|]. split; [exact HP|].
      rewrite Z.gtb_ltb in Ep. apply Z.ltb_lt in Ep. split; [lia|].
      assert (Hg : get_rs (set_level (set_rs s2 r (set_fpos (get_rs s2 r) (offset - rd_foff rd)))
                     (s_level (set_rs s2 r (set_fpos (get_rs s2 r) (offset - rd_foff rd))) - 1)) r
                   = set_fpos (get_rs s2 r) (offset - rd_foff rd)).
      { change (get_rs (set_level ?x ?l) r) with (get_rs x r). apply get_set_same. destruct HC2 as [Hl _]. lia. }
      rewrite Hg. cbn. split; [apply Hc2|]. intros _. reflexivity.
    - rewrite Z.gtb_ltb in Ep. apply Z.ltb_ge in Ep.
      destruct (enc_seek_ok rd (get_rs s2 r) (offset - rd_foff rd) Hrd Hc2 ltac:(lia)) as (st' & p & Hs & Hat & Hp & Hp0).
      fold c. rewrite Hs. replace (p <? 0) with false by (symmetry; apply Z.ltb_ge; lia).
      cbn [fst snd]. intros HP. eexists. split; [reflexivity|]. split; [exact HP|].
      assert (Hg : get_rs (set_level (set_rs s2 r st') (s_level (set_rs s2 r st') - 1)) r = st').
      { change (get_rs (set_level (set_rs s2 r st') (s_level (set_rs s2 r st') - 1)) r) with (get_rs (set_rs s2 r st') r).
        apply get_set_same. destruct HC2 as [Hl _]. lia. }
      rewrite Hg, <- Hp. split; [intros _; exact Hat|]. split; [apply Hat|lia].
  Qed.
  (* ---------------------------------------------------------------- _GD_DoRaw *)
  Lemma target_count rd q n :
    wf_rd rd -> 0 <= q ->
    read_count rd (seek_target rd q) n = read_count rd q n /\
    (0 < read_count rd q n -> seek_target rd q = q).
  Proof.
    intros Hw Hq. pose proof (nsamp_bounds rd Hw) as (Hn0 & _).
    unfold read_count, seek_target. destruct (rd_enc rd); lia.
  Qed.

  Lemma raw_read_phase k s f r s0 n :
    nth_error (d_fields d) f = Some (FRaw r) -> CohAll s -> s_level s + 1 < MAXREC ->
    rd_foff (get_rd d r) <= s0 -> 0 < n ->
    exists s1 st bs cnt,
      seek_field dec (Datatypes.S k) d s f s0 = (s1, Val tt) /\
      enc_read dec c (get_rd d r) (get_rs s1 r) n = Some (st, bs, cnt) /\
      0 <= cnt /\ cnt * rd_size (get_rd d r) <= len bs /\
      bytes_to_vals (get_rd d r) bs cnt = window (raw_val (get_rd d r)) s0 (Z.to_nat n) /\
      Pres s (set_rs s1 r st) /\
      At (get_rd d r) st (seek_target (get_rd d r) (s0 - rd_foff (get_rd d r)) +
                          read_count (get_rd d r) (s0 - rd_foff (get_rd d r)) n) /\
      get_rs (set_rs s1 r st) r = st.
  Proof.
    intros Ef HC Hlv Hs0 Hn.
    pose proof (field_wf _ _ Ef) as Hr. cbn in Hr. pose proof (raw_wf r Hr) as Hrd.
    set (rd := get_rd d r) in *. assert (Hfo : 0 <= rd_foff rd) by apply Hrd.
    destruct (seek_raw_val k s f r s0 Ef HC Hlv ltac:(lia)) as (s1 & Hsk & [Hl1 HC1] & Hat & _). fold rd in Hat.
    specialize (Hat Hs0). specialize (HC1 HC).
    set (q := s0 - rd_foff rd) in *. set (t := seek_target rd q) in *.
    destruct (enc_read_ok rd (get_rs s1 r) t n Hrd Hat ltac:(lia)) as (st & bs & cnt & Hrd' & Hcnt & Hlen & Hpre & Hat').
    destruct (target_count rd q n Hrd ltac:(unfold q; lia)) as [Htc Htq]. fold t in Htc, Htq.
    assert (Ht0 : 0 <= t) by (destruct Hat as (_ & _ & H & _); exact H).
    assert (Hc0 : 0 <= cnt) by (rewrite Hcnt; unfold read_count; lia).
    exists s1, st, bs, cnt. split; [exact Hsk|]. split; [exact Hrd'|]. split; [exact Hc0|]. split; [exact Hlen|].
    split.
    - rewrite (bytes_to_vals_spec rd bs t cnt Hrd Ht0 Hc0 Hpre).
      rewrite (window_raw_data rd s0 n Hs0 ltac:(lia)). fold q. rewrite <- Htc, <- Hcnt.
      destruct (Z.eq_dec cnt 0) as [->|Hne]; [reflexivity|].
      rewrite Htq by (rewrite <- Htc, <- Hcnt; lia). reflexivity.
    - split.
      + split; [cbn; exact Hl1|]. intros _. apply CohAll_set; [exact HC1|]. intros _. apply (At_Coh _ _ _ Hat').
      + split; [rewrite <- Htc, <- Hcnt; exact Hat'|]. apply get_set_same. destruct HC1 as [Hl _]. lia.
  Qed.

  Lemma zeros_repeat n : zeros n = repeat 0 (Z.to_nat n).
  Proof. reflexivity. Qed.

  Lemma do_raw_spec k s f r s0 ns :
    nth_error (d_fields d) f = Some (FRaw r) -> CohAll s -> s_level s + 1 < MAXREC ->
    exists s', do_raw dec (Datatypes.S k) d s f r s0 ns =
               (s', Val (window (raw_val (get_rd d r)) s0 (Z.to_nat ns))) /\ Pres s s' /\
      (* the I/O pointer afterwards: the sample following the last one returned *)
      (0 <= s0 -> window (raw_val (get_rd d r)) s0 (Z.to_nat ns) <> [] ->
       r_open (get_rs s' r) = true /\
       r_fpos (get_rs s' r) + rd_foff (get_rd d r) =
         s0 + Z.of_nat (length (window (raw_val (get_rd d r)) s0 (Z.to_nat ns)))).
  Proof.
    intros Ef HC Hlv. unfold do_raw.
    destruct (ns <=? 0) eqn:En.
    { apply Z.leb_le in En. replace (Z.to_nat ns) with O by lia. exists s. split; [reflexivity|].
      split; [apply Pres_refl|]. intros _ H. exfalso. apply H. reflexivity. }
    apply Z.leb_gt in En.
    pose proof (field_wf _ _ Ef) as Hr. cbn in Hr. pose proof (raw_wf r Hr) as Hrd.
    set (rd := get_rd d r) in *. assert (Hfo : 0 <= rd_foff rd) by apply Hrd.
    destruct rep as (_ & _ & _ & _ & _ & Hneg). fold c. rewrite Hneg.
    destruct (s0 <? rd_foff rd) eqn:Ez.
    - apply Z.ltb_lt in Ez.
      replace (rd_foff rd - s0 >? 0) with true by (symmetry; rewrite Z.gtb_ltb; apply Z.ltb_lt; lia).
      destruct (Z_le_gt_dec ns (rd_foff rd - s0)) as [Hall|Hpart].
      + (* the window lies entirely in the padding *)
        replace (Z.min ns (rd_foff rd - s0)) with ns by lia.
        replace (ns - ns >? 0) with false by (symmetry; rewrite Z.gtb_ltb; apply Z.ltb_ge; lia).
        rewrite orb_true_r. cbn [andb orb negb].
        assert (Hw : window (raw_val rd) s0 (Z.to_nat ns) = zeros ns).
        { rewrite zeros_repeat. apply window_pad. intros j Hj. apply raw_val_pad. lia. }
        rewrite Hw.
        destruct (s0 + ns <? 0) eqn:Eneg; cbn [negb].
        * apply Z.ltb_lt in Eneg. exists s. split; [reflexivity|]. split; [apply Pres_refl|]. intros; lia.
        * apply Z.ltb_ge in Eneg.
          destruct (seek_raw_val k s f r (s0 + ns) Ef HC Hlv Eneg) as (s1 & -> & HP & Hat1 & Ho1 & Hps1).
          exists s1. split; [reflexivity|]. split; [exact HP|]. intros _ _. split; [exact Ho1|]. fold rd in Hat1, Hps1.
          rewrite zeros_repeat, repeat_length.
          destruct (Z.eq_dec (s0 + ns) (rd_foff rd)) as [Heq|Hneq].
          -- specialize (Hat1 ltac:(lia)). destruct Hat1 as (_ & Hfp & _). rewrite Hfp. rewrite Heq, Z.sub_diag.
             pose proof (nsamp_bounds rd Hrd) as (Hn0 & _). unfold seek_target. destruct (rd_enc rd); lia.
          -- rewrite Hps1 by lia. lia.
      + replace (Z.min ns (rd_foff rd - s0)) with (rd_foff rd - s0) by lia.
        set (zp := rd_foff rd - s0). set (n' := ns - zp).
        replace (n' >? 0) with true by (symmetry; rewrite Z.gtb_ltb; apply Z.ltb_lt; unfold n', zp; lia).
        replace (s0 + zp) with (rd_foff rd) by (unfold zp; lia).
        replace (rd_foff rd <? 0) with false by (symmetry; apply Z.ltb_ge; lia).
        cbn [andb orb negb].
        destruct (raw_read_phase k s f r (rd_foff rd) n' Ef HC Hlv ltac:(fold rd; lia) ltac:(unfold n', zp; lia))
          as (s1 & st & bs & cnt & -> & Hrd' & Hc0 & Hlen & Hv & HP & Hat & Hg).
        fold rd in Hrd', Hlen, Hv, Hat. rewrite Hrd'.
        replace (cnt <? 0) with false by (symmetry; apply Z.ltb_ge; lia).
        replace (cnt * rd_size rd >? len bs) with false by (symmetry; rewrite Z.gtb_ltb; apply Z.ltb_ge; lia).
        assert (Hw : window (raw_val rd) s0 (Z.to_nat zp) = zeros zp).
        { rewrite zeros_repeat. apply window_pad. intros j Hj. apply raw_val_pad. unfold zp in *. lia. }
        assert (Hsplit : window (raw_val rd) s0 (Z.to_nat ns) = zeros zp ++ window (raw_val rd) (rd_foff rd) (Z.to_nat n')).
        { replace (Z.to_nat ns) with (Z.to_nat zp + Z.to_nat n')%nat by (unfold n', zp; lia).
          rewrite window_app by (rewrite Hw, zeros_repeat, repeat_length; reflexivity).
          rewrite Hw. do 2 f_equal. unfold zp. lia. }
        exists (set_rs s1 r st). split; [do 2 f_equal; rewrite Hv, Hsplit; reflexivity|]. split; [exact HP|].
        intros _ _. rewrite Hg. split; [apply Hat|].
        destruct Hat as (_ & Hfp & _). rewrite Hfp, Hsplit, app_length, zeros_repeat, repeat_length.
        rewrite (window_raw_data rd (rd_foff rd) n' ltac:(lia) ltac:(unfold n', zp; lia)), map_length, seq_length.
        rewrite Z.sub_diag.
        pose proof (nsamp_bounds rd Hrd) as (Hn0 & _).
        assert (seek_target rd 0 = 0) by (unfold seek_target; destruct (rd_enc rd); lia).
        assert (0 <= read_count rd 0 n') by (unfold read_count; lia). unfold zp. lia.
    - apply Z.ltb_ge in Ez.
      replace (0 >? 0) with false by reflexivity. rewrite Z.sub_0_r, Z.add_0_r.
      replace (ns >? 0) with true by (symmetry; rewrite Z.gtb_ltb; apply Z.ltb_lt; lia).
      replace (s0 <? 0) with false by (symmetry; apply Z.ltb_ge; lia).
      cbn [andb orb negb].
      destruct (raw_read_phase k s f r s0 ns Ef HC Hlv ltac:(fold rd; lia) En)
        as (s1 & st & bs & cnt & -> & Hrd' & Hc0 & Hlen & Hv & HP & Hat & Hg).
      fold rd in Hrd', Hlen, Hv, Hat. rewrite Hrd'.
      replace (cnt <? 0) with false by (symmetry; apply Z.ltb_ge; lia).
      replace (cnt * rd_size rd >? len bs) with false by (symmetry; rewrite Z.gtb_ltb; apply Z.ltb_ge; lia).
      exists (set_rs s1 r st). split; [rewrite Hv; reflexivity|]. split; [exact HP|].
      intros _ Hne. rewrite Hg. split; [apply Hat|].
      destruct Hat as (_ & Hfp & _). rewrite Hfp.
      rewrite (window_raw_data rd s0 ns Ez ltac:(lia)) in Hne |- *. rewrite map_length, seq_length.
      assert (Hrc : 0 < read_count rd (s0 - rd_foff rd) ns).
      { destruct (Z_lt_le_dec 0 (read_count rd (s0 - rd_foff rd) ns)); [assumption|].
        exfalso. apply Hne. replace (Z.to_nat (read_count rd (s0 - rd_foff rd) ns)) with O by lia. reflexivity. }
      destruct (target_count rd (s0 - rd_foff rd) ns Hrd ltac:(lia)) as [_ Htq]. rewrite (Htq Hrc). lia.
  Qed.
  (* ---------------------------------------------------------------- _GD_DoField *)
  Lemma Pres_level_wrap s s2 :
    s_level s2 = s_level s + 1 -> (CohAll s -> CohAll s2) -> Pres s (set_level s2 (s_level s2 - 1)).
  Proof. intros Hl HC. split; [cbn; lia|]. intros H. apply CohAll_level. auto. Qed.

  Lemma len_to_nat {A} (l : list A) : Z.to_nat (len l) = length l.
  Proof. unfold len. lia. Qed.

  Lemma do_field_spec : forall fuel s f fd first n,
    nth_error (d_fields d) f = Some fd -> (f + 2 <= fuel)%nat ->
    CohAll s -> s_level s + Z.of_nat fuel <= 31 -> 0 <= n ->
    first + n + Z.of_nat fuel * SHIFT_MAX <= INT64_MAX ->
    forall hk, hk && (first =? -1) = false ->
    exists s', do_field dec fuel d s f hk first n =
               (s', Val (window (spec_val fuel d f) first (Z.to_nat n))) /\ Pres s s' /\
      (* RAW fields: the I/O pointer ends on the sample following the last one returned *)
      (forall r, fd = FRaw r -> 0 <= first -> window (spec_val fuel d f) first (Z.to_nat n) <> [] ->
         r_open (get_rs s' r) = true /\
         r_fpos (get_rs s' r) + rd_foff (get_rd d r) =
           first + Z.of_nat (length (window (spec_val fuel d f) first (Z.to_nat n)))).
  Proof.
    induction fuel as [|fuel IH]; intros s f fd first n Ef Hfu HC Hlv Hn Hrg hk Hhk; [lia|].
    cbn [do_field]. rewrite Hhk.
    replace (s_level s + 1 >=? MAXREC) with false by (symmetry; rewrite Z.geb_leb; apply Z.leb_gt; unfold MAXREC; lia).
    assert (HSM : 0 < SHIFT_MAX) by (unfold SHIFT_MAX; lia).
    replace (first >? INT64_MAX - n) with false by (symmetry; rewrite Z.gtb_ltb; apply Z.ltb_ge; nia).
    set (s1 := set_level s (s_level s + 1)).
    assert (HC1 : CohAll s1) by (apply CohAll_level; exact HC).
    destruct rep as (_ & _ & Hhere & _). fold c. rewrite Hhere. cbn [negb].
    pose proof (field_wf _ _ Ef) as Hwfd. rewrite Ef.
    assert (Hrg' : forall sh, - SHIFT_MAX <= sh <= SHIFT_MAX -> forall m, 0 <= m <= n ->
                   first + sh + m + Z.of_nat fuel * SHIFT_MAX <= INT64_MAX) by (intros; nia).
    destruct fd as [r|i sh|i m b|i bn nb|a b]; cbn in Hwfd; unfold SHIFT_MAX in *.
    - (* RAW *)
      destruct fuel as [|k]; [lia|].
      destruct (do_raw_spec k s1 f r first n Ef HC1 ltac:(cbn; unfold MAXREC; lia)) as (s2 & -> & [Hl2 HC2] & Hptr).
      assert (Hwe : window (spec_val (Datatypes.S (Datatypes.S k)) d f) first (Z.to_nat n) =
                    window (raw_val (get_rd d r)) first (Z.to_nat n)).
      { apply window_ext. intros j. cbn [spec_val]. rewrite Ef. reflexivity. }
      eexists. split; [rewrite Hwe; reflexivity|].
      split; [apply Pres_level_wrap; [exact Hl2|intros _; apply HC2, HC1]|].
      intros r' Hfd Hf0 Hne. inversion Hfd; subst r'. rewrite Hwe in Hne |- *. exact (Hptr Hf0 Hne).
    - (* PHASE *)
      destruct Hwfd as [Hi Hsh].
      assert (Ei : exists fi, nth_error (d_fields d) i = Some fi).
      { destruct (nth_error (d_fields d) i) eqn:E; [eauto|]. apply nth_error_None in E.
        assert (f < length (d_fields d))%nat by (apply nth_error_Some; congruence). lia. }
      destruct Ei as [fi Ei].
      destruct (IH s1 i fi (first + sh) n Ei ltac:(lia) HC1 ltac:(cbn; lia) Hn ltac:(apply Hrg'; lia) false eq_refl)
        as (s2 & -> & [Hl2 HC2] & _).
      eexists. split.
      + f_equal. f_equal. rewrite <- window_shift. apply window_ext. intros j. cbn [spec_val]. rewrite Ef. reflexivity.
      + split; [apply Pres_level_wrap; [exact Hl2|intros _; apply HC2, HC1]|intros ? Hfd; discriminate Hfd].
    - (* LINCOM *)
      assert (Ei : exists fi, nth_error (d_fields d) i = Some fi).
      { destruct (nth_error (d_fields d) i) eqn:E; [eauto|]. apply nth_error_None in E.
        assert (f < length (d_fields d))%nat by (apply nth_error_Some; congruence). lia. }
      destruct Ei as [fi Ei].
      destruct (IH s1 i fi first n Ei ltac:(lia) HC1 ltac:(cbn; lia) Hn ltac:(specialize (Hrg' 0 ltac:(lia) n ltac:(lia)); lia) false eq_refl)
        as (s2 & -> & [Hl2 HC2] & _).
      eexists. split.
      + f_equal. f_equal. rewrite <- window_map. apply window_ext. intros j. cbn [spec_val]. rewrite Ef. reflexivity.
      + split; [apply Pres_level_wrap; [exact Hl2|intros _; apply HC2, HC1]|intros ? Hfd; discriminate Hfd].
    - (* BIT *)
      assert (Ei : exists fi, nth_error (d_fields d) i = Some fi).
      { destruct (nth_error (d_fields d) i) eqn:E; [eauto|]. apply nth_error_None in E.
        assert (f < length (d_fields d))%nat by (apply nth_error_Some; congruence). lia. }
      destruct Ei as [fi Ei].
      destruct (IH s1 i fi first n Ei ltac:(lia) HC1 ltac:(cbn; lia) Hn ltac:(specialize (Hrg' 0 ltac:(lia) n ltac:(lia)); lia) false eq_refl)
        as (s2 & -> & [Hl2 HC2] & _).
      eexists. split.
      + f_equal. f_equal. rewrite <- window_map. apply window_ext. intros j. cbn [spec_val]. rewrite Ef. reflexivity.
      + split; [apply Pres_level_wrap; [exact Hl2|intros _; apply HC2, HC1]|intros ? Hfd; discriminate Hfd].
    - (* MULTIPLY *)
      destruct Hwfd as [Ha Hb].
      assert (Hin : forall i, (i < f)%nat -> exists fi, nth_error (d_fields d) i = Some fi).
      { intros i Hi. destruct (nth_error (d_fields d) i) eqn:E; [eauto|]. apply nth_error_None in E.
        assert (f < length (d_fields d))%nat by (apply nth_error_Some; congruence). lia. }
      destruct (Hin a Ha) as [fa Ea]. destruct (Hin b Hb) as [fb Eb].
      destruct (IH s1 a fa first n Ea ltac:(lia) HC1 ltac:(cbn; lia) Hn ltac:(specialize (Hrg' 0 ltac:(lia) n ltac:(lia)); lia) false eq_refl)
        as (s2 & -> & [Hl2 HC2] & _).
      set (l1 := window (spec_val fuel d a) first (Z.to_nat n)).
      assert (Hspec : window (spec_val (Datatypes.S fuel) d f) first (Z.to_nat n) =
                      zipmul l1 (window (spec_val fuel d b) first (length l1))).
      { unfold l1. rewrite <- window_mult. apply window_ext. intros j. cbn [spec_val]. rewrite Ef. reflexivity. }
      destruct l1 as [|x l1'] eqn:El1.
      + eexists. split; [rewrite Hspec; reflexivity|].
        split; [apply Pres_level_wrap; [exact Hl2|intros _; apply HC2, HC1]|intros ? Hfd; discriminate Hfd].
      + assert (Hlen1 : 0 <= len (x :: l1') <= n).
        { split; [apply len_nonneg|]. unfold len. rewrite <- El1. unfold l1. pose proof (window_len (spec_val fuel d a) first (Z.to_nat n)). lia. }
        destruct (IH s2 b fb first (len (x :: l1')) Eb ltac:(lia) (HC2 HC1) ltac:(rewrite Hl2; cbn; lia) ltac:(lia)
                   ltac:(specialize (Hrg' 0 ltac:(lia) (len (x :: l1')) Hlen1); lia) false eq_refl)
          as (s3 & -> & [Hl3 HC3] & _).
        rewrite len_to_nat.
        eexists. split; [rewrite Hspec; reflexivity|].
        split; [apply Pres_level_wrap; [rewrite Hl3; exact Hl2|intros _; apply HC3, HC2, HC1]|intros ? Hfd; discriminate Hfd].
  Qed.

  Lemma do_field_pres : forall fuel s f hk first n,
    (nth_error (d_fields d) f = None \/ (f + 2 <= fuel)%nat) ->
    CohAll s -> s_level s + Z.of_nat fuel <= 31 ->
    Pres s (fst (do_field dec fuel d s f hk first n)).
  Proof.
    induction fuel as [|fuel IH]; intros s f hk first n Hf HC Hlv; cbn [do_field]; [apply Pres_refl|].
    replace (s_level s + 1 >=? MAXREC) with false by (symmetry; rewrite Z.geb_leb; apply Z.leb_gt; unfold MAXREC; lia).
    set (s1 := set_level s (s_level s + 1)).
    assert (HC1 : CohAll s1) by (apply CohAll_level; exact HC).
    (* GD_HERE resolution *)
    assert (Hh : exists s2 o, (if hk && (first =? -1) then get_iopos fuel d s1 f else (s1, Val first)) = (s2, o)
                 /\ s_level s2 = s_level s + 1 /\ CohAll s2 /\ o <> UB).
    { destruct (hk && (first =? -1)).
      - destruct (get_iopos_pres fuel s1 f) as [[Hl HCp] Hub].
        destruct (get_iopos fuel d s1 f) as [s2 o]. exists s2, o. cbn [fst snd] in *.
        split; [reflexivity|]. split; [exact Hl|]. split; [apply HCp, HC1|exact Hub].
      - exists s1, (Val first). split; [reflexivity|]. split; [reflexivity|]. split; [exact HC1|discriminate]. }
    destruct Hh as (s2 & o & -> & Hl2 & HC2 & Hub).
    destruct o as [first'|e|]; [| |exfalso; apply Hub; reflexivity]; cbn [fst].
    2:{ apply Pres_level_wrap; [exact Hl2|auto]. }
    destruct rep as (_ & _ & _ & _ & Hlk & _). fold c.
    destruct (first' >? INT64_MAX - n).
    { rewrite Hlk. cbn [fst]. apply Pres_level_wrap; [exact Hl2|auto]. }
    destruct (nth_error (d_fields d) f) as [[r|i sh|i m b|i bn nb|a b]|] eqn:Ef; cbn [fst].
    - destruct Hf as [Hf|Hf]; [discriminate|]. destruct fuel as [|k]; [lia|].
      assert (Hlv2 : s_level s2 + 1 < MAXREC) by (unfold MAXREC; lia).
      destruct (do_raw_spec k s2 f r first' n Ef HC2 Hlv2) as (s3 & -> & [Hl3 HC3] & _).
      cbn [fst]. apply Pres_level_wrap; [rewrite Hl3; exact Hl2|auto].
    - destruct Hf as [Hf|Hf]; [discriminate|]. destruct (field_wf _ _ Ef) as [Hi _].
      assert (Hfu_i : (i + 2 <= fuel)%nat) by lia.
      pose proof (IH s2 i (negb (fix_here c)) (first' + sh) n (or_intror Hfu_i) HC2 ltac:(lia)) as [Hl3 HC3].
      destruct (do_field dec fuel d s2 i _ (first' + sh) n) as [s3 o3]. cbn [fst] in *.
      apply Pres_level_wrap; [rewrite Hl3; exact Hl2|auto].
    - destruct Hf as [Hf|Hf]; [discriminate|]. pose proof (field_wf _ _ Ef) as Hi. cbn in Hi.
      assert (Hfu_i : (i + 2 <= fuel)%nat) by lia.
      pose proof (IH s2 i (negb (fix_here c)) first' n (or_intror Hfu_i) HC2 ltac:(lia)) as [Hl3 HC3].
      destruct (do_field dec fuel d s2 i _ first' n) as [s3 o3]. cbn [fst] in *.
      apply Pres_level_wrap; [rewrite Hl3; exact Hl2|auto].
    - destruct Hf as [Hf|Hf]; [discriminate|]. pose proof (field_wf _ _ Ef) as Hi. cbn in Hi.
      assert (Hfu_i : (i + 2 <= fuel)%nat) by lia.
      pose proof (IH s2 i (negb (fix_here c)) first' n (or_intror Hfu_i) HC2 ltac:(lia)) as [Hl3 HC3].
      destruct (do_field dec fuel d s2 i _ first' n) as [s3 o3]. cbn [fst] in *.
      apply Pres_level_wrap; [rewrite Hl3; exact Hl2|auto].
    - destruct Hf as [Hf|Hf]; [discriminate|]. destruct (field_wf _ _ Ef) as [Ha Hb].
      assert (Hfu_a : (a + 2 <= fuel)%nat) by lia.
      pose proof (IH s2 a (negb (fix_here c)) first' n (or_intror Hfu_a) HC2 ltac:(lia)) as [Hl3 HC3].
      destruct (do_field dec fuel d s2 a _ first' n) as [s3 o3]. cbn [fst] in *.
      destruct o3 as [[|x l1]|e|]; cbn [fst]; try (apply Pres_level_wrap; [rewrite Hl3; exact Hl2|auto]).
      assert (Hfu_b : (b + 2 <= fuel)%nat) by lia.
      pose proof (IH s3 b (negb (fix_here c)) first' (len (x :: l1)) (or_intror Hfu_b) (HC3 HC2) ltac:(lia)) as [Hl4 HC4].
      destruct (do_field dec fuel d s3 b _ first' (len (x :: l1))) as [s4 o4]. cbn [fst] in *.
      apply Pres_level_wrap; [rewrite Hl4, Hl3; exact Hl2|auto].
    - apply Pres_level_wrap; [exact Hl2|auto].
  Qed.

  Lemma close_field_pres : forall fuel s f, Pres s (close_field fuel d s f).
  Proof.
    induction fuel as [|fuel IH]; intros s f; cbn [close_field]; [apply Pres_refl|].
    destruct (nth_error (d_fields d) f) as [[r|i sh|i m b|i bn nb|a b]|]; try apply IH; try apply Pres_refl.
    - destruct (r_open (get_rs s r)); [|apply Pres_refl]. split; [reflexivity|].
      intros HC. apply CohAll_set; [exact HC|]. discriminate.
    - eapply Pres_trans; apply IH.
  Qed.

  Definition InvH (s : state) : Prop := s_level s = 0 /\ CohAll s.

  Lemma Pres_Inv s s' : Pres s s' -> InvH s -> InvH s'.
  Proof. intros [Hl HC] [H0 H1]. split; [congruence|auto]. Qed.

  Lemma fuel_ok f : nth_error (d_fields d) f = None \/ (f + 2 <= FUEL d)%nat.
  Proof.
    destruct (nth_error (d_fields d) f) eqn:E; [right|left; reflexivity].
    assert (f < length (d_fields d))%nat by (apply nth_error_Some; congruence). unfold FUEL. lia.
  Qed.

  Lemma FUEL_small : Z.of_nat (FUEL d) <= 30.
  Proof. destruct Hwf as (_ & _ & _ & H). unfold FUEL. lia. Qed.

  (* every public call -- successful or failing, any field, any argument -- keeps the invariant *)
  Lemma step_inv s call : InvH s -> InvH (fst (step dec d s call)).
  Proof.
    intros HI. pose proof HI as [H0 HC]. pose proof FUEL_small as HF.
    destruct call as [f start n|f off w|f|[f|]|r|]; cbn [step].
    - destruct (match start with Some k => k | None => -1 end <? -1); [exact HI|].
      pose proof (do_field_pres (FUEL d) s f true (match start with Some k => k | None => -1 end) n (fuel_ok f) HC ltac:(lia)) as HP.
      destruct (do_field dec (FUEL d) d s f true _ n) as [s' [l|e|]]; cbn [fst] in *; apply (Pres_Inv _ _ HP HI).
    - assert (Hb : exists s1 ob, match w with WSet => (s, Val 0) | WCur => get_iopos (FUEL d) d s f
                                 | WEnd => (s, Val (Z.max 0 (eof_field (FUEL d) d f))) end = (s1, ob) /\ InvH s1).
      { destruct w; try (eexists; eexists; split; [reflexivity|exact HI]).
        destruct (get_iopos_pres (FUEL d) s f) as [HP _]. destruct (get_iopos (FUEL d) d s f) as [s1 ob].
        exists s1, ob. split; [reflexivity|apply (Pres_Inv _ _ HP HI)]. }
      destruct Hb as (s1 & ob & -> & HI1). destruct ob as [base|e|]; cbn [fst]; try exact HI1.
      destruct (seek_field_pres (FUEL d) s1 f (off + base)) as [HP2 _].
      destruct (seek_field dec (FUEL d) d s1 f (off + base)) as [s2 [u|e|]]; cbn [fst] in *;
        try apply (Pres_Inv _ _ HP2 HI1).
      destruct (get_iopos_pres (FUEL d) s2 f) as [HP3 _].
      destruct (get_iopos (FUEL d) d s2 f) as [s3 [p|e|]]; cbn [fst] in *;
        apply (Pres_Inv _ _ HP3 (Pres_Inv _ _ HP2 HI1)).
    - destruct (get_iopos_pres (FUEL d) s f) as [HP _].
      destruct (get_iopos (FUEL d) d s f) as [s1 [p|e|]]; cbn [fst] in *; apply (Pres_Inv _ _ HP HI).
    - cbn [fst]. apply (Pres_Inv _ _ (close_field_pres (FUEL d) s f) HI).
    - assert (HInv : Inv d s) by (destruct HC as [X Y]; split; [exact H0|split; [exact X|exact Y]]).
      destruct (inv_close_all dec d s HInv) as (A & B & C).
      split; [exact A|split; [exact B|exact C]].
    - assert (HInv : Inv d s) by (destruct HC as [X Y]; split; [exact H0|split; [exact X|exact Y]]).
      destruct (inv_auto_close dec d s r HInv) as (A & B & C).
      split; [exact A|split; [exact B|exact C]].
    - exact HI.
  Qed.

  Lemma init_inv : InvH (init d).
  Proof. destruct (inv_init d) as (A & B & C). split; [exact A|split; [exact B|exact C]]. Qed.

  Lemma run_inv h : forall s, InvH s -> InvH (run dec d s h).
  Proof. induction h as [|call h IH]; intros s HI; cbn; [exact HI|]. apply IH. apply step_inv. exact HI. Qed.

  (* an absolute read in any reachable state returns the window of the whole-field contents *)
  Lemma get_spec s f fd k n :
    InvH s -> nth_error (d_fields d) f = Some fd ->
    0 <= k <= 2 ^ 61 -> 0 <= n <= 2 ^ 61 ->
    snd (step dec d s (CGet f (Some k) n)) = RData (spec_window d f k n).
  Proof.
    intros [H0 HC] Ef Hk Hn. pose proof FUEL_small as HF. cbn [step].
    replace (k <? -1) with false by (symmetry; apply Z.ltb_ge; lia).
    destruct (fuel_ok f) as [Hf|Hf]; [congruence|].
    destruct (do_field_spec (FUEL d) s f fd k n Ef Hf HC ltac:(lia) ltac:(lia)
               ltac:(unfold SHIFT_MAX, INT64_MAX; lia) true) as (s' & -> & _ & _).
    { replace (k =? -1) with false by (symmetry; apply Z.eqb_neq; lia). reflexivity. }
    reflexivity.
  Qed.

  Theorem history_independent_l h f fd k n :
    nth_error (d_fields d) f = Some fd -> 0 <= k <= 2 ^ 61 -> 0 <= n <= 2 ^ 61 ->
    snd (step dec d (run dec d (init d) h) (CGet f (Some k) n)) = RData (spec_window d f k n).
  Proof. intros Ef Hk Hn. apply (get_spec _ f fd); auto. apply run_inv. apply init_inv. Qed.
  (* ================================================================ I/O pointers of RAW fields (C17) *)
  Section RawPointer.
    Variables (f r : nat).
    Hypothesis Ef : nth_error (d_fields d) f = Some (FRaw r).
    Let rd := get_rd d r.

    Lemma FUEL_S2 : exists k, FUEL d = Datatypes.S (Datatypes.S k).
    Proof. unfold FUEL. eauto. Qed.

    Lemma r_in_range s : CohAll s -> (r < length (s_raws s))%nat.
    Proof. intros [Hl _]. pose proof (field_wf _ _ Ef) as H. cbn in H. lia. Qed.

    Lemma set_level_id s : set_level s (s_level s) = s.
    Proof. destruct s. reflexivity. Qed.

    (* gd_tell64 on an open RAW field reports file->pos + frame offset and changes nothing *)
    Lemma tell_raw s :
      InvH s -> r_open (get_rs s r) = true ->
      step dec d s (CTell f) = (s, RPos (r_fpos (get_rs s r) + rd_foff rd)).
    Proof.
      intros [H0 HC] Ho. unfold step. destruct FUEL_S2 as [k ->]. cbn [get_iopos].
      rewrite H0. cbn -[open_raw get_rs]. rewrite Ef. unfold open_raw.
      change (get_rs (set_level s 1) r) with (get_rs s r). rewrite Ho.
      change (get_rs (set_level s 1) r) with (get_rs s r). cbn.
      f_equal. change (set_level (set_level s 1) 0) with (set_level s 0). rewrite <- H0. apply set_level_id.
    Qed.

    (* gd_getdata64 at an absolute position: the data, and the pointer afterwards *)
    Lemma get_raw_ptr s k n :
      InvH s -> 0 <= k <= 2 ^ 61 -> 0 <= n <= 2 ^ 61 ->
      exists s', step dec d s (CGet f (Some k) n) = (s', RData (spec_window d f k n)) /\ InvH s' /\
        (spec_window d f k n <> [] ->
         r_open (get_rs s' r) = true /\ r_fpos (get_rs s' r) + rd_foff rd = k + len (spec_window d f k n)).
    Proof.
      intros [H0 HC] Hk Hn. pose proof FUEL_small as HF. cbn [step].
      replace (k <? -1) with false by (symmetry; apply Z.ltb_ge; lia).
      destruct (fuel_ok f) as [Hf|Hf]; [congruence|].
      destruct (do_field_spec (FUEL d) s f (FRaw r) k n Ef Hf HC ltac:(lia) ltac:(lia)
                 ltac:(unfold SHIFT_MAX, INT64_MAX; lia) true) as (s' & -> & HP & Hptr).
      { replace (k =? -1) with false by (symmetry; apply Z.eqb_neq; lia). reflexivity. }
      exists s'. split; [reflexivity|]. split; [apply (Pres_Inv _ _ HP); split; assumption|].
      intros Hne. apply (Hptr r eq_refl ltac:(lia) Hne).
    Qed.

    (* "after a successful gd_getdata that transferred m samples starting at k, gd_tell reports k+m" *)
    Lemma tell_after_get_raw s k n :
      InvH s -> 0 <= k <= 2 ^ 61 -> 0 <= n <= 2 ^ 61 -> spec_window d f k n <> [] ->
      snd (step dec d (fst (step dec d s (CGet f (Some k) n))) (CTell f)) = RPos (k + len (spec_window d f k n)).
    Proof.
      intros HI Hk Hn Hne. destruct (get_raw_ptr s k n HI Hk Hn) as (s' & -> & HI' & Hp).
      destruct (Hp Hne) as [Ho Hfp]. cbn [fst]. rewrite (tell_raw s' HI' Ho). cbn [snd]. f_equal. exact Hfp.
    Qed.

    (* the core of gd_seek64: _GD_Seek to tgt then _GD_GetIOPos *)
    Lemma seek_then_tell s tgt :
      InvH s -> rd_foff rd <= tgt <= rd_foff rd + nsamp rd ->
      exists s2, seek_field dec (FUEL d) d s f tgt = (s2, Val tt) /\ InvH s2 /\
        r_open (get_rs s2 r) = true /\ r_fpos (get_rs s2 r) + rd_foff rd = tgt.
    Proof.
      intros [H0 HC] Ht. destruct FUEL_S2 as [k ->].
      assert (Hfo : 0 <= rd_foff rd) by (apply raw_wf; pose proof (field_wf _ _ Ef) as H; exact H).
      destruct (seek_raw_val (Datatypes.S k) s f r tgt Ef HC ltac:(rewrite H0; unfold MAXREC; lia) ltac:(lia))
        as (s2 & Hs & HP & Hat & Ho & _). fold rd in Hat.
      exists s2. split; [exact Hs|]. split; [apply (Pres_Inv _ _ HP); split; assumption|]. split; [exact Ho|].
      destruct (Hat ltac:(lia)) as (_ & Hfp & _). rewrite Hfp.
      pose proof (nsamp_bounds rd (raw_wf r ltac:(pose proof (field_wf _ _ Ef) as H; exact H))) as (Hn0 & _).
      unfold seek_target. destruct (rd_enc rd); lia.
    Qed.

    (* gd_seek64(GD_SEEK_SET | GD_SEEK_END) to a position between the beginning- and the end-of-field
       establishes and returns exactly that position; every encoding *)
    Lemma seek_set_raw s p :
      InvH s -> rd_foff rd <= p <= rd_foff rd + nsamp rd ->
      exists s', step dec d s (CSeek f p WSet) = (s', RPos p) /\ InvH s' /\
        r_open (get_rs s' r) = true /\ r_fpos (get_rs s' r) + rd_foff rd = p.
    Proof.
      intros HI Hp. unfold step. rewrite Z.add_0_r.
      destruct (seek_then_tell s p HI Hp) as (s2 & -> & HI2 & Ho & Hfp).
      pose proof (tell_raw s2 HI2 Ho) as Ht. unfold step in Ht. rewrite Ht.
      exists s2. rewrite Hfp. auto.
    Qed.

    Lemma seek_end_raw s off :
      InvH s -> - nsamp rd <= off <= 0 ->
      exists s', step dec d s (CSeek f off WEnd) = (s', RPos (rd_foff rd + nsamp rd + off)) /\ InvH s' /\
        r_open (get_rs s' r) = true /\ r_fpos (get_rs s' r) + rd_foff rd = rd_foff rd + nsamp rd + off.
    Proof.
      intros HI Hoff. unfold step.
      assert (He : eof_field (FUEL d) d f = nsamp rd + rd_foff rd).
      { destruct FUEL_S2 as [k ->]. cbn [eof_field]. rewrite Ef. reflexivity. }
      rewrite He.
      assert (Hns : 0 <= nsamp rd + rd_foff rd).
      { pose proof (field_wf _ _ Ef) as Hr. pose proof (raw_wf r Hr) as Hrd. pose proof (nsamp_bounds rd Hrd) as (Hn0 & _).
        destruct Hrd as [_ Hfo]. fold rd in Hfo. lia. }
      rewrite Z.max_r by exact Hns.
      destruct (seek_then_tell s (off + (nsamp rd + rd_foff rd)) HI ltac:(lia)) as (s2 & -> & HI2 & Ho & Hfp).
      pose proof (tell_raw s2 HI2 Ho) as Ht. unfold step in Ht. rewrite Ht.
      exists s2. rewrite Hfp. replace (off + (nsamp rd + rd_foff rd)) with (rd_foff rd + nsamp rd + off) by ring. auto.
    Qed.

    Lemma seek_cur_raw s off :
      InvH s -> r_open (get_rs s r) = true ->
      rd_foff rd <= r_fpos (get_rs s r) + rd_foff rd + off <= rd_foff rd + nsamp rd ->
      exists s', step dec d s (CSeek f off WCur) = (s', RPos (r_fpos (get_rs s r) + rd_foff rd + off)) /\ InvH s' /\
        r_open (get_rs s' r) = true /\ r_fpos (get_rs s' r) + rd_foff rd = r_fpos (get_rs s r) + rd_foff rd + off.
    Proof.
      intros HI Ho Hp. unfold step.
      pose proof (tell_raw s HI Ho) as Ht0. unfold step in Ht0.
      destruct (get_iopos (FUEL d) d s f) as [s1 [q|e|]]; inversion Ht0 as [[Hs1 Hq]]; try subst s1; try subst q.
      destruct (seek_then_tell s (off + (r_fpos (get_rs s r) + rd_foff rd)) HI ltac:(lia)) as (s2 & -> & HI2 & Ho2 & Hfp).
      pose proof (tell_raw s2 HI2 Ho2) as Ht. unfold step in Ht. rewrite Ht.
      exists s2. rewrite Hfp.
      replace (off + (r_fpos (get_rs s r) + rd_foff rd)) with (r_fpos (get_rs s r) + rd_foff rd + off) by ring. auto.
    Qed.

    (* _GD_GetIOPos on an open RAW field, at any recursion level *)
    Lemma iopos_raw_open k s :
      s_level s + 1 < MAXREC -> r_open (get_rs s r) = true ->
      get_iopos (Datatypes.S k) d s f = (s, Val (r_fpos (get_rs s r) + rd_foff rd)).
    Proof.
      intros Hl Ho. cbn [get_iopos].
      replace (s_level s + 1 >=? MAXREC) with false by (symmetry; rewrite Z.geb_leb; apply Z.leb_gt; lia).
      rewrite Ef. unfold open_raw.
      change (get_rs (set_level s (s_level s + 1)) r) with (get_rs s r). rewrite Ho.
      change (get_rs (set_level s (s_level s + 1)) r) with (get_rs s r).
      f_equal. change (s_level (set_level s (s_level s + 1))) with (s_level s + 1).
      change (set_level (set_level s (s_level s + 1)) (s_level s + 1 - 1)) with (set_level s (s_level s + 1 - 1)).
      replace (s_level s + 1 - 1) with (s_level s) by lia. apply set_level_id.
    Qed.

    Lemma do_field_here_eq k s n s2 p :
      get_iopos k d (set_level s (s_level s + 1)) f = (s2, Val p) -> s2 = set_level s (s_level s + 1) ->
      do_field dec (Datatypes.S k) d s f true (-1) n = do_field dec (Datatypes.S k) d s f false p n.
    Proof.
      intros Hg Hs2. cbn [do_field]. destruct (s_level s + 1 >=? MAXREC); [reflexivity|].
      change (true && (-1 =? -1)) with true. change (false && (p =? -1)) with false. cbv iota.
      rewrite Hg, Hs2. reflexivity.
    Qed.

    (* a GD_HERE read returns the window starting at the position gd_tell reports *)
    Lemma here_raw s n :
      InvH s -> r_open (get_rs s r) = true ->
      0 <= r_fpos (get_rs s r) + rd_foff rd <= 2 ^ 61 -> 0 <= n <= 2 ^ 61 ->
      snd (step dec d s (CGet f None n)) = RData (spec_window d f (r_fpos (get_rs s r) + rd_foff rd) n).
    Proof.
      intros [H0 HC] Ho Hp Hn. pose proof FUEL_small as HF.
      set (p := r_fpos (get_rs s r) + rd_foff rd) in *.
      assert (Heq : do_field dec (FUEL d) d s f true (-1) n = do_field dec (FUEL d) d s f false p n).
      { destruct FUEL_S2 as [k Hk]. rewrite Hk.
        apply (do_field_here_eq (Datatypes.S k) s n (set_level s (s_level s + 1)) p); [|reflexivity].
        apply (iopos_raw_open k (set_level s (s_level s + 1))); [cbn; rewrite H0; unfold MAXREC; lia|exact Ho]. }
      cbn [step]. replace (-1 <? -1) with false by reflexivity. rewrite Heq.
      destruct (fuel_ok f) as [Hf|Hf]; [congruence|].
      destruct (do_field_spec (FUEL d) s f (FRaw r) p n Ef Hf HC ltac:(lia) ltac:(lia)
                 ltac:(unfold SHIFT_MAX, INT64_MAX; lia) false eq_refl) as (s' & -> & _).
      reflexivity.
    Qed.
  End RawPointer.
End Handle.
