(* C02: the statements for the tree being checked (flags regenerated into Gen/C02Cfg.v) and the
   satisfiability of their hypotheses. *)
From Coq Require Import ZArith List Bool Lia.
From GD Require Import C02.Model C02.Slices C02.CodecProofs C02.BzRead C02.HistoryProofs C02.Windows C02.Handle C02.Refutations Gen.C02Cfg.
Import ListNotations.
Local Open Scope Z_scope.

(* the checked tree has the six read-path repairs *)
Lemma tree_repaired : repaired tree_cfg.
Proof. repeat split; reflexivity. Qed.

(* libbz2 as observed satisfies the contract, for every buffer size and stream *)
Lemma dec_bz2_ok BUF eager : 0 < BUF -> forall S, dec_ok BUF (dec_bz2 BUF eager) S.
Proof.
  intros HB S. split; [exact HB|]. intros consumed Hc. unfold dec_bz2.
  destruct (len S - consumed <? BUF) eqn:E1; cbn [fst snd].
  - apply Z.ltb_lt in E1. repeat split; try lia; intros; try discriminate; lia.
  - apply Z.ltb_ge in E1. destruct ((len S - consumed =? BUF) && eager) eqn:E2; cbn [fst snd].
    + apply andb_true_iff in E2. destruct E2 as [E2 _]. apply Z.eqb_eq in E2. repeat split; try lia; intros; try discriminate; lia.
    + repeat split; try lia; intros; try discriminate; lia.
Qed.

Lemma window_nth v s n j :
  (j < length (window v s n))%nat -> v (s + Z.of_nat j) = Some (nth j (window v s n) 0).
Proof.
  revert s j. induction n; intros s j H; cbn in *; [lia|].
  destruct (v s) eqn:E; cbn in *; [|lia].
  destruct j; [rewrite Z.add_0_r; exact E|].
  replace (s + Z.of_nat (Datatypes.S j)) with (s + 1 + Z.of_nat j) by lia. apply IHn. lia.
Qed.

(* sample s+j fetched alone equals element j of any window containing it *)
Lemma alone_equals_in_window d f s n j :
  (j < length (spec_window d f s n))%nat ->
  spec_window d f (s + Z.of_nat j) 1 = [nth j (spec_window d f s n) 0].
Proof.
  intros H. unfold spec_window in *. change (Z.to_nat 1) with 1%nat. cbn [window].
  rewrite (window_nth _ _ _ _ H). reflexivity.
Qed.

(* a concrete well-formed database: bzip2 file of 12 one-byte samples, frame offset 2,
   PHASE -1, LINCOM, BIT and a MULTIPLY of two views of the same input *)
Definition db_ex : db :=
  {| d_cfg := tree_cfg;
     d_raws := [ {| rd_enc := EBz; rd_size := 1; rd_sgn := false; rd_bytes := bytes12; rd_foff := 2 |} ];
     d_fields := [FRaw 0; FPhase 0 (-1); FLincom 1 3 1; FBit 0 1 2; FMult 3 3] |}.

Lemma db_ex_wf : wf_db db_ex.
Proof.
  split; [exact tree_repaired|]. split.
  - intros r Hr. cbn in Hr. assert (r = 0%nat) by lia. subst. split; cbn; lia.
  - split.
    + intros k fd H. do 5 (destruct k as [|k]; [cbn in H; inversion H; subst; cbn; unfold SHIFT_MAX; repeat split; lia|]).
      cbn in H. destruct k; discriminate.
    + cbn. lia.
Qed.

Lemma history_independent_c :
  forall BUF dec, (forall S, dec_ok BUF dec S) ->
  forall d, wf_db d ->
  forall (h : list call) f fd k n,
    nth_error (d_fields d) f = Some fd -> 0 <= k <= 2 ^ 61 -> 0 <= n <= 2 ^ 61 ->
    snd (step dec d (run dec d (init d) h) (CGet f (Some k) n)) = RData (spec_window d f k n).
Proof. intros BUF dec Hd d Hw h f fd k n. apply (history_independent_l BUF dec Hd d Hw h f fd k n). Qed.
