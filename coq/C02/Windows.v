(* C02: lemmas about `window` (the specification's view of a read) and about the samples of a RAW file *)
From Coq Require Import ZArith List Bool Lia.
From GD Require Import C02.Model C02.Slices C02.CodecProofs.
Import ListNotations.
Local Open Scope Z_scope.

Lemma window_len v s n : (length (window v s n) <= n)%nat.
Proof. revert s. induction n; intros s; cbn; [lia|]. destruct (v s); cbn; [specialize (IHn (s + 1))|]; lia. Qed.

Lemma window_ext v v' s n : (forall k, v k = v' k) -> window v s n = window v' s n.
Proof. intros H. revert s. induction n; intros s; cbn; [reflexivity|]. rewrite H. destruct (v' s); [f_equal; apply IHn|reflexivity]. Qed.

Lemma window_shift v sh s n : window (fun k => v (k + sh)) s n = window v (s + sh) n.
Proof.
  revert s. induction n; intros s; cbn; [reflexivity|]. destruct (v (s + sh)); [|reflexivity].
  f_equal. rewrite IHn. f_equal. lia.
Qed.

Lemma window_map v g s n : window (fun k => option_map g (v k)) s n = map g (window v s n).
Proof. revert s. induction n; intros s; cbn; [reflexivity|]. destruct (v s); cbn; [f_equal; apply IHn|reflexivity]. Qed.

Lemma window_mult va vb s n :
  window (fun k => match va k, vb k with Some x, Some y => Some (x * y) | _, _ => None end) s n
  = zipmul (window va s n) (window vb s (length (window va s n))).
Proof.
  revert s. induction n; intros s; cbn; [reflexivity|].
  destruct (va s) as [x|]; cbn; [|reflexivity].
  destruct (vb s) as [y|]; cbn; [|reflexivity]. f_equal. apply IHn.
Qed.

Lemma window_nonempty v s n : window v s n <> [] -> v s <> None.
Proof. destruct n; cbn; [congruence|]. destruct (v s); congruence. Qed.
Lemma window_head v s n : (0 < n)%nat -> v s <> None -> window v s n <> [].
Proof. destruct n; [lia|]. cbn. destruct (v s); congruence. Qed.

Lemma window_pad v s n : (forall k, s <= k < s + Z.of_nat n -> v k = Some 0) -> window v s n = repeat 0 n.
Proof.
  revert s. induction n; intros s H; cbn; [reflexivity|].
  rewrite H by lia. f_equal. apply IHn. intros k Hk. apply H. lia.
Qed.

Lemma window_app v s a b :
  length (window v s a) = a -> window v s (a + b) = window v s a ++ window v (s + Z.of_nat a) b.
Proof.
  revert s. induction a; intros s H; cbn.
  - f_equal. lia.
  - cbn in H. destruct (v s); [|discriminate]. cbn in *. f_equal.
    rewrite IHa by lia. do 2 f_equal. lia.
Qed.

Lemma repeat_len {A} (x : A) n : length (repeat x n) = n.
Proof. apply repeat_length. Qed.

(* all samples defined: the window is a map over the indices *)
Lemma window_some v g s n :
  (forall j, (j < n)%nat -> v (s + Z.of_nat j) = Some (g j)) -> window v s n = map g (seq 0 n).
Proof.
  revert s g. induction n; intros s g H; cbn; [reflexivity|].
  pose proof (H O ltac:(lia)) as H0. rewrite Z.add_0_r in H0. rewrite H0. f_equal.
  rewrite <- seq_shift, map_map. apply IHn. intros j Hj.
  replace (s + 1 + Z.of_nat j) with (s + Z.of_nat (Datatypes.S j)) by lia. apply H. lia.
Qed.

Lemma window_stop v s n : v s = None -> window v s n = [].
Proof. intros H. destruct n; cbn; [reflexivity|]. rewrite H. reflexivity. Qed.

Lemma window_some_then_none v g s m n :
  (m <= n)%nat -> (forall j, (j < m)%nat -> v (s + Z.of_nat j) = Some (g j)) ->
  ((m < n)%nat -> v (s + Z.of_nat m) = None) -> window v s n = map g (seq 0 m).
Proof.
  intros Hmn Hs Hn. replace n with (m + (n - m))%nat by lia.
  rewrite window_app.
  - rewrite (window_some v g s m Hs).
    destruct (Nat.eq_dec m n) as [->|Hne]; [rewrite Nat.sub_diag; cbn; apply app_nil_r|].
    rewrite window_stop by (apply Hn; lia). apply app_nil_r.
  - rewrite (window_some v g s m Hs). rewrite map_length, seq_length. reflexivity.
Qed.

(* samples delivered by the codec = samples of the file *)
Lemma slice_of_prefix {A} (bs P : list A) K a n :
  firstn (Z.to_nat K) bs = P -> 0 <= a -> 0 <= n -> a + n <= K -> slice bs a n = slice P a n.
Proof.
  intros HP Ha Hn HK. subst P.
  change (firstn (Z.to_nat K) bs) with (slice bs 0 K).
  rewrite slice_slice by lia. reflexivity.
Qed.

Lemma bytes_to_vals_spec rd bs t cnt :
  wf_rd rd -> 0 <= t -> 0 <= cnt ->
  firstn (Z.to_nat (cnt * rd_size rd)) bs = slice (rd_bytes rd) (t * rd_size rd) (cnt * rd_size rd) ->
  bytes_to_vals rd bs cnt = map (fun j => raw_sample rd (t + Z.of_nat j)) (seq 0 (Z.to_nat cnt)).
Proof.
  intros [Hs _] Ht Hc Hp. unfold bytes_to_vals. apply map_ext_in. intros j Hj. apply in_seq in Hj.
  unfold raw_sample. f_equal.
  rewrite (slice_of_prefix bs _ (cnt * rd_size rd) (Z.of_nat j * rd_size rd) (rd_size rd) Hp) by nia.
  rewrite slice_slice by nia. f_equal. ring.
Qed.

Lemma raw_val_pad rd k : k < rd_foff rd -> raw_val rd k = Some 0.
Proof. intros H. unfold raw_val. replace (k <? rd_foff rd) with true by (symmetry; apply Z.ltb_lt; lia). reflexivity. Qed.

Lemma raw_val_data rd k : rd_foff rd <= k -> k - rd_foff rd < nsamp rd -> raw_val rd k = Some (raw_sample rd (k - rd_foff rd)).
Proof.
  intros H1 H2. unfold raw_val. replace (k <? rd_foff rd) with false by (symmetry; apply Z.ltb_ge; lia).
  replace (k - rd_foff rd <? nsamp rd) with true by (symmetry; apply Z.ltb_lt; lia). reflexivity.
Qed.

Lemma raw_val_eof rd k : rd_foff rd <= k -> nsamp rd <= k - rd_foff rd -> raw_val rd k = None.
Proof.
  intros H1 H2. unfold raw_val. replace (k <? rd_foff rd) with false by (symmetry; apply Z.ltb_ge; lia).
  replace (k - rd_foff rd <? nsamp rd) with false by (symmetry; apply Z.ltb_ge; lia). reflexivity.
Qed.

(* the window of a RAW field starting in the data zone *)
Lemma window_raw_data rd s n :
  rd_foff rd <= s -> 0 <= n ->
  window (raw_val rd) s (Z.to_nat n) =
  map (fun j => raw_sample rd (s - rd_foff rd + Z.of_nat j)) (seq 0 (Z.to_nat (read_count rd (s - rd_foff rd) n))).
Proof.
  intros Hs Hn. unfold read_count.
  apply window_some_then_none.
  - lia.
  - intros j Hj. rewrite raw_val_data by lia. do 2 f_equal. lia.
  - intros Hlt. apply raw_val_eof; lia.
Qed.
