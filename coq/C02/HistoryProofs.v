(* C02: history independence at the cursor level, handle invariants under close events,
   and the refutations (witness histories computed in the model under the pinned tree's flags). *)
From Coq Require Import ZArith List Bool Lia.
From GD Require Import C02.Model C02.Slices C02.CodecProofs C02.Refutations Gen.C02Cfg.
Import ListNotations.
Local Open Scope Z_scope.

(* ------------------------------------------------------------------ one cursor: seek;read is pure *)
(* what _GD_DoRaw does with an open file: seek to `count` (>= 0), then read n samples *)
Definition seek_read (BUFdec : list Z -> Z -> Z * bool) (c : cfg) (rd : rawdef) (st : rawst) (count n : Z)
  : option (rawst * list Z * Z) :=
  match enc_seek BUFdec c rd st count with
  | None => None
  | Some (st1, _) => enc_read BUFdec c rd st1 n
  end.

(* the answer the whole-stream contents dictate *)
Definition pure_count (rd : rawdef) (count n : Z) : Z := read_count rd (seek_target rd count) n.
Definition pure_bytes (rd : rawdef) (count n : Z) : list Z :=
  slice (rd_bytes rd) (seek_target rd count * rd_size rd) (pure_count rd count n * rd_size rd).

Definition plain_enc (rd : rawdef) : Prop := rd_enc rd = ERaw \/ rd_enc rd = ETxt.

Lemma seek_read_pure dec c rd st count n :
  wf_rd rd -> plain_enc rd -> Coh c rd st -> 0 <= count -> 0 <= n ->
  exists st' bs cnt, seek_read dec c rd st count n = Some (st', bs, cnt) /\
    cnt = pure_count rd count n /\
    firstn (Z.to_nat (cnt * rd_size rd)) bs = pure_bytes rd count n /\
    Coh c rd st'.
Proof.
  intros Hwf Hp Hc Hcnt Hn. unfold seek_read, enc_seek, enc_read, pure_bytes, pure_count, seek_target.
  destruct Hp as [He|He]; rewrite He.
  - destruct (raw_seek_spec c rd st count He Hc Hcnt) as (st1 & -> & Hat).
    destruct (raw_read_spec rd st1 count n Hwf He Hat Hn) as (st2 & bs & cnt & -> & Hcn & _ & Hb & Hat2).
    exists st2, bs, cnt. split; [reflexivity|]. split; [exact Hcn|]. split; [rewrite Hb, Hcn; reflexivity|].
    split; [apply Hat2|]. rewrite He. right.
    assert (r_fpos st2 = count + cnt) by apply Hat2. rewrite H. exact Hat2.
  - destruct (txt_seek_spec c rd st count Hwf He Hc Hcnt) as (st1 & p1 & -> & Hat & Hp1).
    destruct (txt_read_spec rd st1 p1 n Hwf He Hat Hn) as (st2 & bs & cnt & -> & Hcn & _ & Hb & Hat2).
    subst p1.
    exists st2, bs, cnt. split; [reflexivity|]. split; [exact Hcn|]. split; [rewrite Hb, Hcn; reflexivity|].
    split; [apply Hat2|]. rewrite He. right.
    assert (r_fpos st2 = Z.min count (nsamp rd) + cnt) by apply Hat2. rewrite H. exact Hat2.
Qed.

(* a history of seek;read pairs on one open file *)
Fixpoint cursor_run dec c rd (st : rawst) (h : list (Z * Z)) : option rawst :=
  match h with
  | [] => Some st
  | (count, n) :: h' =>
      match seek_read dec c rd st count n with
      | None => None
      | Some (st', _, _) => cursor_run dec c rd st' h'
      end
  end.

Definition hist_nonneg (h : list (Z * Z)) : Prop := Forall (fun cn => 0 <= fst cn /\ 0 <= snd cn) h.

Lemma cursor_run_coh dec c rd :
  wf_rd rd -> plain_enc rd ->
  forall h st, Coh c rd st -> hist_nonneg h -> exists st', cursor_run dec c rd st h = Some st' /\ Coh c rd st'.
Proof.
  intros Hwf Hp. induction h as [|[count n] h IH]; intros st Hc Hh.
  - exists st. split; [reflexivity|exact Hc].
  - inversion Hh as [|? ? [H1 H2] Hh']; subst. cbn in H1, H2. cbn.
    destruct (seek_read_pure dec c rd st count n Hwf Hp Hc H1 H2) as (st' & bs & cnt & -> & _ & _ & Hc').
    apply IH; assumption.
Qed.

(* the data delivered for (count, n) after ANY earlier history equals the whole-stream answer *)
Lemma cursor_history_independent dec c rd h st count n :
  wf_rd rd -> plain_enc rd -> Coh c rd st -> hist_nonneg h -> 0 <= count -> 0 <= n ->
  exists st1 st2 bs cnt,
    cursor_run dec c rd st h = Some st1 /\
    seek_read dec c rd st1 count n = Some (st2, bs, cnt) /\
    cnt = pure_count rd count n /\ firstn (Z.to_nat (cnt * rd_size rd)) bs = pure_bytes rd count n.
Proof.
  intros Hwf Hp Hc Hh Hcnt Hn.
  destruct (cursor_run_coh dec c rd Hwf Hp h st Hc Hh) as (st1 & Hr & Hc1).
  destruct (seek_read_pure dec c rd st1 count n Hwf Hp Hc1 Hcnt Hn) as (st2 & bs & cnt & Hs & H1 & H2 & _).
  exists st1, st2, bs, cnt. auto.
Qed.

(* a freshly opened file is coherent *)
Lemma opened_coh c rd : wf_rd rd -> Coh c rd st_opened.
Proof.
  intros Hwf. pose proof (nsamp_bounds rd Hwf) as (Hns0 & _). pose proof (len_nonneg (rd_bytes rd)).
  split; [reflexivity|]. unfold At, bz_win, coh. destruct (rd_enc rd); right; cbn;
    repeat split; try lia; try reflexivity; try (left; lia); try discriminate.
Qed.

(* ------------------------------------------------------------------ handle invariant under close events *)
Definition Inv (d : db) (s : state) : Prop :=
  s_level s = 0 /\ length (s_raws s) = length (d_raws d) /\
  forall r, (r < length (d_raws d))%nat -> r_open (get_rs s r) = true -> Coh (d_cfg d) (get_rd d r) (get_rs s r).

Lemma inv_init d : Inv d (init d).
Proof.
  unfold Inv, init. cbn. split; [reflexivity|]. split; [apply map_length|].
  intros r Hr Ho. unfold get_rs in Ho. cbn in Ho.
  assert (nth r (map (fun _ : rawdef => st_closed) (d_raws d)) st_closed = st_closed).
  { clear. revert r. induction (d_raws d); intros [|r]; cbn; auto. }
  rewrite H in Ho. discriminate.
Qed.

Lemma nth_upd_same {A} (l : list A) k x dflt : (k < length l)%nat -> nth k (upd l k x) dflt = x.
Proof. revert k. induction l; intros [|k] H; cbn in *; try lia; auto. apply IHl. lia. Qed.
Lemma nth_upd_other {A} (l : list A) k j x dflt : k <> j -> nth j (upd l k x) dflt = nth j l dflt.
Proof. revert k j. induction l; intros [|k] [|j] H; cbn; auto; try lia. Qed.
Lemma upd_length {A} (l : list A) k x : length (upd l k x) = length l.
Proof. revert k. induction l; intros [|k]; cbn; auto. Qed.

(* closing any RAW (gd_raw_close, gd_flush, or the LRU auto-close of gd_open_limit, for every
   choice the library may make) preserves the invariant *)
Lemma inv_auto_close dec d s r : Inv d s -> Inv d (fst (step dec d s (CAuto r))).
Proof.
  intros (Hl & Hlen & Hc). cbn. destruct (r_open (get_rs s r)) eqn:Ho; cbn; [|exact (conj Hl (conj Hlen Hc))].
  unfold Inv, set_rs, get_rs. cbn. split; [exact Hl|]. split; [rewrite upd_length; exact Hlen|].
  intros j Hj Hoj. destruct (Nat.eq_dec r j) as [->|Hne].
  - rewrite nth_upd_same in Hoj by lia. discriminate.
  - rewrite nth_upd_other in Hoj |- * by exact Hne. apply Hc; assumption.
Qed.

Lemma inv_close_all dec d s : Inv d s -> Inv d (fst (step dec d s (CClose None))).
Proof.
  intros (Hl & Hlen & Hc). cbn. unfold Inv, get_rs. cbn. split; [exact Hl|]. split; [rewrite map_length; exact Hlen|].
  intros j Hj Hoj.
  set (g := fun st : rawst => if r_open st then st_closed else st) in *.
  assert (Hn : nth j (map g (s_raws s)) st_closed = g (nth j (s_raws s) st_closed)).
  { change st_closed with (g st_closed) at 1. apply map_nth. }
  rewrite Hn in Hoj. unfold g in Hoj. destruct (r_open (nth j (s_raws s) st_closed)) eqn:E; cbn in Hoj; congruence.
Qed.

(* satisfiability of the hypotheses used in Properties_C02 *)
Lemma hyps_ok :
  wf_rd {| rd_enc := ERaw; rd_size := 2; rd_sgn := false; rd_bytes := Refutations.bytes12; rd_foff := 0 |} /\
  plain_enc {| rd_enc := ERaw; rd_size := 2; rd_sgn := false; rd_bytes := Refutations.bytes12; rd_foff := 0 |} /\
  hist_nonneg [(3, 2); (0, 9)] /\ dec_ok 4 (dec_bz2 4 true) Refutations.bytes12.
Proof.
  split; [split; cbn; lia|]. split; [left; reflexivity|]. split.
  - repeat constructor; cbn; lia.
  - split; [lia|]. intros consumed Hc. change (len Refutations.bytes12) with 12 in *.
    assert (consumed = 0 \/ consumed = 1 \/ consumed = 2 \/ consumed = 3 \/ consumed = 4 \/ consumed = 5 \/
            consumed = 6 \/ consumed = 7 \/ consumed = 8 \/ consumed = 9 \/ consumed = 10 \/ consumed = 11 \/ consumed = 12) as H by lia.
    repeat (destruct H as [->|H]; [vm_compute; repeat split; try discriminate; try reflexivity; intros; discriminate|]).
    subst. vm_compute; repeat split; try discriminate; try reflexivity; intros; discriminate.
Qed.

