(* C02: inputs of different sample rates.  A LINCOM kernel (common.c) reads input n from a buffer that starts at
   sample floor(s * r_n / r_0) of that input (s = first sample asked, r_i = samples per frame of input i) and
   takes, for the j-th sample of the result, buffer element (rem + j * r_b) / r_c, where `rem` is the alignment
   remainder (s * r_a) mod r_0 the kernel text names.  The table of (n, a, b, c) of every index expression is
   read from the source by translate/tr_c02cfg.py (Gen/C02Cfg.v: tree_kernels).
   Specification (dirfile-format(5)): sample k of the result pairs with sample floor(k * r_n / r_0) of input n --
   a function of k alone, whatever window the sample is read in. *)
From Coq Require Import ZArith List Bool Lia.
From GD Require Import Gen.C02Cfg.
Import ListNotations.
Local Open Scope Z_scope.

Definition paired (rate : nat -> Z) (n : nat) (k : Z) : Z := k * rate n / rate 0%nat.

Definition picked (rate : nat -> Z) (t : nat * nat * nat * nat) (s j : Z) : Z :=
  let '(n, a, b, c) := t in
  s * rate n / rate 0%nat + ((s * rate a) mod rate 0%nat + j * rate b) / rate c.

Definition kernel_ok (t : nat * nat * nat * nat) : bool :=
  let '(n, a, b, c) := t in Nat.eqb a n && Nat.eqb b n && Nat.eqb c 0.

Lemma aligned_pick rate n s j :
  0 < rate 0%nat -> picked rate (n, n, n, 0%nat) s j = paired rate n (s + j).
Proof.
  intros H0. unfold picked, paired.
  replace ((s + j) * rate n) with (s * rate n + j * rate n) by ring.
  rewrite (Z.div_mod (s * rate n) (rate 0%nat)) at 3 by lia.
  replace (rate 0%nat * (s * rate n / rate 0%nat) + (s * rate n) mod rate 0%nat + j * rate n)
    with ((s * rate n / rate 0%nat) * rate 0%nat + ((s * rate n) mod rate 0%nat + j * rate n)) by ring.
  rewrite Z.div_add_l by lia. reflexivity.
Qed.

Lemma kernel_ok_shape t : kernel_ok t = true -> exists n, t = (n, n, n, 0%nat).
Proof.
  destruct t as [[[n a] b] c]. cbn. intros H.
  apply andb_true_iff in H. destruct H as [H Hc]. apply andb_true_iff in H. destruct H as [Ha Hb].
  apply Nat.eqb_eq in Ha, Hb, Hc. subst. exists n. reflexivity.
Qed.

(* every kernel whose index expressions have the right shape pairs sample s+j of the result with the sample of
   its input the specification names: the value of a sample does not depend on where the window starts *)
Lemma kernels_pair_by_sample_number ks :
  forallb kernel_ok ks = true ->
  forall rate, 0 < rate 0%nat ->
  forall t, In t ks -> forall s j, picked rate t s j = paired rate (fst (fst (fst t))) (s + j).
Proof.
  intros Hk rate H0 t Ht s j.
  rewrite forallb_forall in Hk. destruct (kernel_ok_shape t (Hk t Ht)) as [n ->]. cbn [fst].
  apply aligned_pick. exact H0.
Qed.

Lemma kernels_window_independent ks :
  forallb kernel_ok ks = true ->
  forall rate, 0 < rate 0%nat ->
  forall t, In t ks -> forall s j s' j', s + j = s' + j' -> picked rate t s j = picked rate t s' j'.
Proof.
  intros Hk rate H0 t Ht s j s' j' E.
  rewrite (kernels_pair_by_sample_number ks Hk rate H0 t Ht s j), (kernels_pair_by_sample_number ks Hk rate H0 t Ht s' j'), E.
  reflexivity.
Qed.

(* the kernels of the checked tree *)
Lemma tree_kernels_ok : forallb kernel_ok tree_kernels = true.
Proof. vm_compute. reflexivity. Qed.

Lemma tree_kernels_nonempty : tree_kernels <> [].
Proof. vm_compute. discriminate. Qed.

(* a kernel that aligns the third input with the remainder computed for the second one: rates 6, 2, 3; sample 2 of
   the result read in a window starting at sample 1 pairs with sample 0 of the third input, in the window starting
   at 0 (and by the specification) with sample 1 *)
Definition rates_623 (i : nat) : Z := match i with 0%nat => 6 | 1%nat => 2 | _ => 3 end.

Lemma misaligned_kernel_witness :
  kernel_ok (2, 1, 2, 0)%nat = false /\
  picked rates_623 (2, 1, 2, 0)%nat 0 2 = 1 /\ picked rates_623 (2, 1, 2, 0)%nat 1 1 = 0 /\ paired rates_623 2 2 = 1 /\
  picked rates_623 (2, 2, 2, 0)%nat 0 2 = 1 /\ picked rates_623 (2, 2, 2, 0)%nat 1 1 = 1.
Proof. vm_compute. repeat split; reflexivity. Qed.
