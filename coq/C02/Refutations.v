(* C02: the full statement, and witness histories on which the model of the pinned tree
   (all repair flags false) violates it; with the corresponding flag on, the same history is fine. *)
From Coq Require Import ZArith List Bool Lia.
From GD Require Import C02.Model.
Import ListNotations.
Local Open Scope Z_scope.

Definition cfg0 : cfg :=
  {| fix_bz_rewind := false; fix_bz_eof := false; fix_here := false; fix_text_pseudo := false;
     fix_leak := false; fix_negseek := false; fix_phase_sign := false; fix_bz_err := false |}.
(* the six C02 repairs (commits e69eeed .. e34b6b0) *)
Definition cfg_all : cfg :=
  {| fix_bz_rewind := true; fix_bz_eof := true; fix_here := true; fix_text_pseudo := true;
     fix_leak := true; fix_negseek := true; fix_phase_sign := false; fix_bz_err := false |}.
(* ... plus the PHASE pointer convention of proposed_fixes/C17-1.diff *)
Definition cfg_all7 : cfg :=
  {| fix_bz_rewind := true; fix_bz_eof := true; fix_here := true; fix_text_pseudo := true;
     fix_leak := true; fix_negseek := true; fix_phase_sign := true; fix_bz_err := true |}.

(* the property, for the tree described by configuration c (decoder = libbz2 with a 4-byte window
   in the witnesses; the statement itself is for any decoder) *)
Definition history_independent_statement (dec : list Z -> Z -> Z * bool) (c : cfg) : Prop :=
  forall (d : db) (h : list call) (f : nat) (k n : Z),
    d_cfg d = c -> 0 <= k -> 0 <= n ->
    snd (step dec d (run dec d (init d) h) (CGet f (Some k) n)) = RData (spec_window d f k n).

Definition bytes12 : list Z := [0;1;2;3;4;5;6;7;8;9;10;11].
Definition mkdb (c : cfg) (e : enc) (foff : Z) (fs : list fdef) : db :=
  {| d_cfg := c; d_raws := [ {| rd_enc := e; rd_size := 1; rd_sgn := false; rd_bytes := bytes12; rd_foff := foff |} ];
     d_fields := FRaw 0 :: fs |}.
Definition dec4 := dec_bz2 4 true.
Definition ask (d : db) (h : list call) (f : nat) (k n : Z) : result :=
  snd (step dec4 d (run dec4 d (init d) h) (CGet f (Some k) n)).

Ltac refute d h f k n :=
  intros H; specialize (H d h f k n eq_refl ltac:(lia) ltac:(lia)); vm_compute in H; discriminate.

(* 1. bzip2: read in the third window, then before it: pos = offset - base < 0 *)
Lemma bz_backward_refuted : ~ history_independent_statement dec4 cfg0.
Proof. refute (mkdb cfg0 EBz 0 []) [CGet 0 (Some 9) 2] 0%nat 1 2. Qed.
Lemma bz_backward_witness :
  ask (mkdb cfg0 EBz 0 []) [CGet 0 (Some 9) 2] 0 1 2 = RUB /\
  ask (mkdb cfg_all EBz 0 []) [CGet 0 (Some 9) 2] 0 1 2 = RData [1; 2].
Proof. split; vm_compute; reflexivity. Qed.

(* 2. bzip2: a read running into EOF from inside the last window leaves file->pos stale *)
Lemma bz_eof_witness :
  ask (mkdb cfg0 EBz 0 []) [CGet 0 (Some 8) 1; CGet 0 (Some 9) 9] 0 9 2 = RData [] /\
  spec_window (mkdb cfg0 EBz 0 []) 0 9 2 = [9; 10] /\
  ask (mkdb cfg_all EBz 0 []) [CGet 0 (Some 8) 1; CGet 0 (Some 9) 9] 0 9 2 = RData [9; 10].
Proof. repeat split; vm_compute; reflexivity. Qed.

(* 3. PHASE with shift -1 read at sample 0: the input start -1 is taken for GD_HERE *)
Lemma phase_here_witness :
  ask (mkdb cfg0 ERaw 0 [FPhase 0 (-1)]) [CGet 0 (Some 5) 2] 1 0 3 = RData [7; 8; 9] /\
  ask (mkdb cfg0 ERaw 0 [FPhase 0 (-1)]) [] 1 0 3 = RData [0; 1; 2] /\
  spec_window (mkdb cfg0 ERaw 0 [FPhase 0 (-1)]) 1 0 3 = [0; 0; 1] /\
  ask (mkdb cfg_all ERaw 0 [FPhase 0 (-1)]) [CGet 0 (Some 5) 2] 1 0 3 = RData [0; 0; 1].
Proof. repeat split; vm_compute; reflexivity. Qed.

(* 4. text with a frame offset: a read entirely before it leaves a pseudo position behind *)
Lemma text_pseudo_witness :
  ask (mkdb cfg0 ETxt 3 []) [CGet 0 (Some 8) 1; CGet 0 (Some 0) 1] 0 7 1 = RData [] /\
  spec_window (mkdb cfg0 ETxt 3 []) 0 7 1 = [4] /\
  ask (mkdb cfg_all ETxt 3 []) [CGet 0 (Some 8) 1; CGet 0 (Some 0) 1] 0 7 1 = RData [4].
Proof. repeat split; vm_compute; reflexivity. Qed.

(* 5. recursion counter: 31 failed seeks, then every read fails with GD_E_RECURSE_LEVEL *)
Lemma leak_witness :
  ask (mkdb cfg0 ERaw 0 []) (repeat (CSeek 0 (-5) WSet) 31) 0 0 2 = RErr E_RECURSE /\
  ask (mkdb cfg_all ERaw 0 []) (repeat (CSeek 0 (-5) WSet) 31) 0 0 2 = RData [0; 1].
Proof. split; vm_compute; reflexivity. Qed.

(* 6. a window entirely before sample 0 of the RAW input: GD_E_RANGE instead of padding *)
Lemma negseek_witness :
  ask (mkdb cfg0 ERaw 0 [FPhase 0 (-3)]) [] 1 0 2 = RErr E_RANGE /\
  ask (mkdb cfg0 ERaw 0 [FPhase 0 (-3)]) [] 1 0 5 = RData [0; 0; 0; 0; 1] /\
  ask (mkdb cfg_all ERaw 0 [FPhase 0 (-3)]) [] 1 0 2 = RData [0; 0].
Proof. repeat split; vm_compute; reflexivity. Qed.

Lemma statement_refuted : ~ history_independent_statement dec4 cfg0.
Proof. exact bz_backward_refuted. Qed.

(* on every witness above the fully repaired configuration satisfies the statement *)
Lemma level_zero_after_failed_calls :
  s_level (run dec4 (mkdb cfg_all ERaw 0 []) (init (mkdb cfg_all ERaw 0 [])) (repeat (CSeek 0 (-5) WSet) 40)) = 0.
Proof. vm_compute. reflexivity. Qed.
