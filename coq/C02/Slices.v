(* C02: list/slice lemmas used by the codec proofs *)
From Coq Require Import ZArith List Bool Lia.
From GD Require Import C02.Model.
Import ListNotations.
Local Open Scope Z_scope.

Lemma len_nonneg {A} (l : list A) : 0 <= len l.
Proof. unfold len. lia. Qed.

Lemma len_app {A} (a b : list A) : len (a ++ b) = len a + len b.
Proof. unfold len. rewrite app_length. lia. Qed.

Lemma len_nil {A} : len (@nil A) = 0.
Proof. reflexivity. Qed.

Lemma slice_len {A} (l : list A) a n :
  0 <= a -> 0 <= n -> len (slice l a n) = Z.max 0 (Z.min n (len l - a)).
Proof.
  intros Ha Hn. unfold slice, len.
  rewrite firstn_length, skipn_length. lia.
Qed.

Lemma slice_nil_n {A} (l : list A) a : slice l a 0 = [].
Proof. unfold slice. reflexivity. Qed.

Lemma slice_neg {A} (l : list A) a n : n <= 0 -> slice l a n = [].
Proof. intros. unfold slice. replace (Z.to_nat n) with O by lia. reflexivity. Qed.

Lemma my_skipn_skipn {A} (x y : nat) (l : list A) : skipn x (skipn y l) = skipn (x + y) l.
Proof.
  revert l. induction y; intros l; simpl.
  - rewrite Nat.add_0_r. reflexivity.
  - rewrite Nat.add_succ_r. destruct l; simpl.
    + apply skipn_nil.
    + apply IHy.
Qed.

Lemma slice_app {A} (l : list A) a n m :
  0 <= a -> 0 <= n -> 0 <= m -> slice l a n ++ slice l (a + n) m = slice l a (n + m).
Proof.
  intros Ha Hn Hm. unfold slice.
  replace (Z.to_nat (a + n)) with (Z.to_nat n + Z.to_nat a)%nat by lia.
  replace (Z.to_nat (n + m)) with (Z.to_nat n + Z.to_nat m)%nat by lia.
  rewrite <- my_skipn_skipn.
  set (k := skipn (Z.to_nat a) l).
  generalize (Z.to_nat n) as x, (Z.to_nat m) as y. clearbody k.
  intros x. revert k. induction x; intros k y; simpl.
  - reflexivity.
  - destruct k; simpl.
    + rewrite firstn_nil. reflexivity.
    + f_equal. apply IHx.
Qed.

Lemma firstn_slice {A} (l : list A) a n k :
  0 <= k -> 0 <= n -> firstn (Z.to_nat k) (slice l a n) = slice l a (Z.min k n).
Proof.
  intros Hk Hn. unfold slice. rewrite firstn_firstn.
  f_equal. lia.
Qed.

Lemma slice_slice {A} (l : list A) b e p n :
  0 <= b -> 0 <= p -> 0 <= n -> p + n <= e -> slice (slice l b e) p n = slice l (b + p) n.
Proof.
  intros Hb Hp Hn Hpe. unfold slice.
  replace (Z.to_nat (b + p)) with (Z.to_nat p + Z.to_nat b)%nat by lia.
  rewrite <- my_skipn_skipn.
  set (k := skipn (Z.to_nat b) l). clearbody k.
  assert (Hle : (Z.to_nat p + Z.to_nat n <= Z.to_nat e)%nat) by lia.
  revert Hle. generalize (Z.to_nat p) as x, (Z.to_nat n) as y, (Z.to_nat e) as z.
  intros x. revert k. induction x; intros k y z Hle; simpl.
  - rewrite firstn_firstn. f_equal. lia.
  - destruct z; [lia|]. destruct k; simpl.
    + rewrite firstn_nil. reflexivity.
    + apply IHx. lia.
Qed.

Lemma slice_full_prefix {A} (l : list A) a n m :
  0 <= a -> 0 <= n -> n <= m -> firstn (Z.to_nat n) (slice l a m) = slice l a n.
Proof. intros. rewrite firstn_slice by lia. f_equal. lia. Qed.

Lemma slice_beyond {A} (l : list A) a n : len l <= a -> slice l a n = [].
Proof.
  intros H. unfold slice. rewrite skipn_all2; [apply firstn_nil|]. unfold len in H. lia.
Qed.

Lemma firstn_len_ge {A} (l : list A) k : len l <= k -> firstn (Z.to_nat k) l = l.
Proof. intros. apply firstn_all2. unfold len in *. lia. Qed.

Lemma slice_app' {A} (l : list A) a n b m k :
  a + n = b -> n + m = k -> 0 <= a -> 0 <= n -> 0 <= m -> slice l a n ++ slice l b m = slice l a k.
Proof. intros <- <- Ha Hn Hm. apply slice_app; assumption. Qed.
