(* C04 proofs about Bytes.v *)
From Coq Require Import ZArith List Bool Lia.
From GD Require Import C04.Bytes.
Import ListNotations.
Local Open Scope Z_scope.
Arguments arm_swap8 : simpl never.

(* ------------------------------------------------------------ digits *)
Lemma le_bytes_length w z : length (le_bytes w z) = w.
Proof. revert z; induction w; intros; cbn; auto. Qed.

Lemma le_bytes_bytes w z : Forall is_byte (le_bytes w z).
Proof.
  revert z; induction w; intros; cbn; constructor; auto.
  unfold is_byte. apply Z.mod_pos_bound. lia.
Qed.

Lemma le_val_le_bytes w z : le_val (le_bytes w z) = z mod 256 ^ Z.of_nat w.
Proof.
  revert z; induction w; intros.
  - cbn. now rewrite Z.mod_1_r.
  - cbn [le_bytes le_val]. rewrite IHw.
    rewrite Nat2Z.inj_succ, Z.pow_succ_r by lia.
    rewrite Z.rem_mul_r by lia. lia.
Qed.

Lemma le_bytes_le_val l : Forall is_byte l -> le_bytes (length l) (le_val l) = l.
Proof.
  induction 1 as [|b r Hb Hr IH]; cbn [length le_bytes le_val]; auto.
  unfold is_byte in Hb.
  replace (b + 256 * le_val r) with (b + le_val r * 256) by lia.
  rewrite Z_mod_plus_full, Z_div_plus_full by lia.
  rewrite Z.mod_small, Z.div_small by lia. cbn [Z.add].
  now rewrite IH.
Qed.

Lemma le_bytes_nth w z k : (k < w)%nat -> nth k (le_bytes w z) 0 = (z / 256 ^ Z.of_nat k) mod 256.
Proof.
  revert z k; induction w; intros z k H; [lia|].
  destruct k; cbn [le_bytes nth].
  - now rewrite Z.div_1_r.
  - rewrite IHw by lia. rewrite Nat2Z.inj_succ, Z.pow_succ_r by lia.
    rewrite Z.div_div by lia. reflexivity.
Qed.

(* ------------------------------------------------------------ permutations *)
Lemma arm_swap8_involutive l : length l = 8%nat -> arm_swap8 (arm_swap8 l) = l.
Proof.
  intros H. do 9 (destruct l as [|? l]; try discriminate). reflexivity.
Qed.

Lemma arm_swap8_length l : length l = 8%nat -> length (arm_swap8 l) = 8%nat.
Proof. intros H. do 9 (destruct l as [|? l]; try discriminate). reflexivity. Qed.

Lemma arm_swap8_rev l : length l = 8%nat -> arm_swap8 (rev l) = rev (arm_swap8 l).
Proof. intros H. do 9 (destruct l as [|? l]; try discriminate). reflexivity. Qed.

Lemma arm_swap8_bytes l : Forall is_byte l -> Forall is_byte (arm_swap8 l).
Proof.
  intros H. unfold arm_swap8. apply Forall_app. split.
  - rewrite <- (firstn_skipn 4 l) in H. apply Forall_app in H. tauto.
  - rewrite <- (firstn_skipn 4 l) in H. apply Forall_app in H. tauto.
Qed.

Lemma swap_involutive ef af l :
  (af = true -> length l = 8%nat) -> fix_comp ef af (fix_comp ef af l) = l.
Proof.
  intros H. unfold fix_comp. destruct af, ef; cbn.
  - specialize (H eq_refl). rewrite arm_swap8_rev by (apply arm_swap8_length; auto).
    rewrite rev_involutive. apply arm_swap8_involutive; auto.
  - apply arm_swap8_involutive; auto.
  - apply rev_involutive.
  - reflexivity.
Qed.

(* ------------------------------------------------------------ components *)
Definition arm_applies (h : host) (w : nat) (fl : bool) (s : sexflags) : bool :=
  (fl && (w =? 8)%nat && eff_arm h s)%bool.

Lemma arm_applies_w h w fl s : arm_applies h w fl s = true -> w = 8%nat.
Proof.
  unfold arm_applies. intros H. apply andb_prop in H as [H _]. apply andb_prop in H as [_ H].
  now apply Nat.eqb_eq in H.
Qed.

Lemma enc_comp_length h w fl s z : length (enc_comp h w fl s z) = w.
Proof.
  unfold enc_comp. fold (arm_applies h w fl s).
  destruct (arm_applies h w fl s) eqn:A.
  - pose proof (arm_applies_w _ _ _ _ A); subst w.
    destruct (eff_big h fl s); rewrite ?rev_length; apply arm_swap8_length, le_bytes_length.
  - destruct (eff_big h fl s); rewrite ?rev_length; apply le_bytes_length.
Qed.

Lemma enc_comp_bytes h w fl s z : Forall is_byte (enc_comp h w fl s z).
Proof.
  unfold enc_comp.
  assert (B := le_bytes_bytes w z).
  destruct (fl && (w =? 8)%nat && eff_arm h s)%bool; destruct (eff_big h fl s);
    try apply Forall_rev; try apply arm_swap8_bytes; auto.
Qed.

Theorem dec_enc_comp h w fl s z :
  0 <= z < 256 ^ Z.of_nat w -> dec_comp h w fl s (enc_comp h w fl s z) = z.
Proof.
  intros Hz. unfold dec_comp, enc_comp. fold (arm_applies h w fl s).
  assert (L := le_bytes_length w z).
  destruct (arm_applies h w fl s) eqn:A.
  - pose proof (arm_applies_w _ _ _ _ A); subst w.
    destruct (eff_big h fl s); rewrite ?rev_involutive, arm_swap8_involutive by auto;
      rewrite le_val_le_bytes; apply Z.mod_small; auto.
  - destruct (eff_big h fl s); rewrite ?rev_involutive;
      rewrite le_val_le_bytes; apply Z.mod_small; auto.
Qed.

Theorem enc_dec_comp h w fl s l :
  length l = w -> Forall is_byte l -> enc_comp h w fl s (dec_comp h w fl s l) = l.
Proof.
  intros L B. subst w. unfold dec_comp, enc_comp. fold (arm_applies h (length l) fl s).
  destruct (arm_applies h (length l) fl s) eqn:A.
  - pose proof (arm_applies_w _ _ _ _ A) as L8.
    destruct (eff_big h fl s).
    + assert (L2 : length (arm_swap8 (rev l)) = length l)
        by (rewrite L8; apply arm_swap8_length; now rewrite rev_length).
      rewrite <- L2 at 1. rewrite le_bytes_le_val by (apply arm_swap8_bytes, Forall_rev; auto).
      rewrite arm_swap8_involutive by (now rewrite rev_length). apply rev_involutive.
    + assert (L2 : length (arm_swap8 l) = length l) by (rewrite L8; apply arm_swap8_length; auto).
      rewrite <- L2 at 1. rewrite le_bytes_le_val by (apply arm_swap8_bytes; auto).
      apply arm_swap8_involutive; auto.
  - destruct (eff_big h fl s).
    + rewrite <- (rev_length l) at 1. rewrite le_bytes_le_val by (apply Forall_rev; auto).
      apply rev_involutive.
    + apply le_bytes_le_val; auto.
Qed.

(* the meaning of the stored order: stored byte k is digit digit_index k *)
Lemma perm8_nth (big arm : bool) (l : list byte) k :
  length l = 8%nat -> (k < 8)%nat ->
  nth k (let b := if arm then arm_swap8 l else l in if big then rev b else b) 0
  = nth (digit_index 8 big arm k) l 0.
Proof.
  intros L K. do 9 (destruct l as [|? l]; try discriminate).
  do 8 (destruct k as [|k]; [destruct big, arm; reflexivity|]). lia.
Qed.

Theorem enc_comp_digits h w fl s z k :
  (k < w)%nat ->
  nth k (enc_comp h w fl s z) 0 =
  (z / 256 ^ Z.of_nat (digit_index w (eff_big h fl s) (arm_applies h w fl s) k)) mod 256.
Proof.
  intros K. unfold enc_comp. fold (arm_applies h w fl s).
  destruct (arm_applies h w fl s) eqn:A.
  - pose proof (arm_applies_w _ _ _ _ A); subst w.
    rewrite (perm8_nth (eff_big h fl s) true) by (auto using le_bytes_length).
    apply le_bytes_nth. unfold digit_index.
    destruct (eff_big h fl s); repeat match goal with |- context [(?a <? ?b)%nat] => destruct (Nat.ltb_spec a b) end; lia.
  - unfold digit_index. destruct (eff_big h fl s).
    + rewrite rev_nth by (now rewrite le_bytes_length). rewrite le_bytes_length.
      replace (w - S k)%nat with (w - 1 - k)%nat by lia. apply le_bytes_nth. lia.
    + now apply le_bytes_nth.
Qed.

(* ------------------------------------------------------------ fix_endianness on one component *)
Lemma fix_comp_enc h t old new z :
  let '(ef, af) := check_byte_sex h t old new in
  fix_comp ef af (enc_comp h (cwidth t) (is_float t) old z) = enc_comp h (cwidth t) (is_float t) new z.
Proof.
  unfold check_byte_sex, enc_comp, fix_comp, eff_big, eff_arm.
  assert (L8 := le_bytes_length 8 z).
  destruct t; cbn [tsize cwidth is_float Nat.eqb andb];
    try reflexivity;
    try (destruct (norm_big _ old), (norm_big _ new); cbn; rewrite ?rev_involutive; reflexivity);
    destruct (norm_big _ old), (norm_big _ new), (s_arm old), (s_arm new), (h_arm h); cbn;
    rewrite <- ?arm_swap8_rev by auto;
    rewrite ?rev_involutive; rewrite ?arm_swap8_involutive by (rewrite ?rev_length; auto);
    rewrite ?rev_involutive; reflexivity.
Qed.

(* ------------------------------------------------------------ chunks *)
Lemma chunks_concat n (ls : list (list byte)) fuel :
  (0 < n)%nat -> Forall (fun c => length c = n) ls -> (length ls <= fuel)%nat ->
  chunks n fuel (concat ls) = ls.
Proof.
  intros Hn. revert fuel. induction ls as [|c r IH]; intros fuel F Hf.
  - destruct fuel; reflexivity.
  - inversion F as [|? ? Hc Hr]; subst. destruct fuel; [cbn in Hf; lia|].
    cbn [concat chunks]. destruct (c ++ concat r) eqn:E.
    + destruct c; [cbn in Hn; lia | discriminate].
    + rewrite <- E. rewrite firstn_app, firstn_all, Nat.sub_diag, firstn_O, app_nil_r.
      rewrite skipn_app, skipn_all, Nat.sub_diag. cbn [skipn app].
      rewrite IH; auto. cbn in Hf; lia.
Qed.

Lemma concat_length_uniform n (ls : list (list byte)) :
  Forall (fun c => length c = n) ls -> length (concat ls) = (length ls * n)%nat.
Proof.
  induction 1; cbn; auto. rewrite app_length. lia.
Qed.

Lemma map_chunks_concat n f ls :
  (0 < n)%nat -> Forall (fun c => length c = n) ls ->
  map_chunks n f (concat ls) = concat (map f ls).
Proof.
  intros Hn F. unfold map_chunks. rewrite chunks_concat; auto.
  rewrite (concat_length_uniform n) by auto. nia.
Qed.

(* ------------------------------------------------------------ samples *)
Lemma cwidth_pos t : (0 < cwidth t)%nat.
Proof. destruct t; cbn; lia. Qed.

Lemma tsize_cwidth t : tsize t = (ncomp t * cwidth t)%nat.
Proof. destruct t; reflexivity. Qed.

Lemma enc_sample_comps_uniform h t s v :
  Forall (fun c => length c = cwidth t) (map (enc_comp h (cwidth t) (is_float t) s) v).
Proof.
  apply Forall_forall. intros c Hc. apply in_map_iff in Hc as [z [<- _]]. apply enc_comp_length.
Qed.

Lemma enc_sample_length h t s v : wf_sample t v -> length (enc_sample h t s v) = tsize t.
Proof.
  intros [L _]. unfold enc_sample.
  rewrite (concat_length_uniform (cwidth t)) by apply enc_sample_comps_uniform.
  rewrite map_length, L. now rewrite tsize_cwidth.
Qed.

Theorem dec_enc_sample h t s v : wf_sample t v -> dec_sample h t s (enc_sample h t s v) = v.
Proof.
  intros [L F]. unfold dec_sample, enc_sample.
  rewrite chunks_concat.
  - rewrite map_map. rewrite <- (map_id v) at 2. apply map_ext_in.
    intros z Hz. apply dec_enc_comp. rewrite Forall_forall in F. auto.
  - apply cwidth_pos.
  - apply enc_sample_comps_uniform.
  - rewrite (concat_length_uniform (cwidth t)) by apply enc_sample_comps_uniform.
    rewrite !map_length. pose proof (cwidth_pos t). nia.
Qed.

Theorem fix_endianness_sample h t old new v :
  fix_endianness h t old new (enc_sample h t old v) = enc_sample h t new v.
Proof.
  unfold fix_endianness. pose proof (fun z => fix_comp_enc h t old new z) as H.
  destruct (check_byte_sex h t old new) as [ef af].
  unfold enc_sample. rewrite map_chunks_concat.
  - rewrite map_map. f_equal. apply map_ext. intros z. apply H.
  - apply cwidth_pos.
  - apply enc_sample_comps_uniform.
Qed.

(* ------------------------------------------------------------ arrays *)
Lemma raw_layout_as_comps h t s vs :
  raw_layout h t s vs = concat (map (enc_comp h (cwidth t) (is_float t) s) (concat vs)).
Proof.
  unfold raw_layout, enc_sample. induction vs; cbn; auto.
  rewrite map_app, concat_app. now rewrite IHvs.
Qed.

(* fix_endianness old new = enc new o dec old, on whole buffers: this is what
   putdata (old = 0), getdata (new = 0) and _GD_MogrifyFile rely on *)
Theorem fix_endianness_layout h t old new vs :
  fix_endianness h t old new (raw_layout h t old vs) = raw_layout h t new vs.
Proof.
  unfold fix_endianness. pose proof (fun z => fix_comp_enc h t old new z) as H.
  destruct (check_byte_sex h t old new) as [ef af].
  rewrite !raw_layout_as_comps. rewrite map_chunks_concat.
  - rewrite map_map. f_equal. apply map_ext. intros z. apply H.
  - apply cwidth_pos.
  - apply Forall_forall. intros c Hc. apply in_map_iff in Hc as [z [<- _]]. apply enc_comp_length.
Qed.

Lemma raw_layout_uniform h t s vs :
  Forall (wf_sample t) vs -> Forall (fun c => length c = tsize t) (map (enc_sample h t s) vs).
Proof.
  intros F. apply Forall_forall. intros c Hc. apply in_map_iff in Hc as [v [<- Hv]].
  apply enc_sample_length. rewrite Forall_forall in F. auto.
Qed.

Lemma tsize_pos t : (0 < tsize t)%nat.
Proof. destruct t; cbn; lia. Qed.

Theorem raw_layout_length h t s vs :
  Forall (wf_sample t) vs -> length (raw_layout h t s vs) = (length vs * tsize t)%nat.
Proof.
  intros F. unfold raw_layout. rewrite (concat_length_uniform (tsize t)) by now apply raw_layout_uniform.
  now rewrite map_length.
Qed.

Lemma skipn_concat_uniform {A} n (ls : list (list A)) k :
  Forall (fun c => length c = n) ls -> skipn (k * n) (concat ls) = concat (skipn k ls).
Proof.
  revert ls; induction k; intros ls F; [reflexivity|].
  destruct ls as [|c r]; [cbn [concat skipn]; now rewrite skipn_nil|]. inversion F; subst. cbn [concat skipn].
  replace (S k * length c)%nat with (length c + k * length c)%nat by lia.
  rewrite skipn_app. rewrite skipn_all2 by lia. cbn [app].
  replace (length c + k * length c - length c)%nat with (k * length c)%nat by lia. auto.
Qed.

Lemma firstn_concat_uniform {A} n (ls : list (list A)) k :
  Forall (fun c => length c = n) ls -> firstn (k * n) (concat ls) = concat (firstn k ls).
Proof.
  revert ls; induction k; intros ls F; [reflexivity|].
  destruct ls as [|c r]; [cbn [concat firstn]; now rewrite firstn_nil|]. inversion F; subst. cbn [concat firstn].
  replace (S k * length c)%nat with (length c + k * length c)%nat by lia.
  rewrite firstn_app_2. f_equal. auto.
Qed.

Lemma skipn_map' {A B} (f : A -> B) n l : skipn n (map f l) = map f (skipn n l).
Proof. revert l; induction n; intros [|x l]; cbn; auto. Qed.

(* sample k sits at byte offset k * size *)
Theorem raw_layout_index h t s vs k :
  Forall (wf_sample t) vs -> (k < length vs)%nat ->
  firstn (tsize t) (skipn (k * tsize t) (raw_layout h t s vs)) = enc_sample h t s (nth k vs []).
Proof.
  intros F K. unfold raw_layout.
  rewrite (skipn_concat_uniform (tsize t)) by now apply raw_layout_uniform.
  rewrite skipn_map'.
  assert (E : skipn k vs = nth k vs [] :: skipn (S k) vs).
  { clear F. revert k K. induction vs; intros k K; [cbn in K; lia|].
    destruct k; [reflexivity|]. cbn in K. cbn [skipn nth]. rewrite IHvs by lia. reflexivity. }
  rewrite E. cbn [map concat].
  assert (W : wf_sample t (nth k vs [])).
  { rewrite Forall_forall in F. apply F. now apply nth_In. }
  rewrite firstn_app. rewrite (enc_sample_length h t s _ W), Nat.sub_diag, firstn_O, app_nil_r.
  apply firstn_all2. rewrite (enc_sample_length h t s _ W). lia.
Qed.

Theorem raw_decode_layout h t s vs :
  Forall (wf_sample t) vs -> raw_decode h t s (raw_layout h t s vs) = vs.
Proof.
  intros F. unfold raw_decode, raw_layout. rewrite chunks_concat.
  - rewrite map_map. rewrite <- (map_id vs) at 2. apply map_ext_in.
    intros v Hv. apply dec_enc_sample. rewrite Forall_forall in F; auto.
  - apply tsize_pos.
  - now apply raw_layout_uniform.
  - rewrite (concat_length_uniform (tsize t)) by now apply raw_layout_uniform.
    rewrite !map_length. pose proof (tsize_pos t). nia.
Qed.

(* ------------------------------------------------------------ SIE *)
Lemma sample_eqb_eq a b : sample_eqb a b = true -> a = b.
Proof.
  unfold sample_eqb. intros H. apply andb_prop in H as [L H]. apply Nat.eqb_eq in L.
  revert b L H. induction a; intros [|y b] L H; try discriminate; auto.
  cbn in H. apply andb_prop in H as [E H]. apply Z.eqb_eq in E. cbn in E. subst.
  f_equal. apply IHa; auto.
Qed.

Lemma sample_eqb_refl a : sample_eqb a a = true.
Proof.
  unfold sample_eqb. rewrite Nat.eqb_refl. cbn. induction a; cbn; auto. now rewrite Z.eqb_refl.
Qed.

Lemma sie_roundtrip_from k vs :
  sie_expand_from (k - 1) (sie_compress_from k vs) = vs /\
  ends_increasing (k - 1) (sie_compress_from k vs) /\
  (forall e v rest, sie_compress_from k vs = (e, v) :: rest -> k <= e) /\
  (vs <> [] -> exists e v rest, sie_compress_from k vs = rest ++ [(e, v)] /\ e = k + Z.of_nat (length vs) - 1).
Proof.
  revert k. induction vs as [|v r IH]; intros k.
  - cbn. repeat split; auto; try discriminate. congruence.
  - cbn [sie_compress_from]. specialize (IH (k + 1)).
    replace (k + 1 - 1) with k in IH by lia.
    destruct IH as (X & I & Hd & Last).
    destruct (sie_compress_from (k + 1) r) as [|[e v'] rest] eqn:E.
    + destruct r; [|cbn in X; discriminate].
      cbn. replace (k - (k - 1)) with 1 by lia. cbn. repeat split; auto; try lia.
      * intros e v0 rest H. inversion H; lia.
      * intros _. exists k, v, []. split; auto. lia.
    + pose proof (Hd _ _ _ eq_refl) as Hk.
      assert (Hlast : exists e0 v0 rest0, (e, v') :: rest = rest0 ++ [(e0, v0)] /\ e0 = k + 1 + Z.of_nat (length r) - 1).
      { apply Last. intros ->. cbn in E. discriminate. }
      destruct (sample_eqb v v') eqn:Q.
      * apply sample_eqb_eq in Q. subst v'.
        cbn [sie_expand_from ends_increasing] in *.
        replace (Z.to_nat (e - (k - 1))) with (S (Z.to_nat (e - k))) by lia.
        cbn [repeat app]. replace (Z.max (k - 1) e) with (Z.max k e) by lia.
        rewrite X. repeat split; auto; try lia; try tauto.
        -- intros e0 v0 rest0 H. inversion H; lia.
        -- intros _. destruct Hlast as (e0 & v0 & rest0 & H1 & H2).
           exists e0, v0, rest0. split; auto. cbn [length]. lia.
      * cbn [sie_expand_from ends_increasing] in *.
        replace (Z.to_nat (k - (k - 1))) with 1%nat by lia. cbn [repeat app].
        replace (Z.max (k - 1) k) with k by lia. rewrite X. repeat split; auto; try lia; try tauto.
        -- intros e0 v0 rest0 H. inversion H; lia.
        -- intros _. destruct Hlast as (e0 & v0 & rest0 & H1 & H2).
           exists e0, v0, ((k, v) :: rest0). split; [cbn; now rewrite H1|]. cbn [length]. lia.
Qed.

Theorem sie_expand_compress vs : sie_expand (sie_compress vs) = vs.
Proof. exact (proj1 (sie_roundtrip_from 0 vs)). Qed.

Theorem sie_compress_increasing vs : ends_increasing (-1) (sie_compress vs).
Proof. exact (proj1 (proj2 (sie_roundtrip_from 0 vs))). Qed.

Theorem sie_compress_last vs :
  vs <> [] -> exists e v rest, sie_compress vs = rest ++ [(e, v)] /\ e = Z.of_nat (length vs) - 1.
Proof.
  intros H. destruct (proj2 (proj2 (proj2 (sie_roundtrip_from 0 vs))) H) as (e & v & rest & A & B).
  exists e, v, rest. split; auto.
Qed.

Lemma dec_enc_sie_index h t s e : 0 <= e < 2 ^ 64 -> dec_sie_index h t s (enc_sie_index h t s e) = e.
Proof.
  intros He. unfold dec_sie_index, enc_sie_index.
  assert (E : e mod 2 ^ 64 = e) by (apply Z.mod_small; auto). rewrite E.
  destruct (negb _), (h_int_big h); rewrite ?rev_involutive; rewrite le_val_le_bytes;
    change (256 ^ Z.of_nat 8) with (2 ^ 64); exact E.
Qed.

Lemma enc_sie_index_length h t s e : length (enc_sie_index h t s e) = 8%nat.
Proof.
  unfold enc_sie_index. destruct (negb _), (h_int_big h); rewrite ?rev_length; apply le_bytes_length.
Qed.

Theorem sie_parse_layout h t s rs :
  Forall (fun r => 0 <= fst r < 2 ^ 64 /\ wf_sample t (snd r)) rs ->
  sie_parse h t s (sie_layout h t s rs) = rs.
Proof.
  intros F. unfold sie_parse, sie_layout.
  assert (U : Forall (fun c => length c = (8 + tsize t)%nat)
                (map (fun r => enc_sie_index h t s (fst r) ++ enc_sample h t s (snd r)) rs)).
  { apply Forall_forall. intros c Hc. apply in_map_iff in Hc as [r [<- Hr]].
    rewrite Forall_forall in F. destruct (F _ Hr) as [_ W].
    rewrite app_length, enc_sie_index_length, (enc_sample_length h t s _ W). reflexivity. }
  rewrite chunks_concat; auto; try lia.
  - rewrite map_map. rewrite <- (map_id rs) at 2. apply map_ext_in.
    intros [e v] Hr. rewrite Forall_forall in F. destruct (F _ Hr) as [He W]. cbn [fst snd] in *.
    rewrite firstn_app, firstn_all2 by (rewrite enc_sie_index_length; lia).
    rewrite enc_sie_index_length. cbn [Nat.sub firstn]. rewrite app_nil_r.
    rewrite skipn_app, skipn_all2 by (rewrite enc_sie_index_length; lia).
    rewrite enc_sie_index_length. cbn [Nat.sub skipn app].
    rewrite dec_enc_sie_index by auto. rewrite dec_enc_sample by auto. reflexivity.
  - rewrite (concat_length_uniform (8 + tsize t)) by auto. rewrite !map_length. nia.
Qed.

(* ------------------------------------------------------------ text *)
Definition is_digit (b : byte) := 48 <= b <= 57.

Lemma pos_digits_digits fuel z acc :
  0 <= z -> Forall is_digit acc -> Forall is_digit (pos_digits fuel z acc).
Proof.
  revert z acc. induction fuel; intros z acc Hz Ha; cbn; auto.
  assert (D : is_digit (48 + z mod 10)).
  { unfold is_digit. pose proof (Z.mod_pos_bound z 10). lia. }
  destruct (z / 10 =? 0); [constructor; auto|].
  apply IHfuel; [apply Z.div_pos; lia | constructor; auto].
Qed.

Lemma pos_digits_nonempty fuel z acc : pos_digits (S fuel) z acc <> [].
Proof.
  revert z acc. induction fuel; intros z acc; cbn.
  - destruct (z / 10 =? 0); discriminate.
  - destruct (z / 10 =? 0); [discriminate|]. apply IHfuel.
Qed.

Lemma pos_digits_parse fuel z acc :
  0 <= z < 2 ^ Z.of_nat fuel ->
  fold_left (fun a d => 10 * a + (d - 48)) (pos_digits fuel z acc) 0 =
  fold_left (fun a d => 10 * a + (d - 48)) acc z.
Proof.
  revert z acc. induction fuel; intros z acc Hz.
  - cbn in *. now replace z with 0 by lia.
  - cbn [pos_digits]. rewrite Nat2Z.inj_succ, Z.pow_succ_r in Hz by lia.
    destruct (z / 10 =? 0) eqn:E.
    + apply Z.eqb_eq in E. cbn [fold_left]. f_equal.
      pose proof (Z.div_mod z 10). lia.
    + rewrite IHfuel.
      * cbn [fold_left]. f_equal. pose proof (Z.div_mod z 10). lia.
      * split; [apply Z.div_pos; lia|].
        apply Z.div_lt_upper_bound; lia.
Qed.

Lemma print_nat_parse z : 0 <= z -> parse_digits (print_nat_Z z) = z.
Proof.
  intros Hz. unfold parse_digits, print_nat_Z. rewrite pos_digits_parse; [reflexivity|].
  split; auto. destruct (Z.eq_dec z 0) as [->|N]; [cbn; lia|].
  rewrite Nat2Z.inj_succ, Z2Nat.id by apply Z.log2_nonneg.
  apply Z.log2_spec. lia.
Qed.

Theorem parse_print_Z z : parse_Z (print_Z z) = z.
Proof.
  unfold print_Z. destruct (Z.ltb_spec z 0).
  - unfold parse_Z. rewrite Z.eqb_refl. rewrite print_nat_parse by lia. lia.
  - assert (D : Forall is_digit (print_nat_Z z)) by (apply pos_digits_digits; auto).
    assert (N : print_nat_Z z <> []) by apply pos_digits_nonempty.
    unfold parse_Z. destruct (print_nat_Z z) as [|b r] eqn:E; [congruence|].
    inversion D as [|? ? Hb _]; subst. unfold is_digit in Hb.
    destruct (Z.eqb_spec b 45); [lia|]. rewrite <- E. now apply print_nat_parse.
Qed.

Lemma print_Z_no_newline z : Forall (fun b => b <> 10) (print_Z z).
Proof.
  assert (P : forall y, 0 <= y -> Forall (fun b => b <> 10) (print_nat_Z y)).
  { intros y Hy. eapply Forall_impl; [|apply pos_digits_digits; auto]. unfold is_digit. intros; lia. }
  unfold print_Z. destruct (Z.ltb_spec z 0); [constructor; [lia|apply P; lia] | apply P; lia].
Qed.

Lemma split_lines_line l rest cur :
  Forall (fun b => b <> 10) l ->
  split_lines (l ++ 10 :: rest) cur = (rev cur ++ l) :: split_lines rest [].
Proof.
  revert cur. induction l as [|b l IH]; intros cur F.
  - cbn. now rewrite app_nil_r.
  - inversion F; subst. cbn. destruct (Z.eqb_spec b 10); [contradiction|].
    rewrite IH by auto. cbn. now rewrite <- app_assoc.
Qed.

Lemma int_pattern_value t z :
  0 <= z < 256 ^ Z.of_nat (tsize t) -> int_pattern t (int_value t z) = z.
Proof.
  intros Hz. unfold int_pattern, int_value.
  destruct (is_signed t && (256 ^ Z.of_nat (tsize t) / 2 <=? z))%bool.
  - replace (z - 256 ^ Z.of_nat (tsize t)) with (z + (-1) * 256 ^ Z.of_nat (tsize t)) by lia.
    rewrite Z.mod_add by lia. now apply Z.mod_small.
  - now apply Z.mod_small.
Qed.

Definition wf_int_sample (t : gdtype) (v : sample) : Prop :=
  exists z, v = [z] /\ 0 <= z < 256 ^ Z.of_nat (tsize t).

Theorem text_decode_layout t vs :
  is_float t = false -> Forall (wf_int_sample t) vs -> text_decode t (text_layout t vs) = vs.
Proof.
  intros _ F. unfold text_decode, text_layout.
  induction F as [|v r [z [-> Hz]] Hr IH]; [reflexivity|].
  cbn [map concat text_line]. rewrite <- app_assoc. cbn [app].
  rewrite split_lines_line by apply print_Z_no_newline.
  cbn [map rev app]. rewrite IH. rewrite parse_print_Z, int_pattern_value; auto.
Qed.
