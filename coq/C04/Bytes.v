(* C04 base layer: bytes, byte orders (little, big, ARM middle-endian doubles),
   the model of _GD_CheckByteSex / _GD_FixEndianness (src/endian.c:176-312),
   sample encoders for the twelve native types and the RAW file layouts
   (bare array, SIE records, text lines).  Definitions only; proofs are in
   BytesProofs.v. *)
From Coq Require Import ZArith List Bool Lia.
Import ListNotations.
Local Open Scope Z_scope.

Definition byte := Z.
Definition is_byte (b : Z) : Prop := 0 <= b < 256.

(* ---- little-endian digits ---- *)
Fixpoint le_bytes (w : nat) (z : Z) : list byte :=
  match w with
  | O => []
  | S w' => (z mod 256) :: le_bytes w' (z / 256)
  end.

Fixpoint le_val (l : list byte) : Z :=
  match l with
  | [] => 0
  | b :: r => b + 256 * le_val r
  end.

(* ---- byte sex as the library stores it (getdata.h: GD_BIG_ENDIAN 0x4,
   GD_LITTLE_ENDIAN 0x8, GD_ARM_FLAG 0x2000) ---- *)
Record sexflags := mkSex { s_big : bool; s_little : bool; s_arm : bool }.

Definition SexLittle := mkSex false true false.
Definition SexBig := mkSex true false false.
Definition SexLittleArm := mkSex false true true.
Definition SexBigArm := mkSex true false true.
Definition SexZero := mkSex false false false.   (* the literal 0 the callers pass = "native" *)

(* host description: WORDS_BIGENDIAN / FLOATS_BIGENDIAN / ARM_ENDIAN_DOUBLES *)
Record host := mkHost { h_int_big : bool; h_float_big : bool; h_arm : bool }.
Definition x86_64 := mkHost false false false.

(* the twelve native types *)
Inductive gdtype :=
| INT8 | UINT8 | INT16 | UINT16 | INT32 | UINT32 | INT64 | UINT64
| FLOAT32 | FLOAT64 | COMPLEX64 | COMPLEX128.

Definition all_types := [INT8; UINT8; INT16; UINT16; INT32; UINT32; INT64; UINT64;
                         FLOAT32; FLOAT64; COMPLEX64; COMPLEX128].

Definition tsize (t : gdtype) : nat :=
  match t with
  | INT8 | UINT8 => 1 | INT16 | UINT16 => 2 | INT32 | UINT32 | FLOAT32 => 4
  | INT64 | UINT64 | FLOAT64 | COMPLEX64 => 8 | COMPLEX128 => 16
  end%nat.

Definition is_float (t : gdtype) : bool :=
  match t with FLOAT32 | FLOAT64 | COMPLEX64 | COMPLEX128 => true | _ => false end.
Definition is_complex (t : gdtype) : bool :=
  match t with COMPLEX64 | COMPLEX128 => true | _ => false end.
Definition is_signed (t : gdtype) : bool :=
  match t with INT8 | INT16 | INT32 | INT64 => true | _ => false end.

(* number of components and component width: _GD_FixEndianness treats complex
   data as twice as many floats *)
Definition ncomp (t : gdtype) : nat := if is_complex t then 2%nat else 1%nat.
Definition cwidth (t : gdtype) : nat :=
  match t with COMPLEX64 => 4 | COMPLEX128 => 8 | _ => tsize t end%nat.

(* _GD_CheckByteSex normalisation: exactly one of the two endian bits *)
Definition norm_big (native_big : bool) (s : sexflags) : bool :=
  match s_big s, s_little s with
  | false, false => native_big            (* 0  -> sex |= NATIVE *)
  | true, true => negb native_big         (* both -> sex &= ~NATIVE *)
  | b, _ => b
  end.

(* returns (endian_fix, arm_fix) as the C function does for skip_bytes = 1 *)
Definition check_byte_sex (h : host) (t : gdtype) (s1 s2 : sexflags) : bool * bool :=
  if (tsize t =? 1)%nat then (false, false)
  else
    let nb := if is_float t then h_float_big h else h_int_big h in
    let armf := match t with
                | FLOAT64 | COMPLEX128 => negb (Bool.eqb (s_arm s1) (s_arm s2))
                | _ => false end in
    (negb (Bool.eqb (norm_big nb s1) (norm_big nb s2)), armf).

(* ---- operations on buffers in memory ---- *)
Definition arm_swap8 (l : list byte) : list byte := skipn 4 l ++ firstn 4 l.

Fixpoint chunks (n : nat) (fuel : nat) (l : list byte) : list (list byte) :=
  match fuel with
  | O => []
  | S f => match l with
           | [] => []
           | _ => firstn n l :: chunks n f (skipn n l)
           end
  end.

Definition map_chunks (n : nat) (f : list byte -> list byte) (l : list byte) : list byte :=
  concat (map f (chunks n (length l) l)).

(* _GD_FixEndianness(buffer, ns, type, old_sex, new_sex) on the bytes of the
   buffer: ARM word exchange first, then byte reversal of each component *)
Definition fix_comp (ef af : bool) (c : list byte) : list byte :=
  let c1 := if af then arm_swap8 c else c in
  if ef then rev c1 else c1.

Definition fix_endianness (h : host) (t : gdtype) (old new : sexflags) (buf : list byte) : list byte :=
  let '(ef, af) := check_byte_sex h t old new in
  map_chunks (cwidth t) (fix_comp ef af) buf.

(* ---- storage format of one component of width w in a fragment of sex s ---- *)
(* fl = component is IEEE floating point.  The meaning in terms of digit
   positions is digit_index below (lemma enc_comp_digits). *)
Definition eff_big (h : host) (fl : bool) (s : sexflags) : bool :=
  norm_big (if fl then h_float_big h else h_int_big h) s.
(* ARM flag is relative to the host: GD_ARM_ENDIAN is the flag value 0x2000 on
   a non-ARM host and 0 on an ARM host; s_arm is the raw bit *)
Definition eff_arm (h : host) (s : sexflags) : bool := xorb (s_arm s) (h_arm h).

Definition enc_comp (h : host) (w : nat) (fl : bool) (s : sexflags) (z : Z) : list byte :=
  let b := le_bytes w z in
  let b := if (fl && (w =? 8)%nat && eff_arm h s)%bool then arm_swap8 b else b in
  if eff_big h fl s then rev b else b.

Definition dec_comp (h : host) (w : nat) (fl : bool) (s : sexflags) (l : list byte) : Z :=
  let b := if eff_big h fl s then rev l else l in
  let b := if (fl && (w =? 8)%nat && eff_arm h s)%bool then arm_swap8 b else b in
  le_val b.

(* position (power of 256) of the k-th stored byte: the Standards-level meaning *)
Definition digit_index (w : nat) (big arm : bool) (k : nat) : nat :=
  let k1 := if big then (w - 1 - k)%nat else k in
  if arm then (if (k1 <? 4)%nat then k1 + 4 else k1 - 4)%nat else k1.

(* a sample is the list of its component bit patterns (1 or 2 unsigned
   integers below 256^cwidth) *)
Definition sample := list Z.

Definition enc_sample (h : host) (t : gdtype) (s : sexflags) (v : sample) : list byte :=
  concat (map (enc_comp h (cwidth t) (is_float t) s) v).

Definition dec_sample (h : host) (t : gdtype) (s : sexflags) (l : list byte) : sample :=
  map (dec_comp h (cwidth t) (is_float t) s) (chunks (cwidth t) (length l) l).

Definition wf_sample (t : gdtype) (v : sample) : Prop :=
  length v = ncomp t /\ Forall (fun z => 0 <= z < 256 ^ Z.of_nat (cwidth t)) v.

Definition wf_sampleb (t : gdtype) (v : sample) : bool :=
  (length v =? ncomp t)%nat && forallb (fun z => (0 <=? z) && (z <? 256 ^ Z.of_nat (cwidth t))) v.

(* the image of a sample in host memory (what gd_putdata is handed after
   _GD_ConvertType) = encoding with the literal sex 0 *)
Definition mem_sample (h : host) (t : gdtype) (v : sample) : list byte :=
  enc_sample h t SexZero v.

(* ---- file layouts ---- *)
Definition raw_layout (h : host) (t : gdtype) (s : sexflags) (vs : list sample) : list byte :=
  concat (map (enc_sample h t s) vs).

Definition raw_decode (h : host) (t : gdtype) (s : sexflags) (f : list byte) : list sample :=
  map (dec_sample h t s) (chunks (tsize t) (length f) f).

(* SIE: records (index of the last sample of the run, datum) *)
Definition sierec := (Z * sample)%type.

Definition sample_eqb (a b : sample) : bool :=
  (length a =? length b)%nat && forallb (fun p => fst p =? snd p) (combine a b).

(* run-length compression: position counter k = index of the next sample *)
Fixpoint sie_compress_from (k : Z) (vs : list sample) : list sierec :=
  match vs with
  | [] => []
  | v :: r =>
    match sie_compress_from (k + 1) r with
    | (e, v') :: rest => if sample_eqb v v' then (e, v') :: rest else (k, v) :: (e, v') :: rest
    | [] => [(k, v)]
    end
  end.
Definition sie_compress (vs : list sample) : list sierec := sie_compress_from 0 vs.

(* expansion: record (e, v) contributes samples prev+1 .. e *)
Fixpoint sie_expand_from (prev : Z) (rs : list sierec) : list sample :=
  match rs with
  | [] => []
  | (e, v) :: r => repeat v (Z.to_nat (e - prev)) ++ sie_expand_from (Z.max prev e) r
  end.
Definition sie_expand (rs : list sierec) : list sample := sie_expand_from (-1) rs.

Fixpoint ends_increasing (prev : Z) (rs : list sierec) : Prop :=
  match rs with
  | [] => True
  | (e, _) :: r => prev < e /\ ends_increasing e r
  end.

Fixpoint ends_increasingb (prev : Z) (rs : list sierec) : bool :=
  match rs with
  | [] => true
  | (e, _) :: r => (prev <? e) && ends_increasingb e r
  end.

(* the index is a 64-bit integer in the fragment's (integer or float,
   following the field's type: _GD_FileSwapBytes) byte order, never ARM-swapped *)
Definition enc_sie_index (h : host) (t : gdtype) (s : sexflags) (e : Z) : list byte :=
  let b := le_bytes 8 (e mod 2 ^ 64) in
  (* swap = _GD_CheckByteSex(type, sex, 0, 0, NULL): compares with native *)
  let swap := negb (Bool.eqb (eff_big h (is_float t) s) (eff_big h (is_float t) SexZero)) in
  (* memory image of the native int64 is host order *)
  let native := if h_int_big h then rev b else b in
  if swap then rev native else native.

Definition sie_layout (h : host) (t : gdtype) (s : sexflags) (rs : list sierec) : list byte :=
  concat (map (fun r => enc_sie_index h t s (fst r) ++ enc_sample h t s (snd r)) rs).

Definition dec_sie_index (h : host) (t : gdtype) (s : sexflags) (l : list byte) : Z :=
  let swap := negb (Bool.eqb (eff_big h (is_float t) s) (eff_big h (is_float t) SexZero)) in
  let native := if swap then rev l else l in
  le_val (if h_int_big h then rev native else native).

Definition sie_parse (h : host) (t : gdtype) (s : sexflags) (f : list byte) : list sierec :=
  map (fun r => (dec_sie_index h t s (firstn 8 r), dec_sample h t s (skipn 8 r)))
      (chunks (8 + tsize t) (length f) f).

(* text: one decimal number per line *)
Fixpoint pos_digits (fuel : nat) (z : Z) (acc : list byte) : list byte :=
  match fuel with
  | O => acc
  | S f => let acc' := (48 + z mod 10) :: acc in
           if z / 10 =? 0 then acc' else pos_digits f (z / 10) acc'
  end.

Definition print_nat_Z (z : Z) : list byte := pos_digits (S (Z.to_nat (Z.log2 z))) z [].

Definition print_Z (z : Z) : list byte :=
  if z <? 0 then 45 :: print_nat_Z (- z) else print_nat_Z z.

Definition parse_digits (l : list byte) : Z := fold_left (fun a d => 10 * a + (d - 48)) l 0.

Definition parse_Z (l : list byte) : Z :=
  match l with
  | b :: r => if b =? 45 then - parse_digits r else parse_digits l
  | [] => 0
  end.

(* value of an integer sample pattern as the C type sees it *)
Definition int_value (t : gdtype) (z : Z) : Z :=
  if is_signed t && (256 ^ Z.of_nat (tsize t) / 2 <=? z) then z - 256 ^ Z.of_nat (tsize t) else z.

Definition int_pattern (t : gdtype) (v : Z) : Z := v mod 256 ^ Z.of_nat (tsize t).

Definition text_line (t : gdtype) (v : sample) : list byte :=
  match v with
  | [z] => print_Z (int_value t z) ++ [10]
  | _ => [10]
  end.

Definition text_layout (t : gdtype) (vs : list sample) : list byte :=
  concat (map (text_line t) vs).

(* split at newlines *)
Fixpoint split_lines (l : list byte) (cur : list byte) : list (list byte) :=
  match l with
  | [] => match cur with [] => [] | _ => [rev cur] end
  | b :: r => if b =? 10 then rev cur :: split_lines r [] else split_lines r (b :: cur)
  end.

Definition text_decode (t : gdtype) (f : list byte) : list sample :=
  map (fun ln => [int_pattern t (parse_Z ln)]) (split_lines f []).
