(* C04: the encoding table _GD_ef[] (src/encoding.c:59-222) as data, the table
   transcribed by hand from man/dirfile-encoding.5, and the model of
   _GD_ResolveEncoding (src/encoding.c:718-783).  The table itself is
   regenerated from the C source into Gen/EncTable.v by translate/tr_ef.py. *)
From Coq Require Import ZArith List Bool String Lia.
Import ListNotations.
Local Open Scope string_scope.

Record enc_entry := mkEnc {
  e_scheme : string;          (* the GD_*_ENCODED constant *)
  e_scheme_val : Z;           (* its value from getdata.h.in *)
  e_ext : option string;      (* file-name extension; None = NULL (name method decides) *)
  e_ecor : bool; e_swap : bool; e_oop : bool; e_edat : bool;
  e_name : string;            (* the /ENCODING name (ffname) *)
  e_write : bool              (* a write method is present in the built-in function set *)
}.

(* ---- transcription of dirfile-encoding(5): /ENCODING name, extensions,
   "writing occurs out-of-place" ---- *)
Record man_entry := mkMan { m_name : string; m_exts : list string; m_oop : bool }.

Definition man_table : list man_entry := [
  mkMan "none"   [""]              false;
  mkMan "bzip2"  [".bz2"]          true;
  mkMan "flac"   [".flac"]         true;
  mkMan "gzip"   [".gz"]           true;
  mkMan "lzma"   [".xz"; ".lzma"]  true;
  mkMan "sie"    [".sie"]          false;
  mkMan "slim"   [".slm"]          false;
  mkMan "text"   [".txt"]          false;
  mkMan "zzip"   []                false;
  mkMan "zzslim" []                false
].

Definition ext_eqb (a b : string) : bool := if string_dec a b then true else false.

(* every (name, ext) of the C table occurs in the man table and conversely *)
Definition table_pairs (tab : list enc_entry) : list (string * string) :=
  flat_map (fun e => match e_ext e with Some x => [(e_name e, x)] | None => [] end) tab.
Definition man_pairs : list (string * string) :=
  flat_map (fun m => map (fun x => (m_name m, x)) (m_exts m)) man_table.

Definition pair_eqb (a b : string * string) : bool := ext_eqb (fst a) (fst b) && ext_eqb (snd a) (snd b).
Definition subsetb (a b : list (string * string)) : bool :=
  forallb (fun x => existsb (pair_eqb x) b) a.

Definition names_of (tab : list enc_entry) : list string := map e_name tab.

(* OOP agrees with the man page for every entry that can write *)
Definition oop_ok (tab : list enc_entry) : bool :=
  forallb (fun e => match find (fun m => ext_eqb (m_name m) (e_name e)) man_table with
                    | Some m => if e_write e then Bool.eqb (e_oop e) (m_oop m) else true
                    | None => false end) tab.

Definition table_matches_man (tab : list enc_entry) : bool :=
  subsetb (table_pairs tab) man_pairs && subsetb man_pairs (table_pairs tab) && oop_ok tab
  && forallb (fun m => existsb (ext_eqb (m_name m)) (names_of tab)) man_table.

(* ---- discovery: first entry (in table order) of the requested scheme whose
   candidate file  base ++ ext  exists as a regular file.  scheme = None is
   GD_AUTO_ENCODED.  Entries with a NULL extension need the name method of a
   module that is absent from this build (_GD_MissingFramework) and are skipped. *)
Section Resolve.
  Variable exists_file : string -> bool.
  Variable base : string.

  Fixpoint resolve_from (i : nat) (tab : list enc_entry) (scheme : option string) : option nat :=
    match tab with
    | [] => None
    | e :: r =>
      let wanted := match scheme with None => true | Some s => ext_eqb s (e_scheme e) end in
      match e_ext e with
      | Some x => if wanted && exists_file (base ++ x) then Some i else resolve_from (S i) r scheme
      | None => resolve_from (S i) r scheme
      end
    end.
  Definition resolve := resolve_from 0.
End Resolve.

Definition exts_of (tab : list enc_entry) : list string :=
  flat_map (fun e => match e_ext e with Some x => [x] | None => [] end) tab.

Fixpoint nodupb (l : list string) : bool :=
  match l with [] => true | x :: r => negb (existsb (ext_eqb x) r) && nodupb r end.

(* the flags the C03/C13 codec models rely on *)
Definition flags_of (tab : list enc_entry) (name ext : string) : option (bool * bool * bool) :=
  match find (fun e => ext_eqb (e_name e) name && match e_ext e with Some x => ext_eqb x ext | None => false end) tab with
  | Some e => Some (e_ecor e, e_swap e, e_oop e)
  | None => None
  end.

Definition flags_as_modelled (tab : list enc_entry) : bool :=
  let eqf a b := match a, b with
                 | Some (x, y, z), (x', y', z') => Bool.eqb x x' && Bool.eqb y y' && Bool.eqb z z'
                 | None, _ => false end in
  eqf (flags_of tab "none" "") (true, false, false) &&
  eqf (flags_of tab "gzip" ".gz") (true, false, true) &&
  eqf (flags_of tab "bzip2" ".bz2") (true, false, true) &&
  eqf (flags_of tab "lzma" ".xz") (true, false, true) &&
  eqf (flags_of tab "text" ".txt") (false, false, false) &&
  eqf (flags_of tab "sie" ".sie") (true, true, false).
