From GD Require Import C04.Bytes.
Require Import ExtrOcamlBasic.
Extraction Language OCaml.
Extraction "model.ml" x86_64 all_types mkSex raw_layout raw_decode sie_compress sie_expand sie_layout sie_parse
  text_layout text_decode fix_endianness wf_sampleb ends_increasingb.
