(* C04: theorems about the regenerated encoding table and discovery *)
From Coq Require Import ZArith List Bool String Lia.
From GD Require Import C04.EncModel Gen.EncTable.
Import ListNotations.
Local Open Scope string_scope.

Lemma enc_table_matches_man_page : table_matches_man enc_table = true.
Proof. vm_compute. reflexivity. Qed.

Lemma enc_table_exts_distinct : nodupb (exts_of enc_table) = true.
Proof. vm_compute. reflexivity. Qed.

Lemma enc_table_flags_as_modelled : flags_as_modelled enc_table = true.
Proof. vm_compute. reflexivity. Qed.

Lemma ext_eqb_eq a b : ext_eqb a b = true <-> a = b.
Proof. unfold ext_eqb. destruct (string_dec a b); split; congruence. Qed.

(* discovery returns the FIRST entry in table order whose file exists *)
Lemma resolve_from_first ex base tab scheme i k :
  resolve_from ex base i tab scheme = Some k ->
  exists j e x, k = (i + j)%nat /\ nth_error tab j = Some e /\ e_ext e = Some x /\
    ex (base ++ x) = true /\
    (match scheme with None => True | Some s => s = e_scheme e end) /\
    forall j' e' x', (j' < j)%nat -> nth_error tab j' = Some e' -> e_ext e' = Some x' ->
      (match scheme with None => True | Some s => s = e_scheme e' end) -> ex (base ++ x') = false.
Proof.
  revert i k. induction tab as [|e r IH]; intros i k H; [discriminate|].
  cbn [resolve_from] in H.
  set (wanted := match scheme with None => true | Some s => ext_eqb s (e_scheme e) end) in *.
  assert (SKIP : forall k0, resolve_from ex base (S i) r scheme = Some k0 ->
     (forall x', e_ext e = Some x' -> (match scheme with None => True | Some s => s = e_scheme e end) -> ex (base ++ x') = false) ->
     exists j e1 x, k0 = (i + j)%nat /\ nth_error (e :: r) j = Some e1 /\ e_ext e1 = Some x /\
       ex (base ++ x) = true /\
       (match scheme with None => True | Some s => s = e_scheme e1 end) /\
       forall j' e' x', (j' < j)%nat -> nth_error (e :: r) j' = Some e' -> e_ext e' = Some x' ->
         (match scheme with None => True | Some s => s = e_scheme e' end) -> ex (base ++ x') = false).
  { intros k0 H0 HE. apply IH in H0 as (j & e0 & x0 & -> & N & X0 & E0 & S0 & F0).
    exists (S j), e0, x0. split; [lia|]. split; [exact N|]. split; [exact X0|]. split; [exact E0|].
    split; [exact S0|].
    intros [|j'] e' x' Hj N' X' S'.
    - cbn in N'. inversion N'; subst e'. apply HE; auto.
    - cbn in N'. apply (F0 j' e' x'); auto. lia. }
  destruct (e_ext e) as [x|] eqn:X.
  - destruct (wanted && ex (base ++ x))%bool eqn:W.
    + inversion H; subst. apply andb_prop in W as [W1 W2].
      exists 0%nat, e, x. split; [lia|]. split; [reflexivity|]. split; [exact X|]. split; [exact W2|].
      split.
      * subst wanted. destruct scheme; auto. now apply ext_eqb_eq.
      * intros; lia.
    + apply SKIP; auto. intros x' Hx' S'. inversion Hx'; subst x'.
      apply andb_false_iff in W as [W|W]; auto.
      subst wanted. destruct scheme as [s|]; [|discriminate].
      subst s. unfold ext_eqb in W. destruct (string_dec (e_scheme e) (e_scheme e)); congruence.
  - apply SKIP; auto. intros; discriminate.
Qed.

(* when exactly one candidate file exists, discovery finds that codec *)
Lemma resolve_from_complete ex base tab i j e x :
  nth_error tab j = Some e -> e_ext e = Some x -> ex (base ++ x) = true ->
  (forall j' e' x', j' <> j -> nth_error tab j' = Some e' -> e_ext e' = Some x' -> ex (base ++ x') = false) ->
  resolve_from ex base i tab None = Some (i + j)%nat.
Proof.
  revert i j. induction tab as [|e0 r IH]; intros i j N X E U; [destruct j; discriminate|].
  cbn [resolve_from]. destruct j as [|j].
  - cbn in N. inversion N; subst e0. rewrite X, E. cbn. f_equal. lia.
  - cbn in N. destruct (e_ext e0) as [x0|] eqn:X0.
    + rewrite (U 0%nat e0 x0) by (auto; lia). cbn [andb].
      rewrite (IH (S i) j); auto; [f_equal; lia|].
      intros j' e' x' Hj N' X'. apply (U (S j') e' x'); auto.
    + rewrite (IH (S i) j); auto; [f_equal; lia|].
      intros j' e' x' Hj N' X'. apply (U (S j') e' x'); auto.
Qed.
