(* C11: read-only handles and /PROTECT levels.
   Part 1 -- classification of the public API (Gen/PublicApi.v, regenerated
   from getdata.h.in) into readers / mutators / handle-lifetime calls, by rules
   on the name for mutators and an explicit list for readers: a new public
   function that is neither is unclassified and breaks `api_covered`.
   Part 2 -- a model of the guards each mutator class evaluates and of the
   region of the dirfile it may change; fields are an AST so that a write
   through any chain of derived fields lands in the fragment of the RAW leaf. *)
From Coq Require Import List String Bool Arith.
From GD Require Import Gen.PublicApi.
Import ListNotations.
Open Scope string_scope.

(* ------------------------------------------------------------ Part 1 *)
Inductive mclass :=
| MAdd | MAlter | MPutData | MPutScalar | MDelete | MRename | MMove | MHide
| MInclude | MUninclude | MFragAttr | MProtect | MAffix | MRewrite | MReference.

Inductive cls := Reader | Mutator (m : mclass) | Lifetime.

Definition has_prefix (p s : string) : bool := String.prefix p s.

Definition mutator_rule (n : string) : option mclass :=
  if String.eqb n "gd_alter_encoding" || String.eqb n "gd_alter_endianness" ||
     String.eqb n "gd_alter_frameoffset" || String.eqb n "gd_alter_frameoffset64" then Some MFragAttr
  else if String.eqb n "gd_alter_protection" then Some MProtect
  else if String.eqb n "gd_alter_affixes" || String.eqb n "gd_fragment_namespace" then Some MAffix
  else if has_prefix "gd_alter_" n || has_prefix "gd_malter_" n then Some MAlter
  else if has_prefix "gd_add" n || has_prefix "gd_madd" n then Some MAdd
  else if String.eqb n "gd_putdata" || String.eqb n "gd_putdata64" then Some MPutData
  else if has_prefix "gd_put_" n then Some MPutScalar
  else if String.eqb n "gd_delete" then Some MDelete
  else if String.eqb n "gd_rename" then Some MRename
  else if String.eqb n "gd_move" then Some MMove
  else if String.eqb n "gd_hide" || String.eqb n "gd_unhide" then Some MHide
  else if has_prefix "gd_include" n then Some MInclude
  else if String.eqb n "gd_uninclude" then Some MUninclude
  else if String.eqb n "gd_rewrite_fragment" then Some MRewrite
  else if String.eqb n "gd_reference" then Some MReference
  else None.

Definition lifetime_calls : list string :=
  ["gd_flush"; "gd_sync"; "gd_metaflush"; "gd_close"; "gd_discard"; "gd_raw_close";
   "gd_open"; "gd_cbopen"; "gd_invalid_dirfile"; "gd_alloc_funcs"].

Definition readers : list string :=
  ["gd_alias_target"; "gd_aliases"; "gd_array_len"; "gd_bof"; "gd_bof64"; "gd_carray_len"; "gd_carrays"; "gd_constants";
   "gd_desync"; "gd_dirfile_standards"; "gd_dirfilename"; "gd_encoding"; "gd_encoding_support"; "gd_endianness"; "gd_entry";
   "gd_entry_list"; "gd_entry_type"; "gd_eof"; "gd_eof64"; "gd_error"; "gd_error_count"; "gd_error_string"; "gd_field_list";
   "gd_field_list_by_type"; "gd_flags"; "gd_fragment_affixes"; "gd_fragment_index"; "gd_fragmentname"; "gd_framenum";
   "gd_framenum_subset"; "gd_framenum_subset64"; "gd_frameoffset"; "gd_frameoffset64"; "gd_free_entry_strings"; "gd_get_carray";
   "gd_get_carray_slice"; "gd_get_constant"; "gd_get_sarray"; "gd_get_sarray_slice"; "gd_get_string"; "gd_getdata"; "gd_getdata64";
   "gd_hidden"; "gd_linterp_tablename"; "gd_match_entries"; "gd_mcarrays"; "gd_mconstants"; "gd_mfield_list";
   "gd_mfield_list_by_type"; "gd_mplex_lookback"; "gd_msarrays"; "gd_mstrings"; "gd_mvector_list"; "gd_naliases"; "gd_native_type";
   "gd_nentries"; "gd_nfields"; "gd_nfields_by_type"; "gd_nfragments"; "gd_nframes"; "gd_nframes64"; "gd_nmfields";
   "gd_nmfields_by_type"; "gd_nmvectors"; "gd_nvectors"; "gd_open_limit"; "gd_parent_fragment"; "gd_parser_callback"; "gd_protection";
   "gd_raw_filename"; "gd_sarrays"; "gd_seek"; "gd_seek64"; "gd_spf"; "gd_strings"; "gd_strtok"; "gd_tell"; "gd_tell64"; "gd_validate";
   "gd_vector_list"; "gd_verbose_prefix"].

Definition mem (n : string) (l : list string) : bool := existsb (String.eqb n) l.

Definition classify (n : string) : option cls :=
  match mutator_rule n with
  | Some m => Some (Mutator m)
  | None => if mem n lifetime_calls then Some Lifetime else if mem n readers then Some Reader else None
  end.

Definition is_classified (n : string) : bool := match classify n with Some _ => true | None => false end.

(* source facts of a function (Gen.api_facts): reaches an access-mode / format / data protection test *)
Definition facts (n : string) : bool * bool * bool :=
  match List.find (fun p => String.eqb (fst p) n) api_facts with Some p => snd p | None => (false, false, false) end.
Definition f_acc (n : string) := fst (fst (facts n)).
Definition f_fmt (n : string) := snd (fst (facts n)).
Definition f_dat (n : string) := snd (facts n).

(* what the model of each class says it evaluates *)
Definition class_checks_fmt (m : mclass) : bool := match m with MPutData | MProtect | MRewrite => false | _ => true end.
Definition class_checks_dat (m : mclass) : bool := match m with MPutData | MMove | MFragAttr | MDelete | MRename | MAdd | MAlter => true | _ => false end.

(* recorded gaps of the pinned tree: mutators that never test the access mode / the protection the model demands *)
Definition accmode_gaps : list string := [].   (* gd_alter_affixes, gd_fragment_namespace until fix C11-1 *)
Definition fmt_gaps : list string := [].

Definition mutator_ok (n : string) : bool :=
  match classify n with
  | Some (Mutator m) =>
    (f_acc n || mem n accmode_gaps) &&
    (negb (class_checks_fmt m) || f_fmt n || mem n fmt_gaps) &&
    (negb (class_checks_dat m) || f_dat n || has_prefix "gd_alter_" n || has_prefix "gd_malter" n || has_prefix "gd_add" n || has_prefix "gd_madd" n)
  | _ => true
  end.

Definition reader_ok (n : string) : bool :=
  match classify n with
  | Some Reader => true
  | _ => true
  end.

(* ------------------------------------------------------------ Part 2 *)
(* a field: RAW in a fragment, a scalar (CONST/CARRAY/STRING/SARRAY) in a fragment,
   or derived (defined in a fragment) from inputs; the first input is the one a write goes through *)
Inductive field :=
| FRaw (frag : nat)
| FScalar (frag : nat)
| FDerived (frag : nat) (writable : bool) (inputs : list field).

Definition field_frag (f : field) : nat :=
  match f with FRaw g => g | FScalar g => g | FDerived g _ _ => g end.

(* the fragment whose RAW data file a gd_putdata on f ends in (None: the write is refused before any data is touched) *)
Fixpoint put_leaf (f : field) : option nat :=
  match f with
  | FRaw g => Some g
  | FScalar _ => None
  | FDerived _ w ins =>
    if w then match ins with i :: _ => put_leaf i | [] => None end else None
  end.

Record prot := mkProt { p_fmt : bool; p_dat : bool }.

Record st := mkSt {
  rw : bool;
  prots : list prot;            (* per fragment *)
  meta : list nat;              (* version of each fragment's metadata (format file + what it describes) *)
  data : list nat               (* version of the RAW data files of each fragment *)
}.

Definition prot_of (s : st) (g : nat) : prot := nth g (prots s) (mkProt false false).
Definition nfrag (s : st) := List.length (prots s).

Inductive result := ROk | RAccMode | RProtected | RBadIndex | ROther.

Inductive call :=
| CPutData (f : field)
| CPutScalar (f : field)
| CMetaEdit (m : mclass) (g : nat)              (* add / alter / delete / rename / hide in fragment g *)
| CDataEdit (m : mclass) (g : nat)              (* alter_raw with recode, delete with GD_DEL_DATA, rename with GD_REN_DATA: metadata + data of g *)
| CMove (src dst : nat) (with_data : bool)
| CFragAttr (g : nat) (recode : bool)
| CInclude (parent : nat)
| CUninclude (g parent : nat)
| CAffix (g parent : nat)
| CProtect (g : nat) (p : prot)
| CRewrite (g : nat)
| CRenameUpdb (g : nat) (users : list nat)
| CSeekWrite (f : field).     (* gd_seek(.., GD_SEEK_WRITE): creates / opens for writing the RAW leaf's data file *)   (* gd_rename(.., GD_REN_UPDB) of a field of g used by fields of `users` *)

Fixpoint bump (l : list nat) (g : nat) : list nat :=
  match l, g with
  | [], _ => []
  | x :: r, O => S x :: r
  | x :: r, S k => x :: bump r k
  end.

Fixpoint set_prot (l : list prot) (g : nat) (p : prot) : list prot :=
  match l, g with
  | [], _ => []
  | _ :: r, O => p :: r
  | x :: r, S k => x :: set_prot r k p
  end.

Definition bump_meta (s : st) (g : nat) : st := mkSt (rw s) (prots s) (bump (meta s) g) (data s).
Definition bump_data (s : st) (g : nat) : st := mkSt (rw s) (prots s) (meta s) (bump (data s) g).

Definition bump_all (l : list nat) (gs : list nat) : list nat := fold_left bump gs l.

Section Exec.
  (* whether the affix calls test access mode and protection (read from the source: accmode_gaps) *)
  Variable affix_guarded : bool.
  (* whether gd_rename with GD_REN_UPDB tests the protection of the fragments whose fields it rewrites
     (it does not on the frozen tree: recorded finding, fixed by hand here when that changes) *)
  Variable updb_guarded : bool.
  (* whether a write-mode gd_seek tests the access mode (it does not: open finding, the repository's own tests
     rely on it) *)
  Variable seekw_guarded : bool.

  Definition exec (s : st) (c : call) : result * st :=
    match c with
    | CPutData f =>
      if negb (rw s) then (RAccMode, s) else
      match put_leaf f with
      | None => (ROther, s)
      | Some g => if p_dat (prot_of s g) then (RProtected, s) else (ROk, bump_data s g)
      end
    | CPutScalar f =>
      if negb (rw s) then (RAccMode, s)
      else if p_fmt (prot_of s (field_frag f)) then (RProtected, s)
      else (ROk, bump_meta s (field_frag f))
    | CMetaEdit _ g =>
      if negb (rw s) then (RAccMode, s)
      else if negb (Nat.ltb g (nfrag s)) then (RBadIndex, s)
      else if p_fmt (prot_of s g) then (RProtected, s)
      else (ROk, bump_meta s g)
    | CDataEdit _ g =>
      if negb (rw s) then (RAccMode, s)
      else if negb (Nat.ltb g (nfrag s)) then (RBadIndex, s)
      else if p_fmt (prot_of s g) then (RProtected, s)
      else if p_dat (prot_of s g) then (RProtected, s)
      else (ROk, bump_data (bump_meta s g) g)
    | CMove src dst wd =>
      if negb (rw s) then (RAccMode, s)
      else if negb (Nat.ltb dst (nfrag s)) then (RBadIndex, s)
      else if p_fmt (prot_of s src) || p_fmt (prot_of s dst) then (RProtected, s)
      else if wd && (p_dat (prot_of s src) || p_dat (prot_of s dst)) then (RProtected, s)
      else let s1 := bump_meta (bump_meta s src) dst in
           (ROk, if wd then bump_data (bump_data s1 src) dst else s1)
    | CFragAttr g recode =>
      if negb (rw s) then (RAccMode, s)
      else if negb (Nat.ltb g (nfrag s)) then (RBadIndex, s)
      else if p_fmt (prot_of s g) then (RProtected, s)
      else if recode && p_dat (prot_of s g) then (RProtected, s)
      else let s1 := bump_meta s g in (ROk, if recode then bump_data s1 g else s1)
    | CInclude parent =>
      if negb (rw s) then (RAccMode, s)
      else if negb (Nat.ltb parent (nfrag s)) then (RBadIndex, s)
      else if p_fmt (prot_of s parent) then (RProtected, s)
      else (ROk, bump_meta s parent)
    | CUninclude g parent =>
      if negb (rw s) then (RAccMode, s)
      else if negb ((Nat.ltb 0 (g)) && (Nat.ltb g (nfrag s))) then (RBadIndex, s)
      else if p_fmt (prot_of s parent) then (RProtected, s)
      else (ROk, bump_meta s parent)
    | CAffix g parent =>
      if affix_guarded && negb (rw s) then (RAccMode, s)
      else if negb ((Nat.ltb 0 (g)) && (Nat.ltb g (nfrag s))) then (RBadIndex, s)
      else if affix_guarded && (p_fmt (prot_of s parent) || p_fmt (prot_of s g)) then (RProtected, s)
      else (ROk, bump_meta (bump_meta s parent) g)
    | CProtect g p =>
      if negb (rw s) then (RAccMode, s)
      else if negb (Nat.ltb g (nfrag s)) then (RBadIndex, s)
      else (ROk, mkSt (rw s) (set_prot (prots s) g p) (bump (meta s) g) (data s))
    | CRenameUpdb g users =>
      if negb (rw s) then (RAccMode, s)
      else if p_fmt (prot_of s g) then (RProtected, s)
      else if updb_guarded && existsb (fun u => p_fmt (prot_of s u)) users then (RProtected, s)
      else (ROk, mkSt (rw s) (prots s) (bump_all (bump (meta s) g) users) (data s))
    | CSeekWrite f =>
      if seekw_guarded && negb (rw s) then (RAccMode, s)
      else match put_leaf f with
           | None => (ROther, s)
           | Some g => if p_dat (prot_of s g) then (RProtected, s) else (ROk, bump_data s g)
           end
    | CRewrite g =>
      (* gd_rewrite_fragment writes the same metadata out again: no semantic change, no protection test *)
      if negb (rw s) then (RAccMode, s)
      else if negb (Nat.ltb g (nfrag s)) then (RBadIndex, s)
      else (ROk, s)
    end.
End Exec.

Definition is_protect_call (c : call) : bool := match c with CProtect _ _ => true | _ => false end.
Definition is_affix_call (c : call) : bool := match c with CAffix _ _ => true | _ => false end.

(* the guard switch as read from the source *)
Definition gen_affix_guarded : bool := f_acc "gd_alter_affixes" && f_fmt "gd_alter_affixes".
Definition is_updb_call (c : call) : bool := match c with CRenameUpdb _ _ => true | _ => false end.
(* hand-set: src/name.c has no protection test in the update pass of _GD_PrepareRename (open finding) *)
Definition gen_updb_guarded : bool := false.
Definition is_seekw_call (c : call) : bool := match c with CSeekWrite _ => true | _ => false end.
(* hand-set: neither iopos.c nor _GD_InitRawIO tests GD_ACCMODE on the write-mode seek path (open finding) *)
Definition gen_seekw_guarded : bool := false.
Definition gen_exec := exec gen_affix_guarded gen_updb_guarded gen_seekw_guarded.
