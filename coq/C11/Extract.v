From Coq Require Import List String.
From GD Require Import Gen.PublicApi C11.Protect.
Require Import ExtrOcamlBasic.
Extraction Language OCaml.
Extraction "model.ml" classify public_api gen_exec gen_affix_guarded exec facts accmode_gaps.
