From Coq Require Import List String Bool Arith Lia.
From GD Require Import Gen.PublicApi C11.Protect.
Import ListNotations.

Lemma api_covered_l : forallb is_classified public_api = true.
Proof. vm_compute. reflexivity. Qed.

Lemma mutators_guarded_l : forallb mutator_ok public_api = true.
Proof. vm_compute. reflexivity. Qed.

Lemma api_size : Nat.leb 150 (List.length public_api) = true.
Proof. vm_compute. reflexivity. Qed.

Lemma nth_bump_other : forall l g h, g <> h -> nth g (bump l h) 0 = nth g l 0.
Proof.
  induction l as [|x r IH]; intros g h Hne; [reflexivity|].
  destruct h as [|h]; destruct g as [|g]; simpl; try reflexivity; try congruence.
  apply IH. congruence.
Qed.

Definition unchanged_protected (s s' : st) : Prop :=
  (forall g, p_fmt (prot_of s g) = true -> nth g (meta s') 0 = nth g (meta s) 0) /\
  (forall g, p_dat (prot_of s g) = true -> nth g (data s') 0 = nth g (data s) 0) /\
  prots s' = prots s /\ rw s' = rw s.

Lemma unchanged_refl : forall s, unchanged_protected s s.
Proof. intros s. repeat split; reflexivity. Qed.

Lemma bump_meta_ok : forall s s0 h, unchanged_protected s s0 -> p_fmt (prot_of s h) = false ->
  unchanged_protected s (bump_meta s0 h).
Proof.
  intros s s0 h [Hm [Hd [Hp Hr]]] Hh. repeat split; simpl; auto.
  intros g Hg. rewrite nth_bump_other; auto. intro; subst. congruence.
Qed.

Lemma bump_data_ok : forall s s0 h, unchanged_protected s s0 -> p_dat (prot_of s h) = false ->
  unchanged_protected s (bump_data s0 h).
Proof.
  intros s s0 h [Hm [Hd [Hp Hr]]] Hh. repeat split; simpl; auto.
  intros g Hg. rewrite nth_bump_other; auto. intro; subst. congruence.
Qed.

Definition guarded_call (ag : bool) (c : call) : Prop := is_affix_call c = false \/ ag = true.
Definition updb_ok (ug : bool) (c : call) : Prop := is_updb_call c = false \/ ug = true.

(* RDONLY: every mutating call is refused with GD_E_ACCMODE and nothing changes *)
Definition seekw_ok (sg : bool) (c : call) : Prop := is_seekw_call c = false \/ sg = true.

Lemma rdonly_inert_l : forall ag ug sg s c, rw s = false -> guarded_call ag c -> seekw_ok sg c ->
  exec ag ug sg s c = (RAccMode, s).
Proof.
  intros ag ug sg s c Hr Hg Hs. destruct c; simpl; rewrite Hr; simpl; try reflexivity.
  - destruct Hg as [Hg|Hg]; [discriminate|]. subst. reflexivity.
  - destruct Hs as [Hs|Hs]; [discriminate|]. subst. reflexivity.
Qed.

Lemma bump_all_ok : forall s users s0, unchanged_protected s s0 ->
  existsb (fun u => p_fmt (prot_of s u)) users = false ->
  unchanged_protected s (mkSt (rw s0) (prots s0) (bump_all (meta s0) users) (data s0)).
Proof.
  intros s users. induction users as [|u r IH]; intros s0 H He.
  - destruct s0. exact H.
  - simpl in He. apply orb_false_iff in He. destruct He as [Hu Hr].
    unfold bump_all. simpl. 
    specialize (IH (bump_meta s0 u) (bump_meta_ok s s0 u H Hu) Hr).
    exact IH.
Qed.

(* /PROTECT: whatever the call, protected metadata and protected data are unchanged, and
   a call whose region meets a protected part is refused with GD_E_PROTECTED *)
Lemma protect_respected_l : forall ag ug sg s c, is_protect_call c = false -> guarded_call ag c -> updb_ok ug c ->
  unchanged_protected s (snd (exec ag ug sg s c)).
Proof.
  intros ag ug sg s c Hnp Hg Hu.
  destruct c; simpl in *; try discriminate;
  try (repeat match goal with
  | |- context [if ?x then _ else _] => destruct x eqn:?; simpl
  | |- context [match ?x with _ => _ end] => destruct x eqn:?; simpl
  end; try apply unchanged_refl;
  repeat match goal with
  | H : (_ || _) = false |- _ => apply orb_false_iff in H; destruct H
  end;
  repeat (first [apply bump_data_ok | apply bump_meta_ok]); try apply unchanged_refl; auto;
  try (destruct Hg as [Hg|Hg]; [discriminate|subst; simpl in *; try discriminate]);
  try (repeat match goal with H : (_ || _) = false |- _ => apply orb_false_iff in H; destruct H end; auto);
  simpl in *; repeat match goal with H : (_ || _) = false |- _ => apply orb_false_iff in H; destruct H end; auto; fail).
  (* CRenameUpdb *)
  destruct Hu as [Hu|Hu]; [discriminate|subst ug].
  destruct (negb (rw s)) eqn:E1; simpl; [apply unchanged_refl|].
  destruct (p_fmt (prot_of s g)) eqn:E2; simpl; [apply unchanged_refl|].
  destruct (existsb (fun u => p_fmt (prot_of s u)) users) eqn:E3; simpl; [apply unchanged_refl|].
  pose proof (bump_all_ok s users (bump_meta s g) (bump_meta_ok s s g (unchanged_refl s) E2) E3) as H.
  exact H.
Qed.

Lemma refused_when_protected_put : forall ag ug sg s f g, rw s = true -> put_leaf f = Some g ->
  p_dat (prot_of s g) = true -> exec ag ug sg s (CPutData f) = (RProtected, s).
Proof. intros ag ug sg s f g Hr Hl Hp. simpl. rewrite Hr, Hl, Hp. reflexivity. Qed.

(* a chain of writable derived fields of any depth, each defined in any fragment, still lands in the RAW leaf's fragment *)
Fixpoint chain (frags : list nat) (leaf : field) : field :=
  match frags with
  | [] => leaf
  | g :: r => FDerived g true [chain r leaf]
  end.

Lemma put_leaf_chain : forall frags g, put_leaf (chain frags (FRaw g)) = Some g.
Proof. induction frags as [|h r IH]; intros g; simpl; auto. Qed.

Lemma chain_write_refused : forall ag ug sg s frags g, rw s = true -> p_dat (prot_of s g) = true ->
  exec ag ug sg s (CPutData (chain frags (FRaw g))) = (RProtected, s).
Proof. intros. eapply refused_when_protected_put; eauto. apply put_leaf_chain. Qed.

(* without the guards both statements fail *)
Definition s_ro : st := mkSt false [mkProt false false; mkProt false false] [0; 0] [0; 0].
Definition s_pf : st := mkSt true [mkProt true false; mkProt false false] [0; 0] [0; 0].

Lemma rdonly_inert_refuted_unguarded : exists s c, rw s = false /\ exec false true true s c <> (RAccMode, s).
Proof. exists s_ro, (CAffix 1 0). split; [reflexivity|]. vm_compute. discriminate. Qed.

Lemma protect_respected_refuted_unguarded :
  exists s c, is_protect_call c = false /\ ~ unchanged_protected s (snd (exec false true true s c)).
Proof.
  exists s_pf, (CAffix 1 0). split; [reflexivity|].
  intros [Hm _]. specialize (Hm 0 eq_refl). vm_compute in Hm. discriminate.
Qed.

(* gd_rename with GD_REN_UPDB as it is: a field of unprotected fragment 1 used by a field of format-protected fragment 0 *)
Lemma protect_respected_refuted_updb :
  exists s c, is_protect_call c = false /\ is_affix_call c = false /\ ~ unchanged_protected s (snd (exec true false true s c)).
Proof.
  exists s_pf, (CRenameUpdb 1 [0]). split; [reflexivity|]. split; [reflexivity|].
  intros [Hm _]. specialize (Hm 0 eq_refl). vm_compute in Hm. discriminate.
Qed.

Example guarded_hyp_satisfiable : guarded_call gen_affix_guarded (CPutData (FRaw 0)) /\ updb_ok gen_updb_guarded (CPutData (FRaw 0)).
Proof. split; left; reflexivity. Qed.

(* the frozen tree: the affix calls reach an access-mode and a protection test *)
Lemma gen_affix_guarded_true : gen_affix_guarded = true.
Proof. vm_compute. reflexivity. Qed.

Lemma rdonly_inert_gen : forall s c, rw s = false -> is_seekw_call c = false -> gen_exec s c = (RAccMode, s).
Proof. intros s c H Hs. apply rdonly_inert_l; [exact H|right; exact gen_affix_guarded_true|left; exact Hs]. Qed.

(* the write-mode seek as it is: succeeds through a read-only handle and touches the RAW leaf's data file *)
Lemma rdonly_inert_refuted_seekw : exists s c, rw s = false /\ exec true true false s c <> (RAccMode, s).
Proof. exists s_ro, (CSeekWrite (FRaw 0)). split; [reflexivity|]. vm_compute. discriminate. Qed.

Lemma protect_respected_gen : forall s c, is_protect_call c = false -> is_updb_call c = false ->
  unchanged_protected s (snd (gen_exec s c)).
Proof. intros s c H Hu. apply protect_respected_l; [exact H|right; exact gen_affix_guarded_true|left; exact Hu]. Qed.
