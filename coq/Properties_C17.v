(* Property theorems for C17 -- statements only; proofs are `exact` of lemmas.
   The model is `step` of C02/Model.v (see C17/IoPos.v for what of iopos.c / getdata.c / flush.c it contains). *)
From Coq Require Import ZArith List Bool.
From GD Require Import C02.Model C02.CodecProofs C02.HistoryProofs C02.Refutations C17.IoPos.
Import ListNotations.
Local Open Scope Z_scope.

(* A newly opened RAW field's I/O pointer is at its beginning-of-field (any encoding, any decoder) *)
Theorem fresh_at_bof :
  forall dec d f r, is_raw d f r -> snd (step dec d (init d) (CTell f)) = RPos (rd_foff (get_rd d r)).
Proof. exact fresh_at_bof_l. Qed.

(* gd_flush / gd_raw_close reset the pointer to the beginning-of-field: from ANY handle state
   between calls (recurse_level = 0), i.e. after any history *)
Theorem flush_resets :
  forall dec d s f r, is_raw d f r -> s_level s = 0 ->
    snd (step dec d (fst (step dec d s (CClose None))) (CTell f)) = RPos (rd_foff (get_rd d r)).
Proof. exact flush_resets_l. Qed.

Theorem auto_close_resets :
  forall dec d s f r, is_raw d f r -> s_level s = 0 -> (r < length (s_raws s))%nat ->
    snd (step dec d (fst (step dec d s (CAuto r))) (CTell f)) = RPos (rd_foff (get_rd d r)).
Proof. exact auto_close_resets_l. Qed.

(* gd_seek(GD_SEEK_SET) to p between the beginning- and the end-of-field establishes and returns
   exactly p, gd_tell then reports p, and the recursion counter is back at 0 -- from any state
   whose cursor is coherent (C02 invariant); RAW fields of raw/gzip/text files.
   (partial: GD_SEEK_CUR/END, bzip2/lzma/sie and derived fields are validated by the
   correspondence run only) *)
Theorem seek_establishes_partial :
  forall dec d s f r p,
    is_raw d f r -> s_level s = 0 -> (r < length (s_raws s))%nat ->
    wf_rd (get_rd d r) -> plain_enc (get_rd d r) ->
    (r_open (get_rs s r) = true -> Coh (d_cfg d) (get_rd d r) (get_rs s r)) ->
    rd_foff (get_rd d r) <= p <= rd_foff (get_rd d r) + nsamp (get_rd d r) ->
    snd (step dec d s (CSeek f p WSet)) = RPos p /\
    snd (step dec d (fst (step dec d s (CSeek f p WSet))) (CTell f)) = RPos p /\
    s_level (fst (step dec d s (CSeek f p WSet))) = 0.
Proof. exact seek_establishes_l. Qed.

(* a field whose inputs disagree on position reports GD_E_DOMAIN for gd_tell and for a GD_HERE
   read instead of using a guess; after seeking the field itself the inputs agree (computed) *)
Theorem multipos_is_error_witness :
  after (db2 cfg_all [FMult 0 1]) [CSeek 0 3 WSet; CSeek 1 5 WSet] (CTell 2) = RErr E_DOMAIN /\
  after (db2 cfg_all [FMult 0 1]) [CSeek 0 3 WSet; CSeek 1 5 WSet] (CGet 2 None 2) = RErr E_DOMAIN /\
  after (db2 cfg_all [FMult 0 1]) [CSeek 2 4 WSet] (CTell 2) = RPos 4.
Proof. exact multipos_witness. Qed.

(* full statement of the transfer rule for single-input derived fields ... *)
Definition tell_after_transfer_statement (dec : list Z -> Z -> Z * bool) : Prop :=
  forall d f s n l, 0 <= s -> 0 < n ->
    snd (step dec d (init d) (CGet f (Some s) n)) = RData l -> l <> [] ->
    snd (step dec d (fst (step dec d (init d) (CGet f (Some s) n))) (CTell f)) = RPos (s + len l).

(* ... refuted through PHASE even in the otherwise repaired model: _GD_GetIOPos adds the shift and
   _GD_Seek subtracts it, while reads use first_samp + shift; tell after reading p[3..5) says 9,
   and the next GD_HERE read returns p[9] instead of p[5] *)
Theorem tell_after_transfer_refuted : ~ tell_after_transfer_statement dec4.
Proof. exact tell_after_transfer_refuted_l. Qed.

Theorem phase_pointer_witness :
  after (db2 cfg_all [FPhase 0 2]) [CGet 2 (Some 3) 2] (CTell 2) = RPos 9 /\
  after (db2 cfg_all [FPhase 0 2]) [CGet 2 (Some 3) 2] (CTell 0) = RPos 7 /\
  after (db2 cfg_all [FPhase 0 2]) [CGet 2 (Some 3) 2] (CGet 2 None 1) = RData [11] /\
  spec_window (db2 cfg_all [FPhase 0 2]) 2 5 1 = [7].
Proof. exact phase_tell_witness. Qed.

(* gd_seek followed by a GD_HERE read equals the absolute read, also through PHASE (computed) *)
Theorem here_equals_absolute_witness :
  after (db2 cfg_all [FPhase 0 2]) [CSeek 2 5 WSet] (CGet 2 None 3) = RData [7; 8; 9] /\
  after (db2 cfg_all [FPhase 0 2]) [] (CGet 2 (Some 5) 3) = RData [7; 8; 9].
Proof. exact phase_seek_here_witness. Qed.
