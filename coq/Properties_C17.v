(* Property theorems for C17 -- statements only; proofs are `exact` of lemmas.
   Model: `step` of C02/Model.v (get_iopos = _GD_GetIOPos, seek_field = _GD_Seek incl. pseudo
   positions, gd_seek64 SET/CUR/END, GD_HERE in do_field, close_field/_GD_Flush, CAuto).
   All statements: any libbz2-conforming decoder and buffer size, any well-formed field table
   on a tree with the six read-path repairs, any reachable handle state (InvH). *)
From Coq Require Import ZArith List Bool.
From GD Require Import C02.Model C02.CodecProofs C02.HistoryProofs C02.Handle C02.Refutations C02.Writes C17.IoPos C17.Pointers.
Import ListNotations.
Local Open Scope Z_scope.

(* A newly opened RAW field's I/O pointer is at its beginning-of-field *)
Theorem fresh_at_bof :
  forall dec d f r, is_raw d f r -> snd (step dec d (init d) (CTell f)) = RPos (rd_foff (get_rd d r)).
Proof. exact fresh_at_bof_l. Qed.

(* gd_flush / gd_raw_close (and the LRU auto-close) reset the pointer, after any history *)
Theorem flush_resets :
  forall dec d s f r, is_raw d f r -> s_level s = 0 ->
    snd (step dec d (fst (step dec d s (CClose None))) (CTell f)) = RPos (rd_foff (get_rd d r)).
Proof. exact flush_resets_l. Qed.
Theorem auto_close_resets :
  forall dec d s f r, is_raw d f r -> s_level s = 0 -> (r < length (s_raws s))%nat ->
    snd (step dec d (fst (step dec d s (CAuto r))) (CTell f)) = RPos (rd_foff (get_rd d r)).
Proof. exact auto_close_resets_l. Qed.

(* after a successful gd_getdata that transferred m > 0 samples starting at k, gd_tell reports k+m
   (RAW fields, every encoding) *)
Theorem tell_after_transfer :
  forall BUF dec, (forall S, dec_ok BUF dec S) -> forall d, wf_db d ->
  forall f r, nth_error (d_fields d) f = Some (FRaw r) ->
  forall s k n, InvH d s -> 0 <= k <= 2 ^ 61 -> 0 <= n <= 2 ^ 61 -> spec_window d f k n <> [] ->
    snd (step dec d (fst (step dec d s (CGet f (Some k) n))) (CTell f)) = RPos (k + len (spec_window d f k n)).
Proof. exact tell_after_get_raw. Qed.

(* after a successful gd_putdata that transferred n samples starting at k, gd_tell reports k+n
   (RAW field of the in-place encoding; put_raw of coq/C02/Writes.v) *)
Theorem tell_after_put :
  forall dec d s r k bs d' s' f, wf_db d -> InvH d s -> put_raw d s r k bs = Some (d', s') ->
    nth_error (d_fields d) f = Some (FRaw r) ->
    snd (step dec d' s' (CTell f)) = RPos (k + len bs / rd_size (get_rd d r)).
Proof. exact put_pointer. Qed.

(* gd_seek to a position between the beginning- and the end-of-field establishes and returns
   exactly that position: GD_SEEK_SET, GD_SEEK_END (= gd_eof), GD_SEEK_CUR *)
Theorem seek_set_establishes :
  forall BUF dec, (forall S, dec_ok BUF dec S) -> forall d, wf_db d ->
  forall f r, nth_error (d_fields d) f = Some (FRaw r) ->
  forall s p, InvH d s -> rd_foff (get_rd d r) <= p <= rd_foff (get_rd d r) + nsamp (get_rd d r) ->
    exists s', step dec d s (CSeek f p WSet) = (s', RPos p) /\ InvH d s' /\
      r_open (get_rs s' r) = true /\ r_fpos (get_rs s' r) + rd_foff (get_rd d r) = p.
Proof. exact seek_set_raw. Qed.
Theorem seek_end_establishes :
  forall BUF dec, (forall S, dec_ok BUF dec S) -> forall d, wf_db d ->
  forall f r, nth_error (d_fields d) f = Some (FRaw r) ->
  forall s off, InvH d s -> - nsamp (get_rd d r) <= off <= 0 ->
    exists s', step dec d s (CSeek f off WEnd) = (s', RPos (rd_foff (get_rd d r) + nsamp (get_rd d r) + off)) /\ InvH d s' /\
      r_open (get_rs s' r) = true /\
      r_fpos (get_rs s' r) + rd_foff (get_rd d r) = rd_foff (get_rd d r) + nsamp (get_rd d r) + off.
Proof. exact seek_end_raw. Qed.
Theorem seek_cur_establishes :
  forall BUF dec, (forall S, dec_ok BUF dec S) -> forall d, wf_db d ->
  forall f r, nth_error (d_fields d) f = Some (FRaw r) ->
  forall s off, InvH d s -> r_open (get_rs s r) = true ->
    rd_foff (get_rd d r) <= r_fpos (get_rs s r) + rd_foff (get_rd d r) + off <= rd_foff (get_rd d r) + nsamp (get_rd d r) ->
    exists s', step dec d s (CSeek f off WCur) = (s', RPos (r_fpos (get_rs s r) + rd_foff (get_rd d r) + off)) /\ InvH d s' /\
      r_open (get_rs s' r) = true /\
      r_fpos (get_rs s' r) + rd_foff (get_rd d r) = r_fpos (get_rs s r) + rd_foff (get_rd d r) + off.
Proof. exact seek_cur_raw. Qed.

(* gd_seek followed by a GD_HERE read transfers the same samples as the absolute call *)
Theorem here_equals_absolute :
  forall BUF dec, (forall S, dec_ok BUF dec S) -> forall d, wf_db d ->
  forall f r, nth_error (d_fields d) f = Some (FRaw r) ->
  forall s p n, InvH d s -> rd_foff (get_rd d r) <= p <= rd_foff (get_rd d r) + nsamp (get_rd d r) ->
    p <= 2 ^ 61 -> 0 <= n <= 2 ^ 61 ->
    let s' := fst (step dec d s (CSeek f p WSet)) in
    snd (step dec d s' (CGet f None n)) = RData (spec_window d f p n) /\
    snd (step dec d s' (CGet f (Some p) n)) = RData (spec_window d f p n).
Proof. exact here_equals_absolute_l. Qed.

(* sequential access equals random access: the GD_HERE read after reading [k, k+m) is the
   window starting at k+m *)
Theorem sequential_equals_random :
  forall BUF dec, (forall S, dec_ok BUF dec S) -> forall d, wf_db d ->
  forall f r, nth_error (d_fields d) f = Some (FRaw r) ->
  forall s k n n2, InvH d s -> 0 <= k <= 2 ^ 60 -> 0 <= n <= 2 ^ 60 -> 0 <= n2 <= 2 ^ 61 -> spec_window d f k n <> [] ->
    let s' := fst (step dec d s (CGet f (Some k) n)) in
    snd (step dec d s' (CGet f None n2)) = RData (spec_window d f (k + len (spec_window d f k n)) n2).
Proof. exact sequential_equals_random_l. Qed.

(* a field whose inputs disagree on position reports GD_E_DOMAIN instead of using a guess (computed) *)
Theorem multipos_is_error_witness :
  after (db2 cfg_all [FMult 0 1]) [CSeek 0 3 WSet; CSeek 1 5 WSet] (CTell 2) = RErr E_DOMAIN /\
  after (db2 cfg_all [FMult 0 1]) [CSeek 0 3 WSet; CSeek 1 5 WSet] (CGet 2 None 2) = RErr E_DOMAIN /\
  after (db2 cfg_all [FMult 0 1]) [CSeek 2 4 WSet] (CTell 2) = RPos 4.
Proof. exact multipos_witness. Qed.

(* ---- PHASE: "and for every single-input field derived from it (shifted by PHASE)" *)
Definition tell_after_transfer_statement := tell_after_transfer_statement_l.
(* refuted for the convention the checked tree uses (flag fix_phase_sign off): _GD_GetIOPos adds the
   shift, _GD_Seek subtracts it, reads add it *)
Theorem tell_after_transfer_phase_refuted : ~ tell_after_transfer_statement dec4.
Proof. exact tell_after_transfer_refuted_l. Qed.
Theorem phase_pointer_witness :
  after (db2 cfg_all [FPhase 0 2]) [CGet 2 (Some 3) 2] (CTell 2) = RPos 9 /\
  after (db2 cfg_all [FPhase 0 2]) [CGet 2 (Some 3) 2] (CTell 0) = RPos 7 /\
  after (db2 cfg_all [FPhase 0 2]) [CGet 2 (Some 3) 2] (CGet 2 None 1) = RData [11] /\
  spec_window (db2 cfg_all [FPhase 0 2]) 2 5 1 = [7].
Proof. exact phase_tell_witness. Qed.
(* with proposed_fixes/C17-1.diff (flag on) the same histories obey the rule *)
Theorem phase_pointer_repaired_witness :
  after (db2 cfg_all7 [FPhase 0 2]) [CGet 2 (Some 3) 2] (CTell 2) = RPos 5 /\
  after (db2 cfg_all7 [FPhase 0 2]) [CGet 2 (Some 3) 2] (CGet 2 None 1) = RData [7] /\
  after (db2 cfg_all7 [FPhase 0 2]) [CSeek 2 5 WSet] (CTell 0) = RPos 7 /\
  after (db2 cfg_all7 [FPhase 0 2]) [CSeek 2 5 WSet] (CGet 2 None 3) = RData [7; 8; 9].
Proof. exact phase_fixed_witness. Qed.
(* gd_seek on the PHASE field followed by GD_HERE equals the absolute read under either convention *)
Theorem here_equals_absolute_phase_witness :
  after (db2 cfg_all [FPhase 0 2]) [CSeek 2 5 WSet] (CGet 2 None 3) = RData [7; 8; 9] /\
  after (db2 cfg_all [FPhase 0 2]) [] (CGet 2 (Some 5) 3) = RData [7; 8; 9].
Proof. exact phase_seek_here_witness. Qed.
