(* C07: concrete instances -- hypotheses of the round-trip theorems are
   satisfiable, and the double-literal statement is refuted by computation *)
From Coq Require Import ZArith List Bool String Lia.
From GD Require Import C07.Token C07.TokenProofs C07.Number C07.NumberProofs C07.Entry C07.EntryProofs Gen.Formats.
Import ListNotations.
Local Open Scope Z_scope.

Definition ctx (std P : Z) : wctx := mkW std false false 0 P.

Lemma ctx_ok_10 P : ctx_ok (ctx 10 P).
Proof. split; [reflexivity | cbn; lia]. Qed.

Lemma no_nul_b s : no_nulb s = true -> no_nul s.
Proof.
  unfold no_nulb, no_nul. rewrite forallb_forall, Forall_forall. intros H c Hc. specialize (H c Hc).
  unfold byte_okb in H. apply andb_true_iff in H. destruct H as [H1 H2].
  apply Z.leb_le in H1. apply Z.leb_le in H2. split; assumption.
Qed.

Definition name1 : bstring := B"raw one #1".

Lemma name1_ok P : name_ok (ctx 10 P) name1.
Proof. split; [apply no_nul_b; reflexivity | vm_compute; reflexivity]. Qed.

Lemma code1_ok P : code_ok (ctx 10 P) (B"in put").
Proof. split; [apply no_nul_b; reflexivity | split; vm_compute; reflexivity]. Qed.

Definition d_03 : Z := 0x3FD3333333333334.     (* 0.1 + 0.2 *)
Definition d_sub : Z := 0x000012688B70E62B.    (* 1e-310, subnormal *)
Definition d_negzero : Z := 0x8000000000000000.
Definition d_max : Z := 0x7FEFFFFFFFFFFFFF.    (* DBL_MAX *)

Lemma dlit_17_ok : dlit_ok (ctx 10 17) d_03.
Proof. split; [vm_compute; reflexivity | split; [vm_compute; discriminate | vm_compute; reflexivity]]. Qed.

Lemma dlit_15_bad : ~ dlit_ok (ctx 10 15) d_03.
Proof. intros (_ & _ & H). vm_compute in H. discriminate. Qed.
Lemma dlit_15_max_bad : ~ dlit_ok (ctx 10 15) d_max.
Proof. intros (_ & _ & H). vm_compute in H. discriminate. Qed.
(* decidable form of dlit_ok *)
Definition dlit_okb (c : wctx) (b : Z) : bool :=
  plainb (print_g (w_P c) b) &&
  match print_g (w_P c) b with [] => false | _ => true end &&
  match set_dbl (rctx_of c) (print_g (w_P c) b) with Some (SLit v) => v =? b | _ => false end.

Lemma dlit_okb_ok c b : dlit_okb c b = true -> dlit_ok c b.
Proof.
  unfold dlit_okb, dlit_ok. rewrite !andb_true_iff. intros [[H1 H2] H3].
  split; [exact H1|]. split.
  - intros E. rewrite E in H2. discriminate.
  - destruct (set_dbl (rctx_of c) (print_g (w_P c) b)) as [[v|n i]|]; try discriminate.
    apply Z.eqb_eq in H3. subst v. reflexivity.
Qed.

Lemma dlit_ok_okb c b : dlit_ok c b -> dlit_okb c b = true.
Proof.
  unfold dlit_okb, dlit_ok. intros (H1 & H2 & H3). rewrite H1, H3, Z.eqb_refl.
  destruct (print_g (w_P c) b); [congruence | reflexivity].
Qed.

(* the literal rules of _GD_TokToNum, all reader variants (tree independent):
   a subnormal literal is read back iff ERANGE results are accepted (rule 1 or 2),
   -0.0 iff an integer zero is left to strtod *)
Lemma subnormal_variants : forall zf pu,
  stableb_gen 0 zf pu 17 d_sub = false /\ stableb_gen 1 zf pu 17 d_sub = true /\ stableb_gen 2 zf pu 17 d_sub = true.
Proof. intros [] []; repeat split; vm_compute; reflexivity. Qed.

Lemma negzero_variants : forall pu,
  stableb_gen 0 false pu 17 d_negzero = false /\ stableb_gen 2 false pu 17 d_negzero = false /\
  stableb_gen 0 true pu 17 d_negzero = true /\ stableb_gen 2 true pu 17 d_negzero = true.
Proof. intros []; repeat split; vm_compute; reflexivity. Qed.

(* ... and for the reader of the current source (Gen/Formats.v records which
   rules it has): the literal is read back iff the rule is present *)
Lemma subnormal_current : dlit_okb (ctx 10 17) d_sub = negb (tok_erange_rule =? 0)%Z.
Proof. vm_compute. reflexivity. Qed.
Lemma negzero_current : dlit_okb (ctx 10 17) d_negzero = tok_zero_via_strtod.
Proof. vm_compute. reflexivity. Qed.

(* the statement one would like: every finite double literal is read back *)
Definition double_literal_roundtrip_statement (P : Z) : Prop :=
  forall c b, ctx_ok c -> w_P c = P -> dbl_is_finite b = true -> dlit_ok c b.

Lemma dbl_stmt_refuted_15 : ~ double_literal_roundtrip_statement 15.
Proof. intros H. apply dlit_15_bad. apply H; [apply ctx_ok_10 | reflexivity | reflexivity]. Qed.

(* the refutation at entry level: CONST FLOAT64 0.1+0.2 written with 15 digits *)
Lemma const_15_lost :
  parse_line (rctx_of (ctx 10 15)) (print_entry (ctx 10 15) (EConst (B"c") T_F64 (VD d_03)))
  = Some (EConst (B"c") T_F64 (VD 0x3FD3333333333333)).
Proof. vm_compute. reflexivity. Qed.
