(* C07: concrete instances -- hypotheses of the round-trip theorems are
   satisfiable, and the double-literal statement is refuted by computation *)
From Coq Require Import ZArith List Bool String Lia.
From GD Require Import C07.Token C07.TokenProofs C07.Number C07.NumberProofs C07.Entry C07.EntryProofs.
Import ListNotations.
Local Open Scope Z_scope.

Definition ctx (std P : Z) : wctx := mkW std false false 0 P.

Lemma ctx_ok_10 P : ctx_ok (ctx 10 P).
Proof. split; [reflexivity | cbn; lia]. Qed.

Lemma no_nul_b s : no_nulb s = true -> no_nul s.
Proof.
  unfold no_nulb, no_nul. rewrite forallb_forall, Forall_forall. intros H c Hc. specialize (H c Hc).
  unfold byte_okb in H. apply andb_true_iff in H. destruct H as [H1 H2].
  apply Z.leb_le in H1. apply Z.leb_le in H2. split; assumption.
Qed.

Definition name1 : bstring := B"raw one #1".

Lemma name1_ok P : name_ok (ctx 10 P) name1.
Proof. split; [apply no_nul_b; reflexivity | vm_compute; reflexivity]. Qed.

Lemma code1_ok P : code_ok (ctx 10 P) (B"in put").
Proof. split; [apply no_nul_b; reflexivity | split; vm_compute; reflexivity]. Qed.

Definition d_03 : Z := 0x3FD3333333333334.     (* 0.1 + 0.2 *)
Definition d_sub : Z := 0x000012688B70E62B.    (* 1e-310, subnormal *)
Definition d_negzero : Z := 0x8000000000000000.
Definition d_max : Z := 0x7FEFFFFFFFFFFFFF.    (* DBL_MAX *)

Lemma dlit_17_ok : dlit_ok (ctx 10 17) d_03.
Proof. split; [vm_compute; reflexivity | split; [vm_compute; discriminate | vm_compute; reflexivity]]. Qed.

Lemma dlit_15_bad : ~ dlit_ok (ctx 10 15) d_03.
Proof. intros (_ & _ & H). vm_compute in H. discriminate. Qed.
Lemma dlit_15_max_bad : ~ dlit_ok (ctx 10 15) d_max.
Proof. intros (_ & _ & H). vm_compute in H. discriminate. Qed.
Lemma dlit_17_sub_bad : ~ dlit_ok (ctx 10 17) d_sub.
Proof. intros (_ & _ & H). vm_compute in H. discriminate. Qed.
Lemma dlit_17_negzero_bad : ~ dlit_ok (ctx 10 17) d_negzero.
Proof. intros (_ & _ & H). vm_compute in H. discriminate. Qed.

(* the statement one would like: every finite double literal is read back *)
Definition double_literal_roundtrip_statement (P : Z) : Prop :=
  forall c b, ctx_ok c -> w_P c = P -> dbl_is_finite b = true -> dlit_ok c b.

Lemma dbl_stmt_refuted_15 : ~ double_literal_roundtrip_statement 15.
Proof. intros H. apply dlit_15_bad. apply H; [apply ctx_ok_10 | reflexivity | reflexivity]. Qed.
Lemma dbl_stmt_refuted_17_subnormal :
  exists b, dbl_is_subnormal b = true /\ ~ dlit_ok (ctx 10 17) b.
Proof. exists d_sub. split; [reflexivity | exact dlit_17_sub_bad]. Qed.
Lemma dbl_stmt_refuted_17_negzero : ~ dlit_ok (ctx 10 17) d_negzero.
Proof. exact dlit_17_negzero_bad. Qed.

(* the refutation at entry level: CONST FLOAT64 0.1+0.2 written with 15 digits *)
Lemma const_15_lost :
  parse_line (rctx_of (ctx 10 15)) (print_entry (ctx 10 15) (EConst (B"c") T_F64 (VD d_03)))
  = Some (EConst (B"c") T_F64 (VD 0x3FD3333333333333)).
Proof. vm_compute. reflexivity. Qed.
