(* C07: 17 significant decimal digits identify a binary64 value.
   For every x in the binary64 format (FLT, emin = -1074, 53 bits; all finite
   values, normal and subnormal) and every P >= 17:
     round_binary64_nearest (round_decimal_P_digits_nearest x) = x
   for any tie-breaking rules (so in particular for ties-to-even, which is
   what correctly rounded printf %.Pg and strtod compute).
   Proof: |d - x| <= 1/2 * 10^(1-P) * |x| (Flocq relative_error_N_FLX), and
   10^-16 < 2^-53, so d lies strictly between the midpoints around x
   (round_N_le_midp / round_N_ge_midp); at a power of two the gap below is
   half an ulp and ulp x >= x * 2^-52 there. *)
From Coq Require Import ZArith Reals Lia Lra.
From Flocq Require Import Core Relative.
Local Open Scope R_scope.

Definition radix10 : radix := Build_radix 10 (refl_equal true).

Section Dec17.
Variable P : Z.
Hypothesis HP : (17 <= P)%Z.

Let emin : Z := (-1074)%Z.
Let prec : Z := 53%Z.
Notation fexp2 := (FLT_exp emin prec).
Notation F2 := (generic_format radix2 fexp2).

Instance prec53_gt_0 : Prec_gt_0 prec.
Proof. unfold Prec_gt_0, prec. lia. Qed.
Instance precP_gt_0 : Prec_gt_0 P.
Proof. unfold Prec_gt_0. lia. Qed.

Lemma pow_ineq : bpow radix10 (-16) < bpow radix2 (-53).
Proof.
  change (bpow radix10 (-16)) with (/ IZR (Zpower_pos 10 16)).
  change (bpow radix2 (-53)) with (/ IZR (Zpower_pos 2 53)).
  apply Rinv_lt_contravar.
  - apply Rmult_lt_0_compat; apply IZR_lt; reflexivity.
  - apply IZR_lt. reflexivity.
Qed.

Lemma dec_err (c10 : Z -> bool) x :
  Rabs (round radix10 (FLX_exp P) (Znearest c10) x - x) <= / 2 * bpow radix10 (-16) * Rabs x.
Proof.
  eapply Rle_trans; [apply relative_error_N_FLX; exact precP_gt_0|].
  apply Rmult_le_compat_r; [apply Rabs_pos|].
  apply Rmult_le_compat_l; [lra|].
  apply bpow_le. lia.
Qed.

Lemma ulp_pow2 x : 0 < x -> x = bpow radix2 (mag radix2 x - 1) -> x * bpow radix2 (-52) <= ulp radix2 fexp2 x.
Proof.
  intros Hx E. rewrite ulp_neq_0 by lra. unfold cexp, FLT_exp.
  rewrite E at 1. rewrite <- bpow_plus. apply bpow_le. unfold prec. lia.
Qed.

Theorem dec17_pos (c2 c10 : Z -> bool) x : 0 < x -> F2 x ->
  round radix2 fexp2 (Znearest c2) (round radix10 (FLX_exp P) (Znearest c10) x) = x.
Proof.
  intros Hx Fx. set (d := round radix10 (FLX_exp P) (Znearest c10) x).
  pose proof (dec_err c10 x) as He. fold d in He. rewrite (Rabs_pos_eq x) in He by lra.
  pose proof pow_ineq as Hn.
  pose proof (ulp_FLT_gt radix2 emin prec x) as Hu. rewrite (Rabs_pos_eq x) in Hu by lra.
  change (bpow radix2 (- prec)) with (bpow radix2 (-53)) in Hu.
  assert (Hb : 0 < bpow radix10 (-16)) by apply bpow_gt_0.
  assert (Hd : Rabs (d - x) < / 2 * (x * bpow radix2 (-53))).
  { eapply Rle_lt_trans; [exact He|]. nra. }
  apply Rabs_lt_inv in Hd.
  apply Rle_antisym.
  - apply (round_N_le_midp radix2 fexp2 c2 x d Fx). rewrite succ_eq_pos by lra. lra.
  - apply (round_N_ge_midp radix2 fexp2 c2 x d Fx).
    pose proof (pred_plus_ulp radix2 fexp2 x Hx Fx) as Hp.
    destruct (ulp_FLT_pred_pos radix2 emin prec x Fx (Rlt_le _ _ Hx)) as [E | [E1 E2]].
    + rewrite E in Hp. lra.
    + pose proof (ulp_pow2 x Hx E1) as Hu2.
      rewrite E2 in Hp. change (IZR radix2) with 2 in Hp.
      assert (H52 : bpow radix2 (-52) = 2 * bpow radix2 (-53)).
      { change (-52)%Z with (1 + -53)%Z. rewrite bpow_plus. reflexivity. }
      rewrite H52 in Hu2.
      assert (Hd2 : Rabs (d - x) < / 2 * (x * bpow radix2 (-53))).
      { eapply Rle_lt_trans; [exact He|]. nra. }
      apply Rabs_lt_inv in Hd2. nra.
Qed.

Theorem dec17_roundtrip (c2 c10 : Z -> bool) x : F2 x ->
  round radix2 fexp2 (Znearest c2) (round radix10 (FLX_exp P) (Znearest c10) x) = x.
Proof.
  intros Fx. destruct (Rtotal_order x 0) as [Hx | [-> | Hx]].
  - (* negative: symmetric, with the mirrored tie-breaking rules *)
    rewrite <- (Ropp_involutive x).
    rewrite (round_N_opp radix10 (FLX_exp P) c10 (- x)).
    rewrite (round_N_opp radix2 fexp2 c2).
    f_equal. apply dec17_pos; [lra|]. apply generic_format_opp. exact Fx.
  - rewrite !round_0; auto with typeclass_instances.
  - apply dec17_pos; assumption.
Qed.

End Dec17.
