(* C07: integer parameters survive print + _GD_TokToNum.
   int64_roundtrip / uint64_roundtrip: for every value of the type, in base 10
   and in base 0 (auto) mode. *)
From Coq Require Import ZArith List Bool Lia.
From GD Require Import C07.Token C07.Number.
Import ListNotations.
Local Open Scope Z_scope.

Definition is_dig (c : byte) : Prop := 48 <= c <= 57.

Lemma digit_val_dig c : is_dig c -> digit_val c = c - 48.
Proof.
  unfold is_dig, digit_val. intros H.
  replace ((48 <=? c) && (c <=? 57)) with true; [reflexivity|].
  symmetry. apply andb_true_iff. split; apply Z.leb_le; lia.
Qed.

Lemma parse_base_dig c a n r : is_dig c ->
  parse_base 10 a n (c :: r) = parse_base 10 (a * 10 + (c - 48)) (n + 1) r.
Proof.
  intros H. cbn [parse_base]. rewrite digit_val_dig by assumption.
  replace (c - 48 <? 10) with true by (symmetry; apply Z.ltb_lt; unfold is_dig in H; lia).
  reflexivity.
Qed.

(* digs prints n: reading the digits back accumulates n *)
Lemma digs_spec fuel : forall n, 0 <= n < 2 ^ Z.of_nat fuel -> (0 < fuel)%nat ->
  exists k, 1 <= k /\ Forall is_dig (digs fuel n) /\
    forall a cnt r, parse_base 10 a cnt (digs fuel n ++ r) = parse_base 10 (a * 10 ^ k + n) (cnt + k) r.
Proof.
  induction fuel as [|f IH]; intros n Hn Hfu.
  - exfalso. lia.
  - cbn [digs]. destruct (Z.ltb_spec n 10) as [Hlt | Hge].
    + exists 1. split; [lia|]. split; [constructor; [unfold is_dig; lia | constructor]|].
      intros a cnt r. cbn [app]. rewrite parse_base_dig by (unfold is_dig; lia).
      f_equal; lia.
    + assert (Hn' : 0 <= n / 10 < 2 ^ Z.of_nat f).
      { split; [apply Z.div_pos; lia|].
        rewrite Nat2Z.inj_succ, Z.pow_succ_r in Hn by lia.
        apply Z.div_lt_upper_bound; lia. }
      assert (Hf0 : (0 < f)%nat).
      { destruct f; [|lia]. cbn in Hn'. assert (1 <= n / 10) by (apply Z.div_le_lower_bound; lia). lia. }
      destruct (IH _ Hn' Hf0) as (k & Hk & Hd & Hp).
      exists (k + 1). split; [lia|]. split.
      * apply Forall_app. split; [assumption|]. constructor; [|constructor]. unfold is_dig.
        pose proof (Z.mod_pos_bound n 10). lia.
      * intros a cnt r. rewrite <- app_assoc. cbn [app]. rewrite Hp.
        rewrite parse_base_dig by (unfold is_dig; pose proof (Z.mod_pos_bound n 10); lia).
        pose proof (Z.div_mod n 10 ltac:(lia)) as Hdm.
        rewrite Z.pow_add_r by lia. change (10 ^ 1) with 10.
        generalize dependent (10 ^ k). intros p Hp.
        f_equal; [set (q := n / 10) in *; set (m := n mod 10) in *; clearbody q m; subst n; ring | ring].
Qed.

Lemma digs_head fuel : forall n, 0 < n < 2 ^ Z.of_nat fuel ->
  exists d t, digs fuel n = d :: t /\ 49 <= d <= 57.
Proof.
  induction fuel as [|f IH]; intros n Hn.
  - cbn in Hn. exfalso. lia.
  - cbn [digs]. destruct (Z.ltb_spec n 10) as [Hlt | Hge].
    + exists (48 + n), []. split; [reflexivity | lia].
    + assert (Hn' : 0 < n / 10 < 2 ^ Z.of_nat f).
      { split; [apply Z.div_str_pos; lia|].
        rewrite Nat2Z.inj_succ, Z.pow_succ_r in Hn by lia.
        apply Z.div_lt_upper_bound; lia. }
      destruct (IH _ Hn') as (d & t & E & Hd). rewrite E.
      exists d, (t ++ [48 + n mod 10]). split; [reflexivity | assumption].
Qed.

Lemma fuel_ok n : 0 <= n -> n < 2 ^ Z.of_nat (S (Z.to_nat (Z.log2 n))).
Proof.
  intros H. rewrite Nat2Z.inj_succ, Z2Nat.id by apply Z.log2_nonneg.
  destruct (Z.eq_dec n 0) as [-> | Hnz]; [cbn; lia|].
  apply Z.log2_spec. lia.
Qed.

(* strto_int on a printed magnitude *)
Lemma strto_int_unsigned base0 n : 0 <= n ->
  strto_int base0 (print_unsigned n) = (false, n, []).
Proof.
  intros Hn. unfold print_unsigned.
  set (fuel := S (Z.to_nat (Z.log2 n))).
  assert (Hf : 0 <= n < 2 ^ Z.of_nat fuel) by (split; [assumption | apply fuel_ok; assumption]).
  destruct (Z.eq_dec n 0) as [-> | Hnz].
  - destruct base0; reflexivity.
  - destruct (digs_head fuel n) as (d & t & E & Hd); [lia|].
    destruct (digs_spec fuel n Hf ltac:(subst fuel; lia)) as (k & Hk & _ & Hp).
    specialize (Hp 0 0 []). rewrite app_nil_r in Hp.
    unfold strto_int. rewrite E in *. cbn [skip_ws].
    replace (is_space d) with false
      by (unfold is_space; symmetry; apply orb_false_iff; split;
          [apply Z.eqb_neq; lia | apply andb_false_iff; right; apply Z.leb_gt; lia]).
    unfold split_sign.
    replace (d =? 45) with false by (symmetry; apply Z.eqb_neq; lia).
    replace (d =? 43) with false by (symmetry; apply Z.eqb_neq; lia).
    replace (d =? 48) with false by (symmetry; apply Z.eqb_neq; lia).
    rewrite andb_false_r. rewrite Hp.
    cbn [parse_base]. replace (0 * 10 ^ k + n) with n by lia.
    replace (0 + k =? 0) with false by (symmetry; apply Z.eqb_neq; lia).
    reflexivity.
Qed.

Lemma strto_int_negative base0 n : 0 < n ->
  strto_int base0 (45 :: print_unsigned n) = (true, n, []).
Proof.
  intros Hn. unfold print_unsigned.
  set (fuel := S (Z.to_nat (Z.log2 n))).
  assert (Hf : 0 <= n < 2 ^ Z.of_nat fuel) by (split; [lia | apply fuel_ok; lia]).
  destruct (digs_head fuel n) as (d & t & E & Hd); [lia|].
  destruct (digs_spec fuel n Hf ltac:(subst fuel; lia)) as (k & Hk & _ & Hp).
  specialize (Hp 0 0 []). rewrite app_nil_r in Hp.
  unfold strto_int. rewrite E in *. cbn [skip_ws is_space Z.eqb Z.leb andb orb].
  change (is_space 45) with false. cbv iota.
  unfold split_sign. change (45 =? 45) with true. cbv iota.
  replace (d =? 48) with false by (symmetry; apply Z.eqb_neq; lia).
  rewrite andb_false_r. rewrite Hp.
  cbn [parse_base]. replace (0 * 10 ^ k + n) with n by lia.
  replace (0 + k =? 0) with false by (symmetry; apply Z.eqb_neq; lia).
  reflexivity.
Qed.

Lemma strto_int_print base0 z :
  strto_int base0 (print_Z z) = (z <? 0, Z.abs z, []).
Proof.
  unfold print_Z. destruct (Z.ltb_spec z 0).
  - rewrite strto_int_negative by lia. f_equal. f_equal. lia.
  - rewrite strto_int_unsigned by lia. f_equal. f_equal. lia.
Qed.

(* integer parameters are asked for with re = NULL (want_re = false): both
   reader variants (uf, zf) agree *)
Theorem int64_roundtrip_gen uf zf pu base0 wim z :
  - two63 <= z < two63 ->
  tok_to_num_gen uf zf pu base0 false wim (print_Z z) = Num (PInt z) None.
Proof.
  intros Hz. unfold tok_to_num_gen, tok_part_gen. rewrite strto_int_print.
  assert (Ev : (if z <? 0 then - Z.abs z else Z.abs z) = z) by (destruct (Z.ltb_spec z 0); lia).
  rewrite Ev.
  replace ((- two63 <=? z) && (z <? two63)) with true
    by (symmetry; apply andb_true_iff; split; [apply Z.leb_le | apply Z.ltb_lt]; lia).
  rewrite andb_false_r. reflexivity.
Qed.

Theorem int64_roundtrip_lemma base0 wim z :
  - two63 <= z < two63 ->
  tok_to_num base0 false wim (print_Z z) = Num (PInt z) None.
Proof. apply int64_roundtrip_gen. Qed.

Theorem uint64_roundtrip_lemma base0 wim z :
  0 <= z < two64 ->
  tok_to_num base0 false wim (print_Z z) = Num (if z <? two63 then PInt z else PUInt z) None.
Proof.
  intros Hz. unfold tok_to_num, tok_to_num_gen, tok_part_gen. rewrite strto_int_print.
  replace (z <? 0) with false by (symmetry; apply Z.ltb_ge; lia).
  rewrite Z.abs_eq by lia.
  replace (- two63 <=? z) with true by (symmetry; apply Z.leb_le; unfold two63; lia).
  rewrite andb_false_r.
  cbn [andb].
  destruct (z <? two63); cbn [negb andb at_term]; [reflexivity|].
  replace (z <? two64) with true by (symmetry; apply Z.ltb_lt; lia).
  reflexivity.
Qed.

(* the value the reader stores for an unsigned / signed parameter *)
Definition as_unsigned (r : numres) : option Z :=
  match r with
  | Num (PUInt v) None => Some v
  | Num (PInt v) None => if v <? 0 then None else Some v
  | Num (PDbl b) None => if dbl_neg b && negb (dbl_is_zero b) then None else Some (dbl_trunc b)
  | _ => None
  end.
Definition as_signed (r : numres) : option Z :=
  match r with
  | Num (PInt v) None => Some v
  | Num (PDbl b) None => Some (dbl_trunc b)
  | _ => None
  end.

Corollary unsigned_param_roundtrip base0 z :
  0 <= z < two64 -> as_unsigned (tok_to_num base0 false false (print_Z z)) = Some z.
Proof.
  intros Hz. rewrite uint64_roundtrip_lemma by assumption.
  destruct (Z.ltb_spec z two63); cbn [as_unsigned]; [|reflexivity].
  replace (z <? 0) with false by (symmetry; apply Z.ltb_ge; lia). reflexivity.
Qed.

Corollary signed_param_roundtrip base0 z :
  - two63 <= z < two63 -> as_signed (tok_to_num base0 false false (print_Z z)) = Some z.
Proof. intros Hz. rewrite int64_roundtrip_lemma by assumption. reflexivity. Qed.
