From Coq Require Import ZArith.
From GD Require Import C07.Token C07.Number C07.Entry C07.Fragment.
Require Import ExtrOcamlBasic.
Extraction Language OCaml.
Extraction "model.ml" print_entry print_hidden print_alias parse_line parse_spec rctx_of tokenise escape
  print_g print_Z stableb tok_to_num strtod_model looks_numeric two64 Z.add Z.mul Z.sub Z.opp Z.ltb Z.eqb Z.div_eucl dbl_is_nan
  entry_items items_toks print_header parse_header initial_state include_items items_text parse_include.
