(* C07: entry round trips with lists of parameters: LINCOM (1-3 inputs),
   POLYNOM, WINDOW, CARRAY, SARRAY.  Scalar parameters are handled through
   numw_ok / cvalw: "the word is well formed and _GD_SetScalar reads it back",
   which holds for literals (nlit_ok, integer ranges) and for scalar field
   codes (ScalarCode.v). *)
From Coq Require Import ZArith List Bool Lia String.
From GD Require Import C07.Token C07.TokenProofs C07.Number C07.NumberProofs C07.Entry C07.EntryProofs.
Import ListNotations.
Local Open Scope Z_scope.

Definition numw_ok (c : wctx) (comp : bool) (s : sval cplx) : Prop :=
  word_ok (num_word c comp s) /\ set_cplx (rctx_of c) (word_tok (num_word c comp s)) = Some s.

Lemma numw_ok_lit c comp z : nlit_ok c comp z -> numw_ok c comp (SLit z).
Proof.
  intros (Hp & Hne & Hs). split; [|exact Hs].
  destruct z as [re im]. unfold num_word, cplx_word, dbl_word in *.
  destruct comp; cbn [word_tok map piece_tok List.concat] in *; rewrite app_nil_r in *;
    apply word_ok_raw; auto using plainb_plain.
Qed.

(* ------------------------------------------------------------------ *)
(* lists of words *)

Lemma seps_ok {A} (l : list A) (f : A -> word) last :
  (forall x, In x l -> word_ok (f x)) -> sep_ok last -> Forall item_ok (seps l f last).
Proof.
  intros Hf Hl. induction l as [|x l IH]; [constructor|].
  cbn [seps]. destruct l as [|y l'].
  - constructor; [|constructor]. split; [apply Hf; left; reflexivity | exact Hl].
  - constructor.
    + split; [apply Hf; left; reflexivity | apply sep_ok_sp].
    + apply IH. intros z Hz. apply Hf. right. exact Hz.
Qed.

Lemma seps_toks {A} (l : list A) (f : A -> word) last :
  items_toks (seps l f last) = map (fun x => word_tok (f x)) l.
Proof.
  induction l as [|x l IH]; [reflexivity|].
  cbn [seps]. destruct l as [|y l']; [reflexivity|].
  unfold items_toks in *. cbn [map fst]. rewrite IH. reflexivity.
Qed.

Lemma all_some_map {X Y} (f : X -> option Y) (g : X -> Y) l :
  (forall x, In x l -> f x = Some (g x)) -> all_some (map f l) = Some (map g l).
Proof.
  induction l as [|x l IH]; intros H; [reflexivity|].
  cbn [map all_some]. rewrite (H x) by (left; reflexivity).
  rewrite IH by (intros y Hy; apply H; right; exact Hy). reflexivity.
Qed.

(* ------------------------------------------------------------------ *)
(* LINCOM *)

Definition term := (bstring * sval cplx * sval cplx)%type.
Definition term_ok (c : wctx) (comp : bool) (x : term) : Prop :=
  code_ok c (fst (fst x)) /\ numw_ok c comp (snd (fst x)) /\ numw_ok c comp (snd x).
Definition tok3 (c : wctx) (comp : bool) (x : term) : list bstring :=
  [fst (fst x); word_tok (num_word c comp (snd (fst x))); word_tok (num_word c comp (snd x))].

Lemma lincom_items_toks c comp l :
  Forall (term_ok c comp) l -> items_toks (lincom_items c comp l) = flat_map (tok3 c comp) l.
Proof.
  induction 1 as [|[[i m] b] l Hx _ IH]; [reflexivity|].
  destruct Hx as ((_ & Hs & _) & _ & _). cbn [fst snd] in Hs.
  cbn [lincom_items flat_map]. unfold items_toks in *. cbn [map fst]. rewrite IH.
  unfold tok3. cbn [fst snd app]. unfold in_word, word_tok at 1. cbn [map piece_tok List.concat].
  rewrite Hs, app_nil_r. reflexivity.
Qed.

Lemma lincom_items_ok c comp l :
  Forall (term_ok c comp) l -> Forall item_ok (lincom_items c comp l).
Proof.
  induction 1 as [|[[i m] b] l Hx _ IH]; [constructor|].
  destruct Hx as ((Hi & Hs & _) & (Hm & _) & (Hb & _)). cbn [fst snd] in *.
  cbn [lincom_items]. unfold in_word. rewrite Hs.
  constructor; [split; [apply word_ok_esc; exact Hi | apply sep_ok_sp]|].
  constructor; [split; [exact Hm | apply sep_ok_sp]|].
  constructor; [split; [exact Hb | destruct l; [apply sep_ok_nl | apply sep_ok_sp]]|].
  exact IH.
Qed.

Lemma lincom_terms_ok c comp l : Forall (term_ok c comp) l -> forall extra,
  lincom_terms (rctx_of c) (List.length l) (flat_map (tok3 c comp) l ++ extra) = Some l.
Proof.
  induction 1 as [|[[i m] b] l Hx _ IH]; intros extra; [reflexivity|].
  destruct Hx as ((_ & _ & Hin) & (_ & Hm) & (_ & Hb)). cbn [fst snd] in *.
  cbn [List.length lincom_terms flat_map tok3 fst snd app]. rewrite Hm, Hb, IH, Hin. reflexivity.
Qed.

Lemma length_flat3 c comp l : List.length (flat_map (tok3 c comp) l) = (3 * List.length l)%nat.
Proof. induction l as [|x l IH]; [reflexivity|]. cbn [flat_map tok3 app List.length]. rewrite IH. lia. Qed.

Definition lincom_comp (l : list term) : bool :=
  existsb (fun x => im_nonzero (snd (fst x)) || im_nonzero (snd x)) l.

Theorem lincom_roundtrip c name (terms : list term) :
  ctx_ok c -> name_ok c name -> (1 <= List.length terms <= 3)%nat ->
  Forall (term_ok c (lincom_comp terms)) terms ->
  parse_line (rctx_of c) (print_entry c (ELincom name (lincom_comp terms) terms))
  = Some (ELincom name (lincom_comp terms) terms).
Proof.
  intros Hc [Hn Hv] Hlen Hok. set (comp := lincom_comp terms) in *.
  set (n := Z.of_nat (List.length terms)).
  rewrite (parse_print c _ (name :: B"LINCOM" :: print_Z n :: flat_map (tok3 c comp) terms)); [| assumption | | ].
  - unfold parse_spec. rewrite Hv. cbn [negb]. kw_decide.
    rewrite strto_int_print.
    replace (n <? 0) with false by (symmetry; apply Z.ltb_ge; subst n; lia).
    rewrite Z.abs_eq by (subst n; lia).
    replace (n <? 1) with false by (symmetry; apply Z.ltb_ge; subst n; lia).
    replace (3 <? n) with false by (symmetry; apply Z.ltb_ge; subst n; lia).
    cbn [orb List.length]. rewrite length_flat3.
    replace (Z.of_nat (S (S (S (3 * List.length terms)))) <? n * 3 + 3) with false
      by (symmetry; apply Z.ltb_ge; subst n; lia).
    subst n. rewrite Nat2Z.id.
    rewrite <- (app_nil_r (flat_map (tok3 c comp) terms)).
    rewrite lincom_terms_ok by assumption. reflexivity.
  - unfold entry_items; cbn [entry_name].
    apply Forall_cons; [head_ok Hn|].
    apply Forall_cons; [apply (item_ok_kw c "LINCOM" 2); (reflexivity || discriminate)|].
    apply Forall_cons; [split; [apply word_ok_raw; apply plain_print_Z | apply sep_ok_sp]|].
    apply lincom_items_ok. assumption.
  - unfold entry_items; cbn [entry_name]. unfold items_toks. cbn [map fst].
    fold (items_toks (lincom_items c comp terms)). rewrite lincom_items_toks by assumption.
    unfold word_tok, kw. cbn [map fst piece_tok List.concat]. rewrite !app_nil_r. reflexivity.
Qed.

(* ------------------------------------------------------------------ *)
(* POLYNOM *)

Theorem polynom_roundtrip c name inf (co : list (sval cplx)) :
  ctx_ok c -> 7 <= w_std c -> name_ok c name -> code_ok c inf -> (2 <= List.length co <= 6)%nat ->
  Forall (numw_ok c (existsb im_nonzero co)) co ->
  parse_line (rctx_of c) (print_entry c (EPolynom name inf (existsb im_nonzero co) co))
  = Some (EPolynom name inf (existsb im_nonzero co) co).
Proof.
  intros Hc H7 [Hn Hv] (Hi & Hs & Hin) Hlen Hok. set (comp := existsb im_nonzero co) in *.
  rewrite (parse_print c _ (name :: B"POLYNOM" :: inf :: map (fun s => word_tok (num_word c comp s)) co)); [| assumption | | ].
  - unfold parse_spec. rewrite Hv. cbn [negb]. kw_decide.
    rewrite (pvers_ctx c 7) by auto. cbn [andb].
    destruct co as [|c0 [|c1 rest]]; [cbn in Hlen; lia | cbn in Hlen; lia |].
    cbn [map].
    change (word_tok (num_word c comp c0) :: word_tok (num_word c comp c1) :: map (fun s => word_tok (num_word c comp s)) rest)
      with (map (fun s => word_tok (num_word c comp s)) (c0 :: c1 :: rest)).
    rewrite firstn_all2 by (rewrite map_length; lia).
    rewrite map_map.
    rewrite (all_some_map _ (fun s => s)).
    + rewrite map_id, Hin. reflexivity.
    + intros s Hs'. rewrite Forall_forall in Hok. apply (Hok s Hs').
  - unfold entry_items, in_word; cbn [entry_name]. rewrite Hs.
    apply Forall_cons; [head_ok Hn|].
    apply Forall_cons; [apply (item_ok_kw c "POLYNOM" 1); (reflexivity || discriminate)|].
    apply Forall_cons; [item_esc Hi|].
    apply seps_ok; [|apply sep_ok_nl]. intros s Hs'. rewrite Forall_forall in Hok. apply (Hok s Hs').
  - unfold entry_items, in_word; cbn [entry_name]. rewrite Hs. unfold items_toks. cbn [map fst].
    fold (items_toks (seps co (num_word c comp) nl)). rewrite seps_toks.
    unfold word_tok at 1 2 3, kw. cbn [map fst piece_tok List.concat]. rewrite !app_nil_r. reflexivity.
Qed.

(* ------------------------------------------------------------------ *)
(* WINDOW *)

Definition thr_ok (c : wctx) (op : windop) (t : wthr) : Prop :=
  match op, t with
  | (WEq | WNe), WI v => - two63 <= v < two63
  | (WSet | WClr), WU v => 0 <= v < two64
  | (WGe | WGt | WLe | WLt), WR b => dlit_ok c b
  | _, _ => False
  end.

Lemma wind_op_name op : wind_op (windop_name op) = Some op.
Proof. destruct op; reflexivity. Qed.

Theorem window_roundtrip c name inf chk op t :
  ctx_ok c -> 9 <= w_std c -> name_ok c name -> code_ok c inf -> code_ok c chk -> thr_ok c op t ->
  parse_line (rctx_of c) (print_entry c (EWindow name inf chk op (SLit t)))
  = Some (EWindow name inf chk op (SLit t)).
Proof.
  intros Hc H9 [Hn Hv] (Hi & Hs & Hin) (Hk & Hsk & Hik) Ht.
  assert (Hw : word_ok (thr_word c op (SLit t)) /\
               exists txt, word_tok (thr_word c op (SLit t)) = txt /\
               match op with
               | WEq | WNe => option_map (fun s => match s with SLit v => SLit (WI v) | SCode n k => SCode n k end) (set_signed (rctx_of c) 64 txt)
               | WSet | WClr => option_map (fun s => match s with SLit v => SLit (WU v) | SCode n k => SCode n k end) (set_unsigned (rctx_of c) 64 txt)
               | _ => option_map (fun s => match s with SLit v => SLit (WR v) | SCode n k => SCode n k end) (set_dbl (rctx_of c) txt)
               end = Some (SLit t)).
  { unfold thr_ok in Ht.
    destruct op, t; try contradiction; cbn [thr_word]; unfold word_tok; cbn [map piece_tok List.concat]; rewrite app_nil_r.
    1, 6: (split; [apply word_ok_raw; apply plain_print_Z | eexists; split; [reflexivity|];
           rewrite (set_signed_lit _ 64) by (change (2 ^ (64 - 1)) with two63; lia); reflexivity]).
    5, 6: (split; [apply word_ok_raw; apply plain_print_Z | eexists; split; [reflexivity|];
           rewrite (set_unsigned_lit _ 64) by (change (2 ^ 64) with two64; lia); reflexivity]).
    all: (destruct Ht as (Hp & Hne & Hd); split; [apply word_ok_raw; [apply plainb_plain, Hp | exact Hne] |
          eexists; split; [reflexivity|]; rewrite Hd; reflexivity]). }
  destruct Hw as (Hwo & txt & Etxt & Hthr).
  rewrite (parse_print c _ [name; B"WINDOW"; inf; chk; windop_name op; txt]); [| assumption | | ].
  - unfold parse_spec. rewrite Hv. cbn [negb]. kw_decide.
    rewrite (pvers_ctx c 9) by auto. cbn [andb].
    rewrite wind_op_name. rewrite Hthr, Hin, Hik. reflexivity.
  - unfold entry_items, in_word; cbn [entry_name]. rewrite Hs, Hsk.
    apply Forall_cons; [head_ok Hn|].
    apply Forall_cons; [apply (item_ok_kw c "WINDOW" 2); (reflexivity || discriminate)|].
    apply Forall_cons; [item_esc Hi|].
    apply Forall_cons; [split; [apply word_ok_esc; exact Hk | split; [discriminate | repeat constructor]]|].
    apply Forall_cons; [split; [apply word_ok_raw; [apply plainb_plain; destruct op; reflexivity | destruct op; discriminate] | apply sep_ok_sp]|].
    apply Forall_cons; [split; [exact Hwo | apply sep_ok_nl]|].
    constructor.
  - unfold entry_items, in_word; cbn [entry_name]. rewrite Hs, Hsk. unfold items_toks. cbn [map fst].
    rewrite Etxt. unfold word_tok, kw. cbn [map fst piece_tok List.concat]. rewrite !app_nil_r. reflexivity.
Qed.

(* ------------------------------------------------------------------ *)
(* CARRAY, SARRAY *)

Theorem carray_roundtrip c name t (vs : list cval) :
  ctx_ok c -> 8 <= w_std c -> name_ok c name -> type_ok c t -> vs <> [] ->
  Forall (cval_ok c t) vs ->
  parse_line (rctx_of c) (print_entry c (ECarray name t vs)) = Some (ECarray name t vs).
Proof.
  intros Hc H8 [Hn Hv] Ht Hne Hok.
  rewrite (parse_print c _ (name :: B"CARRAY" :: type_name t :: map (cval_text c) vs)); [| assumption | | ].
  - unfold parse_spec. rewrite Hv. cbn [negb]. kw_decide.
    rewrite (pvers_ctx c 8) by auto. cbn [andb]. rewrite Ht.
    rewrite map_map. rewrite (all_some_map _ (fun v => v)).
    + rewrite map_id. reflexivity.
    + intros v Hin. rewrite Forall_forall in Hok. apply set_cval_ok, Hok, Hin.
  - unfold entry_items; cbn [entry_name].
    apply Forall_cons; [head_ok Hn|].
    apply Forall_cons; [split; [apply word_ok_raw; [apply plainb_plain; reflexivity | discriminate] | apply sep_ok_pretty]|].
    apply Forall_cons; [split; [apply word_ok_raw; apply plain_type_name | destruct vs; [congruence | apply sep_ok_sp]]|].
    apply seps_ok; [|apply sep_ok_nl]. intros v Hin. rewrite Forall_forall in Hok.
    apply word_ok_raw; apply (plain_cval c t v (Hok v Hin)).
  - unfold entry_items; cbn [entry_name]. unfold items_toks. cbn [map fst].
    fold (items_toks (seps vs (fun v => [PRaw (cval_text c v)]) nl)). rewrite seps_toks.
    unfold word_tok at 1 2 3. cbn [map fst piece_tok List.concat]. rewrite !app_nil_r.
    f_equal. f_equal. f_equal. apply map_ext. intros v. unfold word_tok. cbn. apply app_nil_r.
Qed.

Theorem sarray_roundtrip c name (vs : list bstring) :
  ctx_ok c -> 10 <= w_std c -> name_ok c name -> Forall no_nul vs ->
  parse_line (rctx_of c) (print_entry c (ESarray name vs)) = Some (ESarray name vs).
Proof.
  intros Hc H10 [Hn Hv] Hok.
  rewrite (parse_print c _ (name :: B"SARRAY" :: vs)); [| assumption | | ].
  - unfold parse_spec. rewrite Hv. cbn [negb]. kw_decide.
    rewrite (pvers_ctx c 10) by auto. reflexivity.
  - unfold entry_items; cbn [entry_name].
    apply Forall_cons; [head_ok Hn|].
    apply Forall_cons.
    { split; [apply word_ok_raw; [apply plainb_plain; reflexivity | discriminate]|]. cbn [snd].
      destruct (w_pretty c); destruct vs; cbn [app];
        first [apply sep_ok_nl | apply sep_ok_sp | apply (sep_ok_spaces_sp 2) | idtac].
      split; [discriminate | repeat constructor]. }
    apply seps_ok; [|apply sep_ok_nl]. intros v Hin. rewrite Forall_forall in Hok.
    apply word_ok_esc, Hok, Hin.
  - unfold entry_items; cbn [entry_name]. unfold items_toks. cbn [map fst].
    fold (items_toks (seps vs (fun v => [PEsc v]) nl)). rewrite seps_toks.
    unfold word_tok at 1 2. cbn [map fst piece_tok List.concat]. rewrite !app_nil_r.
    f_equal. f_equal. rewrite <- (map_id vs) at 2. apply map_ext. intros v. unfold word_tok. cbn. apply app_nil_r.
Qed.
