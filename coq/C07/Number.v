(* C07: numbers in format files.
   - print_Z                 : printf %d/%u/%lld/%llu (decimal)
   - print_g                 : printf %.Pg of a binary64 bit pattern, exact
                               (correctly rounded, ties to even, as glibc)
   - strto_int, strtod_model : strtoll/strtoull (base 10 or 0) and strtod
                               (decimal, hex, inf, nan; correctly rounded;
                               ERANGE on overflow and on tiny inexact results)
   - tok_to_num              : _GD_TokToNum (parse.c:116-247)
   doubles are IEEE-754 binary64 bit patterns (Z, 0 <= b < 2^64).
   No proofs here (NumberProofs.v). *)
From Coq Require Import ZArith List Bool.
From GD Require Import C07.Token Gen.Formats.
Import ListNotations.
Local Open Scope Z_scope.

(* ------------------------------------------------------------------ *)
(* decimal integers *)

Fixpoint digs (fuel : nat) (n : Z) : bstring :=      (* most significant digit first *)
  match fuel with
  | O => []
  | S f => if n <? 10 then [48 + n] else digs f (n / 10) ++ [48 + n mod 10]
  end.

Definition print_unsigned (n : Z) : bstring := digs (S (Z.to_nat (Z.log2 n))) n.
Definition print_Z (z : Z) : bstring :=
  if z <? 0 then 45 :: print_unsigned (- z) else print_unsigned z.

(* ------------------------------------------------------------------ *)
(* strtoll / strtoull *)

Definition is_space (c : byte) : bool := (c =? 32) || ((9 <=? c) && (c <=? 13)).
Fixpoint skip_ws (s : bstring) : bstring :=
  match s with
  | c :: r => if is_space c then skip_ws r else s
  | [] => []
  end.

Definition digit_val (c : byte) : Z :=
  if (48 <=? c) && (c <=? 57) then c - 48
  else if (97 <=? c) && (c <=? 122) then c - 87
  else if (65 <=? c) && (c <=? 90) then c - 55
  else 99.

(* consume digits of base b: (value, number of bytes consumed, rest) *)
Fixpoint parse_base (b : Z) (acc : Z) (n : Z) (s : bstring) : Z * Z * bstring :=
  match s with
  | c :: r => if digit_val c <? b then parse_base b (acc * b + digit_val c) (n + 1) r else (acc, n, s)
  | [] => (acc, n, [])
  end.

Definition is_x (c : byte) : bool := (c =? 120) || (c =? 88).

Definition split_sign (s : bstring) : bool * bstring :=
  match s with
  | c :: r => if c =? 45 then (true, r) else if c =? 43 then (false, r) else (false, s)
  | [] => (false, [])
  end.

(* after white space: optional sign, base prefix, digits.
   result: (negative, magnitude, rest); no conversion => rest is the whole input *)
Definition strto_int (base0 : bool) (s0 : bstring) : bool * Z * bstring :=
  let '(neg, s1) := split_sign (skip_ws s0) in
  let none := (false, 0, s0) in
  let dec := let '(v, n, rest) := parse_base 10 0 0 s1 in if n =? 0 then none else (neg, v, rest) in
  let oct := let '(v, _, rest) := parse_base 8 0 0 s1 in (neg, v, rest) in
  match s1 with
  | c0 :: t =>
      if base0 && (c0 =? 48) then
        match t with
        | x :: h :: r =>
            if is_x x && (digit_val h <? 16) then
              let '(v, _, rest) := parse_base 16 0 0 (h :: r) in (neg, v, rest)
            else oct
        | _ => oct
        end
      else dec
  | [] => none
  end.

Definition two63 : Z := 9223372036854775808.
Definition two64 : Z := 18446744073709551616.
Definition two52 : Z := 4503599627370496.
Definition two53 : Z := 9007199254740992.

(* ------------------------------------------------------------------ *)
(* binary64 *)

(* round the positive rational n/d to binary64, ties to even.
   result: (bits without sign, erange) *)
Definition bits_of_ratio (n d : Z) : Z * bool :=
  if n =? 0 then (0, false)
  else
    let e0 := Z.log2 n - Z.log2 d in
    (* E = floor(log2 (n/d)) *)
    let ge := if 0 <=? e0 then d * 2 ^ e0 <=? n else d <=? n * 2 ^ (- e0) in
    let E := if ge then e0 else e0 - 1 in
    let q := Z.max (E - 52) (-1074) in
    let num := if q <? 0 then n * 2 ^ (- q) else n in
    let den := if q <? 0 then d else d * 2 ^ q in
    let m := num / den in
    let r := num mod den in
    let up := (den <? 2 * r) || ((den =? 2 * r) && Z.odd m) in
    let m' := if up then m + 1 else m in
    let bits := (q + 1074) * two52 + m' in
    if 2047 * two52 <=? bits then (2047 * two52, true)
    else (bits, (m' <? two52) && negb (r =? 0)).

Definition with_sign (neg : bool) (b : Z) : Z := if neg then b + two63 else b.

(* (negative, m, q): value = m * 2^q for finite patterns *)
Definition decode (b : Z) : bool * Z * Z :=
  let neg := two63 <=? b in
  let a := b mod two63 in
  let ef := a / two52 in
  let mf := a mod two52 in
  if ef =? 0 then (neg, mf, -1074) else (neg, mf + two52, ef - 1075).

Definition dbl_is_nan (b : Z) : bool := let a := b mod two63 in (2047 * two52 <? a).
Definition dbl_is_inf (b : Z) : bool := let a := b mod two63 in (2047 * two52 =? a).
Definition dbl_is_zero (b : Z) : bool := (b mod two63 =? 0).
Definition dbl_is_finite (b : Z) : bool := (b mod two63 <? 2047 * two52).
Definition dbl_is_subnormal (b : Z) : bool := let a := b mod two63 in (0 <? a) && (a <? two52).
Definition dbl_neg (b : Z) : bool := two63 <=? b.

(* (double)v for an integer v *)
Definition dbl_of_Z (v : Z) : Z :=
  with_sign (v <? 0) (fst (bits_of_ratio (Z.abs v) 1)).

(* truncation toward zero of a finite double (C cast to a 64-bit integer) *)
Definition dbl_trunc (b : Z) : Z :=
  let '(neg, m, q) := decode b in
  let v := if 0 <=? q then m * 2 ^ q else m / 2 ^ (- q) in
  if neg then - v else v.

(* ------------------------------------------------------------------ *)
(* printf %.Pg *)

Fixpoint strip_zeros_rev (s : bstring) : bstring :=   (* s is reversed *)
  match s with
  | 48 :: r => strip_zeros_rev r
  | _ => s
  end.
Definition strip_trailing_zeros (s : bstring) : bstring := rev (strip_zeros_rev (rev s)).

Fixpoint zeros (n : nat) : bstring := match n with O => [] | S k => 48 :: zeros k end.

(* v = num/den > 0: the decimal exponent X with 10^X <= v < 10^(X+1) *)
Definition ge_pow10 (num den X : Z) : bool :=
  if 0 <=? X then den * 10 ^ X <=? num else den <=? num * 10 ^ (- X).
Definition dec_exponent (num den : Z) : Z :=
  let x0 := ((Z.log2 num - Z.log2 den) * 1233) / 4096 in
  let x1 := if ge_pow10 num den (x0 + 2) then x0 + 2
            else if ge_pow10 num den (x0 + 1) then x0 + 1
            else if ge_pow10 num den x0 then x0
            else if ge_pow10 num den (x0 - 1) then x0 - 1
            else x0 - 2 in
  x1.

(* round num/den / 10^s to an integer, ties to even *)
Definition round_div_pow10 (num den s : Z) : Z :=
  let n' := if s <? 0 then num * 10 ^ (- s) else num in
  let d' := if s <? 0 then den else den * 10 ^ s in
  let m := n' / d' in
  let r := n' mod d' in
  if (d' <? 2 * r) || ((d' =? 2 * r) && Z.odd m) then m + 1 else m.

Definition print_exp (X : Z) : bstring :=
  let a := Z.abs X in
  101 :: (if X <? 0 then 45 else 43) :: (if a <? 10 then 48 :: print_unsigned a else print_unsigned a).

Definition print_g (P : Z) (b : Z) : bstring :=
  let P := if P <=? 0 then 1 else P in
  let sgn := if dbl_neg b then [45] else [] in
  if dbl_is_nan b then sgn ++ [110; 97; 110]
  else if dbl_is_inf b then sgn ++ [105; 110; 102]
  else if dbl_is_zero b then sgn ++ [48]
  else
    let '(_, m, q) := decode b in
    let num := if q <? 0 then m else m * 2 ^ q in
    let den := if q <? 0 then 2 ^ (- q) else 1 in
    let X0 := dec_exponent num den in
    let D0 := round_div_pow10 num den (X0 - P + 1) in
    let '(D, X) := if 10 ^ P <=? D0 then (D0 / 10, X0 + 1) else (D0, X0) in
    let ds := print_unsigned D in            (* exactly P digits *)
    if (X <? -4) || (P <=? X) then
      (* scientific *)
      let frac := strip_trailing_zeros (tl ds) in
      sgn ++ firstn 1 ds ++ (match frac with [] => [] | _ => 46 :: frac end) ++ print_exp X
    else if 0 <=? X then
      let ip := firstn (Z.to_nat (X + 1)) ds in
      let frac := strip_trailing_zeros (skipn (Z.to_nat (X + 1)) ds) in
      sgn ++ ip ++ (match frac with [] => [] | _ => 46 :: frac end)
    else
      let frac := strip_trailing_zeros (zeros (Z.to_nat (- X - 1)) ++ ds) in
      sgn ++ [48; 46] ++ frac.

(* ------------------------------------------------------------------ *)
(* strtod *)

Definition is_digit (c : byte) : bool := (48 <=? c) && (c <=? 57).
Definition lower (c : byte) : byte := if (65 <=? c) && (c <=? 90) then c + 32 else c.

Fixpoint prefix_ci (p s : bstring) : option bstring :=   (* p is lower case *)
  match p, s with
  | [], _ => Some s
  | a :: p', c :: s' => if lower c =? a then prefix_ci p' s' else None
  | _, [] => None
  end.

Definition is_nchar (c : byte) : bool :=
  is_digit c || ((97 <=? lower c) && (lower c <=? 122)) || (c =? 95).
Fixpoint skip_nchars (s : bstring) : bstring :=
  match s with
  | c :: r => if is_nchar c then skip_nchars r else s
  | [] => []
  end.

Definition exp_clamp (e : Z) : Z := Z.max (-40000) (Z.min 40000 e).

(* optional exponent part: marker already checked by the caller.
   returns (exponent, rest) or None when no digits follow *)
Definition parse_exponent (s : bstring) : option (Z * bstring) :=
  let '(neg, s1) := split_sign s in
  let '(v, n, rest) := parse_base 10 0 0 s1 in
  if n =? 0 then None else Some (if neg then - v else v, rest).

(* "nan" may be followed by "(n-char-sequence)" *)
Definition nan_tail (r : bstring) : bstring :=
  match r with
  | c :: t =>
      if c =? 40 then
        match skip_nchars t with
        | d :: u => if d =? 41 then u else r
        | [] => r
        end
      else r
  | [] => r
  end.

(* "0x" followed by a hex digit or a point *)
Definition is_hex_start (s1 : bstring) : bool :=
  match s1 with
  | c0 :: x :: h :: _ => (c0 =? 48) && is_x x && ((digit_val h <? 16) || (h =? 46))
  | _ => false
  end.

(* optional fraction: (mantissa, fraction digits, rest) *)
Definition frac_part (b ip : Z) (r1 : bstring) : Z * Z * bstring :=
  match r1 with
  | c :: t => if c =? 46 then parse_base b ip 0 t else (ip, 0, r1)
  | [] => (ip, 0, r1)
  end.

(* optional exponent introduced by mk1/mk2: (exponent, rest) *)
Definition exp_part (mk1 mk2 : byte) (r2 : bstring) : Z * bstring :=
  match r2 with
  | c :: t =>
      if (c =? mk1) || (c =? mk2) then
        match parse_exponent t with Some (e, r) => (e, r) | None => (0, r2) end
      else (0, r2)
  | [] => (0, r2)
  end.

(* result: (bits, rest, erange); no conversion => (0, s0, false) *)
Definition strtod_model (s0 : bstring) : Z * bstring * bool :=
  let '(neg, s1) := split_sign (skip_ws s0) in
  let none := (0, s0, false) in
  match prefix_ci [105; 110; 102] s1 with
  | Some r =>
      let r' := match prefix_ci [105; 110; 105; 116; 121] r with Some r2 => r2 | None => r end in
      (with_sign neg (2047 * two52), r', false)
  | None =>
  match prefix_ci [110; 97; 110] s1 with
  | Some r => (with_sign neg (2047 * two52 + two52 / 2), nan_tail r, false)
  | None =>
    if is_hex_start s1 then
      let body := tl (tl s1) in
      let '(ip, ni, r1) := parse_base 16 0 0 body in
      let '(m, nf, r2) := frac_part 16 ip r1 in
      if ni + nf =? 0 then
        (* "0x" not followed by a hex digit: only the "0" is converted *)
        (with_sign neg 0, tl s1, false)
      else
        let '(ex, r3) := exp_part 112 80 r2 in
        let e2 := exp_clamp ex - 4 * nf in
        let '(b, er) := if 0 <=? e2 then bits_of_ratio (m * 2 ^ e2) 1 else bits_of_ratio m (2 ^ (- e2)) in
        (with_sign neg b, r3, er)
    else
      let '(ip, ni, r1) := parse_base 10 0 0 s1 in
      let '(m, nf, r2) := frac_part 10 ip r1 in
      if ni + nf =? 0 then none
      else
        let '(ex, r3) := exp_part 101 69 r2 in
        let e10 := exp_clamp ex - nf in
        let '(b, er) := if 0 <=? e10 then bits_of_ratio (m * 10 ^ e10) 1 else bits_of_ratio m (10 ^ (- e10)) in
        (with_sign neg b, r3, er)
  end end.

(* ------------------------------------------------------------------ *)
(* _GD_TokToNum *)

Inductive npart := PInt (v : Z) | PUInt (v : Z) | PDbl (b : Z).

Inductive numres :=
  | NotNum                         (* -1 *)
  | BadNum                         (* -2 *)
  | Num (re : npart) (im : option npart).   (* im = None: GD_NULL *)

(* endptr must be at the end (or at ';' for the real part) *)
Definition at_term (semi : bool) (rest : bstring) : bool :=
  match rest with
  | [] => true
  | c :: _ => semi && (c =? 59)
  end.

(* one component: strtoll, then strtoull on ERANGE, then strtod.
   The literal rules of _GD_TokToNum are parameters; the translator records in
   Gen/Formats.v which ones the current source has:
   uf = what happens to a strtod result flagged ERANGE: 0 rejected (pinned
        source), 1 accepted when small (underflow), 2 accepted
   zf = an integer zero is left to strtod when a floating value is wanted
   pu = strtoull is only tried after a positive strtoll overflow
   want = the caller passed a pointer for this part as a double (re / im) *)
Definition erange_ok (uf : Z) (b : Z) : bool :=
  (uf =? 2) || ((uf =? 1) && negb (dbl_is_inf b)).

Definition tok_part_gen (uf : Z) (zf pu : bool) (base0 semi want : bool) (s : bstring) : option (npart * bstring) :=
  let '(neg, mag, rest) := strto_int base0 s in
  let v := if neg then - mag else mag in
  let ll_erange := negb ((- two63 <=? v) && (v <? two63)) in
  if negb ll_erange && at_term semi rest && negb (zf && want && (v =? 0)) then Some (PInt v, rest)
  else
    let try_d :=
      let '(b, rest_d, er) := strtod_model s in
      if (negb er || erange_ok uf b) && at_term semi rest_d then Some (PDbl b, rest_d) else None in
    if ll_erange && negb (pu && neg) then
      if (mag <? two64) && at_term semi rest then Some (PUInt (if neg then (two64 - mag) mod two64 else mag), rest)
      else try_d
    else try_d.

Definition part_is_zero (p : npart) : bool :=
  match p with
  | PInt v => v =? 0
  | PUInt v => v =? 0
  | PDbl b => dbl_is_zero b
  end.

Definition tok_to_num_gen (uf : Z) (zf pu : bool) (base0 want_re want_im : bool) (tok : bstring) : numres :=
  match tok_part_gen uf zf pu base0 true want_re tok with
  | None => NotNum
  | Some (re, rest) =>
      match rest with
      | [] => Num re None
      | _ :: itok =>
          match tok_part_gen uf zf pu base0 false want_im itok with
          | None => NotNum
          | Some (im, _) =>
              if part_is_zero im then Num re (if zf && want_im then Some im else None)   (* zf: the zero keeps its sign *)
              else if want_im then Num re (Some im) else BadNum
          end
      end
  end.

(* the reader of the current source *)
Definition tok_part := tok_part_gen tok_erange_rule tok_zero_via_strtod tok_ull_positive_only.
Definition tok_to_num := tok_to_num_gen tok_erange_rule tok_zero_via_strtod tok_ull_positive_only.

Definition part_dbl (p : npart) : Z :=
  match p with
  | PInt v => dbl_of_Z v
  | PUInt v => dbl_of_Z v
  | PDbl b => b
  end.

Definition wrap_signed (bits v : Z) : Z :=
  let m := 2 ^ bits in let w := v mod m in if w <? m / 2 then w else w - m.

(* base0 = (!pedantic || standards >= 9) *)
Definition base0_of (pedantic : bool) (standards : Z) : bool := negb pedantic || (9 <=? standards).

(* a token passes as a number (the writer's "<0>" test and gd_add's ambiguity test) *)
Definition looks_numeric (base0 : bool) (tok : bstring) : bool :=
  match tok_to_num base0 false false tok with
  | NotNum => false
  | _ => true
  end.

(* does _GD_TokToNum(printf("%.Pg", x)) asked for a double give x back? *)
Definition stableb_gen (uf : Z) (zf pu : bool) (P : Z) (b : Z) : bool :=
  match tok_to_num_gen uf zf pu true true false (print_g P b) with
  | Num re None => part_dbl re =? b
  | _ => false
  end.
Definition stableb := stableb_gen tok_erange_rule tok_zero_via_strtod tok_ull_positive_only.
