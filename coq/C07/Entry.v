(* C07: field specification lines.
   writer  = _GD_FieldSpec / _GD_WriteConst / _GD_WriteFieldCode / _GD_PadField
             (src/flush.c:313-804) for a fragment without affixes or namespace
   reader  = _GD_ParseFieldSpec and the _GD_Parse* functions, _GD_SetScalar,
             _GD_RawType, _GD_WindOp, _GD_ValidateField(GD_VF_NAME)
             (src/parse.c:24-1810, src/name.c:563-653)
   A line is a list of items (word, separator); a word is a list of pieces
   that are either escaped strings or verbatim text.
   No proofs here (EntryProofs.v). *)
From Coq Require Import ZArith List Bool String.
From GD Require Import C07.Token C07.Number.
Import ListNotations.
Local Open Scope Z_scope.

(* ------------------------------------------------------------------ *)
(* data *)

Inductive gdt := T_U8 | T_I8 | T_U16 | T_I16 | T_U32 | T_I32 | T_U64 | T_I64
               | T_F32 | T_F64 | T_C64 | T_C128.

Definition gdt_eqb (a b : gdt) : bool :=
  match a, b with
  | T_U8,T_U8 | T_I8,T_I8 | T_U16,T_U16 | T_I16,T_I16 | T_U32,T_U32 | T_I32,T_I32
  | T_U64,T_U64 | T_I64,T_I64 | T_F32,T_F32 | T_F64,T_F64 | T_C64,T_C64 | T_C128,T_C128 => true
  | _, _ => false
  end.

Inductive tclass := CUns | CSig | CFlt | CCpx.
Definition class_of (t : gdt) : tclass :=
  match t with
  | T_U8 | T_U16 | T_U32 | T_U64 => CUns
  | T_I8 | T_I16 | T_I32 | T_I64 => CSig
  | T_F32 | T_F64 => CFlt
  | T_C64 | T_C128 => CCpx
  end.

(* a literal or a scalar field code with index (-1 = none) *)
Inductive sval (A : Type) := SLit (v : A) | SCode (name : bstring) (idx : Z).
Arguments SLit {A} v.
Arguments SCode {A} name idx.

Definition cplx := (Z * Z)%type.       (* (re bits, im bits) *)

Inductive yoke := YMultiply | YDivide | YIndir | YSindir.
Inductive windop := WEq | WGe | WGt | WLe | WLt | WNe | WSet | WClr.

Inductive wthr := WI (v : Z) | WU (v : Z) | WR (b : Z).   (* threshold.i / .u / .r *)

(* CONST/CARRAY element as stored: int64, uint64, double, complex *)
Inductive cval := VI (v : Z) | VU (v : Z) | VD (b : Z) | VC (re im : Z).

Inductive entry :=
  | ERaw (name : bstring) (t : gdt) (spf : sval Z)
  | ELincom (name : bstring) (comp : bool) (terms : list (bstring * sval cplx * sval cplx))
  | ELinterp (name inf table : bstring)
  | EBit (sgn : bool) (name inf : bstring) (bitnum numbits : sval Z)
  | EYoke (k : yoke) (name in1 in2 : bstring)
  | ERecip (name inf : bstring) (comp : bool) (dividend : sval cplx)
  | EPhase (name inf : bstring) (shift : sval Z)
  | EPolynom (name inf : bstring) (comp : bool) (coef : list (sval cplx))
  | EWindow (name inf chk : bstring) (op : windop) (thr : sval wthr)
  | EMplex (name inf cnt : bstring) (val period : sval Z)
  | EConst (name : bstring) (t : gdt) (v : cval)
  | ECarray (name : bstring) (t : gdt) (vs : list cval)
  | EString (name : bstring) (v : bstring)
  | ESarray (name : bstring) (vs : list bstring).

(* ------------------------------------------------------------------ *)
(* lines *)

Inductive piece := PEsc (s : bstring) | PRaw (s : bstring).
Definition word := list piece.
Definition item := (word * bstring)%type.      (* word, separator that follows it *)

Definition piece_text (raw : bool) (p : piece) : bstring :=
  match p with PEsc s => escape raw s | PRaw s => s end.
Definition piece_tok (p : piece) : bstring := match p with PEsc s => s | PRaw s => s end.
Definition word_text (raw : bool) (w : word) : bstring := List.concat (map (piece_text raw) w).
Definition word_tok (w : word) : bstring := List.concat (map piece_tok w).
Definition items_text (raw : bool) (l : list item) : bstring :=
  List.concat (map (fun it => word_text raw (fst it) ++ snd it) l).
Definition items_toks (l : list item) : list bstring := map (fun it => word_tok (fst it)) l.

(* ------------------------------------------------------------------ *)
(* writer *)

Record wctx := mkW {
  w_std : Z;            (* D->standards *)
  w_perm : bool;        (* permissive = D->flags & GD_NOSTANDARD *)
  w_pretty : bool;      (* GD_PRETTY_PRINT *)
  w_maxlen : Z;         (* max_len computed by _GD_FlushFragment *)
  w_P : Z               (* significant digits of the double conversions *)
}.

Definition w_raw (c : wctx) : bool := negb (w_perm c) && (w_std c <? 6).
Definition w_reprz (c : wctx) : bool := w_perm c || (10 <=? w_std c).
Definition w_base0 (c : wctx) : bool := base0_of (negb (w_perm c)) (w_std c).

Definition type_name (t : gdt) : bstring :=
  match t with
  | T_U8 => B"UINT8" | T_I8 => B"INT8" | T_U16 => B"UINT16" | T_I16 => B"INT16"
  | T_U32 => B"UINT32" | T_I32 => B"INT32" | T_U64 => B"UINT64" | T_I64 => B"INT64"
  | T_F32 => B"FLOAT32" | T_F64 => B"FLOAT64" | T_C64 => B"COMPLEX64" | T_C128 => B"COMPLEX128"
  end.

Definition windop_name (o : windop) : bstring :=
  match o with
  | WEq => B"EQ" | WGe => B"GE" | WGt => B"GT" | WLe => B"LE" | WLt => B"LT" | WNe => B"NE"
  | WSet => B"SET" | WClr => B"CLR"
  end.

Definition sp : bstring := [32].
Definition nl : bstring := [10].
Fixpoint spaces (n : nat) : bstring := match n with O => [] | S k => 32 :: spaces k end.

(* _GD_StripCode without affixes, for an input/scalar code (GD_CO_REPR):
   a one-character (sub)field name r, i, a or m gets a disambiguating .z *)
Definition is_repr_char (c : byte) : bool := (c =? 114) || (c =? 105) || (c =? 97) || (c =? 109).
Definition last_seg (s : bstring) : bstring :=       (* the part after the last slash *)
  fold_left (fun acc ch => if ch =? 47 then [] else acc ++ [ch]) s [].
(* an explicit .z (no representation) is dropped again, unless it is needed *)
Definition drop_dot_z (s : bstring) : bstring :=
  match rev s with
  | 122 :: 46 :: (_ :: _) as r => rev (tl (tl (rev s)))
  | _ => s
  end.
Definition strip_code (c : wctx) (code : bstring) : bstring :=
  let body := if w_reprz c then drop_dot_z code else code in
  match last_seg body with
  | [x] => if w_reprz c && is_repr_char x then body ++ [46; 122] else body
  | _ => body
  end.

(* _GD_WriteFieldCode for an input field *)
Definition in_word (c : wctx) (code : bstring) : word := [PEsc (strip_code c code)].

(* _GD_WriteConst with scalar != NULL *)
Definition code_word (c : wctx) (name : bstring) (idx : Z) : word :=
  let s := strip_code c name in
  [PEsc s] ++
  (if (idx =? -1) && looks_numeric (w_base0 c) s then [PRaw (B"<0>")] else []) ++
  (if idx =? -1 then [] else [PRaw (B"<" ++ print_Z idx ++ B">")]).

Definition int_word (c : wctx) (s : sval Z) : word :=
  match s with SLit v => [PRaw (print_Z v)] | SCode n i => code_word c n i end.
Definition dbl_word (c : wctx) (s : sval cplx) : word :=
  match s with SLit (re, _) => [PRaw (print_g (w_P c) re)] | SCode n i => code_word c n i end.
Definition cplx_text (c : wctx) (re im : Z) : bstring :=
  print_g (w_P c) re ++ [59] ++ print_g (w_P c) im.
Definition cplx_word (c : wctx) (s : sval cplx) : word :=
  match s with SLit (re, im) => [PRaw (cplx_text c re im)] | SCode n i => code_word c n i end.
Definition num_word (c : wctx) (comp : bool) (s : sval cplx) : word :=
  if comp then cplx_word c s else dbl_word c s.

Definition cval_text (c : wctx) (v : cval) : bstring :=
  match v with
  | VI z => print_Z z
  | VU z => print_Z z
  | VD b => print_g (w_P c) b
  | VC re im => cplx_text c re im
  end.

Definition entry_name (e : entry) : bstring :=
  match e with
  | ERaw n _ _ | ELincom n _ _ | ELinterp n _ _ | EBit _ n _ _ _ | EYoke _ n _ _
  | ERecip n _ _ _ | EPhase n _ _ | EPolynom n _ _ _ | EWindow n _ _ _ _ | EMplex n _ _ _ _
  | EConst n _ _ | ECarray n _ _ | EString n _ | ESarray n _ => n
  end.

(* the padding _GD_PadField adds after a name whose escaped length is len *)
Definition name_sep (c : wctx) (len : Z) : bstring :=
  spaces (Z.to_nat (w_maxlen c - len)) ++ sp.

Definition kw (c : wctx) (k : string) (pad : nat) : item :=
  ([PRaw (B k)], (if w_pretty c then spaces pad else []) ++ sp).

Fixpoint seps {A} (l : list A) (f : A -> word) (last : bstring) : list item :=
  match l with
  | [] => []
  | [x] => [(f x, last)]
  | x :: r => (f x, sp) :: seps r f last
  end.

Definition thr_word (c : wctx) (op : windop) (t : sval wthr) : word :=
  match t with
  | SCode n i => code_word c n i
  | SLit (WI v) => [PRaw (print_Z v)]
  | SLit (WU v) => [PRaw (print_Z v)]
  | SLit (WR b) => [PRaw (print_g (w_P c) b)]
  end.

Definition yoke_kw (c : wctx) (k : yoke) : item :=
  match k with
  | YMultiply => ([PRaw (B"MULTIPLY")], sp)
  | YDivide => kw c "DIVIDE" 2
  | YIndir => kw c "INDIR" 3
  | YSindir => kw c "SINDIR" 2
  end.

Fixpoint lincom_items (c : wctx) (comp : bool) (l : list (bstring * sval cplx * sval cplx)) : list item :=
  match l with
  | [] => []
  | (i, m, b) :: r =>
      (in_word c i, sp) :: (num_word c comp m, sp) ::
      (num_word c comp b, match r with [] => nl | _ => sp end) :: lincom_items c comp r
  end.

Definition entry_items (c : wctx) (e : entry) : list item :=
  let nm := entry_name e in
  let nlen := Z.of_nat (List.length (word_text (w_raw c) [PEsc nm])) in
  let head := ([PEsc nm], name_sep c nlen) in
  head ::
  match e with
  | ERaw _ t spf => [kw c "RAW" 5; ([PRaw (type_name t)], sp); (int_word c spf, nl)]
  | ELincom _ comp terms =>
      kw c "LINCOM" 2 :: ([PRaw (print_Z (Z.of_nat (List.length terms)))], sp) :: lincom_items c comp terms
  | ELinterp _ i t => [kw c "LINTERP" 1; (in_word c i, sp); ([PEsc t], nl)]
  | EBit s _ i bn nb =>
      [(if s then kw c "SBIT" 4 else kw c "BIT" 5); (in_word c i, sp); (int_word c bn, sp); (int_word c nb, nl)]
  | EYoke k _ a b => [yoke_kw c k; (in_word c a, sp); (in_word c b, nl)]
  | ERecip _ i _ d => [kw c "RECIP" 3; (in_word c i, sp); (cplx_word c d, nl)]
  | EPhase _ i s => [kw c "PHASE" 3; (in_word c i, sp); (int_word c s, nl)]
  | EPolynom _ i comp co => kw c "POLYNOM" 1 :: (in_word c i, sp) :: seps co (num_word c comp) nl
  | EWindow _ i ck op t =>
      [kw c "WINDOW" 2; (in_word c i, sp); (in_word c ck, sp ++ sp); ([PRaw (windop_name op)], sp);
       (thr_word c op t, nl)]
  | EMplex _ i ct v p =>
      [kw c "MPLEX" 3; (in_word c i, sp); (in_word c ct, sp); (int_word c v, sp); (int_word c p, nl)]
  | EConst _ t v => [kw c "CONST" 3; ([PRaw (type_name t)], sp); ([PRaw (cval_text c v)], nl)]
  | ECarray _ t vs =>
      ([PRaw (B"CARRAY")], (if w_pretty c then spaces 2 else []) ++ sp) ::
      ([PRaw (type_name t)], match vs with [] => nl | _ => sp end) ::
      seps vs (fun v => [PRaw (cval_text c v)]) nl
  | EString _ v => [kw c "STRING" 2; ([PEsc v], nl)]
  | ESarray _ vs =>
      ([PRaw (B"SARRAY")], (if w_pretty c then spaces 2 else []) ++ match vs with [] => nl | _ => sp end) ::
      seps vs (fun v => [PEsc v]) nl
  end.

Definition print_entry (c : wctx) (e : entry) : bstring :=
  items_text (w_raw c) (entry_items c e).

(* /HIDDEN and /ALIAS lines *)
Definition print_hidden (c : wctx) (name : bstring) : bstring :=
  items_text (w_raw c) [([PRaw (B"/HIDDEN")], sp); ([PEsc name], nl)].
Definition print_alias (c : wctx) (name target : bstring) : bstring :=
  items_text (w_raw c) [([PRaw (B"/ALIAS")], sp); ([PEsc name], sp); (in_word c target, nl)].

(* ------------------------------------------------------------------ *)
(* reader *)

Record rctx := mkR { r_std : Z; r_ped : bool }.
Definition pvers_ge (r : rctx) (v : Z) : bool := negb (r_ped r) || (v <=? r_std r).
Definition r_base0 (r : rctx) : bool := base0_of (r_ped r) (r_std r).

(* _GD_ValidateField(name, nsl = 0 or past the last dot, standards, strict, GD_VF_NAME)
   for a top-level name without namespace *)
Fixpoint name_chars_ok (r : rctx) (last_dot : bool) (s : bstring) : bool :=
  match s with
  | [] => true
  | c :: t =>
      if (c =? 47) || (c <? 32) then false
      else if r_ped r && (((5 <=? r_std r) && ((c =? 60) || (c =? 62) || (c =? 59) || (c =? 124) || (c =? 38)))
                          || ((r_std r =? 5) && ((c =? 92) || (c =? 35)))) then false
      else if c =? 46 then
        if r_ped r && (6 <=? r_std r) then false else name_chars_ok r true t
      else name_chars_ok r false t
  end.

Definition reserved_name (r : rctx) (s : bstring) : bool :=
  r_ped r && (r_std r <? 8) &&
  ((bstring_eqb s (B"FRAMEOFFSET") && (1 <=? r_std r)) ||
   (bstring_eqb s (B"ENCODING") && (6 <=? r_std r)) ||
   (bstring_eqb s (B"ENDIAN") && (5 <=? r_std r)) ||
   (bstring_eqb s (B"INCLUDE") && (3 <=? r_std r)) ||
   (bstring_eqb s (B"META") && (6 <=? r_std r)) ||
   (bstring_eqb s (B"VERSION") && (5 <=? r_std r)) ||
   (bstring_eqb s (B"PROTECT") && (6 <=? r_std r)) ||
   (bstring_eqb s (B"REFERENCE") && (6 <=? r_std r))).

Definition valid_name (r : rctx) (s : bstring) : bool :=
  let len := Z.of_nat (List.length s) in
  match s with
  | [] => false
  | _ =>
      negb (r_ped r && (((50 <? len) && (r_std r <? 5)) || ((16 <? len) && (r_std r <? 3)))) &&
      name_chars_ok r false s &&
      negb (reserved_name r s) &&
      negb (bstring_eqb s (B"INDEX")) &&
      negb (r_ped r && (r_std r <? 6) && bstring_eqb s (B"FILEFRAM"))
  end.

(* Barth-style metafield names parent/subfield (_GD_CheckParent, Standards
   Version >= 7): the first slash after the first character splits the name.
   That the parent exists in the same fragment is context and not modelled. *)
Fixpoint split_first_slash (s : bstring) : option (bstring * bstring) :=
  match s with
  | [] => None
  | c :: t => if c =? 47 then Some ([], t)
              else match split_first_slash t with Some (a, b) => Some (c :: a, b) | None => None end
  end.
Definition split_meta (r : rctx) (name : bstring) : option (bstring * bstring) :=
  if pvers_ge r 7 then
    match name with
    | c :: t => match split_first_slash t with Some (a, b) => Some (c :: a, b) | None => None end
    | [] => None
    end
  else None.
Definition is_meta (r : rctx) (name : bstring) : bool :=
  match split_meta r name with Some _ => true | None => false end.

(* the subfield name is validated like a name, without the INDEX / FILEFRAM test *)
Definition valid_subname (r : rctx) (s : bstring) : bool :=
  let len := Z.of_nat (List.length s) in
  match s with
  | [] => false
  | _ =>
      negb (r_ped r && (((50 <? len) && (r_std r <? 5)) || ((16 <? len) && (r_std r <? 3)))) &&
      name_chars_ok r false s && negb (reserved_name r s)
  end.

Definition valid_field (r : rctx) (name : bstring) : bool :=
  match split_meta r name with
  | Some (_, sub) => valid_subname r sub
  | None => valid_name r name
  end.

(* _GD_RawType *)
Definition legacy_type (c : byte) : option gdt :=
  if c =? 99 then Some T_U8 else if c =? 117 then Some T_U16 else if c =? 115 then Some T_I16
  else if c =? 85 then Some T_U32 else if (c =? 105) || (c =? 83) then Some T_I32
  else if c =? 102 then Some T_F32 else if c =? 100 then Some T_F64 else None.

Definition raw_type (r : rctx) (s : bstring) : option gdt :=
  match s with
  | [c] => if negb (r_ped r) || (r_std r <? 8) then legacy_type c else None
  | _ =>
      if r_ped r && (r_std r <? 5) then None
      else if bstring_eqb s (B"INT8") then Some T_I8
      else if bstring_eqb s (B"INT16") then Some T_I16
      else if bstring_eqb s (B"INT32") then Some T_I32
      else if bstring_eqb s (B"INT64") then Some T_I64
      else if bstring_eqb s (B"UINT8") then Some T_U8
      else if bstring_eqb s (B"UINT16") then Some T_U16
      else if bstring_eqb s (B"UINT32") then Some T_U32
      else if bstring_eqb s (B"UINT64") then Some T_U64
      else if bstring_eqb s (B"FLOAT64") then Some T_F64
      else if bstring_eqb s (B"FLOAT32") then Some T_F32
      else if bstring_eqb s (B"FLOAT") then Some T_F32
      else if bstring_eqb s (B"DOUBLE") then Some T_F64
      else if r_ped r && (r_std r <? 7) then None
      else if bstring_eqb s (B"COMPLEX128") then Some T_C128
      else if bstring_eqb s (B"COMPLEX64") then Some T_C64
      else None
  end.

Definition wind_op (s : bstring) : option windop :=
  if bstring_eqb s (B"EQ") then Some WEq else if bstring_eqb s (B"LT") then Some WLt
  else if bstring_eqb s (B"LE") then Some WLe else if bstring_eqb s (B"GT") then Some WGt
  else if bstring_eqb s (B"GE") then Some WGe else if bstring_eqb s (B"NE") then Some WNe
  else if bstring_eqb s (B"SET") then Some WSet else if bstring_eqb s (B"CLR") then Some WClr
  else None.

(* _GD_InputCode without affixes: a leading dot is dropped unless pedantic <= 5 *)
Definition input_code (r : rctx) (tok : bstring) : bstring :=
  match tok with
  | c :: t => if (c =? 46) && negb (r_ped r && (r_std r <=? 5)) then t else tok
  | [] => tok
  end.

(* carray_check of _GD_SetScalar: the first "<n>" with a valid integer *)
Fixpoint carray_check (s : bstring) : bstring * Z :=
  match s with
  | [] => ([], -1)
  | c :: t =>
      if c =? 60 then
        let '(neg, mag, rest) := strto_int true t in
        match rest with
        | d :: _ => if d =? 62 then ([], wrap_signed 32 (if neg then - mag else mag))
                    else let '(n, i) := carray_check t in (c :: n, i)
        | [] => let '(n, i) := carray_check t in (c :: n, i)
        end
      else let '(n, i) := carray_check t in (c :: n, i)
  end.

Definition scalar_code {A} (r : rctx) (tok : bstring) : sval A :=
  let '(n, i) := carray_check (input_code r tok) in SCode n i.

(* _GD_SetScalar by class; None = format error *)
Definition set_cplx (r : rctx) (tok : bstring) : option (sval cplx) :=
  match tok_to_num (r_base0 r) true true tok with
  | NotNum => Some (scalar_code r tok)
  | BadNum => None
  | Num re im => Some (SLit (part_dbl re, match im with None => 0 | Some p => part_dbl p end))
  end.
Definition set_dbl (r : rctx) (tok : bstring) : option (sval Z) :=
  match tok_to_num (r_base0 r) true false tok with
  | NotNum => Some (scalar_code r tok)
  | BadNum => None
  | Num re _ => Some (SLit (part_dbl re))
  end.
Definition set_signed (r : rctx) (bits : Z) (tok : bstring) : option (sval Z) :=
  match tok_to_num (r_base0 r) false false tok with
  | NotNum => Some (scalar_code r tok)
  | BadNum => None
  | Num (PInt v) _ => Some (SLit (wrap_signed bits v))
  | Num (PDbl b) _ => Some (SLit (wrap_signed bits (dbl_trunc b)))
  | Num (PUInt _) _ => None
  end.
Definition set_unsigned (r : rctx) (bits : Z) (tok : bstring) : option (sval Z) :=
  match tok_to_num (r_base0 r) false false tok with
  | NotNum => Some (scalar_code r tok)
  | BadNum => None
  | Num (PUInt v) _ => Some (SLit (v mod 2 ^ bits))
  | Num (PInt v) _ => if v <? 0 then None else Some (SLit (v mod 2 ^ bits))
  | Num (PDbl b) _ => if dbl_neg b && negb (dbl_is_zero b) then None else Some (SLit (dbl_trunc b mod 2 ^ bits))
  end.

Definition lit_only {A} (o : option (sval A)) : option A :=
  match o with Some (SLit v) => Some v | _ => None end.

Definition set_cval (r : rctx) (t : gdt) (tok : bstring) : option cval :=
  match class_of t with
  | CUns => option_map VU (lit_only (set_unsigned r 64 tok))
  | CSig => option_map VI (lit_only (set_signed r 64 tok))
  | CFlt => option_map VD (lit_only (set_dbl r tok))
  | CCpx => option_map (fun p : cplx => VC (fst p) (snd p)) (lit_only (set_cplx r tok))
  end.

Definition im_nonzero (s : sval cplx) : bool :=
  match s with SLit (_, im) => negb (dbl_is_zero im) | _ => false end.

Fixpoint all_some {A} (l : list (option A)) : option (list A) :=
  match l with
  | [] => Some []
  | Some x :: r => option_map (cons x) (all_some r)
  | None :: _ => None
  end.

Fixpoint lincom_terms (r : rctx) (n : nat) (toks : list bstring)
  : option (list (bstring * sval cplx * sval cplx)) :=
  match n with
  | O => Some []
  | S k =>
      match toks with
      | i :: m :: b :: rest =>
          match set_cplx r m, set_cplx r b, lincom_terms r k rest with
          | Some m', Some b', Some l => Some ((input_code r i, m', b') :: l)
          | _, _, _ => None
          end
      | _ => None
      end
  end.

Definition is_lit {A} (s : sval A) : bool := match s with SLit _ => true | _ => false end.
Definition lit_lt {A} (s : sval A) (f : A -> bool) : bool := match s with SLit v => f v | _ => false end.

(* _GD_ParseFieldSpec for a top-level field: tokens = in_cols *)
Definition parse_spec (r : rctx) (toks : list bstring) : option entry :=
  match toks with
  | name :: ty :: args =>
      if negb (valid_field r name) then None else
      let n_cols := Z.of_nat (List.length toks) in
      if bstring_eqb ty (B"RAW") then
        if is_meta r name then None else           (* META RAW fields are prohibited *)
        match args with
        | t :: s :: _ =>
            match raw_type r t, set_unsigned r 32 s with
            | Some t', Some s' => if lit_lt s' (fun v => v <=? 0) then None else Some (ERaw name t' s')
            | _, _ => None
            end
        | _ => None
        end
      else if bstring_eqb ty (B"LINCOM") then
        match args with
        | nt :: rest =>
            let '(neg, mag, rst) := strto_int false nt in
            match rst with
            | [] =>
                let n := if neg then - mag else mag in
                if (n <? 1) || (3 <? n) || (n_cols <? n * 3 + 3) then None
                else match lincom_terms r (Z.to_nat n) rest with
                     | Some l => Some (ELincom name (existsb (fun x => im_nonzero (snd (fst x)) || im_nonzero (snd x)) l) l)
                     | None => None
                     end
            | _ =>
                let n := (n_cols - 2) / 3 in
                if negb ((n_cols mod 3) =? 2) || (n <? 1) || (3 <? n) then None
                else match lincom_terms r (Z.to_nat n) args with
                     | Some l => Some (ELincom name (existsb (fun x => im_nonzero (snd (fst x)) || im_nonzero (snd x)) l) l)
                     | None => None
                     end
            end
        | _ => None
        end
      else if bstring_eqb ty (B"LINTERP") then
        match args with
        | i :: t :: _ => Some (ELinterp name (input_code r i) t)
        | _ => None
        end
      else if bstring_eqb ty (B"BIT") || (bstring_eqb ty (B"SBIT") && pvers_ge r 7) then
        match args with
        | i :: bn :: rest =>
            match set_signed r 32 bn, (match rest with nb :: _ => set_signed r 32 nb | [] => Some (SLit 1) end) with
            | Some bn', Some nb' =>
                if lit_lt nb' (fun v => v <? 1) then None
                else if lit_lt bn' (fun v => v <? 0) then None
                else if is_lit bn' && is_lit nb' &&
                        (match bn', nb' with SLit a, SLit b => 63 <? a + b - 1 | _, _ => false end) then None
                else Some (EBit (bstring_eqb ty (B"SBIT")) name (input_code r i) bn' nb')
            | _, _ => None
            end
        | _ => None
        end
      else if (bstring_eqb ty (B"MULTIPLY") && pvers_ge r 2) || (bstring_eqb ty (B"DIVIDE") && pvers_ge r 8)
              || (bstring_eqb ty (B"INDIR") && pvers_ge r 10) || (bstring_eqb ty (B"SINDIR") && pvers_ge r 2) then
        match args with
        | a :: b :: _ =>
            let k := if bstring_eqb ty (B"MULTIPLY") then YMultiply else if bstring_eqb ty (B"DIVIDE") then YDivide
                     else if bstring_eqb ty (B"INDIR") then YIndir else YSindir in
            Some (EYoke k name (input_code r a) (input_code r b))
        | _ => None
        end
      else if bstring_eqb ty (B"RECIP") && pvers_ge r 8 then
        match args with
        | i :: d :: _ =>
            match set_cplx r d with
            | Some d' => Some (ERecip name (input_code r i) (im_nonzero d') d')
            | None => None
            end
        | _ => None
        end
      else if bstring_eqb ty (B"PHASE") && pvers_ge r 4 then
        match args with
        | i :: s :: _ =>
            match set_signed r 64 s with
            | Some s' => Some (EPhase name (input_code r i) s')
            | None => None
            end
        | _ => None
        end
      else if bstring_eqb ty (B"POLYNOM") && pvers_ge r 7 then
        match args with
        | i :: c0 :: c1 :: rest =>
            match all_some (map (set_cplx r) (firstn 6 (c0 :: c1 :: rest))) with
            | Some l => Some (EPolynom name (input_code r i) (existsb im_nonzero l) l)
            | None => None
            end
        | _ => None
        end
      else if bstring_eqb ty (B"WINDOW") && pvers_ge r 9 then
        match args with
        | i :: ck :: op :: t :: _ =>
            match wind_op op with
            | None => None
            | Some o =>
                let thr :=
                  match o with
                  | WEq | WNe => option_map (fun s => match s with SLit v => SLit (WI v) | SCode n k => SCode n k end) (set_signed r 64 t)
                  | WSet | WClr => option_map (fun s => match s with SLit v => SLit (WU v) | SCode n k => SCode n k end) (set_unsigned r 64 t)
                  | _ => option_map (fun s => match s with SLit v => SLit (WR v) | SCode n k => SCode n k end) (set_dbl r t)
                  end in
                match thr with
                | Some t' => Some (EWindow name (input_code r i) (input_code r ck) o t')
                | None => None
                end
            end
        | _ => None
        end
      else if bstring_eqb ty (B"MPLEX") && pvers_ge r 9 then
        match args with
        | i :: ct :: v :: rest =>
            match set_signed r 32 v, (match rest with p :: _ => set_signed r 32 p | [] => Some (SLit 0) end) with
            | Some v', Some p' => if lit_lt p' (fun x => x <? 0) then None
                                  else Some (EMplex name (input_code r i) (input_code r ct) v' p')
            | _, _ => None
            end
        | _ => None
        end
      else if bstring_eqb ty (B"CONST") && pvers_ge r 6 then
        match args with
        | t :: v :: _ =>
            match raw_type r t with
            | Some t' => option_map (EConst name t') (set_cval r t' v)
            | None => None
            end
        | _ => None
        end
      else if bstring_eqb ty (B"CARRAY") && pvers_ge r 8 then
        match args with
        | t :: vs =>
            match raw_type r t with
            | Some t' => option_map (ECarray name t') (all_some (map (set_cval r t') vs))
            | None => None
            end
        | _ => None
        end
      else if bstring_eqb ty (B"STRING") && pvers_ge r 6 then
        match args with
        | v :: _ => Some (EString name v)
        | _ => None
        end
      else if bstring_eqb ty (B"SARRAY") && pvers_ge r 10 then
        Some (ESarray name args)
      else None
  | _ => None
  end.

Definition parse_line (r : rctx) (line : bstring) : option entry :=
  match tokenise (pvers_ge r 6) line with
  | inr toks => parse_spec r toks
  | inl _ => None
  end.

(* the reader that re-reads what a writer context wrote: /VERSION n makes the
   parser pedantic at n (for n >= 5; permissive output has no /VERSION and is
   read non-pedantically at the newest version) *)
Definition rctx_of (c : wctx) : rctx :=
  if w_perm c then mkR 10 false else mkR (w_std c) true.
