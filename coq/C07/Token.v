(* C07: byte strings, the token escaper of the writer (_GD_StringEscapeise,
   src/flush.c) and a self-contained model of the tokeniser of the reader
   (_GD_Tokenise, src/parse.c), both as total functions over lists of byte
   values (Z, 0..255; `char` is signed on the host, the model uses the unsigned
   value, so the control-byte test is c < 32).
   No proofs here (TokenProofs.v). *)
From Coq Require Import ZArith List Bool String Ascii.
Import ListNotations.
Local Open Scope Z_scope.

Definition byte := Z.
Definition bstring := list byte.

Fixpoint bytes_of_string (s : string) : bstring :=
  match s with
  | EmptyString => []
  | String a r => Z.of_N (N_of_ascii a) :: bytes_of_string r
  end.
Notation "'B' s" := (bytes_of_string s) (at level 9, only parsing).

Fixpoint bstring_eqb (a b : bstring) : bool :=
  match a, b with
  | [], [] => true
  | x :: a', y :: b' => (x =? y) && bstring_eqb a' b'
  | _, _ => false
  end.

Definition byte_ok (c : byte) : Prop := 1 <= c <= 255.      (* any byte except NUL *)
Definition no_nul (s : bstring) : Prop := Forall byte_ok s.
Definition byte_okb (c : byte) : bool := (1 <=? c) && (c <=? 255).
Definition no_nulb (s : bstring) : bool := forallb byte_okb s.

(* ------------------------------------------------------------------ *)
(* writer: _GD_StringEscapeise (flush.c:245-311)                       *)

Definition hexdigit (n : Z) : byte := if n <? 10 then 48 + n else 55 + n.  (* HexDigit[n] *)

Definition esc_special (c : byte) : bool :=
  (c =? 92) || (c =? 35) || (c =? 34) || (c =? 32).        (* backslash, hash, double quote, space *)

Definition escape_char (c : byte) : bstring :=
  if esc_special c then [92; c]
  else if c <? 32 then [92; 120; hexdigit (c / 16); hexdigit (c mod 16)]   (* \xHH *)
  else [c].

Definition escape_body (s : bstring) : bstring := flat_map escape_char s.

(* raw = (!permissive && standards < 6): the string is written verbatim *)
Definition escape (raw : bool) (s : bstring) : bstring :=
  match s with
  | [] => [34; 34]                                        (* two double quotes *)
  | _ => if raw then s else escape_body s
  end.

(* meta = 1 variant used for META parent in Standards Version 6: stops at
   the first unescaped '/' *)
Fixpoint escape_meta_body (s : bstring) : bstring :=
  match s with
  | [] => []
  | c :: r =>
      if esc_special c then 92 :: c :: escape_meta_body r
      else if c <? 32 then 92 :: 120 :: hexdigit (c / 16) :: hexdigit (c mod 16) :: escape_meta_body r
      else if c =? 47 then []
      else c :: escape_meta_body r
  end.

(* ------------------------------------------------------------------ *)
(* reader: _GD_Tokenise (parse.c:1818-2024)                            *)

Inductive accmode := AccNone | AccOctal | AccHex | AccUtf8.

Record tstate := mkT {
  t_esc : bool;            (* escaped_char *)
  t_quo : bool;            (* quotated *)
  t_ws : bool;             (* ws: no token is open *)
  t_acc : Z;               (* accumulator *)
  t_nacc : Z;              (* n_acc *)
  t_mode : accmode;        (* acc_mode *)
  t_toks : list bstring;   (* completed tokens, most recent first *)
  t_cur : bstring          (* the open token, most recent byte first *)
}.

Definition t_init : tstate := mkT false false true 0 0 AccNone [] [].

Inductive terr := E_CHARACTER | E_UNTERM.
Inductive outcome := Cont (s : tstate) | Stop (s : tstate) | Fail (e : terr).

Definition is_ws (c : byte) : bool :=
  (c =? 32) || (c =? 10) || (c =? 9) || (c =? 13) || (c =? 12) || (c =? 11).
Definition is_octal (c : byte) : bool := (48 <=? c) && (c <=? 55).
Definition is_xdigit (c : byte) : bool :=
  ((48 <=? c) && (c <=? 57)) || ((65 <=? c) && (c <=? 70)) || ((97 <=? c) && (c <=? 102)).
Definition xval (c : byte) : Z :=
  if (48 <=? c) && (c <=? 57) then c - 48
  else if (65 <=? c) && (c <=? 70) then c - 65 + 10
  else c - 97 + 10.

(* if (ws) { in_cols[n_cols++] = op; ws = 0; } *)
Definition start_tok (st : tstate) : tstate :=
  if t_ws st then mkT (t_esc st) (t_quo st) false (t_acc st) (t_nacc st) (t_mode st) (t_toks st) []
  else st.
(* op[0] = c; op++ *)
Definition push (st : tstate) (c : byte) : tstate :=
  mkT (t_esc st) (t_quo st) (t_ws st) (t_acc st) (t_nacc st) (t_mode st) (t_toks st) (c :: t_cur st).
(* if (!ws) { terminate token; ws = 1; } *)
Definition end_tok (st : tstate) : tstate :=
  if t_ws st then st
  else mkT (t_esc st) (t_quo st) true (t_acc st) (t_nacc st) (t_mode st) (rev (t_cur st) :: t_toks st) [].
(* emit a byte and leave escape mode.  accumulator/n_acc are dead once
   acc_mode is NONE (every mode entry assigns both), the model clears them. *)
Definition emit_unesc (st : tstate) (c : byte) : tstate :=
  mkT false (t_quo st) (t_ws st) 0 0 AccNone (t_toks st) (c :: t_cur st).
Definition set_esc (st : tstate) : tstate :=
  mkT true (t_quo st) (t_ws st) (t_acc st) (t_nacc st) (t_mode st) (t_toks st) (t_cur st).
Definition set_quo (st : tstate) (q : bool) : tstate :=
  mkT (t_esc st) q (t_ws st) (t_acc st) (t_nacc st) (t_mode st) (t_toks st) (t_cur st).
Definition set_acc (st : tstate) (m : accmode) (a n : Z) : tstate :=
  mkT (t_esc st) (t_quo st) (t_ws st) a n m (t_toks st) (t_cur st).

(* _GD_UTF8Encode *)
Definition utf8_encode (v : Z) : option bstring :=
  if (v >? 1114111) || (v =? 0) then None
  else if v <=? 127 then Some [v]
  else if v <=? 2047 then Some [192 + v / 64; 128 + v mod 64]
  else if v <=? 65535 then Some [224 + v / 4096; 128 + (v / 64) mod 64; 128 + v mod 64]
  else Some [240 + v / 262144; 128 + (v / 4096) mod 64; 128 + (v / 64) mod 64; 128 + v mod 64].

Definition emit_many (st : tstate) (l : bstring) : tstate :=
  mkT false (t_quo st) (t_ws st) 0 0 AccNone (t_toks st) (rev l ++ t_cur st).

(* the non-escaped branch; v6 = GD_PVERS_GE( *p, 6) *)
Definition step_norm (v6 : bool) (st : tstate) (c : byte) : outcome :=
  if v6 && (c =? 92) then Cont (set_esc st)
  else if v6 && (c =? 34) then
    (if t_quo st then Cont (set_quo st false) else Cont (start_tok (set_quo st true)))
  else if negb (t_quo st) && is_ws c then Cont (end_tok st)
  else if negb (t_quo st) && (c =? 35) then Stop st
  else Cont (push (start_tok st) c).

(* the escaped branch; a rewind re-processes c in the non-escaped branch *)
Definition step_esc (v6 : bool) (st0 : tstate) (c : byte) : outcome :=
  let st := start_tok st0 in
  match t_mode st with
  | AccOctal =>
      let o := is_octal c in
      let a := if o then t_acc st * 8 + c - 48 else t_acc st in
      let n := if o then t_nacc st + 1 else t_nacc st in
      if (n =? 3) || (a >? 31) || negb o then
        if a =? 0 then Fail E_CHARACTER
        else
          let st' := emit_unesc st (a mod 256) in
          if o then Cont st' else step_norm v6 st' c
      else Cont (set_acc st AccOctal a n)
  | AccHex =>
      let x := is_xdigit c in
      let a := if x then t_acc st * 16 + xval c else t_acc st in
      let n := if x then t_nacc st + 1 else t_nacc st in
      if (n =? 2) || negb x then
        if a =? 0 then Fail E_CHARACTER
        else
          let st' := emit_unesc st (a mod 256) in
          if x then Cont st' else step_norm v6 st' c
      else Cont (set_acc st AccHex a n)
  | AccUtf8 =>
      let x := is_xdigit c in
      let a := if x then t_acc st * 16 + xval c else t_acc st in
      let n := if x then t_nacc st + 1 else t_nacc st in
      if (n =? 7) || (a >? 1114111) || negb x then
        match utf8_encode a with
        | None => Fail E_CHARACTER
        | Some l =>
            let st' := emit_many st l in
            if x then Cont st' else step_norm v6 st' c
        end
      else Cont (set_acc st AccUtf8 a n)
  | AccNone =>
      if c =? 10 then Cont st                        (* backslash-newline: stays escaped *)
      else if c =? 97 then Cont (emit_unesc st 7)    (* \a *)
      else if c =? 98 then Cont (emit_unesc st 8)    (* \b *)
      else if c =? 101 then Cont (emit_unesc st 27)  (* \e *)
      else if c =? 102 then Cont (emit_unesc st 12)  (* \f *)
      else if c =? 110 then Cont (emit_unesc st 10)  (* \n *)
      else if c =? 114 then Cont (emit_unesc st 13)  (* \r *)
      else if c =? 116 then Cont (emit_unesc st 9)   (* \t *)
      else if c =? 118 then Cont (emit_unesc st 11)  (* \v *)
      else if is_octal c then Cont (set_acc st AccOctal (c - 48) 1)
      else if c =? 117 then Cont (set_acc st AccUtf8 0 0)
      else if c =? 120 then Cont (set_acc st AccHex 0 0)
      else Cont (emit_unesc st c)
  end.

Definition step (v6 : bool) (st : tstate) (c : byte) : outcome :=
  if t_esc st then step_esc v6 st c else step_norm v6 st c.

(* end of the string: unterminated quote / escape is an error *)
Definition finish (st : tstate) : terr + list bstring :=
  if t_quo st || t_esc st then inl E_UNTERM
  else inr (rev (t_toks (end_tok st))).

Fixpoint run (v6 : bool) (st : tstate) (cs : bstring) : terr + list bstring :=
  match cs with
  | [] => finish st
  | c :: r =>
      match step v6 st c with
      | Cont st' => run v6 st' r
      | Stop st' => finish st'
      | Fail e => inl e
      end
  end.

(* the string is NUL-terminated: a NUL byte ends it *)
Fixpoint upto_nul (cs : bstring) : bstring :=
  match cs with
  | [] => []
  | c :: r => if c =? 0 then [] else c :: upto_nul r
  end.

Definition tokenise (v6 : bool) (line : bstring) : terr + list bstring :=
  run v6 t_init (upto_nul line).
