(* C07: entry round trips where every scalar parameter may be a literal or a
   scalar field code with index (RAW, BIT, SBIT, PHASE, MPLEX, RECIP), and the
   bridge from ScalarCode.v to the numw_ok hypotheses of LINCOM/POLYNOM. *)
From Coq Require Import ZArith List Bool Lia String.
From GD Require Import C07.Token C07.TokenProofs C07.Number C07.NumberProofs C07.Entry C07.EntryProofs
  C07.EntryProofs2 C07.ScalarCode.
Import ListNotations.
Local Open Scope Z_scope.

(* a scalar field code whose index the reader reproduces exactly (i.e. not the
   number-like name with index -1, which comes back with index 0) *)
Definition code_exact (c : wctx) (n : bstring) (i : Z) : Prop :=
  scode_ok c n /\ -1 <= i < 2147483648 /\ read_index c n i = i.

Lemma scalar_code_value {A} c n i : ctx_ok c -> scode_ok c n -> -1 <= i < 2147483648 ->
  @scalar_code A (rctx_of c) (word_tok (code_word c n i)) = SCode n (read_index c n i).
Proof.
  intros Hc Hn Hi. unfold scalar_code.
  destruct (scalar_code_token c n i false false Hc Hn Hi) as [_ E]. rewrite E. reflexivity.
Qed.

Lemma set_cplx_code c n i : ctx_ok c -> scode_ok c n -> -1 <= i < 2147483648 ->
  set_cplx (rctx_of c) (word_tok (code_word c n i)) = Some (SCode n (read_index c n i)).
Proof.
  intros Hc Hn Hi. unfold set_cplx.
  destruct (scalar_code_token c n i true true Hc Hn Hi) as [E _]. rewrite E.
  rewrite scalar_code_value by assumption. reflexivity.
Qed.
Lemma set_dbl_code c n i : ctx_ok c -> scode_ok c n -> -1 <= i < 2147483648 ->
  set_dbl (rctx_of c) (word_tok (code_word c n i)) = Some (SCode n (read_index c n i)).
Proof.
  intros Hc Hn Hi. unfold set_dbl.
  destruct (scalar_code_token c n i true false Hc Hn Hi) as [E _]. rewrite E.
  rewrite scalar_code_value by assumption. reflexivity.
Qed.
Lemma set_signed_code c bits n i : ctx_ok c -> scode_ok c n -> -1 <= i < 2147483648 ->
  set_signed (rctx_of c) bits (word_tok (code_word c n i)) = Some (SCode n (read_index c n i)).
Proof.
  intros Hc Hn Hi. unfold set_signed.
  destruct (scalar_code_token c n i false false Hc Hn Hi) as [E _]. rewrite E.
  rewrite scalar_code_value by assumption. reflexivity.
Qed.
Lemma set_unsigned_code c bits n i : ctx_ok c -> scode_ok c n -> -1 <= i < 2147483648 ->
  set_unsigned (rctx_of c) bits (word_tok (code_word c n i)) = Some (SCode n (read_index c n i)).
Proof.
  intros Hc Hn Hi. unfold set_unsigned.
  destruct (scalar_code_token c n i false false Hc Hn Hi) as [E _]. rewrite E.
  rewrite scalar_code_value by assumption. reflexivity.
Qed.

(* the "<0>" disambiguation: a number-like CONST name used without index is
   written name<0> and read back as that field with index 0, never as a number *)
Theorem scalar_code_not_number_statement c n :
  ctx_ok c -> scode_ok c n -> looks_numeric (w_base0 c) n = true ->
  set_cplx (rctx_of c) (word_tok (code_word c n (-1))) = Some (SCode n 0).
Proof.
  intros Hc Hn L. rewrite set_cplx_code by (assumption || lia).
  unfold read_index. rewrite L. reflexivity.
Qed.

(* LINCOM / POLYNOM / RECIP scalars *)
Lemma numw_ok_code c comp n i : ctx_ok c -> code_exact c n i -> numw_ok c comp (SCode n i).
Proof.
  intros Hc (Hn & Hi & Hr). unfold numw_ok, num_word, cplx_word, dbl_word.
  destruct comp; (split; [apply word_ok_code; [assumption | lia] | rewrite set_cplx_code by assumption; rewrite Hr; reflexivity]).
Qed.

(* integer scalars *)
Definition isv_ok (c : wctx) (lo hi : Z) (s : sval Z) : Prop :=
  match s with
  | SLit v => lo <= v < hi
  | SCode n i => code_exact c n i
  end.

Lemma int_word_signed c bits s : ctx_ok c -> 0 < bits <= 64 ->
  isv_ok c (- 2 ^ (bits - 1)) (2 ^ (bits - 1)) s ->
  word_ok (int_word c s) /\ set_signed (rctx_of c) bits (word_tok (int_word c s)) = Some s.
Proof.
  intros Hc Hb Hs. destruct s as [v | n i]; cbn [isv_ok int_word] in *.
  - split; [apply word_ok_raw; apply plain_print_Z|].
    unfold word_tok. cbn [map piece_tok List.concat]. rewrite app_nil_r. apply set_signed_lit; assumption.
  - destruct Hs as (Hn & Hi & Hr). split; [apply word_ok_code; [assumption | lia]|].
    rewrite set_signed_code by assumption. rewrite Hr. reflexivity.
Qed.

Lemma int_word_unsigned c bits s lo : ctx_ok c -> 0 < bits <= 64 -> 0 <= lo ->
  isv_ok c lo (2 ^ bits) s ->
  word_ok (int_word c s) /\ set_unsigned (rctx_of c) bits (word_tok (int_word c s)) = Some s.
Proof.
  intros Hc Hb Hlo Hs. destruct s as [v | n i]; cbn [isv_ok int_word] in *.
  - split; [apply word_ok_raw; apply plain_print_Z|].
    unfold word_tok. cbn [map piece_tok List.concat]. rewrite app_nil_r. apply set_unsigned_lit; [lia | assumption].
  - destruct Hs as (Hn & Hi & Hr). split; [apply word_ok_code; [assumption | lia]|].
    rewrite set_unsigned_code by assumption. rewrite Hr. reflexivity.
Qed.

Ltac toks_sv Hs :=
  unfold entry_items, in_word; cbn [entry_name]; rewrite ?Hs; unfold items_toks; cbn [map fst];
  unfold word_tok at 1 2 3, kw; cbn [map fst piece_tok List.concat]; rewrite !app_nil_r; reflexivity.

Theorem raw_roundtrip_sv c name t spf :
  ctx_ok c -> name_ok c name -> top_name c name -> type_ok c t -> isv_ok c 1 (2 ^ 32) spf ->
  parse_line (rctx_of c) (print_entry c (ERaw name t spf)) = Some (ERaw name t spf).
Proof.
  intros Hc [Hn Hv] Htop Ht Hs. unfold top_name in Htop.
  destruct (int_word_unsigned c 32 spf 1 Hc ltac:(lia) ltac:(lia) Hs) as [Hw Hr].
  rewrite (parse_print c _ [name; B"RAW"; type_name t; word_tok (int_word c spf)]); [| assumption | | ].
  - unfold parse_spec. rewrite Hv. cbn [negb]. kw_decide. rewrite Htop, Ht, Hr.
    destruct spf as [v|n i]; cbn [lit_lt isv_ok] in *; [|reflexivity].
    replace (v <=? 0) with false by (symmetry; apply Z.leb_gt; lia). reflexivity.
  - unfold entry_items; cbn [entry_name].
    apply Forall_cons; [head_ok Hn|].
    apply Forall_cons; [apply (item_ok_kw c "RAW" 5); [reflexivity | discriminate]|].
    apply Forall_cons; [split; [apply word_ok_raw; apply plain_type_name | apply sep_ok_sp]|].
    apply Forall_cons; [split; [exact Hw | apply sep_ok_nl]|].
    constructor.
  - unfold entry_items; cbn [entry_name]. unfold items_toks. cbn [map fst].
    unfold word_tok at 1 2 3, kw. cbn [map fst piece_tok List.concat]. rewrite !app_nil_r. reflexivity.
Qed.

Theorem phase_roundtrip_sv c name inf shift :
  ctx_ok c -> name_ok c name -> code_ok c inf -> isv_ok c (- two63) two63 shift ->
  parse_line (rctx_of c) (print_entry c (EPhase name inf shift)) = Some (EPhase name inf shift).
Proof.
  intros Hc [Hn Hv] (Hi & Hs & Hin) Hsh.
  destruct (int_word_signed c 64 shift Hc ltac:(lia) Hsh) as [Hw Hr].
  rewrite (parse_print c _ [name; B"PHASE"; inf; word_tok (int_word c shift)]); [| assumption | | ].
  - unfold parse_spec. rewrite Hv. cbn [negb]. kw_decide.
    rewrite (pvers_ctx c 4) by (auto; destruct Hc as [_ [? ?]]; lia). cbn [andb].
    rewrite Hr, Hin. reflexivity.
  - unfold entry_items, in_word; cbn [entry_name]. rewrite Hs.
    apply Forall_cons; [head_ok Hn|].
    apply Forall_cons; [apply (item_ok_kw c "PHASE" 3); (reflexivity || discriminate)|].
    apply Forall_cons; [item_esc Hi|].
    apply Forall_cons; [split; [exact Hw | apply sep_ok_nl]|].
    constructor.
  - unfold entry_items, in_word; cbn [entry_name]. rewrite Hs. unfold items_toks. cbn [map fst].
    unfold word_tok at 1 2 3, kw. cbn [map fst piece_tok List.concat]. rewrite !app_nil_r. reflexivity.
Qed.

Theorem bit_roundtrip_sv c sgn name inf bn nb :
  ctx_ok c -> (sgn = true -> 7 <= w_std c) -> name_ok c name -> code_ok c inf ->
  isv_ok c 0 2147483648 bn -> isv_ok c 1 2147483648 nb ->
  (forall a b, bn = SLit a -> nb = SLit b -> a + b - 1 <= 63) ->
  parse_line (rctx_of c) (print_entry c (EBit sgn name inf bn nb)) = Some (EBit sgn name inf bn nb).
Proof.
  intros Hc H7 [Hn Hv] (Hi & Hs & Hin) Hbn Hnb Hsum.
  assert (Hbn' : isv_ok c (- 2 ^ (32 - 1)) (2 ^ (32 - 1)) bn)
    by (destruct bn; cbn [isv_ok] in *; [change (2 ^ (32 - 1)) with 2147483648; lia | assumption]).
  assert (Hnb' : isv_ok c (- 2 ^ (32 - 1)) (2 ^ (32 - 1)) nb)
    by (destruct nb; cbn [isv_ok] in *; [change (2 ^ (32 - 1)) with 2147483648; lia | assumption]).
  destruct (int_word_signed c 32 bn Hc ltac:(lia) Hbn') as [Hw1 Hr1].
  destruct (int_word_signed c 32 nb Hc ltac:(lia) Hnb') as [Hw2 Hr2].
  rewrite (parse_print c _ [name; (if sgn then B"SBIT" else B"BIT"); inf; word_tok (int_word c bn); word_tok (int_word c nb)]);
    [| assumption | | ].
  - unfold parse_spec. rewrite Hv. cbn [negb].
    assert (Hg : sgn = true -> pvers_ge (rctx_of c) 7 = true) by (intros E; apply pvers_ctx; auto).
    rewrite Hr1, Hr2, Hin.
    assert (C1 : lit_lt nb (fun v => v <? 1) = false)
      by (destruct nb; cbn [lit_lt isv_ok] in *; [apply Z.ltb_ge; lia | reflexivity]).
    assert (C2 : lit_lt bn (fun v => v <? 0) = false)
      by (destruct bn; cbn [lit_lt isv_ok] in *; [apply Z.ltb_ge; lia | reflexivity]).
    assert (C3 : is_lit bn && is_lit nb && (match bn, nb with SLit a, SLit b => 63 <? a + b - 1 | _, _ => false end) = false).
    { destruct bn as [a|], nb as [b|]; cbn [is_lit andb]; try reflexivity.
      apply Z.ltb_ge. apply Hsum; reflexivity. }
    rewrite C1, C2, C3.
    destruct sgn; kw_decide; [rewrite Hg by reflexivity|]; reflexivity.
  - unfold entry_items, in_word; cbn [entry_name]. rewrite Hs.
    apply Forall_cons; [head_ok Hn|].
    apply Forall_cons; [destruct sgn; [apply (item_ok_kw c "SBIT" 4) | apply (item_ok_kw c "BIT" 5)]; (reflexivity || discriminate)|].
    apply Forall_cons; [item_esc Hi|].
    apply Forall_cons; [split; [exact Hw1 | apply sep_ok_sp]|].
    apply Forall_cons; [split; [exact Hw2 | apply sep_ok_nl]|].
    constructor.
  - destruct sgn; unfold entry_items, in_word; cbn [entry_name]; rewrite Hs; unfold items_toks; cbn [map fst];
      unfold word_tok at 1 2 3, kw; cbn [map fst piece_tok List.concat]; rewrite !app_nil_r; reflexivity.
Qed.

Theorem mplex_roundtrip_sv c name inf cnt v p :
  ctx_ok c -> 9 <= w_std c -> name_ok c name -> code_ok c inf -> code_ok c cnt ->
  isv_ok c (- 2147483648) 2147483648 v -> isv_ok c 0 2147483648 p ->
  parse_line (rctx_of c) (print_entry c (EMplex name inf cnt v p)) = Some (EMplex name inf cnt v p).
Proof.
  intros Hc H9 [Hn Hv] (Hi & Hs & Hin) (Hk & Hsk & Hik) Hval Hper.
  assert (Hp' : isv_ok c (- 2 ^ (32 - 1)) (2 ^ (32 - 1)) p)
    by (destruct p; cbn [isv_ok] in *; [change (2 ^ (32 - 1)) with 2147483648; lia | assumption]).
  destruct (int_word_signed c 32 v Hc ltac:(lia) Hval) as [Hw1 Hr1].
  destruct (int_word_signed c 32 p Hc ltac:(lia) Hp') as [Hw2 Hr2].
  rewrite (parse_print c _ [name; B"MPLEX"; inf; cnt; word_tok (int_word c v); word_tok (int_word c p)]); [| assumption | | ].
  - unfold parse_spec. rewrite Hv. cbn [negb]. kw_decide.
    rewrite (pvers_ctx c 9) by auto. cbn [andb]. rewrite Hr1, Hr2.
    assert (C : lit_lt p (fun x => x <? 0) = false)
      by (destruct p; cbn [lit_lt isv_ok] in *; [apply Z.ltb_ge; lia | reflexivity]).
    rewrite C, Hin, Hik. reflexivity.
  - unfold entry_items, in_word; cbn [entry_name]. rewrite Hs, Hsk.
    apply Forall_cons; [head_ok Hn|].
    apply Forall_cons; [apply (item_ok_kw c "MPLEX" 3); (reflexivity || discriminate)|].
    apply Forall_cons; [item_esc Hi|].
    apply Forall_cons; [item_esc Hk|].
    apply Forall_cons; [split; [exact Hw1 | apply sep_ok_sp]|].
    apply Forall_cons; [split; [exact Hw2 | apply sep_ok_nl]|].
    constructor.
  - unfold entry_items, in_word; cbn [entry_name]. rewrite Hs, Hsk. unfold items_toks. cbn [map fst].
    unfold word_tok at 1 2 3 4, kw. cbn [map fst piece_tok List.concat]. rewrite !app_nil_r. reflexivity.
Qed.

(* RECIP with a scalar field code as dividend *)
Theorem recip_roundtrip_code c name inf n i :
  ctx_ok c -> 8 <= w_std c -> name_ok c name -> code_ok c inf -> code_exact c n i ->
  parse_line (rctx_of c) (print_entry c (ERecip name inf false (SCode n i))) = Some (ERecip name inf false (SCode n i)).
Proof.
  intros Hc H8 [Hn Hv] (Hi & Hs & Hin) (Hcn & Hci & Hr).
  rewrite (parse_print c _ [name; B"RECIP"; inf; word_tok (code_word c n i)]); [| assumption | | ].
  - unfold parse_spec. rewrite Hv. cbn [negb]. kw_decide.
    rewrite (pvers_ctx c 8) by auto. cbn [andb]. rewrite set_cplx_code by assumption. rewrite Hr, Hin. reflexivity.
  - unfold entry_items, in_word, cplx_word; cbn [entry_name]. rewrite Hs.
    apply Forall_cons; [head_ok Hn|].
    apply Forall_cons; [apply (item_ok_kw c "RECIP" 3); (reflexivity || discriminate)|].
    apply Forall_cons; [item_esc Hi|].
    apply Forall_cons; [split; [apply word_ok_code; [assumption | lia] | apply sep_ok_nl]|].
    constructor.
  - unfold entry_items, in_word, cplx_word; cbn [entry_name]. rewrite Hs. unfold items_toks. cbn [map fst].
    unfold word_tok at 1 2 3, kw. cbn [map fst piece_tok List.concat]. rewrite !app_nil_r. reflexivity.
Qed.
