(* C07: the fragment header, /HIDDEN, /ALIAS and /INCLUDE lines are read back.
   header_roundtrip  : parse_header (print_header c a) = the attributes a, the
                       declared Standards Version, pedantic mode
   hidden_roundtrip, alias_roundtrip, include_roundtrip *)
From Coq Require Import ZArith List Bool Lia String.
From GD Require Import C07.Token C07.TokenProofs C07.Number C07.NumberProofs C07.Entry C07.EntryProofs C07.Fragment.
Import ListNotations.
Local Open Scope Z_scope.

(* ------------------------------------------------------------------ *)
(* lines of plain words *)

Definition pword (w : bstring) : Prop := plain w /\ w <> [].

Lemma wline_ok l : Forall pword l -> Forall item_ok (wline l) /\ items_toks (wline l) = l.
Proof.
  induction 1 as [|w l [Hp Hne] Hl [IH1 IH2]]; [split; [constructor | reflexivity]|].
  cbn [wline]. destruct l as [|w' l'].
  - split; [constructor; [split; [apply word_ok_raw; assumption | apply sep_ok_nl] | constructor]|].
    unfold items_toks, word_tok. cbn. rewrite app_nil_r. reflexivity.
  - split; [constructor; [split; [apply word_ok_raw; assumption | apply sep_ok_sp] | exact IH1]|].
    unfold items_toks in *. cbn [map fst]. rewrite IH2. unfold word_tok. cbn. rewrite app_nil_r. reflexivity.
Qed.

Lemma tokenise_wline l : Forall pword l -> tokenise true (items_text false (wline l)) = inr l.
Proof.
  intros H. destruct (wline_ok l H) as [H1 H2]. rewrite tokenise_items by assumption. rewrite H2. reflexivity.
Qed.

Lemma pword_B (s : string) : plainb (B s) = true -> B s <> [] -> pword (B s).
Proof. intros H1 H2. split; [apply plainb_plain, H1 | exact H2]. Qed.

Lemma pword_Z z : pword (print_Z z).
Proof. apply plain_print_Z. Qed.

Lemma parse_header_step st l rest :
  pvers_ge (ps_r st) 6 = true -> Forall pword l ->
  parse_header st (items_text false (wline l) :: rest) =
  match parse_directive st l with Some st' => parse_header st' rest | None => None end.
Proof. intros Hv Hl. cbn [parse_header]. rewrite Hv, tokenise_wline by assumption. reflexivity. Qed.

(* ------------------------------------------------------------------ *)
(* the five header directives *)

Lemma atoi_print v : 0 <= v -> atoi (print_Z v) = v.
Proof.
  intros H. unfold atoi. rewrite strto_int_print.
  replace (v <? 0) with false by (symmetry; apply Z.ltb_ge; lia). apply Z.abs_eq. exact H.
Qed.

Lemma pd_version r a v : pvers_ge r 5 = true -> 0 <= v ->
  parse_directive (mkPS r a) [B"/VERSION"; print_Z v] = Some (mkPS (mkR v true) a).
Proof.
  intros Hg Hv. unfold parse_directive. cbn [ps_r ps_a]. kw_decide. rewrite Hg. cbn [andb].
  rewrite atoi_print by assumption. reflexivity.
Qed.

Lemma pd_endian r a (big arm : bool) : pvers_ge r 5 = true -> (arm = true -> pvers_ge r 8 = true) ->
  parse_directive (mkPS r a) (B"/ENDIAN" :: (if big then B"big" else B"little") :: (if arm then [B"arm"] else []))
  = Some (mkPS r (mkFA big arm (fa_prot a) (fa_off a) (fa_enc a))).
Proof.
  intros Hg Ha. unfold parse_directive. cbn [ps_r ps_a].
  destruct big, arm; kw_decide; rewrite Hg; cbn [andb]; kw_decide; try rewrite (Ha eq_refl); kw_decide; reflexivity.
Qed.

Lemma parse_prot_name p : parse_prot (prot_name p) = Some p.
Proof. destruct p; reflexivity. Qed.
Lemma parse_enc_name e : parse_enc (enc_name e) = Some e.
Proof. destruct e; reflexivity. Qed.

Lemma pd_protect r a p : pvers_ge r 6 = true ->
  parse_directive (mkPS r a) [B"/PROTECT"; prot_name p]
  = Some (mkPS r (mkFA (fa_big a) (fa_arm a) p (fa_off a) (fa_enc a))).
Proof.
  intros Hg. unfold parse_directive. cbn [ps_r ps_a]. kw_decide. rewrite Hg. cbn [andb].
  rewrite parse_prot_name. reflexivity.
Qed.

Lemma pd_frameoffset r a off : pvers_ge r 1 = true -> 0 <= off ->
  parse_directive (mkPS r a) [B"/FRAMEOFFSET"; print_Z off]
  = Some (mkPS r (mkFA (fa_big a) (fa_arm a) (fa_prot a) off (fa_enc a))).
Proof.
  intros Hg Ho. unfold parse_directive. cbn [ps_r ps_a]. kw_decide. rewrite Hg. cbn [andb].
  rewrite strto_int_print. replace (off <? 0) with false by (symmetry; apply Z.ltb_ge; lia).
  rewrite Z.abs_eq by assumption. reflexivity.
Qed.

Lemma pd_encoding r a e : pvers_ge r 6 = true ->
  parse_directive (mkPS r a) [B"/ENCODING"; enc_name e]
  = Some (mkPS r (mkFA (fa_big a) (fa_arm a) (fa_prot a) (fa_off a) (Some e))).
Proof.
  intros Hg. unfold parse_directive. cbn [ps_r ps_a]. kw_decide. rewrite Hg. cbn [andb].
  rewrite parse_enc_name. reflexivity.
Qed.

Lemma pword_prot p : pword (prot_name p).
Proof. destruct p; apply pword_B; (reflexivity || discriminate). Qed.
Lemma pword_enc e : pword (enc_name e).
Proof. destruct e; apply pword_B; (reflexivity || discriminate). Qed.

(* attributes a standards-conforming writer at Standards Version 6..10 can record *)
Definition attr_ok (c : wctx) (a : fattr) : Prop :=
  0 <= fa_off a /\ (fa_arm a = true -> 8 <= w_std c).

(* what the reader ends with: the frame offset is inherited when no
   /FRAMEOFFSET line was written *)
Definition read_attr (a : fattr) (force_off : bool) (inherit_off : Z) : fattr :=
  mkFA (fa_big a) (fa_arm a) (fa_prot a)
       (if negb (fa_off a =? 0) || force_off then fa_off a else inherit_off) (fa_enc a).

Theorem header_roundtrip c a force_off inherit_off inherit_prot :
  ctx_ok c -> attr_ok c a ->
  parse_header (initial_state inherit_off inherit_prot) (print_header c a force_off)
  = Some (mkPS (mkR (w_std c) true) (read_attr a force_off inherit_off)).
Proof.
  intros Hc [Hoff Harm]. destruct Hc as [Hperm [H6 H10]].
  assert (Hg : forall v, v <= w_std c -> pvers_ge (mkR (w_std c) true) v = true)
    by (intros v Hv; unfold pvers_ge; cbn; apply Z.leb_le; exact Hv).
  unfold print_header, header_lines, initial_state.
  rewrite !map_app. cbn [map app].
  (* /VERSION *)
  rewrite parse_header_step; [| reflexivity | apply Forall_cons; [apply pword_B; (reflexivity || discriminate) | apply Forall_cons; [apply pword_Z | constructor]]].
  rewrite pd_version by (reflexivity || lia).
  (* /ENDIAN *)
  assert (E8 : (8 <=? w_std c) && fa_arm a = fa_arm a).
  { destruct (fa_arm a) eqn:Ea; [|apply andb_false_r]. rewrite andb_true_r. apply Z.leb_le. auto. }
  rewrite E8.
  rewrite parse_header_step; [| apply Hg; lia |].
  2:{ destruct (fa_big a), (fa_arm a); cbn [app]; repeat (apply Forall_cons; [apply pword_B; (reflexivity || discriminate)|]); constructor. }
  rewrite pd_endian; [| apply Hg; lia | intros Ea; apply Hg; auto].
  (* /PROTECT *)
  rewrite parse_header_step; [| apply Hg; lia | apply Forall_cons; [apply pword_B; (reflexivity || discriminate) | apply Forall_cons; [apply pword_prot | constructor]]].
  rewrite pd_protect by (apply Hg; lia). cbn [fa_big fa_arm fa_prot fa_off fa_enc].
  unfold read_attr.
  (* /FRAMEOFFSET and /ENCODING *)
  destruct (negb (fa_off a =? 0) || force_off); destruct (fa_enc a) as [e|]; cbn [map app].
  - rewrite parse_header_step; [| apply Hg; lia | apply Forall_cons; [apply pword_B; (reflexivity || discriminate) | apply Forall_cons; [apply pword_Z | constructor]]].
    rewrite pd_frameoffset by (try apply Hg; lia). cbn [fa_big fa_arm fa_prot fa_off fa_enc].
    rewrite parse_header_step; [| apply Hg; lia | apply Forall_cons; [apply pword_B; (reflexivity || discriminate) | apply Forall_cons; [apply pword_enc | constructor]]].
    rewrite pd_encoding by (apply Hg; lia). reflexivity.
  - rewrite parse_header_step; [| apply Hg; lia | apply Forall_cons; [apply pword_B; (reflexivity || discriminate) | apply Forall_cons; [apply pword_Z | constructor]]].
    rewrite pd_frameoffset by (try apply Hg; lia). reflexivity.
  - rewrite parse_header_step; [| apply Hg; lia | apply Forall_cons; [apply pword_B; (reflexivity || discriminate) | apply Forall_cons; [apply pword_enc | constructor]]].
    rewrite pd_encoding by (apply Hg; lia). reflexivity.
  - reflexivity.
Qed.

(* ------------------------------------------------------------------ *)
(* /HIDDEN and /ALIAS *)

Theorem hidden_roundtrip c name :
  ctx_ok c -> 9 <= w_std c -> no_nul name ->
  match tokenise (pvers_ge (rctx_of c) 6) (print_hidden c name) with
  | inr toks => parse_hidden (rctx_of c) toks
  | inl _ => None
  end = Some name.
Proof.
  intros Hc H9 Hn. unfold print_hidden. rewrite ctx_v6, ctx_raw by assumption.
  rewrite tokenise_items.
  - unfold items_toks, word_tok. cbn [map fst piece_tok List.concat]. rewrite !app_nil_r.
    unfold parse_hidden. kw_decide. rewrite (pvers_ctx c 9) by assumption. reflexivity.
  - constructor; [split; [apply word_ok_raw; [apply plainb_plain; reflexivity | discriminate] | apply sep_ok_sp]|].
    constructor; [split; [apply word_ok_esc; exact Hn | apply sep_ok_nl] | constructor].
Qed.

Theorem alias_roundtrip c name target :
  ctx_ok c -> 9 <= w_std c -> no_nul name -> code_ok c target ->
  match tokenise (pvers_ge (rctx_of c) 6) (print_alias c name target) with
  | inr toks => parse_alias (rctx_of c) toks
  | inl _ => None
  end = Some (name, target).
Proof.
  intros Hc H9 Hn (Ht & Hs & Hin). unfold print_alias, in_word. rewrite Hs. rewrite ctx_v6, ctx_raw by assumption.
  rewrite tokenise_items.
  - unfold items_toks, word_tok. cbn [map fst piece_tok List.concat]. rewrite !app_nil_r.
    unfold parse_alias. kw_decide. rewrite (pvers_ctx c 9) by assumption. rewrite Hin. reflexivity.
  - constructor; [split; [apply word_ok_raw; [apply plainb_plain; reflexivity | discriminate] | apply sep_ok_sp]|].
    constructor; [split; [apply word_ok_esc; exact Hn | apply sep_ok_sp]|].
    constructor; [split; [apply word_ok_esc; exact Ht | apply sep_ok_nl] | constructor].
Qed.

(* ------------------------------------------------------------------ *)
(* /INCLUDE with namespace, prefix and suffix (the variant without the blank) *)

Definition nodot (s : bstring) : Prop := ~ In 46 s.

Lemma split_last_dot_none s : nodot s -> split_last_dot s = None.
Proof.
  induction s as [|c s IH]; intros H; [reflexivity|]. cbn [split_last_dot].
  rewrite IH by (intros Hin; apply H; right; exact Hin).
  replace (c =? 46) with false; [reflexivity|]. symmetry. apply Z.eqb_neq. intros ->. apply H. left. reflexivity.
Qed.

Lemma split_last_dot_app n p : nodot p -> split_last_dot (n ++ 46 :: p) = Some (n, p).
Proof.
  intros Hp. induction n as [|c n IH]; cbn [app split_last_dot].
  - rewrite split_last_dot_none by assumption. reflexivity.
  - rewrite IH. reflexivity.
Qed.

Lemma nonempty_some s : s <> [] -> nonempty s = Some s.
Proof. destruct s; [congruence | reflexivity]. Qed.

Lemma drop_lead_dot_nodot n : nodot n -> drop_lead_dot n = n.
Proof.
  destruct n as [|c n]; [reflexivity|]. intros H. cbn [drop_lead_dot].
  replace (c =? 46) with false; [reflexivity|]. symmetry. apply Z.eqb_neq. intros ->. apply H. left. reflexivity.
Qed.

Lemma nodot_nil : nodot [].
Proof. intros []. Qed.

(* an affix or namespace as gd_include accepts it: not empty, no NUL, no dot;
   a namespace does not start with a dot either (implied) *)
Definition affix_ok (s : bstring) : Prop := no_nul s /\ s <> [] /\ nodot s.
Definition oaffix_ok (o : option bstring) : Prop := match o with Some s => affix_ok s | None => True end.

Theorem include_roundtrip c file ns px sx :
  ctx_ok c -> 10 <= w_std c -> no_nul file -> oaffix_ok ns -> oaffix_ok px -> oaffix_ok sx ->
  match tokenise (pvers_ge (rctx_of c) 6) (items_text false (include_items false file ns px sx)) with
  | inr toks => parse_include (rctx_of c) toks
  | inl _ => None
  end = Some (file, ns, px, sx).
Proof.
  intros Hc H10 Hf Hns Hpx Hsx. rewrite ctx_v6 by assumption.
  assert (G3 : pvers_ge (rctx_of c) 3 = true) by (apply pvers_ctx; [assumption | lia]).
  assert (G10 : pvers_ge (rctx_of c) 10 = true) by (apply pvers_ctx; assumption).
  assert (KW : item_ok ([PRaw (B "/INCLUDE")], sp))
    by (split; [apply word_ok_raw; [apply plainb_plain; reflexivity | discriminate] | apply sep_ok_sp]).
  assert (DOT : piece_ok (PRaw [46])) by (split; [constructor; [split; [lia | reflexivity] | constructor] | discriminate]).
  destruct ns as [n|], px as [p|], sx as [s|]; cbn [oaffix_ok] in *;
    repeat match goal with H : affix_ok _ |- _ => destruct H as (? & ? & ?) end;
    unfold include_items; cbn [app rev];
    (rewrite tokenise_items;
     [ unfold items_toks, word_tok; cbn [map fst piece_tok List.concat app]; rewrite ?app_nil_r;
       unfold parse_include; kw_decide; rewrite G3, G10; cbn [andb];
       try rewrite <- app_assoc; cbn [app];
       rewrite ?split_last_dot_app, ?split_last_dot_none by (assumption || apply nodot_nil);
       cbv beta iota;
       rewrite ?drop_lead_dot_nodot by assumption;
       change (nonempty []) with (@None bstring);
       rewrite ?nonempty_some by assumption;
       reflexivity
     | repeat (apply Forall_cons; [first [ exact KW
            | split; [apply word_ok_esc; assumption | first [apply sep_ok_sp | apply sep_ok_nl]]
            | split; [split; [discriminate | repeat (apply Forall_cons; [first [assumption | exact DOT | cbn; assumption]|]); constructor] | first [apply sep_ok_sp | apply sep_ok_nl]]
            | split; [apply word_ok_esc; constructor | first [apply sep_ok_sp | apply sep_ok_nl]] ]|]); constructor ]).
Qed.
