(* C07: the digit obligation of the writer's double conversions, decided on
   the table regenerated from src/flush.c.  Either every site prints >= 17
   significant digits, or some site prints fewer and then the double
   0.1 + 0.2 = 0x3FD3333333333334 printed at that site is not read back
   (executable model of printf/strtod, Number.v). *)
From Coq Require Import ZArith List Bool String Lia.
From GD Require Import C07.Token C07.Number C07.Tables Gen.Formats.
Import ListNotations.
Local Open Scope Z_scope.

Definition witness_double : Z := 0x3FD3333333333334.    (* 0.1 + 0.2 *)

Definition double_sites_statement : Prop :=
  forall s, In s flush_double_sites -> digits_needed <= s_digits s.

Definition double_sites_refutation : Prop :=
  exists s, In s flush_double_sites /\ s_digits s < digits_needed /\
            stableb (s_digits s) witness_double = false.

Lemma witness_unstable : forall P, P < 17 -> stableb P witness_double = false.
Proof.
  intros P HP.
  destruct (Z_le_gt_dec P 0) as [Hle | Hgt].
  - (* P <= 0 is printed with one digit *)
    unfold stableb, stableb_gen, print_g. replace (P <=? 0) with true by (symmetry; apply Z.leb_le; lia).
    vm_compute. reflexivity.
  - assert (H : exists k : nat, (k < 16)%nat /\ P = Z.of_nat (S k)).
    { exists (Z.to_nat (P - 1)). split; lia. }
    destruct H as (k & Hk & ->).
    do 16 (destruct k as [|k]; [vm_compute; reflexivity|]). exfalso; lia.
Qed.

Fixpoint first_short (l : list dsite) : option dsite :=
  match l with
  | [] => None
  | s :: r => if s_digits s <? digits_needed then Some s else first_short r
  end.

Lemma first_short_none l : first_short l = None -> forall s, In s l -> digits_needed <= s_digits s.
Proof.
  induction l as [|a l IH]; cbn; intros H s Hs; [contradiction|].
  destruct (Z.ltb_spec (s_digits a) digits_needed); [discriminate|].
  destruct Hs as [<- | Hs]; auto.
Qed.

Lemma first_short_some l s : first_short l = Some s -> In s l /\ s_digits s < digits_needed.
Proof.
  induction l as [|a l IH]; cbn; intros H; [discriminate|].
  destruct (Z.ltb_spec (s_digits a) digits_needed).
  - injection H as <-. auto.
  - destruct (IH H). auto.
Qed.

Lemma double_sites_verdict :
  match first_short flush_double_sites with
  | None => double_sites_statement
  | Some _ => double_sites_refutation
  end.
Proof.
  destruct (first_short flush_double_sites) as [s|] eqn:E.
  - destruct (first_short_some _ _ E) as [Hin Hlt].
    exists s. split; [assumption|]. split; [assumption|]. apply witness_unstable. exact Hlt.
  - exact (first_short_none _ E).
Qed.

(* what every site guarantees on any tree this file compiles against: the
   minimum over the table *)
Definition min_digits (l : list dsite) : Z := fold_right (fun s m => Z.min (s_digits s) m) 99 l.
Lemma min_digits_le l s : In s l -> min_digits l <= s_digits s.
Proof.
  induction l as [|a l IH]; cbn [In min_digits fold_right]; [contradiction|].
  fold (min_digits l). intros [<- | H]; [apply Z.le_min_l | specialize (IH H); pose proof (Z.le_min_r (s_digits a) (min_digits l)); lia].
Qed.
