(* C07: the lines of a fragment other than field specifications.
   writer: _GD_FlushFragment header (/VERSION /ENDIAN /PROTECT /FRAMEOFFSET
           /ENCODING), WriteInclude, the /HIDDEN and /ALIAS lines of
           _GD_FieldSpec (flush.c)
   reader: _GD_ParseDirective (VERSION ENDIAN PROTECT FRAMEOFFSET ENCODING
           HIDDEN ALIAS INCLUDE) and the namespace/prefix/suffix split of
           _GD_SetFieldAffixes for an include into a fragment without affixes
   Standards Version 6..10, non-permissive writer. *)
From Coq Require Import ZArith List Bool Lia String.
From GD Require Import C07.Token C07.TokenProofs C07.Number C07.NumberProofs C07.Entry C07.EntryProofs Gen.Formats.
Import ListNotations.
Local Open Scope Z_scope.

(* ------------------------------------------------------------------ *)
(* fragment attributes *)

Inductive prot := PNone | PFormat | PData | PAll.
Inductive enc := ENone | EBzip2 | EGzip | ELzma | ESlim | EText | ESie | EZzip | EZzslim | EFlac.

Record fattr := mkFA {
  fa_big : bool;            (* GD_BIG_ENDIAN *)
  fa_arm : bool;            (* GD_ARM_FLAG *)
  fa_prot : prot;
  fa_off : Z;               (* frame_offset *)
  fa_enc : option enc       (* None: GD_AUTO_ENCODED, nothing is written *)
}.

Definition prot_name (p : prot) : bstring :=
  match p with PNone => B"none" | PFormat => B"format" | PData => B"data" | PAll => B"all" end.
Definition enc_name (e : enc) : bstring :=
  match e with
  | ENone => B"none" | EBzip2 => B"bzip2" | EGzip => B"gzip" | ELzma => B"lzma" | ESlim => B"slim"
  | EText => B"text" | ESie => B"sie" | EZzip => B"zzip" | EZzslim => B"zzslim" | EFlac => B"flac"
  end.

Fixpoint wline (ws : list bstring) : list item :=
  match ws with
  | [] => []
  | [w] => [([PRaw w], nl)]
  | w :: r => ([PRaw w], sp) :: wline r
  end.

(* force_off: the fragment is included by one with a non-zero frame offset *)
Definition header_lines (c : wctx) (a : fattr) (force_off : bool) : list (list bstring) :=
  [[B"/VERSION"; print_Z (w_std c)];
   [B"/ENDIAN"; if fa_big a then B"big" else B"little"] ++ (if (8 <=? w_std c) && fa_arm a then [B"arm"] else []);
   [B"/PROTECT"; prot_name (fa_prot a)]] ++
  (if negb (fa_off a =? 0) || force_off then [[B"/FRAMEOFFSET"; print_Z (fa_off a)]] else []) ++
  (match fa_enc a with Some e => [[B"/ENCODING"; enc_name e]] | None => [] end).

Definition print_header (c : wctx) (a : fattr) (force_off : bool) : list bstring :=
  map (fun l => items_text false (wline l)) (header_lines c a force_off).

(* ------------------------------------------------------------------ *)
(* reader *)

Record pstate := mkPS { ps_r : rctx; ps_a : fattr }.

Definition parse_prot (s : bstring) : option prot :=
  if bstring_eqb s (B"none") then Some PNone else if bstring_eqb s (B"format") then Some PFormat
  else if bstring_eqb s (B"data") then Some PData else if bstring_eqb s (B"all") then Some PAll else None.
Definition parse_enc (s : bstring) : option enc :=
  if bstring_eqb s (B"none") then Some ENone else if bstring_eqb s (B"bzip2") then Some EBzip2
  else if bstring_eqb s (B"gzip") then Some EGzip else if bstring_eqb s (B"lzma") then Some ELzma
  else if bstring_eqb s (B"slim") then Some ESlim else if bstring_eqb s (B"text") then Some EText
  else if bstring_eqb s (B"sie") then Some ESie else if bstring_eqb s (B"zzip") then Some EZzip
  else if bstring_eqb s (B"zzslim") then Some EZzslim else if bstring_eqb s (B"flac") then Some EFlac
  else None.

(* atoi of the /VERSION argument *)
Definition atoi (s : bstring) : Z := let '(neg, mag, _) := strto_int false s in if neg then - mag else mag.

(* _GD_ParseDirective for the slashed form of the five header directives;
   None = format error or not a header directive *)
Definition parse_directive (st : pstate) (toks : list bstring) : option pstate :=
  let r := ps_r st in
  let a := ps_a st in
  match toks with
  | d :: arg :: rest =>
      if bstring_eqb d (B"/VERSION") && pvers_ge r 5 then
        Some (mkPS (mkR (atoi arg) true) a)             (* not GD_PERMISSIVE: the parser turns pedantic *)
      else if bstring_eqb d (B"/ENDIAN") && pvers_ge r 5 then
        let big := if bstring_eqb arg (B"big") then Some true
                   else if bstring_eqb arg (B"little") then Some false else None in
        match big with
        | None => None
        | Some b =>
            match rest with
            | x :: _ => if pvers_ge r 8 then
                          if bstring_eqb x (B"arm") then Some (mkPS r (mkFA b true (fa_prot a) (fa_off a) (fa_enc a)))
                          else None
                        else Some (mkPS r (mkFA b false (fa_prot a) (fa_off a) (fa_enc a)))
            | [] => Some (mkPS r (mkFA b false (fa_prot a) (fa_off a) (fa_enc a)))
            end
        end
      else if bstring_eqb d (B"/PROTECT") && pvers_ge r 6 then
        match parse_prot arg with
        | Some p => Some (mkPS r (mkFA (fa_big a) (fa_arm a) p (fa_off a) (fa_enc a)))
        | None => None
        end
      else if bstring_eqb d (B"/FRAMEOFFSET") && pvers_ge r 1 then
        let '(neg, mag, _) := strto_int (pvers_ge r 9) arg in
        Some (mkPS r (mkFA (fa_big a) (fa_arm a) (fa_prot a) (if neg then - mag else mag) (fa_enc a)))
      else if bstring_eqb d (B"/ENCODING") && pvers_ge r 6 then
        match parse_enc arg with
        | Some e => Some (mkPS r (mkFA (fa_big a) (fa_arm a) (fa_prot a) (fa_off a) (Some e)))
        | None => None                                  (* GD_ENC_UNSUPPORTED *)
        end
      else None
  | _ => None
  end.

Fixpoint parse_header (st : pstate) (lines : list bstring) : option pstate :=
  match lines with
  | [] => Some st
  | l :: r =>
      match tokenise (pvers_ge (ps_r st) 6) l with
      | inr toks => match parse_directive st toks with Some st' => parse_header st' r | None => None end
      | inl _ => None
      end
  end.

(* what gd_open starts a fragment with: newest version, not pedantic, native
   byte order, the includer's frame offset and protection, encoding unknown *)
Definition initial_state (inherit_off : Z) (inherit_prot : prot) : pstate :=
  mkPS (mkR 10 false) (mkFA false false inherit_prot inherit_off None).

(* ------------------------------------------------------------------ *)
(* /HIDDEN, /ALIAS, /INCLUDE *)

Definition parse_hidden (r : rctx) (toks : list bstring) : option bstring :=
  match toks with
  | d :: n :: _ => if bstring_eqb d (B"/HIDDEN") && pvers_ge r 9 then Some n else None
  | _ => None
  end.
Definition parse_alias (r : rctx) (toks : list bstring) : option (bstring * bstring) :=
  match toks with
  | d :: n :: t :: _ => if bstring_eqb d (B"/ALIAS") && pvers_ge r 9 then Some (n, input_code r t) else None
  | _ => None
  end.

(* WriteInclude for a fragment included by one without affixes.
   blank = the variant that writes a blank between "ns." and the prefix *)
Definition include_items (blank : bool) (file : bstring) (ns px sx : option bstring) : list item :=
  let tail :=
    match ns, px, sx with
    | None, None, None => []
    | _, _, _ =>
        let nsw := match ns with Some n => [PEsc n; PRaw [46]] | None => [] end in
        let pxw := match px, ns, sx with
                   | Some p, _, _ => [PEsc p]
                   | None, None, Some _ => [PEsc []]          (* empty prefix before a suffix *)
                   | None, _, _ => []
                   end in
        let first :=
          if blank then
            match nsw, pxw with
            | [], _ => [(pxw, sp)]
            | _, [] => [(nsw, sp)]
            | _, _ => [(nsw, sp); (pxw, sp)]
            end
          else [(nsw ++ pxw, sp)] in
        first ++ match sx with Some s => [([PEsc s], sp)] | None => [] end
    end in
  let all := ([PRaw (B"/INCLUDE")], sp) :: ([PEsc file], sp) :: tail in
  (* the last separator is the newline *)
  match rev all with
  | (w, _) :: r => rev ((w, nl) :: r)
  | [] => []
  end.

(* the namespace / prefix split of _GD_SetFieldAffixes (pvers >= 10): the
   namespace is everything up to the last dot of the prefix token *)
Fixpoint split_last_dot (s : bstring) : option (bstring * bstring) :=
  match s with
  | [] => None
  | c :: r =>
      match split_last_dot r with
      | Some (a, b) => Some (c :: a, b)
      | None => if c =? 46 then Some ([], r) else None
      end
  end.

(* a leading dot is ignored: the namespace is always relative to the root *)
Definition drop_lead_dot (n : bstring) : bstring :=
  match n with c :: n' => if c =? 46 then n' else n | [] => n end.

Definition nonempty (s : bstring) : option bstring := match s with [] => None | _ => Some s end.

Definition parse_include (r : rctx) (toks : list bstring)
  : option (bstring * option bstring * option bstring * option bstring) :=
  match toks with
  | d :: file :: rest =>
      if bstring_eqb d (B"/INCLUDE") && pvers_ge r 3 then
        let pxin := match rest with p :: _ => p | [] => [] end in
        let sxin := match rest with _ :: s :: _ => s | _ => [] end in
        let '(ns, px) :=
          if pvers_ge r 10 then
            match split_last_dot pxin with
            | Some (n, p) => (nonempty (drop_lead_dot n), p)
            | None => (None, pxin)
            end
          else (None, pxin) in
        Some (file, ns, nonempty px, nonempty sxin)
      else None
  | _ => None
  end.
