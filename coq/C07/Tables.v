(* C07: decision procedures over the tables regenerated from the sources
   (coq/Gen/Formats.v): digit obligation of the double conversions of the
   writer, and writer version table vs parser gates. *)
From Coq Require Import ZArith List Bool String.
From GD Require Import Gen.Formats.
Import ListNotations.
Local Open Scope Z_scope.

(* 17 significant decimal digits identify a binary64 value *)
Definition digits_needed : Z := 17.

Definition sites_have (d : Z) (l : list dsite) : bool := forallb (fun s => d <=? s_digits s) l.

Fixpoint lookup (k : string) (l : list (string * Z)) : option Z :=
  match l with
  | [] => None
  | (k', v) :: r => if String.eqb k k' then Some v else lookup k r
  end.

(* every keyword the writer can emit at a version it may declare is accepted
   by the pedantic parser at that version *)
Definition real_entry (k : string) : bool :=
  negb (String.eqb k "INDEX" || String.eqb k "NO" || String.eqb k "ALIAS").
Definition gates_ok (w p : list (string * Z)) : bool :=
  forallb (fun kv => if real_entry (fst kv) then
                       match lookup (fst kv) p with Some g => g <=? snd kv | None => false end
                     else true) w.
Definition directives_ok (w p : list (string * Z)) : bool :=
  forallb (fun kv => match lookup (fst kv) p with
                     | Some g => g <=? snd kv
                     | None => String.eqb (fst kv) "HIDDEN_FLAG_MIN"
                     end) w
  && match lookup "HIDDEN_FLAG_MIN" w, lookup "HIDDEN" w, lookup "ALIAS" p with
     | Some m, Some h, Some a => (h <=? m) && (a <=? 9)
     | _, _, _ => false
     end.

Lemma sites_have_spec d l : sites_have d l = true -> forall s, In s l -> d <= s_digits s.
Proof.
  unfold sites_have. rewrite forallb_forall. intros H s Hs. apply Z.leb_le. auto.
Qed.

Lemma gates_ok_spec w p : gates_ok w p = true ->
  forall k v, In (k, v) w -> real_entry k = true -> exists g, lookup k p = Some g /\ g <= v.
Proof.
  unfold gates_ok. rewrite forallb_forall. intros H k v Hin Hr.
  specialize (H _ Hin). cbn [fst snd] in H. rewrite Hr in H.
  destruct (lookup k p) as [g|]; [|discriminate]. exists g. split; [reflexivity | apply Z.leb_le; exact H].
Qed.
