(* C07: decision procedures over the tables regenerated from the sources
   (coq/Gen/Formats.v): digit obligation of the double conversions of the
   writer, and writer version table vs parser gates. *)
From Coq Require Import ZArith List Bool String.
From GD Require Import Gen.Formats.
Import ListNotations.
Local Open Scope Z_scope.

(* 17 significant decimal digits identify a binary64 value *)
Definition digits_needed : Z := 17.

Definition sites_have (d : Z) (l : list dsite) : bool := forallb (fun s => d <=? s_digits s) l.

Fixpoint lookup (k : string) (l : list (string * Z)) : option Z :=
  match l with
  | [] => None
  | (k', v) :: r => if String.eqb k k' then Some v else lookup k r
  end.

(* every keyword the writer can emit at a version it may declare is accepted
   by the pedantic parser at that version *)
Definition real_entry (k : string) : bool :=
  negb (String.eqb k "INDEX" || String.eqb k "NO" || String.eqb k "ALIAS").
Definition gates_ok (w p : list (string * Z)) : bool :=
  forallb (fun kv => if real_entry (fst kv) then
                       match lookup (fst kv) p with Some g => g <=? snd kv | None => false end
                     else true) w.
Definition directives_ok (w p : list (string * Z)) : bool :=
  forallb (fun kv => match lookup (fst kv) p with
                     | Some g => g <=? snd kv
                     | None => String.eqb (fst kv) "HIDDEN_FLAG_MIN"
                     end) w
  && match lookup "HIDDEN_FLAG_MIN" w, lookup "HIDDEN" w, lookup "ALIAS" p with
     | Some m, Some h, Some a => (h <=? m) && (a <=? 9)
     | _, _, _ => false
     end.

Lemma sites_have_spec d l : sites_have d l = true -> forall s, In s l -> d <= s_digits s.
Proof.
  unfold sites_have. rewrite forallb_forall. intros H s Hs. apply Z.leb_le. auto.
Qed.

Lemma gates_ok_spec w p : gates_ok w p = true ->
  forall k v, In (k, v) w -> real_entry k = true -> exists g, lookup k p = Some g /\ g <= v.
Proof.
  unfold gates_ok. rewrite forallb_forall. intros H k v Hin Hr.
  specialize (H _ Hin). cbn [fst snd] in H. rewrite Hr in H.
  destruct (lookup k p) as [g|]; [|discriminate]. exists g. split; [reflexivity | apply Z.leb_le; exact H].
Qed.

(* hidden entries: the version _GD_FindVersion leaves available for a database
   with a hidden entry of type k *)
Definition hidden_min (skips : bool) (hmin : Z) (w : list (string * Z)) (k : string) : Z :=
  if skips then hmin else Z.max hmin (match lookup k w with Some v => v | None => 0 end).

Fixpoint first_bad_hidden (skips : bool) (hmin : Z) (w p all : list (string * Z)) : option string :=
  match all with
  | [] => None
  | (k, _) :: r =>
      if real_entry k && negb (match lookup k p with Some g => g <=? hidden_min skips hmin w k | None => false end)
      then Some k else first_bad_hidden skips hmin w p r
  end.

Definition hidden_statement (skips : bool) (hmin : Z) (w p : list (string * Z)) : Prop :=
  forall k v, In (k, v) w -> real_entry k = true ->
  exists g, lookup k p = Some g /\ g <= hidden_min skips hmin w k.

Definition hidden_refutation (skips : bool) (hmin : Z) (w p : list (string * Z)) : Prop :=
  exists k, real_entry k = true /\
            match lookup k p with Some g => hidden_min skips hmin w k < g | None => True end.

Lemma first_bad_hidden_none skips hmin w p all :
  first_bad_hidden skips hmin w p all = None ->
  forall k v, In (k, v) all -> real_entry k = true ->
  exists g, lookup k p = Some g /\ g <= hidden_min skips hmin w k.
Proof.
  induction all as [|[k0 v0] r IH]; cbn [first_bad_hidden]; intros H k v Hin Hr; [contradiction|].
  destruct (real_entry k0 && negb match lookup k0 p with Some g => g <=? hidden_min skips hmin w k0 | None => false end) eqn:E;
    [discriminate|].
  destruct Hin as [Heq | Hin]; [|eauto].
  injection Heq as -> ->. rewrite Hr in E. cbn [andb] in E. apply negb_false_iff in E.
  destruct (lookup k p) as [g|]; [|discriminate]. exists g. split; [reflexivity | apply Z.leb_le; exact E].
Qed.

Lemma first_bad_hidden_some skips hmin w p all k :
  first_bad_hidden skips hmin w p all = Some k -> hidden_refutation skips hmin w p.
Proof.
  induction all as [|[k0 v0] r IH]; cbn [first_bad_hidden]; intros H; [discriminate|].
  destruct (real_entry k0 && negb match lookup k0 p with Some g => g <=? hidden_min skips hmin w k0 | None => false end) eqn:E.
  - injection H as <-. apply andb_true_iff in E. destruct E as [Hr E]. apply negb_true_iff in E.
    exists k0. split; [exact Hr|]. destruct (lookup k0 p) as [g|]; [apply Z.leb_gt; exact E | exact I].
  - eauto.
Qed.

Lemma hidden_verdict skips hmin w p :
  match first_bad_hidden skips hmin w p w with
  | None => hidden_statement skips hmin w p
  | Some _ => hidden_refutation skips hmin w p
  end.
Proof.
  destruct (first_bad_hidden skips hmin w p w) eqn:E.
  - eapply first_bad_hidden_some; exact E.
  - exact (first_bad_hidden_none _ _ _ _ _ E).
Qed.
