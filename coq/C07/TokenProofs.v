(* C07: escape/tokenise round trip.
   run_escape : from any between-characters tokeniser state, reading the
   escaped form of s appends exactly the bytes of s to the open token.
   escape_roundtrip : tokenise (escape s ++ " ") = [s] for every NUL-free s. *)
From Coq Require Import ZArith List Bool Lia.
From GD Require Import C07.Token.
Import ListNotations.
Local Open Scope Z_scope.

(* a state between characters, outside quotes and escapes *)
Definition clean (st : tstate) : Prop :=
  t_esc st = false /\ t_quo st = false /\ t_mode st = AccNone /\ t_acc st = 0 /\ t_nacc st = 0.

Definition feed_tok (st : tstate) (s : bstring) : tstate := fold_left push s (start_tok st).

Lemma clean_init : clean t_init.
Proof. repeat split. Qed.

Lemma clean_start st : clean st -> clean (start_tok st).
Proof. unfold clean, start_tok; destruct st as [e q w a n m ts cu]; cbn; destruct w; cbn; tauto. Qed.

Lemma clean_push st c : clean st -> clean (push st c).
Proof. unfold clean, push; destruct st; cbn; tauto. Qed.

Lemma clean_end st : clean st -> clean (end_tok st).
Proof. unfold clean, end_tok; destruct st as [e q w a n m ts cu]; cbn; destruct w; cbn; tauto. Qed.

Lemma start_tok_idem st : start_tok (start_tok st) = start_tok st.
Proof. unfold start_tok; destruct st as [e q w a n m ts cu]; cbn; destruct w; reflexivity. Qed.

Lemma start_tok_push st c : start_tok (push (start_tok st) c) = push (start_tok st) c.
Proof. unfold start_tok, push; destruct st as [e q w a n m ts cu]; cbn; destruct w; reflexivity. Qed.

Lemma clean_feed st s : clean st -> clean (feed_tok st s).
Proof.
  unfold feed_tok. intros H. apply clean_start in H. revert H. generalize (start_tok st).
  induction s; cbn; intros; auto using clean_push.
Qed.

Lemma hexdigit_x d : 0 <= d < 16 -> is_xdigit (hexdigit d) = true /\ xval (hexdigit d) = d.
Proof.
  intros H. unfold hexdigit, is_xdigit, xval.
  destruct (Z.ltb_spec d 10).
  - replace ((48 <=? 48 + d) && (48 + d <=? 57)) with true
      by (symmetry; apply andb_true_iff; split; apply Z.leb_le; lia).
    cbn [orb]. split; [reflexivity | lia].
  - replace ((48 <=? 55 + d) && (55 + d <=? 57)) with false
      by (symmetry; apply andb_false_iff; right; apply Z.leb_gt; lia).
    replace ((65 <=? 55 + d) && (55 + d <=? 70)) with true
      by (symmetry; apply andb_true_iff; split; apply Z.leb_le; lia).
    cbn [orb]. split; [reflexivity | lia].
Qed.

Ltac zb :=
  repeat match goal with
  | |- context [?a =? ?b] =>
      first [ replace (a =? b) with false by (symmetry; apply Z.eqb_neq; lia)
            | replace (a =? b) with true by (symmetry; apply Z.eqb_eq; lia) ]
  | |- context [?a <? ?b] =>
      first [ replace (a <? b) with false by (symmetry; apply Z.ltb_ge; lia)
            | replace (a <? b) with true by (symmetry; apply Z.ltb_lt; lia) ]
  | |- context [?a <=? ?b] =>
      first [ replace (a <=? b) with false by (symmetry; apply Z.leb_gt; lia)
            | replace (a <=? b) with true by (symmetry; apply Z.leb_le; lia) ]
  | |- context [?a >? ?b] =>
      first [ replace (a >? b) with false by (symmetry; rewrite Z.gtb_ltb; apply Z.ltb_ge; lia)
            | replace (a >? b) with true by (symmetry; rewrite Z.gtb_ltb; apply Z.ltb_lt; lia) ]
  end.

Lemma run_hex_escape c w ts cu rest :
  1 <= c < 32 ->
  run true (mkT false false w 0 0 AccNone ts cu)
      ([92; 120; hexdigit (c / 16); hexdigit (c mod 16)] ++ rest)
  = run true (push (start_tok (mkT false false w 0 0 AccNone ts cu)) c) rest.
Proof.
  intros Hc. rewrite <- (Z2Nat.id c) by lia.
  assert (Hk : (0 < Z.to_nat c < 32)%nat) by lia.
  revert Hk. generalize (Z.to_nat c). clear Hc c. intros k Hk.
  do 32 (destruct k as [|k]; [first [ exfalso; lia | destruct w; reflexivity ] |]).
  exfalso; lia.
Qed.

(* one source byte *)
Lemma run_escape_char c st rest :
  byte_ok c -> clean st ->
  run true st (escape_char c ++ rest) = run true (push (start_tok st) c) rest.
Proof.
  intros Hc (He & Hq & Hm & Ha & Hn). unfold byte_ok in Hc.
  destruct st as [e q w a n m ts cu]; cbn in He, Hq, Hm, Ha, Hn; subst.
  unfold escape_char.
  destruct (esc_special c) eqn:Hs.
  - (* backslash + the byte itself *)
    unfold esc_special in Hs.
    assert (Hc4 : c = 92 \/ c = 35 \/ c = 34 \/ c = 32).
    { repeat rewrite orb_true_iff in Hs. repeat rewrite Z.eqb_eq in Hs. tauto. }
    destruct Hc4 as [-> | [-> | [-> | ->]]]; destruct w; reflexivity.
  - unfold esc_special in Hs. repeat rewrite orb_false_iff in Hs. repeat rewrite Z.eqb_neq in Hs.
    destruct Hs as [[[H92 H35] H34] H32].
    destruct (Z.ltb_spec c 32) as [Hlt | Hge].
    + (* \xHH: 31 concrete bytes *)
      apply run_hex_escape. lia.
    + (* the byte itself *)
      cbn [app run step t_esc]. unfold step_norm.
      cbn [andb t_quo negb].
      replace (c =? 92) with false by (symmetry; apply Z.eqb_neq; lia).
      replace (c =? 34) with false by (symmetry; apply Z.eqb_neq; lia).
      replace (c =? 35) with false by (symmetry; apply Z.eqb_neq; lia).
      unfold is_ws.
      replace (c =? 32) with false by (symmetry; apply Z.eqb_neq; lia).
      replace (c =? 10) with false by (symmetry; apply Z.eqb_neq; lia).
      replace (c =? 9) with false by (symmetry; apply Z.eqb_neq; lia).
      replace (c =? 13) with false by (symmetry; apply Z.eqb_neq; lia).
      replace (c =? 12) with false by (symmetry; apply Z.eqb_neq; lia).
      replace (c =? 11) with false by (symmetry; apply Z.eqb_neq; lia).
      reflexivity.
Qed.

Lemma run_escape_body s : forall st rest,
  no_nul s -> clean st -> s <> [] ->
  run true st (escape_body s ++ rest) = run true (feed_tok st s) rest.
Proof.
  unfold feed_tok.
  induction s as [|c s IH]; intros st rest Hs Hc Hne; [congruence|].
  inversion Hs; subst. cbn [escape_body flat_map]. rewrite <- app_assoc.
  rewrite run_escape_char by assumption.
  destruct s as [|d s'].
  - reflexivity.
  - change (flat_map escape_char (d :: s')) with (escape_body (d :: s')).
    rewrite IH; [| assumption | apply clean_push, clean_start, Hc | discriminate].
    cbn [fold_left]. rewrite start_tok_push. reflexivity.
Qed.

(* the empty string is written as "" *)
Lemma run_empty_quotes st rest :
  clean st -> run true st (34 :: 34 :: rest) = run true (start_tok st) rest.
Proof.
  intros (He & Hq & Hm & Ha & Hn).
  destruct st as [e q w a n m ts cu]; cbn in He, Hq, Hm, Ha, Hn; subst.
  destruct w; reflexivity.
Qed.

Theorem run_escape s st rest :
  no_nul s -> clean st ->
  run true st (escape false s ++ rest) = run true (feed_tok st s) rest.
Proof.
  intros Hs Hc. destruct s as [|c s].
  - cbn [escape app]. apply run_empty_quotes, Hc.
  - cbn [escape]. apply run_escape_body; [assumption | assumption | discriminate].
Qed.

(* a separator closes the token *)
Lemma run_ws c st rest :
  clean st -> is_ws c = true -> run true st (c :: rest) = run true (end_tok st) rest.
Proof.
  intros (He & Hq & Hm & Ha & Hn) Hw.
  destruct st as [e q w a n m ts cu]; cbn in He, Hq, Hm, Ha, Hn; subst.
  cbn [run step t_esc]. unfold step_norm. cbn [t_quo negb andb].
  assert (c <> 92 /\ c <> 34) as [H1 H2].
  { unfold is_ws in Hw. repeat rewrite orb_true_iff in Hw. repeat rewrite Z.eqb_eq in Hw. lia. }
  replace (c =? 92) with false by (symmetry; apply Z.eqb_neq; lia).
  replace (c =? 34) with false by (symmetry; apply Z.eqb_neq; lia).
  rewrite Hw. reflexivity.
Qed.

Lemma feed_tok_cur st s :
  t_ws (feed_tok st s) = false /\
  t_toks (feed_tok st s) = t_toks st /\
  t_cur (feed_tok st s) = rev s ++ (if t_ws st then [] else t_cur st).
Proof.
  unfold feed_tok.
  assert (G : forall s st', t_ws st' = false ->
              t_ws (fold_left push s st') = false /\ t_toks (fold_left push s st') = t_toks st' /\
              t_cur (fold_left push s st') = rev s ++ t_cur st').
  { clear. induction s as [|c s IH]; intros st' Hw; cbn [fold_left rev app]; [auto|].
    destruct (IH (push st' c)) as (A & B1 & C); [exact Hw|].
    rewrite A, B1, C. cbn [push t_toks t_cur]. rewrite <- app_assoc. auto. }
  destruct (G s (start_tok st)) as (A & B1 & C).
  { unfold start_tok; destruct st as [e q w a n m ts cu]; cbn; destruct w; reflexivity. }
  rewrite A, B1, C. split; [reflexivity|]. split.
  - unfold start_tok; destruct st as [e q w a n m ts cu]; cbn; destruct w; reflexivity.
  - f_equal. unfold start_tok; destruct st as [e q w a n m ts cu]; cbn; destruct w; reflexivity.
Qed.

(* from a state with no open token: the escaped string followed by a
   separator adds exactly the token s *)
Theorem run_escape_token s c st rest :
  no_nul s -> clean st -> t_ws st = true -> is_ws c = true ->
  exists st', run true st (escape false s ++ c :: rest) = run true st' rest /\
              clean st' /\ t_ws st' = true /\ t_toks st' = s :: t_toks st.
Proof.
  intros Hs Hc Hw Hsep.
  exists (end_tok (feed_tok st s)).
  rewrite run_escape by assumption.
  rewrite run_ws; [| apply clean_feed, Hc | exact Hsep].
  split; [reflexivity|]. split; [apply clean_end, clean_feed, Hc|].
  destruct (feed_tok_cur st s) as (A & B1 & C).
  unfold end_tok. rewrite A. cbn [t_ws t_toks]. rewrite B1, C, Hw, app_nil_r, rev_involutive. auto.
Qed.

Lemma escape_char_nonzero c : byte_ok c -> Forall (fun b => b <> 0) (escape_char c).
Proof.
  unfold byte_ok, escape_char. intros H.
  destruct (esc_special c); [repeat constructor; lia|].
  destruct (Z.ltb_spec c 32); [|repeat constructor; lia].
  assert (H1 : 0 <= c / 16 < 16) by (split; [apply Z.div_pos; lia | apply Z.div_lt_upper_bound; lia]).
  assert (H2 : 0 <= c mod 16 < 16) by (apply Z.mod_pos_bound; lia).
  repeat constructor; try lia; unfold hexdigit; match goal with |- context [?d <? 10] => destruct (d <? 10) end; lia.
Qed.

Lemma escape_nonzero s : no_nul s -> Forall (fun b => b <> 0) (escape false s).
Proof.
  intros H. destruct s as [|c s]; [repeat constructor; lia|].
  cbn [escape]. unfold escape_body. induction H; cbn [flat_map]; [constructor|].
  apply Forall_app; split; [apply escape_char_nonzero; assumption | assumption].
Qed.

Lemma upto_nul_id l : Forall (fun b => b <> 0) l -> upto_nul l = l.
Proof.
  induction 1 as [|c l Hc Hl IH]; cbn; [reflexivity|].
  replace (c =? 0) with false by (symmetry; apply Z.eqb_neq; assumption). now rewrite IH.
Qed.

Theorem escape_roundtrip_lemma s :
  no_nul s -> tokenise true (escape false s ++ [32]) = inr [s].
Proof.
  intros Hs. unfold tokenise.
  rewrite upto_nul_id by (apply Forall_app; split; [apply escape_nonzero, Hs | repeat constructor; lia]).
  destruct (run_escape_token s 32 t_init [] Hs clean_init eq_refl eq_refl) as (st' & E & Hc & Hw & Ht).
  etransitivity; [exact E|]. cbn [run]. unfold finish.
  destruct Hc as (He & Hq & _). rewrite He, Hq. cbn [orb].
  unfold end_tok. rewrite Hw, Ht. reflexivity.
Qed.
