(* C07: written lines are read back.
   tokenise_items : a line made of escaped/verbatim pieces separated by white
                    space tokenises into exactly the intended tokens
   *_roundtrip    : parse_line (print_entry e) = Some e per entry type, for
                    literal parameters; double literals are covered exactly
                    where the executable printf/strtod model reads them back
                    (dlit_ok / clit_ok, decidable per literal). *)
From Coq Require Import ZArith List Bool Lia String.
From GD Require Import C07.Token C07.TokenProofs C07.Number C07.NumberProofs C07.Entry.
Import ListNotations.
Local Open Scope Z_scope.

(* ------------------------------------------------------------------ *)
(* plain bytes: written verbatim, read verbatim *)

Definition plainc (c : byte) : Prop := 33 <= c <= 255 /\ esc_special c = false.
Definition plain (s : bstring) : Prop := Forall plainc s.
Definition plaincb (c : byte) : bool := (33 <=? c) && (c <=? 255) && negb (esc_special c).
Definition plainb (s : bstring) : bool := forallb plaincb s.

Lemma plainb_plain s : plainb s = true -> plain s.
Proof.
  unfold plainb, plain. rewrite forallb_forall, Forall_forall. intros H c Hc.
  specialize (H c Hc). unfold plaincb in H. rewrite !andb_true_iff, negb_true_iff in H.
  destruct H as [[H1 H2] H3]. apply Z.leb_le in H1. apply Z.leb_le in H2. split; [lia | assumption].
Qed.

Lemma plain_no_nul s : plain s -> no_nul s.
Proof. unfold plain, no_nul. apply Forall_impl. intros c [H _]. unfold byte_ok. lia. Qed.

Lemma escape_body_plain s : plain s -> escape_body s = s.
Proof.
  induction 1 as [|c s [Hc Hs] _ IH]; [reflexivity|].
  unfold escape_body in *. cbn [flat_map]. rewrite IH. unfold escape_char. rewrite Hs.
  replace (c <? 32) with false by (symmetry; apply Z.ltb_ge; lia). reflexivity.
Qed.

Definition piece_ok (p : piece) : Prop :=
  match p with PEsc s => no_nul s | PRaw s => plain s /\ s <> [] end.
Definition word_ok (w : word) : Prop := w <> [] /\ Forall piece_ok w.
Definition sep_ok (s : bstring) : Prop := s <> [] /\ Forall (fun c => is_ws c = true) s.
Definition item_ok (it : item) : Prop := word_ok (fst it) /\ sep_ok (snd it).

Lemma start_tok_noop st : t_ws st = false -> start_tok st = st.
Proof. unfold start_tok. intros ->. reflexivity. Qed.

Lemma feed_tok_app st a b : feed_tok (feed_tok st a) b = feed_tok st (a ++ b).
Proof.
  unfold feed_tok at 1. rewrite start_tok_noop by (destruct (feed_tok_cur st a) as (A & _); exact A).
  unfold feed_tok. rewrite fold_left_app. reflexivity.
Qed.

Lemma run_piece p st rest : piece_ok p -> clean st ->
  run true st (piece_text false p ++ rest) = run true (feed_tok st (piece_tok p)) rest.
Proof.
  destruct p as [s | s]; cbn [piece_ok piece_text piece_tok].
  - intros Hs Hc. apply run_escape; assumption.
  - intros [Hp Hne] Hc. rewrite <- (escape_body_plain s Hp) at 1.
    apply run_escape_body; [apply plain_no_nul, Hp | assumption | assumption].
Qed.

Lemma run_word w : forall st rest, w <> [] -> Forall piece_ok w -> clean st ->
  run true st (word_text false w ++ rest) = run true (feed_tok st (word_tok w)) rest.
Proof.
  induction w as [|p w IH]; intros st rest Hne Hok Hc; [congruence|].
  inversion Hok; subst. unfold word_text, word_tok. cbn [map List.concat].
  rewrite <- app_assoc. rewrite run_piece by assumption.
  destruct w as [|q w'].
  - cbn [map List.concat]. rewrite !app_nil_r. reflexivity.
  - fold (word_text false (q :: w')). fold (word_tok (q :: w')).
    rewrite IH; [| discriminate | assumption | apply clean_feed, Hc].
    rewrite feed_tok_app. reflexivity.
Qed.

Lemma end_tok_idem st : end_tok (end_tok st) = end_tok st.
Proof. unfold end_tok. destruct st as [e q w a n m ts cu]; cbn; destruct w; reflexivity. Qed.

Lemma run_sep s : forall st rest, Forall (fun c => is_ws c = true) s -> s <> [] -> clean st ->
  run true st (s ++ rest) = run true (end_tok st) rest.
Proof.
  induction s as [|c s IH]; intros st rest Hs Hne Hc; [congruence|].
  inversion Hs; subst. cbn [app]. rewrite run_ws by assumption.
  destruct s as [|d s'].
  - reflexivity.
  - rewrite IH; [| assumption | discriminate | apply clean_end, Hc]. rewrite end_tok_idem. reflexivity.
Qed.

Lemma run_items l : forall st rest, Forall item_ok l -> clean st -> t_ws st = true ->
  exists st', run true st (items_text false l ++ rest) = run true st' rest /\
              clean st' /\ t_ws st' = true /\ t_toks st' = rev (items_toks l) ++ t_toks st.
Proof.
  induction l as [|[w s] l IH]; intros st rest Hok Hc Hw.
  - exists st. cbn. auto.
  - inversion Hok as [|? ? [[Hwne Hwok] [Hsne Hsok]] Hl]; subst. cbn [fst snd] in *.
    unfold items_text. cbn [map List.concat fst snd]. rewrite <- !app_assoc.
    rewrite run_word by assumption.
    rewrite run_sep; [| assumption | assumption | apply clean_feed, Hc].
    set (st1 := end_tok (feed_tok st (word_tok w))).
    assert (Hc1 : clean st1) by (apply clean_end, clean_feed, Hc).
    destruct (feed_tok_cur st (word_tok w)) as (A & B1 & C).
    assert (Hw1 : t_ws st1 = true) by (subst st1; unfold end_tok; rewrite A; reflexivity).
    assert (Ht1 : t_toks st1 = word_tok w :: t_toks st).
    { subst st1. unfold end_tok. rewrite A. cbn [t_toks]. rewrite B1, C, Hw, app_nil_r, rev_involutive. reflexivity. }
    destruct (IH st1 rest Hl Hc1 Hw1) as (st' & E & Hc' & Hw' & Ht').
    exists st'. split; [exact E|]. split; [assumption|]. split; [assumption|].
    rewrite Ht', Ht1. unfold items_toks. cbn [map rev fst]. rewrite <- app_assoc. reflexivity.
Qed.

Lemma piece_text_nonzero p : piece_ok p -> Forall (fun b => b <> 0) (piece_text false p).
Proof.
  destruct p as [s|s]; cbn [piece_ok piece_text].
  - apply escape_nonzero.
  - intros [Hp _]. eapply Forall_impl; [|exact Hp]. intros c [H _]. lia.
Qed.

Lemma word_text_nonzero w : Forall piece_ok w -> Forall (fun b => b <> 0) (word_text false w).
Proof.
  unfold word_text. induction 1 as [|p w Hp _ IH]; cbn [map List.concat]; [constructor|].
  apply Forall_app. split; [apply piece_text_nonzero; exact Hp | exact IH].
Qed.

Lemma items_text_nonzero l : Forall item_ok l -> Forall (fun b => b <> 0) (items_text false l).
Proof.
  induction 1 as [|[w s] l Hit _ IH]; [constructor|].
  destruct Hit as [[_ Hw] [_ Hs]]. cbn [fst snd] in Hw, Hs.
  unfold items_text. cbn [map List.concat fst snd]. rewrite <- app_assoc.
  apply Forall_app. split; [apply word_text_nonzero; exact Hw|]. apply Forall_app. split; [|exact IH].
  eapply Forall_impl; [|exact Hs]. intros c Hc Hz. subst c. discriminate.
Qed.

Theorem tokenise_items l : Forall item_ok l ->
  tokenise true (items_text false l) = inr (items_toks l).
Proof.
  intros Hok. unfold tokenise. rewrite upto_nul_id by (apply items_text_nonzero, Hok).
  destruct (run_items l t_init [] Hok clean_init eq_refl) as (st' & E & Hc & Hw & Ht).
  rewrite app_nil_r in E. etransitivity; [exact E|]. cbn [run]. unfold finish.
  destruct Hc as (He & Hq & _). rewrite He, Hq. cbn [orb]. unfold end_tok. rewrite Hw, Ht.
  cbn [t_toks t_init]. rewrite app_nil_r, rev_involutive. reflexivity.
Qed.

(* ------------------------------------------------------------------ *)
(* pieces the writer uses *)

Lemma plain_print_Z z : plain (print_Z z) /\ print_Z z <> [].
Proof.
  assert (G : forall n, 0 <= n -> plain (print_unsigned n) /\ print_unsigned n <> []).
  { intros n Hn. unfold print_unsigned.
    destruct (digs_spec (S (Z.to_nat (Z.log2 n))) n) as (k & Hk & Hd & Hp);
      [split; [assumption | apply fuel_ok; assumption] | lia |].
    split.
    - eapply Forall_impl; [|exact Hd]. intros c Hc. unfold is_dig in Hc. split; [lia|].
      unfold esc_special. repeat (apply orb_false_iff; split); apply Z.eqb_neq; lia.
    - intros E. specialize (Hp 0 0 []). rewrite E in Hp. cbn in Hp. injection Hp as _ H2. lia. }
  unfold print_Z. destruct (Z.ltb_spec z 0).
  - destruct (G (- z)) as [Hp Hne]; [lia|]. split; [|discriminate].
    constructor; [|exact Hp]. split; [lia | reflexivity].
  - apply G. assumption.
Qed.

Lemma sep_ok_sp : sep_ok sp.
Proof. split; [discriminate | repeat constructor]. Qed.
Lemma sep_ok_nl : sep_ok nl.
Proof. split; [discriminate | repeat constructor]. Qed.
Lemma ws_spaces n : Forall (fun c => is_ws c = true) (spaces n).
Proof. induction n; cbn; constructor; auto. Qed.
Lemma sep_ok_spaces_sp n : sep_ok (spaces n ++ sp).
Proof.
  split; [destruct n; discriminate|]. apply Forall_app. split; [apply ws_spaces | repeat constructor].
Qed.
Lemma sep_ok_name c len : sep_ok (name_sep c len).
Proof. apply sep_ok_spaces_sp. Qed.
Lemma sep_ok_pretty (b : bool) n : sep_ok ((if b then spaces n else []) ++ sp).
Proof. destruct b; [apply sep_ok_spaces_sp | apply sep_ok_sp]. Qed.

Lemma item_ok_kw c k n : plainb (B k) = true -> B k <> [] -> item_ok (kw c k n).
Proof.
  intros Hp Hne. split; cbn [kw fst snd].
  - split; [discriminate|]. repeat constructor; [apply plainb_plain, Hp | exact Hne].
  - apply sep_ok_pretty.
Qed.

Lemma word_ok_raw s : plain s -> s <> [] -> word_ok [PRaw s].
Proof. intros. split; [discriminate | repeat constructor; assumption]. Qed.
Lemma word_ok_esc s : no_nul s -> word_ok [PEsc s].
Proof. intros. split; [discriminate | repeat constructor; assumption]. Qed.

Lemma plain_type_name t : plain (type_name t) /\ type_name t <> [].
Proof. split; [apply plainb_plain; destruct t; reflexivity | destruct t; discriminate]. Qed.

(* ------------------------------------------------------------------ *)
(* contexts and well-formedness *)

(* a standards-conforming writer at Standards Version 6..10; the reader is
   the pedantic parser at the version the /VERSION line declares *)
Definition ctx_ok (c : wctx) : Prop := w_perm c = false /\ 6 <= w_std c <= 10.

Lemma ctx_raw c : ctx_ok c -> w_raw c = false.
Proof.
  intros [Hp [H6 _]]. unfold w_raw. rewrite Hp. cbn.
  apply Z.ltb_ge. assumption.
Qed.
Lemma ctx_rctx c : ctx_ok c -> rctx_of c = mkR (w_std c) true.
Proof. intros [Hp _]. unfold rctx_of. rewrite Hp. reflexivity. Qed.
Lemma ctx_v6 c : ctx_ok c -> pvers_ge (rctx_of c) 6 = true.
Proof.
  intros H. rewrite ctx_rctx by assumption. unfold pvers_ge. cbn.
  apply Z.leb_le. destruct H as [_ [H6 _]]. assumption.
Qed.

(* a field name the parser accepts: a top-level name or, from Standards
   Version 7 on, parent/subfield *)
Definition name_ok (c : wctx) (n : bstring) : Prop :=
  no_nul n /\ valid_field (rctx_of c) n = true.
Definition top_name (c : wctx) (n : bstring) : Prop := is_meta (rctx_of c) n = false.
(* an input field code that is written and read verbatim: not one of the
   ambiguous one-character codes, no leading dot *)
Definition code_ok (c : wctx) (s : bstring) : Prop :=
  no_nul s /\ strip_code c s = s /\ input_code (rctx_of c) s = s.
Definition type_ok (c : wctx) (t : gdt) : Prop := raw_type (rctx_of c) (type_name t) = Some t.

(* double literals: covered where the executable model of printf %.Pg and
   _GD_TokToNum/strtod reads the text back (decidable per literal) *)
Definition dlit_ok (c : wctx) (b : Z) : Prop :=
  plainb (print_g (w_P c) b) = true /\ print_g (w_P c) b <> [] /\
  set_dbl (rctx_of c) (print_g (w_P c) b) = Some (SLit b).
Definition clit_ok (c : wctx) (z : cplx) : Prop :=
  plainb (cplx_text c (fst z) (snd z)) = true /\
  set_cplx (rctx_of c) (cplx_text c (fst z) (snd z)) = Some (SLit z).

Lemma type_ok_all c t : ctx_ok c -> (class_of t = CCpx -> 7 <= w_std c) -> type_ok c t.
Proof.
  intros Hc H7. unfold type_ok. rewrite ctx_rctx by assumption.
  destruct Hc as [_ [H6 H10]].
  assert (E5 : (w_std c <? 5) = false) by (apply Z.ltb_ge; lia).
  destruct t; unfold raw_type; cbn [type_name bytes_of_string r_ped r_std andb];
    try (rewrite E5; reflexivity);
    (assert (E7 : (w_std c <? 7) = false) by (apply Z.ltb_ge; apply H7; reflexivity));
    rewrite E5; cbn; rewrite E7; reflexivity.
Qed.

(* ------------------------------------------------------------------ *)
(* integer literals through _GD_SetScalar *)

Lemma set_unsigned_lit r bits v : 0 <= v < 2 ^ bits -> 0 < bits <= 64 ->
  set_unsigned r bits (print_Z v) = Some (SLit v).
Proof.
  intros Hv Hb. unfold set_unsigned.
  assert (H64 : 2 ^ bits <= two64).
  { unfold two64. change 18446744073709551616 with (2 ^ 64). apply Z.pow_le_mono_r; lia. }
  rewrite uint64_roundtrip_lemma by lia.
  destruct (Z.ltb_spec v two63).
  - replace (v <? 0) with false by (symmetry; apply Z.ltb_ge; lia). rewrite Z.mod_small by lia. reflexivity.
  - rewrite Z.mod_small by lia. reflexivity.
Qed.

Lemma wrap_signed_id bits v : 0 < bits -> - 2 ^ (bits - 1) <= v < 2 ^ (bits - 1) -> wrap_signed bits v = v.
Proof.
  intros Hb Hv. unfold wrap_signed.
  assert (E : 2 ^ bits = 2 * 2 ^ (bits - 1)) by (rewrite <- Z.pow_succ_r by lia; f_equal; lia).
  assert (Hp : 0 < 2 ^ (bits - 1)) by (apply Z.pow_pos_nonneg; lia).
  rewrite E. rewrite Z.mul_comm, Z.div_mul by lia. rewrite Z.mul_comm.
  destruct (Z_lt_le_dec v 0).
  - assert (Hm : v mod (2 * 2 ^ (bits - 1)) = v + 2 * 2 ^ (bits - 1)).
    { symmetry. apply (Z.mod_unique_pos _ _ (-1)). lia. lia. }
    rewrite Hm. replace (v + 2 * 2 ^ (bits - 1) <? 2 ^ (bits - 1)) with false by (symmetry; apply Z.ltb_ge; lia). lia.
  - rewrite Z.mod_small by lia. replace (v <? 2 ^ (bits - 1)) with true by (symmetry; apply Z.ltb_lt; lia). reflexivity.
Qed.

Lemma set_signed_lit r bits v : 0 < bits <= 64 -> - 2 ^ (bits - 1) <= v < 2 ^ (bits - 1) ->
  set_signed r bits (print_Z v) = Some (SLit v).
Proof.
  intros Hb Hv. unfold set_signed.
  assert (H63 : 2 ^ (bits - 1) <= two63).
  { unfold two63. change 9223372036854775808 with (2 ^ 63). apply Z.pow_le_mono_r; lia. }
  rewrite int64_roundtrip_lemma by lia. rewrite wrap_signed_id by lia. reflexivity.
Qed.

(* ------------------------------------------------------------------ *)
(* entries *)

Ltac head_ok Hn :=
  split; [apply word_ok_esc; exact Hn | apply sep_ok_name].

Ltac toks_tac :=
  unfold items_toks, word_tok;
  cbn [map fst snd List.concat piece_tok entry_items entry_name kw yoke_kw int_word in_word cplx_word dbl_word
       num_word thr_word lincom_items seps app];
  rewrite ?app_nil_r; reflexivity.

Lemma parse_print c e toks :
  ctx_ok c -> Forall item_ok (entry_items c e) -> items_toks (entry_items c e) = toks ->
  parse_line (rctx_of c) (print_entry c e) = parse_spec (rctx_of c) toks.
Proof.
  intros Hc Hok Ht. unfold parse_line, print_entry.
  rewrite ctx_v6, ctx_raw by assumption. rewrite tokenise_items by assumption. rewrite Ht. reflexivity.
Qed.

Theorem raw_roundtrip c name t v :
  ctx_ok c -> name_ok c name -> top_name c name -> type_ok c t -> 1 <= v < 2 ^ 32 ->
  parse_line (rctx_of c) (print_entry c (ERaw name t (SLit v))) = Some (ERaw name t (SLit v)).
Proof.
  intros Hc [Hn Hv] Htop Ht Hr. unfold top_name in Htop.
  rewrite (parse_print c _ [name; B"RAW"; type_name t; print_Z v]); [| assumption | | toks_tac].
  - unfold parse_spec. rewrite Hv. cbn [negb]. change (bstring_eqb (B "RAW") (B "RAW")) with true. cbv iota. rewrite Htop.
    rewrite Ht. rewrite set_unsigned_lit by lia. cbn [lit_lt].
    replace (v <=? 0) with false by (symmetry; apply Z.leb_gt; lia). reflexivity.
  - unfold entry_items, in_word, int_word, cplx_word; cbn [entry_name].
    apply Forall_cons; [head_ok Hn|].
    apply Forall_cons; [apply (item_ok_kw c "RAW" 5); [reflexivity | discriminate]|].
    apply Forall_cons; [split; [apply word_ok_raw; apply plain_type_name | apply sep_ok_sp]|].
    apply Forall_cons; [split; [apply word_ok_raw; apply plain_print_Z | apply sep_ok_nl]|].
    constructor.
Qed.

(* decide the keyword comparisons of parse_spec (closed terms) *)
Ltac kw_decide :=
  repeat match goal with
  | |- context [bstring_eqb (bytes_of_string ?a) (bytes_of_string ?b)] =>
      let r := eval vm_compute in (bstring_eqb (bytes_of_string a) (bytes_of_string b)) in
      change (bstring_eqb (bytes_of_string a) (bytes_of_string b)) with r
  end; cbn [orb andb negb]; cbv iota.

Lemma pvers_ctx c v : ctx_ok c -> v <= w_std c -> pvers_ge (rctx_of c) v = true.
Proof.
  intros H Hv. rewrite ctx_rctx by assumption. unfold pvers_ge. cbn. apply Z.leb_le. assumption.
Qed.

Ltac item_raw H := split; [apply word_ok_raw; apply H | try apply sep_ok_sp; try apply sep_ok_nl].
Ltac item_esc H := split; [apply word_ok_esc; exact H | try apply sep_ok_sp; try apply sep_ok_nl].

Theorem bit_roundtrip c sgn name inf bn nb :
  ctx_ok c -> (sgn = true -> 7 <= w_std c) -> name_ok c name -> code_ok c inf ->
  0 <= bn -> 1 <= nb -> bn + nb - 1 <= 63 ->
  parse_line (rctx_of c) (print_entry c (EBit sgn name inf (SLit bn) (SLit nb)))
  = Some (EBit sgn name inf (SLit bn) (SLit nb)).
Proof.
  intros Hc H7 [Hn Hv] (Hi & Hs & Hin) Hbn Hnb Hsum.
  rewrite (parse_print c _ [name; (if sgn then B"SBIT" else B"BIT"); inf; print_Z bn; print_Z nb]);
    [| assumption | | destruct sgn; unfold items_toks, word_tok;
         cbn [map fst snd List.concat piece_tok entry_items entry_name kw int_word in_word app];
         rewrite Hs, ?app_nil_r; reflexivity].
  - unfold parse_spec. rewrite Hv. cbn [negb].
    assert (Hg : sgn = true -> pvers_ge (rctx_of c) 7 = true) by (intros E; apply pvers_ctx; auto).
    rewrite !set_signed_lit by (change (2 ^ (32 - 1)) with 2147483648; lia).
    rewrite Hin. cbn [lit_lt is_lit andb].
    replace (nb <? 1) with false by (symmetry; apply Z.ltb_ge; lia).
    replace (bn <? 0) with false by (symmetry; apply Z.ltb_ge; lia).
    replace (63 <? bn + nb - 1) with false by (symmetry; apply Z.ltb_ge; lia).
    destruct sgn; kw_decide; [rewrite Hg by reflexivity|]; reflexivity.
  - unfold entry_items, in_word, int_word, cplx_word; cbn [entry_name]. rewrite Hs.
    apply Forall_cons; [head_ok Hn|].
    apply Forall_cons; [destruct sgn; [apply (item_ok_kw c "SBIT" 4) | apply (item_ok_kw c "BIT" 5)]; (reflexivity || discriminate)|].
    apply Forall_cons; [item_esc Hi|].
    apply Forall_cons; [item_raw (plain_print_Z bn)|].
    apply Forall_cons; [item_raw (plain_print_Z nb)|].
    constructor.
Qed.

Theorem phase_roundtrip c name inf shift :
  ctx_ok c -> name_ok c name -> code_ok c inf -> - two63 <= shift < two63 ->
  parse_line (rctx_of c) (print_entry c (EPhase name inf (SLit shift))) = Some (EPhase name inf (SLit shift)).
Proof.
  intros Hc [Hn Hv] (Hi & Hs & Hin) Hr.
  rewrite (parse_print c _ [name; B"PHASE"; inf; print_Z shift]);
    [| assumption | | unfold items_toks, word_tok;
         cbn [map fst snd List.concat piece_tok entry_items entry_name kw int_word in_word app];
         rewrite Hs, ?app_nil_r; reflexivity].
  - unfold parse_spec. rewrite Hv. cbn [negb]. kw_decide.
    rewrite (pvers_ctx c 4) by (auto; destruct Hc as [_ [? ?]]; lia). cbn [andb].
    rewrite set_signed_lit by (change (2 ^ (64 - 1)) with two63; lia). rewrite Hin. reflexivity.
  - unfold entry_items, in_word, int_word, cplx_word; cbn [entry_name]. rewrite Hs.
    apply Forall_cons; [head_ok Hn|].
    apply Forall_cons; [apply (item_ok_kw c "PHASE" 3); (reflexivity || discriminate)|].
    apply Forall_cons; [item_esc Hi|].
    apply Forall_cons; [item_raw (plain_print_Z shift)|].
    constructor.
Qed.

(* strings: every byte except NUL *)
Theorem string_roundtrip c name v :
  ctx_ok c -> name_ok c name -> no_nul v ->
  parse_line (rctx_of c) (print_entry c (EString name v)) = Some (EString name v).
Proof.
  intros Hc [Hn Hv] Hs.
  rewrite (parse_print c _ [name; B"STRING"; v]); [| assumption | | toks_tac].
  - unfold parse_spec. rewrite Hv. cbn [negb]. kw_decide.
    rewrite (pvers_ctx c 6) by (auto; destruct Hc as [_ [? ?]]; lia). reflexivity.
  - unfold entry_items, in_word, int_word, cplx_word; cbn [entry_name].
    apply Forall_cons; [head_ok Hn|].
    apply Forall_cons; [apply (item_ok_kw c "STRING" 2); (reflexivity || discriminate)|].
    apply Forall_cons; [item_esc Hs|].
    constructor.
Qed.

Theorem linterp_roundtrip c name inf table :
  ctx_ok c -> name_ok c name -> code_ok c inf -> no_nul table ->
  parse_line (rctx_of c) (print_entry c (ELinterp name inf table)) = Some (ELinterp name inf table).
Proof.
  intros Hc [Hn Hv] (Hi & Hs & Hin) Ht.
  rewrite (parse_print c _ [name; B"LINTERP"; inf; table]);
    [| assumption | | unfold items_toks, word_tok;
         cbn [map fst snd List.concat piece_tok entry_items entry_name kw in_word app];
         rewrite Hs, ?app_nil_r; reflexivity].
  - unfold parse_spec. rewrite Hv. cbn [negb]. kw_decide. rewrite Hin. reflexivity.
  - unfold entry_items, in_word, int_word, cplx_word; cbn [entry_name]. rewrite Hs.
    apply Forall_cons; [head_ok Hn|].
    apply Forall_cons; [apply (item_ok_kw c "LINTERP" 1); (reflexivity || discriminate)|].
    apply Forall_cons; [item_esc Hi|].
    apply Forall_cons; [item_esc Ht|].
    constructor.
Qed.

Definition yoke_min (k : yoke) : Z :=
  match k with YMultiply => 2 | YDivide => 8 | YIndir => 10 | YSindir => 10 end.
Definition yoke_name (k : yoke) : bstring :=
  match k with YMultiply => B"MULTIPLY" | YDivide => B"DIVIDE" | YIndir => B"INDIR" | YSindir => B"SINDIR" end.

Theorem yoke_roundtrip c k name a b :
  ctx_ok c -> yoke_min k <= w_std c -> name_ok c name -> code_ok c a -> code_ok c b ->
  parse_line (rctx_of c) (print_entry c (EYoke k name a b)) = Some (EYoke k name a b).
Proof.
  intros Hc Hk [Hn Hv] (Ha & Hsa & Hia) (Hb & Hsb & Hib).
  rewrite (parse_print c _ [name; yoke_name k; a; b]);
    [| assumption | | destruct k; unfold items_toks, word_tok;
         cbn [map fst snd List.concat piece_tok entry_items entry_name kw yoke_kw in_word app yoke_name];
         rewrite Hsa, Hsb, ?app_nil_r; reflexivity].
  - unfold parse_spec. rewrite Hv. cbn [negb].
    assert (H2 : pvers_ge (rctx_of c) 2 = true) by (apply pvers_ctx; auto; destruct Hc as [_ [? ?]]; lia).
    destruct k; cbn [yoke_name yoke_min] in *; kw_decide; rewrite ?H2, ?(pvers_ctx c _ Hc Hk); cbn [orb andb];
      rewrite Hia, Hib; reflexivity.
  - unfold entry_items, in_word, int_word, cplx_word; cbn [entry_name]. rewrite Hsa, Hsb.
    apply Forall_cons; [head_ok Hn|].
    apply Forall_cons; [destruct k; cbn [yoke_kw];
      [split; [apply word_ok_raw; [apply plainb_plain; reflexivity | discriminate] | apply sep_ok_sp]
      | apply (item_ok_kw c "DIVIDE" 2) | apply (item_ok_kw c "INDIR" 3) | apply (item_ok_kw c "SINDIR" 2)];
      (reflexivity || discriminate)|].
    apply Forall_cons; [item_esc Ha|].
    apply Forall_cons; [item_esc Hb|].
    constructor.
Qed.

(* CONST: all four storage classes.  Integers unconditionally, doubles and
   complex values where the executable printf/strtod model reads them back *)
Definition cval_ok (c : wctx) (t : gdt) (v : cval) : Prop :=
  match class_of t, v with
  | CUns, VU z => 0 <= z < two64
  | CSig, VI z => - two63 <= z < two63
  | CFlt, VD b => dlit_ok c b
  | CCpx, VC re im => clit_ok c (re, im)
  | _, _ => False
  end.

Lemma plain_cval c t v : cval_ok c t v -> plain (cval_text c v) /\ cval_text c v <> [].
Proof.
  unfold cval_ok. destruct (class_of t), v; try contradiction; cbn [cval_text].
  - intros _. apply plain_print_Z.
  - intros _. apply plain_print_Z.
  - intros (Hp & Hne & _). split; [apply plainb_plain, Hp | exact Hne].
  - intros (Hp & _). cbn [fst snd] in Hp. split; [apply plainb_plain, Hp|].
    unfold cplx_text. intros E. apply app_eq_nil in E. destruct E as [_ E]. discriminate.
Qed.

Lemma set_cval_ok c t v : cval_ok c t v -> set_cval (rctx_of c) t (cval_text c v) = Some v.
Proof.
  unfold cval_ok, set_cval. destruct (class_of t), v; try contradiction; cbn [cval_text].
  - intros H. rewrite (set_unsigned_lit _ 64) by (change (2 ^ 64) with two64; lia). reflexivity.
  - intros H. rewrite (set_signed_lit _ 64) by (change (2 ^ (64 - 1)) with two63; lia). reflexivity.
  - intros (_ & _ & H). rewrite H. reflexivity.
  - intros (_ & H). cbn [fst snd] in H. rewrite H. reflexivity.
Qed.

Theorem const_roundtrip c name t v :
  ctx_ok c -> name_ok c name -> type_ok c t -> cval_ok c t v ->
  parse_line (rctx_of c) (print_entry c (EConst name t v)) = Some (EConst name t v).
Proof.
  intros Hc [Hn Hv] Ht Hval.
  rewrite (parse_print c _ [name; B"CONST"; type_name t; cval_text c v]); [| assumption | | toks_tac].
  - unfold parse_spec. rewrite Hv. cbn [negb]. kw_decide.
    rewrite (pvers_ctx c 6) by (auto; destruct Hc as [_ [? ?]]; lia). cbn [andb].
    rewrite Ht. rewrite set_cval_ok by assumption. reflexivity.
  - unfold entry_items, in_word, int_word, cplx_word; cbn [entry_name].
    apply Forall_cons; [head_ok Hn|].
    apply Forall_cons; [apply (item_ok_kw c "CONST" 3); (reflexivity || discriminate)|].
    apply Forall_cons; [item_raw (plain_type_name t)|].
    apply Forall_cons; [item_raw (plain_cval c t v Hval)|].
    constructor.
Qed.

Theorem recip_roundtrip c name inf d :
  ctx_ok c -> 8 <= w_std c -> name_ok c name -> code_ok c inf -> clit_ok c d ->
  parse_line (rctx_of c) (print_entry c (ERecip name inf (im_nonzero (SLit d)) (SLit d)))
  = Some (ERecip name inf (im_nonzero (SLit d)) (SLit d)).
Proof.
  intros Hc H8 [Hn Hv] (Hi & Hs & Hin) (Hp & Hd). destruct d as [re im]. cbn [fst snd] in *.
  rewrite (parse_print c _ [name; B"RECIP"; inf; cplx_text c re im]);
    [| assumption | | unfold items_toks, word_tok;
         cbn [map fst snd List.concat piece_tok entry_items entry_name kw cplx_word in_word app];
         rewrite Hs, ?app_nil_r; reflexivity].
  - unfold parse_spec. rewrite Hv. cbn [negb]. kw_decide.
    rewrite (pvers_ctx c 8) by auto. cbn [andb]. rewrite Hd, Hin. reflexivity.
  - unfold entry_items, in_word, int_word, cplx_word; cbn [entry_name]. rewrite Hs.
    apply Forall_cons; [head_ok Hn|].
    apply Forall_cons; [apply (item_ok_kw c "RECIP" 3); (reflexivity || discriminate)|].
    apply Forall_cons; [item_esc Hi|].
    apply Forall_cons; [split; [apply word_ok_raw; [apply plainb_plain, Hp|] | apply sep_ok_nl]|].
    { unfold cplx_text. intros E. apply app_eq_nil in E. destruct E as [_ E]. discriminate. }
    constructor.
Qed.

Theorem mplex_roundtrip c name inf cnt v p :
  ctx_ok c -> 9 <= w_std c -> name_ok c name -> code_ok c inf -> code_ok c cnt ->
  - 2147483648 <= v < 2147483648 -> 0 <= p < 2147483648 ->
  parse_line (rctx_of c) (print_entry c (EMplex name inf cnt (SLit v) (SLit p)))
  = Some (EMplex name inf cnt (SLit v) (SLit p)).
Proof.
  intros Hc H9 [Hn Hv] (Hi & Hs & Hin) (Hk & Hsk & Hik) Hval Hper.
  rewrite (parse_print c _ [name; B"MPLEX"; inf; cnt; print_Z v; print_Z p]);
    [| assumption | | unfold items_toks, word_tok;
         cbn [map fst snd List.concat piece_tok entry_items entry_name kw int_word in_word app];
         rewrite Hs, Hsk, ?app_nil_r; reflexivity].
  - unfold parse_spec. rewrite Hv. cbn [negb]. kw_decide.
    rewrite (pvers_ctx c 9) by auto. cbn [andb].
    rewrite !set_signed_lit by (change (2 ^ (32 - 1)) with 2147483648; lia).
    cbn [lit_lt]. replace (p <? 0) with false by (symmetry; apply Z.ltb_ge; lia).
    rewrite Hin, Hik. reflexivity.
  - unfold entry_items, in_word, int_word, cplx_word; cbn [entry_name]. rewrite Hs, Hsk.
    apply Forall_cons; [head_ok Hn|].
    apply Forall_cons; [apply (item_ok_kw c "MPLEX" 3); (reflexivity || discriminate)|].
    apply Forall_cons; [item_esc Hi|].
    apply Forall_cons; [item_esc Hk|].
    apply Forall_cons; [item_raw (plain_print_Z v)|].
    apply Forall_cons; [item_raw (plain_print_Z p)|].
    constructor.
Qed.

(* a LINCOM/POLYNOM literal as the writer prints it under the entry's
   complex-scalar flag *)
Definition nlit_ok (c : wctx) (comp : bool) (z : cplx) : Prop :=
  let text := word_tok (num_word c comp (SLit z)) in
  plainb text = true /\ text <> [] /\ set_cplx (rctx_of c) text = Some (SLit z).

(* LINCOM with one input field (the flag is the one gd_add computes) *)
Theorem lincom1_roundtrip c name inf m b :
  let comp := im_nonzero (SLit m) || im_nonzero (SLit b) in
  ctx_ok c -> name_ok c name -> code_ok c inf -> nlit_ok c comp m -> nlit_ok c comp b ->
  parse_line (rctx_of c) (print_entry c (ELincom name comp [(inf, SLit m, SLit b)]))
  = Some (ELincom name comp [(inf, SLit m, SLit b)]).
Proof.
  intros comp Hc [Hn Hv] (Hi & Hs & Hin) (Hpm & Hnm & Hm) (Hpb & Hnb & Hb).
  rewrite (parse_print c _ [name; B"LINCOM"; B"1"; inf; word_tok (num_word c comp (SLit m)); word_tok (num_word c comp (SLit b))]);
    [| assumption | | ].
  - unfold parse_spec. rewrite Hv. cbn [negb]. kw_decide.
    change (strto_int false (B "1")) with (false, 1, @nil byte). cbv iota beta.
    cbn [List.length Z.of_nat Pos.of_succ_nat Pos.succ Z.ltb Z.compare Z.mul Z.add Pos.mul Pos.add orb Pos.compare Pos.compare_cont].
    change (Z.to_nat 1) with 1%nat. cbn [lincom_terms]. rewrite Hm, Hb, Hin.
    cbn [existsb fst snd orb]. fold comp. rewrite orb_false_r. reflexivity.
  - unfold entry_items, in_word; cbn [lincom_items entry_name List.length]. unfold in_word. rewrite Hs.
    apply Forall_cons; [head_ok Hn|].
    apply Forall_cons; [apply (item_ok_kw c "LINCOM" 2); (reflexivity || discriminate)|].
    apply Forall_cons; [split; [apply word_ok_raw; [apply plainb_plain; reflexivity | discriminate] | apply sep_ok_sp]|].
    apply Forall_cons; [item_esc Hi|].
    assert (G : forall z, plainb (word_tok (num_word c comp (SLit z))) = true ->
                word_tok (num_word c comp (SLit z)) <> [] -> word_ok (num_word c comp (SLit z))).
    { intros [re im] Hp Hne. unfold num_word, cplx_word, dbl_word in *. destruct comp; cbn [word_tok map piece_tok List.concat] in *;
        rewrite app_nil_r in *; apply word_ok_raw; auto using plainb_plain. }
    apply Forall_cons; [split; [apply G; assumption | apply sep_ok_sp]|].
    apply Forall_cons; [split; [apply G; assumption | apply sep_ok_nl]|].
    constructor.
  - unfold items_toks. unfold entry_items; cbn [lincom_items entry_name List.length map fst]. unfold in_word. rewrite Hs.
    unfold word_tok at 1 2 3 4. cbn [map piece_tok List.concat]. rewrite ?app_nil_r. reflexivity.
Qed.
