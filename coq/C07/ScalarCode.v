(* C07: scalar field codes.
   - no numeric parser of the reader model (strtoll/strtoull/strtod) consumes
     a '<': a token  name<...  is never a number  (scalar_code_not_number)
   - carray_check reads  name<i>  back as (name, i)
   - hence _GD_SetScalar reads the word _GD_WriteConst writes for a scalar
     field code back as that code, with index 0 when the writer had to force
     "<0>" on a number-like name. *)
From Coq Require Import ZArith List Bool Lia String.
From GD Require Import C07.Token C07.TokenProofs C07.Number C07.NumberProofs C07.Entry C07.EntryProofs Gen.Formats.
Import ListNotations.
Local Open Scope Z_scope.

(* rest is a suffix of u and the consumed prefix contains no '<' *)
Definition good (u rest : bstring) : Prop := exists p, u = p ++ rest /\ ~ In 60 p.

Lemma good_refl u : good u u.
Proof. exists []. split; [reflexivity | intros []]. Qed.

Lemma good_trans u v w : good u v -> good v w -> good u w.
Proof.
  intros (p & -> & Hp) (q & -> & Hq). exists (p ++ q). split; [apply app_assoc|].
  intros H. apply in_app_or in H. tauto.
Qed.

Lemma good_cons c u : c <> 60 -> good (c :: u) u.
Proof. intros H. exists [c]. split; [reflexivity|]. intros [E|[]]. congruence. Qed.

Lemma good_cons_trans c u w : c <> 60 -> good u w -> good (c :: u) w.
Proof. intros H G. eapply good_trans; [apply good_cons; exact H | exact G]. Qed.

Lemma skip_ws_good u : good u (skip_ws u).
Proof.
  induction u as [|c u IH]; [apply good_refl|]. cbn [skip_ws].
  destruct (is_space c) eqn:E; [|apply good_refl].
  apply good_cons_trans; [|exact IH]. intros ->. discriminate.
Qed.

Lemma split_sign_good u : good u (snd (split_sign u)).
Proof.
  destruct u as [|c u]; [apply good_refl|]. cbn [split_sign].
  destruct (Z.eqb_spec c 45); [cbn; apply good_cons; lia|].
  destruct (Z.eqb_spec c 43); [cbn; apply good_cons; lia|]. apply good_refl.
Qed.

Lemma digit_val_60 c : digit_val c < 99 -> c <> 60.
Proof. intros H ->. vm_compute in H. discriminate. Qed.

Lemma parse_base_good b : b <= 36 -> forall u a n, good u (snd (parse_base b a n u)).
Proof.
  intros Hb. induction u as [|c u IH]; intros a n; [apply good_refl|]. cbn [parse_base].
  destruct (Z.ltb_spec (digit_val c) b); [|apply good_refl].
  apply good_cons_trans; [apply digit_val_60; lia | apply IH].
Qed.

Lemma prefix_ci_good p : ~ In 60 p -> forall u r, prefix_ci p u = Some r -> good u r.
Proof.
  induction p as [|a p IH]; intros Hp u r H.
  - cbn in H. injection H as <-. apply good_refl.
  - destruct u as [|c u]; [discriminate|]. cbn [prefix_ci] in H.
    destruct (Z.eqb_spec (lower c) a); [|discriminate].
    apply good_cons_trans.
    + intros ->. apply Hp. left. symmetry. assumption.
    + apply IH; [|exact H]. intros Hin. apply Hp. right. exact Hin.
Qed.

Lemma skip_nchars_good u : good u (skip_nchars u).
Proof.
  induction u as [|c u IH]; [apply good_refl|]. cbn [skip_nchars].
  destruct (is_nchar c) eqn:E; [|apply good_refl].
  apply good_cons_trans; [|exact IH]. intros ->. discriminate.
Qed.

Lemma parse_exponent_good u e r : parse_exponent u = Some (e, r) -> good u r.
Proof.
  unfold parse_exponent. pose proof (split_sign_good u) as G1.
  destruct (split_sign u) as [neg s1]. cbn [snd] in G1.
  pose proof (parse_base_good 10 ltac:(lia) s1 0 0) as G2.
  destruct (parse_base 10 0 0 s1) as [[v n] rest]. cbn [snd] in G2.
  destruct (n =? 0); [discriminate|]. intros H. injection H as _ <-.
  exact (good_trans _ _ _ G1 G2).
Qed.

Lemma nan_tail_good r : good r (nan_tail r).
Proof.
  unfold nan_tail. destruct r as [|c t]; [apply good_refl|].
  destruct (Z.eqb_spec c 40); [|apply good_refl].
  pose proof (skip_nchars_good t) as G. destruct (skip_nchars t) as [|d u]; [apply good_refl|].
  destruct (Z.eqb_spec d 41); [|apply good_refl].
  apply good_cons_trans; [lia|]. eapply good_trans; [exact G|]. apply good_cons. lia.
Qed.

Lemma frac_part_good b ip r1 : b <= 36 -> good r1 (snd (frac_part b ip r1)).
Proof.
  intros Hb. unfold frac_part. destruct r1 as [|c t]; [apply good_refl|].
  destruct (Z.eqb_spec c 46); [|apply good_refl].
  apply good_cons_trans; [lia|]. apply parse_base_good. exact Hb.
Qed.

Lemma exp_part_good m1 m2 r2 : m1 <> 60 -> m2 <> 60 -> good r2 (snd (exp_part m1 m2 r2)).
Proof.
  intros H1 H2. unfold exp_part. destruct r2 as [|c t]; [apply good_refl|].
  destruct ((c =? m1) || (c =? m2)) eqn:E; [|apply good_refl].
  destruct (parse_exponent t) as [[e r]|] eqn:P; [|apply good_refl].
  apply good_cons_trans; [|eapply parse_exponent_good; exact P].
  apply orb_true_iff in E. destruct E as [E|E]; apply Z.eqb_eq in E; lia.
Qed.

Lemma strto_int_good base0 u : good u (snd (strto_int base0 u)).
Proof.
  unfold strto_int.
  pose proof (skip_ws_good u) as G0. pose proof (split_sign_good (skip_ws u)) as G1.
  destruct (split_sign (skip_ws u)) as [neg s1]. cbn [snd] in G1.
  assert (G : good u s1) by (exact (good_trans _ _ _ G0 G1)).
  assert (Gdec : good u (snd (let '(v, n, rest) := parse_base 10 0 0 s1 in
                               if n =? 0 then (false, 0, u) else (neg, v, rest)))).
  { pose proof (parse_base_good 10 ltac:(lia) s1 0 0) as G2.
    destruct (parse_base 10 0 0 s1) as [[v n] rest]. cbn [snd] in G2.
    destruct (n =? 0); cbn [snd]; [apply good_refl | exact (good_trans _ _ _ G G2)]. }
  assert (Goct : good u (snd (let '(v, _, rest) := parse_base 8 0 0 s1 in (neg, v, rest)))).
  { pose proof (parse_base_good 8 ltac:(lia) s1 0 0) as G2.
    destruct (parse_base 8 0 0 s1) as [[v n] rest]. cbn [snd] in *. exact (good_trans _ _ _ G G2). }
  destruct s1 as [|c0 t]; [apply good_refl|].
  destruct (base0 && (c0 =? 48)) eqn:E0; [|exact Gdec].
  destruct t as [|x [|h r]]; try exact Goct.
  destruct (is_x x && (digit_val h <? 16)) eqn:E1; [|exact Goct].
  apply andb_true_iff in E0. destruct E0 as [_ E0]. apply Z.eqb_eq in E0. subst c0.
  apply andb_true_iff in E1. destruct E1 as [Ex Eh]. apply Z.ltb_lt in Eh.
  pose proof (parse_base_good 16 ltac:(lia) (h :: r) 0 0) as G2.
  destruct (parse_base 16 0 0 (h :: r)) as [[v n] rest]. cbn [snd] in *.
  eapply good_trans; [exact G|].
  apply good_cons_trans; [lia|]. apply good_cons_trans; [|exact G2].
  unfold is_x in Ex. apply orb_true_iff in Ex. destruct Ex as [Ex|Ex]; apply Z.eqb_eq in Ex; lia.
Qed.

Lemma strtod_good u : good u (snd (fst (strtod_model u))).
Proof.
  unfold strtod_model.
  pose proof (skip_ws_good u) as G0. pose proof (split_sign_good (skip_ws u)) as G1.
  destruct (split_sign (skip_ws u)) as [neg s1]. cbn [snd] in G1.
  assert (G : good u s1) by (exact (good_trans _ _ _ G0 G1)).
  destruct (prefix_ci [105; 110; 102] s1) as [r|] eqn:Pinf.
  { assert (Gr : good s1 r) by (eapply prefix_ci_good; [|exact Pinf]; cbn; intuition lia).
    destruct (prefix_ci [105; 110; 105; 116; 121] r) as [r2|] eqn:P2; cbn [fst snd].
    - eapply good_trans; [exact G|]. eapply good_trans; [exact Gr|].
      eapply prefix_ci_good; [|exact P2]. cbn. intuition lia.
    - exact (good_trans _ _ _ G Gr). }
  destruct (prefix_ci [110; 97; 110] s1) as [r|] eqn:Pnan.
  { assert (Gr : good s1 r) by (eapply prefix_ci_good; [|exact Pnan]; cbn; intuition lia).
    cbn [fst snd]. eapply good_trans; [exact G|]. eapply good_trans; [exact Gr|]. apply nan_tail_good. }
  destruct (is_hex_start s1) eqn:Hx.
  - unfold is_hex_start in Hx. destruct s1 as [|c0 [|x [|h r]]]; try discriminate.
    apply andb_true_iff in Hx. destruct Hx as [Hx _]. apply andb_true_iff in Hx. destruct Hx as [H0 Hxx].
    apply Z.eqb_eq in H0. subst c0.
    assert (Hx60 : x <> 60).
    { unfold is_x in Hxx. apply orb_true_iff in Hxx. destruct Hxx as [E|E]; apply Z.eqb_eq in E; lia. }
    cbn [tl].
    pose proof (parse_base_good 16 ltac:(lia) (h :: r) 0 0) as G2.
    destruct (parse_base 16 0 0 (h :: r)) as [[ip ni] r1]. cbn [snd] in G2.
    pose proof (frac_part_good 16 ip r1 ltac:(lia)) as G3.
    destruct (frac_part 16 ip r1) as [[m nf] r2]. cbn [snd] in G3.
    destruct (ni + nf =? 0); cbn [fst snd].
    + eapply good_trans; [exact G|]. apply good_cons. lia.
    + pose proof (exp_part_good 112 80 r2 ltac:(lia) ltac:(lia)) as G4.
      destruct (exp_part 112 80 r2) as [ex r3]. cbn [snd] in G4.
      match goal with |- context [if ?c then bits_of_ratio ?a ?b else bits_of_ratio ?a' ?b'] =>
        destruct (if c then bits_of_ratio a b else bits_of_ratio a' b') as [bb er] end.
      cbn [fst snd]. eapply good_trans; [exact G|].
      apply good_cons_trans; [lia|]. apply good_cons_trans; [exact Hx60|].
      eapply good_trans; [exact G2|]. exact (good_trans _ _ _ G3 G4).
  - pose proof (parse_base_good 10 ltac:(lia) s1 0 0) as G2.
    destruct (parse_base 10 0 0 s1) as [[ip ni] r1]. cbn [snd] in G2.
    pose proof (frac_part_good 10 ip r1 ltac:(lia)) as G3.
    destruct (frac_part 10 ip r1) as [[m nf] r2]. cbn [snd] in G3.
    destruct (ni + nf =? 0); cbn [fst snd]; [apply good_refl|].
    pose proof (exp_part_good 101 69 r2 ltac:(lia) ltac:(lia)) as G4.
    destruct (exp_part 101 69 r2) as [ex r3]. cbn [snd] in G4.
    match goal with |- context [if ?c then bits_of_ratio ?a ?b else bits_of_ratio ?a' ?b'] =>
      destruct (if c then bits_of_ratio a b else bits_of_ratio a' b') as [bb er] end.
    cbn [fst snd]. eapply good_trans; [exact G|]. eapply good_trans; [exact G2|]. exact (good_trans _ _ _ G3 G4).
Qed.

(* ------------------------------------------------------------------ *)
(* consequences for tokens *)

Definition no60 (x : bstring) : Prop := ~ In 60 x.
Definition no59 (x : bstring) : Prop := ~ In 59 x.

(* a suffix obtained by consuming no '<' from  x ++ '<' :: t  still has the '<' *)
Lemma good_keeps_lt x t rest : no60 x -> good (x ++ 60 :: t) rest ->
  exists x', rest = x' ++ 60 :: t /\ exists p, x = p ++ x'.
Proof.
  intros Hx (p & E & Hp). revert x Hx E. induction p as [|c p IH]; intros x Hx E.
  - exists x. split; [symmetry; exact E | exists []; reflexivity].
  - destruct x as [|d x].
    + cbn in E. injection E as E _. exfalso. apply Hp. left. congruence.
    + cbn in E. injection E as -> E.
      destruct (IH (fun H => Hp (or_intror H)) x (fun H => Hx (or_intror H)) E) as (x' & R & q & Q).
      exists x'. split; [exact R|]. exists (c :: q). cbn. rewrite Q. reflexivity.
Qed.

Lemma at_term_lt semi x t rest : no60 x -> no59 x -> good (x ++ 60 :: t) rest -> at_term semi rest = false.
Proof.
  intros H60 H59 G. destruct (good_keeps_lt x t rest H60 G) as (x' & -> & p & ->).
  destruct x' as [|c x'']; cbn [app at_term].
  - rewrite andb_false_r. reflexivity.
  - replace (c =? 59) with false; [apply andb_false_r|].
    symmetry. apply Z.eqb_neq. intros ->. apply H59. apply in_or_app. right. left. reflexivity.
Qed.

Lemma at_term_suffix semi x rest : no59 x -> good x rest -> at_term semi rest = at_term false rest.
Proof.
  intros H59 (p & -> & _). destruct rest as [|c r]; [reflexivity|]. cbn [at_term].
  replace (c =? 59) with false; [rewrite andb_false_r; reflexivity|].
  symmetry. apply Z.eqb_neq. intros ->. apply H59. apply in_or_app. right. left. reflexivity.
Qed.

Lemma tok_part_lt uf zf pu base0 semi want x t : no60 x -> no59 x ->
  tok_part_gen uf zf pu base0 semi want (x ++ 60 :: t) = None.
Proof.
  intros H60 H59. unfold tok_part_gen.
  pose proof (strto_int_good base0 (x ++ 60 :: t)) as G1.
  destruct (strto_int base0 (x ++ 60 :: t)) as [[neg mag] rest]. cbn [snd] in G1.
  rewrite (at_term_lt semi x t rest H60 H59 G1).
  pose proof (strtod_good (x ++ 60 :: t)) as G2.
  destruct (strtod_model (x ++ 60 :: t)) as [[b rest_d] er]. cbn [fst snd] in G2.
  rewrite (at_term_lt semi x t rest_d H60 H59 G2).
  rewrite !andb_false_r. cbn [andb]. destruct (_ && _); reflexivity.
Qed.

(* scalar_code_not_number: a token  name<...  is never read as a number *)
Theorem tok_lt_not_number uf zf pu base0 wr wi x t : no60 x -> no59 x ->
  tok_to_num_gen uf zf pu base0 wr wi (x ++ 60 :: t) = NotNum.
Proof. intros H60 H59. unfold tok_to_num_gen. rewrite tok_part_lt by assumption. reflexivity. Qed.

(* for a token without ';' the verdict "not a number" does not depend on which
   pointers the caller passes: the writer's test (all NULL) and the reader's
   (re/im wanted) agree *)
Lemma tok_part_none_want uf zf pu base0 semi x :
  tok_part_gen uf zf pu base0 semi false x = None -> forall want, tok_part_gen uf zf pu base0 semi want x = None.
Proof.
  unfold tok_part_gen. destruct (strto_int base0 x) as [[neg mag] rest].
  destruct (strtod_model x) as [[b rest_d] er].
  rewrite andb_false_r. cbn [negb]. rewrite andb_true_r.
  destruct (negb (negb _) && at_term semi rest) eqn:E; [discriminate|].
  intros H want. cbn [andb]. exact H.
Qed.

Lemma tok_part_some uf zf pu base0 semi want s re rest :
  tok_part_gen uf zf pu base0 semi want s = Some (re, rest) -> at_term semi rest = true /\ good s rest.
Proof.
  unfold tok_part_gen.
  pose proof (strto_int_good base0 s) as G1. pose proof (strtod_good s) as G2.
  destruct (strto_int base0 s) as [[neg mag] r1]. destruct (strtod_model s) as [[b rd] er]. cbn [fst snd] in *.
  generalize ((- two63 <=? (if neg then - mag else mag)) && ((if neg then - mag else mag) <? two63)).
  generalize (zf && want && ((if neg then - mag else mag) =? 0)).
  generalize (mag <? two64).
  generalize (negb er || erange_ok uf b).
  generalize (negb (pu && neg)).
  generalize (PUInt (if neg then (two64 - mag) mod two64 else mag)).
  generalize (PInt (if neg then - mag else mag)).
  intros p1 p2 b0 b1 b2 b3 b4.
  destruct b0, b1, b2, b3, b4; destruct (at_term semi r1) eqn:A1; destruct (at_term semi rd) eqn:A2;
    cbn [negb andb orb]; intros H; try discriminate; injection H as _ <-; split; assumption.
Qed.

Lemma tok_not_number_want uf zf pu base0 x : no59 x ->
  tok_to_num_gen uf zf pu base0 false false x = NotNum -> forall wr wi, tok_to_num_gen uf zf pu base0 wr wi x = NotNum.
Proof.
  intros H59 H wr wi. unfold tok_to_num_gen in *.
  destruct (tok_part_gen uf zf pu base0 true false x) as [[re rest]|] eqn:E.
  - (* a real part was read: it ended the token (no ';' in x), so the result is a number *)
    exfalso. destruct (tok_part_some _ _ _ _ _ _ _ _ _ E) as [A G].
    rewrite (at_term_suffix true x rest H59 G) in A.
    destruct rest; [discriminate | discriminate].
  - rewrite (tok_part_none_want _ _ _ _ _ _ E). reflexivity.
Qed.

(* ------------------------------------------------------------------ *)
(* carray_check *)

Lemma strto_int_index i : 0 <= i -> strto_int true (print_Z i ++ [62]) = (false, i, [62]).
Proof.
  intros Hi. unfold print_Z. replace (i <? 0) with false by (symmetry; apply Z.ltb_ge; lia).
  unfold print_unsigned. set (fuel := S (Z.to_nat (Z.log2 i))).
  assert (Hf : 0 <= i < 2 ^ Z.of_nat fuel) by (split; [assumption | apply fuel_ok; assumption]).
  destruct (Z.eq_dec i 0) as [-> | Hnz]; [reflexivity|].
  destruct (digs_head fuel i) as (d & t & E & Hd); [lia|].
  destruct (digs_spec fuel i Hf ltac:(subst fuel; lia)) as (k & Hk & _ & Hp).
  specialize (Hp 0 0 [62]).
  unfold strto_int. rewrite E in *. cbn [app skip_ws].
  replace (is_space d) with false
    by (unfold is_space; symmetry; apply orb_false_iff; split;
        [apply Z.eqb_neq; lia | apply andb_false_iff; right; apply Z.leb_gt; lia]).
  unfold split_sign.
  replace (d =? 45) with false by (symmetry; apply Z.eqb_neq; lia).
  replace (d =? 43) with false by (symmetry; apply Z.eqb_neq; lia).
  replace (d =? 48) with false by (symmetry; apply Z.eqb_neq; lia).
  cbn [andb]. cbn [app] in Hp. rewrite Hp.
  cbn [parse_base]. change (digit_val 62 <? 10) with false. cbv iota.
  replace (0 * 10 ^ k + i) with i by lia.
  replace (0 + k =? 0) with false by (symmetry; apply Z.eqb_neq; lia).
  reflexivity.
Qed.

Lemma carray_check_none x : no60 x -> carray_check x = (x, -1).
Proof.
  induction x as [|c x IH]; intros H; [reflexivity|]. cbn [carray_check].
  replace (c =? 60) with false by (symmetry; apply Z.eqb_neq; intros ->; apply H; left; reflexivity).
  rewrite IH by (intros Hin; apply H; right; exact Hin). reflexivity.
Qed.

Lemma carray_check_index x i : no60 x -> 0 <= i < 2147483648 ->
  carray_check (x ++ 60 :: print_Z i ++ [62]) = (x, i).
Proof.
  intros H Hi. induction x as [|c x IH].
  - cbn [app carray_check]. change (60 =? 60) with true. cbv iota.
    rewrite strto_int_index by lia. cbv iota beta. change (62 =? 62) with true. cbv iota.
    rewrite wrap_signed_id by (change (2 ^ (32 - 1)) with 2147483648; lia). reflexivity.
  - cbn [app carray_check].
    replace (c =? 60) with false by (symmetry; apply Z.eqb_neq; intros ->; apply H; left; reflexivity).
    rewrite IH by (intros Hin; apply H; right; exact Hin). reflexivity.
Qed.

(* ------------------------------------------------------------------ *)
(* the word written for a scalar field code is read back as that code *)

(* names the writer writes verbatim and whose characters do not interfere with
   the <n> syntax: no '<', no ';' (both are rejected by _GD_ValidateField for
   Standards Version >= 5), not empty, no leading dot, not one of r i a m *)
Definition scode_ok (c : wctx) (n : bstring) : Prop :=
  no_nul n /\ n <> [] /\ no60 n /\ no59 n /\ strip_code c n = n /\
  (forall t, input_code (rctx_of c) (n ++ t) = n ++ t).

(* the index the reader ends up with: 0 where the writer forced "<0>" *)
Definition read_index (c : wctx) (n : bstring) (i : Z) : Z :=
  if (i =? -1) && looks_numeric (w_base0 c) n then 0 else i.

Lemma ctx_base0 c : ctx_ok c -> r_base0 (rctx_of c) = w_base0 c.
Proof.
  intros H. rewrite ctx_rctx by assumption. destruct H as [Hp _].
  unfold r_base0, w_base0. rewrite Hp. reflexivity.
Qed.

Lemma word_ok_code c n i : scode_ok c n -> -1 <= i -> word_ok (code_word c n i).
Proof.
  intros (Hn & _ & _ & _ & Hs & _) Hi. unfold code_word. rewrite Hs.
  split; [discriminate|].
  constructor; [exact Hn|]. apply Forall_app. split.
  - destruct ((i =? -1) && looks_numeric (w_base0 c) n); [|constructor].
    constructor; [|constructor]. split; [apply plainb_plain; reflexivity | discriminate].
  - destruct (i =? -1); [constructor|]. change (B "<") with [60]. change (B ">") with [62]. cbn [app].
    constructor; [|constructor]. split; [|discriminate].
    constructor; [split; [lia | reflexivity]|]. apply Forall_app. split; [apply plain_print_Z|].
    constructor; [split; [lia | reflexivity] | constructor].
Qed.

(* the token and what the reader makes of it *)
Theorem scalar_code_token c n i wr wi :
  ctx_ok c -> scode_ok c n -> -1 <= i < 2147483648 ->
  tok_to_num (r_base0 (rctx_of c)) wr wi (word_tok (code_word c n i)) = NotNum /\
  carray_check (input_code (rctx_of c) (word_tok (code_word c n i))) = (n, read_index c n i).
Proof.
  intros Hc (Hn & Hne & H60 & H59 & Hs & Hin) Hi.
  unfold code_word, read_index. rewrite Hs, ctx_base0 by assumption.
  unfold word_tok. rewrite !map_app, !concat_app. cbn [map piece_tok List.concat].
  destruct (Z.eqb_spec i (-1)) as [-> | Hnz]; cbn [andb].
  - destruct (looks_numeric (w_base0 c) n) eqn:L; cbn [map piece_tok List.concat app]; rewrite ?app_nil_r.
    + (* number-like name: "<0>" was forced *)
      split.
      * apply (tok_lt_not_number _ _ _ _ _ _ n (B"0>")); assumption.
      * rewrite Hin. change (B "<0>") with (60 :: print_Z 0 ++ [62]).
        apply carray_check_index; [assumption | lia].
    + split.
      * apply tok_not_number_want; [assumption|].
        unfold looks_numeric, tok_to_num in L.
        destruct (tok_to_num_gen tok_erange_rule tok_zero_via_strtod tok_ull_positive_only (w_base0 c) false false n); congruence.
      * rewrite <- (app_nil_r n) at 1. rewrite Hin, app_nil_r. apply carray_check_none. assumption.
  - cbn [map piece_tok List.concat app].
    change (B "<") with [60]. change (B ">") with [62]. cbn [app]. rewrite !app_nil_r.
    split.
    + apply (tok_lt_not_number _ _ _ _ _ _ n (print_Z i ++ [62])); assumption.
    + rewrite Hin. apply carray_check_index; [assumption | lia].
Qed.
