From GD Require Import C12.Fs C12.FsLemmas C12.FlushProto.
Require Import ExtrOcamlBasic.
Extraction Language OCaml.
Extraction "model.ml" mf_trace mf_error mf_modified pending total_len at_fdopen new_text
  run crash lookup exists_path mkstate empty_state.
