(* General facts about the abstract filesystem (no property statements here). *)
From Coq Require Import NArith List Bool Lia.
From GD Require Import C12.Fs.
Import ListNotations.

Lemma run_app : forall a b st, run (a ++ b) st = run b (run a st).
Proof. intros; unfold run; now rewrite fold_left_app. Qed.

Lemma run_cons : forall t tr st, run (t :: tr) st = run tr (exec t st).
Proof. reflexivity. Qed.

Lemma run_nil : forall st, run [] st = st.
Proof. reflexivity. Qed.

Lemma firstn_app_le : forall A (a b : list A) j, j <= length a -> firstn j (a ++ b) = firstn j a.
Proof.
  intros. rewrite firstn_app. replace (j - length a) with 0 by lia. simpl. now rewrite app_nil_r.
Qed.

Lemma firstn_app_ge : forall A (a b : list A) j, length a <= j -> firstn j (a ++ b) = a ++ firstn (j - length a) b.
Proof.
  intros. rewrite firstn_app. now rewrite firstn_all2 by lia.
Qed.

(* ---------------------------------------------------------------- fs_wf *)

Lemma new_inode_wf : forall st d p m, fs_wf st -> names st p = None -> fs_wf (new_inode st d p m).
Proof.
  intros st d p m (Hn & Hf & Hi) Hp. unfold new_inode, fs_wf; simpl. repeat split.
  - intros q i. unfold upd. destruct (N.eqb_spec q p); intros E.
    + inversion E; lia.
    + apply Hn in E; lia.
  - intros e i. unfold upd. destruct (N.eqb_spec e d); intros E.
    + inversion E; lia.
    + apply Hf in E; lia.
  - intros q r i. unfold upd. destruct (N.eqb_spec q p), (N.eqb_spec r p); intros E1 E2; subst; auto.
    + inversion E1; subst. apply Hn in E2; lia.
    + inversion E2; subst. apply Hn in E1; lia.
    + eauto.
Qed.

Lemma exec_wf : forall t st, fs_wf st -> fs_wf (exec t st).
Proof.
  intros [s b] st W. unfold exec; simpl. destruct b.
  2:{ destruct s; simpl; auto. destruct W as (Hn & Hf & Hi). repeat split; simpl; auto.
      intros e i. unfold upd. destruct (N.eqb_spec e d); intros E; [discriminate|eauto]. }
  destruct s; simpl; auto.
  - destruct (names st p) eqn:E; auto using new_inode_wf.
  - destruct (names st p) eqn:E; auto using new_inode_wf.
    destruct W as (Hn & Hf & Hi). repeat split; simpl; auto.
    intros e j. unfold upd. destruct (N.eqb_spec e d); intros E'; [inversion E'; subst; eauto|eauto].
  - destruct (names st p) eqn:E; auto using new_inode_wf.
    destruct W as (Hn & Hf & Hi). repeat split; simpl; auto.
    intros e j. unfold upd. destruct (N.eqb_spec e d); intros E'; [inversion E'; subst; eauto|eauto].
  - destruct (fdt st d); auto.
  - destruct (fdt st d); auto.
  - destruct (fdt st d); auto.
  - destruct (fdt st d); auto.
  - destruct W as (Hn & Hf & Hi). repeat split; simpl; auto.
    intros e i. unfold upd. destruct (N.eqb_spec e d); intros E; [discriminate|eauto].
  - destruct (names st p) eqn:E; auto. destruct (N.eqb_spec p q); auto.
    destruct W as (Hn & Hf & Hi). repeat split; simpl; auto.
    + intros r j. unfold upd. destruct (N.eqb_spec r p); [discriminate|].
      destruct (N.eqb_spec r q); intros E'; [inversion E'; subst; eauto|eauto].
    + intros r s j. unfold upd.
      destruct (N.eqb_spec r p); [discriminate|]. destruct (N.eqb_spec s p); [discriminate|].
      destruct (N.eqb_spec r q), (N.eqb_spec s q); intros E1 E2; subst; auto.
      * inversion E1; subst. assert (s = p) by (eapply Hi; eauto). congruence.
      * inversion E2; subst. assert (r = p) by (eapply Hi; eauto). congruence.
      * eauto.
  - destruct W as (Hn & Hf & Hi). repeat split; simpl; auto.
    + intros r j. unfold upd. destruct (N.eqb_spec r p); [discriminate|eauto].
    + intros r s j. unfold upd. destruct (N.eqb_spec r p); [discriminate|]. destruct (N.eqb_spec s p); [discriminate|eauto].
Qed.

Lemma run_wf : forall tr st, fs_wf st -> fs_wf (run tr st).
Proof. induction tr; simpl; intros; auto. apply IHtr. now apply exec_wf. Qed.

(* ---------------------------------------------------------------- frames *)

(* steps that act only through descriptor d or on name p *)
Definition local (d : fd) (p : path) (t : tstep) : Prop :=
  match t with
  | (Write e _, _) | (PWrite e _ _, _) | (Fcntl e, _) | (Fchmod e _, _) | (Ftrunc e _, _) | (Close e, _) => e = d
  | (Unlink q, _) => q = p
  | (Rename _ _, false) => True
  | (Creat _ _ _, false) | (OpenC _ _ _, false) | (OpenT _ _ _, false) => True
  | _ => False
  end.

(* descriptor d refers (if at all) to a file only reachable through name p *)
Definition owns (d : fd) (p : path) (st : state) : Prop :=
  fs_wf st /\ forall i, fdt st d = Some i -> forall q, names st q = Some i -> q = p.

Lemma lookup_set_file_other : forall st i f q,
  (forall j, names st q = Some j -> j <> i) -> lookup (set_file st i f) q = lookup st q.
Proof.
  intros. unfold lookup, set_file; simpl. destruct (names st q) eqn:E; auto.
  rewrite upd_other; auto.
Qed.

Definition fd_only (s : step) : bool :=
  match s with Write _ _ | PWrite _ _ _ | Fcntl _ | Fchmod _ _ | Ftrunc _ _ => true | _ => false end.

Lemma fd_only_frame : forall s st, fd_only s = true ->
  names (exec_ok s st) = names st /\ fdt (exec_ok s st) = fdt st.
Proof. intros s st H; destruct s; try discriminate; simpl; try destruct (fdt st d); auto. Qed.

Lemma fd_only_lookup : forall s d p st, fd_only s = true -> local d p (s, true) -> owns d p st ->
  forall q, q <> p -> lookup (exec_ok s st) q = lookup st q.
Proof.
  intros s d p st H L (W & O) q Hq.
  destruct s; try discriminate; simpl in L; subst; simpl; auto;
    destruct (fdt st d) eqn:E; auto;
    apply lookup_set_file_other; intros j Hj Heq; subst; apply Hq; eapply O; eauto.
Qed.

Lemma local_exec : forall d p t st, owns d p st -> local d p t ->
  owns d p (exec t st) /\ (forall q, q <> p -> lookup (exec t st) q = lookup st q /\ names (exec t st) q = names st q).
Proof.
  intros d p [s b] st OW L.
  assert (W' : fs_wf (exec (s, b) st)) by (apply exec_wf; apply OW).
  destruct (fd_only s) eqn:FO.
  - destruct b.
    + destruct (fd_only_frame s st FO) as (Hn & Hf). unfold exec; simpl.
      split; [split; auto|].
      * rewrite Hn, Hf. apply OW.
      * intros q Hq. split; [eapply fd_only_lookup; eauto| now rewrite Hn].
    + unfold exec; simpl. destruct s; try discriminate; simpl; split; auto.
  - destruct OW as (W & O). destruct b; destruct s; try discriminate; simpl in L; try contradiction; subst;
      unfold exec; simpl; (split; [split; [exact W'|]|]); simpl; auto.
    + intros i Hi. rewrite upd_same in Hi. discriminate.
    + intros i Hi q. unfold upd. destruct (N.eqb_spec q p); [discriminate|]. eauto.
    + intros q Hq. unfold lookup; simpl. rewrite upd_other; auto.
    + intros i Hi. rewrite upd_same in Hi. discriminate.
Qed.

Lemma local_run : forall d p tr st, owns d p st -> Forall (local d p) tr ->
  owns d p (run tr st) /\ (forall q, q <> p -> lookup (run tr st) q = lookup st q /\ names (run tr st) q = names st q).
Proof.
  induction tr; intros st O F; simpl.
  - split; auto.
  - inversion F; subst. destruct (local_exec d p a st O H1) as (O1 & K1).
    destruct (IHtr _ O1 H2) as (O2 & K2). split; auto.
    intros q Hq. destruct (K1 q Hq), (K2 q Hq). split; congruence.
Qed.

Lemma Forall_firstn : forall A (P : A -> Prop) l j, Forall P l -> Forall P (firstn j l).
Proof.
  intros A P l. induction l; intros j F; destruct j; simpl; auto.
  inversion F; subst. constructor; auto.
Qed.

(* writes through a descriptor append to the file it refers to *)
Definition wr (d : fd) (cs : list content) : list step := map (fun c => Write d c) cs.

Lemma run_writes : forall d cs st i,
  fdt st d = Some i ->
  names (run (map ok (wr d cs)) st) = names st /\
  fdt (run (map ok (wr d cs)) st) = fdt st /\
  nexti (run (map ok (wr d cs)) st) = nexti st /\
  fdata (inodes (run (map ok (wr d cs)) st) i) = fdata (inodes st i) ++ concat cs /\
  fmode (inodes (run (map ok (wr d cs)) st) i) = fmode (inodes st i).
Proof.
  induction cs; intros st i Hd.
  - simpl. rewrite app_nil_r. repeat split; auto.
  - simpl wr. simpl map. rewrite run_cons.
    assert (E : exec (ok (Write d a)) st = set_file st i (mkfile (fdata (inodes st i) ++ a) (fmode (inodes st i)))).
    { unfold exec; simpl. now rewrite Hd. }
    rewrite E. set (st1 := set_file st i _).
    assert (Hd1 : fdt st1 d = Some i) by exact Hd.
    destruct (IHcs st1 i Hd1) as (A & B & C & D & F).
    fold (wr d cs).
    repeat split.
    + rewrite A. reflexivity.
    + rewrite B. reflexivity.
    + rewrite C. reflexivity.
    + rewrite D. unfold st1; simpl. rewrite upd_same; simpl. now rewrite app_assoc.
    + rewrite F. unfold st1; simpl. now rewrite upd_same.
Qed.
