(* Abstract POSIX filesystem + descriptor table shared by C12 / C14 / C18.

   names  : path  -> option inode     (directory entries; no hard links are created)
   inodes : inode -> file             (content + mode)
   fdt    : fd    -> option inode     (the process's descriptor table; lost on kill)

   A protocol is a list of *tagged* steps (step, ok?).  A step tagged `false`
   is a system call that failed (fault injection): it has no effect on the
   filesystem, except that a failing close still releases the descriptor.
   A crash (process kill) after k calls leaves the filesystem of
   `run (firstn k trace) st`; the descriptor table is gone, the page cache is
   assumed to survive (the code never relies on fsync for this property). *)
From Coq Require Import NArith List Bool Lia.
Import ListNotations.

Definition path := N.
Definition inode := N.
Definition fd := N.
Definition content := list N.          (* bytes *)

Record file := mkfile { fdata : content; fmode : N }.

Record state := mkst {
  names : path -> option inode;
  inodes : inode -> file;
  nexti : inode;                        (* allocation counter: every inode in use is below it *)
  fdt : fd -> option inode }.

Definition upd {A} (m : N -> A) (k : N) (v : A) : N -> A :=
  fun x => if N.eqb x k then v else m x.

Arguments upd : simpl never.

Lemma upd_same : forall A (m : N -> A) k v, upd m k v k = v.
Proof. intros; unfold upd; now rewrite N.eqb_refl. Qed.

Lemma upd_other : forall A (m : N -> A) k v x, x <> k -> upd m k v x = m x.
Proof. intros; unfold upd. destruct (N.eqb_spec x k); congruence. Qed.

Inductive step :=
| Creat (d : fd) (p : path) (m : N)        (* open(O_CREAT|O_EXCL|O_RDWR) *)
| OpenC (d : fd) (p : path) (m : N)        (* open(O_CREAT|O_RDWR): open, creating when absent *)
| OpenT (d : fd) (p : path) (m : N)        (* open(O_CREAT|O_TRUNC|O_RDWR) *)
| Write (d : fd) (c : content)             (* write at end of file *)
| PWrite (d : fd) (off : N) (c : content)  (* overwrite / extend at offset *)
| Fcntl (d : fd)                           (* any call without effect on the filesystem (fcntl, fstat, lseek, read) *)
| Fchmod (d : fd) (m : N)
| Ftrunc (d : fd) (len : N)
| Close (d : fd)
| Rename (p q : path)
| Unlink (p : path).

Definition tstep := (step * bool)%type.
Definition ok (s : step) : tstep := (s, true).
Definition bad (s : step) : tstep := (s, false).

Definition set_file (st : state) (i : inode) (f : file) : state :=
  mkst (names st) (upd (inodes st) i f) (nexti st) (fdt st).

Fixpoint overwrite (old : content) (off : nat) (c : content) : content :=
  match off with
  | O => c ++ skipn (length c) old
  | S o => match old with
           | [] => 0%N :: overwrite [] o c
           | b :: r => b :: overwrite r o c
           end
  end.

Definition new_inode (st : state) (d : fd) (p : path) (m : N) : state :=
  mkst (upd (names st) p (Some (nexti st)))
       (upd (inodes st) (nexti st) (mkfile [] m))
       (N.succ (nexti st))
       (upd (fdt st) d (Some (nexti st))).

Definition exec_ok (s : step) (st : state) : state :=
  match s with
  | Creat d p m =>
      match names st p with
      | Some _ => st                                   (* EEXIST *)
      | None => new_inode st d p m
      end
  | OpenC d p m =>
      match names st p with
      | Some i => mkst (names st) (inodes st) (nexti st) (upd (fdt st) d (Some i))
      | None => new_inode st d p m
      end
  | OpenT d p m =>
      match names st p with
      | Some i => mkst (names st) (upd (inodes st) i (mkfile [] (fmode (inodes st i)))) (nexti st) (upd (fdt st) d (Some i))
      | None => new_inode st d p m
      end
  | Write d c =>
      match fdt st d with
      | Some i => set_file st i (mkfile (fdata (inodes st i) ++ c) (fmode (inodes st i)))
      | None => st
      end
  | PWrite d off c =>
      match fdt st d with
      | Some i => set_file st i (mkfile (overwrite (fdata (inodes st i)) (N.to_nat off) c) (fmode (inodes st i)))
      | None => st
      end
  | Fcntl d => st
  | Fchmod d m =>
      match fdt st d with
      | Some i => set_file st i (mkfile (fdata (inodes st i)) m)
      | None => st
      end
  | Ftrunc d len =>
      match fdt st d with
      | Some i => set_file st i (mkfile (firstn (N.to_nat len) (fdata (inodes st i))) (fmode (inodes st i)))
      | None => st
      end
  | Close d => mkst (names st) (inodes st) (nexti st) (upd (fdt st) d None)
  | Rename p q =>
      match names st p with
      | Some i => if N.eqb p q then st
                  else mkst (upd (upd (names st) q (Some i)) p None) (inodes st) (nexti st) (fdt st)
      | None => st                                     (* ENOENT *)
      end
  | Unlink p => mkst (upd (names st) p None) (inodes st) (nexti st) (fdt st)
  end.

(* a failing call: nothing happens, but close(2) releases the descriptor even
   when it reports an error (Linux) *)
Definition exec_err (s : step) (st : state) : state :=
  match s with
  | Close d => mkst (names st) (inodes st) (nexti st) (upd (fdt st) d None)
  | _ => st
  end.

Definition exec (t : tstep) (st : state) : state :=
  if snd t then exec_ok (fst t) st else exec_err (fst t) st.

Definition run (tr : list tstep) (st : state) : state := fold_left (fun s t => exec t s) tr st.

(* what an observer that opens path p sees *)
Definition lookup (st : state) (p : path) : option content :=
  match names st p with
  | Some i => Some (fdata (inodes st i))
  | None => None
  end.

Definition exists_path (st : state) (p : path) : bool :=
  match names st p with Some _ => true | None => false end.

(* the state a kill after k calls leaves behind *)
Definition crash (tr : list tstep) (k : nat) (st : state) : state := run (firstn k tr) st.

(* well-formedness: every inode reachable from a name or a descriptor is
   below the allocation counter, and no two names share an inode *)
Definition fs_wf (st : state) : Prop :=
  (forall p i, names st p = Some i -> (i < nexti st)%N) /\
  (forall d i, fdt st d = Some i -> (i < nexti st)%N) /\
  (forall p q i, names st p = Some i -> names st q = Some i -> p = q).
