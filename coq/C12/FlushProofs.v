(* Lemmas about the flush protocol (C12). *)
From Coq Require Import NArith Arith List Bool Lia.
From GD Require Import C12.Fs C12.FsLemmas C12.FlushProto.
Import ListNotations.

Lemma lookup_none : forall st p, lookup st p = None <-> names st p = None.
Proof. intros; unfold lookup; destruct (names st p); split; congruence. Qed.

Section Proofs.
  Variable cl : bool.
  Variable tfd : fd.

  Notation plan := (plan cl tfd).
  Notation body := (body tfd).
  Notation body0 := (body0 tfd).
  Notation frag_trace := (frag_trace cl tfd).
  Notation mf_trace := (mf_trace cl tfd).
  Notation abort := (abort tfd).
  Notation tail_fail := (tail_fail tfd).

  (* ------------------------------------------------------------ inject *)
  Lemma inject_none : forall l, inject l None = map ok (map fst l).
  Proof. induction l as [|[s c] l]; simpl; congruence. Qed.

  Lemma inject_app : forall a b k,
    inject (a ++ b) k =
    if hit (length a) k then inject a k
    else map ok (map fst a) ++ inject b (rest (length a) k).
  Proof.
    induction a as [|[s c] a]; intros b k; simpl.
    - destruct k as [n|]; simpl; auto. destruct n; simpl; auto.
    - destruct k as [[|n]|]; simpl; auto.
      + rewrite IHa. simpl. change (S n <? S (length a)) with (n <? length a).
        destruct (n <? length a); simpl; auto.
      + rewrite IHa. simpl. reflexivity.
  Qed.

  Lemma inject_length_none : forall l, length (inject l None) = length l.
  Proof. intros; rewrite inject_none; now rewrite !map_length. Qed.

  Definition all_local (d : fd) (p : path) (x : step * list tstep) : Prop :=
    local d p (ok (fst x)) /\ local d p (bad (fst x)) /\ Forall (local d p) (snd x).

  Lemma inject_local : forall d p l k, Forall (all_local d p) l -> Forall (local d p) (inject l k).
  Proof.
    induction l as [|[s c] l]; intros k F; simpl; auto.
    inversion F as [|x y (A & B & C) F']; subst; simpl in *.
    destruct k as [[|n]|]; constructor; auto.
  Qed.

  Lemma oks_local : forall d p l, Forall (all_local d p) l -> Forall (local d p) (map ok (map fst l)).
  Proof. intros. rewrite <- inject_none. now apply inject_local. Qed.

  (* ------------------------------------------------------------ locality of the plan *)
  Lemma wr_local : forall p cs, Forall (local tfd p) (map ok (wr tfd cs)).
  Proof. induction cs; simpl; constructor; simpl; auto. Qed.

  Lemma abort_local : forall f, Forall (local tfd (ftmp f)) (abort f).
  Proof. intros; unfold abort; repeat constructor. Qed.

  Lemma tail_fail_local : forall f, Forall (local tfd (ftmp f)) (tail_fail f).
  Proof.
    intros; unfold tail_fail. apply Forall_app; split; [|apply abort_local].
    induction (fextra f) as [|o l IH]; simpl; constructor; auto. destruct o; simpl; auto.
  Qed.

  Lemma writes_all_local : forall f cs,
    Forall (all_local tfd (ftmp f)) (map (fun c => (Write tfd c, tail_fail f)) cs).
  Proof.
    induction cs; simpl; constructor; auto. repeat split; simpl; auto. apply tail_fail_local.
  Qed.

  Lemma body0_local : forall f, Forall (all_local tfd (ftmp f)) (body0 f).
  Proof.
    intros. unfold body0. apply Forall_app; split; [apply writes_all_local|].
    constructor.
    - repeat split; simpl; auto. apply Forall_app; split; [apply wr_local|apply abort_local].
    - apply Forall_app; split; [apply writes_all_local|].
      constructor; [|constructor]. repeat split; simpl; auto. repeat constructor.
  Qed.

  Lemma fcntl_local : forall f, all_local tfd (ftmp f) (Fcntl tfd, if cl then abort f else []).
  Proof. intros; repeat split; simpl; auto. destruct cl; [apply abort_local|constructor]. Qed.

  Lemma last_local_err : forall f, all_local tfd (ftmp f) (last_entry f true).
  Proof. intros; repeat split; simpl; auto. Qed.

  (* ------------------------------------------------------------ creation of the temporary file *)
  Lemma creat_fresh : forall st d p m, fs_wf st -> names st p = None ->
    let st1 := exec (ok (Creat d p m)) st in
    owns d p st1 /\ fdt st1 d = Some (nexti st) /\ names st1 p = Some (nexti st) /\
    fdata (inodes st1 (nexti st)) = [] /\
    (forall q, q <> p -> lookup st1 q = lookup st q /\ names st1 q = names st q).
  Proof.
    intros st d p m W Hp st1.
    assert (E : st1 = new_inode st d p m). { unfold st1, exec; simpl. now rewrite Hp. }
    assert (W1 : fs_wf st1) by (apply exec_wf; auto).
    rewrite E in *. clear E st1.
    split; [split; [exact W1|]|split; [|split; [|split]]].
    - simpl. intros i Hi q Hq. rewrite upd_same in Hi. inversion Hi; subst.
      revert Hq. unfold upd. destruct (N.eqb_spec q p); auto. intros Hq.
      destruct W as (Hn & _). apply Hn in Hq. lia.
    - simpl. apply upd_same.
    - simpl. apply upd_same.
    - simpl. rewrite upd_same. reflexivity.
    - intros q Hq. split.
      + unfold lookup; simpl. rewrite upd_other by auto. destruct (names st q) eqn:Eq; auto.
        rewrite upd_other; auto. destruct W as (Hn & _). apply Hn in Eq. lia.
      + simpl. now rewrite upd_other.
  Qed.

  (* the complete success path up to and including close *)
  Definition spath (f : frag) : list tstep :=
    map ok (Fcntl tfd :: map fst (body0 f)).

  Lemma body0_fst : forall f,
    map fst (body0 f) = wr tfd (fpre f) ++ Fchmod tfd (fperm f) :: wr tfd (fpost f) ++ [Close tfd].
  Proof.
    intros. unfold body0, wr. rewrite map_app. simpl. rewrite map_app. simpl.
    rewrite !map_map. simpl. reflexivity.
  Qed.

  Lemma spath_content : forall f st i,
    fdt st tfd = Some i -> fdata (inodes st i) = [] ->
    names (run (spath f) st) = names st /\ fdata (inodes (run (spath f) st) i) = new_text f.
  Proof.
    intros f st i Hd H0. unfold spath. rewrite body0_fst.
    simpl map. rewrite run_cons. change (exec (ok (Fcntl tfd)) st) with st.
    rewrite map_app, run_app.
    destruct (run_writes tfd (fpre f) st i Hd) as (A1 & B1 & _ & D1 & _).
    set (s1 := run (map ok (wr tfd (fpre f))) st) in *.
    simpl map. rewrite run_cons.
    assert (B1' : fdt s1 tfd = Some i) by (rewrite B1; auto).
    set (s2 := exec (ok (Fchmod tfd (fperm f))) s1).
    assert (E2 : s2 = set_file s1 i (mkfile (fdata (inodes s1 i)) (fperm f))).
    { unfold s2, exec; simpl. now rewrite B1'. }
    assert (B2 : fdt s2 tfd = Some i) by (rewrite E2; exact B1').
    rewrite map_app, run_app.
    destruct (run_writes tfd (fpost f) s2 i B2) as (A3 & B3 & _ & D3 & _).
    set (s3 := run (map ok (wr tfd (fpost f))) s2) in *.
    simpl. unfold exec; simpl. split.
    - rewrite A3, E2. simpl. exact A1.
    - rewrite D3, E2. simpl. rewrite upd_same. simpl. rewrite D1, H0. simpl.
      unfold new_text. now rewrite concat_app.
  Qed.

  Lemma rename_exec : forall st p q i, names st p = Some i -> p <> q ->
    lookup (exec (ok (Rename p q)) st) q = Some (fdata (inodes st i)) /\
    lookup (exec (ok (Rename p q)) st) p = None /\
    (forall r, r <> p -> r <> q -> lookup (exec (ok (Rename p q)) st) r = lookup st r).
  Proof.
    intros st p q i Hp Hpq. unfold exec; simpl. rewrite Hp.
    destruct (N.eqb_spec p q); [contradiction|].
    unfold lookup; simpl. repeat split.
    - rewrite upd_other by auto. now rewrite upd_same.
    - now rewrite upd_same.
    - intros r H1 H2. now rewrite !upd_other by auto.
  Qed.

  Definition mflag (f : frag) (e : bool) (k : option nat) : bool := e || hit (plan_len f) k.

  Definition fentry (f : frag) : step * list tstep := (Fcntl tfd, if cl then abort f else []).
  Definition apart (f : frag) : list (step * list tstep) := fentry f :: body0 f.

  Lemma apart_local : forall f, Forall (all_local tfd (ftmp f)) (apart f).
  Proof. intros; constructor; [apply fcntl_local|apply body0_local]. Qed.

  Lemma apart_length : forall f, length (apart f) + 2 = plan_len f.
  Proof.
    intros. unfold apart, body0, plan_len. simpl. rewrite app_length. simpl.
    rewrite app_length, !map_length. simpl. lia.
  Qed.

  Lemma spath_eq : forall f, spath f = map ok (map fst (apart f)).
  Proof. reflexivity. Qed.

  Lemma spath_local : forall f, Forall (local tfd (ftmp f)) (spath f).
  Proof. intros; rewrite spath_eq; apply oks_local, apart_local. Qed.

  Lemma plan_eq : forall f e, plan f e = (Creat tfd (ftmp f) 438%N, []) :: (apart f ++ [last_entry f e]).
  Proof. reflexivity. Qed.

  Arguments apart : simpl never.

  (* what follows the successful creat *)
  Lemma tail_cases : forall f e k',
    let T := inject (apart f ++ [last_entry f e]) k' in
    (Forall (local tfd (ftmp f)) T /\ e || hit (length (apart f) + 1) k' = true) \/
    (e = false /\ hit (length (apart f) + 1) k' = false /\
     T = spath f ++ [ok (Rename (ftmp f) (fpath f))]).
  Proof.
    intros f e k' T. unfold T. rewrite inject_app.
    destruct (hit (length (apart f)) k') eqn:H.
    - left. split; [apply inject_local, apart_local|].
      destruct k' as [n|]; unfold hit in *; [|discriminate].
      apply Nat.ltb_lt in H. replace (n <? length (apart f) + 1) with true; [apply orb_true_r|].
      symmetry; apply Nat.ltb_lt; lia.
    - destruct e.
      + left. split; auto. apply Forall_app; split; [apply oks_local, apart_local|].
        generalize (rest (length (apart f)) k'). intros r.
        destruct r as [[|m]|]; simpl; repeat constructor.
      + destruct k' as [n|]; unfold hit, rest in *.
        * rewrite H. apply Nat.ltb_ge in H.
          destruct (n - length (apart f)) as [|m] eqn:Hm.
          -- left. split.
             ++ apply Forall_app; split; [apply oks_local, apart_local|]. repeat constructor.
             ++ apply Nat.ltb_lt. lia.
          -- right. split; [reflexivity|]. split; [apply Nat.ltb_ge; lia|now rewrite spath_eq].
        * right. split; [reflexivity|]. split; [reflexivity|now rewrite spath_eq].
  Qed.

  Lemma after_creat : forall f e k' j st st1,
    fs_wf st -> names st (ftmp f) = None -> ftmp f <> fpath f ->
    st1 = exec (ok (Creat tfd (ftmp f) 438%N)) st ->
    let T := inject (apart f ++ [last_entry f e]) k' in
    let m := e || hit (length (apart f) + 1) k' in
    let st' := run (firstn j T) st1 in
    (forall q, q <> ftmp f -> q <> fpath f -> lookup st' q = lookup st q) /\
    (lookup st' (fpath f) = lookup st (fpath f) \/
       (m = false /\ lookup st' (fpath f) = Some (new_text f))) /\
    (m = true -> lookup st' (fpath f) = lookup st (fpath f)) /\
    (m = false -> length T <= j -> lookup st' (fpath f) = Some (new_text f)).
  Proof.
    intros f e k' j st st1 W Hn Hd E1 T m st'.
    destruct (creat_fresh st tfd (ftmp f) 438%N W Hn) as (O1 & F1 & N1 & D1 & K1).
    rewrite <- E1 in *.
    destruct (tail_cases f e k') as [(L & M) | (He & M & ET)]; fold T in L || fold T in ET; fold m in M.
    - (* every call is local to the temporary file *)
      destruct (local_run tfd (ftmp f) (firstn j T) st1 O1 (Forall_firstn _ _ _ j L)) as (_ & K2).
      assert (Q : forall q, q <> ftmp f -> lookup st' q = lookup st q).
      { intros q Hq. destruct (K2 q Hq) as (A & _). destruct (K1 q Hq) as (B & _). unfold st'. congruence. }
      split; [intros; auto|]. split; [left; apply Q; auto|]. split; [intros; apply Q; auto|].
      intros C; congruence.
    - (* the success path *)
      assert (Mf : m = false) by (unfold m; rewrite He, M; reflexivity).
      assert (LS : length T = length (spath f) + 1) by (rewrite ET, app_length; simpl; lia).
      destruct (Nat.le_gt_cases j (length (spath f))) as [Hj | Hj].
      + assert (EF : firstn j T = firstn j (spath f)) by (rewrite ET; apply firstn_app_le; auto).
        destruct (local_run tfd (ftmp f) (firstn j (spath f)) st1 O1 (Forall_firstn _ _ _ j (spath_local f))) as (_ & K2).
        assert (Q : forall q, q <> ftmp f -> lookup st' q = lookup st q).
        { intros q Hq. destruct (K2 q Hq) as (A & _). destruct (K1 q Hq) as (B & _). unfold st'. rewrite EF. congruence. }
        split; [intros; auto|]. split; [left; apply Q; auto|]. split; [intros; apply Q; auto|].
        intros _ C. lia.
      + assert (EF : firstn j T = T) by (apply firstn_all2; lia).
        destruct (local_run tfd (ftmp f) (spath f) st1 O1 (spath_local f)) as (_ & K2).
        destruct (spath_content f st1 (nexti st) F1 D1) as (SN & SD).
        set (s2 := run (spath f) st1) in *.
        assert (N2 : names s2 (ftmp f) = Some (nexti st)) by (rewrite SN; auto).
        destruct (rename_exec s2 (ftmp f) (fpath f) (nexti st) N2 Hd) as (R1 & R2 & R3).
        assert (ES : st' = exec (ok (Rename (ftmp f) (fpath f))) s2).
        { unfold st'. rewrite EF, ET, run_app. reflexivity. }
        assert (NEW : lookup st' (fpath f) = Some (new_text f)) by (rewrite ES, R1, SD; reflexivity).
        split.
        { intros q H1 H2. rewrite ES, (R3 q H1 H2). destruct (K2 q H1) as (A & _). destruct (K1 q H1) as (B & _). congruence. }
        split; [right; auto|]. split; [intros C; congruence|auto].
  Qed.

  Lemma frag_trace_length_pos : forall f e k, 1 <= length (frag_trace f e k).
  Proof. intros. unfold frag_trace. rewrite plan_eq. destruct k as [[|n]|]; simpl; lia. Qed.

  Lemma frag_prefix : forall f e k j st,
    fs_wf st -> names st (ftmp f) = None -> ftmp f <> fpath f ->
    let st' := run (firstn j (frag_trace f e k)) st in
    fs_wf st' /\
    (forall q, q <> ftmp f -> q <> fpath f -> lookup st' q = lookup st q) /\
    (lookup st' (fpath f) = lookup st (fpath f) \/
       (mflag f e k = false /\ lookup st' (fpath f) = Some (new_text f))) /\
    (mflag f e k = true -> lookup st' (fpath f) = lookup st (fpath f)) /\
    (mflag f e k = false -> length (frag_trace f e k) <= j -> lookup st' (fpath f) = Some (new_text f)).
  Proof.
    intros f e k j st W Hn Hd st'.
    split; [apply run_wf; auto|].
    assert (LP := frag_trace_length_pos f e k).
    unfold st', frag_trace in *. rewrite plan_eq in *. clear st'.
    assert (PL := apart_length f).
    destruct k as [[|n]|].
    - (* creat fails *)
      assert (E : forall j, run (firstn j (inject ((Creat tfd (ftmp f) 438%N, []) :: apart f ++ [last_entry f e]) (Some 0))) st = st).
      { intros [|[|j']]; reflexivity. }
      rewrite E. unfold mflag, hit. replace (0 <? plan_len f) with true by (symmetry; apply Nat.ltb_lt; lia).
      rewrite orb_true_r. repeat split; auto. discriminate.
    - (* creat succeeds, a later call fails *)
      change (inject ((Creat tfd (ftmp f) 438%N, []) :: apart f ++ [last_entry f e]) (Some (S n)))
        with (ok (Creat tfd (ftmp f) 438%N) :: inject (apart f ++ [last_entry f e]) (Some n)) in *.
      assert (MF : mflag f e (Some (S n)) = e || hit (length (apart f) + 1) (Some n)).
      { unfold mflag, hit. f_equal. rewrite <- PL.
        destruct (Nat.ltb_spec (S n) (length (apart f) + 2)), (Nat.ltb_spec n (length (apart f) + 1)); auto; lia. }
      rewrite MF.
      destruct j as [|j].
      + simpl firstn. simpl run. repeat split; auto. intros M L; exfalso; clear - L; cbn [length] in L; lia.
      + simpl firstn. rewrite run_cons.
        destruct (after_creat f e (Some n) j st _ W Hn Hd eq_refl) as (A & B & C & D).
        repeat split; auto. intros M L. apply D; auto. clear - L. cbn [length] in L. lia.
    - change (inject ((Creat tfd (ftmp f) 438%N, []) :: apart f ++ [last_entry f e]) None)
        with (ok (Creat tfd (ftmp f) 438%N) :: inject (apart f ++ [last_entry f e]) None) in *.
      assert (MF : mflag f e None = e || hit (length (apart f) + 1) None) by reflexivity.
      rewrite MF.
      destruct j as [|j].
      + simpl firstn. simpl run. repeat split; auto. intros M L; exfalso; clear - L; cbn [length] in L; lia.
      + simpl firstn. rewrite run_cons.
        destruct (after_creat f e None j st _ W Hn Hd eq_refl) as (A & B & C & D).
        repeat split; auto. intros M L. apply D; auto. clear - L. cbn [length] in L. lia.
  Qed.

  (* ------------------------------------------------------------ the temporary file is gone afterwards *)
  Definition ends (p q : path) (tr : list tstep) : Prop :=
    exists tr', tr = tr' ++ [ok (Unlink p)] \/ tr = tr' ++ [ok (Rename p q)].

  Lemma ends_names : forall p q tr st, p <> q -> ends p q tr -> names (run tr st) p = None.
  Proof.
    intros p q tr st Hpq (tr' & [E | E]); subst; rewrite run_app; simpl; unfold exec; simpl.
    - apply upd_same.
    - destruct (names (run tr' st) p) eqn:N; auto.
      destruct (N.eqb_spec p q); [contradiction|]. simpl. apply upd_same.
  Qed.

  Lemma ends_cons : forall p q x tr, ends p q tr -> ends p q (x :: tr).
  Proof. intros p q x tr (tr' & [E | E]); subst; exists (x :: tr'); auto. Qed.

  Lemma ends_app : forall p q a tr, ends p q tr -> ends p q (a ++ tr).
  Proof. intros p q a tr (tr' & [E | E]); subst; exists (a ++ tr'); rewrite app_assoc; auto. Qed.

  Lemma ends_unlink : forall p q, ends p q [ok (Unlink p)].
  Proof. intros; exists []; auto. Qed.

  Lemma inject_ends : forall p q l0 s c k,
    Forall (fun x => ends p q (snd x)) l0 -> ends p q c -> ends p q [ok s] ->
    ends p q (inject (l0 ++ [(s, c)]) k).
  Proof.
    induction l0 as [|[s0 c0] l0]; intros s c k F Hc Hs; simpl.
    - destruct k as [[|n]|]; auto. now apply ends_cons.
    - inversion F; subst; simpl in *.
      destruct k as [[|n]|]; apply ends_cons; auto.
  Qed.

  Lemma inject_ends_none : forall p q l0 s c, ends p q [ok s] -> ends p q (inject (l0 ++ [(s, c)]) None).
  Proof.
    intros. rewrite inject_none, !map_app. simpl. apply ends_app. auto.
  Qed.

  Lemma abort_ends : forall f, ends (ftmp f) (fpath f) (abort f).
  Proof. intros. exists [ok (Close tfd)]. auto. Qed.

  Lemma tail_fail_ends : forall f, ends (ftmp f) (fpath f) (tail_fail f).
  Proof. intros. apply ends_app, abort_ends. Qed.

  Lemma body0_ends : forall f, Forall (fun x => ends (ftmp f) (fpath f) (snd x)) (body0 f).
  Proof.
    intros. unfold body0.
    assert (Wr : forall cs, Forall (fun x => ends (ftmp f) (fpath f) (snd x)) (map (fun c => (Write tfd c, tail_fail f)) cs)).
    { induction cs; simpl; constructor; auto. apply tail_fail_ends. }
    apply Forall_app; split; auto. constructor; [simpl; apply ends_app, abort_ends|].
    apply Forall_app; split; auto. constructor; [simpl; apply ends_unlink|constructor].
  Qed.

  Lemma frag_tmp_gone : forall f e k st,
    names st (ftmp f) = None -> ftmp f <> fpath f ->
    (e = true -> k = None) -> (cl = true \/ k <> Some 1) ->
    names (run (frag_trace f e k) st) (ftmp f) = None.
  Proof.
    intros f e k st Hn Hd He Hc.
    unfold frag_trace, plan.
    destruct k as [[|[|n]]|].
    - assumption.
    - destruct Hc as [Hc | Hc]; [|congruence]. rewrite Hc.
      apply ends_names with (q := fpath f); auto. simpl.
      apply ends_cons, ends_cons, abort_ends.
    - apply ends_names with (q := fpath f); auto. simpl.
      apply ends_cons, ends_cons. unfold body.
      destruct e; [specialize (He eq_refl); discriminate|].
      apply inject_ends; [apply body0_ends|apply ends_unlink|]. exists []; auto.
    - apply ends_names with (q := fpath f); auto. simpl.
      apply ends_cons, ends_cons. unfold body. apply inject_ends_none.
      destruct e; exists []; auto.
  Qed.

  (* ------------------------------------------------------------ several fragments *)
  Definition scen_ok (frs : list frag) (st : state) : Prop :=
    fs_wf st /\ NoDup (map fpath frs) /\ NoDup (map ftmp frs) /\
    (forall f, In f frs -> lookup st (ftmp f) = None) /\
    (forall f g, In f frs -> In g frs -> ftmp f <> fpath g).

  Definition all_old (frs : list frag) (st0 st' : state) : Prop :=
    forall g, In g frs -> lookup st' (fpath g) = lookup st0 (fpath g).

  (* new* old* : the fragments already replaced form a prefix *)
  Fixpoint shape (frs : list frag) (st0 st' : state) : Prop :=
    match frs with
    | [] => True
    | f :: r => (lookup st' (fpath f) = Some (new_text f) /\ shape r st0 st') \/ all_old (f :: r) st0 st'
    end.

  Definition untouched (frs : list frag) (st0 st' : state) : Prop :=
    forall q, (forall f, In f frs -> q <> ftmp f /\ q <> fpath f) -> lookup st' q = lookup st0 q.

  Lemma all_old_shape : forall r st0 st', all_old r st0 st' -> shape r st0 st'.
  Proof. destruct r; simpl; auto. Qed.

  Lemma all_old_ext : forall r a b st', (forall g, In g r -> lookup a (fpath g) = lookup b (fpath g)) ->
    all_old r a st' -> all_old r b st'.
  Proof. intros r a b st' H O g Hg. rewrite (O g Hg). auto. Qed.

  Lemma shape_ext : forall r a b st', (forall g, In g r -> lookup a (fpath g) = lookup b (fpath g)) ->
    shape r a st' -> shape r b st'.
  Proof.
    induction r; simpl; auto. intros x y st' H [[N S] | O].
    - left; split; auto. eapply IHr; eauto.
    - right. eapply all_old_ext; eauto.
  Qed.

  Lemma scen_ok_inv : forall f r st, scen_ok (f :: r) st ->
    fs_wf st /\ names st (ftmp f) = None /\ ftmp f <> fpath f /\
    (forall g, In g r -> fpath g <> ftmp f /\ fpath g <> fpath f /\ ftmp g <> ftmp f /\ ftmp g <> fpath f).
  Proof.
    intros f r st (W & ND1 & ND2 & T & X). simpl in *.
    inversion ND1; inversion ND2; subst.
    split; [exact W|]. split; [apply lookup_none, T; auto|]. split; [apply X; auto|].
    intros g Hg. split; [|split; [|split]].
    - intros E. apply (X f g); auto.
    - intros E. apply H1. rewrite <- E. now apply in_map.
    - intros E. apply H5. rewrite <- E. now apply in_map.
    - apply X; auto.
  Qed.

  Lemma scen_ok_tail : forall f r st st1, scen_ok (f :: r) st -> fs_wf st1 ->
    (forall q, q <> ftmp f -> q <> fpath f -> lookup st1 q = lookup st q) ->
    scen_ok r st1.
  Proof.
    intros f r st st1 S W1 U. destruct (scen_ok_inv _ _ _ S) as (_ & _ & _ & G).
    destruct S as (W & ND1 & ND2 & T & X). simpl in *.
    inversion ND1; inversion ND2; subst.
    split; [exact W1|]. split; [assumption|]. split; [assumption|]. split.
    - intros g Hg. destruct (G g Hg) as (_ & _ & A & B). rewrite U; auto.
    - intros a b Ha Hb. apply X; auto.
  Qed.

  Lemma mf_prefix : forall frs e k j st, scen_ok frs st ->
    let st' := run (firstn j (mf_trace frs e k)) st in
    fs_wf st' /\ untouched frs st st' /\ shape frs st st' /\ (e = true -> all_old frs st st').
  Proof.
    induction frs as [|f r IH]; intros e k j st S st'.
    - unfold st'. simpl. rewrite firstn_nil. simpl.
      destruct S as (W & _). split; [exact W|]. split; [intros q _; reflexivity|]. split; [exact I|]. intros _ g [].
    - destruct (scen_ok_inv _ _ _ S) as (W & Hn & Hd & G).
      unfold st'. simpl mf_trace. set (A := frag_trace f e k).
      fold (mflag f e k).
      destruct (Nat.le_gt_cases j (length A)) as [Hj | Hj].
      + rewrite firstn_app_le by auto.
        destruct (frag_prefix f e k j st W Hn Hd) as (W' & U & D3 & D4 & D5). fold A in W', U, D3, D4, D5.
        set (s := run (firstn j A) st) in *.
        assert (OR : all_old r st s).
        { intros g Hg. destruct (G g Hg) as (X1 & X2 & _). apply U; auto. }
        split; [exact W'|]. split; [|split].
        * intros q Hq. destruct (Hq f (or_introl eq_refl)). apply U; auto.
        * simpl. destruct D3 as [D3 | (M & D3)].
          -- right. intros g [Hg | Hg]; subst; auto.
          -- left. split; auto. now apply all_old_shape.
        * intros He. assert (M : mflag f e k = true) by (unfold mflag; rewrite He; reflexivity).
          intros g [Hg | Hg]; subst; auto.
      + rewrite firstn_app_ge by lia. rewrite run_app.
        destruct (frag_prefix f e k (length A) st W Hn Hd) as (W1 & U1 & _ & D4 & D5). fold A in W1, U1, D4, D5.
        rewrite firstn_all in W1, U1, D4, D5.
        set (st1 := run A st) in *.
        assert (S1 : scen_ok r st1) by (eapply scen_ok_tail; eauto).
        destruct (IH (mflag f e k) (rest (plan_len f) k) (j - length A) st1 S1) as (W' & U' & S' & O').
        set (s := run (firstn (j - length A) (mf_trace r (mflag f e k) (rest (plan_len f) k))) st1) in *.
        assert (F1 : lookup s (fpath f) = lookup st1 (fpath f)).
        { apply U'. intros g Hg. destruct (G g Hg) as (X1 & X2 & X3 & X4). split; congruence. }
        assert (R1 : forall g, In g r -> lookup st1 (fpath g) = lookup st (fpath g)).
        { intros g Hg. destruct (G g Hg) as (X1 & X2 & _). apply U1; auto. }
        assert (OLD : mflag f e k = true -> all_old (f :: r) st s).
        { intros M g [Hg | Hg]; subst.
          - rewrite F1. auto.
          - rewrite (O' M g Hg). auto. }
        split; [exact W'|]. split; [|split].
        * intros q Hq. destruct (Hq f (or_introl eq_refl)).
          rewrite U'; [apply U1; auto|]. intros g Hg. apply Hq. now right.
        * simpl. destruct (mflag f e k) eqn:M.
          -- right. auto.
          -- left. split; [rewrite F1; apply D5; auto|]. eapply shape_ext; eauto.
        * intros He. apply OLD. unfold mflag. rewrite He. reflexivity.
  Qed.

  Lemma plan_len_ge : forall f, 5 <= plan_len f.
  Proof. intros; unfold plan_len; lia. Qed.

  Lemma mf_complete : forall frs e k st, scen_ok frs st -> (e = true -> k = None) ->
    let st' := run (mf_trace frs e k) st in
    (forall f b, In (f, b) (combine frs (mf_modified frs e k)) ->
        lookup st' (fpath f) = if b then lookup st (fpath f) else Some (new_text f)) /\
    ((cl = true \/ forall n, k = Some n -> at_fdopen frs n = false) ->
        forall f, In f frs -> lookup st' (ftmp f) = None).
  Proof.
    induction frs as [|f r IH]; intros e k st S He st'.
    - simpl. split; intros; contradiction.
    - destruct (scen_ok_inv _ _ _ S) as (W & Hn & Hd & G).
      unfold st'. simpl mf_trace. set (A := frag_trace f e k). fold (mflag f e k).
      rewrite run_app.
      destruct (frag_prefix f e k (length A) st W Hn Hd) as (W1 & U1 & _ & D4 & D5). fold A in W1, U1, D4, D5.
      rewrite firstn_all in W1, U1, D4, D5.
      set (st1 := run A st) in *.
      assert (S1 : scen_ok r st1) by (eapply scen_ok_tail; eauto).
      assert (He' : mflag f e k = true -> rest (plan_len f) k = None).
      { unfold mflag, hit, rest. destruct k as [n|]; auto. destruct e; [specialize (He eq_refl); discriminate|].
        simpl. intros ->. reflexivity. }
      destruct (IH (mflag f e k) (rest (plan_len f) k) st1 S1 He') as (P1 & P2).
      destruct (mf_prefix r (mflag f e k) (rest (plan_len f) k)
                  (length (mf_trace r (mflag f e k) (rest (plan_len f) k))) st1 S1) as (_ & U' & _).
      rewrite firstn_all in U'.
      set (s := run (mf_trace r (mflag f e k) (rest (plan_len f) k)) st1) in *.
      assert (F1 : lookup s (fpath f) = lookup st1 (fpath f)).
      { apply U'. intros g Hg. destruct (G g Hg) as (X1 & X2 & X3 & X4). split; congruence. }
      split.
      + simpl. fold (mflag f e k). intros f0 b [E | Hin].
        * inversion E; subst. rewrite F1. destruct (mflag f0 e k) eqn:M; auto.
        * rewrite (P1 f0 b Hin). destruct b; auto.
          apply in_combine_l in Hin. destruct (G f0 Hin) as (X1 & X2 & _). apply U1; auto.
      + intros C f0 [E | Hin].
        * subst f0.
          assert (T1 : names st1 (ftmp f) = None).
          { apply frag_tmp_gone; auto. destruct C as [C | C]; auto. right. intros E.
            specialize (C 1 E). simpl in C. assert (L := plan_len_ge f).
            destruct (Nat.ltb_spec 1 (plan_len f)); [discriminate|lia]. }
          rewrite U'; [now apply lookup_none|].
          intros g Hg. destruct (G g Hg) as (X1 & X2 & X3 & X4). split; congruence.
        * apply P2; auto. destruct C as [C | C]; auto. right. intros n En.
          unfold rest in En. destruct k as [m|]; [|discriminate].
          destruct (m <? plan_len f) eqn:L; [discriminate|]. inversion En; subst.
          specialize (C m eq_refl). simpl in C. now rewrite L in C.
  Qed.

  (* ------------------------------------------------------------ return value and flags *)
  Lemma hit_add : forall a n k, hit (a + n) k = hit a k || hit n (rest a k).
  Proof.
    intros a n [m|]; simpl; auto.
    destruct (Nat.ltb_spec m a); simpl.
    - destruct (Nat.ltb_spec m (a + n)); auto; lia.
    - destruct (Nat.ltb_spec m (a + n)), (Nat.ltb_spec (m - a) n); auto; lia.
  Qed.

  Lemma mf_error_eq : forall frs e k, mf_error frs e k = e || hit (total_len frs) k.
  Proof.
    induction frs as [|f r IH]; intros e k; simpl.
    - destruct k; simpl; now rewrite orb_false_r.
    - rewrite IH, hit_add. now rewrite orb_assoc.
  Qed.

  Lemma mf_modified_length : forall frs e k, length (mf_modified frs e k) = length frs.
  Proof. induction frs; intros; simpl; auto. Qed.

  Lemma mf_modified_true : forall frs k, mf_modified frs true k = repeat true (length frs).
  Proof. induction frs; intros; simpl; auto. now rewrite IHfrs. Qed.

  Lemma mf_modified_none : forall frs, mf_modified frs false None = repeat false (length frs).
  Proof. induction frs; intros; simpl; auto. now rewrite IHfrs. Qed.

  (* index of the fragment that contains position k of the success path *)
  Fixpoint fidx (frs : list frag) (k : nat) : nat :=
    match frs with
    | [] => 0
    | f :: r => if k <? plan_len f then 0 else S (fidx r (k - plan_len f))
    end.

  Lemma mf_modified_some : forall frs k,
    mf_modified frs false (Some k) = repeat false (fidx frs k) ++ repeat true (length frs - fidx frs k).
  Proof.
    induction frs as [|f r IH]; intros k; simpl; auto.
    destruct (k <? plan_len f) eqn:L; simpl.
    - now rewrite mf_modified_true.
    - now rewrite IH.
  Qed.

  Lemma fidx_lt : forall frs k, k < total_len frs -> fidx frs k < length frs.
  Proof.
    induction frs as [|f r IH]; intros k H; simpl in *; [lia|].
    destruct (Nat.ltb_spec k (plan_len f)); [lia|]. apply -> Nat.succ_lt_mono. apply IH. lia.
  Qed.

  (* ------------------------------------------------------------ retry *)
  Lemma pending_in : forall frs m f, In f (pending frs m) -> In f frs.
  Proof.
    induction frs as [|g r IH]; intros [|b m] f H; simpl in *; try contradiction.
    destruct b; [destruct H|]; eauto.
  Qed.

  Lemma pending_true : forall frs m f, In (f, true) (combine frs m) -> In f (pending frs m).
  Proof.
    induction frs as [|g r IH]; intros [|b m] f H; simpl in *; try contradiction.
    destruct H as [E | H].
    - inversion E; subst. now left.
    - destruct b; [right|]; eauto.
  Qed.

  Lemma pending_nodup : forall (h : frag -> path) frs m, NoDup (map h frs) -> NoDup (map h (pending frs m)).
  Proof.
    induction frs as [|g r IH]; intros [|b m] H; simpl in *; try constructor.
    inversion H; subst. destruct b; auto. simpl. constructor; auto.
    intros C. apply H2. apply in_map_iff in C. destruct C as (x & E & Hx).
    apply in_map_iff. exists x. split; auto. eapply pending_in; eauto.
  Qed.

  Lemma nodup_map_inj : forall (h : frag -> path) l a b,
    NoDup (map h l) -> In a l -> In b l -> h a = h b -> a = b.
  Proof.
    induction l as [|x l IH]; intros a b ND Ha Hb E; simpl in *; [contradiction|].
    inversion ND; subst.
    destruct Ha as [Ha | Ha], Hb as [Hb | Hb]; subst; auto.
    - exfalso. apply H1. rewrite E. now apply in_map.
    - exfalso. apply H1. rewrite <- E. now apply in_map.
  Qed.

  Lemma combine_in_l : forall (frs : list frag) (m : list bool) f,
    length m = length frs -> In f frs -> exists b, In (f, b) (combine frs m).
  Proof.
    induction frs as [|g r IH]; intros [|b m] f L H; simpl in *; try contradiction; try discriminate.
    destruct H as [H | H]; subst.
    - exists b; auto.
    - destruct (IH m f) as (b' & Hb); auto. exists b'; auto.
  Qed.

  Lemma mf_retry : forall frs k st, scen_ok frs st ->
    (cl = true \/ forall n, k = Some n -> at_fdopen frs n = false) ->
    let st' := run (mf_trace frs false k) st in
    let pend := pending frs (mf_modified frs false k) in
    let st'' := run (mf_trace pend false None) st' in
    mf_error pend false None = false /\
    (forall f, In f frs -> lookup st'' (fpath f) = Some (new_text f)) /\
    (forall f, In f frs -> lookup st'' (ftmp f) = None).
  Proof.
    intros frs k st S C st' pend st''.
    assert (He : false = true -> k = None) by discriminate.
    destruct (mf_complete frs false k st S He) as (P1 & P2). fold st' in P1, P2.
    specialize (P2 C).
    destruct (mf_prefix frs false k (length (mf_trace frs false k)) st S) as (W' & U1 & _).
    rewrite firstn_all in W', U1. fold st' in W', U1.
    assert (S' : scen_ok pend st').
    { destruct S as (W & ND1 & ND2 & T & X). split; [exact W'|].
      split; [apply pending_nodup; auto|]. split; [apply pending_nodup; auto|]. split.
      - intros f Hf. apply P2. eapply pending_in; eauto.
      - intros f g Hf Hg. apply X; eapply pending_in; eauto. }
    assert (He2 : false = true -> @None nat = None) by auto.
    destruct (mf_complete pend false None st' S' He2) as (Q1 & Q2). fold st'' in Q1, Q2.
    destruct (mf_prefix pend false None (length (mf_trace pend false None)) st' S') as (_ & U2 & _).
    rewrite firstn_all in U2. fold st'' in U2.
    split; [rewrite mf_error_eq; reflexivity|].
    destruct S as (W & ND1 & ND2 & T & X).
    split.
    - intros f Hf.
      destruct (in_dec N.eq_dec (fpath f) (map fpath pend)) as [I | I].
      + apply in_map_iff in I. destruct I as (g & E & Hg).
        assert (g = f) by (apply (nodup_map_inj fpath frs g f ND1); auto; eapply pending_in; eauto). subst g.
        destruct (combine_in_l pend (mf_modified pend false None) f) as (b & Hb);
          [apply mf_modified_length|auto|].
        assert (b = false).
        { rewrite mf_modified_none in Hb. apply in_combine_r in Hb. apply repeat_spec in Hb. auto. }
        subst b. apply (Q1 f false Hb).
      + rewrite U2.
        * destruct (combine_in_l frs (mf_modified frs false k) f) as (b & Hb);
            [apply mf_modified_length|auto|].
          destruct b; [|apply (P1 f false Hb)].
          exfalso. apply I. apply in_map. now apply pending_true.
        * intros g Hg. split.
          -- intros E. apply (X g f); auto. eapply pending_in; eauto.
          -- intros E. apply I. rewrite E. now apply in_map.
    - intros f Hf.
      destruct (in_dec N.eq_dec (ftmp f) (map ftmp pend)) as [I | I].
      + apply in_map_iff in I. destruct I as (g & E & Hg). rewrite <- E. apply Q2; auto. right; intros n Hn'; discriminate.
      + rewrite U2; [apply P2; auto|].
        intros g Hg. split.
        * intros E. apply I. rewrite E. now apply in_map.
        * apply X; auto. eapply pending_in; eauto.
  Qed.
End Proofs.

Section MultiProofs.
  Variable cl : bool.
  Variable tfd : fd.
  Notation frag_trace := (frag_trace cl tfd).

  (* any number of failing calls, at most one (the first) per fragment *)
  Lemma mfm_prefix : forall frs e ks j st, scen_ok frs st ->
    let st' := run (firstn j (mfm_trace cl tfd frs e ks)) st in
    fs_wf st' /\ untouched frs st st' /\ shape frs st st' /\ (e = true -> all_old frs st st').
  Proof.
    induction frs as [|f r IH]; intros e ks j st S st'; set (k := match ks with k0 :: _ => k0 | [] => None end).
    - unfold st'. simpl. rewrite firstn_nil. simpl.
      destruct S as (W & _). split; [exact W|]. split; [intros q _; reflexivity|]. split; [exact I|]. intros _ g [].
    - destruct (scen_ok_inv _ _ _ S) as (W & Hn & Hd & G).
      unfold st'. simpl mfm_trace. fold k. set (A := frag_trace f e k).
      fold (mflag f e k).
      destruct (Nat.le_gt_cases j (length A)) as [Hj | Hj].
      + rewrite firstn_app_le by auto.
        destruct (frag_prefix cl tfd f e k j st W Hn Hd) as (W' & U & D3 & D4 & D5). fold A in W', U, D3, D4, D5.
        set (s := run (firstn j A) st) in *.
        assert (OR : all_old r st s).
        { intros g Hg. destruct (G g Hg) as (X1 & X2 & _). apply U; auto. }
        split; [exact W'|]. split; [|split].
        * intros q Hq. destruct (Hq f (or_introl eq_refl)). apply U; auto.
        * simpl. destruct D3 as [D3 | (M & D3)].
          -- right. intros g [Hg | Hg]; subst; auto.
          -- left. split; auto. now apply all_old_shape.
        * intros He. assert (M : mflag f e k = true) by (unfold mflag; rewrite He; reflexivity).
          intros g [Hg | Hg]; subst; auto.
      + rewrite firstn_app_ge by lia. rewrite run_app.
        destruct (frag_prefix cl tfd f e k (length A) st W Hn Hd) as (W1 & U1 & _ & D4 & D5). fold A in W1, U1, D4, D5.
        rewrite firstn_all in W1, U1, D4, D5.
        set (st1 := run A st) in *.
        assert (S1 : scen_ok r st1) by (eapply scen_ok_tail; eauto).
        destruct (IH (mflag f e k) (tl ks) (j - length A) st1 S1) as (W' & U' & S' & O').
        set (s := run (firstn (j - length A) (mfm_trace cl tfd r (mflag f e k) (tl ks))) st1) in *.
        assert (F1 : lookup s (fpath f) = lookup st1 (fpath f)).
        { apply U'. intros g Hg. destruct (G g Hg) as (X1 & X2 & X3 & X4). split; congruence. }
        assert (R1 : forall g, In g r -> lookup st1 (fpath g) = lookup st (fpath g)).
        { intros g Hg. destruct (G g Hg) as (X1 & X2 & _). apply U1; auto. }
        assert (OLD : mflag f e k = true -> all_old (f :: r) st s).
        { intros M g [Hg | Hg]; subst.
          - rewrite F1. auto.
          - rewrite (O' M g Hg). auto. }
        split; [exact W'|]. split; [|split].
        * intros q Hq. destruct (Hq f (or_introl eq_refl)).
          rewrite U'; [apply U1; auto|]. intros g Hg. apply Hq. now right.
        * simpl. destruct (mflag f e k) eqn:M.
          -- right. auto.
          -- left. split; [rewrite F1; apply D5; auto|]. eapply shape_ext; eauto.
        * intros He. apply OLD. unfold mflag. rewrite He. reflexivity.
  Qed.
End MultiProofs.
