(* The C12 statements, assembled from FlushProofs. *)
From Coq Require Import NArith Arith List Bool Lia.
From GD Require Import C12.Fs C12.FsLemmas C12.FlushProto C12.FlushProofs.
Import ListNotations.

(* ---------------------------------------------------------------- crash / concurrent observer *)

(* at every instant (after any number j of calls), with or without an injected
   failure k, every fragment file holds its complete old or its complete new
   text; the fragments already replaced form a prefix in index order; nothing
   else but the temporary names is touched *)
Lemma crash_shape : forall cl tfd frs k j st, scen_ok frs st ->
  let st' := crash (mf_trace cl tfd frs false k) j st in
  shape frs st st' /\ untouched frs st st'.
Proof.
  intros. destruct (mf_prefix cl tfd frs false k j st H) as (_ & U & S & _). split; auto.
Qed.

Lemma shape_each : forall frs st0 st', shape frs st0 st' ->
  forall f, In f frs -> lookup st' (fpath f) = lookup st0 (fpath f) \/ lookup st' (fpath f) = Some (new_text f).
Proof.
  induction frs as [|g r IH]; simpl; intros st0 st' S f Hf; [contradiction|].
  destruct S as [(N & S) | O].
  - destruct Hf as [-> | Hf]; auto.
  - left. apply O. exact Hf.
Qed.

Lemma crash_atomic_lemma : forall cl tfd frs k j st, scen_ok frs st ->
  forall f, In f frs ->
    lookup (crash (mf_trace cl tfd frs false k) j st) (fpath f) = lookup st (fpath f) \/
    lookup (crash (mf_trace cl tfd frs false k) j st) (fpath f) = Some (new_text f).
Proof.
  intros. destruct (crash_shape cl tfd frs k j st H) as (S & _). eapply shape_each; eauto.
Qed.

(* what a reader makes of the directory depends only on a set P of paths that
   contains no temporary name: it sees the metadata of a state in which the
   first n modified fragments are new and the others old *)
Fixpoint mix (frs : list frag) (n : nat) (old : path -> option content) : path -> option content :=
  match frs, n with
  | f :: r, S n' => fun q => if N.eqb q (fpath f) then Some (new_text f) else mix r n' old q
  | _, _ => old
  end.

Lemma shape_mix : forall frs st0 st', NoDup (map fpath frs) -> shape frs st0 st' ->
  exists n, n <= length frs /\ forall f, In f frs -> lookup st' (fpath f) = mix frs n (lookup st0) (fpath f).
Proof.
  induction frs as [|g r IH]; intros st0 st' ND S.
  - exists 0. split; auto. intros f [].
  - inversion ND; subst. simpl in S. destruct S as [(Nw & S) | O].
    + destruct (IH st0 st' H2 S) as (n & Ln & Hn). exists (Datatypes.S n). split; [simpl; lia|].
      intros f [-> | Hf]; simpl.
      * now rewrite N.eqb_refl.
      * destruct (N.eqb_spec (fpath f) (fpath g)) as [E | E].
        -- exfalso. apply H1. rewrite <- E. now apply in_map.
        -- auto.
    + exists 0. split; [lia|]. intros f Hf. simpl. now apply O.
Qed.

Lemma mix_other : forall frs n old q, (forall f, In f frs -> q <> fpath f) -> mix frs n old q = old q.
Proof.
  induction frs as [|g r IH]; intros [|n] old q H; simpl; auto.
  destruct (N.eqb_spec q (fpath g)) as [E | E]; [exfalso; apply (H g); simpl; auto|].
  apply IH. intros f Hf. apply H. now right.
Qed.

Section Reader.
  Variable M : Type.
  Variable parse : (path -> option content) -> M.
  Variable P : list path.
  Hypothesis parse_local : forall a b, (forall p, In p P -> a p = b p) -> parse a = parse b.

  Lemma reader_lemma : forall cl tfd frs k j st, scen_ok frs st ->
    (forall f, In f frs -> ~ In (ftmp f) P) ->
    exists n, n <= length frs /\
      parse (lookup (crash (mf_trace cl tfd frs false k) j st)) = parse (mix frs n (lookup st)).
  Proof.
    intros cl tfd frs k j st S HP.
    destruct (crash_shape cl tfd frs k j st S) as (Sh & U).
    assert (ND : NoDup (map fpath frs)) by apply S.
    destruct (shape_mix frs st _ ND Sh) as (n & Ln & Hn).
    exists n. split; auto. apply parse_local. intros p Hp.
    destruct (in_dec N.eq_dec p (map fpath frs)) as [I | I].
    - apply in_map_iff in I. destruct I as (f & <- & Hf). auto.
    - rewrite mix_other.
      + apply U. intros f Hf. split.
        * intros ->. apply (HP f Hf Hp).
        * intros ->. apply I. now apply in_map.
      + intros f Hf ->. apply I. now apply in_map.
  Qed.
End Reader.

(* ---------------------------------------------------------------- success *)
Lemma flush_success_lemma : forall cl tfd frs st, scen_ok frs st ->
  let st' := run (mf_trace cl tfd frs false None) st in
  mf_error frs false None = false /\
  mf_modified frs false None = repeat false (length frs) /\
  (forall f, In f frs -> lookup st' (fpath f) = Some (new_text f)) /\
  (forall f, In f frs -> lookup st' (ftmp f) = None).
Proof.
  intros cl tfd frs st S st'.
  assert (He : false = true -> @None nat = None) by auto.
  destruct (mf_complete cl tfd frs false None st S He) as (P1 & P2). fold st' in P1, P2.
  split; [rewrite mf_error_eq; reflexivity|]. split; [apply mf_modified_none|]. split.
  - intros f Hf. destruct (combine_in_l frs (mf_modified frs false None) f) as (b & Hb);
      [apply mf_modified_length|auto|].
    assert (b = false).
    { rewrite mf_modified_none in Hb. apply in_combine_r in Hb. apply repeat_spec in Hb. auto. }
    subst b. apply (P1 f false Hb).
  - apply P2. right. intros n Hn. discriminate.
Qed.

(* ---------------------------------------------------------------- failure *)
Definition fault_outcome (cl : bool) (tfd : fd) (frs : list frag) (k : nat) (st : state) : Prop :=
  let st' := run (mf_trace cl tfd frs false (Some k)) st in
  let m := mf_modified frs false (Some k) in
  let pend := pending frs m in
  let st'' := run (mf_trace cl tfd pend false None) st' in
  (* the call reports failure *)
  mf_error frs false (Some k) = true /\
  (* the fragments before the failing one are done, the failing one and all
     later ones keep their changes pending *)
  m = repeat false (fidx frs k) ++ repeat true (length frs - fidx frs k) /\ fidx frs k < length frs /\
  (* pending fragments still have their previous file, the others the new one *)
  (forall f b, In (f, b) (combine frs m) ->
     lookup st' (fpath f) = if b then lookup st (fpath f) else Some (new_text f)) /\
  (* no temporary file is left *)
  (forall f, In f frs -> lookup st' (ftmp f) = None) /\
  (* flushing again once the fault is lifted completes the job *)
  mf_error pend false None = false /\
  (forall f, In f frs -> lookup st'' (fpath f) = Some (new_text f)) /\
  (forall f, In f frs -> lookup st'' (ftmp f) = None).

Definition fault_atomic_statement (cl : bool) : Prop :=
  forall tfd frs k st, scen_ok frs st -> k < total_len frs -> fault_outcome cl tfd frs k st.

Lemma fault_atomic_general : forall cl tfd frs k st, scen_ok frs st -> k < total_len frs ->
  (cl = true \/ at_fdopen frs k = false) -> fault_outcome cl tfd frs k st.
Proof.
  intros cl tfd frs k st S Hk C. unfold fault_outcome.
  assert (C' : cl = true \/ forall n, Some k = Some n -> at_fdopen frs n = false).
  { destruct C; auto. right. intros n E. inversion E; subst; auto. }
  assert (He : false = true -> Some k = None) by discriminate.
  destruct (mf_complete cl tfd frs false (Some k) st S He) as (P1 & P2).
  destruct (mf_retry cl tfd frs (Some k) st S C') as (R1 & R2 & R3).
  split.
  { rewrite mf_error_eq. simpl. apply Nat.ltb_lt. exact Hk. }
  split; [apply mf_modified_some|]. split; [now apply fidx_lt|].
  split; [exact P1|]. split; [apply P2; exact C'|].
  split; [exact R1|]. split; [exact R2|exact R3].
Qed.

Lemma fault_atomic_fixed_lemma : fault_atomic_statement true.
Proof. intros tfd frs k st S Hk. apply fault_atomic_general; auto. Qed.

Lemma fault_atomic_partial_lemma : forall cl tfd frs k st, scen_ok frs st -> k < total_len frs ->
  at_fdopen frs k = false -> fault_outcome cl tfd frs k st.
Proof. intros. apply fault_atomic_general; auto. Qed.

(* ---------------------------------------------------------------- the defect: fdopen failure leaks the temporary file *)
Definition wit_frag : frag := mkfrag 0%N 1%N [[65%N]] [[66%N]] [] 420%N.
Definition wit_state : state := mkstate [(0%N, [79%N])] empty_state.

Lemma empty_wf : fs_wf empty_state.
Proof. repeat split; simpl; intros; discriminate. Qed.

Lemma mkstate_wf : forall files st, fs_wf st -> fs_wf (mkstate files st).
Proof.
  induction files as [|[p c] r IH]; simpl; intros st W; auto.
  apply IH. apply (exec_wf (ok (Close 0%N))). apply (exec_wf (ok (Write 0%N c))).
  apply (exec_wf (ok (Creat 0%N p 420%N))). exact W.
Qed.

Lemma wit_scen : scen_ok [wit_frag] wit_state.
Proof.
  split; [apply mkstate_wf, empty_wf|]. simpl.
  split; [repeat constructor; simpl; tauto|]. split; [repeat constructor; simpl; tauto|]. split.
  - intros f [<- | []]. reflexivity.
  - intros f g [<- | []] [<- | []]. discriminate.
Qed.

Lemma fault_atomic_refuted_lemma : ~ fault_atomic_statement false.
Proof.
  intros H. specialize (H 5%N [wit_frag] 1 wit_state wit_scen).
  assert (L : 1 < total_len [wit_frag]) by (vm_compute; lia).
  destruct (H L) as (_ & _ & _ & _ & T & _).
  specialize (T wit_frag (or_introl eq_refl)). vm_compute in T. discriminate.
Qed.

(* the hypotheses of the theorems are satisfiable *)
Lemma scenario_example : exists frs st, scen_ok frs st /\ 1 < total_len frs /\ at_fdopen frs 0 = false.
Proof. exists [wit_frag], wit_state. split; [apply wit_scen|]. split; [vm_compute; lia|reflexivity]. Qed.

(* ---------------------------------------------------------------- the EEXIST retry of _GD_MakeTempFile *)
(* open(O_CREAT|O_EXCL) failing (EEXIST: the name mktemp produced is taken) has
   no effect and the loop tries another name: a trace that contains any number
   of such failed creations in front of a fragment's calls passes through
   exactly the states of the trace without them *)
Definition failed_creats (d : fd) (names : list path) : list tstep :=
  map (fun q => bad (Creat d q 438%N)) names.

Lemma failed_creats_run : forall d names st, run (failed_creats d names) st = st.
Proof. induction names; intros; simpl; auto. Qed.

Lemma eexist_retry_lemma : forall d names tr st j,
  crash (failed_creats d names ++ tr) j st = crash tr (j - length names) st.
Proof.
  intros d names tr st j. unfold crash.
  assert (L : length (failed_creats d names) = length names) by (unfold failed_creats; apply map_length).
  destruct (Nat.le_gt_cases j (length names)) as [H | H].
  - rewrite firstn_app_le by lia. replace (j - length names) with 0 by lia. simpl.
    rewrite <- (firstn_skipn j (failed_creats d names)) at 1.
    assert (E : firstn j (failed_creats d names) = failed_creats d (firstn j names)).
    { unfold failed_creats. now rewrite firstn_map. }
    rewrite firstn_app, firstn_firstn, Nat.min_id. rewrite firstn_length.
    replace (j - Nat.min j (length (failed_creats d names))) with 0 by lia. simpl. rewrite app_nil_r.
    rewrite E. apply failed_creats_run.
  - rewrite firstn_app_ge by lia. rewrite run_app, failed_creats_run. now rewrite L.
Qed.

(* ---------------------------------------------------------------- several failing calls *)
Lemma crash_atomic_multi_lemma : forall cl tfd frs ks j st, scen_ok frs st ->
  let st' := crash (mfm_trace cl tfd frs false ks) j st in
  (forall f, In f frs -> lookup st' (fpath f) = lookup st (fpath f) \/ lookup st' (fpath f) = Some (new_text f)) /\
  shape frs st st' /\ untouched frs st st'.
Proof.
  intros cl tfd frs ks j st S st'.
  destruct (mfm_prefix cl tfd frs false ks j st S) as (_ & U & Sh & _).
  split; [|split; auto]. intros f Hf. eapply shape_each; eauto.
Qed.

(* ---------------------------------------------------------------- gd_include(GD_CREAT): a fragment file created, then flushed *)
(* gd_include creates the new fragment's file empty under its final name
   (open O_CREAT|O_EXCL, close) and the following metaflush writes the parent
   and the new fragment by the usual protocol: at every instant every fragment
   file is as before the call, as right after the creation (the new fragment:
   empty), or complete new *)
Definition include_trace (cl : bool) (tfd d : fd) (p : path) (frs : list frag) (k : option nat) : list tstep :=
  ok (Creat d p 438%N) :: ok (Close d) :: mf_trace cl tfd frs false k.

Lemma include_crash_lemma : forall cl tfd d p frs k j st,
  scen_ok frs st -> names st p = None -> (forall f, In f frs -> ftmp f <> p) ->
  let st1 := run [ok (Creat d p 438%N); ok (Close d)] st in
  lookup st1 p = Some [] /\
  (forall q, q <> p -> lookup st1 q = lookup st q) /\
  forall f, In f frs ->
    lookup (crash (include_trace cl tfd d p frs k) j st) (fpath f) = lookup st (fpath f) \/
    lookup (crash (include_trace cl tfd d p frs k) j st) (fpath f) = lookup st1 (fpath f) \/
    lookup (crash (include_trace cl tfd d p frs k) j st) (fpath f) = Some (new_text f).
Proof.
  intros cl tfd d p frs k j st SC Hn HT st1.
  assert (S' := SC). destruct S' as (W & ND1 & ND2 & T & X).
  destruct (creat_fresh st d p 438%N W Hn) as (_ & F1 & N1 & D1 & K1).
  set (sc := exec (ok (Creat d p 438%N)) st) in *.
  assert (E1 : forall q, lookup st1 q = lookup sc q) by reflexivity.
  assert (L1 : lookup st1 p = Some []).
  { rewrite E1. unfold lookup. rewrite N1, D1. reflexivity. }
  assert (K : forall q, q <> p -> lookup st1 q = lookup st q).
  { intros q Hq. rewrite E1. apply K1; auto. }
  split; [exact L1|]. split; [exact K|].
  assert (S1 : scen_ok frs st1).
  { split; [unfold st1; apply run_wf; auto|]. split; [auto|]. split; [auto|]. split; [|auto].
    intros f Hf. rewrite K; auto. }
  intros f Hf. unfold include_trace, crash.
  destruct j as [|[|j]].
  - left. reflexivity.
  - right. left. simpl. fold sc. now rewrite E1.
  - change (firstn (Datatypes.S (Datatypes.S j)) (ok (Creat d p 438%N) :: ok (Close d) :: mf_trace cl tfd frs false k))
      with (ok (Creat d p 438%N) :: ok (Close d) :: firstn j (mf_trace cl tfd frs false k)).
    rewrite !run_cons. change (exec (ok (Close d)) (exec (ok (Creat d p 438%N)) st)) with st1.
    destruct (crash_atomic_lemma cl tfd frs k j st1 S1 f Hf) as [A | A]; unfold crash in A; rewrite A; auto.
Qed.
