(* Model of _GD_FlushFragment / _GD_FlushMeta (src/flush.c) and
   _GD_MakeTempFile (src/encoding.c) as a protocol over Fs.

   For one fragment the success path is
       creat_excl tmp; fdopen; write*; fchmod; write*; close; rename tmp -> format
   (stdio decides where the text is cut into write(2) calls and how much of
   it is still buffered when fchmod is called: `fpre`/`fpost` are arbitrary).
   When an earlier fragment of the same metaflush already failed (D->error
   set) the last call is  unlink tmp  instead of the rename.
   Every call is paired with the continuation the code takes when that call
   fails; `inject` turns (plan, fault position) into the trace of calls. *)
From Coq Require Import NArith Arith List Bool Lia.
From GD Require Import C12.Fs C12.FsLemmas.
Import ListNotations.

Record frag := mkfrag {
  fpath : path;                 (* the fragment's format file *)
  ftmp : path;                  (* format_XXXXXX chosen by mktemp in the same directory *)
  fpre : list content;          (* chunks written before fchmod *)
  fpost : list content;         (* chunks written after fchmod (by fclose) *)
  fextra : list (option content); (* what still happens to the temporary file after a write error that an
                                   unchecked stdio call swallowed: further writes (Some c) and the fchmod (None);
                                   the error is then noticed by ferror/fclose *)
  fperm : N }.                  (* permission bits copied from the old file *)

Definition new_text (f : frag) : content := concat (fpre f ++ fpost f).

Section Proto.
  (* does the code clean up when fdopen fails?  (regenerated from
     src/flush.c by translate/tr_flushproto.py -> Gen.FlushShape) *)
  Variable cl : bool.
  Variable tfd : fd.

  Definition abort (f : frag) : list tstep := [ok (Close tfd); ok (Unlink (ftmp f))].
  Definition extra_step (f : frag) (o : option content) : step :=
    match o with Some c => Write tfd c | None => Fchmod tfd (fperm f) end.
  Definition tail_fail (f : frag) : list tstep := map ok (map (extra_step f) (fextra f)) ++ abort f.
  Definition commit (f : frag) (e : bool) : step :=
    if e then Unlink (ftmp f) else Rename (ftmp f) (fpath f).

  Definition body0 (f : frag) : list (step * list tstep) :=
    map (fun c => (Write tfd c, tail_fail f)) (fpre f) ++
    (Fchmod tfd (fperm f), map ok (wr tfd (fpost f)) ++ abort f) ::
    map (fun c => (Write tfd c, tail_fail f)) (fpost f) ++
    [(Close tfd, [ok (Unlink (ftmp f))])].

  Definition last_entry (f : frag) (e : bool) : step * list tstep :=
    (commit f e, if e then [] else [ok (Unlink (ftmp f))]).

  Definition body (f : frag) (e : bool) : list (step * list tstep) :=
    body0 f ++ [last_entry f e].

  Definition plan (f : frag) (e : bool) : list (step * list tstep) :=
    (Creat tfd (ftmp f) 438%N, []) ::
    (Fcntl tfd, if cl then abort f else []) ::
    body f e.

  Fixpoint inject (l : list (step * list tstep)) (k : option nat) : list tstep :=
    match l with
    | [] => []
    | (s, cont) :: r =>
        match k with
        | Some O => bad s :: cont
        | Some (S k') => ok s :: inject r (Some k')
        | None => ok s :: inject r None
        end
    end.

  Definition hit (n : nat) (k : option nat) : bool :=
    match k with Some j => j <? n | None => false end.
  Definition rest (n : nat) (k : option nat) : option nat :=
    match k with Some j => if j <? n then None else Some (j - n) | None => None end.

  Definition plan_len (f : frag) : nat := length (fpre f) + length (fpost f) + 5.

  Definition frag_trace (f : frag) (e : bool) (k : option nat) : list tstep := inject (plan f e) k.

  (* _GD_FlushMeta over the modified fragments in index order; e = D->error
     already set; k = position of the injected failure in the concatenated
     success path (None = no failure) *)
  Fixpoint mf_trace (frs : list frag) (e : bool) (k : option nat) : list tstep :=
    match frs with
    | [] => []
    | f :: r => frag_trace f e k ++ mf_trace r (e || hit (plan_len f) k) (rest (plan_len f) k)
    end.

  (* the return value: true = the call reports failure *)
  Fixpoint mf_error (frs : list frag) (e : bool) (k : option nat) : bool :=
    match frs with
    | [] => e
    | f :: r => mf_error r (e || hit (plan_len f) k) (rest (plan_len f) k)
    end.

  (* fragment[i].modified after the call *)
  Fixpoint mf_modified (frs : list frag) (e : bool) (k : option nat) : list bool :=
    match frs with
    | [] => []
    | f :: r => (e || hit (plan_len f) k) :: mf_modified r (e || hit (plan_len f) k) (rest (plan_len f) k)
    end.

  Fixpoint total_len (frs : list frag) : nat :=
    match frs with [] => 0 | f :: r => plan_len f + total_len r end.

  (* is position k the fdopen call of some fragment? *)
  Fixpoint at_fdopen (frs : list frag) (k : nat) : bool :=
    match frs with
    | [] => false
    | f :: r => if k <? plan_len f then k =? 1 else at_fdopen r (k - plan_len f)
    end.

  (* the fragments still pending after the call *)
  Fixpoint pending (frs : list frag) (m : list bool) : list frag :=
    match frs, m with
    | f :: r, b :: mr => if b then f :: pending r mr else pending r mr
    | _, _ => []
    end.
End Proto.

(* ---- observation helpers for the correspondence driver ---- *)
Definition all_below (n : N) : list N := map N.of_nat (seq 0 (N.to_nat n)).

(* initial state: the given files exist with the given contents *)
Fixpoint mkstate (files : list (path * content)) (st : state) : state :=
  match files with
  | [] => st
  | (p, c) :: r =>
      mkstate r (exec_ok (Close 0%N) (exec_ok (Write 0%N c) (exec_ok (Creat 0%N p 420%N) st)))
  end.

Definition empty_state : state := mkst (fun _ => None) (fun _ => mkfile [] 0%N) 0%N (fun _ => None).

(* ---- several failing calls: one (optional) failing position per fragment;
   the sticky D->error makes every fragment after the first failure end with
   unlink instead of rename, and a further failure there again takes that
   fragment's failure continuation ---- *)
Section Multi.
  Variable cl : bool.
  Variable tfd : fd.
  Fixpoint mfm_trace (frs : list frag) (e : bool) (ks : list (option nat)) : list tstep :=
    match frs with
    | [] => []
    | f :: r =>
        let k := match ks with k :: _ => k | [] => None end in
        frag_trace cl tfd f e k ++ mfm_trace r (e || hit (plan_len f) k) (tl ks)
    end.
  Fixpoint mfm_modified (frs : list frag) (e : bool) (ks : list (option nat)) : list bool :=
    match frs with
    | [] => []
    | f :: r =>
        let k := match ks with k :: _ => k | [] => None end in
        (e || hit (plan_len f) k) :: mfm_modified r (e || hit (plan_len f) k) (tl ks)
    end.
End Multi.
