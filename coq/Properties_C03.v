(* Property theorems for C03 -- statements only; proofs are `exact` of lemmas. *)
From Coq Require Import ZArith List Bool Lia QArith.
From GD Require Import C04.Bytes C03.Write C03.WriteProofs C03.Sie C03.SieProofs C03.SieRefine C03.Text.
Import ListNotations.
Local Open Scope nat_scope.

(* the field ends at the highest sample written *)
Theorem field_ends_at_highest_sample_written : forall (A : Type) (zero : A) a p d,
  d <> [] -> length (array_write zero a p d) = Nat.max (length a) (p + length d).
Proof. exact @array_write_length. Qed.

(* ---- unencoded files, any type, byte order (incl. ARM) and host ---- *)
Theorem raw_write_refines : forall h t s vs p d,
  Forall (wf_sample t) vs -> Forall (wf_sample t) d ->
  raw_put h t s (raw_layout h t s vs) p d = raw_layout h t s (array_write (zero_sample t) vs p d).
Proof. exact raw_put_refines. Qed.

Theorem raw_history_reads_back : forall h t s (ops : list (nat * list sample)) vs,
  Forall (wf_sample t) vs -> Forall (fun o => Forall (wf_sample t) (snd o)) ops ->
  raw_decode h t s (fold_left (fun f o => raw_put h t s f (fst o) (snd o)) ops (raw_layout h t s vs))
  = apply_writes (zero_sample t) vs ops.
Proof. exact raw_history_refines. Qed.

(* ---- gzip / bzip2 / lzma: the out-of-place protocol, any copy-buffer size >= 1 ---- *)
Theorem oop_write_refines : forall zero chunk, 1 <= chunk -> forall st p d,
  oop_ok st -> d <> [] ->
  oop_abs (oop_put zero chunk st p d) = array_write zero (oop_abs st) p d /\ oop_ok (oop_put zero chunk st p d).
Proof. exact oop_put_refines. Qed.

(* all histories of writes and flushes; what is on disk after the last flush/close is the flat array *)
Theorem oop_histories_refine : forall zero chunk, 1 <= chunk -> forall ops st,
  oop_ok st ->
  oop_abs (fold_left (oop_step zero chunk) ops st) = fold_left (spec_step zero) ops (oop_abs st) /\
  oop_ok (fold_left (oop_step zero chunk) ops st).
Proof. exact oop_history_refines. Qed.

Theorem oop_close_reopen : forall chunk, 1 <= chunk -> forall st, oop_ok st -> o_old (oop_finish chunk st) = oop_abs st.
Proof. exact oop_reopen. Qed.

(* a read through the same handle finishes the pending write first and returns the flat array *)
Theorem oop_read_returns_field : forall chunk, 1 <= chunk -> forall st p n, oop_ok st ->
  snd (oop_get chunk st p n) = firstn n (skipn p (oop_abs st)) /\
  oop_abs (fst (oop_get chunk st p n)) = oop_abs st /\ oop_ok (fst (oop_get chunk st p n)).
Proof. exact oop_get_correct. Qed.

(* ---- SIE: the cursor machine of sie.c (_GD_SampIndSeek with gap padding, _GD_SampIndWrite with
   look-back, run merging/splitting, trailing-record move and truncation) ---- *)
(* one gd_putdata from any reachable cursor (fresh handle on any well-formed file, or after a write) *)
Theorem sie_write_refines : forall zero p data st,
  sie_inv zero st -> (0 <= p)%Z ->
  exists st', sie_put zero p data st = Some st' /\ sie_inv zero st' /\
    sie_abs st' = array_write zero (sie_abs st) (Z.to_nat p) data.
Proof. exact put_ok. Qed.

(* all histories of writes (appends, overwrites, gaps, backward writes, any run structure) with the field
   closed and reopened at will: every call succeeds and the file expands to the flat array *)
Theorem sie_histories_refine : forall zero (ops : list sie_op) st,
  sie_inv zero st -> Forall op_ok ops ->
  exists h, fold_left (sie_op_step zero) ops (Some st) = Some h /\ sie_inv zero h /\
    sie_abs h = fold_left (sie_spec_step zero) ops (sie_abs st).
Proof. exact sie_histories. Qed.

(* from a new field: the flat array, and record ends that strictly increase (what C04 asks of the file) *)
Theorem sie_new_field_refines : forall zero hist, Forall (fun w => (0 <= fst w)%Z) hist ->
  exists h, sie_run zero hist = Some h /\ sie_abs h = spec_of zero hist /\ ends_increasing (-1) (recs h).
Proof. exact sie_refines. Qed.

Theorem sie_reachable_files_increase : forall zero st, sie_inv zero st -> ends_increasing (-1) (recs st).
Proof. exact sie_inv_increasing. Qed.

(* the in-core compression loop of _GD_SampIndWrite, for every run structure of the data and of the
   record being extended: the new records expand to what was there up to p+i-1, followed by the data *)
Theorem sie_incore_compression_correct : forall prev p data i e cur rest,
  (lend prev (rev rest) <= p + i - 1)%Z ->
  exists e' cur' rest',
    compress_loop p i data ((e, cur) :: rest) = (e', cur') :: rest' /\
    sie_expand_from prev (rev ((p + i + Z.of_nat (length data) - 1, cur') :: rest')%Z)
    = sie_expand_from prev (rev ((p + i - 1, cur) :: rest)%Z) ++ data.
Proof. exact compress_loop_spec. Qed.

(* ---- text encoding, at the level of the bytes of the file: appends, gaps and overwrites by lines of the
   same width (the region the property claims) leave exactly the rendering of the flat array ---- *)
Theorem text_write_refines_same_width : forall zero_line ls p d,
  d <> [] ->
  let padded := ls ++ repeat zero_line (p - length ls) in
  let c := covered padded p d in
  same_widths c (firstn (length c) d) ->
  text_put_bytes zero_line ls p d = render (array_write zero_line ls p d).
Proof. exact text_put_same_width. Qed.

(* ---- derived writes ---- *)
(* BIT/SBIT read-modify-write, all 64-bit words: bits of the field take the value, all others are kept *)
Theorem bit_write_changes_exactly_the_field : forall old v bitnum numbits i,
  (0 <= old < 2 ^ 64 -> 0 <= bitnum -> 0 < numbits -> bitnum + numbits <= 64 -> 0 <= i < 64 ->
  Z.testbit (bit_out old v bitnum numbits) i =
    if (bitnum <=? i) && (i <? bitnum + numbits) then Z.testbit v (i - bitnum) else Z.testbit old i)%Z.
Proof. exact bit_out_bits. Qed.

Theorem bit_write_reads_back : forall old v bitnum numbits,
  (0 <= old < 2 ^ 64 -> 0 <= bitnum -> 0 < numbits -> bitnum + numbits <= 64 ->
  bit_in (bit_out old v bitnum numbits) bitnum numbits = Z.land v (bit_mask numbits))%Z.
Proof. exact bit_in_out. Qed.

Theorem phase_write_is_index_shift : forall (A : Type) (zero : A) a shift p d,
  phase_out zero a shift p d = array_write zero a (p + shift) d.
Proof. exact @phase_out_is_shifted_write. Qed.

(* MPLEX: the write does what inverting the read formula dictates, for all sample rates *)
Theorem mplex_write_follows_read_formula : forall (A : Type) (dflt : A) spf1 spf2 cnt val (old new : list A),
  length old = length new -> mplex_code dflt spf1 spf2 cnt val old new = mplex_spec spf1 spf2 cnt val old new.
Proof. exact @mplex_code_is_spec. Qed.

Theorem mplex_write_changes_exactly_the_selected_samples : forall (A : Type) (dflt : A) spf1 spf2 cnt val (old new : list A) i k,
  length old = length new -> k < length old ->
  nth k (mplex_spec_from i spf1 spf2 cnt val old new) dflt =
  if (nth ((i + k) * spf2 / spf1) cnt (val + 1) =? val)%Z then nth k new dflt else nth k old dflt.
Proof. exact @mplex_spec_nth_from. Qed.

(* first-order LINCOM / POLYNOM, RECIP, monotonic LINTERP: the written value is the one the read formula maps back *)
Theorem lincom_write_inverts_read : forall m b y : Q, ~ (m == 0)%Q -> (lincom_read m b (lincom_out m b y) == y)%Q.
Proof. exact lincom_out_inverts. Qed.
Theorem lincom_write_is_the_only_preimage : forall m b x : Q, ~ (m == 0)%Q -> (lincom_out m b (lincom_read m b x) == x)%Q.
Proof. exact lincom_out_unique. Qed.
Theorem recip_write_inverts_read : forall a y : Q, ~ (a == 0)%Q -> ~ (y == 0)%Q -> (recip_read a (recip_out a y) == y)%Q.
Proof. exact recip_out_inverts. Qed.
Theorem linterp_reverse_table_is_inverse_relation : forall lut x y, In (x, y) lut <-> In (y, x) (reverse_table lut).
Proof. exact reverse_table_knots. Qed.
Theorem linterp_segment_inverse : forall x0 y0 x1 y1 x : Q, ~ (x1 - x0 == 0)%Q -> ~ (y1 - y0 == 0)%Q ->
  (seg_interp y0 x0 y1 x1 (seg_interp x0 y0 x1 y1 x) == x)%Q.
Proof. exact seg_interp_inverse. Qed.

(* hypotheses are satisfiable *)
Example sie_inv_inhabited : sie_inv [0%Z] (sie_open [0%Z] [(3%Z, [7%Z])]).
Proof. left. eexists. split; [reflexivity|]. cbn. lia. Qed.

Example oop_ok_inhabited : oop_ok (mkOop [[1%Z]; [2%Z]] true true 1 (Some [[7%Z]])).
Proof. split; [split; cbn; [reflexivity | discriminate] | discriminate]. Qed.
