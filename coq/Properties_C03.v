(* Property theorems for C03 -- statements only; proofs are `exact` of lemmas. *)
From Coq Require Import ZArith List Bool Lia.
From GD Require Import C04.Bytes C03.Write C03.WriteProofs.
Import ListNotations.

Theorem field_ends_at_highest_sample_written : forall (A : Type) (zero : A) a p d,
  d <> [] -> length (array_write zero a p d) = Nat.max (length a) (p + length d).
Proof. exact @array_write_length. Qed.
