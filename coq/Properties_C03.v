(* Property theorems for C03 -- statements only; proofs are `exact` of lemmas. *)
From Coq Require Import ZArith List Bool Lia.
From GD Require Import C04.Bytes C03.Write C03.WriteProofs C03.Sie C03.SieProofs.
Import ListNotations.

(* the field ends at the highest sample written *)
Theorem field_ends_at_highest_sample_written : forall (A : Type) (zero : A) a p d,
  d <> [] -> length (array_write zero a p d) = Nat.max (length a) (p + length d).
Proof. exact @array_write_length. Qed.

(* ---- unencoded files, any type, byte order (incl. ARM) and host ---- *)
Theorem raw_write_refines : forall h t s vs p d,
  Forall (wf_sample t) vs -> Forall (wf_sample t) d ->
  raw_put h t s (raw_layout h t s vs) p d = raw_layout h t s (array_write (zero_sample t) vs p d).
Proof. exact raw_put_refines. Qed.

Theorem raw_history_reads_back : forall h t s (ops : list (nat * list sample)) vs,
  Forall (wf_sample t) vs -> Forall (fun o => Forall (wf_sample t) (snd o)) ops ->
  raw_decode h t s (fold_left (fun f o => raw_put h t s f (fst o) (snd o)) ops (raw_layout h t s vs))
  = apply_writes (zero_sample t) vs ops.
Proof. exact raw_history_refines. Qed.

(* ---- gzip / bzip2 / lzma: the out-of-place protocol, any copy-buffer size >= 1 ---- *)
Theorem oop_write_refines : forall zero chunk, 1 <= chunk -> forall st p d,
  oop_ok st -> d <> [] ->
  oop_abs (oop_put zero chunk st p d) = array_write zero (oop_abs st) p d /\ oop_ok (oop_put zero chunk st p d).
Proof. exact oop_put_refines. Qed.

(* all histories of writes and flushes; what is on disk after the last flush/close is the flat array *)
Theorem oop_histories_refine : forall zero chunk, 1 <= chunk -> forall ops st,
  oop_ok st ->
  oop_abs (fold_left (oop_step zero chunk) ops st) = fold_left (spec_step zero) ops (oop_abs st) /\
  oop_ok (fold_left (oop_step zero chunk) ops st).
Proof. exact oop_history_refines. Qed.

Theorem oop_close_reopen : forall chunk, 1 <= chunk -> forall st, oop_ok st -> o_old (oop_finish chunk st) = oop_abs st.
Proof. exact oop_reopen. Qed.

(* a read through the same handle finishes the pending write first and returns the flat array *)
Theorem oop_read_returns_field : forall chunk, 1 <= chunk -> forall st n, oop_ok st ->
  snd (oop_get chunk st n) = firstn n (oop_abs st) /\
  oop_abs (fst (oop_get chunk st n)) = oop_abs st /\ oop_ok (fst (oop_get chunk st n)).
Proof. exact oop_get_correct. Qed.

(* ---- SIE: the cursor machine of sie.c ---- *)
Definition sie_record_ends_increase_statement : Prop := sie_increasing_statement.
Theorem sie_record_ends_increase_refuted : ~ sie_increasing_statement.
Proof. exact sie_increasing_refuted. Qed.

(* ---- derived writes ---- *)
(* BIT/SBIT read-modify-write, all 64-bit words: bits of the field take the value, all others are kept *)
Theorem bit_write_changes_exactly_the_field : forall old v bitnum numbits i,
  (0 <= old < 2 ^ 64 -> 0 <= bitnum -> 0 < numbits -> bitnum + numbits <= 64 -> 0 <= i < 64 ->
  Z.testbit (bit_out old v bitnum numbits) i =
    if (bitnum <=? i) && (i <? bitnum + numbits) then Z.testbit v (i - bitnum) else Z.testbit old i)%Z.
Proof. exact bit_out_bits. Qed.

Theorem bit_write_reads_back : forall old v bitnum numbits,
  (0 <= old < 2 ^ 64 -> 0 <= bitnum -> 0 < numbits -> bitnum + numbits <= 64 ->
  bit_in (bit_out old v bitnum numbits) bitnum numbits = Z.land v (bit_mask numbits))%Z.
Proof. exact bit_in_out. Qed.

Theorem phase_write_is_index_shift : forall (A : Type) (zero : A) a shift p d,
  phase_out zero a shift p d = array_write zero a (p + shift) d.
Proof. exact @phase_out_is_shifted_write. Qed.

(* MPLEX: the write does what inverting the read formula dictates, for all sample rates *)
Theorem mplex_write_follows_read_formula : forall (A : Type) (dflt : A) spf1 spf2 cnt val (old new : list A),
  length old = length new -> mplex_code dflt spf1 spf2 cnt val old new = mplex_spec spf1 spf2 cnt val old new.
Proof. exact @mplex_code_is_spec. Qed.

Theorem mplex_write_changes_exactly_the_selected_samples : forall (A : Type) (dflt : A) spf1 spf2 cnt val (old new : list A) i k,
  length old = length new -> k < length old ->
  nth k (mplex_spec_from i spf1 spf2 cnt val old new) dflt =
  if (nth ((i + k) * spf2 / spf1) cnt (val + 1) =? val)%Z then nth k new dflt else nth k old dflt.
Proof. exact @mplex_spec_nth_from. Qed.

(* hypotheses are satisfiable *)
Example oop_ok_inhabited : oop_ok (mkOop [[1%Z]; [2%Z]] true true 1 (Some [[7%Z]])).
Proof. split; [split; cbn; [reflexivity | discriminate] | discriminate]. Qed.
